//! Simulated NOR flash with AND-program semantics, block erase, bounds errors,
//! full operation log, crash (power loss) injection with torn programs, and
//! transient fault injection. Implements the `SpiFlash` trait of both crates.

use std::future::Future;
use std::pin::pin;
use std::task::{Context, Poll, RawWaker, RawWakerVTable, Waker};

/// The library's futures never pend against a synchronous flash: poll until ready.
pub fn block_on<F: Future>(f: F) -> F::Output {
    fn noop(_: *const ()) {}
    fn clone(_: *const ()) -> RawWaker {
        RawWaker::new(std::ptr::null(), &VT)
    }
    static VT: RawWakerVTable = RawWakerVTable::new(clone, noop, noop, noop);
    let w = unsafe { Waker::from_raw(RawWaker::new(std::ptr::null(), &VT)) };
    let mut cx = Context::from_waker(&w);
    let mut f = pin!(f);
    let mut spins = 0u64;
    loop {
        if let Poll::Ready(v) = f.as_mut().poll(&mut cx) {
            return v;
        }
        spins += 1;
        assert!(spins < 1_000_000, "future does not complete");
    }
}

#[derive(Clone, Debug, PartialEq)]
pub enum Op {
    /// erase of one block at address
    Erase(usize),
    /// program: address, bytes requested, and whether it needed a 0 -> 1 transition
    Prog(usize, Vec<u8>, bool),
    /// read: address, length (only recorded when `log_reads`)
    Read(usize, usize),
}

#[derive(Clone, Copy, Debug, PartialEq)]
pub enum SimErr {
    Unaligned,
    OutOfBounds,
    Hardware,
}

#[derive(Clone)]
pub struct SimNor {
    pub mem: Vec<u8>,
    pub bs: usize,
    /// all operations issued so far (reads, programs, erases), including failed ones
    pub ops: usize,
    /// modifying operations (programs, erases) that took effect so far
    pub wops: usize,
    /// power is lost when the modifying operation with this (absolute) index is attempted
    pub crash_at: Option<usize>,
    /// torn outcome of the interrupted program: number of fully programmed bytes, and for the
    /// next byte the mask of bits that stay as they were ("keep" bits)
    pub torn: Option<(usize, u8)>,
    pub dead: bool,
    /// the operation with this (absolute) index fails without any effect on the medium (once)
    pub fail_at: Option<usize>,
    pub log: Vec<Op>,
    pub log_reads: bool,
    /// running hash of the (address, length) of successful reads since it was last reset
    pub rhash: u64,
}

impl SimNor {
    pub fn new(bs: usize, total: usize) -> Self {
        SimNor {
            mem: vec![0xFF; total],
            bs,
            ops: 0,
            wops: 0,
            crash_at: None,
            torn: None,
            dead: false,
            fail_at: None,
            log: vec![],
            log_reads: false,
            rhash: 0,
        }
    }

    /// power comes back: same medium, counters keep running, nothing armed
    pub fn reboot(&mut self) {
        self.dead = false;
        self.crash_at = None;
        self.torn = None;
        self.fail_at = None;
    }

    fn fault(&mut self) -> bool {
        let i = self.ops;
        self.ops += 1;
        if self.fail_at == Some(i) {
            self.fail_at = None;
            return true;
        }
        false
    }

    pub fn do_erase(&mut self, a: usize) -> Result<(), SimErr> {
        if self.dead {
            return Err(SimErr::Hardware);
        }
        if a % self.bs != 0 {
            return Err(SimErr::Unaligned);
        }
        if a >= self.mem.len() || a + self.bs > self.mem.len() {
            return Err(SimErr::OutOfBounds);
        }
        if self.fault() {
            return Err(SimErr::Hardware);
        }
        if self.crash_at == Some(self.wops) {
            self.dead = true;
            return Err(SimErr::Hardware);
        }
        self.wops += 1;
        self.log.push(Op::Erase(a));
        for b in &mut self.mem[a..a + self.bs] {
            *b = 0xFF;
        }
        Ok(())
    }

    pub fn do_read(&mut self, a: usize, buf: &mut [u8]) -> Result<(), SimErr> {
        if self.dead {
            return Err(SimErr::Hardware);
        }
        if a.checked_add(buf.len()).map_or(true, |e| e > self.mem.len()) {
            return Err(SimErr::OutOfBounds);
        }
        if self.fault() {
            return Err(SimErr::Hardware);
        }
        self.rhash = ((self.rhash as u128 * 1000003 + a as u128 * 31 + buf.len() as u128) % 2305843009213693951u128) as u64;
        if self.log_reads {
            self.log.push(Op::Read(a, buf.len()));
        }
        buf.copy_from_slice(&self.mem[a..a + buf.len()]);
        Ok(())
    }

    pub fn do_write(&mut self, a: usize, buf: &[u8]) -> Result<(), SimErr> {
        if self.dead {
            return Err(SimErr::Hardware);
        }
        if a.checked_add(buf.len()).map_or(true, |e| e > self.mem.len()) {
            return Err(SimErr::OutOfBounds);
        }
        if self.fault() {
            return Err(SimErr::Hardware);
        }
        if self.crash_at == Some(self.wops) {
            self.dead = true;
            if let Some((k, keep)) = self.torn.take() {
                for (i, (m, b)) in self.mem[a..].iter_mut().zip(buf).enumerate() {
                    if i < k {
                        *m &= *b;
                    } else if i == k {
                        *m &= *b | keep;
                    }
                }
            }
            return Err(SimErr::Hardware);
        }
        self.wops += 1;
        let mut z2o = false;
        for (m, b) in self.mem[a..].iter_mut().zip(buf) {
            if (!*m) & *b != 0 {
                z2o = true;
            }
            *m &= *b;
        }
        self.log.push(Op::Prog(a, buf.to_vec(), z2o));
        Ok(())
    }

    /// drain the log into a canonical string: `E@addr` / `W@addr:hex[!]` (`!` marks a needed 0->1)
    pub fn take_log(&mut self) -> String {
        // runs of erases of consecutive blocks are written `E@start*count`
        let ops: Vec<Op> = self.log.drain(..).collect();
        let mut v: Vec<String> = vec![];
        let mut i = 0;
        while i < ops.len() {
            if let Op::Erase(a) = ops[i] {
                let mut k = 1;
                while i + k < ops.len() && ops[i + k] == Op::Erase(a + k * self.bs) {
                    k += 1;
                }
                v.push(if k == 1 { format!("E@{a:x}") } else { format!("E@{a:x}*{k}") });
                i += k;
            } else {
                v.push(fmt_op(&ops[i]));
                i += 1;
            }
        }
        v.join(",")
    }
}

pub fn fmt_op(o: &Op) -> String {
    match o {
        Op::Erase(a) => format!("E@{a:x}"),
        Op::Prog(a, d, z) => format!("W@{a:x}:{}{}", hex(d), if *z { "!" } else { "" }),
        Op::Read(a, l) => format!("R@{a:x}+{l:x}"),
    }
}

pub fn hex(d: &[u8]) -> String {
    let mut s = String::with_capacity(d.len() * 2);
    for b in d {
        s.push_str(&format!("{b:02x}"));
    }
    s
}

pub fn unhex(s: &str) -> Vec<u8> {
    let s = s.trim();
    if s == "-" {
        return vec![];
    }
    (0..s.len() / 2)
        .map(|i| u8::from_str_radix(&s[2 * i..2 * i + 2], 16).expect("hex"))
        .collect()
}

macro_rules! impl_spi {
    ($krate:ident) => {
        impl $krate::spi_flash::SpiFlash for SimNor {
            type Error = ();
            fn total_size(&self) -> usize {
                self.mem.len()
            }
            fn block_size(&self) -> usize {
                self.bs
            }
            async fn erase_block(&mut self, a: usize) -> Result<(), $krate::spi_flash::SpiFlashError<()>> {
                self.do_erase(a).map_err(|e| match e {
                    SimErr::Unaligned => $krate::spi_flash::SpiFlashError::UnalignedAccess,
                    SimErr::OutOfBounds => $krate::spi_flash::SpiFlashError::OutOfBounds,
                    SimErr::Hardware => $krate::spi_flash::SpiFlashError::HardwareFailure,
                })
            }
            async fn erase_all(&mut self) -> Result<(), $krate::spi_flash::SpiFlashError<()>> {
                let bs = self.bs;
                let mut a = 0;
                while a < self.mem.len() {
                    self.do_erase(a).map_err(|_| $krate::spi_flash::SpiFlashError::HardwareFailure)?;
                    a += bs;
                }
                Ok(())
            }
            async fn read_to(&mut self, a: usize, buf: &mut [u8]) -> Result<(), $krate::spi_flash::SpiFlashError<()>> {
                self.do_read(a, buf).map_err(|e| match e {
                    SimErr::Unaligned => $krate::spi_flash::SpiFlashError::UnalignedAccess,
                    SimErr::OutOfBounds => $krate::spi_flash::SpiFlashError::OutOfBounds,
                    SimErr::Hardware => $krate::spi_flash::SpiFlashError::HardwareFailure,
                })
            }
            async fn write_from(&mut self, a: usize, buf: &[u8]) -> Result<(), $krate::spi_flash::SpiFlashError<()>> {
                self.do_write(a, buf).map_err(|e| match e {
                    SimErr::Unaligned => $krate::spi_flash::SpiFlashError::UnalignedAccess,
                    SimErr::OutOfBounds => $krate::spi_flash::SpiFlashError::OutOfBounds,
                    SimErr::Hardware => $krate::spi_flash::SpiFlashError::HardwareFailure,
                })
            }
        }
    };
}

impl_spi!(flash_algo_new);
impl_spi!(original_flash_algo);

/// run a closure, turning a panic into `Err(())` (the panic message is suppressed by the hook in main)
pub fn guard<R>(f: impl FnOnce() -> R) -> Result<R, ()> {
    std::panic::catch_unwind(std::panic::AssertUnwindSafe(f)).map_err(|_| ())
}
