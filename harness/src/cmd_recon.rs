//! recon stream: parity_reconstruct::Reconstructor over instrumented in-memory storages.
//! case:   n cap vbits bs fail|idx:rowhex,...|idx:blockhex,...     (fail = storage-operation index to fail once, or -)
//! result: results|storage-call log|final data store|done bits/used bits/l
use crate::sim::*;
use bitvec::array::BitArray;
use bitvec::view::BitViewSized;
use parity_reconstruct::*;
use std::cell::RefCell;
use std::collections::HashMap;
use std::io::BufRead;
use std::rc::Rc;

type U = [u8; 32];

/// little-endian bytes as a hexadecimal number without leading zeros
pub fn num_hex(le: &[u8]) -> String {
    let mut s = String::new();
    for b in le.iter().rev() {
        if s.is_empty() {
            if *b != 0 {
                s.push_str(&format!("{b:x}"));
            }
        } else {
            s.push_str(&format!("{b:02x}"));
        }
    }
    if s.is_empty() {
        s.push('0');
    }
    s
}
/// hexadecimal number to little-endian bytes of the given length
pub fn num_bytes(h: &str, len: usize) -> Vec<u8> {
    let mut out = vec![0u8; len];
    let hs: Vec<u8> = h.bytes().rev().collect();
    for (i, c) in hs.iter().enumerate() {
        let d = (*c as char).to_digit(16).expect("hex") as u8;
        if i / 2 < len {
            out[i / 2] |= d << (4 * (i % 2));
        }
    }
    out
}

struct Shared {
    log: Vec<String>,
    ops: usize,
    fail_at: Option<usize>,
}
impl Shared {
    fn fails(&mut self) -> bool {
        let i = self.ops;
        self.ops += 1;
        if self.fail_at == Some(i) {
            self.log.push("F".into());
            true
        } else {
            false
        }
    }
}
type Sh = Rc<RefCell<Shared>>;

struct Mat {
    n: usize,
    tbl: HashMap<usize, Vec<u8>>,
}
impl ParityMatrix<U> for Mat {
    fn row(&self, m: usize) -> BitArray<U> {
        let mut raw = [0u8; 32];
        if m < self.n {
            raw[m / 8] |= 1 << (m % 8);
        } else if let Some(r) = self.tbl.get(&m) {
            raw.copy_from_slice(r);
        }
        BitArray::new(raw)
    }
}
struct MS<V: BitViewSized> {
    rows: Vec<Option<BitArray<V>>>,
    sh: Sh,
}
impl<V: BitViewSized> MatrixStorage<V> for MS<V>
where
    BitArray<V>: Clone,
{
    type Error = ();
    async fn set_row(&mut self, m: usize, d: BitArray<V>) -> Result<(), ()> {
        if self.sh.borrow_mut().fails() {
            return Err(());
        }
        let bytes: Vec<u8> = d.as_raw_slice().iter().flat_map(|e| elem_bytes(e)).collect();
        self.sh.borrow_mut().log.push(format!("ms{m}={}", num_hex(&bytes)));
        self.rows[m] = Some(d);
        Ok(())
    }
    async fn row(&mut self, m: usize) -> Result<BitArray<V>, ()> {
        if self.sh.borrow_mut().fails() {
            return Err(());
        }
        self.sh.borrow_mut().log.push(format!("mg{m}"));
        Ok(self.rows[m].clone().unwrap_or(BitArray::ZERO))
    }
    fn num_rows(&self) -> usize {
        self.rows.len()
    }
}
fn elem_bytes<T: bitvec::store::BitStore>(e: &T) -> Vec<u8> {
    // V is always a byte array here
    let v: T::Mem = e.load_value();
    let p = &v as *const T::Mem as *const u8;
    let sz = std::mem::size_of::<T::Mem>();
    unsafe { std::slice::from_raw_parts(p, sz).to_vec() }
}
struct BS {
    d: Vec<Option<Vec<u8>>>,
    sh: Sh,
    tag: char,
    lens: Vec<usize>,
}
impl BS {
    fn st(&mut self, m: usize, d: &[u8]) -> Result<(), ()> {
        if self.sh.borrow_mut().fails() {
            return Err(());
        }
        self.sh.borrow_mut().log.push(format!("{}s{m}={}", self.tag, num_hex(d)));
        self.lens.push(d.len());
        self.d[m] = Some(d.to_vec());
        Ok(())
    }
    fn gt(&mut self, m: usize, b: &mut [u8]) -> Result<(), ()> {
        if self.sh.borrow_mut().fails() {
            return Err(());
        }
        self.sh.borrow_mut().log.push(format!("{}g{m}", self.tag));
        self.lens.push(b.len());
        match self.d[m].as_ref() {
            Some(v) if v.len() == b.len() => b.copy_from_slice(v),
            Some(_) => {
                self.sh.borrow_mut().log.push("BADLEN".into());
            }
            None => {
                // read of a location never stored: a conforming back-end may return anything; zeros here
                for x in b.iter_mut() {
                    *x = 0;
                }
            }
        }
        Ok(())
    }
}
struct PS(Rc<RefCell<BS>>);
impl ParityStorage for PS {
    type Error = ();
    async fn store(&mut self, m: usize, d: &[u8]) -> Result<(), ()> {
        self.0.borrow_mut().st(m, d)
    }
    async fn get(&mut self, m: usize, b: &mut [u8]) -> Result<(), ()> {
        self.0.borrow_mut().gt(m, b)
    }
}
struct DS(Rc<RefCell<BS>>);
impl DataStorage for DS {
    type Error = ();
    async fn store(&mut self, m: usize, d: &[u8]) -> Result<(), ()> {
        self.0.borrow_mut().st(m, d)
    }
    async fn get(&mut self, m: usize, b: &mut [u8]) -> Result<(), ()> {
        self.0.borrow_mut().gt(m, b)
    }
}

fn run_case<V: BitViewSized>(n: usize, cap: usize, bs: usize, fail: Option<usize>, tbl: HashMap<usize, Vec<u8>>, blocks: &[(usize, Vec<u8>)]) -> String
where
    BitArray<V>: Clone,
{
    let sh: Sh = Rc::new(RefCell::new(Shared { log: vec![], ops: 0, fail_at: fail }));
    let ds = Rc::new(RefCell::new(BS { d: vec![None; n], sh: sh.clone(), tag: 'd', lens: vec![] }));
    let ps = Rc::new(RefCell::new(BS { d: vec![None; cap], sh: sh.clone(), tag: 'p', lens: vec![] }));
    let mut rd = ReconstructorData::<U, V>::new(n, bs);
    let mut rs = vec![];
    // every other case re-hydrates the reconstructor before each block (as flash-algo-new's Updater does for every segment),
    // the others hydrate once (as the crate's unit tests do): the persistent state is ReconstructorData alone
    let per_block = blocks.len() % 2 == 0;
    let mut parts = Some((Mat { n, tbl }, MS::<V> { rows: vec![None; cap], sh: sh.clone() }, PS(ps.clone()), DS(ds.clone())));
    let mut push = |r: Result<Result<BlockResult, _>, _>, rs: &mut Vec<String>| {
        sh.borrow_mut().log.push(";".into());
        rs.push(match r {
            Err(_) => "P".to_string(),
            Ok(Err(_)) => "E".to_string(),
            Ok(Ok(BlockResult::NeedMore)) => "N".to_string(),
            Ok(Ok(BlockResult::TooManyMissing)) => "T".to_string(),
            Ok(Ok(BlockResult::Done(l))) => format!("D{l:x}"),
        });
    };
    if per_block {
        for (idx, val) in blocks {
            let (a, b, c, d) = parts.take().unwrap();
            let mut rec: Reconstructor<_, _, _, _, 256, U, V> = rd.hydrate(a, b, c, d);
            let r = guard(|| block_on(rec.handle_block(*idx, val)));
            parts = Some(rec.desiccate());
            push(r, &mut rs);
        }
    } else {
        let (a, b, c, d) = parts.take().unwrap();
        let mut rec: Reconstructor<_, _, _, _, 256, U, V> = rd.hydrate(a, b, c, d);
        for (idx, val) in blocks {
            let r = guard(|| block_on(rec.handle_block(*idx, val)));
            push(r, &mut rs);
        }
    }
    let dat: Vec<String> = ds.borrow().d.iter().map(|o| match o { None => "-".into(), Some(b) => num_hex(b) }).collect();
    let badlen = ds.borrow().lens.iter().chain(ps.borrow().lens.iter()).any(|l| *l != bs);
    let done: String = (0..n).map(|i| if rd.done[i] { '1' } else { '0' }).collect();
    let used: String = (0..cap).map(|i| if rd.used[i] { '1' } else { '0' }).collect();
    format!("{}|{}|{}|{}/{}/{}{}", rs.join(","), sh.borrow().log.join(",").replace(",;", ";").replace(";,", ";"), dat.join(","), done, used, rd.l, if badlen { "|BADLEN" } else { "" })
}

pub fn run() {
    for line in std::io::stdin().lock().lines() {
        let line = line.unwrap();
        let parts: Vec<&str> = line.split('|').collect();
        if parts.len() != 3 {
            println!("?");
            continue;
        }
        let h: Vec<&str> = parts[0].split_whitespace().collect();
        let (n, cap, vb, bs): (usize, usize, usize, usize) = (h[0].parse().unwrap(), h[1].parse().unwrap(), h[2].parse().unwrap(), h[3].parse().unwrap());
        let fail = h.get(4).and_then(|x| x.parse::<usize>().ok());
        let tbl: HashMap<usize, Vec<u8>> = parts[1].split(',').filter(|t| !t.trim().is_empty()).map(|t| {
            let (a, b) = t.trim().split_once(':').unwrap();
            (a.parse().unwrap(), num_bytes(b, 32))
        }).collect();
        let blocks: Vec<(usize, Vec<u8>)> = parts[2].split(',').filter(|t| !t.trim().is_empty()).map(|t| {
            let (a, b) = t.trim().split_once(':').unwrap();
            (a.parse().unwrap(), num_bytes(b, bs))
        }).collect();
        let out = match vb {
            8 => run_case::<[u8; 1]>(n, cap, bs, fail, tbl, &blocks),
            64 => run_case::<[u8; 8]>(n, cap, bs, fail, tbl, &blocks),
            256 => run_case::<[u8; 32]>(n, cap, bs, fail, tbl, &blocks),
            _ => "?vbits".to_string(),
        };
        println!("{out}");
    }
}
