//! Prints the public constants of the crates as compiled from /repo's working tree.
//! `fvcheck` turns the output into coq/gen/Consts.v.
use flash_algo_new::layout as nl;
use flash_algo_new::layout::FlashRepr as _;
use original_flash_algo::manager as om;
use original_flash_algo::protocol as op;
use original_flash_algo::protocol::FlashRepr as _;

pub fn run() {
    macro_rules! p {
        ($name:expr, $v:expr) => {
            println!("{}={}", $name, $v as u64);
        };
    }
    // flash-algo-new
    p!("KIND_FIRMWARE", nl::Kind::FIRMWARE);
    p!("KIND_PARITY", nl::Kind::PARITY);
    p!("EXT_IN_PROGRESS", nl::WriteExtStatus::IN_PROGRESS);
    p!("EXT_ABORTED", nl::WriteExtStatus::ABORTED);
    p!("EXT_COMPLETE", nl::WriteExtStatus::COMPLETE);
    p!("INT_IN_PROGRESS", nl::WriteIntStatus::IN_PROGRESS);
    p!("INT_COMPLETE", nl::WriteIntStatus::COMPLETE);
    p!("BOOT_UNTESTED", nl::BootOutcome::UNTESTED);
    p!("BOOT_SUCCESSFUL", nl::BootOutcome::SUCCESSFUL);
    p!("BOOT_UNSUCCESSFUL", nl::BootOutcome::UNSUCCESSFUL);
    p!("MAX_SEGMENTS", nl::segment_status_table::MAX_SEGMENTS);
    p!("MAX_SEGMENT_SIZE", nl::segment_status_table::MAX_SEGMENT_SIZE);
    p!("DATA_WRITTEN", nl::segment_status_table::DATA_WRITTEN);
    p!("DATA_NOT_WRITTEN", nl::segment_status_table::DATA_NOT_WRITTEN);
    p!("HEADER_OFFSET", nl::HEADER_OFFSET);
    p!("HEADER_SIZE", nl::HEADER_SIZE);
    p!("WRITTEN_OFFSET", nl::WRITTEN_OFFSET);
    p!("WRITTEN_SIZE", nl::WRITTEN_SIZE);
    p!("DATA_REGION_OFFSET", nl::DATA_REGION_OFFSET);
    p!("DATA_CRC32_OFFSET", nl::DATA_CRC32_OFFSET);
    p!("DATA_SIGNATURE_OFFSET", nl::DATA_SIGNATURE_OFFSET);
    p!("DATA_PAYLOAD_OFFSET", nl::DATA_PAYLOAD_OFFSET);
    p!("KIND_OFFSET", nl::SlotHeader::KIND_OFFSET);
    p!("SEQUENCE_NUMBER_OFFSET", nl::SlotHeader::SEQUENCE_NUMBER_OFFSET);
    p!("SEGMENT_SIZE_OFFSET", nl::SlotHeader::SEGMENT_SIZE_OFFSET);
    p!("NUMBER_OF_SEGMENTS_OFFSET", nl::SlotHeader::NUMBER_OF_SEGMENTS_OFFSET);
    p!("WRITE_EXT_STATUS_OFFSET", nl::SlotHeader::WRITE_EXT_STATUS_OFFSET);
    p!("WRITE_INT_STATUS_OFFSET", nl::SlotHeader::WRITE_INT_STATUS_OFFSET);
    p!("BOOT_OUTCOME_OFFSET", nl::SlotHeader::BOOT_OUTCOME_OFFSET);
    p!("SLOT_HEADER_SIZE", nl::SlotHeader::SIZE);
    p!("CRC32_SIZE", nl::Crc32::SIZE);
    p!("SIGNATURE_SIZE", nl::Signature::SIZE);
    // original-flash-algo
    p!("O_KIND_FIRMWARE", op::Kind::FIRMWARE);
    p!("O_KIND_PARITY", op::Kind::PARITY);
    p!("O_EXT_IN_PROGRESS", op::WriteExtStatus::IN_PROGRESS);
    p!("O_EXT_ABORTED", op::WriteExtStatus::ABORTED);
    p!("O_EXT_COMPLETE", op::WriteExtStatus::COMPLETE);
    p!("O_INT_IN_PROGRESS", op::WriteIntStatus::IN_PROGRESS);
    p!("O_INT_COMPLETE", op::WriteIntStatus::COMPLETE);
    p!("O_BOOT_UNTESTED", op::BootOutcome::UNTESTED);
    p!("O_BOOT_SUCCESSFUL", op::BootOutcome::SUCCESSFUL);
    p!("O_BOOT_UNSUCCESSFUL", op::BootOutcome::UNSUCCESSFUL);
    p!("O_MAX_SEGMENTS", op::segment_status_table::MAX_SEGMENTS);
    p!("O_MAX_SEGMENT_SIZE", op::segment_status_table::MAX_SEGMENT_SIZE);
    p!("O_DATA_WRITTEN", op::segment_status_table::DATA_WRITTEN);
    p!("O_DATA_NOT_WRITTEN", op::segment_status_table::DATA_NOT_WRITTEN);
    p!("O_HEADER_SIZE", om::HEADER_SIZE);
    p!("O_WRITTEN_OFFSET", om::WRITTEN_OFFSET);
    p!("O_DATA_REGION_OFFSET", om::DATA_REGION_OFFSET);
    p!("O_DATA_PAYLOAD_OFFSET", om::DATA_PAYLOAD_OFFSET);
    p!("O_KIND_OFFSET", op::SlotHeader::KIND_OFFSET);
    p!("O_SEQUENCE_NUMBER_OFFSET", op::SlotHeader::SEQUENCE_NUMBER_OFFSET);
    p!("O_SEGMENT_SIZE_OFFSET", op::SlotHeader::SEGMENT_SIZE_OFFSET);
    p!("O_NUMBER_OF_SEGMENTS_OFFSET", op::SlotHeader::NUMBER_OF_SEGMENTS_OFFSET);
    p!("O_WRITE_EXT_STATUS_OFFSET", op::SlotHeader::WRITE_EXT_STATUS_OFFSET);
    p!("O_WRITE_INT_STATUS_OFFSET", op::SlotHeader::WRITE_INT_STATUS_OFFSET);
    p!("O_BOOT_OUTCOME_OFFSET", op::SlotHeader::BOOT_OUTCOME_OFFSET);
    p!("O_SLOT_HEADER_SIZE", op::SlotHeader::SIZE);
}
