//! orig stream: the deprecated original-flash-algo manager driven by a script on SimNor.
//! case: NSLOTS SLOTSIZE BLOCKSIZE|op;op;...   ops: start SZ CNT | seg IDX HEX | done | drop | recover | cancel | bl |
//!       crash K [J KEEP] | reboot | raw ADDR HEX | dump I OFF LEN | hdrs
//! `seg` = write_segment followed by the documented driver loop (repair_step until None).
use crate::sim::*;
use original_flash_algo::manager::{ActiveStatus, AppBootStatus, BlBootStatus, ManagerError, ScratchRam, SlotManager, WriteSegmentOutcome};
use original_flash_algo::spi_flash::SpiFlashError;
use std::io::BufRead;

fn spi(e: &SpiFlashError<()>) -> &'static str {
    match e {
        SpiFlashError::UnalignedAccess => "Unaligned",
        SpiFlashError::OutOfBounds => "OutOfBounds",
        SpiFlashError::HardwareFailure => "HardwareFailure",
        SpiFlashError::Custom(_) => "Custom",
        SpiFlashError::LogicError => "LogicError",
    }
}
fn merr(e: &ManagerError<()>) -> String {
    match e {
        ManagerError::Spi(s) => format!("Spi({})", spi(s)),
        ManagerError::FlashRepr(_) => "FlashRepr".into(),
        ManagerError::Fatal => "Fatal".into(),
        ManagerError::UnexpectedMissingHeader => "UnexpectedMissingHeader".into(),
        ManagerError::SegmentCountMismatch => "SegmentCountMismatch".into(),
        ManagerError::SegmentSizeMismatch => "SegmentSizeMismatch".into(),
        ManagerError::TooManySegments => "TooManySegments".into(),
        ManagerError::SegmentsTooLarge => "SegmentsTooLarge".into(),
        ManagerError::Crc32Mismatch => "Crc32Mismatch".into(),
        ManagerError::CheckFailNotDone => "CheckFailNotDone".into(),
    }
}
fn counters(u: &ActiveStatus) -> String {
    let (rf, rp) = u.remaining();
    format!("r={}/{}/{}", rf, u.total_firmware_segments(), rp)
}

fn run_case<const N: usize>(slot: usize, bs: usize, ops: &[&str]) -> String {
    let mut f = SimNor::new(bs, N * slot);
    let mut scratch = ScratchRam::new();
    let mut m = match guard(|| SlotManager::<N>::new(slot)) {
        Ok(m) => m,
        Err(_) => return "newpanic".into(),
    };
    let mut sess: Option<ActiveStatus> = None;
    let mut out: Vec<String> = vec![];
    for op in ops {
        let t: Vec<&str> = op.split_whitespace().collect();
        if t.is_empty() {
            continue;
        }
        f.log.clear();
        let mut tok = match t[0] {
            "start" => {
                let sz: u32 = t[1].parse().unwrap();
                let cnt: u32 = t[2].parse().unwrap();
                sess = None;
                match guard(|| block_on(m.start(&mut f, &mut scratch, sz, cnt))) {
                    Err(_) => "panic".to_string(),
                    Ok(Err(e)) => format!("err:{}", merr(&e)),
                    Ok(Ok(u)) => {
                        let s = format!("ok:{}", counters(&u));
                        sess = Some(u);
                        s
                    }
                }
            }
            "seg" => {
                let idx: u32 = t[1].parse().unwrap();
                let data = unhex(t.get(2).copied().unwrap_or("-"));
                match sess.as_mut() {
                    None => "nosession".to_string(),
                    Some(u) => {
                        let r = guard(|| {
                            let o = block_on(u.write_segment(&mut f, &mut scratch, idx, &data))?;
                            if o == WriteSegmentOutcome::ConsumedMaybeParity {
                                while block_on(u.repair_step(&mut f, &mut scratch))?.is_some() {}
                            }
                            Ok::<bool, SpiFlashError<()>>(u.is_complete() && o != WriteSegmentOutcome::Consumed || o == WriteSegmentOutcome::FirmwareComplete)
                        });
                        match r {
                            Err(_) => {
                                sess = None;
                                "panic".to_string()
                            }
                            Ok(Err(e)) => format!("err:Spi({}):{}", spi(&e), counters(sess.as_ref().unwrap())),
                            Ok(Ok(true)) => format!("F:{}", counters(sess.as_ref().unwrap())),
                            Ok(Ok(false)) => format!("C:{}", counters(sess.as_ref().unwrap())),
                        }
                    }
                }
            }
            "done" => match sess.as_mut() {
                None => "nosession".to_string(),
                Some(u) => {
                    let r = guard(|| block_on(u.check_and_mark_done(&mut f, &mut scratch)));
                    sess = None;
                    match r {
                        Err(_) => "panic".to_string(),
                        Ok(Err(e)) => format!("err:{}", merr(&e)),
                        Ok(Ok(i)) => format!("ok:{i}"),
                    }
                }
            },
            "drop" => {
                sess = None;
                "-".to_string()
            }
            "recover" => {
                sess = None;
                match guard(|| block_on(m.app_boot_status(&mut f, &mut scratch))) {
                    Err(_) => "panic".to_string(),
                    Ok(Err(e)) => format!("err:{}", merr(&e)),
                    Ok(Ok(AppBootStatus::Idle)) => "none".to_string(),
                    Ok(Ok(AppBootStatus::InProgress(u))) => {
                        let s = format!("some:{}", counters(&u));
                        sess = Some(u);
                        s
                    }
                }
            }
            "cancel" => match guard(|| block_on(m.cancel_all_ext_pending_from_scratch(&mut f, &mut scratch))) {
                Err(_) => "panic".to_string(),
                Ok(Err(e)) => format!("err:{}", merr(&e)),
                Ok(Ok(_)) => "ok".to_string(),
            },
            "bl" => match guard(|| block_on(m.bl_boot_status(&mut f, &mut scratch))) {
                Err(_) => "panic".to_string(),
                Ok(Err(e)) => format!("err:{}", merr(&e)),
                Ok(Ok(BlBootStatus::Idle)) => "idle".to_string(),
                Ok(Ok(BlBootStatus::IncompleteInternal { idx })) => format!("inc:{idx}"),
                Ok(Ok(BlBootStatus::FailedLoad { idx })) => format!("fail:{idx}"),
            },
            "crash" => {
                let k: usize = t[1].parse().unwrap();
                f.crash_at = Some(f.wops + k);
                f.torn = if t.len() >= 4 { Some((t[2].parse().unwrap(), u8::from_str_radix(t[3], 16).unwrap())) } else { None };
                "-".to_string()
            }
            "reboot" => {
                sess = None;
                f.reboot();
                "-".to_string()
            }
            "raw" => {
                let a = usize::from_str_radix(t[1], 16).unwrap();
                let d = unhex(t[2]);
                if a + d.len() <= f.mem.len() {
                    f.mem[a..a + d.len()].copy_from_slice(&d);
                }
                "-".to_string()
            }
            "dump" => {
                let i: usize = t[1].parse().unwrap();
                let off = usize::from_str_radix(t[2], 16).unwrap();
                let len: usize = t[3].parse().unwrap();
                let a = i * slot + off;
                if a + len <= f.mem.len() { hex(&f.mem[a..a + len]) } else { "oob".to_string() }
            }
            "hdrs" => {
                use original_flash_algo::protocol::FlashRepr as _;
                let v: Vec<String> = (0..N)
                    .map(|i| match original_flash_algo::protocol::SlotHeader::take_from_bytes(&f.mem[i * slot..i * slot + 28]) {
                        None => "-".to_string(),
                        Some(_) => hex(&f.mem[i * slot..i * slot + 28]),
                    })
                    .collect();
                v.join(",")
            }
            _ => "?".to_string(),
        };
        let passive = matches!(t[0], "crash" | "reboot" | "raw" | "drop" | "hdrs" | "dump");
        if f.dead && !passive {
            tok = "X".to_string();
        }
        let lg = f.take_log();
        if !lg.is_empty() {
            tok.push_str(&format!("[{lg}]"));
        }
        out.push(tok);
    }
    out.join(" ; ")
}

pub fn run() {
    for line in std::io::stdin().lock().lines() {
        let line = line.unwrap();
        let Some((hd, body)) = line.split_once('|') else {
            println!("?");
            continue;
        };
        let h: Vec<usize> = hd.split_whitespace().map(|x| x.parse().unwrap()).collect();
        let ops: Vec<&str> = body.split(';').map(|s| s.trim()).collect();
        let out = match h[0] {
            3 => run_case::<3>(h[1], h[2], &ops),
            4 => run_case::<4>(h[1], h[2], &ops),
            5 => run_case::<5>(h[1], h[2], &ops),
            6 => run_case::<6>(h[1], h[2], &ops),
            _ => "?slots".to_string(),
        };
        println!("{out}");
    }
}
