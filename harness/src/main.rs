//! fvh: runs /repo's crates on case files and prints canonical result lines.
//! One sub-command per correspondence stream; every sub-command reads cases from stdin.
mod sim;
mod cmd_consts;
mod cmd_layout;
mod cmd_recon;
mod cmd_lfdbt;
mod cmd_adapters;
mod cmd_orig;
mod cmd_session;

fn main() {
    std::panic::set_hook(Box::new(|_| {}));
    let args: Vec<String> = std::env::args().collect();
    let cmd = args.get(1).map(|s| s.as_str()).unwrap_or("");
    match cmd {
        "consts" => cmd_consts::run(),
        "layout" => cmd_layout::run(),
        "recon" => cmd_recon::run(),
        "lfdbt" => cmd_lfdbt::run(),
        "adapters" => cmd_adapters::run(),
        "orig" => cmd_orig::run(),
        "session" => cmd_session::run(),
        "variant" => {
            println!(
                "matrix={} ffr={} debug={}",
                cfg!(feature = "matrix"),
                cfg!(feature = "ffr"),
                cfg!(debug_assertions)
            );
        }
        _ => {
            eprintln!("usage: fvh <consts|layout|...>");
            std::process::exit(2);
        }
    }
}
