//! session stream: flash-algo-new's SlotManager / Updater (matrix back-end) driven by a script on SimNor.
//! case:   NSLOTS SLOTSIZE BLOCKSIZE|op;op;...
//! result: one token per op, joined by " ; "   (see fvlib/session.py for the grammar)

use crate::sim::*;
use flash_algo_new::manager::{BlBootStatus, ManagerError, ScratchRam, SlotManager};
use flash_algo_new::spi_flash::SpiFlashError;
use flash_algo_new::update::{SegmentOutcome, Updater};
use std::io::BufRead;

fn spi(e: &SpiFlashError<()>) -> &'static str {
    match e {
        SpiFlashError::UnalignedAccess => "Unaligned",
        SpiFlashError::OutOfBounds => "OutOfBounds",
        SpiFlashError::HardwareFailure => "HardwareFailure",
        SpiFlashError::Custom(_) => "Custom",
        SpiFlashError::LogicError => "LogicError",
    }
}
fn merr(e: &ManagerError<()>) -> String {
    match e {
        ManagerError::Spi(s) => format!("Spi({})", spi(s)),
        ManagerError::FlashRepr(_) => "FlashRepr".into(),
        ManagerError::Fatal => "Fatal".into(),
        ManagerError::UnexpectedMissingHeader => "UnexpectedMissingHeader".into(),
        ManagerError::SegmentCountMismatch => "SegmentCountMismatch".into(),
        ManagerError::SegmentSizeMismatch => "SegmentSizeMismatch".into(),
        ManagerError::TooManySegments => "TooManySegments".into(),
        ManagerError::SegmentsTooLarge => "SegmentsTooLarge".into(),
        ManagerError::Crc32Mismatch => "Crc32Mismatch".into(),
        ManagerError::CheckFailNotDone => "CheckFailNotDone".into(),
        ManagerError::CheckFailNotFirmware => "CheckFailNotFirmware".into(),
    }
}

fn counters(u: &Updater) -> String {
    let rec = u.received_firmware_segments();
    let tot = u.total_firmware_segments();
    let rem = guard(|| u.remaining_firmware_segments());
    format!(
        "r={}/{}/{}/{}",
        rec,
        tot,
        match rem {
            Ok(v) => v.to_string(),
            Err(_) => "panic".into(),
        },
        if u.is_complete() { 1 } else { 0 }
    )
}

/// index of the slot a `Slot` handle refers to, observed through the address of its first header read
fn slot_index<const N: usize>(slot: &flash_algo_new::manager::Slot, f: &SimNor, slot_size: usize) -> usize {
    let mut probe = f.clone();
    probe.reboot();
    probe.log.clear();
    probe.log_reads = true;
    let mut scratch = ScratchRam::new();
    let _ = block_on(slot.is_valid_firmware(&mut probe, &mut scratch));
    for o in &probe.log {
        if let Op::Read(a, _) = o {
            return a / slot_size;
        }
    }
    usize::MAX
}

fn run_case<const N: usize>(slot: usize, bs: usize, ops: &[&str]) -> String {
    let mut f = SimNor::new(bs, N * slot);
    let mut scratch = ScratchRam::new();
    let mut m = match guard(|| SlotManager::<N>::new(slot)) {
        Ok(m) => m,
        Err(_) => return "newpanic".into(),
    };
    let mut sess: Option<Updater> = None;
    let mut last_bl: Option<usize> = None;
    let mut last_fb: Option<usize> = None;
    let mut out: Vec<String> = vec![];
    for op in ops {
        let t: Vec<&str> = op.split_whitespace().collect();
        if t.is_empty() {
            continue;
        }
        f.log.clear();
        let ops_before = f.ops;
        f.rhash = 0;
        let mut tok = match t[0] {
            "start" => {
                let sz: u32 = t[1].parse().unwrap();
                let cnt: u32 = t[2].parse().unwrap();
                sess = None;
                match guard(|| block_on(m.start_update(&mut f, &mut scratch, sz, cnt))) {
                    Err(_) => "panic".to_string(),
                    Ok(Err(e)) => format!("err:{}", merr(&e)),
                    Ok(Ok(u)) => {
                        let s = format!("ok:{}", counters(&u));
                        sess = Some(u);
                        s
                    }
                }
            }
            "seg" => {
                let idx: u32 = t[1].parse().unwrap();
                let data = unhex(t.get(2).copied().unwrap_or("-"));
                match sess.as_mut() {
                    None => "nosession".to_string(),
                    Some(u) => match guard(|| block_on(u.handle_segment(&mut f, &mut scratch, idx, &data))) {
                        Err(_) => {
                            sess = None; // a panicking call leaves the session in an unspecified state: drop it
                            "panic".to_string()
                        }
                        Ok(Err(e)) => format!("err:{}:{}", merr(&e), counters(sess.as_ref().unwrap())),
                        Ok(Ok(SegmentOutcome::Consumed)) => format!("C:{}", counters(sess.as_ref().unwrap())),
                        Ok(Ok(SegmentOutcome::FirmwareComplete)) => format!("F:{}", counters(sess.as_ref().unwrap())),
                    },
                }
            }
            "done" => match sess.take() {
                None => "nosession".to_string(),
                Some(u) => match guard(|| block_on(u.check_and_mark_done(&mut f, &mut scratch))) {
                    Err(_) => "panic".to_string(),
                    Ok(Err(e)) => format!("err:{}", merr(&e)),
                    Ok(Ok(i)) => format!("ok:{i}"),
                },
            },
            "drop" => {
                sess = None;
                "-".to_string()
            }
            "recover" => {
                sess = None;
                match guard(|| block_on(m.try_recover(&mut f, &mut scratch))) {
                    Err(_) => "panic".to_string(),
                    Ok(Err(e)) => format!("err:{}", merr(&e)),
                    Ok(Ok(None)) => "none".to_string(),
                    Ok(Ok(Some(u))) => {
                        let s = format!("some:{}", counters(&u));
                        sess = Some(u);
                        s
                    }
                }
            }
            "cancel" => match guard(|| block_on(m.cancel_all_ext_pending(&mut f, &mut scratch))) {
                Err(_) => "panic".to_string(),
                Ok(Err(e)) => format!("err:{}", merr(&e)),
                Ok(Ok(())) => "ok".to_string(),
            },
            "bl" => match guard(|| block_on(m.bl_boot_status(&mut f, &mut scratch))) {
                Err(_) => "panic".to_string(),
                Ok(Err(e)) => format!("err:{}", merr(&e)),
                Ok(Ok(BlBootStatus::Idle)) => {
                    last_bl = None;
                    "idle".to_string()
                }
                Ok(Ok(BlBootStatus::IncompleteInternal { idx })) => {
                    last_bl = Some(idx as usize);
                    format!("inc:{idx}")
                }
                Ok(Ok(BlBootStatus::FailedLoad { idx })) => {
                    last_bl = Some(idx as usize);
                    format!("fail:{idx}")
                }
            },
            "fb" => match guard(|| block_on(m.fallback_firmware(&mut f, &mut scratch))) {
                Err(_) => "panic".to_string(),
                Ok(Err(e)) => format!("err:{}", merr(&e)),
                Ok(Ok(None)) => {
                    last_fb = None;
                    "none".to_string()
                }
                Ok(Ok(Some(s))) => {
                    let i = slot_index::<N>(&s, &f, slot);
                    last_fb = Some(i);
                    format!("some:{i}")
                }
            },
            "validbl" | "dumpbl" if last_bl.is_none() => "nobl".to_string(),
            "validfb" if last_fb.is_none() => "nofb".to_string(),
            "valid" | "validbl" | "validfb" => {
                let i: usize = if t[0] == "valid" { t[1].parse().unwrap() } else if t[0] == "validfb" { last_fb.unwrap() } else { last_bl.unwrap() };
                match guard(|| {
                    let s = m.open(i);
                    block_on(s.is_valid_firmware(&mut f, &mut scratch))
                }) {
                    Err(_) => "panic".to_string(),
                    Ok(Err(e)) => format!("err:{}", merr(&e)),
                    Ok(Ok(())) => "ok".to_string(),
                }
            }
            "ovalid" => {
                // the same routine in the deprecated crate
                let i: usize = t[1].parse().unwrap();
                let mut os = original_flash_algo::manager::ScratchRam::new();
                match guard(|| block_on(original_flash_algo::manager::check_crc_from_index(&mut f, &mut os, None, None, i * slot))) {
                    Err(_) => "panic".to_string(),
                    Ok(Ok(())) => "ok".to_string(),
                    Ok(Err(e)) => format!("err:{}", match e {
                        original_flash_algo::manager::ManagerError::Spi(_) => "Spi",
                        original_flash_algo::manager::ManagerError::UnexpectedMissingHeader => "UnexpectedMissingHeader",
                        original_flash_algo::manager::ManagerError::Crc32Mismatch => "Crc32Mismatch",
                        original_flash_algo::manager::ManagerError::TooManySegments => "TooManySegments",
                        original_flash_algo::manager::ManagerError::SegmentsTooLarge => "SegmentsTooLarge",
                        _ => "Other",
                    }),
                }
            }
            "mark" | "markbl" if t[0] == "mark" || last_bl.is_some() => {
                let i: usize = if t[0] == "mark" { t[2].parse().unwrap() } else { last_bl.unwrap() };
                let k = t[1];
                match guard(|| {
                    let mut s = m.open(i);
                    match k {
                        "abort" => block_on(s.mark_ext_status_aborted(&mut f)),
                        "complete" => block_on(s.mark_ext_status_complete(&mut f)),
                        "int" => block_on(s.mark_int_status_complete(&mut f)),
                        "ok" => block_on(s.mark_boot_outcome_successful(&mut f)),
                        _ => block_on(s.mark_boot_outcome_unsuccessful(&mut f)),
                    }
                }) {
                    Err(_) => "panic".to_string(),
                    Ok(Err(e)) => format!("err:{}", merr(&e)),
                    Ok(Ok(())) => "ok".to_string(),
                }
            }
            "markbl" => "nobl".to_string(),
            "crash" => {
                let k: usize = t[1].parse().unwrap();
                f.crash_at = Some(f.wops + k);
                f.torn = if t.len() >= 4 { Some((t[2].parse().unwrap(), u8::from_str_radix(t[3], 16).unwrap())) } else { None };
                "-".to_string()
            }
            "fail" => {
                let k: usize = t[1].parse().unwrap();
                f.fail_at = Some(f.ops + k);
                "-".to_string()
            }
            "reboot" => {
                sess = None;
                f.reboot();
                "-".to_string()
            }
            "raw" => {
                let a = usize::from_str_radix(t[1], 16).unwrap();
                let d = unhex(t[2]);
                if a + d.len() <= f.mem.len() {
                    f.mem[a..a + d.len()].copy_from_slice(&d);
                }
                "-".to_string()
            }
            "dump" | "dumpbl" => {
                let sh = if t[0] == "dump" { 1 } else { 0 };
                let i: usize = if t[0] == "dump" { t[1].parse().unwrap() } else { last_bl.unwrap() };
                let off = usize::from_str_radix(t[1 + sh], 16).unwrap();
                let len: usize = t[2 + sh].parse().unwrap();
                let a = i * slot + off;
                if a + len <= f.mem.len() { hex(&f.mem[a..a + len]) } else { "oob".to_string() }
            }
            "hdrs" => {
                use flash_algo_new::layout::FlashRepr as _;
                let v: Vec<String> = (0..N)
                    .map(|i| match flash_algo_new::layout::SlotHeader::take_from_bytes(&f.mem[i * slot..i * slot + 28]) {
                        None => "-".to_string(),
                        Some(_) => hex(&f.mem[i * slot..i * slot + 28]),
                    })
                    .collect();
                v.join(",")
            }
            _ => "?".to_string(),
        };
        let passive = matches!(t[0], "crash" | "fail" | "reboot" | "raw" | "drop" | "hdrs" | "dump" | "dumpbl");
        if f.dead && !passive {
            tok = "X".to_string();
        }
        let lg = f.take_log();
        if !lg.is_empty() {
            tok.push_str(&format!("[{lg}]"));
        }
        // number of device operations (reads included) this script op issued
        if f.ops != ops_before && !passive && !f.dead {
            tok.push_str(&format!("#{}/{:x}", f.ops - ops_before, f.rhash));
        }
        out.push(tok);
    }
    out.join(" ; ")
}

pub fn run() {
    for line in std::io::stdin().lock().lines() {
        let line = line.unwrap();
        let Some((hd, body)) = line.split_once('|') else {
            println!("?");
            continue;
        };
        let h: Vec<usize> = hd.split_whitespace().map(|x| x.parse().unwrap()).collect();
        let ops: Vec<&str> = body.split(';').map(|s| s.trim()).collect();
        let out = match h[0] {
            4 => run_case::<4>(h[1], h[2], &ops),
            5 => run_case::<5>(h[1], h[2], &ops),
            6 => run_case::<6>(h[1], h[2], &ops),
            _ => "?slots".to_string(),
        };
        println!("{out}");
    }
}
