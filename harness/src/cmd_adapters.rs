//! adapters stream: the three embedded-storage adapters of parity-reconstruct/src/flash.rs on a simulated word NOR.
//! case:   KIND W R NB START LEN | op;op;...      KIND = D | P | M ; NB = bytes of the matrix BitArray (5, 8 or 32)
//!         ops: s I HEX (store / set_row), g I LEN (get / row; LEN ignored for M), n (num_rows)
//! result: `new-token ; op tokens`, each `head[device ops]`
use crate::sim::{block_on, guard, hex, unhex};
use bitvec::array::BitArray;
use embedded_storage_async::nor_flash::{ErrorType, MultiwriteNorFlash, NorFlash, NorFlashError, NorFlashErrorKind, ReadNorFlash};
use parity_reconstruct::flash::{FlashDataStorage, FlashMatrixStorage, FlashParityStorage};
use parity_reconstruct::{DataStorage, MatrixStorage, ParityStorage};
use std::cell::RefCell;
use std::io::BufRead;
use std::rc::Rc;

const CAP: usize = 8192;
const ERASE: usize = 256;

#[derive(Debug)]
pub struct WErr;
impl NorFlashError for WErr {
    fn kind(&self) -> NorFlashErrorKind {
        NorFlashErrorKind::Other
    }
}
pub struct Inner {
    mem: Vec<u8>,
    log: Vec<String>,
}
/// word NOR: AND-program, alignment and bounds checks, operation log; starts all-zero so a missing erase shows
pub struct WordNor<const W: usize, const R: usize>(Rc<RefCell<Inner>>);
impl<const W: usize, const R: usize> ErrorType for WordNor<W, R> {
    type Error = WErr;
}
impl<const W: usize, const R: usize> ReadNorFlash for WordNor<W, R> {
    const READ_SIZE: usize = R;
    async fn read(&mut self, offset: u32, bytes: &mut [u8]) -> Result<(), WErr> {
        let mut s = self.0.borrow_mut();
        let a = offset as usize;
        if a % R != 0 || bytes.len() % R != 0 || a + bytes.len() > s.mem.len() {
            return Err(WErr);
        }
        s.log.push(format!("R@{a:x}+{:x}", bytes.len()));
        bytes.copy_from_slice(&s.mem[a..a + bytes.len()]);
        Ok(())
    }
    fn capacity(&self) -> usize {
        self.0.borrow().mem.len()
    }
}
impl<const W: usize, const R: usize> NorFlash for WordNor<W, R> {
    const WRITE_SIZE: usize = W;
    const ERASE_SIZE: usize = ERASE;
    async fn erase(&mut self, from: u32, to: u32) -> Result<(), WErr> {
        let mut s = self.0.borrow_mut();
        let (a, b) = (from as usize, to as usize);
        if a % ERASE != 0 || b % ERASE != 0 || b < a || b > s.mem.len() {
            return Err(WErr);
        }
        s.log.push(format!("E@{a:x}-{b:x}"));
        for x in &mut s.mem[a..b] {
            *x = 0xFF;
        }
        Ok(())
    }
    async fn write(&mut self, offset: u32, bytes: &[u8]) -> Result<(), WErr> {
        let mut s = self.0.borrow_mut();
        let a = offset as usize;
        if a % W != 0 || bytes.len() % W != 0 || a + bytes.len() > s.mem.len() {
            return Err(WErr);
        }
        let mut z = false;
        for (m, b) in s.mem[a..].iter_mut().zip(bytes) {
            if *b != 0xFF && (!*m) & *b != 0 {
                z = true;
            }
            *m &= *b;
        }
        s.log.push(format!("W@{a:x}:{}{}", if bytes.is_empty() { "-".to_string() } else { hex(bytes) }, if z { "!" } else { "" }));
        Ok(())
    }
}
impl<const W: usize, const R: usize> MultiwriteNorFlash for WordNor<W, R> {}

fn take(inner: &Rc<RefCell<Inner>>) -> String {
    let v: Vec<String> = inner.borrow_mut().log.drain(..).collect();
    if v.is_empty() {
        String::new()
    } else {
        format!("[{}]", v.join(","))
    }
}

/// initial contents of the device: "z" all zero (default: a missing erase shows), "b" blank, "t<k>" / "h<k>" blank except the
/// last / first k bytes of the range (zero), "a" alternating 0xA5 / 0xFF
fn init_mem(init: &str, start: u32, len: u32) -> Vec<u8> {
    let (s, e) = (start as usize, (start + len) as usize);
    let k: usize = init.get(1..).and_then(|x| x.parse().ok()).unwrap_or(0);
    match init.as_bytes().first() {
        Some(b'b') => vec![0xFFu8; CAP],
        Some(b't') => { let mut m = vec![0xFFu8; CAP]; for x in e.saturating_sub(k).max(s)..e.min(CAP) { m[x] = 0; } m }
        Some(b'h') => { let mut m = vec![0xFFu8; CAP]; for x in s..(s + k).min(e).min(CAP) { m[x] = 0; } m }
        Some(b'a') => (0..CAP).map(|x| if x % 2 == 0 { 0xA5 } else { 0xFF }).collect(),
        _ => vec![0u8; CAP],
    }
}

fn run_case<const W: usize, const R: usize, const NB: usize>(kind: &str, start: u32, len: u32, ops: &[&str], init: &str) -> String {
    let inner = Rc::new(RefCell::new(Inner { mem: init_mem(init, start, len), log: vec![] }));
    let mut out: Vec<String> = vec![];
    let range = start..start + len;
    macro_rules! drive {
        ($st:expr, $store:expr, $get:expr, $nr:expr) => {{
            match $st {
                Err(_) => out.push(format!("panic{}", take(&inner))),
                Ok(Err(_)) => out.push(format!("newerr{}", take(&inner))),
                Ok(Ok(mut st)) => {
                    out.push(format!("new{}", take(&inner)));
                    for op in ops {
                        let t: Vec<&str> = op.split_whitespace().collect();
                        if t.is_empty() {
                            continue;
                        }
                        let tok = match t[0] {
                            "s" => {
                                let i: usize = t[1].parse().unwrap();
                                let d = unhex(t[2]);
                                match guard(|| $store(&mut st, i, &d)) {
                                    Err(_) => "panic".to_string(),
                                    Ok(Err(_)) => "err".to_string(),
                                    Ok(Ok(())) => "ok".to_string(),
                                }
                            }
                            "g" => {
                                let i: usize = t[1].parse().unwrap();
                                let l: usize = t[2].parse().unwrap();
                                match guard(|| $get(&mut st, i, l)) {
                                    Err(_) => "panic".to_string(),
                                    Ok(Err(_)) => "err".to_string(),
                                    Ok(Ok(v)) => if v.is_empty() { "-".to_string() } else { hex(&v) },
                                }
                            }
                            "n" => $nr(&st),
                            _ => "?".to_string(),
                        };
                        out.push(format!("{tok}{}", take(&inner)));
                    }
                }
            }
        }};
    }
    match kind {
        "D" => {
            let st = guard(|| block_on(FlashDataStorage::new(WordNor::<W, R>(inner.clone()), range.clone())));
            drive!(
                st,
                |s: &mut FlashDataStorage<WordNor<W, R>>, i: usize, d: &[u8]| block_on(s.store(i, d)),
                |s: &mut FlashDataStorage<WordNor<W, R>>, i: usize, l: usize| {
                    let mut b = vec![0u8; l];
                    block_on(s.get(i, &mut b)).map(|_| b)
                },
                |_s: &FlashDataStorage<WordNor<W, R>>| "na".to_string()
            )
        }
        "P" => {
            let st = guard(|| block_on(FlashParityStorage::new(WordNor::<W, R>(inner.clone()), range.clone())));
            drive!(
                st,
                |s: &mut FlashParityStorage<WordNor<W, R>>, i: usize, d: &[u8]| block_on(s.store(i, d)),
                |s: &mut FlashParityStorage<WordNor<W, R>>, i: usize, l: usize| {
                    let mut b = vec![0u8; l];
                    block_on(s.get(i, &mut b)).map(|_| b)
                },
                |_s: &FlashParityStorage<WordNor<W, R>>| "na".to_string()
            )
        }
        _ => {
            let st = guard(|| block_on(FlashMatrixStorage::new(WordNor::<W, R>(inner.clone()), range.clone())));
            drive!(
                st,
                |s: &mut FlashMatrixStorage<WordNor<W, R>>, i: usize, d: &[u8]| {
                    let mut raw = [0u8; NB];
                    raw[..d.len().min(NB)].copy_from_slice(&d[..d.len().min(NB)]);
                    block_on(MatrixStorage::<[u8; NB]>::set_row(s, i, BitArray::new(raw)))
                },
                |s: &mut FlashMatrixStorage<WordNor<W, R>>, i: usize, _l: usize| block_on(MatrixStorage::<[u8; NB]>::row(s, i)).map(|r| r.into_inner().to_vec()),
                |s: &FlashMatrixStorage<WordNor<W, R>>| format!("{}", MatrixStorage::<[u8; NB]>::num_rows(s))
            )
        }
    }
    out.join(" ; ")
}

macro_rules! dispatch {
    ($w:expr, $r:expr, $nb:expr, $k:expr, $s:expr, $l:expr, $ops:expr, $init:expr; $( ($W:literal, $R:literal) ),*) => {
        match ($w, $r, $nb) {
            $( ($W, $R, 5) => run_case::<$W, $R, 5>($k, $s, $l, $ops, $init),
               ($W, $R, 8) => run_case::<$W, $R, 8>($k, $s, $l, $ops, $init),
               ($W, $R, 32) => run_case::<$W, $R, 32>($k, $s, $l, $ops, $init), )*
            _ => "?geometry".to_string(),
        }
    };
}

pub fn run() {
    for line in std::io::stdin().lock().lines() {
        let line = line.unwrap();
        let Some((hd, body)) = line.split_once('|') else {
            println!("?");
            continue;
        };
        let h: Vec<&str> = hd.split_whitespace().collect();
        let (kind, w, r, nb): (&str, usize, usize, usize) = (h[0], h[1].parse().unwrap(), h[2].parse().unwrap(), h[3].parse().unwrap());
        let (start, len): (u32, u32) = (h[4].parse().unwrap(), h[5].parse().unwrap());
        let ops: Vec<&str> = body.split(';').map(|s| s.trim()).collect();
        let init = if h.len() > 6 { h[6] } else { "z" };
        let out = dispatch!(w, r, nb, kind, start, len, &ops, init;
            (1, 1), (2, 1), (2, 2), (4, 1), (4, 2), (4, 4), (8, 1), (8, 2), (8, 4), (8, 8),
            (16, 1), (16, 2), (16, 4), (16, 8), (16, 16), (32, 1), (32, 2), (32, 4), (32, 8), (32, 16), (32, 32));
        println!("{out}");
    }
}
