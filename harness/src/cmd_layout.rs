//! layout stream: header codec of both crates, status marks on un-erased flash.
//!   P <hex>                       parse an arbitrary byte string with both codecs, re-encode
//!   E k seq size count ext int boot   encode a header given as seven words (codes must be legal)
//!   M <mark> <hex28>              program a header into slot 1, apply a status mark, dump the header
use crate::sim::*;
use flash_algo_new::layout as nl;
use flash_algo_new::layout::FlashRepr as _;
use flash_algo_new::manager::SlotManager;
use original_flash_algo::protocol as op;
use original_flash_algo::protocol::FlashRepr as _;
use std::io::BufRead;

fn new_fields(h: &nl::SlotHeader) -> String {
    let k = match h.kind {
        nl::Kind::Firmware => nl::Kind::FIRMWARE,
        nl::Kind::Parity => nl::Kind::PARITY,
    };
    let e = match h.write_ext_status {
        nl::WriteExtStatus::InProgress => nl::WriteExtStatus::IN_PROGRESS,
        nl::WriteExtStatus::Aborted => nl::WriteExtStatus::ABORTED,
        nl::WriteExtStatus::Complete => nl::WriteExtStatus::COMPLETE,
    };
    let i = match h.write_int_status {
        nl::WriteIntStatus::InProgress => nl::WriteIntStatus::IN_PROGRESS,
        nl::WriteIntStatus::Complete => nl::WriteIntStatus::COMPLETE,
    };
    let b = match h.boot_outcome {
        nl::BootOutcome::Untested => nl::BootOutcome::UNTESTED,
        nl::BootOutcome::Successful => nl::BootOutcome::SUCCESSFUL,
        nl::BootOutcome::Unsuccessful => nl::BootOutcome::UNSUCCESSFUL,
    };
    format!("{:x}.{:x}.{:x}.{:x}.{:x}.{:x}.{:x}", k, h.seq_no.0, h.segment_size.0, h.num_segments.0, e, i, b)
}

fn orig_fields(h: &op::SlotHeader) -> String {
    let k = match h.kind {
        op::Kind::Firmware => op::Kind::FIRMWARE,
        op::Kind::Parity => op::Kind::PARITY,
    };
    let e = match h.write_ext_status {
        op::WriteExtStatus::InProgress => op::WriteExtStatus::IN_PROGRESS,
        op::WriteExtStatus::Aborted => op::WriteExtStatus::ABORTED,
        op::WriteExtStatus::Complete => op::WriteExtStatus::COMPLETE,
    };
    let i = match h.write_int_status {
        op::WriteIntStatus::InProgress => op::WriteIntStatus::IN_PROGRESS,
        op::WriteIntStatus::Complete => op::WriteIntStatus::COMPLETE,
    };
    let b = match h.boot_outcome {
        op::BootOutcome::Untested => op::BootOutcome::UNTESTED,
        op::BootOutcome::Successful => op::BootOutcome::SUCCESSFUL,
        op::BootOutcome::Unsuccessful => op::BootOutcome::UNSUCCESSFUL,
    };
    format!("{:x}.{:x}.{:x}.{:x}.{:x}.{:x}.{:x}", k, h.seq_no.0, h.segment_size.0, h.num_segments.0, e, i, b)
}

fn orig_total(h: &op::SlotHeader) -> &'static str {
    match op::total_status(h) {
        op::TotalStatus::BlankSlot => "Blank",
        op::TotalStatus::AppWriteInProgress => "AppWriteInProgress",
        op::TotalStatus::AppWriteAborted => "AppWriteAborted",
        op::TotalStatus::BootloadWriteInProgress => "BootloadWriteInProgress",
        op::TotalStatus::FirstBootPendingAck => "FirstBootPendingAck",
        op::TotalStatus::ConfirmedImage => "ConfirmedImage",
        op::TotalStatus::RejectedImage => "RejectedImage",
        op::TotalStatus::InvalidNeedsErase => "InvalidNeedsErase",
    }
}

fn parse_line(bytes: &[u8]) -> String {
    let n = guard(|| match nl::SlotHeader::take_from_bytes(bytes) {
        None => "none".to_string(),
        Some((h, rest)) => {
            let mut buf = [0u8; 28];
            let re = match h.write_to_bytes(&mut buf).map(|r| r.len()) {
                Ok(r) => format!("{}+{}", hex(&buf), r),
                Err(_) => "encerr".into(),
            };
            format!("{}/rest={}/re={}", new_fields(&h), rest.len(), re)
        }
    })
    .unwrap_or_else(|_| "panic".into());
    let o = guard(|| match op::SlotHeader::take_from_bytes(bytes) {
        None => "none".to_string(),
        Some((h, rest)) => {
            let mut buf = [0u8; 28];
            let re = match h.write_to_bytes(&mut buf).map(|r| r.len()) {
                Ok(r) => format!("{}+{}", hex(&buf), r),
                Err(_) => "encerr".into(),
            };
            format!("{}/rest={}/re={}/{}", orig_fields(&h), rest.len(), re, orig_total(&h))
        }
    })
    .unwrap_or_else(|_| "panic".into());
    format!("new:{n} orig:{o}")
}

fn encode_line(w: &[u32]) -> String {
    let nk = if w[0] == nl::Kind::FIRMWARE { Some(nl::Kind::Firmware) } else if w[0] == nl::Kind::PARITY { Some(nl::Kind::Parity) } else { None };
    let ne = if w[4] == nl::WriteExtStatus::IN_PROGRESS { Some(nl::WriteExtStatus::InProgress) } else if w[4] == nl::WriteExtStatus::ABORTED { Some(nl::WriteExtStatus::Aborted) } else if w[4] == nl::WriteExtStatus::COMPLETE { Some(nl::WriteExtStatus::Complete) } else { None };
    let ni = if w[5] == nl::WriteIntStatus::IN_PROGRESS { Some(nl::WriteIntStatus::InProgress) } else if w[5] == nl::WriteIntStatus::COMPLETE { Some(nl::WriteIntStatus::Complete) } else { None };
    let nb = if w[6] == nl::BootOutcome::UNTESTED { Some(nl::BootOutcome::Untested) } else if w[6] == nl::BootOutcome::SUCCESSFUL { Some(nl::BootOutcome::Successful) } else if w[6] == nl::BootOutcome::UNSUCCESSFUL { Some(nl::BootOutcome::Unsuccessful) } else { None };
    let n = match (nk, ne, ni, nb) {
        (Some(k), Some(e), Some(i), Some(b)) => {
            let h = nl::SlotHeader { kind: k, seq_no: nl::SequenceNumber(w[1]), segment_size: nl::SegmentSize(w[2]), num_segments: nl::NumberOfSegments(w[3]), write_ext_status: e, write_int_status: i, boot_outcome: b };
            let mut buf = [0u8; 28];
            let enc = match h.write_to_bytes(&mut buf).map(|r| r.len()) { Ok(r) => format!("{}+{}", hex(&buf), r), Err(_) => "encerr".into() };
            // a buffer that is one byte short must be refused, not overrun
            let mut short = [0u8; 27];
            let sh = guard(|| h.write_to_bytes(&mut short).is_err()).map(|b| if b { "short-refused" } else { "short-accepted" }).unwrap_or("short-panic");
            let back = match nl::SlotHeader::take_from_bytes(&buf) { Some((h2, _)) => if h2 == h { "same".to_string() } else { format!("differs:{}", new_fields(&h2)) }, None => "none".into() };
            format!("{enc}/{sh}/{back}")
        }
        _ => "illegal-code".into(),
    };
    let ok = if w[0] == op::Kind::FIRMWARE { Some(op::Kind::Firmware) } else if w[0] == op::Kind::PARITY { Some(op::Kind::Parity) } else { None };
    let oe = if w[4] == op::WriteExtStatus::IN_PROGRESS { Some(op::WriteExtStatus::InProgress) } else if w[4] == op::WriteExtStatus::ABORTED { Some(op::WriteExtStatus::Aborted) } else if w[4] == op::WriteExtStatus::COMPLETE { Some(op::WriteExtStatus::Complete) } else { None };
    let oi = if w[5] == op::WriteIntStatus::IN_PROGRESS { Some(op::WriteIntStatus::InProgress) } else if w[5] == op::WriteIntStatus::COMPLETE { Some(op::WriteIntStatus::Complete) } else { None };
    let ob = if w[6] == op::BootOutcome::UNTESTED { Some(op::BootOutcome::Untested) } else if w[6] == op::BootOutcome::SUCCESSFUL { Some(op::BootOutcome::Successful) } else if w[6] == op::BootOutcome::UNSUCCESSFUL { Some(op::BootOutcome::Unsuccessful) } else { None };
    let o = match (ok, oe, oi, ob) {
        (Some(k), Some(e), Some(i), Some(b)) => {
            let h = op::SlotHeader { kind: k, seq_no: op::SequenceNumber(w[1]), segment_size: op::SegmentSize(w[2]), num_segments: op::NumberOfSegments(w[3]), write_ext_status: e, write_int_status: i, boot_outcome: b };
            let mut buf = [0u8; 28];
            let enc = match h.write_to_bytes(&mut buf).map(|r| r.len()) { Ok(r) => format!("{}+{}", hex(&buf), r), Err(_) => "encerr".into() };
            let back = match op::SlotHeader::take_from_bytes(&buf) { Some((h2, _)) => if h2 == h { "same".to_string() } else { format!("differs:{}", orig_fields(&h2)) }, None => "none".into() };
            format!("{enc}/{back}/{}", orig_total(&h))
        }
        _ => "illegal-code".into(),
    };
    format!("new:{n} orig:{o}")
}

const SLOT: usize = 17664;

fn mark_line(mark: &str, hdr: &[u8]) -> String {
    // new crate: Slot::mark_* on slot 1
    let mut f = SimNor::new(256, 4 * SLOT);
    f.do_write(SLOT, hdr).unwrap();
    f.log.clear();
    let m = SlotManager::<4>::new(SLOT);
    let r = guard(|| {
        let mut s = m.open(1);
        match mark {
            "abort" => block_on(s.mark_ext_status_aborted(&mut f)).is_ok(),
            "complete" => block_on(s.mark_ext_status_complete(&mut f)).is_ok(),
            "int" => block_on(s.mark_int_status_complete(&mut f)).is_ok(),
            "ok" => block_on(s.mark_boot_outcome_successful(&mut f)).is_ok(),
            "bad" => block_on(s.mark_boot_outcome_unsuccessful(&mut f)).is_ok(),
            _ => false,
        }
    });
    let n = match r {
        Err(_) => "panic".to_string(),
        Ok(okv) => format!("{}/{}/{}", if okv { "ok" } else { "err" }, hex(&f.mem[SLOT..SLOT + 28]), f.take_log()),
    };
    // original crate: SlotManager::write_* on slot 1 ("complete" is only reachable through check_and_mark_done there)
    let mut f = SimNor::new(256, 4 * SLOT);
    f.do_write(SLOT, hdr).unwrap();
    f.log.clear();
    let mut om = original_flash_algo::manager::SlotManager::<4>::new(SLOT);
    let r = guard(|| match mark {
        "abort" => Some(block_on(om.write_ext_status_aborted(&mut f, 1)).is_ok()),
        "int" => Some(block_on(om.write_int_status_complete(&mut f, 1)).is_ok()),
        "ok" => Some(block_on(om.write_boot_outcome_successful(&mut f, 1)).is_ok()),
        "bad" => Some(block_on(om.write_boot_outcome_unsuccessful(&mut f, 1)).is_ok()),
        _ => None,
    });
    let o = match r {
        Err(_) => "panic".to_string(),
        Ok(None) => "na".to_string(),
        Ok(Some(okv)) => format!("{}/{}/{}", if okv { "ok" } else { "err" }, hex(&f.mem[SLOT..SLOT + 28]), f.take_log()),
    };
    format!("new:{n} orig:{o}")
}

pub fn run() {
    for line in std::io::stdin().lock().lines() {
        let line = line.unwrap();
        let t: Vec<&str> = line.split_whitespace().collect();
        if t.is_empty() {
            continue;
        }
        let out = match t[0] {
            "P" => parse_line(&unhex(t.get(1).copied().unwrap_or("-"))),
            "E" => {
                let w: Vec<u32> = t[1..8].iter().map(|x| u32::from_str_radix(x, 16).unwrap()).collect();
                encode_line(&w)
            }
            "M" => mark_line(t[1], &unhex(t[2])),
            _ => "?".into(),
        };
        println!("{out}");
    }
}
