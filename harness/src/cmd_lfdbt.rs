//! lfdbt stream: the three places the TS004 parity-row generator exists.
//! case:   M N        (M data fragments, coded-fragment number N >= 1)
//! result: new:<hexmask> orig:<hexmask> lfdbt:<hexmask>     (bit i = data fragment i covered; `panic` if the call panics)
use crate::cmd_recon::num_hex;
use crate::sim::guard;
use bitvec::array::BitArray;
use parity_reconstruct::lfdbt::LfdbtParity;
use parity_reconstruct::ParityMatrix;
use std::io::BufRead;

fn stale<A: bitvec::view::BitViewSized>(buf: &mut BitArray<A>, m: u32) {
    let len = buf.len();
    for i in [m.saturating_sub(1) as usize, m as usize, m as usize + 9] {
        if i < len {
            buf.set(i, true);
        }
    }
}

pub fn run() {
    for line in std::io::stdin().lock().lines() {
        let line = line.unwrap();
        let t: Vec<u64> = line.split_whitespace().map(|x| x.parse().unwrap()).collect();
        if t.len() != 2 {
            println!("?");
            continue;
        }
        let (m, n) = (t[0] as u32, t[1] as u32);
        // the row buffer is handed over dirty (as the single-erasure updaters do with their one scratch mask): the generator must
        // clear it; a stale bit just below M and two beyond M would show in the printed mask
        let a = guard(|| {
            let mut buf = BitArray::ZERO;
            stale(&mut buf, m);
            flash_algo_new::fragmentation::get_parity_matrix_row(n, m, &mut buf);
            num_hex(buf.as_raw_slice())
        })
        .unwrap_or_else(|_| "panic".into());
        let b = guard(|| {
            let mut buf = BitArray::ZERO;
            stale(&mut buf, m);
            original_flash_algo::fragmentation::get_parity_matrix_row(n, m, &mut buf);
            num_hex(buf.as_raw_slice())
        })
        .unwrap_or_else(|_| "panic".into());
        let c = guard(|| {
            let p = LfdbtParity::new(m as usize);
            let row: BitArray<[u8; 2048]> = p.row(m as usize + n as usize);
            // identity rows below M are part of the contract: spot-check the one at N mod M
            let k = (n as usize) % (m as usize).max(1);
            let id: BitArray<[u8; 2048]> = p.row(k);
            let id_ok = m == 0 || (id.count_ones() == 1 && id[k]);
            format!("{}{}", num_hex(row.as_raw_slice()), if id_ok { "" } else { "/identity-broken" })
        })
        .unwrap_or_else(|_| "panic".into());
        println!("new:{a} orig:{b} lfdbt:{c}");
    }
}
