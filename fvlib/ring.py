"""Header-level closure of the slot-ring lifecycle, executed on the REAL SlotManager (and on the model):
every reachable arrangement of slot headers (modulo sequence-number shift) x every enabled protocol operation.
The successor arrangement is what the implementation leaves on the simulated flash; the abstract lifecycle
(ghost) is tracked here, independently of the Coq model, and is what the C05 / C12 / C13 oracles compare with.

State = (headers, ghost); header = (kind, seq, ext, int, boot) or None (does not parse); ghost =
 (copy, ack, conf, started, latest): slot awaiting bootloader copy / first-boot acknowledgement, confirmed slots in
 confirmation order, set of (fw, parity) pairs written by a completed start and since neither completed, cancelled
 nor erased, and the pair of the latest start attempt if it ran to completion and is still in `started`."""
import collections, time
from . import core, session

SZ, CNT = 4, 1                     # geometry of every update in the closure: one 4-byte fragment (image ff ff ff ff validates)
PAYLOAD = "ffffffff"
KIND = {0: "F", 1: "P"}
EXT = {0xFFFFFFFF: "IP", 0xAAAAAAAA: "AB", 0x44444444: "CO"}
INT = {0xFFFFFFFF: "IP", 0x11111111: "CO"}
BOOT = {0xFFFFFFFF: "UN", 0xABCD1234: "SU", 0xCDEF7890: "US"}
REV = {"F": 0, "P": 1, "IP": 0xFFFFFFFF, "AB": 0xAAAAAAAA, "CO": 0x44444444, "UN": 0xFFFFFFFF, "SU": 0xABCD1234, "US": 0xCDEF7890}
INTREV = {"IP": 0xFFFFFFFF, "CO": 0x11111111}


def total(h):
    k, s, e, i, b = h
    return {("IP", "IP", "UN"): "AWIP", ("AB", "IP", "UN"): "AWAB", ("CO", "IP", "UN"): "BWIP", ("CO", "CO", "UN"): "FBPA",
            ("CO", "CO", "SU"): "CONF", ("CO", "CO", "US"): "REJ"}.get((e, i, b), "INV")


def hdr_bytes(h, cap):
    k, s, e, i, b = h
    w = [REV[k], s, SZ, CNT if k == "F" else cap, REV[e], INTREV[i], REV[b]]
    return b"".join(x.to_bytes(4, "little") for x in w)


def parse_hdrs(tok):
    out = []
    for h in tok.split(","):
        if h == "-":
            out.append(None)
        else:
            b = bytes.fromhex(h)
            w = [int.from_bytes(b[4 * i:4 * i + 4], "little") for i in range(7)]
            out.append((KIND[w[0]], w[1], EXT[w[4]], INT[w[5]], BOOT[w[6]]))
    return tuple(out)


def norm(sl):
    seqs = [h[1] for h in sl if h is not None]
    m = min(seqs) if seqs else 0
    return tuple(None if h is None else (h[0], h[1] - m, h[2], h[3], h[4]) for h in sl)


class Geo:
    def __init__(self, ns, slot=17664, blk=256):
        self.ns, self.slot, self.blk = ns, slot, blk
        self.B = slot // blk
        self.cap = session.max_l(slot, SZ)


def setup_ops(g, sl, base_seq=100):
    ops = []
    for i, h in enumerate(sl):
        if h is not None:
            hh = (h[0], h[1] + base_seq, h[2], h[3], h[4])
            ops.append("raw %x %s" % (i * g.slot, hdr_bytes(hh, g.cap).hex()))
    return ops


# operations explored from every state: (name, script after setup, kind)
TORN_START = ["start-w%d" % j for j in range(1, 8)]


def torn_start_scripts(g):
    """power lost after j of the 8 header programs of start_update (both slots erased): slots that are neither erased nor
       parse.  Followed by what a device does next: reboot, fallback query, recovery, a new start, fallback query."""
    start = "start %d %d" % (SZ, CNT)
    return [("start-w%d" % j, ["crash %d" % (2 * g.B + j), start, "reboot", "fb", "recover", "drop", start, "drop", "fb", "hdrs"]) for j in range(1, 8)]


def faulted_start_scripts(g):
    """one device operation of start_update fails once (k = 0 .. N+1: the header reads of the scan and the first erases)"""
    start = "start %d %d" % (SZ, CNT)
    return [("start-f%d" % k, ["fail %d" % k, start, "drop", "fb", "hdrs"]) for k in range(g.ns + 2)]


def op_scripts(g):
    B = g.B
    start = "start %d %d" % (SZ, CNT)
    seg = "seg 1 " + PAYLOAD
    return [
        ("start-e1", ["crash 1", start, "reboot", "hdrs"]),                       # second slot's header erased
        ("start-e2", ["crash %d" % (B + 1), start, "reboot", "hdrs"]),             # both erased
        ("start-h1", ["crash %d" % (2 * B + 5), start, "reboot", "hdrs"]),         # firmware header written, parity header not
        ("start", [start, "drop", "hdrs"]),
        ("start-complete", [start, seg, "done", "hdrs"]),
        ("start-complete1", [start, seg, "crash 1", "done", "reboot", "hdrs"]),    # only the firmware slot marked complete
        ("recover", ["recover", "drop", "hdrs"]),
        ("recover-complete", ["recover", seg, "done", "hdrs"]),
        ("recover-complete1", ["recover", seg, "crash 1", "done", "reboot", "hdrs"]),
        ("recover-twice", ["recover", "drop", "recover", "drop", "hdrs"]),
        ("cancel", ["cancel", "hdrs"]),
        ("cancel-twice", ["cancel", "cancel", "hdrs"]),
        ("cancel-1", ["crash 1", "cancel", "reboot", "hdrs"]),
        ("cancel-2", ["crash 2", "cancel", "reboot", "hdrs"]),
        ("copy-done", ["bl", "markbl int", "hdrs"]),
        ("confirm", ["bl", "markbl ok", "hdrs"]),
        ("reject", ["bl", "markbl bad", "hdrs"]),
        ("queries", ["bl", "fb", "hdrs"]),
    ]


def slots_touched(g, toks):
    """slot indices erased or programmed by the ops of the given tokens"""
    t = set()
    for head, lg in toks:
        for k, a, ln, d, z in session.expand_log(lg, g.blk):
            t.add(a // g.slot)
            t.add((a + ln - 1) // g.slot)
    return t


def pair_from_logs(g, seg_tok, done_tok):
    """(firmware slot, parity slot) of a session, observed through where its fragment and its final marks land"""
    f = p = None
    for k, a, ln, d, z in session.expand_log(seg_tok[1], g.blk):
        f = a // g.slot
    marks = [a // g.slot for k, a, ln, d, z in session.expand_log(done_tok[1], g.blk)]
    if marks:
        f = marks[0] if f is None else f
        if len(marks) > 1:
            p = marks[1]
    return f, p


def in_progress(sl):
    return sorted(i for i, h in enumerate(sl) if h is not None and h[2] == "IP")


def explore(chk, ns, max_states, variant="matrix", with_model=True, budget_s=600, stop_keys=None, torn_start=False):
    g = Geo(ns)
    ops = op_scripts(g)
    tops = (torn_start_scripts(g) + faulted_start_scripts(g)) if torn_start else []
    init = (tuple([None] * ns), (None, None, (), frozenset(), None))
    seen = {init}
    frontier = [init]
    stats = collections.Counter()
    t0 = time.time()
    fails = []
    samples = []
    exhaustive = True
    fvh = core.build_harness(variant)
    fvm = core.build_fvm() if with_model else None
    while frontier:
        if len(seen) > max_states or time.time() - t0 > budget_s:
            exhaustive = False
            break
        cases, index = [], []
        for st in frontier:
            sl, ghost = st
            pre = setup_ops(g, sl)
            for name, script in ops + (tops if ghost[2] else []):      # the torn-start probes only where a confirmed image exists
                cases.append("%d %d %d|%s" % (ns, g.slot, g.blk, ";".join(pre + script)))
                index.append((st, name, len(pre)))
        impl = core.run_stream(fvh, "session", cases)
        if fvm:
            # the faulted-start probes arm the k-th device operation: which operation that is depends on the read pattern, which no
            # property constrains, so they are judged by the oracle alone and left out of the comparison with the model
            keep = [i for i, (_, name, _) in enumerate(index) if not name.startswith("start-f")]
            mcases = [cases[i] for i in keep]
            model = core.run_stream(fvm, "session", mcases)
            chk.correspond("ring-closure[N=%d]" % ns, variant, mcases, [impl[i] for i in keep], model)
        stats["transitions"] += len(cases)
        nxt = []
        # first pass per state: the query / probe cases give bl, fb and the resumable pair
        by_state = collections.defaultdict(dict)
        for (st, name, npre), line, raw in zip(index, cases, impl):
            by_state[st][name] = (session.parse_out(raw)[npre:], line, raw)
        for st, res in by_state.items():
            sl, (copy, ack, conf, started, latest) = st
            def bad(key, what, name):
                fails.append(core.Failure(what, "session", variant, res[name][1], res[name][2][:1500], key=key))
            # ---- C12: queries follow the lifecycle
            q = res["queries"][0]
            want_bl = "inc:%d" % copy if copy is not None else ("fail:%d" % ack if ack is not None else "idle")
            if q[0][0] != want_bl:
                bad("c12", "bl_boot_status = %s, the lifecycle says %s (headers %s)" % (q[0][0], want_bl, sl), "queries")
            want_fb = "some:%d" % conf[-1] if conf else "none"
            if q[1][0] != want_fb:
                bad("c12", "fallback_firmware = %s, the most recently confirmed image is %s (headers %s)" % (q[1][0], want_fb, sl), "queries")
            fb = conf[-1] if conf else None
            # ---- start and its crash prefixes
            for name in ("start-e1", "start-e2", "start-h1", "start", "start-complete", "start-complete1"):
                toks = res[name][0]
                # toks for crash variants: [crash, start, reboot, hdrs]; others: [start, ...]
                k0 = 1 if name in ("start-e1", "start-e2", "start-h1") else 0
                start_tok = toks[k0]
                touched = slots_touched(g, [start_tok])
                if fb is not None and fb in touched:
                    bad("c05", "start_update (%s) erases / programs slot %d which holds the most recently confirmed image (headers %s)" % (name, fb, sl), name)
                if name in ("start", "start-complete", "start-complete1") and not start_tok[0].startswith("ok"):
                    bad("c05", "start_update fails on a reachable ring: %s (headers %s)" % (start_tok[0], sl), name)
                after = parse_hdrs(toks[-1][0])
                if fb is not None and after[fb] != sl_shift(sl, fb):
                    bad("c05", "the fallback slot's header changed during start (%s)" % name, name)
                # ghost: erased slots are forgotten
                gone = {i for i in range(ns) if sl[i] is not None and after[i] is None} | {i for i in touched}
                ncopy = None if copy in gone else copy
                nack = None if ack in gone else ack
                nconf = tuple(c for c in conf if c not in gone)
                nstarted = frozenset(p for p in started if p[0] not in gone and p[1] not in gone)
                nlatest = None
                if name in ("start", "start-complete", "start-complete1") and start_tok[0].startswith("ok"):
                    if name == "start":
                        f, p = pair_from_start(g, start_tok)
                        if f is not None and p is not None:
                            nstarted = nstarted | {(f, p)}; nlatest = (f, p)
                        nxt.append((norm(after), (ncopy, nack, nconf, nstarted, nlatest)))
                    else:
                        if copy is None and ack is None:          # proviso of C12: nothing else awaits the bootloader
                            dn = toks[2] if name == "start-complete" else toks[3]
                            f, p = pair_from_logs(g, toks[1], dn)
                            if name == "start-complete" and not dn[0].startswith("ok"):
                                bad("c13", "a freshly started update does not complete: %s" % dn[0], name)
                            nxt.append((norm(after), (f, nack, nconf, nstarted, None)))
                else:
                    nxt.append((norm(after), (ncopy, nack, nconf, nstarted, None)))
            # ---- half-written headers of an interrupted start: the fallback survives the reboot, the recovery and the next start
            for name in TORN_START:
                if name not in res or fb is None:
                    continue
                toks = res[name][0]        # [crash, start, reboot, fb, recover, drop, start, drop, fb, hdrs]
                for qi, when in ((3, "after the reboot"), (8, "after recovery and a new start")):
                    if toks[qi][0] != "some:%d" % fb:
                        bad("c05", "power lost inside start_update (%s: %d of its 8 header programs done): fallback_firmware = %s %s, the most recently confirmed image is in slot %d (headers %s)" % (name, int(name[7:]), toks[qi][0], when, fb, sl), name)
                        break
                else:
                    if fb in slots_touched(g, [toks[1], toks[4], toks[6]]):
                        bad("c05", "power lost inside start_update (%s): the interrupted start, the recovery or the next start erases / programs slot %d which holds the most recently confirmed image (headers %s)" % (name, fb, sl), name)
                    elif not toks[6][0].startswith("ok"):
                        bad("c05", "after a power loss inside start_update (%s) the next start fails: %s (headers %s)" % (name, toks[6][0], sl), name)
            # ---- a transient device failure inside start (e.g. while the headers are scanned) must not cost the fallback image
            for name in [n_ for n_ in res if n_.startswith("start-f")]:
                if fb is None:
                    continue
                toks = res[name][0]        # [fail, start, drop, fb, hdrs]
                if fb in slots_touched(g, [toks[1]]):
                    bad("c05", "device operation %s of start_update fails once: the call erases / programs slot %d which holds the most recently confirmed image (headers %s)" % (name[7:], fb, sl), name)
                elif toks[3][0] != "some:%d" % fb:
                    bad("c05", "device operation %s of start_update fails once: fallback_firmware = %s afterwards, the most recently confirmed image is in slot %d (headers %s)" % (name[7:], toks[3][0], fb, sl), name)
            # ---- recovery
            toks = res["recover"][0]
            r = toks[0][0]
            after = parse_hdrs(toks[-1][0])
            prot = [i for i, h in enumerate(sl) if h is not None and total(h) in ("CONF", "REJ", "FBPA")]
            if any(i in slots_touched(g, toks) for i in prot):
                bad("c13", "recovery modifies a slot holding a confirmed / rejected / acknowledgement-pending image (headers %s)" % (sl,), "recover")
            probe = res["recover-complete"][0]
            if r.startswith("some"):
                f, p = pair_from_logs(g, probe[1], probe[2])
                ip = in_progress(after)
                if sorted(x for x in (f, p) if x is not None) != ip or len(ip) != 2:
                    bad("c13", "after recovery returned a session (slots %s,%s) the in-progress slots are %s (headers %s)" % (f, p, ip, sl), "recover")
                if (f, p) not in started:
                    bad("c13", "recovery returns a session for slots (%s,%s), not an update that was started and neither completed nor cancelled: started=%s (headers %s)" % (f, p, sorted(started), sl), "recover")
                if latest is not None and (f, p) != latest:
                    bad("c13", "recovery returns (%s,%s) but the latest successfully started update is %s" % (f, p, latest), "recover")
                gone = {i for i in range(ns) if sl[i] is not None and after[i] is None}
                nst = frozenset({(f, p)}) & started
                nxt.append((norm(after), (None if copy in gone else copy, None if ack in gone else ack, tuple(c for c in conf if c not in gone), nst, (f, p) if latest == (f, p) else None)))
                if copy is None and ack is None:
                    for name in ("recover-complete", "recover-complete1"):
                        tk = res[name][0]
                        a2 = parse_hdrs(tk[-1][0])
                        dn = tk[2] if name == "recover-complete" else tk[3]
                        if name == "recover-complete" and not dn[0].startswith("ok"):
                            bad("c13", "a recovered update does not complete: %s" % dn[0], name)
                        gone2 = {i for i in range(ns) if sl[i] is not None and a2[i] is None}
                        nxt.append((norm(a2), (f, None if ack in gone2 else ack, tuple(c for c in conf if c not in gone2), frozenset(), None)))
            else:
                if r != "none":
                    bad("c13", "try_recover returned %s" % r, "recover")
                if in_progress(after):
                    bad("c13", "recovery returned none but slots %s still read in progress (headers %s)" % (in_progress(after), sl), "recover")
                if latest is not None:
                    bad("c13", "recovery returns none although update %s was started and neither completed nor cancelled (headers %s)" % (latest, sl), "recover")
                nxt.append((norm(after), (copy, ack, conf, frozenset(), None)))
            tw = res["recover-twice"][0]
            if tw[2][0].split(":")[0] != tw[0][0].split(":")[0] or tw[2][1]:
                bad("c13", "repeating try_recover: answer %s then %s, flash operations of the second call: %s" % (tw[0][0], tw[2][0], tw[2][1][:3]), "recover-twice")
            # ---- cancel and its prefixes
            for name in ("cancel", "cancel-1", "cancel-2", "cancel-twice"):
                tk = res[name][0]
                a2 = parse_hdrs(tk[-1][0])
                if any(i in slots_touched(g, tk) for i in prot):
                    bad("c13", "cancel modifies a protected slot (headers %s)" % (sl,), name)
                if name == "cancel" and in_progress(a2):
                    bad("c13", "after cancel-all slots %s still read in progress" % in_progress(a2), name)
                if name == "cancel-twice" and tk[1][1]:
                    bad("c13", "repeating cancel-all performs flash operations %s" % tk[1][1][:3], name)
                if name != "cancel-twice":
                    ipn = set(in_progress(a2))
                    nst = frozenset(pr for pr in started if pr[0] in ipn and pr[1] in ipn)
                    nxt.append((norm(a2), (copy, ack, conf, nst, latest if latest in nst else None)))
            # ---- bootloader / application marks (only where the query designates a slot)
            if copy is not None:
                a2 = parse_hdrs(res["copy-done"][0][-1][0])
                nxt.append((norm(a2), (None, copy, conf, started, latest)))
            if ack is not None:
                a2 = parse_hdrs(res["confirm"][0][-1][0])
                nxt.append((norm(a2), (None, None, tuple(c for c in conf if c != ack) + (ack,), started, latest)))
                a3 = parse_hdrs(res["reject"][0][-1][0])
                nxt.append((norm(a3), (None, None, conf, started, latest)))
        frontier = []
        for s2 in nxt:
            if s2 not in seen:
                seen.add(s2); frontier.append(s2)
                if len(samples) < 6:
                    samples.append({"headers": [None if h is None else "%s#%d %s/%s/%s" % h for h in s2[0]], "ghost": str(s2[1])})
        # stop at the first level that shows a failure of the property being checked; failures that belong to another
        # property (reported by that property's own check) do not end the exploration, so that their consequences for this
        # one are still reached (bounded)
        if fails and (stop_keys is None or any(f.key in stop_keys for f in fails) or len(fails) > 200):
            break
    stats["states"] = len(seen)
    return {"states": len(seen), "transitions": stats["transitions"], "exhaustive": exhaustive and not fails, "fails": fails, "samples": samples,
            "wall": time.time() - t0}


def pair_from_start(g, tok):
    """(firmware slot, parity slot) chosen by a start, observed through its two sequence-number writes"""
    w = [a // g.slot for k, a, ln, d, z in session.expand_log(tok[1], g.blk) if k == "W" and a % g.slot == 4]
    return (w[0], w[1]) if len(w) >= 2 else (None, None)


def sl_shift(sl, i):
    """header i of the setup arrangement as it was written to flash (sequence numbers shifted by the base)"""
    h = sl[i]
    return None if h is None else (h[0], h[1] + 100, h[2], h[3], h[4])


def in_progress_new(before, after):
    """slots that read in-progress after a start and did not before (or were rewritten): the new pair = the two highest sequence numbers"""
    hs = sorted(((h[1], i) for i, h in enumerate(after) if h is not None), reverse=True)
    return sorted(i for _, i in hs[:2])
