"""C05 - starting an update never destroys the newest confirmed firmware.
Proof: props/C05.v.  Correspondence + oracle: (i) closure of the header-level lifecycle executed on the real SlotManager
(every reachable arrangement x every operation incl. the crash prefixes of start, among them every half-written header); (ii) random histories with real deliveries."""
import random
from . import core, session, ring

def closure_part(chk, keys, quick_plan=((4, 100000, 240), (5, 2500, 60)), thorough_plan=((4, 10**7, 1500), (5, 10**7, 900), (6, 10**7, 900))):
    plan = quick_plan if chk.quick() else thorough_plan
    res = []
    for ns, cap, budget in plan:
        r = ring.explore(chk, ns, cap, budget_s=budget, stop_keys=keys, torn_start="c05" in keys)
        res.append(r)
        chk.failures += [f for f in r["fails"] if f.key in keys]
        chk.cov["evaluations"] += r["transitions"]
        chk._distinct.update("ring%d-%d" % (ns, i) for i in range(r["states"]))
        chk.cov["distinct_nontrivial"] = len(chk._distinct)
        chk.cov["streams"]["ring-closure[N=%d]" % ns].update({"states": r["states"], "transitions": r["transitions"], "closed": r["exhaustive"], "wall_s": round(r["wall"], 1)})
        for smp in r["samples"][:2]:
            chk.cov["samples"].append({"stream": "ring-closure[N=%d]" % ns, "state": smp})
    chk.cov["exhaustive"] = all(r["exhaustive"] for r in res)
    return res

def run(chk):
    chk.prove()
    closure_part(chk, ("c05",))
    rnd = random.Random(chk.seed)
    scns = [session.build_delivery(rnd, small=True) for _ in range(150 if chk.quick() else 2000)]
    lines, impl, outs = session.run(chk, scns, stream="session-history")
    nt = []
    for s, l, raw, out in zip(scns, lines, impl, outs):
        if len(out) != len(s.ops):
            chk.failures.append(core.Failure("harness produced no / truncated result", "session", "matrix", l, raw, key="crash")); break
        for msg in session.oracle_fallback_survives(s, out):
            chk.failures.append(core.Failure(msg, "session", "matrix", l, raw[:2000], key="c05"))
        if out[s.meta["fb_before"]][0].startswith("some"): nt.append(l)
    chk.note_cases("session-history", lines, nt, sample_n=1, dist={"with_confirmed_fallback": len(nt)})
    return chk.finish(level="proof",
        rule="ring-closure: every header arrangement reachable under start (3 crash prefixes + full; and, where a confirmed image exists, power lost after each of the 7 proper prefixes of its header programs followed by reboot, fallback query, recovery, a new start, fallback query), complete (+ prefix), cancel (+ prefixes), recover, copy-done, confirm, reject, modulo sequence-number shift, re-created on SimNor and every operation executed on the real SlotManager and on the model (quick: N=4 to closure, N=5 bounded; thorough: N=4,5,6 to closure); "
             "session-history: random histories with real deliveries, fallback queried and validated before / after; non-trivial = a state or a history with a confirmed image; distinct = distinct (headers, ghost) states / case text",
        trusted=core.TRUSTED_COMMON + ["C05: the lifecycle ghost in fvlib/ring.py is written from the property text, independently of the Coq model",
                                        "sequence numbers are assumed not to reach the 2^32-2 wrap (nowrap); the closure is modulo sequence-number shift"])
