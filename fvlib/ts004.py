"""Reference written from the LoRaWAN TS004 Fragmented Data Block Transport specification (matrix_line),
independent of the Rust code and of the Coq model: used as the sender-side encoder and as the C10 oracle."""


def prbs23(x):
    b0 = x & 1
    b1 = (x >> 5) & 1
    return (x >> 1) + ((b0 ^ b1) << 22)


def is_pow2(m):
    return m > 0 and (m & (m - 1)) == 0


def matrix_line(N, M, no_repeat=False):
    """row N (1-based coded fragment number) over M data fragments, as a set of 0-based fragment indices.
       no_repeat=False is the TS004 reference (a draw may hit the same fragment twice);
       no_repeat=True is the `force-full-r` variant: redraw on the same PRBS stream until a new fragment is hit."""
    m = 1 if is_pow2(M) else 0
    x = (1 + 1001 * N) & 0xFFFFFFFF
    row = set()
    nb = 0
    guard = 0
    while nb < M // 2:
        r = 1 << 16
        while r >= M:
            x = prbs23(x)
            r = x % (M + m)
            guard += 1
            if guard > 50_000_000:
                raise RuntimeError("matrix_line does not terminate for N=%d M=%d" % (N, M))
        if not no_repeat or r not in row:
            row.add(r)
            nb += 1
    return row


def row_mask(N, M, no_repeat=False):
    v = 0
    for r in matrix_line(N, M, no_repeat):
        v |= 1 << r
    return v


def encode_fragment(image, n, sz, idx1, no_repeat=False):
    """payload of the 1-based fragment idx1: data chunk for idx1 <= n, coded fragment idx1-n above"""
    if idx1 <= n:
        return image[(idx1 - 1) * sz: idx1 * sz]
    out = bytearray(sz)
    for j in matrix_line(idx1 - n, n, no_repeat):
        chunk = image[j * sz:(j + 1) * sz]
        for k in range(sz):
            out[k] ^= chunk[k]
    return bytes(out)


def crc32_cksum(data):
    """CRC-32/CKSUM (poly 0x04C11DB7, init 0, no reflection, xorout 0xFFFFFFFF), bitwise"""
    crc = 0
    for b in data:
        crc ^= b << 24
        for _ in range(8):
            crc = ((crc << 1) ^ 0x04C11DB7) & 0xFFFFFFFF if crc & 0x80000000 else (crc << 1) & 0xFFFFFFFF
    return crc ^ 0xFFFFFFFF


def make_image(rnd, n, sz):
    """random image whose first 4 bytes are the little-endian CRC-32/CKSUM of bytes [68, n*sz)"""
    total = n * sz
    img = bytearray(rnd.getrandbits(8) for _ in range(total))
    if total < 4:
        img = bytearray(b"\xff" * total)      # too short to carry its own CRC: only the erased pattern validates
    if total >= 4:
        c = crc32_cksum(bytes(img[68:])) if total > 68 else crc32_cksum(b"")
        img[0:4] = c.to_bytes(4, "little")
    return bytes(img)


def gf2_rank(rows):
    """rank of a list of int bit-vectors over GF(2)"""
    basis = {}
    for r in rows:
        while r:
            h = r.bit_length() - 1
            if h in basis:
                r ^= basis[h]
            else:
                basis[h] = r
                break
    return len(basis)
