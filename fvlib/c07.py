"""C07 - a clean reboot between two fragments is transparent.
Proof: props/C07.v (what recovery reads back is the live bookkeeping; pairing preserved by every call).
Correspondence: `session` stream, twin runs.  Oracle: the run with drop+recover at position p vs the uninterrupted run."""
import random
from . import core, session, ts004


def big_loss_base(rnd, ffr=False):
    """a delivery with many unknowns (matrix rows spanning several bytes), coded fragments arriving one by one"""
    blk = 256
    sz = rnd.choice([1, 2, 4, 8])
    slot = session.DRO + 4096
    n = rnd.randint(24, 64)
    cap = session.max_l(slot, sz)
    nlost = rnd.randint(9, min(n - 1, cap, 40))
    img = ts004.make_image(rnd, n, sz)
    lost = set(rnd.sample(range(1, n + 1), nlost))
    seq = [i for i in range(1, n + 1) if i not in lost] + list(range(n + 1, n + 1 + nlost + 12))
    s = session.Scn(4, slot, blk)
    s.meta = dict(n=n, sz=sz, cap=cap, img=img, seq=seq, mode="big-loss", lost=sorted(lost), ffr=ffr)
    s.meta["start_op"] = s.add("start %d %d" % (sz, n))
    return s


def big_count_base(rnd, ffr=False):
    """more than 2048 data fragments (the pivot bitmap has 2048 bits, the status table 16384 entries), a few losses"""
    blk, sz = 256, 1
    slot = session.DRO + 4096
    n = rnd.choice([2049, 2050, rnd.randint(2051, 2600), rnd.randint(2051, 4000)])
    cap = session.max_l(slot, sz)
    lost = set(rnd.sample(range(1, n + 1), rnd.randint(2, 5)))
    img = ts004.make_image(rnd, n, sz)
    seq = [i for i in range(1, n + 1) if i not in lost] + list(range(n + 1, n + 1 + len(lost) + 6))
    s = session.Scn(4, slot, blk)
    s.meta = dict(n=n, sz=sz, cap=cap, img=img, seq=seq, mode="big-count", lost=sorted(lost), ffr=ffr, bigcount=True)
    s.meta["start_op"] = s.add("start %d %d" % (sz, n))
    return s


def high_number_base(rnd, ffr=False):
    """coded fragments with high numbers (the PRBS seed 1 + 1001 N exceeds 23 bits from N = 8381 on; wire indices beyond 16384)"""
    blk, sz = 256, rnd.choice([1, 4, 16])
    slot = session.DRO + 1024
    n = rnd.randint(8, 40)
    cap = session.max_l(slot, sz)
    lost = set(rnd.sample(range(1, n + 1), rnd.randint(1, min(4, cap))))
    img = ts004.make_image(rnd, n, sz)
    N0 = rnd.choice([8375, 8381, 8384, 9000, 12000, 16000, 16370, 17000, 30000])
    seq = [i for i in range(1, n + 1) if i not in lost] + [n + N0 + j for j in range(len(lost) + 8)]
    s = session.Scn(4, slot, blk)
    s.meta = dict(n=n, sz=sz, cap=cap, img=img, seq=seq, mode="high-number", lost=sorted(lost), ffr=ffr)
    s.meta["start_op"] = s.add("start %d %d" % (sz, n))
    return s


def wide_loss_base(rnd, ffr=False):
    """many unknowns around the word boundaries of the bit rows (63..66, 72, 127..130 lost fragments), random or one contiguous outage"""
    blk, sz = 256, rnd.choice([1, 1, 2])
    slot = session.DRO + 8192
    l = rnd.choice([63, 64, 65, 65, 66, 68, 72, 127, 128, 129, 130, 134])
    n = l + rnd.choice([1, 3, 20, 60, 100])
    cap = session.max_l(slot, sz)
    if rnd.random() < 0.5:
        lost = set(rnd.sample(range(1, n + 1), l))
    else:
        a = rnd.randint(1, n - l + 1); lost = set(range(a, a + l))
    img = ts004.make_image(rnd, n, sz)
    seq = [i for i in range(1, n + 1) if i not in lost] + list(range(n + 1, n + 1 + l + 12))
    s = session.Scn(4, slot, blk)
    s.meta = dict(n=n, sz=sz, cap=cap, img=img, seq=seq, mode="wide-loss", lost=sorted(lost), ffr=ffr)
    s.meta["start_op"] = s.add("start %d %d" % (sz, n))
    return s


def wide_window_base(rnd, ffr=False):
    """more than 256 data fragments (the segment status table is paged in 256-entry strides on recovery) with one
       stride-aligned window of the table left completely unwritten (late join / long outage) and losses behind it"""
    blk, sz = 256, 1
    slot = session.DRO + 8192
    n = rnd.randint(520, 620)
    cap = session.max_l(slot, sz)
    w = rnd.choice([0, 1])
    lost = set(range(256 * w + 1, 256 * w + 257)) | set(rnd.sample(range(256 * w + 257, n + 1), rnd.randint(1, 3)))
    img = ts004.make_image(rnd, n, sz)
    seq = [i for i in range(1, n + 1) if i not in lost] + list(range(n + 1, n + 1 + len(lost) + 10))
    s = session.Scn(4, slot, blk)
    s.meta = dict(n=n, sz=sz, cap=cap, img=img, seq=seq, mode="wide-window", lost=sorted(lost), ffr=ffr, wide=True)
    s.meta["start_op"] = s.add("start %d %d" % (sz, n))
    return s


def twin_scenarios(rnd, quick, ffr=False, base=None, positions=None):
    scns = []
    base = base or session.build_delivery(rnd, ffr=ffr, small=True, with_history=rnd.random() < 0.3)
    me = base.meta
    if me["cap"] < 1:
        return []
    seq = me["seq"]
    pre = base.ops[:me["start_op"]]
    def mk(positions, tag):
        s = session.Scn(base.ns, base.slot, base.blk)
        s.ops = list(pre)
        m = dict(me); m["positions"] = positions; m["tag"] = tag
        m["start_op"] = s.add(base.ops[me["start_op"]])
        m["seg_ops"] = []; m["rec_ops"] = {}
        for k, idx in enumerate(seq):
            if k in positions:
                s.add("drop"); m["rec_ops"][k] = s.add("recover")
            m["seg_ops"].append(s.add(session.seg_op(me["img"], me["n"], me["sz"], idx, ffr)))
        if len(seq) in positions:
            s.add("drop"); m["rec_ops"][len(seq)] = s.add("recover")
        m["done_op"] = s.add("done"); m["bl_op"] = s.add("bl"); m["valid_op"] = s.add("validbl")
        m["dump_op"] = s.add("dumpbl %x %d" % (session.DRO, me["n"] * me["sz"]))
        m["fb_op"] = s.add("fb"); m["fbvalid_after"] = s.add("validfb"); m["hdrs_op"] = s.add("hdrs")
        s.meta = m
        return s
    ref = mk(set(), "ref")
    scns.append(ref)
    npos = len(seq) + 1
    pos = positions(npos) if positions else (list(range(npos)) if npos <= (10 if quick else 40) else sorted(set([0, 1, npos - 1] + rnd.sample(range(npos), 7 if quick else 30))))
    for p in pos:
        t = mk({p}, "twin"); t.meta["ref"] = ref; scns.append(t)
    if npos > 3:
        t = mk(set(rnd.sample(range(npos), min(npos, rnd.randint(2, 5)))), "multi"); t.meta["ref"] = ref; scns.append(t)
        t = mk(set(range(npos)), "every"); t.meta["ref"] = ref; scns.append(t)
    return scns


def oracle_twin(s, out, refout):
    me, ref = s.meta, s.meta["ref"].meta
    msgs = []
    ref_heads = [refout[i][0] for i in ref["seg_ops"]]
    heads = [out[i][0] for i in me["seg_ops"]]
    # counters the live session reported just before each position
    def ref_counters_before(k):
        if k == 0:
            return session.counters_of(refout[ref["start_op"]][0])
        return session.counters_of(ref_heads[k - 1])
    for k, ri in me["rec_ops"].items():
        h = out[ri][0]
        if not h.startswith("some"):
            msgs.append("reboot before fragment #%d: try_recover returned %s instead of the session" % (k, h)); continue
        # remediation of OTHER slots (stale parity slots of earlier updates) is legitimate; the session's own pair must be left alone
        pair = set(a // s.slot for kk, a, ln, d, z in session.expand_log(out[me["start_op"]][1], s.blk) if kk == "W" and a % s.slot == 4)
        hit = [a for kk, a, ln, d, z in session.expand_log(out[ri][1], s.blk) if a // s.slot in pair]
        if hit:
            msgs.append("reboot before fragment #%d: recovery modifies the session's own slots at %#x" % (k, hit[0]))
        c, cr = session.counters_of(h), ref_counters_before(k)
        if c != cr:
            msgs.append("reboot before fragment #%d: recovered session reports received/total/remaining/complete = %s, the live session had %s" % (k, c, cr))
    if [h[:1] for h in heads] != [h[:1] for h in ref_heads]:
        d = next(i for i, (a, b) in enumerate(zip(heads, ref_heads)) if a[:1] != b[:1])
        msgs.append("fragment #%d: outcome %s after reboot(s) at %s, %s in the uninterrupted run" % (d, heads[d].split(":")[0], sorted(me["positions"]), ref_heads[d].split(":")[0]))
    if out[me["done_op"]][0] != refout[ref["done_op"]][0]:
        msgs.append("final check: %s after reboot(s), %s uninterrupted" % (out[me["done_op"]][0], refout[ref["done_op"]][0]))
    if out[me["dump_op"]][0] != refout[ref["dump_op"]][0]:
        msgs.append("final firmware image differs from the uninterrupted run")
    return msgs


def evaluate(chk, scns, lines, impl, outs, variant, dist):
    byid = {id(s): o for s, o in zip(scns, outs)}
    nt = []
    for s, l, raw, out in zip(scns, lines, impl, outs):
        if len(out) != len(s.ops):
            chk.failures.append(core.Failure("harness produced no / truncated result", "session", variant, l, raw, key="crash")); break
        if s.meta["tag"] == "ref":
            dist["reference_runs"] += 1
            for msg in session.oracle_delivery(s, out):
                chk.failures.append(core.Failure(msg, "session", variant, l, raw[:2000], key="c07"))
            continue
        refout = byid[id(s.meta["ref"])]
        dist["single_reboot" if s.meta["tag"] == "twin" else "multi_reboot"] += 1
        refheads = [refout[i][0] for i in s.meta["ref"].meta["seg_ops"]]
        for k in s.meta["positions"]:
            if k > 0 and k <= len(refheads) and refheads[k - 1].startswith("F"): dist["after_completion_before_mark"] += 1
        for msg in oracle_twin(s, out, refout)[:2]:
            chk.failures.append(core.Failure(msg, "session", variant, l, raw[:2000], key="c07"))
        nt.append(l)
        if chk.too_many(): break
    return nt


def search(chk, rnd):
    """directed search for a concrete failing input (implementation + oracle only): many unknowns, reboot at every position
       of parity processing"""
    budget = 150 if chk.quick() else 800
    scns = []
    for _ in range(budget):
        b = big_loss_base(rnd)
        first_coded = len([i for i in b.meta["seq"] if i <= b.meta["n"]])
        scns += twin_scenarios(rnd, True, base=b, positions=lambda npos, fc=first_coded: [p for p in range(fc + 8, npos, 2)][:14])
    fvh = core.build_harness("matrix")
    lines = [s.line() for s in scns]
    impl = core.run_stream(fvh, "session", lines)
    outs = [session.parse_out(x) for x in impl]
    dist = {"reference_runs": 0, "single_reboot": 0, "multi_reboot": 0, "after_completion_before_mark": 0, "after_refusal": 0}
    evaluate(chk, scns, lines, impl, outs, "matrix", dist)
    chk.cov["streams"]["directed-search(big-loss twins)"] = {"cases": len(lines), "found": len(chk.failures)}
    chk.cov["evaluations"] += len(lines)


def run(chk):
    chk.prove()
    rnd = random.Random(chk.seed)
    for variant, ffr, rounds in (("matrix", False, 45 if chk.quick() else 600), ("matrix-rel", False, 12 if chk.quick() else 150)):
        scns = []
        for _ in range(rounds):
            scns += twin_scenarios(rnd, chk.quick(), ffr)
        for _ in range(rounds // 8):
            b = big_loss_base(rnd, ffr)          # more than 8 unknowns: matrix rows span several bytes
            scns += twin_scenarios(rnd, chk.quick(), ffr, base=b)
        for _ in range(max(2, rounds // 10)):
            b = session.build_delivery(rnd, ffr=ffr, small=True, wrapped=True)     # the session's pair wraps the ring end
            scns += twin_scenarios(rnd, chk.quick(), ffr, base=b)
        lines, impl, outs = session.run(chk, scns, variant=variant, stream="session-twin")
        dist = {"reference_runs": 0, "single_reboot": 0, "multi_reboot": 0, "after_completion_before_mark": 0, "after_refusal": 0}
        nt = evaluate(chk, scns, lines, impl, outs, variant, dist)
        chk.note_cases("session-twin[%s]" % variant, lines, nt, sample_n=1, dist=dist)
    # more than 256 data fragments with a stride-aligned blank window of the status table
    scns = []
    for _ in range(2 if chk.quick() else 24):
        b = wide_window_base(rnd)
        fc = len([i for i in b.meta["seq"] if i <= b.meta["n"]]); nl = len(b.meta["lost"])
        scns += twin_scenarios(rnd, True, base=b, positions=lambda npos, fc=fc, nl=nl: sorted(set([fc - 1, fc + 1, fc + 2, fc + nl // 2, fc + nl - 2, fc + nl - 1, fc + nl] + rnd.sample(range(1, fc), 2))))
    lines, impl, outs = session.run(chk, scns, variant="matrix", stream="session-twin-wide")
    dist = {"reference_runs": 0, "single_reboot": 0, "multi_reboot": 0, "after_completion_before_mark": 0, "after_refusal": 0}
    nt = evaluate(chk, scns, lines, impl, outs, "matrix", dist)
    chk.note_cases("session-twin-wide[matrix]", lines, nt, sample_n=0, dist=dist)
    # more than 2048 data fragments: the model needs far too long at this size, these twins are judged by the oracle alone
    scns = []
    for _ in range(1 if chk.quick() else 8):
        b = big_count_base(rnd)
        fc = len([i for i in b.meta["seq"] if i <= b.meta["n"]])
        scns += twin_scenarios(rnd, True, base=b, positions=lambda npos, fc=fc: sorted(set([1, fc // 2, fc - 1, fc + 1, fc + 2])))
    lines, impl, outs = session.run(chk, scns, variant="matrix", stream="session-twin-bigcount", with_model=False)
    dist = {"reference_runs": 0, "single_reboot": 0, "multi_reboot": 0, "after_completion_before_mark": 0, "after_refusal": 0}
    nt = evaluate(chk, scns, lines, impl, outs, "matrix", dist)
    chk.note_cases("session-twin-bigcount[matrix, oracle only]", [l[:300] for l in lines], [l[:300] for l in nt], sample_n=0, dist=dist)
    if (chk.broken or chk.drift) and not chk.failures:
        search(chk, rnd)
    return chk.finish(level="proof",
        rule="session-twin-bigcount: 2049..4000 one-byte fragments (more than the 2048 bits of the pivot bitmap), a few losses, reboots in stage 1 and around the first coded fragments; oracle only - the model needs far too long at this size; session-twin-wide: 520..620 one-byte fragments, one 256-aligned window of the segment status table never written plus 1..3 losses behind it, reboots in stage 1, around the first coded fragment, mid-way and around completion; "
             "session-twin: for each delivery scenario (geometries with capacity >= 1; ring positions from random histories, and explicitly the pair that wraps the ring end) one uninterrupted run and runs with drop + try_recover before fragment p for every p (all positions for short scripts, a sample incl. first / last / after completion otherwise), "
             "several positions at once and at every position; overflow-checked and release builds; non-trivial = every twin run; distinct by case text",
        trusted=core.TRUSTED_COMMON)
