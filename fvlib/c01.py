"""C01 - a completed update holds exactly the transmitted image.
Proof: props/C01.v (byte-level reconstruction soundness over the flash-backed storages + C02 + CRC gate).
Correspondence: `session` stream (matrix and matrix+force-full-r builds) against the byte-level model Mgr.v.
Oracle: final flash image vs transmitted image, validation, header, counters after every call."""
import random
from . import core, session

def run(chk):
    chk.prove()
    rnd = random.Random(chk.seed)
    count = 250 if chk.quick() else 3000
    for variant, ffr in (("matrix", False), ("matrix-ffr", True)):
        scns = [session.build_delivery(rnd, ffr=ffr, small=True) for _ in range(count if not ffr else count // 2)]
        if not chk.quick():
            scns += [session.build_delivery(rnd, ffr=ffr, small=False) for _ in range(count // 20)]
        lines, impl, outs = session.run(chk, scns, variant=variant, stream="session-delivery")
        nt, dist = [], {"complete": 0, "with_loss": 0, "with_history": 0, "modes": {}, "sizes": {}, "slots": {}}
        for s, l, raw, out in zip(scns, lines, impl, outs):
            if len(out) != len(s.ops):
                chk.failures.append(core.Failure("harness produced no / truncated result", "session", variant, l, raw, key="crash")); break
            for msg in session.oracle_delivery(s, out):
                chk.failures.append(core.Failure(msg, "session", variant, l, raw[:2000], key="c01"))
            done = out[s.meta["done_op"]][0].startswith("ok")
            dist["complete"] += done; dist["with_loss"] += bool(s.meta["lost"]); dist["with_history"] += "history" in s.meta
            dist["modes"][s.meta["mode"]] = dist["modes"].get(s.meta["mode"], 0) + 1
            dist["sizes"][s.meta["sz"]] = dist["sizes"].get(s.meta["sz"], 0) + 1
            dist["slots"][s.ns] = dist["slots"].get(s.ns, 0) + 1
            if done or s.meta["lost"]: nt.append(l)
            if chk.too_many(): break
        chk.note_cases("session-delivery[%s]" % variant, lines, nt, sample_n=1, dist=dist)
    # many unknowns (more than 64, 128: the bit rows span several machine words)
    from . import c07
    scns = []
    for _ in range(6 if chk.quick() else 60):
        scns += [t for t in c07.twin_scenarios(rnd, True, base=c07.wide_loss_base(rnd), positions=lambda npos: []) if t.meta["tag"] == "ref"]
        scns += [t for t in c07.twin_scenarios(rnd, True, base=c07.high_number_base(rnd), positions=lambda npos: []) if t.meta["tag"] == "ref"]
    lines, impl, outs = session.run(chk, scns, variant="matrix", stream="session-delivery-wide")
    nt = []
    for s, l, raw, out in zip(scns, lines, impl, outs):
        if len(out) != len(s.ops):
            chk.failures.append(core.Failure("harness produced no / truncated result", "session", "matrix", l, raw, key="crash")); break
        for msg in session.oracle_delivery(s, out)[:1]:
            chk.failures.append(core.Failure("with %d lost fragments: %s" % (len(s.meta["lost"]), msg), "session", "matrix", l, raw[:2000], key="c01"))
        nt.append(l)
    chk.note_cases("session-delivery-wide", lines, nt, sample_n=0, dist={"scenarios": len(lines), "lost": sorted(len(s.meta["lost"]) for s in scns)})
    # the same deliveries with clean reboots (drop + try_recover) in between, also with more than 8 unknowns
    scns = []
    for k in range(40 if chk.quick() else 400):
        b = c07.big_loss_base(rnd) if k % 5 == 0 else session.build_delivery(rnd, small=True, with_history=rnd.random() < 0.3, wrapped=(k % 5 == 1))
        if b.meta["cap"] < 1:
            continue
        tw = c07.twin_scenarios(rnd, True, base=b, positions=lambda npos: sorted(rnd.sample(range(npos), min(npos, 2))))
        scns += [t for t in tw if t.meta["tag"] != "ref"]
    lines, impl, outs = session.run(chk, scns, variant="matrix", stream="session-delivery-reboot")
    nt = []
    for s, l, raw, out in zip(scns, lines, impl, outs):
        if len(out) != len(s.ops):
            chk.failures.append(core.Failure("harness produced no / truncated result", "session", "matrix", l, raw, key="crash")); break
        for msg in session.oracle_delivery(s, out)[:1]:
            chk.failures.append(core.Failure("with clean reboots before fragments %s: %s" % (sorted(s.meta["positions"]), msg), "session", "matrix", l, raw[:2000], key="c01"))
        nt.append(l)
        if chk.too_many(): break
    chk.note_cases("session-delivery-reboot", lines, nt, sample_n=1, dist={"scenarios": len(lines)})
    # model-internal tie: Mgr.v (compared with the implementation above) vs Updater.run_session (GRecon over Sim.v's storages,
    # the object of flash_reconstruction_sound) on fresh-flash deliveries
    from . import ts004
    glines = []
    for _ in range(200 if chk.quick() else 3000):
        ns, slot, blk, sz, n = session.pick_geometry(rnd, True)
        cap = session.max_l(slot, sz)
        img = ts004.make_image(rnd, n, sz)
        seq, mode, lost = session.delivery_plan(rnd, n, cap)
        glines.append("%d %d %d %d|%s" % (slot, n, sz, blk, ",".join("%d:%s" % (i, ts004.encode_fragment(img, n, sz, i).hex()) for i in seq)))
    try:
        fvm = core.build_fvm()
        gout = core.run_stream(fvm, "gsession", glines)
        badg = [(l, o) for l, o in zip(glines, gout) if not o.startswith("AGREE")]
        chk.cov["streams"]["model-internal(Mgr vs GRecon/Sim)"] = {"cases": len(glines), "disagreements": len(badg)}
        if badg:
            chk.broken.append(("correspondence", "model-internal[Mgr.v vs Updater.run_session]", {"first_differing_case": badg[0][0][:500], "model": badg[0][1]}))
    except core.BuildError as e:
        chk.broken.append(("correspondence", "model-internal[build]", {"detail": str(e)[-1000:]}))
    return chk.finish(level="proof",
        rule="session-delivery stream: random geometry (fragment size classes around the 68-byte prefix, counts 1..40 (thorough: up to 300), slot sizes from 17409 B upward, erase blocks 64..512, 4/5/6 slots), "
             "optional prior history (confirmed / rejected / cancelled updates) so the session's slots lie anywhere in the ring, loss sets up to and beyond the capacity, orders (data-then-coded, shuffled, coded-first, trickle), duplicates, late data; "
             "session-delivery-wide: coded fragments numbered from 8375 .. 16000 on (PRBS seeds beyond 23 bits); 63..134 lost fragments (around the word boundaries of the bit rows), random or one contiguous outage, one-/two-byte fragments; session-delivery-reboot: the same generator (every fifth base with 9..40 losses) with drop + try_recover before one, two, a few and every fragment; non-trivial = completes or has losses; distinct by case text",
        trusted=core.TRUSTED_COMMON + ["C01: the sender-side encoder and CRC in fvlib/ts004.py are written from TS004 / the CRC catalogue, independently of the crates and of the Coq model"])
