"""C19 - single-erasure (V1) updaters repair only what parity determines.
Proof: props/C19.v (repair loop = least fixed point of single-missing peeling).  Correspondence: `naive` stream (flash-algo-new
without the matrix feature, with and without force-full-r) and `orig` stream (deprecated crate) against V1.v / Orig.v.
Oracle: peeling decoder, repaired fragment = original, final image, duplicates are no-ops, both implementations complete at
the same fragment; crash at operation boundaries + recovery for the flash-algo-new variant."""
import random
from . import core, session, v1, crash


def crash_cases(rnd, base, refout, limit):
    me = base.meta
    counts = crash.op_counts(base, refout)
    first, last = me["start_op"], me["done_op"]
    idxs, _ = crash.interesting_indices(base, refout[first:last + 1], rnd, limit)
    out = []
    for k in idxs:
        s = session.Scn(base.ns, base.slot, base.blk)
        for o in base.ops[:first]: s.add(o)
        s.add("crash %d" % k)
        for o in base.ops[first:last + 1]: s.add(o)
        s.add("reboot")
        m = {"base": base, "k": k}
        m["rec_op"] = s.add("recover")
        m["restart_op"] = s.add("start %d %d" % (me["sz"], me["n"])) if k < counts[first] else None
        # remainder: everything again (identical re-delivery changes nothing), then a full data pass
        m["cont"] = [s.add(base.ops[i]) for i in me["seg_ops"]] + [s.add(session.seg_op(me["img"], me["n"], me["sz"], i, me["ffr"])) for i in range(1, me["n"] + 1)]
        m["done_op"] = s.add("done"); m["bl_op"] = s.add("bl")
        m["dumps"] = [s.add("dump %d %x %d" % (i, session.DRO, me["n"] * me["sz"])) for i in range(base.ns)]
        s.meta = m
        out.append(s)
    return out


def crash_oracle(s, out):
    m = s.meta; me = m["base"].meta
    msgs = []
    if any(h == "panic" for h, _ in out[m["rec_op"]:]):
        msgs.append("panic after reboot (crash point %d)" % m["k"])
    dn = out[m["done_op"]][0]
    bl = out[m["bl_op"]][0]
    if dn.startswith("ok"):
        i = int(dn[3:])
    elif bl.startswith("inc"):
        i = int(bl[4:])            # power was lost between the two final marks: the slot already reads completed
    else:
        return msgs + ["resumed V1 update (crash point %d) does not check out: %s (bootloader status %s)" % (m["k"], dn, bl)]
    if out[m["dumps"][i]][0] != me["img"].hex():
        msgs.append("resumed V1 update completed with an image that differs from the transmitted one")
    return msgs


def search(chk, rnd):
    """directed search for a concrete failing input when a proof or the correspondence is broken (implementation + oracle
       only): clean reboot (drop + try_recover) before every fragment of lossy deliveries with late data; the resumed run
       must report completion at the fragment where peeling over the received fragments can recover everything"""
    scns = []
    for _ in range(120 if chk.quick() else 800):
        b = v1.build(rnd, "naive", with_prior=False)
        me = b.meta
        if not me["lost"] or me["pcap"] < 2:
            continue
        seq = [i for i in me["seq"] if 0 < i <= me["n"] + me["pcap"]]
        if rnd.random() < 0.6:
            seq = [i for i in seq if i != me["n"] + 1] + sorted(me["lost"])       # first coded fragment lost, late data at the end
        for p in range(1, len(seq) + 1):
            s = session.Scn(b.ns, b.slot, b.blk)
            m = dict(me); m["seq"] = seq; m["pos"] = p
            m["start_op"] = s.add("start %d %d" % (me["sz"], me["n"]))
            m["seg_ops"] = []
            for k, i in enumerate(seq):
                if k == p:
                    s.add("drop"); m["rec_op"] = s.add("recover")
                m["seg_ops"].append(s.add(session.seg_op(me["img"], me["n"], me["sz"], i, False)))
            if p == len(seq):
                s.add("drop"); m["rec_op"] = s.add("recover")
            m["done_op"] = s.add("done"); m["bl_op"] = s.add("bl"); m["hdrs_op"] = s.add("hdrs")
            for i in range(b.ns):
                s.add("dump %d %x %d" % (i, session.DRO, me["n"] * me["sz"]))
            s.meta = m
            scns.append(s)
    lines, impl, outs = v1.run(chk, scns, "naive", stream="v1-directed-search", with_model=False)
    found = 0
    for s, l, raw, out in zip(scns, lines, impl, outs):
        if len(out) != len(s.ops):
            continue
        me = s.meta
        want, _ = v1.peel_run(me["n"], me["pcap"], me["seq"], False)
        got = [out[i][0][:1] for i in me["seg_ops"]]
        if "F" in want and [g.upper() for g in got] != [w.upper() for w in want]:
            d = next(i for i, (a, b) in enumerate(zip(got, want)) if a.upper() != b.upper())
            chk.failures.append(core.Failure("after a clean reboot before fragment #%d (try_recover: %s) fragment #%d (index %d) is answered %s; peeling over the received fragments gives %s" %
                                             (me["pos"], out[me["rec_op"]][0], d, me["seq"][d], out[me["seg_ops"][d]][0].split(":")[0], want[d]), "session", "naive", l, raw[:2000], key="c19"))
            found += 1
            if found >= 3: break
    chk.cov["streams"]["directed-search(v1 reboot twins)"] = {"cases": len(lines), "found": found}
    chk.cov["evaluations"] += len(lines)


def run(chk):
    chk.prove()
    rnd = random.Random(chk.seed)
    count = 140 if chk.quick() else 2000
    both = []
    for which, ffr in (("naive", False), ("naive", True), ("orig", False)):
        r2 = random.Random(chk.seed + 7)         # the same scenarios for every implementation (v1_agree)
        scns = [v1.build(r2, "naive", ffr=ffr) for _ in range(count if not ffr else count // 3)]
        if which == "orig":
            for s in scns: s.meta["pcap_used"] = s.meta["pcap"]
        lines, impl, outs = v1.run(chk, scns, which, ffr=ffr, stream="v1-%s%s" % (which, "-ffr" if ffr else ""))
        nt, dist = [], {"complete": 0, "with_repair": 0, "duplicates": 0}
        for s, l, raw, out in zip(scns, lines, impl, outs):
            if len(out) != len(s.ops):
                chk.failures.append(core.Failure("harness produced no / truncated result", which, "-", l, raw[-300:], key="crash")); break
            for msg in v1.oracle(s, out, which)[:1]:
                chk.failures.append(core.Failure("[%s] %s" % (which, msg), "session" if which == "naive" else "orig", "naive-ffr" if ffr and which == "naive" else ("naive" if which == "naive" else "matrix"), l, raw[:2000], key="c19"))
            dist["complete"] += out[s.meta["done_op"]][0].startswith("ok")
            dist["with_repair"] += bool(s.meta["lost"]); dist["duplicates"] += len(s.meta["seq"]) != len(set(s.meta["seq"]))
            nt.append(l)
            if chk.too_many(): break
        chk.note_cases("v1-%s%s" % (which, "-ffr" if ffr else ""), lines, nt, sample_n=1, dist=dist)
        if not ffr:
            both.append((which, scns, outs))
    # the two implementations, fed the same fragments, report completion at the same fragment
    (wa, sa, oa), (wb, sb, ob) = both
    for s, x, y in zip(sa, oa, ob):
        ha = [x[i][0][:1] for i in s.meta["seg_ops"]]; hb = [y[i][0][:1] for i in s.meta["seg_ops"]]
        ha = [a if not (a == "e" or b == "e") else "-" for a, b in zip(ha, hb)]; hb = [b if c != "-" else "-" for b, c in zip(hb, ha)]
        if ha != hb and len(x) == len(s.ops) and len(y) == len(s.ops):
            chk.failures.append(core.Failure("the two V1 implementations disagree: naive %s, original %s" % ("".join(ha), "".join(hb)), "session", "naive", s.line(), "", key="c19"))
    # power loss at operation boundaries, flash-algo-new variant
    r3 = random.Random(chk.seed + 19)
    bases = [v1.build(r3, "naive", with_prior=False) for _ in range(8 if chk.quick() else 80)]
    lines, impl, refouts = v1.run(chk, bases, "naive", stream="v1-crash-ref")
    cases = []
    for b, ro in zip(bases, refouts):
        if len(ro) == len(b.ops) and ro[b.meta["done_op"]][0].startswith("ok"):
            cases += crash_cases(r3, b, ro, 40 if chk.quick() else 300)
    clines, cimpl, couts = v1.run(chk, cases, "naive", stream="v1-crash")
    for s, l, raw, out in zip(cases, clines, cimpl, couts):
        if len(out) != len(s.ops):
            chk.failures.append(core.Failure("harness produced no / truncated result", "session", "naive", l, raw[-300:], key="crash")); break
        for msg in crash_oracle(s, out)[:1]:
            chk.failures.append(core.Failure(msg, "session", "naive", l, raw[:2000], key="c19"))
    chk.note_cases("v1-crash", clines, clines, sample_n=1, dist={"crash_cases": len(clines)})
    if (chk.broken or chk.drift) and not chk.failures:
        search(chk, random.Random(chk.seed + 23))
    return chk.finish(level="proof",
        rule="v1 streams: random geometry (sizes 1..128, counts 1..33, slots 17664..21504 B, 3..6 slots), optional earlier updates, up to 6 lost fragments, coded fragments sampled below the parity capacity, orders (data-then-coded / shuffled / coded-first), duplicates, late data, out-of-range indices; "
             "the same scenarios on the flash-algo-new single-erasure back-end (default and force-full-r) and on original-flash-algo; v1-crash: power loss at every operation boundary of completing deliveries, recovery, identical re-delivery + full data pass; non-trivial = every scenario; distinct by case text",
        trusted=core.TRUSTED_COMMON + ["C19: the read pattern of the V1 code is not modelled exactly (results and programs / erases are)",
                                        "repaired fragment = original and final image are checked by the oracle on the implementation, not proved"])
