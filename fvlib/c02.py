"""C02 - the parity reconstructor never produces wrong data.
Proof: props/C02.v (recon_sound over Recon.v).  Correspondence: `recon` stream against MRecon/Recon.
Oracle: every data-store argument and the final store against the original blocks."""
from . import core, recon

def run(chk):
    chk.prove()
    count, nmax = (3000, 40) if chk.quick() else (40000, 120)
    cases, lines, impl, parsed, fvh, fvm = recon.run_stream(chk, count, nmax, gets_matter=False)
    for c, l, raw, r in zip(cases, lines, impl, parsed):
        if r is None:
            chk.failures.append(core.Failure("harness produced no result (crash)", "recon", "matrix", l, raw, key="crash")); break
        for msg in recon.oracle_c02(c, r):
            chk.failures.append(core.Failure(msg, "recon", "matrix", l, raw, key="c02"))
        if chk.too_many(): break
    return chk.finish(level="proof",
        rule="recon stream: random geometry (n<=%d, block sizes 1..256, capacity 0..n, V width 8/64/256), matrices (LoRaWAN / random / sparse / zero / duplicate rows), "
             "arrival classes (data-then-coded, shuffled, coded-first, trickle between refusals, heavy duplication, late data); non-trivial = reaches Done, contains a refusal, stores a pivot or eliminates; distinct by case text" % nmax,
        trusted=core.TRUSTED_COMMON + ["C02: theorem recon_sound is about Recon.v; fvm cross-checks Recon.run against the fault-aware MRecon.run_case on every fault-free case",
                                        "blocks are N values (little-endian) in the model: buffer lengths are by construction there and checked on the implementation by the instrumented storages"])
