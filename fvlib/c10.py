"""C10 - parity rows match the LoRaWAN TS004 fragmentation matrix.
Proof: props/C10.v.  Correspondence: `lfdbt` stream (three generators, both feature builds) against Lfdbt.v.
Oracle: the reference written from the specification in fvlib/ts004.py (validated on the shipped interop vectors)."""
import random
from . import core, ts004


def gen_pairs(rnd, quick):
    pairs = []
    for M in range(1, 65 if quick else 257):
        for N in range(1, 65 if quick else 129):
            pairs.append((M, N))
    pow2 = [1 << k for k in range(0, 15)]
    for M in pow2:
        for Mx in (M - 1, M, M + 1):
            if 1 <= Mx <= 16384:
                Ns = ([1, 16383] + [rnd.randint(1, 16383)] if (quick and Mx > 1024) else [1, 2, 16383, 16382] + [rnd.randint(1, 16383) for _ in range(6 if quick else 200)])
                pairs += [(Mx, N) for N in Ns]
    for _ in range(400 if quick else 20000):
        pairs.append((rnd.randint(1, 2048) if rnd.random() < 0.9 else rnd.randint(1, 16384), rnd.choice([1, 16383, rnd.randint(1, 16383)])))
    if not quick:
        for M in range(1, 16385, 7):
            pairs += [(M, rnd.randint(1, 16383)) for _ in range(2)]
    return pairs


def run(chk):
    core.gen_interop()
    chk.prove()
    rnd = random.Random(chk.seed)
    pairs = gen_pairs(rnd, chk.quick())
    cases = ["%d %d" % p for p in pairs]
    # the Python reference against the shipped interoperability vectors (independent validation of the oracle itself)
    nb, size, frags = core.gen_interop()
    data = {i: p for i, p in frags if i <= nb}
    for idx, payload in frags:
        if idx > nb:
            x = 0
            for j in ts004.matrix_line(idx - nb, nb):
                x ^= data[j + 1]
            if x != payload:
                chk.broken.append(("correspondence", "oracle[ts004.py vs interop vectors]", {"detail": "coded fragment %d of the shipped vectors is not reproduced by the reference" % idx}))
    for variant, ffr in (("matrix", False), ("matrix-ffr", True)):
        fvh = core.build_harness(variant)
        core.gen_consts(fvh)
        impl = core.run_stream(fvh, "lfdbt", cases)
        nt, dist = [], {"pow2_M": 0, "M_max": 0, "exhaustive_small": 64 * 64 if chk.quick() else 256 * 128}
        for (M, N), c, got in zip(pairs, cases, impl):
            ref = "%x" % ts004.row_mask(N, M, False)
            ref_f = "%x" % ts004.row_mask(N, M, True) if ffr else ref
            want = "new:%s orig:%s lfdbt:%s" % (ref_f, ref_f, ref)
            if got != want:
                chk.failures.append(core.Failure("generated parity row for M=%d N=%d differs from TS004 matrix_line%s" % (M, N, " (no-repeat variant)" if ffr else ""), "lfdbt", variant, c, got, want, key="c10"))
                if chk.too_many(): break
            row = ts004.row_mask(N, M, ffr)
            if row >> M: chk.failures.append(core.Failure("row addresses a fragment >= M", "lfdbt", variant, c, got, key="c10"))
            if M >= 2 and row == 0: chk.failures.append(core.Failure("empty row for M >= 2", "lfdbt", variant, c, got, key="c10"))
            if ffr and bin(row).count("1") != M // 2: chk.failures.append(core.Failure("force-full-r row weight is not floor(M/2)", "lfdbt", variant, c, got, key="c10"))
            dist["pow2_M"] += ts004.is_pow2(M); dist["M_max"] = max(dist["M_max"], M)
            if M >= 2: nt.append(c)
        chk.note_cases("lfdbt[%s]" % variant, cases, nt, dist=dist)
        try:
            fvm = core.build_fvm()
            model = core.run_stream(fvm, "lfdbt", cases, args=(["ffr"] if ffr else []))
            chk.correspond("lfdbt", variant, cases, impl, model)
        except core.BuildError as e:
            chk.broken.append(("correspondence", "lfdbt[model build]", {"detail": str(e)[-1500:]}))
    return chk.finish(level="proof",
        rule="lfdbt stream: (M, N) exhaustive for M, N <= 64 (thorough: M <= 256, N <= 128), all 15 powers of two and their neighbours with boundary and random N, random M up to 16384 with N in {1, 16383, random} "
             "(thorough: every 7th M up to 16384); three generators x default and force-full-r builds; non-trivial = M >= 2; distinct by (M, N)",
        trusted=core.TRUSTED_COMMON + ["C10: termination of the rejection loop is not proved (needs the period of the 23-bit LFSR); theorems carry the `= Some` hypothesis, the stream exercises termination",
                                        "the Python reference (oracle) is validated against the shipped interoperability vectors on every run"])
