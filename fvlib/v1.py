"""V1 streams: single-erasure back-end of flash-algo-new (`naive` build, harness command `session`, model command `naive`)
and the deprecated original-flash-algo manager (harness / model command `orig`).  Tokens carry no read counts on the model side."""
import random, re
from . import core, session, ts004

STRIP = re.compile(r"#\d+/[0-9a-f]+")


def run(chk, scns, which, ffr=False, stream=None, with_model=True):
    """which: 'naive' or 'orig'"""
    variant = ("naive-ffr" if ffr else "naive") if which == "naive" else ("matrix-ffr" if ffr else "matrix")
    fvh = core.build_harness(variant)
    core.gen_consts(fvh)
    lines = [s.line() for s in scns]
    impl = [STRIP.sub("", x) for x in core.run_stream(fvh, "session" if which == "naive" else "orig", lines)]
    outs = [session.parse_out(x) for x in impl]
    if with_model:
        try:
            fvm = core.build_fvm()
            model = core.run_stream(fvm, which, lines, args=(["ffr"] if ffr else []))
            chk.correspond(stream or which, variant, lines, impl, model)
        except core.BuildError as e:
            chk.broken.append(("correspondence", (stream or which) + "[model build]", {"detail": str(e)[-1500:]}))
    return lines, impl, outs


def parity_cap(which, slot, sz):
    return min((slot - session.DRO) // sz, 16384)


def peel_run(n, pcap, seq, ffr):
    """reference outcomes of a crash-free V1 delivery: iterative single-missing peeling.  -> (list of 'C'/'F'/'E', repaired list per step)"""
    have, par, outs, reps = set(), set(), [], []
    rows = {}
    def row(k):
        if k not in rows: rows[k] = ts004.matrix_line(k, n, ffr)
        return rows[k]
    for idx in seq:
        rep = []
        if idx == 0 or idx > n + pcap:
            outs.append("E"); reps.append(rep); continue
        new = False
        if idx <= n:
            if idx - 1 not in have: have.add(idx - 1); new = True
        else:
            if idx - n not in par: par.add(idx - n); new = True
        if not new:
            outs.append("c"); reps.append(rep); continue          # lower case: already present (duplicate of a delivered or repaired fragment)
        if len(have) < n and par:
            changed = True
            while changed and len(have) < n:
                changed = False
                for k in sorted(par):
                    miss = [j for j in row(k) if j not in have]
                    if len(miss) == 1:
                        have.add(miss[0]); rep.append(miss[0]); changed = True; break
        outs.append("F" if len(have) == n else "C"); reps.append(rep)
    return outs, reps


def build(rnd, which, ffr=False, with_prior=True, bad=None):
    ns = rnd.choice([3, 4, 5, 6]) if which == "orig" else rnd.choice([4, 5, 6])
    blk = 256
    sz = rnd.choice([1, 3, 8, 17, 40, 48, 68, 100, 128])
    slot = session.DRO + rnd.choice([256, 512, 1024, 2048, 4096])
    if rnd.random() < 0.08:
        sz = rnd.choice([1, 1, 2]); slot = session.DRO + rnd.choice([20480, 36864])       # more parity positions than a header can describe
    n = max(1, min((slot - session.DRO) // sz, rnd.choice([1, 2, 3, 5, 8, 12, 16, 24, 33])))
    pcap = parity_cap(which, slot, sz)
    img = ts004.make_image(rnd, n, sz)
    s = session.Scn(ns, slot, blk)
    if with_prior:
        for _ in range(rnd.randint(0, 3)):
            s.add("start 8 2"); s.add("seg 1 ffffffff01020304"); s.add("seg 2 0506070809101112"); s.add(rnd.choice(["done", "drop", "cancel", "recover"]))
    nl = rnd.randint(0, min(6, n))
    lost = set(rnd.sample(range(1, n + 1), nl))
    coded = [n + k for k in rnd.sample(range(1, min(pcap, 60) + 1), min(min(pcap, 60), nl + rnd.randint(0, 6)))] if pcap >= 1 else []
    seq = [i for i in range(1, n + 1) if i not in lost] + coded
    mode = rnd.choice(["data-then-coded", "shuffled", "coded-first"])
    if mode == "shuffled": rnd.shuffle(seq)
    elif mode == "coded-first": seq = coded + [i for i in range(1, n + 1) if i not in lost]
    for _ in range(rnd.randint(0, 3)):
        if seq: seq.insert(rnd.randrange(len(seq) + 1), rnd.choice(seq))
    if rnd.random() < 0.4: seq += sorted(lost)
    if rnd.random() < 0.2: seq += [n + pcap + 1, 0]
    if bad:
        for idx in bad(n, pcap):
            seq.insert(rnd.randrange(len(seq) + 1), idx)
    s.meta = dict(n=n, sz=sz, img=img, seq=seq, lost=sorted(lost), ffr=ffr, pcap=pcap, mode=mode)
    s.meta["start_op"] = s.add("start %d %d" % (sz, n))
    s.meta["seg_ops"] = [s.add(session.seg_op(img, n, sz, i, ffr) if 0 < i <= n + pcap else "seg %d %s" % (i, "00" * sz)) for i in seq]
    s.meta["done_op"] = s.add("done")
    s.meta["bl_op"] = s.add("bl")
    s.meta["hdrs_op"] = s.add("hdrs")
    for i in range(ns):
        s.add("dump %d %x %d" % (i, session.DRO, n * sz))
    return s


def oracle(s, out, which):
    me = s.meta
    n, sz, img, seq, ffr = me["n"], me["sz"], me["img"], me["seq"], me["ffr"]
    msgs = []
    st = out[me["start_op"]]
    if not st[0].startswith("ok"):
        return ["start(%d, %d) returned %s" % (sz, n, st[0])]
    w = [a // s.slot for k, a, ln, d, z in session.expand_log(st[1], s.blk) if k == "W" and a % s.slot in (0, 4)]
    # firmware slot = first header written (naive writes sequence numbers first: first, second; orig writes whole headers)
    fw = w[0] if w else None
    want, reps = peel_run(n, me["pcap"], seq, ffr)
    for k, (opi, wv, rp) in enumerate(zip(me["seg_ops"], want, reps)):
        head, lg = out[opi]
        got = "E" if head.startswith("err") else head[:1]
        dup = wv == "c"
        wv = wv.upper()
        if which == "orig" and dup and got == "E" and not lg:
            # the deprecated crate compares a duplicate through a 256-byte read at the fragment's address; at the end of the last
            # slot that read leaves the device and the call answers OutOfBounds - nothing is changed (DESIGN.md section 8, observation)
            continue
        if got != wv:
            msgs.append("fragment #%d (index %d): outcome %s, the peeling decoder says %s" % (k, seq[k], head.split(":")[0], wv)); break
        ops = session.expand_log(lg, s.blk)
        if wv == "E" and ops:
            msgs.append("fragment index %d is outside the legal range 1..%d but programs the flash: %s" % (seq[k], n + me["pcap"], lg[:2]))
        data_w = [(a, d) for kk, a, ln, d, z in ops if kk == "W" and a // s.slot == fw and a % s.slot >= session.DRO]
        for a, d in data_w:
            i = (a % s.slot - session.DRO) // sz
            if i >= n or d != img[i * sz:(i + 1) * sz]:
                msgs.append("fragment %d written to the firmware slot (%s) differs from the original" % (i, "repair" if i in rp else "delivery"))
        if dup and ops:
            msgs.append("re-delivery of fragment index %d modifies the flash: %s" % (seq[k], lg[:2]))
        for kk, a, ln, d, z in ops:
            if a // s.slot != (a + ln - 1) // s.slot:
                msgs.append("write at %#x (+%d) straddles a slot boundary" % (a, ln))
    dn = out[me["done_op"]][0]
    if want and "F" in want:
        if not dn.startswith("ok"):
            msgs.append("completed V1 delivery: check_and_mark_done returned %s" % dn)
        else:
            i = int(dn[3:])
            dump = out[me["hdrs_op"] + 1 + i][0]
            if dump != img.hex():
                msgs.append("completed V1 slot differs from the transmitted image")
    elif dn.startswith("ok"):
        msgs.append("check_and_mark_done succeeded although peeling cannot recover the image")
    return msgs
