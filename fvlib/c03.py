"""C03 - completion exactly at full rank; refusal exact and harmless.
Proof: props/C03.v (done_iff_full_rank, refusal_exact, done_stable over Recon.v).  Correspondence: `recon` stream.
Oracle: independent GF(2) rank of the accepted rows after every call; refusal predicate; silence after Done / on refusal."""
from . import core, recon

def run(chk):
    chk.prove()
    count, nmax = (3000, 40) if chk.quick() else (40000, 120)
    cases, lines, impl, parsed, fvh, fvm = recon.run_stream(chk, count, nmax, gets_matter=False)
    for c, l, raw, r in zip(cases, lines, impl, parsed):
        if r is None:
            chk.failures.append(core.Failure("harness produced no result (crash)", "recon", "matrix", l, raw, key="crash")); break
        for msg in recon.oracle_c03(c, r):
            chk.failures.append(core.Failure(msg, "recon", "matrix", l, raw, key="c03"))
        if chk.too_many(): break
    return chk.finish(level="proof",
        rule="recon stream (same space as C02) incl. refusal sequences: capacity 0..n with up to capacity+2 losses, data trickling between refusals; "
             "non-trivial = reaches Done, contains a refusal, stores a pivot or eliminates; distinct by case text",
        trusted=core.TRUSTED_COMMON + ["C03: the rank oracle (fvlib/ts004.gf2_rank) is an independent elimination in Python"])
