"""`session` stream: flash-algo-new's SlotManager / Updater (matrix back-end) on SimNor, driven by scripts.
Scenario builders, token parsing, implementation-side oracles shared by C01 C04 C05 C06 C07 C08 C12 C13 C15 C17 C18.

Script grammar (one case per line): `NSLOTS SLOTSIZE BLOCKSIZE|op;op;...`
  start SZ CNT | seg IDX HEX | done | drop | recover | cancel | bl | fb | valid I | mark KIND I
  crash K [J KEEP] (power loss at the K-th modifying flash operation from now; torn: J full bytes + keep mask)
  fail K (the K-th flash operation from now fails once, medium unchanged) | reboot | raw ADDR HEX | dump I OFF LEN | hdrs
Result: one token per op joined by " ; ": `head[flash-op log]`."""
import random, re
from . import core, ts004

DRO = 0x4400          # data region offset
HDR = 0x400           # header area size = status table offset
MAXSEG = 16384


def mro(i):
    c, p = divmod(i, 8)
    return c * (c + 1) * 4 + p * (c + 1)


def max_l(slot, sz):
    """largest l < 2048 with mro(l) + l*sz <= slot - 0x4400 (what start_update's binary search must return)"""
    ps = slot - DRO
    best = 0
    lo, hi = 0, 2047
    while lo <= hi:
        mid = (lo + hi) // 2
        if mro(mid) + mid * sz <= ps:
            best = mid; lo = mid + 1
        else:
            hi = mid - 1
    return best


def documented_capacity(slot, sz):
    """README: largest l < 2048 with 17408 + l*sz + 4*floor(l/8)*(floor(l/8)+1) + (l mod 8)*(floor(l/8)+1) < slot"""
    best = 0
    for l in range(2048):
        if 17408 + l * sz + 4 * (l // 8) * (l // 8 + 1) + (l % 8) * (l // 8 + 1) < slot:
            best = l
        else:
            break
    return best


class Scn:
    def __init__(self, ns, slot, blk):
        self.ns, self.slot, self.blk = ns, slot, blk
        self.ops = []
        self.meta = {}
        self.cls = ""
    def add(self, op):
        self.ops.append(op); return len(self.ops) - 1
    def line(self):
        return "%d %d %d|%s" % (self.ns, self.slot, self.blk, ";".join(self.ops))


class Tok(tuple):
    """(head, flash-op log) with the number of device operations (reads included) as attribute .nops"""
    def __new__(cls, head, lg, nops):
        t = super().__new__(cls, (head, lg)); t.nops = nops; return t


def parse_out(line):
    """-> list of (head, [flash ops])"""
    out = []
    for tok in line.split(" ; "):
        m = re.match(r"^(.*?)(?:\[(.*)\])?(?:#(\d+)(?:/[0-9a-f]+)?)?$", tok, re.S)
        head, lg = m.group(1), m.group(2)
        out.append(Tok(head, lg.split(",") if lg else [], int(m.group(3) or 0)))
    return out


def expand_log(ops, blk):
    """-> list of ('E', addr, blk, None, False) / ('W', addr, len, bytes, z2o)"""
    out = []
    for o in ops:
        if o.startswith("E@"):
            a, _, k = o[2:].partition("*")
            a = int(a, 16)
            for j in range(int(k) if k else 1):
                out.append(("E", a + j * blk, blk, None, False))
        elif o.startswith("W@"):
            a, _, d = o[2:].partition(":")
            z = d.endswith("!")
            d = bytes.fromhex(d.rstrip("!"))
            out.append(("W", int(a, 16), len(d), d, z))
    return out


# ------------------------------------------------------------------ geometry and delivery plans
SIZES = [1, 2, 3, 5, 8, 17, 34, 40, 45, 48, 67, 68, 69, 100, 128, 136, 255, 256]


def pick_geometry(rnd, small=True):
    blk = rnd.choice([64, 128, 256, 256, 512, 192, 320])          # incl. erase sizes that are not powers of two
    extra = rnd.choice([68, 255, 256, 512, 777, 1024, 2304, 3000, 4096]) if small else rnd.choice([4096, 8192, 20000, 65536])
    slot = -(-(DRO + extra) // blk) * blk
    ns = rnd.choice([4, 4, 5, 6])
    sz = rnd.choice(SIZES)
    room = (slot - DRO) // sz
    if room < 1:
        sz = 1; room = slot - DRO
    n = max(1, min(room, rnd.choice([1, 2, 3, 4, 5, 7, 8, 9, 12, 16, 17, 20, 24, 31, 33, 40]) if small else rnd.randint(1, min(room, 300))))
    return ns, slot, blk, sz, n


def delivery_plan(rnd, n, cap, ncoded=None, mode=None):
    """1-based fragment indices to send: (list, class name, lost set)"""
    nlost = rnd.choice([0, 1, 1, 2, 3, cap, cap, cap + 1, cap + 2]) if cap >= 1 else rnd.choice([0, 0, 1])
    nlost = max(0, min(n, nlost))
    lost = set(rnd.sample(range(1, n + 1), nlost))
    have = [i for i in range(1, n + 1) if i not in lost]
    if ncoded is None:
        ncoded = nlost + rnd.choice([0, 1, 2, 4, 8]) + (n // 4 if rnd.random() < 0.3 else 0)
    coded = list(range(n + 1, n + 1 + ncoded))
    mode = mode or rnd.choice(["data-then-coded", "data-then-coded", "shuffled", "coded-first", "trickle"])
    if mode == "data-then-coded":
        seq = have + coded
    elif mode == "shuffled":
        seq = have + coded; rnd.shuffle(seq)
    elif mode == "coded-first":
        seq = coded + have
    else:
        seq = []
        pool = list(range(1, n + 1)); rnd.shuffle(pool)
        for i in pool:
            seq.append(i)
            if coded: seq.append(rnd.choice(coded))
        seq += coded
    if seq and rnd.random() < 0.4:
        for _ in range(rnd.randint(1, 4)):
            seq.insert(rnd.randrange(len(seq) + 1), rnd.choice(seq))     # duplicates
    if lost and rnd.random() < 0.3:
        seq += [i for i in lost if rnd.random() < 0.5]                    # late data
    if rnd.random() < 0.25:
        seq += list(range(1, n + 1))                                      # a final full data pass
    return seq, mode, lost


def abstract_run(n, cap, seq, row_of):
    """reference outcome sequence of a crash-free delivery: list of 'C'/'F' and the position of first completion.
       Mirrors the documented behaviour: data stored until the first coded fragment that is not refused
       (refused while more than `cap` fragments are missing); then every fragment is a row; complete at full rank."""
    stored, stage2, done_at, outs = set(), False, None, []
    basis = {}                    # incremental GF(2) rank: leading bit -> reduced row
    def add_row(v):
        while v:
            hb = v.bit_length() - 1
            if hb in basis: v ^= basis[hb]
            else:
                basis[hb] = v; return
    for pos, idx in enumerate(seq):
        if done_at is not None:
            outs.append("F"); continue
        i0 = idx - 1
        if not stage2 and i0 >= n:
            missing = n - len(stored)
            if missing == 0:
                pass
            elif missing > min(cap, 2048):
                outs.append("C"); continue      # refused, harmless
            else:
                stage2 = True
        if not stage2 and i0 < n:
            stored.add(i0)
        add_row(row_of(i0))
        if len(basis) == n:
            done_at = pos; outs.append("F")
        else:
            outs.append("C")
    return outs, done_at


def row_of_factory(n, ffr):
    cache = {}
    def row_of(i0):
        if i0 < n:
            return 1 << i0
        if i0 not in cache:
            cache[i0] = ts004.row_mask(i0 - n + 1, n, ffr)
        return cache[i0]
    return row_of


def seg_op(img, n, sz, idx, ffr):
    return "seg %d %s" % (idx, ts004.encode_fragment(img, n, sz, idx, ffr).hex() or "-")


def prior_history(rnd, s, kinds):
    """complete earlier updates so that the ring is at different positions; kinds: list of 'confirm'|'reject'|'cancel'|'pending'|'copied'"""
    hist = []
    for kind in kinds:
        sz, n = rnd.choice([(8, 3), (40, 2), (5, 4), (1, 1)])
        img = ts004.make_image(rnd, n, sz)
        s.add("start %d %d" % (sz, n))
        if kind in ("cancel", "abandon", "recover"):
            for i in range(1, rnd.randint(1, n) + 1):
                s.add(seg_op(img, n, sz, i, False))
            s.add("drop")
            if kind == "cancel": s.add("cancel")
            if kind == "recover": s.add("recover"); s.add("drop")      # resumed (stale parity slots remediated), then left behind
            # "abandon": started over without cancel - its headers stay in progress until the next recovery / cancel
        else:
            for i in range(1, n + 1):
                s.add(seg_op(img, n, sz, i, False))
            s.add("done")
            hist.append(kind)
            # which slot did it get? the script learns it through `bl`; marks address the slot reported there, so the
            # marks are written as `markbl K` and resolved by the runner on both sides identically (slot from the last bl/fb)
            if kind in ("confirm", "reject", "copied"):
                s.add("bl"); s.add("markbl int")
            if kind == "confirm":
                s.add("bl"); s.add("markbl ok")
            if kind == "reject":
                s.add("bl"); s.add("markbl bad")
    return hist


def build_delivery(rnd, ffr=False, small=True, with_history=True, wrapped=False):
    """wrapped: 5 slots and two confirmed earlier updates, so that the session's pair is (firmware = last slot, parity = slot 0)"""
    ns, slot, blk, sz, n = pick_geometry(rnd, small)
    if wrapped:
        ns = 5
    s = Scn(ns, slot, blk)
    s.cls = "delivery"
    if wrapped:
        prior_history(rnd, s, ["confirm", "confirm"])
        s.meta["history"] = ["confirm", "confirm", "(pair wraps the ring end)"]
    elif with_history and rnd.random() < 0.6:
        kinds = [rnd.choice(["confirm", "confirm", "reject", "cancel", "abandon", "recover"]) for _ in range(rnd.randint(1, 5))]
        prior_history(rnd, s, kinds)
        s.meta["history"] = kinds
    cap = max_l(slot, sz)
    img = ts004.make_image(rnd, n, sz)
    seq, mode, lost = delivery_plan(rnd, n, cap)
    s.meta.update(dict(n=n, sz=sz, cap=cap, img=img, seq=seq, mode=mode, lost=sorted(lost), ffr=ffr))
    s.meta["fb_before"] = s.add("fb")
    s.meta["fbvalid_before"] = s.add("validfb")
    s.meta["start_op"] = s.add("start %d %d" % (sz, n))
    s.meta["seg_ops"] = [s.add(seg_op(img, n, sz, i, ffr)) for i in seq]
    s.meta["done_op"] = s.add("done")
    s.meta["bl_op"] = s.add("bl")
    s.meta["valid_op"] = s.add("validbl")
    s.meta["dump_op"] = s.add("dumpbl %x %d" % (DRO, n * sz))
    s.meta["fb_op"] = s.add("fb")
    s.meta["fbvalid_after"] = s.add("validfb")
    s.meta["hdrs_op"] = s.add("hdrs")
    return s


# ------------------------------------------------------------------ running
def run(chk, scns, variant="matrix", stream="session", with_model=True):
    fvh = core.build_harness(variant)
    core.gen_consts(fvh)
    lines = [s.line() for s in scns]
    impl = core.run_stream(fvh, "session", lines)
    outs = [parse_out(x) for x in impl]
    if with_model:
        try:
            fvm = core.build_fvm()
            args = (["ffr"] if "ffr" in variant else []) + (["release"] if "rel" in variant else [])
            model = core.run_stream(fvm, "session", lines, args=args)
            chk.correspond(stream, variant, lines, impl, model)
        except core.BuildError as e:
            chk.broken.append(("correspondence", stream + "[model build]", {"detail": str(e)[-1500:]}))
    return lines, impl, outs


def c18_part(chk):
    """flash level of C18: one transient failure at every device operation (reads and writes) of every handle_segment call,
       the failed fragment re-delivered; compared with the fault-free run"""
    from . import crash as crashmod
    rnd = random.Random(chk.seed + 18)
    nbase, per_call = (14, 10) if chk.quick() else (150, 40)
    bases = []
    while len(bases) < nbase:
        b = build_delivery(rnd, small=True, with_history=False)
        if b.meta["cap"] >= 1 and len(b.meta["seq"]) <= 40:
            bases.append(b)
    lines, impl, refouts = run(chk, bases, stream="session-fault-ref")
    cases = []
    for b, ro in zip(bases, refouts):
        if len(ro) != len(b.ops):
            continue
        me = b.meta
        for j, opi in enumerate(me["seg_ops"]):
            nops = ro[opi].nops
            ks = list(range(nops)) if nops <= per_call else sorted(rnd.sample(range(nops), per_call))
            for k in ks:
                s = Scn(b.ns, b.slot, b.blk)
                m = dict(me); m["ref"] = (b, ro); m["fail_call"] = j; m["fail_off"] = k
                m["fb_before"] = s.add("fb"); m["fbvalid_before"] = s.add("validfb")
                m["start_op"] = s.add(b.ops[me["start_op"]])
                m["seg_ops"] = []
                for jj, oi in enumerate(me["seg_ops"]):
                    if jj == j:
                        s.add("fail %d" % k)
                        m["failed_op"] = s.add(b.ops[oi])          # fails
                    m["seg_ops"].append(s.add(b.ops[oi]))         # (re-)delivery
                m["done_op"] = s.add("done"); m["bl_op"] = s.add("bl"); m["valid_op"] = s.add("validbl")
                m["dump_op"] = s.add("dumpbl %x %d" % (DRO, me["n"] * me["sz"])); m["fb_op"] = s.add("fb"); m["fbvalid_after"] = s.add("validfb"); m["hdrs_op"] = s.add("hdrs")
                s.meta = m
                cases.append(s)
    # the k-th device operation of a call is the same operation on both sides only while both issue the same reads: when the
    # reference runs showed read-pattern drift, the faulted runs are judged by the implementation-side oracle alone
    drift = chk.drift
    if drift:
        chk.notes.append("session-fault: fault positions are device-operation indices; with a drifted read pattern the faulted runs are not compared with the model (oracle only)")
    clines, cimpl, couts = run(chk, cases, stream="session-fault", with_model=not drift)
    nt, dist = [], {"fault_cases": 0, "in_back_substitution": 0, "failed_reads_or_writes": 0}
    for s, l, raw, out in zip(cases, clines, cimpl, couts):
        if len(out) != len(s.ops):
            chk.failures.append(core.Failure("harness produced no / truncated result", "session", "matrix", l, raw, key="crash")); break
        me = s.meta; b, ro = me["ref"]
        dist["fault_cases"] += 1
        failed = out[me["failed_op"]]
        pair = [a // s.slot for kk, a, ln, d, z in expand_log(out[me["start_op"]][1], s.blk) if kk == "W" and a % s.slot == 4][:2]
        types = crashmod.classify_ops(s, expand_log(failed[1], s.blk), pair, me["cap"], me["sz"]) if len(pair) == 2 else []
        in_finish = "R" in types and ro[b.meta["seg_ops"][me["fail_call"]]][0].startswith("F")
        if in_finish: dist["in_back_substitution"] += 1
        msgs = []
        if not failed[0].startswith("err:Spi(HardwareFailure)"):
            msgs.append("the call with the failing flash operation returned %s instead of the error" % failed[0].split(":r=")[0])
        msgs += oracle_delivery(s, out)
        for msg in msgs[:1]:
            chk.failures.append(core.Failure(msg, "session", "matrix", l, raw[:2500], key="c18-finish" if in_finish else "c18"))
        nt.append(l)
    chk.note_cases("session-fault", clines, nt, sample_n=1, dist=dist)


# ------------------------------------------------------------------ oracles for crash-free deliveries
def counters_of(head):
    m = re.search(r"r=(\d+)/(\d+)/(\w+)/(\d)", head)
    if not m:
        return None
    return int(m.group(1)), int(m.group(2)), m.group(3), int(m.group(4))


def oracle_delivery(s, out):
    """C01 / C15: outcome sequence vs the abstract reference, counters, final image, validation, header"""
    me = s.meta
    n, sz, cap, img, seq, ffr = me["n"], me["sz"], me["cap"], me["img"], me["seq"], me["ffr"]
    msgs = []
    st = out[me["start_op"]][0]
    if not st.startswith("ok:"):
        return ["start_update(%d, %d) on a %d-byte slot returned %s" % (sz, n, s.slot, st)]
    want, done_at = abstract_run(n, cap, seq, row_of_factory(n, ffr))
    prev = 0
    for k, (opi, w) in enumerate(zip(me["seg_ops"], want)):
        head = out[opi][0]
        if head[:1] != w:
            msgs.append("fragment #%d (index %d): outcome %s, expected %s (%d lost, capacity %d)" % (k, seq[k], head.split(":")[0], w, len(me["lost"]), cap))
            break
        c = counters_of(head)
        if c:
            rec, tot, rem, comp = c
            if rec < prev: msgs.append("received count decreased from %d to %d at fragment #%d" % (prev, rec, k))
            if rec > n or tot != n: msgs.append("received %d / total %d with %d fragments" % (rec, tot, n))
            if rem == "panic" or (rem.isdigit() and int(rem) != tot - rec): msgs.append("remaining = %s with received %d of %d" % (rem, rec, tot))
            if (rec == n) != (w == "F"): msgs.append("received = %d of %d but completion is %s at fragment #%d" % (rec, n, w, k))
            if comp != (1 if w == "F" else 0): msgs.append("is_complete = %d but outcome %s at fragment #%d" % (comp, w, k))
            prev = rec
    dn = out[me["done_op"]][0]
    if done_at is None:
        if dn.startswith("ok"):
            msgs.append("check_and_mark_done succeeded although the fragments do not determine the image")
        return msgs
    if not dn.startswith("ok:"):
        msgs.append("completed delivery: check_and_mark_done returned %s" % dn)
        return msgs
    idx = int(dn[3:])
    if out[me["bl_op"]][0] != "inc:%d" % idx:
        msgs.append("after completion bl_boot_status = %s, expected inc:%d" % (out[me["bl_op"]][0], idx))
    if out[me["valid_op"]][0] != "ok":
        msgs.append("completed slot fails validation: %s" % out[me["valid_op"]][0])
    if out[me["dump_op"]][0] != img.hex():
        msgs.append("data region of the completed slot differs from the transmitted image")
    hd = out[me["hdrs_op"]][0].split(",")
    want_h = (0).to_bytes(4, "little")
    if idx < len(hd):
        h = hd[idx]
        if h == "-" or len(h) != 56:
            msgs.append("header of the completed slot does not parse")
        else:
            w = [int.from_bytes(bytes.fromhex(h)[4 * i:4 * i + 4], "little") for i in range(7)]
            if (w[0], w[2], w[3], w[4], w[5], w[6]) != (0, sz, n, 0x44444444, 0xFFFFFFFF, 0xFFFFFFFF):
                msgs.append("header of the completed slot is %s" % h)
    return msgs


def nontrivial_delivery(s, out):
    tags = []
    heads = [out[i][0] for i in s.meta["seg_ops"]]
    if any(h.startswith("F") for h in heads): tags.append("complete")
    if s.meta["lost"]: tags.append("loss")
    if any("W@" in o and int(o[2:].split(":")[0], 16) % s.slot < HDR + 16 * 1024 and int(o[2:].split(":")[0], 16) // s.slot != 0 for i in s.meta["seg_ops"] for o in out[i][1][:1]): pass
    return tags


def oracle_fallback_survives(s, out):
    """C05 on histories with real data: the fallback image is the same valid image before and after a session"""
    me = s.meta
    b, a = out[me["fb_before"]][0], out[me["fb_op"]][0]
    msgs = []
    if b.startswith("some"):
        if a != b:
            msgs.append("fallback_firmware was %s before the update and %s after it" % (b, a))
        if out[me["fbvalid_before"]][0] != "ok" or out[me["fbvalid_after"]][0] != "ok":
            msgs.append("the fallback image validates %s before and %s after the update" % (out[me["fbvalid_before"]][0], out[me["fbvalid_after"]][0]))
        fbi = int(b[5:])
        for i in [me["start_op"]] + me["seg_ops"] + [me["done_op"]]:
            for k, addr, ln, d, z in expand_log(out[i][1], s.blk):
                if addr // s.slot == fbi or (addr + ln - 1) // s.slot == fbi:
                    msgs.append("flash operation at %#x during the update touches the fallback slot %d" % (addr, fbi)); break
    return msgs
