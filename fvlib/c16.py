"""C16 - flash storage adapters round-trip blocks without disturbing neighbours.
Proof: props/C16.v (data adapter: the three word programs equal programming the block bytes in place; get-after-store; frame).
Correspondence: `adapters` stream (every write size, read sizes dividing it, block lengths 1..64, store orders, range offsets,
bit-array widths) against Adapt.v.  Oracle: get-after-store, frame, contiguity, alignment, range, no 0->1, num_rows fits."""
import itertools, random
from . import core

CAP, ERASE = 8192, 256
WS = [1, 2, 4, 8, 16, 32]


def rsz(W, m):
    b = -(-(m + 1) // 8)
    return -(-b // W) * W


def gen_cases(rnd, quick):
    cases = []
    def mk(kind, W, R, nb, start, length, ops, meta):
        cases.append(("%s %d %d %d %d %d|%s" % (kind, W, R, nb, start, length, ";".join(ops)), dict(meta, kind=kind, W=W, R=R, nb=nb, start=start, len=length)))
    for W in WS:
        Rs = [r for r in WS if r <= W]
        for R in (Rs if not quick else sorted(set([1, W, Rs[len(Rs) // 2]]))):
            Ls = range(1, 65) if not quick else sorted(set([1, 2, 3, 5, 7, 8, 9, 11, 15, 16, 17, 24, 31, 32, 33, 40, 48, 63, 64] + [W - 1, W, W + 1, 2 * W + 3]))
            for L in Ls:
                if L < 1: continue
                for kind in ("D", "P"):
                    if kind == "D" and L < W and rnd.random() < 0.8:
                        continue                              # below the write size the data adapter asserts: keep a few to see the panic
                    start = rnd.choice([0, 256, 512, 1024])
                    cnt = rnd.randint(2, 6)
                    idx = list(range(cnt))
                    orders = list(itertools.permutations(idx)) if cnt <= 3 and not quick else [tuple(rnd.sample(idx, cnt)) for _ in range(2)]
                    for order in orders[: (2 if quick else 24)]:
                        blocks = {i: bytes(rnd.getrandbits(8) for _ in range(L)) for i in idx}
                        ops = []
                        shuffled = rnd.random() < 0.5                   # read-back order: store order, or a random one (read-side state)
                        for k, i in enumerate(order):
                            ops.append("s %d %s" % (i, blocks[i].hex()))
                            for j in (rnd.sample(order[: k + 1], k + 1) if shuffled else order[: k + 1]):
                                ops.append("g %d %d" % (j, L))         # everything stored so far reads back unchanged (frame)
                        span = (cnt * L if kind == "D" else cnt * (-(-L // W) * W))
                        length = -(-(span + W) // ERASE) * ERASE
                        mk(kind, W, R, 8, start, length, ops, {"L": L, "blocks": blocks, "order": order})
            for nb in (5, 8, 32):
                start = rnd.choice([0, 256, 768])
                length = rnd.choice([256, 512, 1024, 2048])
                bits = 8 * nb
                # rows the range can hold (independent bound: cumulative row sizes strictly below the range length)
                fit, tot = 0, 0
                while fit < bits and tot + rsz(W, fit) < length:
                    tot += rsz(W, fit); fit += 1
                if fit < 2: continue
                # incl. the last row of every size group (m + 1 a multiple of 8 W: the stored row has no padding bit)
                groups = [g for g in (8 * W * k - 1 for k in range(1, 9)) if g < fit]
                ms = sorted(set(rnd.sample(range(fit), min(fit, 6 if quick else 20)) + [0, fit - 1, min(7, fit - 1), min(8, fit - 1)] + groups[:3] + [bits - 1 if bits - 1 < fit else fit - 1]))
                rnd.shuffle(ms)
                rows = {}
                ops = ["n"]
                dense = rnd.random() < 0.5          # contents: random below the diagonal, or every bit 0..m set (a stored row of all 0xFF bytes), or the unit row
                for k, m in enumerate(ms):
                    style = rnd.random()
                    v = ((1 << (m + 1)) - 1) if (dense or style < 0.2) else ((1 << m) if style < 0.3 else (1 << m) | (rnd.getrandbits(m) if m else 0))
                    rows[m] = v.to_bytes(nb, "little")
                    ops.append("s %d %s" % (m, rows[m].hex()))
                    for j in ms[: k + 1]:
                        ops.append("g %d 0" % j)
                mk("M", W, R, nb, start, length, ops, {"rows": rows, "ms": ms})
    # leftovers of an earlier session: the device is not all-zero before `new` but blank, blank except the first / last bytes of the
    # range, or patterned; the blocks reach the end of the range (the last block overlaps the dirty tail)
    for W in WS:
        for kind in ("D", "P"):
            for init_kind in ("b", "t", "t", "h", "a"):
                R = rnd.choice([r for r in WS if r <= W])
                L = rnd.choice([l for l in (W, 2 * W, 3 * W, W + 1, 2 * W + 3, 32, 33, 48, 64) if l >= W and l <= 64])
                stride = L if kind == "D" else -(-L // W) * W
                length = rnd.choice([256, 512])
                start = rnd.choice([0, 256, 1024])
                cnt = length // stride
                if kind == "D":
                    cnt = (length - W) // stride if (length - W) // stride >= 1 else cnt      # the data adapter's padded last word stays inside
                if cnt < 1: continue
                slack = length - cnt * stride
                k = rnd.randint(slack + 1, max(slack + 1, 32)) if init_kind == "t" else rnd.randint(1, 32)
                init = init_kind + (str(k) if init_kind in "th" else "")
                idx = sorted(set([0, cnt - 1, rnd.randrange(cnt)]))
                order = tuple(rnd.sample(idx, len(idx)))
                blocks = {i: bytes(rnd.getrandbits(8) for _ in range(L)) for i in idx}
                ops = []
                for kk, i in enumerate(order):
                    ops.append("s %d %s" % (i, blocks[i].hex()))
                    for j in order[: kk + 1]:
                        ops.append("g %d %d" % (j, L))
                cases.append(("%s %d %d %d %d %d %s|%s" % (kind, W, R, 8, start, length, init, ";".join(ops)),
                              dict(L=L, blocks=blocks, order=order, kind=kind, W=W, R=R, nb=8, start=start, len=length, init=init)))
    # range starts that are not erase-aligned are rejected by the device before any store
    mk("D", 4, 1, 8, 100, 256, ["s 0 " + "ab" * 8], {"L": 8, "blocks": {}, "order": ()})
    return cases


def oracle(case, meta, toks):
    msgs = []
    W, start, length = meta["W"], meta["start"], meta["len"]
    heads = [t.split("[")[0] for t in toks]
    logs = [t[t.index("[") + 1:-1].split(",") if "[" in t else [] for t in toks]
    for lg in logs:
        for o in lg:
            if o.startswith("W@"):
                a, _, d = o[2:].partition(":")
                z = d.endswith("!"); d = d.rstrip("!"); n = 0 if d == "-" else len(d) // 2; a = int(a, 16)
                if a % W or n % W: msgs.append("program at %#x (+%d) is not aligned to / a multiple of the write size %d" % (a, n, W))
                if a < start or a + n > start + length: msgs.append("program at %#x (+%d) outside the configured range [%#x, %#x)" % (a, n, start, start + length))
                if z: msgs.append("program at %#x needs a 0 -> 1 transition" % a)
            elif o.startswith("R@"):
                a, _, n = o[2:].partition("+"); a = int(a, 16); n = int(n, 16)
                if a < start or a + n > start + length: msgs.append("read at %#x (+%d) outside the configured range" % (a, n))
    if heads[0] != "new":
        if meta["start"] % ERASE == 0: msgs.append("adapter construction: %s" % heads[0])
        return msgs
    ops = case.split("|")[1].split(";")
    if meta["kind"] in ("D", "P"):
        L, blocks = meta["L"], meta["blocks"]
        if meta["kind"] == "D" and L < W:
            return msgs       # documented assert
        for op, h in zip(ops, heads[1:]):
            t = op.split()
            if t[0] == "s" and h != "ok": msgs.append("store %s -> %s" % (t[1], h))
            if t[0] == "g" and h != blocks[int(t[1])].hex():
                msgs.append("block %s reads back %s, stored %s" % (t[1], h, blocks[int(t[1])].hex()))
        if meta["kind"] == "D":
            # contiguity: the union of all programs, applied to erased flash, is exactly the concatenation of the blocks
            img = bytearray(b"\xff" * (start + length))
            for lg in logs:
                for o in lg:
                    if o.startswith("W@") and ":" in o:
                        a, _, d = o[2:].partition(":"); d = d.rstrip("!")
                        if d != "-":
                            b = bytes.fromhex(d); a = int(a, 16)
                            for k, x in enumerate(b): img[a + k] &= x
            L_ = meta["L"]
            if any(bytes(img[start + i * L_:start + (i + 1) * L_]) != blocks[i] for i in blocks):
                msgs.append("data blocks are not laid out contiguously from the range start (block i at offset i x length)")
    else:
        rows, nb = meta["rows"], meta["nb"]
        nr = int(heads[1]) if heads[1].isdigit() else -1
        meta["nr"] = nr
        tot = sum(rsz(W, k) for k in range(nr))
        if nr < 0 or tot >= length and nr > 0:
            msgs.append("num_rows = %s but %d rows need %d bytes of a %d-byte range" % (heads[1], nr, tot, length))
        for op, h in zip(ops[1:], heads[2:]):
            t = op.split()
            m = int(t[1])
            if m >= nr:
                continue          # beyond the advertised capacity: outside the contract
            if t[0] == "s" and h != "ok": msgs.append("set_row %d -> %s" % (m, h))
            if t[0] == "g" and h != rows[m].hex(): msgs.append("row %d reads back %s, stored %s" % (m, h, rows[m].hex()))
    return msgs


def run(chk):
    chk.prove()
    rnd = random.Random(chk.seed)
    cm = gen_cases(rnd, chk.quick())
    cases = [c for c, _ in cm]
    fvh = core.build_harness("matrix")
    core.gen_consts(fvh)
    impl = core.run_stream(fvh, "adapters", cases)
    nt, dist = [], {"D": 0, "P": 0, "M": 0, "write_sizes": WS, "read_sizes": sorted(set(m["R"] for _, m in cm))}
    for (c, meta), got in zip(cm, impl):
        dist[meta["kind"]] += 1
        toks = got.split(" ; ")
        try:
            msgs = oracle(c, meta, toks)
        except Exception as e:
            msgs = ["unparseable result: %r" % (e,)]
        for m_ in msgs[:1]:
            chk.failures.append(core.Failure(m_, "adapters", "matrix", c, got[:1500], key="c16"))
        nt.append(c)
        if chk.too_many(): break
    chk.note_cases("adapters", cases, nt, sample_n=3, dist=dist)
    try:
        fvm = core.build_fvm()
        model = core.run_stream(fvm, "adapters", cases)
        # which device reads an adapter issues (one per word, one per row, cached) is not a subject of C16 as long as each read
        # is aligned and inside the range (the simulated device rejects the others, which changes the result): read entries of
        # the device log are compared softly
        import re
        rd = re.compile(r"R@[0-9a-f]+\+[0-9a-f]+,?")
        def soft(line):
            return re.sub(r",\]", "]", rd.sub("", line)).replace("[]", "")
        chk.correspond("adapters", "matrix", cases, impl, model, soft=soft)
    except core.BuildError as e:
        chk.broken.append(("correspondence", "adapters[model build]", {"detail": str(e)[-1500:]}))
    return chk.finish(level="proof",
        rule="adapters stream (the device is all-zero before `new`; plus cases where it is blank, blank except the first / last 1..32 bytes of the range, or patterned, with blocks reaching the end of the range): write sizes {1,2,4,8,16,32} x read sizes dividing them x block lengths (quick: boundary lengths around the write size and 1..64 samples; thorough: every 1..64) x 2..6 indices in exhaustive (<= 3 indices) or random store orders, "
             "every stored index re-read after every store; range starts 0 / 256 / 512 / 1024 (and one unaligned start); matrix: bit-array widths 40 / 64 / 256, rows incl. first / last / byte boundaries in random order, num_rows; "
             "non-trivial = every case; distinct by case text",
        trusted=core.TRUSTED_COMMON + ["C16: the simulated word NOR (alignment = offset and length multiples of WRITE_SIZE / READ_SIZE, AND-program, starts all-zero so that a missing erase shows)"])
