"""C04 - power loss never yields a falsely complete image or a panicking recovery.
Proof: props/C04.v (tear safety of the status words, CRC gate before the Complete mark, read-only validation, header-level
recovery soundness).  Correspondence: `session` stream with power loss at every operation index incl. torn programs.
Oracle: after reboot no call panics, every slot that reads as completed firmware validates and holds the image sent for
its sequence number, bl_boot_status never designates a slot that fails validation."""
import random
from . import core, session, crash, ts004


def build_base(rnd, wrap=False):
    blk = rnd.choice([256, 512])
    ns = 5 if wrap else rnd.choice([4, 4, 5])        # wrap: five slots and three updates, so that the main update's pair is (slot 4, slot 0)
    slot = -(-(session.DRO + rnd.choice([256, 700, 1500])) // blk) * blk
    s = session.Scn(ns, slot, blk)
    ups = []          # (start op index, sz, n, image)
    def update(sz, n, deliver, finish, follow, corrupt=False):
        img = ts004.make_image(rnd, n, sz)
        if corrupt:                                     # an image whose CRC field does not match its content
            img = bytes([img[0] ^ (1 << rnd.randrange(8))]) + img[1:]
        st = s.add("start %d %d" % (sz, n))
        ups.append((st, sz, n, img))
        cap = session.max_l(slot, sz)
        seq, mode, lost = session.delivery_plan(rnd, n, min(cap, 3), mode=rnd.choice(["data-then-coded", "coded-first"]))
        if deliver == "part":
            seq = seq[:max(1, len(seq) // 2)]
        for i in seq:
            s.add(session.seg_op(img, n, sz, i, False))
        if finish:
            s.add("done")
        for f in follow:
            s.add(f)
    geos = [(sz, n) for sz, n in [(8, 3), (5, 12), (40, 4), (48, 5), (17, 6), (1, 20), (100, 2), (68, 3)] if n * sz <= slot - session.DRO]
    g = lambda: rnd.choice(geos)
    update(*g(), "all", True, ["bl", "markbl int", "bl", "markbl ok"])                 # a confirmed image
    kind = rnd.choice(["cancel", "reject", "recover", "plain", "abandon", "abandon"]) if not wrap else "confirm"
    if kind == "confirm":
        update(*g(), "all", True, ["bl", "markbl int", "bl", "markbl ok"])     # a second confirmed image: the next pair is (slot 4, slot 0) on five slots
    elif kind == "abandon":
        update(*g(), "part", False, ["drop"])                # started over without cancel: its slots stay in progress until remediated
    elif kind == "cancel":
        update(*g(), "part", False, ["drop", "cancel"])
    elif kind == "reject":
        update(*g(), "all", True, ["bl", "markbl int", "bl", "markbl bad"])
    elif kind == "recover":
        update(*g(), "part", False, ["drop", "recover"])
    update(*g(), "all", True, ["bl", "markbl int"])                                    # the main update, copy marked done
    if rnd.random() < 0.5:
        update(*g(), "part", False, ["drop", "recover", "cancel"])                     # and a later one that is abandoned
    else:
        # ... or one whose image is corrupt, fully delivered, the session object lost before the final check
        update(*rnd.choice([x for x in geos if x[0] * x[1] >= 4]), "all", False, ["drop"], corrupt=True)
    s.meta = {"ups": ups}
    return s


def post_ops(base):
    ops = ["reboot", "recover", "bl", "validbl", "fb", "validfb", "hdrs"]
    mx = max(sz * n for _, sz, n, _ in base.meta["ups"])
    for i in range(base.ns):
        ops += ["valid %d" % i, "dump %d %x %d" % (i, session.DRO, mx)]
    # the final check of whatever session recovery returned (none: no-op), and the same inspection again
    ops += ["done", "bl", "validbl", "hdrs"]
    for i in range(base.ns):
        ops += ["valid %d" % i, "dump %d %x %d" % (i, session.DRO, mx)]
    _, sz, n, _ = base.meta["ups"][-1]
    ops += ["start %d %d" % (sz, n), "hdrs"]
    return ops


def torn_variants(rnd, op, quick):
    """torn outcomes for an interrupted program of `ln` bytes: none of it (plain crash), and (full bytes, keep mask) pairs"""
    kind, a, ln, data, z = op
    if kind != "W":
        return [None]
    out = [None]
    js = sorted(set([0, ln // 2, ln - 1])) if ln > 1 else [0]
    masks = [0xFF, 0x0F, 0xAA, 0x01, 0xFE, 0x00] if quick else list(range(0, 256, 5)) + [0xFF, 0xFE, 0x7F]
    for j in js:
        for keep in (rnd.sample(masks, 2) if quick else (masks if ln == 4 else rnd.sample(masks, 6))):
            out.append((j, keep))
    return out


def oracle(base, ref_info, s, out):
    msgs = []
    m = s.meta
    post = out[m["post_at"]:]
    names = m["post_names"]
    for (h, lg), nm in zip(post, names):
        if h == "panic":
            msgs.append("%s panics after a power loss at operation %d%s" % (nm, m["k"], " (torn %s)" % (m["torn"],) if m["torn"] else ""))
    cut = names.index("done")
    for lo, hi, when in ((0, cut, ""), (cut, len(names), " after the final check of the recovered session")):
        seg_post, seg_names = post[lo:hi], names[lo:hi]
        def tok(name):
            return seg_post[seg_names.index(name)][0]
        hd = tok("hdrs").split(",")
        for i, h in enumerate(hd):
            if h == "-" or len(h) != 56: continue
            b = bytes.fromhex(h)
            kind, seq, ext = int.from_bytes(b[0:4], "little"), int.from_bytes(b[4:8], "little"), int.from_bytes(b[16:20], "little")
            if kind == 0 and ext == 0x44444444:
                v = tok("valid %d" % i)
                if v != "ok":
                    msgs.append("slot %d reads as completed firmware%s but fails validation: %s (power loss at operation %d%s)" % (i, when, v, m["k"], ", torn %s" % (m["torn"],) if m["torn"] else ""))
                imgs = ref_info.get((i, seq))
                if imgs:
                    d = [t for t, nm in zip(seg_post, seg_names) if nm.startswith("dump %d " % i)][0][0]
                    if not any(bytes.fromhex(d)[:len(img)] == img for img in imgs):
                        msgs.append("slot %d reads as completed firmware%s (sequence number %d) but does not hold the image transmitted for it" % (i, when, seq))
        bl = tok("bl")
        if bl.startswith("inc") or bl.startswith("fail"):
            if tok("validbl") != "ok":
                msgs.append("bl_boot_status designates slot %s%s which fails validation: %s" % (bl, when, tok("validbl")))
    return msgs


def run(chk):
    chk.prove()
    rnd = random.Random(chk.seed)
    nbase, limit = (6, 70) if chk.quick() else (60, 400)
    bases = [build_base(rnd) for _ in range(nbase)] + [build_base(rnd, wrap=True) for _ in range(1 if chk.quick() else 8)]
    lines, impl, refouts = session.run(chk, bases, stream="session-torn-ref")
    cases = []
    for b, ro in zip(bases, refouts):
        if len(ro) != len(b.ops):
            continue
        # which (slot, sequence number) carries which image
        info = {}
        for st, sz, n, img in b.meta["ups"]:
            ws = [(a // b.slot, int.from_bytes(d, "little")) for k, a, ln, d, z in session.expand_log(ro[st][1], b.blk) if k == "W" and a % b.slot == 4]
            if ws:
                info.setdefault(ws[0], []).append(img)     # the reuse-last allocation can give the same (slot, number) to a later update
        b.meta["info"] = info
        counts = crash.op_counts(b, ro)
        idxs, total = crash.interesting_indices(b, ro, rnd, limit)
        if total not in idxs: idxs.append(total)          # always: power lost after the last operation of the history
        flat = [o for h, lg in ro for o in session.expand_log(lg, b.blk)]
        pops = post_ops(b)
        for k in idxs:
            variants = torn_variants(rnd, flat[k], chk.quick()) if k < len(flat) else [None]
            for tv in variants:
                s = session.Scn(b.ns, b.slot, b.blk)
                s.add("crash %d" % k if tv is None else "crash %d %d %02x" % (k, tv[0], tv[1]))
                for o in b.ops: s.add(o)
                s.meta = {"base": b, "k": k, "torn": tv, "post_at": len(s.ops), "post_names": pops}
                for o in pops: s.add(o)
                cases.append(s)
    clines, cimpl, couts = session.run(chk, cases, stream="session-torn")
    nt, dist = [], {"plain": 0, "torn": 0, "interrupted": {}}
    for s, l, raw, out in zip(cases, clines, cimpl, couts):
        if len(out) != len(s.ops):
            chk.failures.append(core.Failure("harness produced no / truncated result", "session", "matrix", l, raw, key="crash")); break
        dist["torn" if s.meta["torn"] else "plain"] += 1
        b = s.meta["base"]
        dead_at = next((i for i, (h, _) in enumerate(out) if h == "X"), None)
        if dead_at is not None:
            nm = s.ops[dead_at].split()[0]
            dist["interrupted"][nm] = dist["interrupted"].get(nm, 0) + 1
        for msg in oracle(b, b.meta["info"], s, out)[:1]:
            chk.failures.append(core.Failure(msg, "session", "matrix", l, raw[:2500], key="c04"))
        nt.append(l)
        if chk.too_many(): break
    # an update with more than 2048 fragments interrupted early (far more fragments missing than the pivot bitmap has bits); the
    # model needs far too long at this size: oracle only
    bigs = []
    for _ in range(1 if chk.quick() else 6):
        slot = session.DRO + 4096
        b = session.Scn(4, slot, 256)
        n = rnd.choice([2049, rnd.randint(2050, 4000)])
        img = ts004.make_image(rnd, n, 1)
        st = b.add("start 1 %d" % n)
        for i in range(1, rnd.randint(3, 40)):
            b.add(session.seg_op(img, n, 1, i, False))
        b.add("drop")
        b.meta = {"ups": [(st, 1, n, img)]}
        bigs.append(b)
    blines, bimpl, brefouts = session.run(chk, bigs, stream="session-torn-bigcount-ref", with_model=False)
    bcases = []
    for b, ro in zip(bigs, brefouts):
        if len(ro) != len(b.ops):
            continue
        b.meta["info"] = {}
        idxs, total = crash.interesting_indices(b, ro, rnd, 12 if chk.quick() else 40)
        if total not in idxs: idxs.append(total)
        pops = post_ops(b)
        for k in idxs:
            s = session.Scn(b.ns, b.slot, b.blk)
            s.add("crash %d" % k)
            for o in b.ops: s.add(o)
            s.meta = {"base": b, "k": k, "torn": None, "post_at": len(s.ops), "post_names": pops}
            for o in pops: s.add(o)
            bcases.append(s)
    bclines, bcimpl, bcouts = session.run(chk, bcases, stream="session-torn-bigcount", with_model=False)
    for s, l, raw, out in zip(bcases, bclines, bcimpl, bcouts):
        if len(out) != len(s.ops):
            chk.failures.append(core.Failure("harness produced no / truncated result", "session", "matrix", l[:3000], raw[-300:], key="crash")); break
        for msg in oracle(s.meta["base"], {}, s, out)[:1]:
            chk.failures.append(core.Failure("[%d fragments] %s" % (s.meta["base"].meta["ups"][0][2], msg), "session", "matrix", l[:3000], raw[:2500], key="c04"))
        nt.append(l[:300])
    dist["bigcount(oracle only)"] = len(bcases)
    chk.note_cases("session-torn", clines + [l[:300] for l in bclines], nt, sample_n=1, dist=dist)
    return chk.finish(level="proof",
        rule="session-torn: base histories (confirmed image; cancelled / rejected / recovered / abandoned-without-cancel update; a completed update with copy marked; an abandoned later update incl. recover and cancel, or a fully delivered update whose image is corrupt and whose session object is lost before the final check) with power lost at every modifying operation "
             "(start, each handle_segment, final mark, recovery remediation, cancel, status marks; inside erase runs the first / second / last block; sampled above %d per history) and, for programs, torn outcomes: nothing, byte prefixes, and a partially programmed byte with sampled keep-masks "
             "(thorough: dense masks for the 4-byte words); plus an update with 2049..4000 fragments interrupted after a few of them (oracle only); then reboot and try_recover, bl_boot_status, fallback_firmware, validation and dump of every slot, the final check of the recovered session followed by the same inspection, start_update; non-trivial = every case; distinct by case text" % limit,
        trusted=core.TRUSTED_COMMON + ["C04: torn-write device model of SimNor / Mgr.torn_prog: a prefix of the bytes fully programmed, one byte with any subset of its bits programmed, the rest untouched; erase atomic per block"])
