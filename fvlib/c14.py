"""C14 - firmware validation accepts exactly CRC-consistent completed firmware.
Proof: props/C14.v.  Correspondence: `session` stream (slots prepared with raw contents; is_valid_firmware of flash-algo-new,
check_crc_from_index of original-flash-algo, check_and_mark_done) against Mgr.v.
Oracle: independent bitwise CRC-32/CKSUM over the prepared data region; read-only on every validation."""
import random
from . import core, session, ts004

K_FW, K_PAR = 0, 1
EXT = {"ip": 0xFFFFFFFF, "ab": 0xAAAAAAAA, "co": 0x44444444}


def hdr(kind, seq, sz, n, ext, it=0xFFFFFFFF, bo=0xFFFFFFFF):
    return b"".join(x.to_bytes(4, "little") for x in [kind, seq, sz, n, ext, it, bo])


def expected(kind, ext, region, sz, n, parses=True):
    """-> (new crate result, deprecated crate CRC routine result)"""
    total = n * sz
    crc_ok = int.from_bytes(region[:4], "little") == ts004.crc32_cksum(region[68:total] if total > 68 else b"")
    o = "ok" if crc_ok else "err:Crc32Mismatch"
    if not parses:
        return "err:UnexpectedMissingHeader", "err:UnexpectedMissingHeader"
    if kind != K_FW:
        return "err:CheckFailNotFirmware", o
    if ext != EXT["co"]:
        return "err:CheckFailNotDone", o
    return o, o


def scenarios(rnd, quick):
    out = []
    slot0, blk, ns = 17408 + 2048, 256, 4
    def add(sz, n, mutate, kind=K_FW, ext=EXT["co"], tag="", slot=None, it=0xFFFFFFFF, bo=0xFFFFFFFF):
        slot = slot or slot0
        total = n * sz
        img = bytearray(ts004.make_image(rnd, n, sz))
        room = slot - session.DRO
        region = bytearray(img) + bytearray(b"\xff" * (min(max(68, total) + 8, room) - len(img)))      # what the flash holds beyond the image: erased
        if total < 4:
            region[:4] = ts004.crc32_cksum(b"").to_bytes(4, "little")                       # prefix bytes beyond a tiny image still hold the CRC word
        note = mutate(region, total) if mutate else ""
        s = session.Scn(ns, slot, blk)
        i = rnd.randrange(ns)
        s.add("raw %x %s" % (i * slot, hdr(kind, rnd.randrange(1000), sz, n, ext, it, bo).hex()))
        s.add("raw %x %s" % (i * slot + session.DRO, bytes(region).hex()))
        s.meta = {"i": i, "want": expected(kind, ext, bytes(region), sz, n), "sz": sz, "n": n, "tag": tag + note}
        s.meta["v"] = s.add("valid %d" % i); s.meta["ov"] = s.add("ovalid %d" % i)
        out.append(s)
    sizes = range(1, 257) if not quick else list(range(1, 80)) + [96, 100, 127, 128, 129, 136, 200, 255, 256]
    for sz in sizes:
        ns_ = sorted(set([1, max(1, 68 // sz - 1), max(1, 68 // sz), 68 // sz + 1, 68 // sz + 2, -(-68 // sz), min((2048) // sz, 300 // sz + 3)]))
        for n in ns_:
            if n * sz <= 2048 and n >= 1:
                add(sz, n, None, tag="plain")
    def flip_bit(region, total):
        lo, hi = (68, total) if total > 68 else (0, 4)
        pos = rnd.randrange(lo * 8, hi * 8) if rnd.random() < 0.75 or total <= 68 else rnd.randrange(0, 32)
        region[pos // 8] ^= 1 << (pos % 8)
        return " flip bit %d" % pos
    def flip_sig(region, total):
        pos = rnd.randrange(4 * 8, 68 * 8)          # the signature area is not covered by the CRC: must NOT matter
        region[pos // 8] ^= 1 << (pos % 8)
        return " flip signature bit %d" % pos
    def flip_beyond(region, total):
        if total >= 68 and total < len(region):
            region[total] ^= 0x10                    # first byte beyond count*size: must not matter
        return " flip beyond"
    for _ in range(300 if quick else 6000):
        sz = rnd.choice([1, 3, 8, 17, 34, 40, 67, 68, 69, 100, 136, 255, 256]); n = rnd.randint(1, max(1, min(2048 // sz, 40)))
        add(sz, n, rnd.choice([flip_bit, flip_bit, flip_bit, flip_sig, flip_beyond]), tag="corrupt")
    for sz, n in [(40, 4), (68, 2), (1, 100), (256, 3)]:
        # every single-bit position of a small image and of the stored CRC
        total = n * sz
        for pos in list(range(0, 32)) + list(range(68 * 8, total * 8, 1 if not quick else 7)):
            def one(region, total, pos=pos):
                region[pos // 8] ^= 1 << (pos % 8); return " flip bit %d" % pos
            add(sz, n, one, tag="sweep")
    # the largest fragment counts a header can announce (16384 = MAX_SEGMENTS is legal)
    big = 17408 + 16384 + 256
    for sz, n in [(1, 16384), (1, 16383), (2, 8192)]:
        add(sz, n, None, tag="max-count", slot=big)
    add(1, 16384, flip_bit, tag="max-count", slot=big)
    for kind in (K_FW, K_PAR):
        for e in EXT.values():
            add(40, 5, None, kind=kind, ext=e, tag="gate")
            add(40, 5, flip_bit, kind=kind, ext=e, tag="gate")
            # every combination of the other two status words (each legal on its own, so the header parses): only the kind and the
            # external write status gate the validation - e.g. a boot outcome marked before the copy mark
            for it in (0xFFFFFFFF, 0x11111111):
                for bo in (0xFFFFFFFF, 0xABCD1234, 0xCDEF7890):
                    if (it, bo) != (0xFFFFFFFF, 0xFFFFFFFF):
                        add(40, 5, None, kind=kind, ext=e, tag="gate-status", it=it, bo=bo)
                        add(17, 9, flip_bit, kind=kind, ext=e, tag="gate-status", it=it, bo=bo)
    return out


def run(chk):
    chk.prove()
    rnd = random.Random(chk.seed)
    scns = scenarios(rnd, chk.quick())
    lines, impl, outs = session.run(chk, scns, stream="session-crc")
    nt, dist = [], {"valid": 0, "crc_mismatch": 0, "gate": 0, "sizes_covered": len(set(s.meta["sz"] for s in scns))}
    for s, l, raw, out in zip(scns, lines, impl, outs):
        if len(out) != len(s.ops):
            chk.failures.append(core.Failure("harness produced no / truncated result", "session", "matrix", l, raw, key="crash")); break
        wn, wo = s.meta["want"]
        gn, go = out[s.meta["v"]], out[s.meta["ov"]]
        dist["valid" if wn == "ok" else ("crc_mismatch" if "Crc" in wn else "gate")] += 1
        if gn[0] != wn:
            chk.failures.append(core.Failure("is_valid_firmware = %s, expected %s (size %d, count %d,%s)" % (gn[0], wn, s.meta["sz"], s.meta["n"], s.meta["tag"]), "session", "matrix", l, raw[:500], wn, key="c14"))
        if go[0] != wo:
            chk.failures.append(core.Failure("original-flash-algo check_crc_from_index = %s, expected %s (size %d, count %d,%s)" % (go[0], wo, s.meta["sz"], s.meta["n"], s.meta["tag"]), "session", "matrix", l, raw[:500], wo, key="c14"))
        if gn[1] or go[1]:
            chk.failures.append(core.Failure("validation modifies the flash: %s" % (gn[1] or go[1])[:2], "session", "matrix", l, raw[:500], key="c14"))
        nt.append(l)
        if chk.too_many(): break
    chk.note_cases("session-crc", lines, nt, sample_n=2, dist=dist)
    # the final check-and-mark applies the same test before marking anything: sessions whose image carries a wrong CRC
    bad = []
    for _ in range(40 if chk.quick() else 1000):
        s = session.build_delivery(rnd, small=True, with_history=False)
        me = s.meta
        if me["n"] * me["sz"] <= 72 or me["lost"]:
            continue
        img = bytearray(me["img"]); pos = rnd.randrange(68 * 8, len(img) * 8); img[pos // 8] ^= 1 << (pos % 8)
        t = session.Scn(s.ns, s.slot, s.blk)
        t.add("start %d %d" % (me["sz"], me["n"]))
        for i in range(1, me["n"] + 1):
            t.add(session.seg_op(bytes(img), me["n"], me["sz"], i, False))
        t.meta = {"done": t.add("done")}; t.add("hdrs")
        bad.append(t)
    lines, impl, outs = session.run(chk, bad, stream="session-crc-done")
    for s, l, raw, out in zip(bad, lines, impl, outs):
        d = out[s.meta["done"]]
        if d[0] != "err:Crc32Mismatch" or d[1]:
            chk.failures.append(core.Failure("check_and_mark_done on an image with one corrupted bit: %s, flash operations %s" % (d[0], d[1][:2]), "session", "matrix", l, raw[-400:], key="c14"))
    chk.note_cases("session-crc-done", lines, lines, sample_n=1)
    return chk.finish(level="proof",
        rule="session-crc: slots prepared with a header and a data region: every fragment size (quick: 1..79 and boundary sizes; thorough: 1..256) x counts placing count*size below / at / just above the 68-byte prefix and a few hundred bytes; "
             "single-bit corruption of covered bytes and of the stored CRC (random positions; every position for four small images), bits outside the covered range (signature area, beyond count*size) that must NOT matter; kind / status gate (both kinds x the three external write codes x every combination of the internal-write and boot-outcome words); "
             "session-crc-done: complete deliveries of an image with one corrupted bit; non-trivial = every case; distinct by case text",
        trusted=core.TRUSTED_COMMON + ["C14: the `crc` crate is replaced by a bitwise model (Crc.v) and compared through is_valid_firmware; the oracle CRC in fvlib/ts004.py is written from the catalogue parameters"])
