"""Power-loss enumeration shared by C04 and C06: reference runs give the number of modifying flash operations of every
script operation; crash cases re-run the script with `crash k [torn]` armed at the beginning."""
from . import core, session


def op_counts(s, out):
    """modifying flash operations issued by each script op of a reference (crash-free) run"""
    return [len(session.expand_log(lg, s.blk)) for head, lg in out]


def locate(counts, k):
    """-> (op index, position inside that op) of the modifying operation number k (0-based), or None"""
    acc = 0
    for i, c in enumerate(counts):
        if k < acc + c:
            return i, k - acc
        acc += c
    return None


def interesting_indices(s, out, rnd, limit):
    """all crash points for short scripts; otherwise every program plus the first / second / last erase of each erase run, capped by sampling"""
    idx, k = [], 0
    for head, lg in out:
        ops = session.expand_log(lg, s.blk)
        run = 0
        for j, o in enumerate(ops):
            if o[0] == "E":
                nxt_is_e = j + 1 < len(ops) and ops[j + 1][0] == "E"
                if run < 2 or not nxt_is_e:
                    idx.append(k)
                run += 1
            else:
                run = 0
                idx.append(k)
            k += 1
    idx.append(k)        # power loss after the last operation (nothing interrupted)
    if len(idx) > limit:
        keep = set(rnd.sample(idx, limit))
        idx = [i for i in idx if i in keep]
    return idx, k


def classify_ops(s, ops, pair, cap, sz):
    """type of each modifying op of a handle_segment call: D data, S status byte, B parity block, R matrix row, H header, E erase"""
    fw, par = pair
    out = []
    for k, a, ln, d, z in ops:
        slot, off = a // s.slot, a % s.slot
        if k == "E": out.append("E")
        elif off < session.HDR: out.append("H")
        elif slot == fw and off >= session.DRO: out.append("D")
        elif slot == fw: out.append("S")
        elif slot == par and off < session.HDR + cap * sz: out.append("B")
        elif slot == par: out.append("R")
        else: out.append("?")
    return out
