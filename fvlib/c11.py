"""C11 - header codec canonical; status codes one-way and tear-safe.
Proof: coq/props/C11.v over gen/Consts.v.  Correspondence: `layout` stream (both crates' codecs, status marks
on un-erased flash) against the extracted Layout model.  Oracle: reference codec written from the property text."""
import random, itertools
from . import core

# values fixed by the property text (what deployed bootloaders read)
KIND = {0: "fw", 1: "par"}
EXT = [0xFFFFFFFF, 0xAAAAAAAA, 0x44444444]
INT = [0xFFFFFFFF, 0x11111111]
BOOT = [0xFFFFFFFF, 0xABCD1234, 0xCDEF7890]
OFF = {"kind": 0, "seq": 4, "size": 8, "count": 12, "ext": 16, "int": 20, "boot": 24}
MARKS = {"abort": (16, 0xAAAAAAAA), "complete": (16, 0x44444444), "int": (20, 0x11111111), "ok": (24, 0xABCD1234), "bad": (24, 0xCDEF7890)}
SLOT = 17664


def le(w):
    return w.to_bytes(4, "little")


def enc(words):
    return b"".join(le(w) for w in words)


def ref_legal(w):
    k, s, z, c, e, i, b = w
    return k in KIND and s != 0xFFFFFFFF and 1 <= z <= 256 and 1 <= c <= 16384 and e in EXT and i in INT and b in BOOT


def ref_total(w):
    k, s, z, c, e, i, b = w
    v = s != 0xFFFFFFFF
    t = (e, i, b)
    if t == (EXT[0], INT[0], BOOT[0]):
        return "AppWriteInProgress" if v else "Blank"
    if not v:
        return "InvalidNeedsErase"
    return {(EXT[1], INT[0], BOOT[0]): "AppWriteAborted", (EXT[2], INT[0], BOOT[0]): "BootloadWriteInProgress",
            (EXT[2], INT[1], BOOT[0]): "FirstBootPendingAck", (EXT[2], INT[1], BOOT[1]): "ConfirmedImage",
            (EXT[2], INT[1], BOOT[2]): "RejectedImage"}.get(t, "InvalidNeedsErase")


def ref_parse_line(bs):
    if len(bs) < 28:
        return "new:none orig:none"
    w = [int.from_bytes(bs[4 * i:4 * i + 4], "little") for i in range(7)]
    if not ref_legal(w):
        return "new:none orig:none"
    f = ".".join("%x" % x for x in w)
    re_ = enc(w).hex()
    rest = len(bs) - 28
    return "new:%s/rest=%d/re=%s+0 orig:%s/rest=%d/re=%s+0/%s" % (f, rest, re_, f, rest, re_, ref_total(w))


def ref_encode_line(w):
    k, s, z, c, e, i, b = w
    if not (k in KIND and e in EXT and i in INT and b in BOOT):
        return "new:illegal-code orig:illegal-code"
    by = enc(w).hex()
    back = "same" if ref_legal(w) else "none"
    return "new:%s+0/short-refused/%s orig:%s+0/%s/%s" % (by, back, by, back, ref_total(w))


def ref_mark_line(m, hdr):
    off, code = MARKS[m]
    old = hdr[off:off + 4]
    new = bytes(a & b for a, b in zip(old, le(code)))
    after = hdr[:off] + new + hdr[off + 4:]
    z2o = any((~a) & b & 0xFF for a, b in zip(old, le(code)))
    one = "ok/%s/W@%x:%s%s" % (after.hex(), SLOT + off, le(code).hex(), "!" if z2o else "")
    return "new:%s orig:%s" % (one, "na" if m == "complete" else one)


def submasks(bits, rnd, cap):
    """all (or a sample of) subsets of the bit positions in `bits`"""
    pos = [p for p in range(32) if bits >> p & 1]
    if len(pos) <= 10:
        for r in range(1 << len(pos)):
            yield sum(1 << pos[j] for j in range(len(pos)) if r >> j & 1)
    else:
        yield 0; yield bits
        for p in pos:
            yield 1 << p; yield bits & ~(1 << p)
        for _ in range(cap):
            yield sum(1 << p for p in pos if rnd.random() < 0.5)


def gen_cases(rnd, quick):
    cases = []
    kinds = [0, 1, 2, 0xFFFFFFFF]
    seqs = [0, 1, 0x7FFFFFFF, 0xFFFFFFFD, 0xFFFFFFFE, 0xFFFFFFFF]
    kinds += [0x100, 0x10000, 0x10001, 0x01000000, 0x80000001]        # low byte / half legal, high bits set
    # incl. words whose low byte / low half alone would be legal (a check on a truncated value must not pass)
    sizes = [0, 1, 2, 255, 256, 257, 0x100, 0x10000, 0xFFFFFFFF, 0x101, 0x10001, 0x1000040, 0xFFFFFF01, 0x80000100]
    counts = [0, 1, 2, 16383, 16384, 16385, 0x10000, 0xFFFFFFFF, 0x10001, 0x14000, 0x10040, 0xFFFF0001, 0x80000001, 0x4001]
    exts = EXT + [0, 0x44444445, 0xAAAAAAAB, 0x00000000, 0x44444440, 0xEEEEEEEE]
    ints = INT + [0, 0x11111110, 0x11111113, 0x33333333]
    boots = BOOT + [0, 0xABCD1235, 0x89CD1010, 0xEFEF7AB4]
    doms = [kinds, seqs, sizes, counts, exts, ints, boots]
    base = [0, 5, 40, 16, EXT[0], INT[0], BOOT[0]]
    seen = set()
    def addP(w, extra=b""):
        h = (enc(w) + extra).hex()
        if h not in seen:
            seen.add(h); cases.append("P " + h)
    # all pairs of fields over their full domains, the others at a legal default
    for a, b in itertools.combinations(range(7), 2):
        for va in doms[a]:
            for vb in doms[b]:
                w = list(base); w[a] = va; w[b] = vb; addP(w)
    # all legal status triples x kinds x seq classes (the classification table)
    for k in (0, 1):
        for s in seqs:
            for e in EXT:
                for i in INT:
                    for b in BOOT:
                        addP([k, s, 7, 9, e, i, b])
    # random products of the domains, random bytes, wrong lengths
    nrand = 3000 if quick else 60000
    for _ in range(nrand):
        addP([rnd.choice(d) for d in doms])
    for _ in range(nrand):
        cases.append("P " + bytes(rnd.getrandbits(8) for _ in range(28)).hex())
    for _ in range(nrand // 3):
        w = [rnd.choice([0, 1]), rnd.getrandbits(32), rnd.randint(1, 256), rnd.randint(1, 16384), rnd.choice(EXT), rnd.choice(INT), rnd.choice(BOOT)]
        addP(w, bytes(rnd.getrandbits(8) for _ in range(rnd.choice([0, 0, 1, 4, 28]))))
    # a legal header with high bits added to one numeric field (a range check on a truncated value would accept it)
    for _ in range(nrand // 4):
        w = [rnd.choice([0, 1]), rnd.getrandbits(32), rnd.randint(1, 256), rnd.randint(1, 16384), rnd.choice(EXT), rnd.choice(INT), rnd.choice(BOOT)]
        f = rnd.choice([0, 2, 3])
        w[f] |= rnd.randint(1, 0xFFFF) << rnd.choice([8, 16, 16, 24]) if f != 3 else rnd.randint(1, 0xFFFF) << 16
        w[f] &= 0xFFFFFFFF
        addP(w)
    for ln in (0, 1, 4, 27):
        cases.append("P " + (bytes(rnd.getrandbits(8) for _ in range(ln)).hex() or "-"))
    # torn status words: every pattern between old and old&new for every ordered pair of codes of each field
    for fi, codes in ((4, EXT), (5, INT), (6, BOOT)):
        for old in codes:
            for new in codes:
                if old == new:
                    continue
                target = old & new
                toclear = old & ~target
                for sm in submasks(toclear, rnd, 300 if quick else 20000):
                    w = list(base); w[fi] = target | sm; addP(w)
    # encode: legal codes, free numeric fields
    for k in (0, 1):
        for s in seqs:
            for z in sizes:
                for c in counts:
                    cases.append("E %x %x %x %x %x %x %x" % (k, s, z, c, rnd.choice(EXT), rnd.choice(INT), rnd.choice(BOOT)))
    for e in EXT:
        for i in INT:
            for b in BOOT:
                cases.append("E 0 5 28 10 %x %x %x" % (e, i, b))
    cases.append("E 2 5 28 10 ffffffff ffffffff ffffffff")
    # marks over every legal status triple (marks do not check the prior contents) and over erased / random headers
    for m in MARKS:
        for e in EXT:
            for i in INT:
                for b in BOOT:
                    cases.append("M %s %s" % (m, enc([0, 5, 40, 16, e, i, b]).hex()))
        cases.append("M %s %s" % (m, "ff" * 28))
        for _ in range(20 if quick else 500):
            cases.append("M %s %s" % (m, bytes(rnd.getrandbits(8) for _ in range(28)).hex()))
    return cases


def ref_line(c):
    t = c.split()
    if t[0] == "P":
        return ref_parse_line(bytes.fromhex(t[1]) if t[1] != "-" else b"")
    if t[0] == "E":
        return ref_encode_line([int(x, 16) for x in t[1:8]])
    return ref_mark_line(t[1], bytes.fromhex(t[2]))


def consts_oracle(consts, variant):
    """constants as compiled vs the values the property text fixes"""
    want = {"KIND_FIRMWARE": 0, "KIND_PARITY": 1, "EXT_IN_PROGRESS": EXT[0], "EXT_ABORTED": EXT[1], "EXT_COMPLETE": EXT[2],
            "INT_IN_PROGRESS": INT[0], "INT_COMPLETE": INT[1], "BOOT_UNTESTED": BOOT[0], "BOOT_SUCCESSFUL": BOOT[1], "BOOT_UNSUCCESSFUL": BOOT[2],
            "DATA_WRITTEN": 0x33, "DATA_NOT_WRITTEN": 0xFF, "WRITTEN_OFFSET": 0x400, "DATA_REGION_OFFSET": 0x4400, "DATA_PAYLOAD_OFFSET": 0x4444,
            "KIND_OFFSET": 0, "SEQUENCE_NUMBER_OFFSET": 4, "SEGMENT_SIZE_OFFSET": 8, "NUMBER_OF_SEGMENTS_OFFSET": 12,
            "WRITE_EXT_STATUS_OFFSET": 16, "WRITE_INT_STATUS_OFFSET": 20, "BOOT_OUTCOME_OFFSET": 24, "SLOT_HEADER_SIZE": 28,
            "MAX_SEGMENT_SIZE": 256, "MAX_SEGMENTS": 16384}
    out = []
    for k, v in want.items():
        for name in (k, "O_" + k):
            if name in consts and consts[name] != v:
                out.append(core.Failure("constant %s = %#x, deployed bootloaders read %#x" % (name, consts[name], v), "consts", variant,
                                        "fvh consts", "%s=%d" % (name, consts[name]), "%s=%d" % (name, v), key="const:" + name))
    return out


def classification_probe(chk):
    """flash-algo-new keeps total_status private: its classification of every legal (kind, external, internal, boot) header is
       observed through the API on a device that also holds a resumable update (so try_recover performs its remediation):
       bl_boot_status, fallback_firmware and what recovery does to the probed slot - compared with the model and with the
       behaviour the documented lifecycle table prescribes for the class"""
    from . import session, ring
    g = ring.Geo(4)
    cases, meta = [], []
    def pair_at(sq):
        return ["raw %x %s" % (2 * g.slot, ring.hdr_bytes(("F", sq, "IP", "IP", "UN"), g.cap).hex()),
                "raw %x %s" % (3 * g.slot, ring.hdr_bytes(("P", sq + 1, "IP", "IP", "UN"), g.cap).hex())]
    # the resumable pair carries the newest numbers: 200 / 201, and the last two legal ones before the wrap
    for pair, seqs in ((pair_at(200), (0, 7, 199)), (pair_at(0xFFFFFFFD), (7,))):
      for kind in (0, 1):
        for seq in seqs:
            for e in EXT:
                for i in INT:
                    for b in BOOT:
                        for pslot in (0, 1):
                            w = [kind, seq, ring.SZ, ring.CNT if kind == 0 else g.cap, e, i, b]
                            ops = ["raw %x %s" % (pslot * g.slot, enc(w).hex())] + pair + ["bl", "fb", "recover", "drop", "hdrs"]
                            cases.append("4 %d %d|%s" % (g.slot, g.blk, ";".join(ops)))
                            meta.append((w, pslot))
    fvh = core.build_harness("matrix")
    impl = core.run_stream(fvh, "session", cases)
    for c, raw, (w, pslot) in zip(cases, impl, meta):
        out = session.parse_out(raw)
        if len(out) != 8:
            chk.failures.append(core.Failure("harness produced no / truncated result", "session", "matrix", c, raw, key="crash")); break
        cls = ref_total(w)
        bl, fb, rec = out[3][0], out[4][0], out[5]
        ops = [(k, a // g.slot) for k, a, ln, d, z in session.expand_log(rec[1], g.blk) if a // g.slot == pslot]
        want_bl = {"BootloadWriteInProgress": "inc:%d" % pslot, "FirstBootPendingAck": "fail:%d" % pslot}.get(cls, "idle") if w[0] == 0 else "idle"
        want_fb = "some:%d" % pslot if cls == "ConfirmedImage" else "none"
        want_rec = "abort" if cls == "AppWriteInProgress" else "erase" if cls in ("BootloadWriteInProgress", "InvalidNeedsErase") else "nothing"
        got_rec = "nothing" if not ops else "erase" if all(k == "E" for k, _ in ops) else "abort" if [k for k, _ in ops] == ["W"] else "other"
        msgs = []
        if bl != want_bl: msgs.append("bl_boot_status = %s, a %s header (kind %d) in slot %d must give %s" % (bl, cls, w[0], pslot, want_bl))
        if fb != want_fb: msgs.append("fallback_firmware = %s, a %s header in slot %d must give %s" % (fb, cls, pslot, want_fb))
        if not rec[0].startswith("some"): msgs.append("try_recover = %s although a resumable pair is present" % rec[0])
        elif got_rec != want_rec: msgs.append("recovery remediation of a %s header (ext %#x int %#x boot %#x): %s, the lifecycle table prescribes %s" % (cls, w[4], w[5], w[6], got_rec, want_rec))
        for m in msgs[:1]:
            chk.failures.append(core.Failure(m, "session", "matrix", c, raw[:1500], key="c11-class"))
    # a single populated slot: the answers and the remediation depend on the status triple alone, not on the sequence number
    solo, smeta = [], []
    for kind in (0, 1):
        for e in EXT:
            for i in INT:
                for b in BOOT:
                    for seq in (7, 0, 255, 0xFFFF, 0x00FFFFFF, 0xFF0000FF, 0x7FFFFFFF, 0xFFFFFFFD, 0xFFFFFFFE):
                        w = [kind, seq, ring.SZ, ring.CNT if kind == 0 else g.cap, e, i, b]
                        solo.append("4 %d %d|%s" % (g.slot, g.blk, ";".join(["raw %x %s" % (g.slot, enc(w).hex()), "bl", "fb", "recover", "drop", "hdrs"])))
                        smeta.append(w)
    simpl = core.run_stream(fvh, "session", solo)
    ref = {}
    for c, raw, w in zip(solo, simpl, smeta):
        out = session.parse_out(raw)
        if len(out) != 6:
            chk.failures.append(core.Failure("harness produced no / truncated result", "session", "matrix", c, raw, key="crash")); break
        cls = ref_total(w)
        obs = (out[1][0], out[2][0], out[3][0].split(":")[0], tuple(k for k, a, ln, d, z in session.expand_log(out[3][1], g.blk)))
        want_bl = {"BootloadWriteInProgress": "inc:1", "FirstBootPendingAck": "fail:1"}.get(cls, "idle") if w[0] == 0 else "idle"
        want_fb = "some:1" if cls == "ConfirmedImage" else "none"
        if obs[0] != want_bl or obs[1] != want_fb:
            chk.failures.append(core.Failure("a lone %s header (kind %d, sequence number %#x): bl_boot_status = %s, fallback_firmware = %s; the class prescribes %s / %s" % (cls, w[0], w[1], obs[0], obs[1], want_bl, want_fb), "session", "matrix", c, raw[:1500], key="c11-class"))
        elif w[1] == 7:
            ref[tuple(w[:1] + w[4:])] = obs
        elif obs != ref[tuple(w[:1] + w[4:])]:
            chk.failures.append(core.Failure("a lone %s header (kind %d): with sequence number %#x the answers / remediation are %s, with sequence number 7 they are %s - the class depends on the status triple alone" % (cls, w[0], w[1], obs, ref[tuple(w[:1] + w[4:])]), "session", "matrix", c, raw[:1500], key="c11-class"))
    cases = cases + solo; impl = impl + simpl
    chk.note_cases("classification-probe", cases, cases, sample_n=1, dist={"triples": 18, "kinds": 2, "sequence_numbers": "0, 7, 199 beside a pair numbered 200/201; 7 beside a pair numbered 2^32-3 / 2^32-2; 0, 7, 255, 2^16-1, 2^24-1, 0xFF0000FF, 2^31-1, 2^32-3, 2^32-2 alone", "probe_slots": 2})
    try:
        fvm = core.build_fvm()
        model = core.run_stream(fvm, "session", cases)
        chk.correspond("classification-probe", "matrix", cases, impl, model)
    except core.BuildError as e:
        chk.broken.append(("correspondence", "classification-probe[model build]", {"detail": str(e)[-1500:]}))


def run(chk):
    rnd = random.Random(chk.seed)
    variant = "matrix"
    fvh = core.build_harness(variant)
    consts = core.gen_consts(fvh)
    chk.prove()
    chk.failures += consts_oracle(consts, variant)
    cases = gen_cases(rnd, chk.quick())
    impl = core.run_stream(fvh, "layout", cases)
    # implementation-side oracle, independent of the Coq model
    nontriv = []
    for c, got in zip(cases, impl):
        want = ref_line(c)
        if got != want:
            chk.failures.append(core.Failure("header codec / status mark deviates from the documented format", "layout", variant, c, got, want, key="layout"))
            if len(chk.failures) > 20:
                break
        if "none" not in got.split()[0] or c[0] != "P":
            nontriv.append(c)
    dist = {"P": sum(c[0] == "P" for c in cases), "E": sum(c[0] == "E" for c in cases), "M": sum(c[0] == "M" for c in cases),
            "P_parsed": sum(c[0] == "P" and not g.startswith("new:none") for c, g in zip(cases, impl))}
    chk.note_cases("layout", cases, nontriv, dist=dist)
    try:
        fvm = core.build_fvm()
        model = core.run_stream(fvm, "layout", cases)
        chk.correspond("layout", variant, cases, impl, model)
    except core.BuildError as e:
        chk.broken.append(("correspondence", "layout[model build]", {"detail": str(e)[-1500:]}))
    classification_probe(chk)
    return chk.finish(
        level="proof",
        rule="classification-probe: every legal (kind, ext, int, boot) header x 3 sequence numbers x 2 slots beside a resumable pair (numbered 200 / 201, and 2^32-3 / 2^32-2), and alone with sequence numbers up to 2^32-2 (answers and remediation independent of the number): bl / fallback / recovery remediation vs the lifecycle table and the model; layout stream: P = byte strings (all field-domain pairs, classification table, random, torn status words between every ordered code pair), "
             "E = typed headers encoded then re-parsed, M = status marks on programmed headers; a case is non-trivial when it parses / encodes / marks (not a plain reject); distinct by case text",
        trusted=core.TRUSTED_COMMON + ["C11: the reference codec in fvlib/c11.py (oracle) is written from the property text"],
    )
