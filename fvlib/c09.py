"""C09 - the reconstructor honours the write-once storage contracts.
Proof: props/C09.v (trace_wf over Recon.v).  Correspondence: `recon` stream (full storage-call log).
Oracle: contract monitor over the implementation's call log incl. buffer lengths."""
from . import core, recon

def run(chk):
    chk.prove()
    count, nmax = (3000, 40) if chk.quick() else (40000, 120)
    cases, lines, impl, parsed, fvh, fvm = recon.run_stream(chk, count, nmax, gets_matter=False)
    calls = 0
    for c, l, raw, r in zip(cases, lines, impl, parsed):
        if r is None:
            chk.failures.append(core.Failure("harness produced no result (crash)", "recon", "matrix", l, raw, key="crash")); break
        calls += sum(len(x) for x in r["calls"])
        for msg in recon.oracle_c09(c, r):
            chk.failures.append(core.Failure(msg, "recon", "matrix", l, raw, key="c09"))
        if chk.too_many(): break
    return chk.finish(level="proof", extra={"storage_calls_monitored": calls},
        rule="recon stream (same space as C02/C03); the monitor runs over every storage call of every case; non-trivial = reaches Done, contains a refusal, stores a pivot or eliminates; distinct by case text",
        trusted=core.TRUSTED_COMMON + ["C09: buffer lengths are by construction in the model (blocks are numbers); on the implementation they are recorded by the instrumented storages (BADLEN flag)"])
