"""C17 - malformed fragments and corrupt flash contents are handled without panic.
Proof: props/C17.v (index 0 rejected before any effect; allocation total on any ring; confinement of storage writes).
Correspondence: `session` stream, index stream (debug + release builds) and corrupt-flash stream.
Oracle: no panic, no flash operation / counter change on the illegal index, session still completes; on arbitrary flash
every call returns and every erase / program lies inside one slot."""
import random
from . import core, session, ts004, c08

SEED_OVF = 1240005543          # 1 + 1001*N overflows u32 exactly for this coded-fragment number


def index_scenarios(rnd, quick, ffr, release):
    scns = []
    for _ in range(14 if quick else 400):
        base = session.build_delivery(rnd, ffr=ffr, small=True, with_history=False)
        me = base.meta
        n, sz, img, seq = me["n"], me["sz"], me["img"], me["seq"]
        if me["cap"] < 1:
            continue
        specials = [0, 0, 1, n, n + 1, 1 << 14, 1 << 16, 0xFFFFFFFF, n + SEED_OVF, rnd.randint(n + 1, 0xFFFFFFFF), rnd.randint(1, n)]
        if ffr and release:
            specials = [x for x in specials if x != n + SEED_OVF]        # degenerate all-zero PRBS stream never fills a full-r row (release build spins)
        positions = list(range(len(seq) + 1))
        for p in (positions if len(positions) <= 6 else rnd.sample(positions, 6)):
            idx = rnd.choice(specials)
            s = session.Scn(base.ns, base.slot, base.blk)
            m = dict(me); m["bad_idx"] = idx; m["pos"] = p
            m["fb_before"] = s.add("fb"); m["fbvalid_before"] = s.add("validfb")
            m["start_op"] = s.add(base.ops[me["start_op"]])
            m["seg_ops"] = []
            for k, i in enumerate(seq):
                if k == p:
                    m["bad_op"] = s.add(special_seg(img, n, sz, idx, ffr))
                m["seg_ops"].append(s.add(session.seg_op(img, n, sz, i, ffr)))
            if p == len(seq):
                m["bad_op"] = s.add(special_seg(img, n, sz, idx, ffr))
            m["done_op"] = s.add("done"); m["bl_op"] = s.add("bl"); m["valid_op"] = s.add("validbl")
            m["dump_op"] = s.add("dumpbl %x %d" % (session.DRO, n * sz)); m["fb_op"] = s.add("fb"); m["fbvalid_after"] = s.add("validfb"); m["hdrs_op"] = s.add("hdrs")
            # the reference sequence including the extra (legal) fragment, for the delivery oracle
            m["full_seq"] = seq[:p] + ([idx] if idx != 0 else []) + seq[p:]
            s.meta = m
            scns.append(s)
    return scns


def special_seg(img, n, sz, idx, ffr):
    if idx == 0:
        return "seg 0 " + bytes(sz).hex()
    if ffr and idx == n + SEED_OVF:
        return "seg %d %s" % (idx, bytes(sz).hex())          # the all-zero PRBS stream never fills a full-r row: no reference payload exists
    return session.seg_op(img, n, sz, idx, ffr)


def oracle_index(s, out, checked):
    me = s.meta
    msgs = []
    idx = me["bad_idx"]
    head, lg = out[me["bad_op"]]
    if head == "panic":
        key = "c17-seed-overflow" if idx == me["n"] + SEED_OVF else "c17"
        return [("handle_segment panics on fragment index %d (n = %d)" % (idx, me["n"]), key)]
    if idx == 0:
        if not head.startswith("err"):
            msgs.append(("fragment index 0 is answered %s instead of an error" % head, "c17"))
        if lg:
            msgs.append(("fragment index 0 programs the flash: %s" % lg[:2], "c17"))
        prev_i = me["bad_op"] - 1
        c0 = session.counters_of(out[prev_i][0]); c1 = session.counters_of(head)
        if c0 and c1 and c0 != c1:
            msgs.append(("fragment index 0 changes the progress counters from %s to %s" % (c0, c1), "c17"))
    # the session still completes correctly: same oracle as C01 over the sequence with the extra fragment spliced in
    m2 = dict(me)
    ops = []
    for k, i in enumerate(me["seg_ops"]):
        if k == me["pos"] and idx != 0: ops.append(me["bad_op"])
        ops.append(i)
    if me["pos"] == len(me["seg_ops"]) and idx != 0: ops.append(me["bad_op"])
    m2["seg_ops"] = ops; m2["seq"] = me["full_seq"]
    t = session.Scn(s.ns, s.slot, s.blk); t.meta = m2
    msgs += [(x, "c17") for x in session.oracle_delivery(t, out)]
    return msgs


def rand_header(rnd, slot, legal_bias=0.7):
    K = [0, 1]; E = [0xFFFFFFFF, 0xAAAAAAAA, 0x44444444]; I = [0xFFFFFFFF, 0x11111111]; B = [0xFFFFFFFF, 0xABCD1234, 0xCDEF7890]
    def pick(legal, junk):
        return rnd.choice(legal) if rnd.random() < legal_bias else rnd.choice(junk)
    w = [pick(K, [2, 0xFFFFFFFF, 0x10000]),
         rnd.choice([0, 1, 2, 3, 5, 100, 0x7FFFFFFF, 0xFFFFFFFD, 0xFFFFFFFE, 0xFFFFFFFF, rnd.getrandbits(32)]),
         pick([1, 4, 8, 40, 68, 255, 256], [0, 257, 0xFFFFFFFF]),
         pick([1, 2, 3, 10, 100, 2047, 2048, 2049, 3000, 16384], [0, 16385, 0xFFFFFFFF]),
         pick(E, [0, 0x44444445, rnd.getrandbits(32)]), pick(I, [0, 0x11111110]), pick(B, [0, 0xABCD1235])]
    return b"".join(x.to_bytes(4, "little") for x in w)


def corrupt_scenarios(rnd, quick):
    scns = []
    geos = [(4, 17664, 256), (4, 19712, 256), (5, 21504, 512), (6, 17920, 256), (4, 65536, 4096), (4, 1048576, 65536)]
    for _ in range(260 if quick else 8000):
        ns, slot, blk = rnd.choice(geos)
        s = session.Scn(ns, slot, blk)
        style = rnd.choice(["headers", "headers", "pair", "pair+table", "random", "pair-oversize", "pair-junk-stride"])
        for i in range(ns):
            if style == "random":
                s.add("raw %x %s" % (i * slot, bytes(rnd.getrandbits(8) for _ in range(28)).hex()))
            elif rnd.random() < 0.8:
                s.add("raw %x %s" % (i * slot, rand_header(rnd, slot).hex()))
        if style == "pair-junk-stride":
            # a well-formed pair with more fragments than one stride of the status-table scan (256 / 128 entries) and one byte that is
            # neither erased nor the mark, in any stride
            ns, slot, blk = rnd.choice([(4, 65536, 4096), (4, 1048576, 65536), (5, 21504, 512)])
            s = session.Scn(ns, slot, blk)
            f, p = rnd.sample(range(ns), 2)
            n = rnd.choice([129, 257, 300, 513, 700, 1000, 2048]); n = min(n, slot - session.DRO)
            hi = 0xFFFFFF00
            for sl, w in ((f, [0, hi, 1, n]), (p, [1, hi + 1, 1, min(2047, session.max_l(slot, 1))])):
                s.add("raw %x %s" % (sl * slot, b"".join(x.to_bytes(4, "little") for x in w + [0xFFFFFFFF] * 3).hex()))
            tb = bytearray(rnd.choice([0xFF, 0x33]) for _ in range(n))
            tb[rnd.randrange(n)] = rnd.choice([0x00, 0x7B, 0x32, 0xFE])
            s.add("raw %x %s" % (f * slot + 0x400, bytes(tb).hex()))
        elif style == "pair-oversize":
            # a well-formed in-progress pair whose parity header announces more fragments than the slot has room for (single-erasure
            # layout: (slot - data offset) / size), and a parity status table with as many / more marks than that
            f, p = rnd.sample(range(ns), 2)
            sz = rnd.choice([1, 8, 40, 64, 256]); room = (slot - session.DRO) // sz
            if room >= 1:
                n = rnd.randint(1, min(room, 40)); capn = min(room, 16384)
                cnt_p = min(16384, capn + rnd.choice([1, 1, 2, 5, 40]))
                hi = 0xFFFFFF00
                for sl, w in ((f, [0, hi, sz, n]), (p, [1, hi + 1, sz, cnt_p])):
                    s.add("raw %x %s" % (sl * slot, b"".join(x.to_bytes(4, "little") for x in w + [0xFFFFFFFF] * 3).hex()))
                marks = min(cnt_p, capn + rnd.choice([-1, 0, 1, 1, 2]))
                if 0 < marks <= 4000:
                    s.add("raw %x %s" % (p * slot + 0x400, (b"\x33" * marks).hex()))
                s.add("raw %x %s" % (f * slot + 0x400, bytes(rnd.choice([0xFF, 0x33]) for _ in range(n)).hex()))
        elif style.startswith("pair"):
            # a well-formed newest in-progress (firmware, parity) pair with adversarial geometry / tables
            f, p = rnd.sample(range(ns), 2)
            sz = rnd.choice([1, 8, 40, 256]); n = rnd.choice([1, 3, 10, 100, 16384]); cnt_p = rnd.choice([1, 3, 30, 2047, 2048, 2049, 3000, 16384])
            hi = 0xFFFFFF00
            hf = [0, hi, sz, n, 0xFFFFFFFF, 0xFFFFFFFF, 0xFFFFFFFF]; hp = [1, hi + 1, sz, cnt_p, 0xFFFFFFFF, 0xFFFFFFFF, 0xFFFFFFFF]
            s.add("raw %x %s" % (f * slot, b"".join(x.to_bytes(4, "little") for x in hf).hex()))
            s.add("raw %x %s" % (p * slot, b"".join(x.to_bytes(4, "little") for x in hp).hex()))
            if style == "pair+table":
                tb = bytes(rnd.choice([0xFF, 0x33, 0x33, 0x00, 0x34]) for _ in range(rnd.choice([4, 40, 300])))
                if rnd.random() < 0.4:
                    # every fragment marked present and stray marks behind the last one (the table is read in 256-byte strides)
                    tb = bytes([0x33]) * (min(n, 600) + rnd.choice([1, 2, 7, 40]))
                s.add("raw %x %s" % (f * slot + 0x400, tb.hex()))
                if rnd.random() < 0.5:
                    # the single-erasure back-end keeps a status table in the parity slot as well: more marks than the slot has room
                    # for parity fragments / than the header announces
                    k = rnd.choice([2, 3, 7, 8, 31, 40, 300])
                    s.add("raw %x %s" % (p * slot + 0x400, bytes(0x33 if rnd.random() < 0.9 else 0xFF for _ in range(k)).hex()))
                mo = cnt_p * sz
                if 0x400 + mo + 64 < slot:
                    s.add("raw %x %s" % (p * slot + 0x400 + mo, bytes(rnd.choice([0xFF, 0xFE, 0x00, 0x7F]) for _ in range(64)).hex()))
        s.meta = {"setup": len(s.ops), "style": style}
        if rnd.random() < 0.12:
            # a resumable pair whose parity header announces a matrix that ends just below / inside / beyond the last 1 KiB of the
            # slot (the raw area of a slot is its size minus the header page): recovery probes every row's diagonal byte, a coded
            # fragment then stores a row near the end
            s = session.Scn(ns, slot, blk)
            sz = rnd.choice([1, 1, 2, 3])
            def end(L): return L * sz + session.mro(L - 1) + (L - 1) // 8 + 1
            target = rnd.choice([slot - 1024 - 2, slot - 1024, slot - 1024 + 1, slot - 1024 + rnd.randint(2, 1000), slot - 1, slot, slot + 1, slot + 40])
            L = next((x for x in range(1, 2049) if end(x) >= target), 2048)
            L = max(1, min(2048, L + rnd.choice([-1, 0, 0, 1])))
            f, p2 = rnd.sample(range(ns), 2)
            n = max(1, min(L, (slot - session.DRO) // sz))
            hi = 0xFFFFF000
            for i in range(ns):
                if i not in (f, p2) and rnd.random() < 0.7:
                    s.add("raw %x %s" % (i * slot, b"".join(x.to_bytes(4, "little") for x in [0, rnd.randint(1, 1000), 8, 2, 0x44444444, 0x11111111, 0xABCD1234]).hex()))   # confirmed neighbours
            s.add("raw %x %s" % (f * slot, b"".join(x.to_bytes(4, "little") for x in [0, hi, sz, n] + [0xFFFFFFFF] * 3).hex()))
            s.add("raw %x %s" % (p2 * slot, b"".join(x.to_bytes(4, "little") for x in [1, hi + 1, sz, L] + [0xFFFFFFFF] * 3).hex()))
            s.meta = {"setup": len(s.ops), "style": "pair-edge"}
            for c in ["hdrs", "recover", "seg %d %s" % (n + 1, "a5" * sz), "seg %d %s" % (n + 2, "5a" * sz), "seg %d %s" % (n + 5, "c3" * sz), "hdrs", "fb", "bl"]:
                s.add(c)
            scns.append(s)
            continue
        calls = ["bl", "fb", "validfb", "hdrs"] + ["valid %d" % i for i in range(ns)] + ["recover", "recover", "hdrs", "cancel", "start 8 3", "hdrs", "bl", "fb"]
        rnd.shuffle(calls)
        if rnd.random() < 0.5:
            calls += ["seg 1 " + "ab" * 8, "seg 0 " + "00" * 8, "seg 70000 " + "cd" * 8, "done"]
        for c in calls: s.add(c)
        scns.append(s)
    return scns


def naive_corrupt_part(chk, scns):
    """the corrupt-flash scenarios on the single-erasure back-end (calls the V1 driver of the model knows)"""
    from . import v1
    keep = {"bl", "hdrs", "recover", "cancel", "start", "seg", "done", "raw", "drop"}
    sub = []
    for s in scns:
        t = session.Scn(s.ns, s.slot, s.blk); t.ops = [o for o in s.ops if o.split()[0] in keep]; t.meta = s.meta
        sub.append(t)
    lines, impl, outs = v1.run(chk, sub, "naive", stream="naive-corrupt")
    nt, dist = [], {"panics": 0}
    for s, l, raw, out in zip(sub, lines, impl, outs):
        if len(out) != len(s.ops):
            chk.failures.append(core.Failure("harness produced no / truncated result (crash or hang)", "session", "naive", l, raw[-300:], key="crash")); break
        for (h, lg), op in zip(out, s.ops):
            if h == "panic":
                dist["panics"] += 1
                if op.startswith("seg 1 "):
                    # a fragment with a LEGAL index delivered to a session recovered from arbitrary flash contents is outside the
                    # property (it speaks of recovery / status / fallback / validation / start calls and of illegal indices): the
                    # single-erasure back-end asserts that a fragment marked as stored equals the delivered one
                    dist["legal_fragment_on_corrupt_flash_panics"] = dist.get("legal_fragment_on_corrupt_flash_panics", 0) + 1
                    break
                chk.failures.append(core.Failure("[single-erasure back-end] %s panics on corrupt flash contents" % op.split()[0], "session", "naive", l, raw[:1500], key="c17")); break
        nt.append(l)
        if chk.too_many(): break
    chk.note_cases("naive-corrupt", lines, nt, sample_n=1, dist=dist)


def naive_index_part(chk, rnd):
    """single-erasure back-end: its legal range ends at count + parity capacity; indices beyond it (and 0) at random positions"""
    from . import v1
    def bad(n, pcap):
        top = n + pcap
        pool = [0, top + 1, top + 1, top + 2, 1 << 14, 1 << 16, 0xFFFFFFFF, rnd.randint(top + 1, 0xFFFFFFFF)]
        return [x for x in rnd.sample(pool, rnd.randint(1, 3)) if x == 0 or x > top]
    for ffr in (False, True):
        scns = [v1.build(rnd, "naive", ffr=ffr, with_prior=False, bad=bad) for _ in range((60 if chk.quick() else 1200) // (3 if ffr else 1))]
        lines, impl, outs = v1.run(chk, scns, "naive", ffr=ffr, stream="naive-index%s" % ("-ffr" if ffr else ""))
        nt, dist = [], {"illegal_indices": 0, "one_past_the_last_parity": 0}
        for s, l, raw, out in zip(scns, lines, impl, outs):
            if len(out) != len(s.ops):
                chk.failures.append(core.Failure("harness produced no / truncated result (crash or hang)", "session", "naive", l, raw[-300:], key="crash")); break
            me = s.meta
            top = me["n"] + me["pcap"]
            dist["illegal_indices"] += sum(1 for i in me["seq"] if i == 0 or i > top); dist["one_past_the_last_parity"] += sum(1 for i in me["seq"] if i == top + 1)
            if any(out[i][0] == "panic" for i in me["seg_ops"]):
                chk.failures.append(core.Failure("handle_segment panics (single-erasure back-end)", "session", "naive-ffr" if ffr else "naive", l, raw[:2000], key="c17")); continue
            for msg in v1.oracle(s, out, "naive")[:1]:
                chk.failures.append(core.Failure("[single-erasure back-end] " + msg, "session", "naive-ffr" if ffr else "naive", l, raw[:2000], key="c17"))
            nt.append(l)
        chk.note_cases("naive-index%s" % ("-ffr" if ffr else ""), lines, nt, sample_n=1, dist=dist)


def run(chk):
    chk.prove()
    rnd = random.Random(chk.seed)
    for variant, ffr, rel in (("matrix", False, False), ("matrix-rel", False, True), ("matrix-ffr", True, False)):
        scns = index_scenarios(rnd, chk.quick(), ffr, rel)
        lines, impl, outs = session.run(chk, scns, variant=variant, stream="session-index")
        nt, dist = [], {"index_0": 0, "index_extreme": 0, "seed_overflow_index": 0}
        for s, l, raw, out in zip(scns, lines, impl, outs):
            if len(out) != len(s.ops):
                chk.failures.append(core.Failure("harness produced no / truncated result (crash or hang)", "session", variant, l, raw[-300:], key="crash")); break
            idx = s.meta["bad_idx"]
            dist["index_0" if idx == 0 else ("seed_overflow_index" if idx == s.meta["n"] + SEED_OVF else "index_extreme")] += 1
            for msg, key in oracle_index(s, out, not rel)[:1]:
                chk.failures.append(core.Failure(msg, "session", variant, l, raw[:2000], key=key))
            nt.append(l)
        chk.note_cases("session-index[%s]" % variant, lines, nt, sample_n=1, dist=dist)
    scns = corrupt_scenarios(rnd, chk.quick())
    for variant in ("matrix", "matrix-rel"):
        lines, impl, outs = session.run(chk, scns, variant=variant, stream="session-corrupt")
        nt, dist = [], {"styles": {}, "panics": 0}
        for s, l, raw, out in zip(scns, lines, impl, outs):
            if len(out) != len(s.ops):
                chk.failures.append(core.Failure("harness produced no / truncated result (crash or hang)", "session", variant, l, raw[-300:], key="crash")); break
            dist["styles"][s.meta["style"]] = dist["styles"].get(s.meta["style"], 0) + 1
            for (h, lg), op in zip(out, s.ops):
                if h == "panic":
                    dist["panics"] += 1
                    if op.startswith("seg 1 "):
                        dist["legal_fragment_on_corrupt_flash_panics"] = dist.get("legal_fragment_on_corrupt_flash_panics", 0) + 1; break      # outside the property, see naive_corrupt_part
                    chk.failures.append(core.Failure("%s panics on corrupt flash contents" % op.split()[0], "session", variant, l, raw[:1500], key="c17")); break
            for msg in c08.monitor(s, out)[:1]:
                if "0 -> 1" in msg: continue       # arbitrary contents: programs over garbage legitimately need not be clean
                chk.failures.append(core.Failure("on corrupt flash: " + msg, "session", variant, l, raw[:1500], key="c17"))
            nt.append(l)
            if chk.too_many(): break
        chk.note_cases("session-corrupt[%s]" % variant, lines, nt, sample_n=1, dist=dist)
    naive_corrupt_part(chk, scns)
    naive_index_part(chk, random.Random(chk.seed + 17))
    return chk.finish(level="proof",
        rule="naive-corrupt: the corrupt-flash scenarios (below) on the single-erasure back-end, incl. parity-slot status tables with more marks than the slot has room for; naive-index: the single-erasure back-end (default and force-full-r) with indices 0, count+capacity+1, +2, 2^14, 2^16, 2^32-1, random beyond the range at random positions of V1 deliveries (rejected, nothing programmed, peeling outcome unchanged); session-index: a fragment with index in {0, 1, n, n+1, 2^14, 2^16, 2^32-1, n+1240005543 (u32 seed overflow), random} (consistent payload for legal indices) inserted at every position (sampled) of delivery scenarios, "
             "overflow-checked, release and force-full-r builds; session-corrupt: per-slot headers from legal / boundary / junk field values, random bytes, a well-formed newest pair with adversarial counts (parity count 2047..16384) and garbage status tables / matrix diagonals, "
             "slot sizes 17664 B .. 1 MiB, then every public call in random order; non-trivial = every case; distinct by case text",
        trusted=core.TRUSTED_COMMON + ["C17: 64-bit usize (the host); the 32-bit usize of the real target cannot be run here",
                                        "panics are modelled sites (RPanic) validated by the correspondence of predicted and observed panics"])
