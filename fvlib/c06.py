"""C06 - an interrupted update can be resumed to a correct completion.
Proof: props/C06.v (checkpoint lemmas: recovery reads back the durable state; data writes are crash-compatible).
Correspondence: `session` stream with power loss at every operation boundary, both continuations.
Oracle: after reboot + recovery + remainder + one full data pass the final check succeeds with exactly the image;
the two recorded windows are classified from the reference run's operation log."""
import random
from . import core, session, crash, ts004


def build_base(rnd, ffr=False, wrapped=False):
    while True:
        ns, slot, blk, sz, n = session.pick_geometry(rnd, True)
        if wrapped: ns = 5
        blk = max(blk, 256)
        slot = -(-slot // blk) * blk
        cap = session.max_l(slot, sz)
        if cap >= 1 and n * sz <= slot - session.DRO:
            break
    n = min(n, 16)
    img = ts004.make_image(rnd, n, sz)
    seq, mode, lost = session.delivery_plan(rnd, n, min(cap, 6), mode=rnd.choice(["data-then-coded", "coded-first", "shuffled"]))
    s = session.Scn(ns, slot, blk)
    if wrapped:
        session.prior_history(rnd, s, ["confirm", "confirm"])          # the session's pair is then (slot 4, slot 0)
    elif rnd.random() < 0.3:
        session.prior_history(rnd, s, [rnd.choice(["confirm", "reject", "cancel"]) for _ in range(rnd.randint(1, 4))])
    s.meta = dict(n=n, sz=sz, cap=cap, img=img, seq=seq, mode=mode, lost=sorted(lost), ffr=ffr, wrapped=wrapped)
    s.meta["fb_before"] = s.add("fb"); s.meta["fbvalid_before"] = s.add("validfb")
    s.meta["start_op"] = s.add("start %d %d" % (sz, n))
    s.meta["seg_ops"] = [s.add(session.seg_op(img, n, sz, i, ffr)) for i in seq]
    s.meta["done_op"] = s.add("done")
    s.meta["bl_op"] = s.add("bl"); s.meta["valid_op"] = s.add("validbl"); s.meta["dump_op"] = s.add("dumpbl %x %d" % (session.DRO, n * sz))
    s.meta["fb_op"] = s.add("fb"); s.meta["fbvalid_after"] = s.add("validfb"); s.meta["hdrs_op"] = s.add("hdrs")
    return s


def build_big_base(rnd):
    """many unknowns (more than 8: matrix rows and the pivot bitmap span several bytes), coded fragments arriving one by one"""
    blk, sz = 256, rnd.choice([1, 2, 4, 8])
    slot = session.DRO + 4096
    n = rnd.randint(20, 40)
    cap = session.max_l(slot, sz)
    nlost = rnd.randint(9, min(n - 1, cap, 20))
    img = ts004.make_image(rnd, n, sz)
    lost = set(rnd.sample(range(1, n + 1), nlost))
    seq = [i for i in range(1, n + 1) if i not in lost] + list(range(n + 1, n + 1 + nlost + 8))
    s = session.Scn(4, slot, blk)
    s.meta = dict(n=n, sz=sz, cap=cap, img=img, seq=seq, mode="big-loss", lost=sorted(lost), ffr=False, big=True)
    s.meta["fb_before"] = s.add("fb"); s.meta["fbvalid_before"] = s.add("validfb")
    s.meta["start_op"] = s.add("start %d %d" % (sz, n))
    s.meta["seg_ops"] = [s.add(session.seg_op(img, n, sz, i, False)) for i in seq]
    s.meta["done_op"] = s.add("done")
    s.meta["bl_op"] = s.add("bl"); s.meta["valid_op"] = s.add("validbl"); s.meta["dump_op"] = s.add("dumpbl %x %d" % (session.DRO, n * sz))
    s.meta["fb_op"] = s.add("fb"); s.meta["fbvalid_after"] = s.add("validfb"); s.meta["hdrs_op"] = s.add("hdrs")
    return s


def build_capacity_base(rnd):
    """exactly as many fragments lost as the parity slot has rows (the session enters stage 2 with every row in use)"""
    while True:
        blk, sz = 256, rnd.choice([8, 16, 40, 64])
        slot = -(-(session.DRO + rnd.choice([600, 1024, 1500, 2048])) // blk) * blk
        cap = session.max_l(slot, sz)
        room = (slot - session.DRO) // sz
        if 2 <= cap < room and cap <= 40:
            break
    n = min(room, cap + rnd.randint(1, 4))
    img = ts004.make_image(rnd, n, sz)
    lost = set(rnd.sample(range(1, n + 1), cap))
    seq = [i for i in range(1, n + 1) if i not in lost] + list(range(n + 1, n + 1 + cap + 8))
    s = session.Scn(4, slot, blk)
    s.meta = dict(n=n, sz=sz, cap=cap, img=img, seq=seq, mode="at-capacity", lost=sorted(lost), ffr=False, big=True, atcap=True)
    s.meta["fb_before"] = s.add("fb"); s.meta["fbvalid_before"] = s.add("validfb")
    s.meta["start_op"] = s.add("start %d %d" % (sz, n))
    s.meta["seg_ops"] = [s.add(session.seg_op(img, n, sz, i, False)) for i in seq]
    s.meta["done_op"] = s.add("done")
    s.meta["bl_op"] = s.add("bl"); s.meta["valid_op"] = s.add("validbl"); s.meta["dump_op"] = s.add("dumpbl %x %d" % (session.DRO, n * sz))
    s.meta["fb_op"] = s.add("fb"); s.meta["fbvalid_after"] = s.add("validfb"); s.meta["hdrs_op"] = s.add("hdrs")
    return s


def build_bigcount_base(rnd):
    """more than 2048 data fragments; the model needs far too long at this size: oracle only"""
    from . import c07
    b = c07.big_count_base(rnd)
    s = session.Scn(b.ns, b.slot, b.blk)
    me = dict(b.meta); me["big"] = True
    n, sz, img = me["n"], me["sz"], me["img"]
    s.meta = me
    s.meta["fb_before"] = s.add("fb"); s.meta["fbvalid_before"] = s.add("validfb")
    s.meta["start_op"] = s.add("start %d %d" % (sz, n))
    s.meta["seg_ops"] = [s.add(session.seg_op(img, n, sz, i, False)) for i in me["seq"]]
    s.meta["done_op"] = s.add("done")
    s.meta["bl_op"] = s.add("bl"); s.meta["valid_op"] = s.add("validbl"); s.meta["dump_op"] = s.add("dumpbl %x %d" % (session.DRO, n * sz))
    s.meta["fb_op"] = s.add("fb"); s.meta["fbvalid_after"] = s.add("validfb"); s.meta["hdrs_op"] = s.add("hdrs")
    return s


def build_wide_base(rnd):
    """more than 256 data fragments, one 256-aligned window of the segment status table never written, losses behind it"""
    from . import c07
    b = c07.wide_window_base(rnd)
    s = session.Scn(b.ns, b.slot, b.blk)
    me = dict(b.meta); me["big"] = True
    n, sz, img = me["n"], me["sz"], me["img"]
    s.meta = me
    s.meta["fb_before"] = s.add("fb"); s.meta["fbvalid_before"] = s.add("validfb")
    s.meta["start_op"] = s.add("start %d %d" % (sz, n))
    s.meta["seg_ops"] = [s.add(session.seg_op(img, n, sz, i, False)) for i in me["seq"]]
    s.meta["done_op"] = s.add("done")
    s.meta["bl_op"] = s.add("bl"); s.meta["valid_op"] = s.add("validbl"); s.meta["dump_op"] = s.add("dumpbl %x %d" % (session.DRO, n * sz))
    s.meta["fb_op"] = s.add("fb"); s.meta["fbvalid_after"] = s.add("validfb"); s.meta["hdrs_op"] = s.add("hdrs")
    return s


def crash_case(base, refout, counts, k, resend):
    me = base.meta
    loc = crash.locate(counts, k)
    s = session.Scn(base.ns, base.slot, base.blk)
    for o in base.ops[:me["start_op"]]:            # earlier updates (ring position) and the queries before the start
        s.add(o)
    s.add("crash %d" % k)
    core_ops = base.ops[me["start_op"]:me["done_op"] + 1]
    for o in core_ops:
        s.add(o)
    s.add("reboot")
    m = {"base": base, "k": k, "resend": resend, "loc": loc}
    m["rec_op"] = s.add("recover")
    # continuation: the rest of the transmission (interrupted fragment re-sent or lost), then one full pass of the data fragments
    seg_ops = me["seg_ops"]
    rest = []
    if loc is None or loc[0] > me["done_op"]:
        phase = "after"
    elif loc[0] == me["start_op"]:
        phase = "start"; rest = list(me["seq"])
    elif loc[0] == me["done_op"]:
        phase = "done"
    else:
        j = seg_ops.index(loc[0]); phase = "seg"
        rest = ([me["seq"][j]] if resend else []) + me["seq"][j + 1:]
    m["phase"] = phase
    m["restart_op"] = s.add("start %d %d" % (me["sz"], me["n"])) if phase == "start" else None
    if phase == "start":
        # either recovery returned the session (then this second start begins a fresh one, equally fine) or none: the device must be able to start again
        pass
    m["cont_ops"] = [s.add(session.seg_op(me["img"], me["n"], me["sz"], i, me["ffr"])) for i in rest + list(range(1, me["n"] + 1))]
    m["done_op"] = s.add("done")
    m["bl_op"] = s.add("bl"); m["valid_op"] = s.add("validbl"); m["dump_op"] = s.add("dumpbl %x %d" % (session.DRO, me["n"] * me["sz"]))
    m["hdrs_op"] = s.add("hdrs")
    s.meta = m
    return s


def window(base, refout, counts, k, resend):
    """-> 'a' / 'b' / None : the recorded findings, classified on the reference run"""
    me = base.meta
    loc = crash.locate(counts, k)
    if loc is None or loc[0] not in me["seg_ops"]:
        return None
    opi, pos = loc
    pair = [a // base.slot for kk, a, ln, d, z in session.expand_log(refout[me["start_op"]][1], base.blk) if kk == "W" and a % base.slot == 4][:2]
    if len(pair) < 2:
        return None
    types = crash.classify_ops(base, session.expand_log(refout[opi][1], base.blk), pair, me["cap"], me["sz"])
    completing = refout[opi][0].startswith("F")
    if "R" in types:
        r = types.index("R")
        if completing and pos >= r + 1:
            return "a"            # pivot set complete on flash, back substitution not finished
        if pos == r and not resend:
            return "b"            # parity block stored, its row not; the interrupted fragment is then lost
    return None


def oracle(s, out):
    m = s.meta; me = m["base"].meta
    msgs = []
    post = out[m["rec_op"]:]
    if any(h == "panic" for h, _ in post):
        msgs.append("panic after reboot (crash point %d)" % m["k"])
    rec = out[m["rec_op"]][0]
    if m["phase"] in ("seg",) and not rec.startswith("some"):
        msgs.append("power loss inside fragment handling (operation %d): try_recover returned %s, not the session" % (m["k"], rec))
    if m["phase"] == "start":
        if not (rec.startswith("some") or rec == "none"):
            msgs.append("power loss inside start_update: try_recover returned %s" % rec)
        if not out[m["restart_op"]][0].startswith("ok"):
            msgs.append("after a power loss inside start_update the device cannot start again: %s" % out[m["restart_op"]][0])
    dn = out[m["done_op"]][0]
    completed_before = m["phase"] in ("done", "after") and out[m["bl_op"]][0].startswith("inc")
    if m["phase"] in ("done", "after"):
        # the image was complete when power was lost: either the session resumes and checks out, or the slot already reads completed
        ok = dn.startswith("ok") or completed_before
        if not ok:
            msgs.append("power loss during / after the final mark: neither resumable (%s, final check %s) nor completed (%s)" % (rec, dn, out[m["bl_op"]][0]))
    else:
        if not dn.startswith("ok"):
            msgs.append("resumed update (crash point %d, interrupted fragment %s) does not check out: %s" % (m["k"], "re-sent" if m["resend"] else "lost", dn))
    if (dn.startswith("ok") or completed_before):
        if out[m["valid_op"]][0] != "ok":
            msgs.append("completed slot fails validation after resume: %s" % out[m["valid_op"]][0])
        if out[m["dump_op"]][0] != me["img"].hex():
            msgs.append("resumed update completed with an image that differs from the transmitted one")
    return msgs


def second_loss_cases(rnd, cases, couts, per_case, maxcases):
    """a second power loss, after the first one was recovered from: taken from single-loss cases that resumed correctly (interrupted
       fragment re-sent, outside the recorded windows); power is lost again at an operation of the continuation, then reboot,
       try_recover, the interrupted fragment again, the rest of the continuation, one more full data pass, final check"""
    out = []
    cand = [(c, o) for c, o in zip(cases, couts) if c.meta["phase"] == "seg" and c.meta["resend"] and not c.meta["window"]
            and len(o) == len(c.ops) and not c.meta["base"].meta.get("big") and not oracle(c, o)]
    rnd.shuffle(cand)
    for c, o in cand:
        if len(out) >= maxcases:
            break
        m = c.meta; b = m["base"]; me = b.meta
        st = next(i for i, op in enumerate(c.ops) if op.startswith("crash ")) + 1          # the session's own start follows the armed crash
        pair = [a // b.slot for kk, a, ln, d, z in session.expand_log(o[st][1], b.blk) if kk == "W" and a % b.slot == 4][:2]
        if len(pair) < 2:
            continue
        cont = m["cont_ops"]
        counts = [len(session.expand_log(o[i][1], b.blk)) for i in cont]
        points = []
        acc = 0
        for j, (i, cn) in enumerate(zip(cont, counts)):
            ops = session.expand_log(o[i][1], b.blk)
            types = crash.classify_ops(b, ops, pair, me["cap"], me["sz"])
            completing = o[i][0].startswith("F") and (j == 0 or not o[cont[j - 1]][0].startswith("F"))
            for pos in range(cn):
                if completing and "R" in types and pos >= types.index("R") + 1:
                    continue           # recorded window (a): pivot set complete on flash, back substitution not finished
                points.append((j, acc + pos))
            acc += cn
        if not points:
            continue
        for j, k2 in rnd.sample(points, min(per_case, len(points))):
            s = session.Scn(b.ns, b.slot, b.blk)
            s.ops = list(c.ops[:m["rec_op"] + 1])
            s.add("crash %d" % k2)
            for i in cont: s.add(c.ops[i])
            s.add("done"); s.add("reboot")
            mm = {"base": b, "k": m["k"], "k2": k2, "resend": True, "phase": "seg", "window": None, "restart_op": None, "loc": m["loc"]}
            mm["rec_op"] = s.add("recover")
            mm["cont_ops"] = [s.add(c.ops[i]) for i in cont[j:]] + [s.add(session.seg_op(me["img"], me["n"], me["sz"], i, me["ffr"])) for i in range(1, me["n"] + 1)]
            mm["done_op"] = s.add("done")
            mm["bl_op"] = s.add("bl"); mm["valid_op"] = s.add("validbl"); mm["dump_op"] = s.add("dumpbl %x %d" % (session.DRO, me["n"] * me["sz"]))
            mm["hdrs_op"] = s.add("hdrs")
            s.meta = mm
            out.append(s)
    return out


def run(chk):
    chk.prove()
    rnd = random.Random(chk.seed)
    nbase, limit = (10, 60) if chk.quick() else (120, 300)
    bases = [build_base(rnd) for _ in range(nbase)] + [build_base(rnd, wrapped=True) for _ in range(2 if chk.quick() else 20)] + [build_big_base(rnd) for _ in range(3 if chk.quick() else 30)] + [build_capacity_base(rnd) for _ in range(3 if chk.quick() else 30)]
    lines, impl, refouts = session.run(chk, bases, stream="session-crash-ref")
    wides = [build_wide_base(rnd) for _ in range(1 if chk.quick() else 12)]
    wlines, wimpl, wrefouts = session.run(chk, wides, stream="session-crash-wide-ref")
    bigs = [build_bigcount_base(rnd) for _ in range(1 if chk.quick() else 6)]
    blines, bimpl, brefouts = session.run(chk, bigs, stream="session-crash-bigcount-ref", with_model=False)
    cases, wcases, bcases = [], [], []
    for b, ro in list(zip(bases, refouts)) + list(zip(wides, wrefouts)) + list(zip(bigs, brefouts)):
        if len(ro) != len(b.ops):
            continue
        counts = crash.op_counts(b, ro)
        core_counts = [c if b.meta["start_op"] <= i <= b.meta["done_op"] else 0 for i, c in enumerate(counts)]
        cc = core_counts[b.meta["start_op"]:b.meta["done_op"] + 1]
        total = sum(cc)
        sub = session.Scn(b.ns, b.slot, b.blk); sub.ops = b.ops
        idxs, _ = crash.interesting_indices(b, ro[b.meta["start_op"]:b.meta["done_op"] + 1], rnd, 10**9 if b.meta.get("big") else limit)
        # indices are relative to the first core op; the crash case arms the counter right before it
        shifted = [0] * b.meta["start_op"] + cc
        if b.meta.get("bigcount"):
            keep = set(rnd.sample(idxs, min(len(idxs), 10 if chk.quick() else 40))); idxs = [k for k in idxs if k in keep]
        elif b.meta.get("big"):
            # power loss while the parity rows are being collected / during back substitution
            first_coded = b.meta["seg_ops"][len([i for i in b.meta["seq"] if i <= b.meta["n"]])]
            idxs = [k for k in idxs if (crash.locate(shifted, k) or (0, 0))[0] >= first_coded + (1 if b.meta.get("atcap") else 6)]
            lim = (16 if chk.quick() else 60) if b.meta.get("wide") else limit
            if len(idxs) > lim:
                keep = set(rnd.sample(idxs, lim)); idxs = [k for k in idxs if k in keep]
        for k in idxs:
            for resend in (True, False):
                c = crash_case(b, ro, shifted, k, resend)
                c.meta["window"] = window(b, ro, shifted, k, resend)
                (bcases if b.meta.get("bigcount") else wcases if b.meta.get("wide") else cases).append(c)
    clines, cimpl, couts = session.run(chk, cases, stream="session-crash")
    wclines, wcimpl, wcouts = session.run(chk, wcases, stream="session-crash-wide")
    bclines, bcimpl, bcouts = session.run(chk, bcases, stream="session-crash-bigcount", with_model=False)
    twice = second_loss_cases(rnd, cases, couts, 3, 120 if chk.quick() else 1500)
    tlines, timpl, touts = session.run(chk, twice, stream="session-crash-twice")
    chk.note_cases("session-crash-twice", tlines, tlines, sample_n=0, dist={"cases": len(tlines)})
    for s, l, raw, out in zip(twice, tlines, timpl, touts):
        if len(out) != len(s.ops):
            chk.failures.append(core.Failure("harness produced no / truncated result", "session", "matrix", l, raw, key="crash")); break
        # the second loss may fall where nothing of the continuation has run yet or after completion: judged like a single loss
        for msg in oracle(s, out)[:1]:
            chk.failures.append(core.Failure("after a second power loss (operation %d of the continuation; first loss at operation %d, fragment re-sent): %s" % (s.meta["k2"], s.meta["k"], msg), "session", "matrix", l, raw[:2500], key="c06"))
    nt, dist = [], {"phase": {}, "window_a": 0, "window_b": 0, "resend": 0, "lost": 0, "wide": len(wcases), "bigcount(oracle only)": len(bcases), "second_power_loss": len(twice)}
    for s, l, raw, out in list(zip(cases, clines, cimpl, couts)) + list(zip(wcases, wclines, wcimpl, wcouts)) + list(zip(bcases, bclines, bcimpl, bcouts)):
        if len(out) != len(s.ops):
            chk.failures.append(core.Failure("harness produced no / truncated result", "session", "matrix", l, raw, key="crash")); break
        dist["phase"][s.meta["phase"]] = dist["phase"].get(s.meta["phase"], 0) + 1
        dist["resend" if s.meta["resend"] else "lost"] += 1
        w = s.meta["window"]
        if w: dist["window_" + w] += 1
        for msg in oracle(s, out)[:1]:
            chk.failures.append(core.Failure(msg, "session", "matrix", l, raw[:2500], key="c06-window-" + w if w else "c06"))
        nt.append(l)
    chk.note_cases("session-crash", clines + wclines + [l[:300] for l in bclines], [l[:300] if len(l) > 5000 else l for l in nt], sample_n=1, dist=dist)
    return chk.finish(level="proof",
        rule="session-crash: for each base delivery (capacity >= 1, up to 6 losses, three delivery orders, ring positions from random earlier updates and explicitly the pair that wraps the ring end; plus big-loss bases with 9..20 losses where power is lost from the seventh coded fragment on; plus big-count bases (2049..4000 one-byte fragments, power lost at sampled operations anywhere in the session; oracle only, the model needs far too long at this size); plus at-capacity bases (exactly as many losses as the parity slot has rows, power lost from the second coded fragment on); plus wide bases - 520..620 one-byte fragments, one 256-aligned window of the status table never written and losses behind it, power lost during parity processing) power is lost at every modifying flash operation of start_update, every handle_segment and check_and_mark_done "
             "(all boundaries; inside long erase runs the first, second and last block; sampled when a script has more than %d), each with both continuations (interrupted fragment re-sent / lost), and for a sample of the correctly resumed ones a second power loss during the continuation; then reboot, try_recover, remainder, one full data pass, final check; "
             "non-trivial = every crash case; distinct by case text" % limit,
        trusted=core.TRUSTED_COMMON + ["C06: power loss = prefix of the operation log (block-atomic erase); torn programs are C04's"])
