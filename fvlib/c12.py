"""C12 - boot status and fallback queries follow the update lifecycle.  Proof: props/C12.v.
Correspondence + oracle: the ring closure (both queries compared with the lifecycle ghost in every reachable state)."""
import random
from . import core, c05, ring, session


def static_part(chk):
    """the two queries are functions of the headers alone: arrangements of legal headers at arbitrary ring positions (runs of
       consecutive numbers at any rotation, some slots blank), 4 / 5 / 6 slots, at most one firmware image
       awaiting the bootloader; parity headers in the states a parity slot can take"""
    rnd = random.Random(chk.seed + 12)
    FW = [("IP", "IP", "UN"), ("AB", "IP", "UN"), ("CO", "IP", "UN"), ("CO", "CO", "UN"), ("CO", "CO", "SU"), ("CO", "CO", "SU"), ("CO", "CO", "SU"), ("CO", "CO", "US")]
    PA = [("IP", "IP", "UN"), ("AB", "IP", "UN"), ("CO", "IP", "UN")]
    cases, want = [], []
    for _ in range(900 if chk.quick() else 20000):
        ns = rnd.choice([4, 5, 6])
        g = ring.Geo(ns)
        # a run of consecutive numbers at any rotation (as the ring numbering produces), some slots blank: the order of the numbers
        # along the ring and the order of the values agree, so an implementation may use either
        s0 = rnd.choice([0, 1, 100, 252, 253, 0xFFFB, 0x00FFFFFD, 0x7FFFFFF0, 0xFFFFFF00]); p = rnd.randrange(ns)      # incl. numbers whose low bytes read 0xFF
        seqs = {(p + k) % ns: s0 + k for k in range(ns)}
        pending = False
        hs = {}
        for i in range(ns):
            if rnd.random() < 0.2:
                continue
            if rnd.random() < 0.6:
                st = rnd.choice(FW)
                if st in (("CO", "IP", "UN"), ("CO", "CO", "UN")):
                    if pending: st = ("CO", "CO", "SU")
                    pending = True
                hs[i] = ("F", seqs[i]) + st
            else:
                hs[i] = ("P", seqs[i]) + rnd.choice(PA)
        def enc(h):
            # firmware geometries from one 4-byte fragment up to images that fill the data region (within its last 68 bytes, and exactly)
            b = bytearray(ring.hdr_bytes(h, g.cap))
            if h[0] == "F":
                room = g.slot - session.DRO
                sz, cnt = rnd.choice([(4, 1), (4, 1), (room, 1) if room <= 256 else (256, room // 256), (64, room // 64), (100, room // 100), (1, room), (1, room - 67), (room // 2, 2) if room // 2 <= 256 else (4, 1)])
                b[8:12] = sz.to_bytes(4, "little"); b[12:16] = cnt.to_bytes(4, "little")
            return bytes(b)
        ops = ["raw %x %s" % (i * g.slot, enc(h).hex()) for i, h in sorted(hs.items())] + ["bl", "fb"]
        cases.append("%d %d %d|%s" % (ns, g.slot, g.blk, ";".join(ops)))
        conf = [(h[1], i) for i, h in hs.items() if h[0] == "F" and h[2:] == ("CO", "CO", "SU")]
        bl = "idle"
        for i, h in sorted(hs.items()):
            if h[0] == "F" and h[2:] == ("CO", "IP", "UN"): bl = "inc:%d" % i
            if h[0] == "F" and h[2:] == ("CO", "CO", "UN"): bl = "fail:%d" % i
        want.append((bl, "some:%d" % max(conf)[1] if conf else "none", hs))
    fvh = core.build_harness("matrix")
    impl = core.run_stream(fvh, "session", cases)
    nt = []
    for c, raw, (wbl, wfb, hs) in zip(cases, impl, want):
        out = session.parse_out(raw)
        if len(out) < 2:
            chk.failures.append(core.Failure("harness produced no / truncated result", "session", "matrix", c, raw, key="crash")); break
        bl, fb = out[-2][0], out[-1][0]
        if bl != wbl:
            chk.failures.append(core.Failure("bl_boot_status = %s, the headers %s prescribe %s" % (bl, hs, wbl), "session", "matrix", c, raw[:1500], key="c12"))
        elif fb != wfb:
            chk.failures.append(core.Failure("fallback_firmware = %s, the most recently confirmed image (highest sequence number among confirmed firmware headers %s) is %s" % (fb, hs, wfb), "session", "matrix", c, raw[:1500], key="c12"))
        nt.append(c)
        if chk.too_many(): break
    chk.note_cases("static-arrangements", cases, nt, sample_n=1, dist={"cases": len(cases)})
    try:
        fvm = core.build_fvm()
        chk.correspond("static-arrangements", "matrix", cases, impl, core.run_stream(fvm, "session", cases))
    except core.BuildError as e:
        chk.broken.append(("correspondence", "static-arrangements[model build]", {"detail": str(e)[-1500:]}))


def run(chk):
    chk.prove()
    c05.closure_part(chk, ("c12",))
    static_part(chk)
    chk.cov["exhaustive"] = False          # the closure is exhaustive where it closes; the static arrangements are sampled
    return chk.finish(level="proof",
        rule="static-arrangements: legal headers at arbitrary positions of 4 / 5 / 6-slot rings (rotated runs of consecutive numbers, some slots blank; at most one firmware image awaiting the bootloader; parity headers in progress / aborted / complete): both queries vs the answer the headers prescribe; ring-closure (see C05): in every reachable (headers, ghost) state bl_boot_status and fallback_firmware of the real SlotManager are compared with the abstract lifecycle; non-trivial/distinct = distinct states",
        trusted=core.TRUSTED_COMMON + ["C12: proviso enforced along the whole history: completion is only explored when no other image awaits the bootloader",
                                        "an erased slot no longer holds an update (start and recovery's remediation may erase an awaiting-copy image; DESIGN.md section 8)"])
