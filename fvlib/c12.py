"""C12 - boot status and fallback queries follow the update lifecycle.  Proof: props/C12.v.
Correspondence + oracle: the ring closure (both queries compared with the lifecycle ghost in every reachable state)."""
import random
from . import core, c05, ring, session


def static_part(chk):
    """the two queries are functions of the headers alone: arrangements of legal headers at arbitrary ring positions (runs of
       consecutive numbers at any rotation, some slots blank), 4 / 5 / 6 slots, at most one firmware image
       awaiting the bootloader; parity headers in the states a parity slot can take"""
    rnd = random.Random(chk.seed + 12)
    FW = [("IP", "IP", "UN"), ("AB", "IP", "UN"), ("CO", "IP", "UN"), ("CO", "CO", "UN"), ("CO", "CO", "SU"), ("CO", "CO", "SU"), ("CO", "CO", "SU"), ("CO", "CO", "US")]
    PA = [("IP", "IP", "UN"), ("AB", "IP", "UN"), ("CO", "IP", "UN")]
    cases, want = [], []
    for _ in range(900 if chk.quick() else 20000):
        ns = rnd.choice([4, 5, 6])
        g = ring.Geo(ns)
        # a run of consecutive numbers at any rotation (as the ring numbering produces), some slots blank: the order of the numbers
        # along the ring and the order of the values agree, so an implementation may use either
        s0 = rnd.choice([0, 1, 100, 252, 253, 0xFFFB, 0x00FFFFFD, 0x7FFFFFF0, 0xFFFFFF00]); p = rnd.randrange(ns)      # incl. numbers whose low bytes read 0xFF
        seqs = {(p + k) % ns: s0 + k for k in range(ns)}
        pending = False
        hs = {}
        for i in range(ns):
            if rnd.random() < 0.2:
                continue
            if rnd.random() < 0.6:
                st = rnd.choice(FW)
                if st in (("CO", "IP", "UN"), ("CO", "CO", "UN")):
                    if pending: st = ("CO", "CO", "SU")
                    pending = True
                hs[i] = ("F", seqs[i]) + st
            else:
                hs[i] = ("P", seqs[i]) + rnd.choice(PA)
        def enc(h):
            # firmware geometries from one 4-byte fragment up to images that fill the data region (within its last 68 bytes, and exactly)
            b = bytearray(ring.hdr_bytes(h, g.cap))
            if h[0] == "F":
                room = g.slot - session.DRO
                sz, cnt = rnd.choice([(4, 1), (4, 1), (room, 1) if room <= 256 else (256, room // 256), (64, room // 64), (100, room // 100), (1, room), (1, room - 67), (room // 2, 2) if room // 2 <= 256 else (4, 1)])
                b[8:12] = sz.to_bytes(4, "little"); b[12:16] = cnt.to_bytes(4, "little")
            return bytes(b)
        ops = ["raw %x %s" % (i * g.slot, enc(h).hex()) for i, h in sorted(hs.items())] + ["bl", "fb"]
        cases.append("%d %d %d|%s" % (ns, g.slot, g.blk, ";".join(ops)))
        conf = [(h[1], i) for i, h in hs.items() if h[0] == "F" and h[2:] == ("CO", "CO", "SU")]
        bl = "idle"
        for i, h in sorted(hs.items()):
            if h[0] == "F" and h[2:] == ("CO", "IP", "UN"): bl = "inc:%d" % i
            if h[0] == "F" and h[2:] == ("CO", "CO", "UN"): bl = "fail:%d" % i
        want.append((bl, "some:%d" % max(conf)[1] if conf else "none", hs))
    fvh = core.build_harness("matrix")
    impl = core.run_stream(fvh, "session", cases)
    nt = []
    for c, raw, (wbl, wfb, hs) in zip(cases, impl, want):
        out = session.parse_out(raw)
        if len(out) < 2:
            chk.failures.append(core.Failure("harness produced no / truncated result", "session", "matrix", c, raw, key="crash")); break
        bl, fb = out[-2][0], out[-1][0]
        if bl != wbl:
            chk.failures.append(core.Failure("bl_boot_status = %s, the headers %s prescribe %s" % (bl, hs, wbl), "session", "matrix", c, raw[:1500], key="c12"))
        elif fb != wfb:
            chk.failures.append(core.Failure("fallback_firmware = %s, the most recently confirmed image (highest sequence number among confirmed firmware headers %s) is %s" % (fb, hs, wfb), "session", "matrix", c, raw[:1500], key="c12"))
        nt.append(c)
        if chk.too_many(): break
    chk.note_cases("static-arrangements", cases, nt, sample_n=1, dist={"cases": len(cases)})
    try:
        fvm = core.build_fvm()
        chk.correspond("static-arrangements", "matrix", cases, impl, core.run_stream(fvm, "session", cases))
    except core.BuildError as e:
        chk.broken.append(("correspondence", "static-arrangements[model build]", {"detail": str(e)[-1500:]}))


def reject_part(chk):
    """directed histories through the real API: an update is started while the previous image is copied but not yet acknowledged,
       the previous image is then rejected, the new session completes - the bootloader query must name exactly the new image and
       the fallback query the last confirmed one, at every ring position (0..3 confirmed updates before, 4 / 5 / 6 slots)"""
    import random
    from . import session, ts004
    rnd = random.Random(chk.seed + 12)
    scns = []
    def full(t, sz, n):
        img = ts004.make_image(rnd, n, sz)
        t.add("start %d %d" % (sz, n))
        return [session.seg_op(img, n, sz, i, False) for i in range(1, n + 1)]
    for ns in (4, 5, 6):
        for pre in range(0, 4):
            for sz, n in ((8, 2), (40, 3)):
                t = session.Scn(ns, 17664, 192)
                m = {"kind": "reject-while-next-in-progress", "N": ns, "pre": pre}
                for _ in range(pre + 1):                                   # confirmed updates; the last one is A
                    for o in full(t, sz, n): t.add(o)
                    m["doneA"] = t.add("done"); t.add("bl"); t.add("markbl int"); t.add("bl"); t.add("markbl ok")
                for o in full(t, sz, n): t.add(o)                          # B: completed and copied, not acknowledged
                t.add("done"); t.add("bl"); t.add("markbl int")
                segs = full(t, sz, n)                                      # C started
                t.add("bl"); t.add("markbl bad")                           # B rejected (if start left it in place)
                m["bl_mid"] = t.add("bl")
                for o in segs: t.add(o)
                m["doneC"] = t.add("done"); m["bl"] = t.add("bl"); m["fb"] = t.add("fb"); t.add("hdrs")
                t.meta = m
                scns.append(t)
    lines, impl, outs = session.run(chk, scns, stream="session-reject")
    nt = []
    for s, l, raw, out in zip(scns, lines, impl, outs):
        if len(out) != len(s.ops):
            chk.failures.append(core.Failure("harness produced no / truncated result", "session", "matrix", l, raw, key="crash")); break
        m = s.meta
        hA, hC, mid = out[m["doneA"]][0], out[m["doneC"]][0], out[m["bl_mid"]][0]
        if not (hA.startswith("ok:") and hC.startswith("ok:") and mid.startswith("idle")):
            continue                                                       # some other image still awaits the bootloader: outside the proviso
        iA, iC = hA[3:].split("[")[0], hC[3:].split("[")[0]
        nt.append(l)
        if not out[m["bl"]][0].startswith("inc:" + iC):
            chk.failures.append(core.Failure("update completed in slot %s (previous image rejected): bootloader query answers %s, not copy-incomplete for slot %s" % (iC, out[m["bl"]][0][:12], iC), "session", "matrix", l, raw[:2000], key="c12"))
        if not out[m["fb"]][0].startswith("some:" + iA):
            chk.failures.append(core.Failure("fallback query answers %s, the last confirmed image is in slot %s" % (out[m["fb"]][0][:12], iA), "session", "matrix", l, raw[:2000], key="c12"))
    chk.note_cases("session-reject", lines, nt, sample_n=1, dist={"histories": len(lines), "judged": len(nt)})


def run(chk):
    chk.prove()
    reject_part(chk)
    c05.closure_part(chk, ("c12",))
    static_part(chk)
    chk.cov["exhaustive"] = False          # the closure is exhaustive where it closes; the static arrangements are sampled
    return chk.finish(level="proof",
        rule="session-reject: real-API histories (0..3 confirmed updates, next update started while the previous image is copied but unacknowledged, previous image rejected, new session completed; 4 / 5 / 6 slots): bootloader query = copy incomplete for the new slot, fallback = last confirmed; static-arrangements: legal headers at arbitrary positions of 4 / 5 / 6-slot rings (rotated runs of consecutive numbers, some slots blank; at most one firmware image awaiting the bootloader; parity headers in progress / aborted / complete): both queries vs the answer the headers prescribe; ring-closure (see C05): in every reachable (headers, ghost) state bl_boot_status and fallback_firmware of the real SlotManager are compared with the abstract lifecycle; non-trivial/distinct = distinct states",
        trusted=core.TRUSTED_COMMON + ["C12: proviso enforced along the whole history: completion is only explored when no other image awaits the bootloader",
                                        "an erased slot no longer holds an update (start and recovery's remediation may erase an awaiting-copy image; DESIGN.md section 8)"])
