"""C12 - boot status and fallback queries follow the update lifecycle.  Proof: props/C12.v.
Correspondence + oracle: the ring closure (both queries compared with the lifecycle ghost in every reachable state)."""
from . import core, c05

def run(chk):
    chk.prove()
    c05.closure_part(chk, ("c12",))
    return chk.finish(level="proof",
        rule="ring-closure (see C05): in every reachable (headers, ghost) state bl_boot_status and fallback_firmware of the real SlotManager are compared with the abstract lifecycle; non-trivial/distinct = distinct states",
        trusted=core.TRUSTED_COMMON + ["C12: proviso enforced along the whole history: completion is only explored when no other image awaits the bootloader",
                                        "an erased slot no longer holds an update (start and recovery's remediation may erase an awaiting-copy image; DESIGN.md section 8)"])
