"""C08 - update traffic stays inside the session's two slots and obeys NOR rules.
Proof: props/C08.v (confinement of the flash-backed storages, address arithmetic, NOR read-back).
Correspondence: `session` stream (full operation log).  Oracle: monitor over every erase / program of every scenario."""
import random
from . import core, session, c15

FIELDS = {0, 4, 8, 12, 16, 20, 24}


def monitor(s, out, session_ops=None, pair=None):
    """-> list of messages. session_ops: indices of ops that belong to the started session (must stay in `pair`)"""
    msgs = []
    total = s.ns * s.slot
    for oi, (head, lg) in enumerate(out):
        if head == "X":
            continue
        for k, a, ln, d, z in session.expand_log(lg, s.blk):
            if a + ln > total:
                msgs.append("%s at %#x+%d beyond the device" % (k, a, ln))
            if a // s.slot != (a + ln - 1) // s.slot:
                msgs.append("%s at %#x+%d straddles a slot boundary" % (k, a, ln))
            off = a % s.slot
            if k == "W":
                if off < session.HDR and not (ln == 4 and off in FIELDS):
                    msgs.append("program at slot offset %#x (+%d) in the header area is not one of the seven header fields" % (off, ln))
                if z:
                    msgs.append("program at %#x needs a 0 -> 1 transition (crash-free run)" % a)
            if session_ops and oi in session_ops and pair and a // s.slot not in pair:
                msgs.append("%s at %#x lies in slot %d, outside the session's slots %s" % (k, a, a // s.slot, sorted(pair)))
    return msgs


def pair_of_start(s, out, start_op):
    w = [a // s.slot for k, a, ln, d, z in session.expand_log(out[start_op][1], s.blk) if k == "W" and a % s.slot == 4]
    return set(w[:2])


def reuse_cases(rnd, count):
    """the session's pair - the last two slots of the device - was used before by a cancelled session of the same geometry with
       other contents (complemented payloads), which left fragments, parity blocks and matrix rows behind, also in the last
       erase block of each slot: everything the new session programs must have been erased by its start"""
    out = []
    for _ in range(count):
        b = session.build_delivery(rnd, small=True, with_history=False)
        # coarse erase blocks (a slot is one, two or three of them) so that the traffic of a small session reaches the last
        # erase block of its slots; every second case keeps the fine-grained geometry
        div = rnd.choice([1, 1, 2, 3])
        blk = b.slot // div if (b.slot % div == 0 and rnd.random() < 0.75) else b.blk
        t = session.Scn(4, b.slot, blk)
        t.cls = "delivery"
        t.add("start 8 2"); t.add("cancel")
        ops = [b.ops[i] for i in [b.meta["start_op"]] + b.meta["seg_ops"]]
        for o in ops:
            w = o.split()
            if w[0] == "seg":
                o = "seg %s %s" % (w[1], bytes(x ^ 0xFF for x in bytes.fromhex(w[2])).hex())
            t.add(o)
        t.add("cancel")
        t.meta = {"kind": "dirty-reuse", "n": b.meta["n"], "sz": b.meta["sz"], "lost": b.meta["lost"]}
        t.meta["start_op"] = t.add(ops[0])
        t.meta["seg_ops"] = [t.add(o) for o in ops[1:]]
        t.meta["done_op"] = t.add("done")
        t.add("validbl"); t.add("hdrs")
        out.append(t)
    return out


def run(chk):
    chk.prove()
    rnd = random.Random(chk.seed)
    n1 = 220 if chk.quick() else 2500
    scns = [session.build_delivery(rnd, small=True) for _ in range(n1)]
    # last slot of the device / every ring position comes from the histories; add large-loss scenarios beyond capacity
    scns += c15.loss_cases(rnd, chk.quick())
    scns += c15.capacity_cases(rnd, True)[::7]
    # one fragment more than fits (fragment size not dividing the data region): rejected on the unchanged tree; if it were
    # accepted, storing the last fragment would leave the slot
    for _ in range(40 if chk.quick() else 600):
        blk = rnd.choice([64, 256, 512]); sz = rnd.choice([3, 7, 40, 100, 255, 256, 129])
        slot = -(-(session.DRO + rnd.choice([68, 100, 255, 300, 777, 1500, 4000])) // blk) * blk
        room = (slot - session.DRO) // sz
        if (slot - session.DRO) % sz == 0:
            continue
        n = room + 1
        t = session.Scn(rnd.choice([4, 5]), slot, blk)
        for _h in range(rnd.randint(0, 2)):
            t.add("start 8 2"); t.add("seg 1 ffffffff01020304"); t.add("seg 2 0506070809101112"); t.add("done")
        t.meta = {"kind": "one-too-many"}
        t.add("start %d %d" % (sz, n)); t.add("seg %d %s" % (n, "5a" * sz)); t.add("seg %d %s" % (max(1, n - 1), "a5" * sz)); t.add("hdrs")
        scns.append(t)
    # resumed sessions: clean reboots during parity processing with 9..40 unknowns (what recovery rebuilds decides where the next rows go)
    from . import c07
    for _ in range(6 if chk.quick() else 60):
        b = c07.big_loss_base(rnd)
        fc = len([i for i in b.meta["seq"] if i <= b.meta["n"]])
        scns += [t for t in c07.twin_scenarios(rnd, True, base=b, positions=lambda npos, fc=fc: sorted(rnd.sample(range(fc + 1, npos), min(4, npos - fc - 1)))) if t.meta["tag"] != "ref"]
    scns += reuse_cases(rnd, 12 if chk.quick() else 150)
    lines, impl, outs = session.run(chk, scns, stream="session-oplog")
    nt, nops, dist = [], 0, {"erases": 0, "programs": 0, "scenarios_in_last_slot": 0}
    for s, l, raw, out in zip(scns, lines, impl, outs):
        if len(out) != len(s.ops):
            chk.failures.append(core.Failure("harness produced no / truncated result", "session", "matrix", l, raw, key="crash")); break
        sess_ops, pair = None, None
        if "start_op" in s.meta:
            pair = pair_of_start(s, out, s.meta["start_op"])
            sess_ops = set([s.meta["start_op"]] + s.meta["seg_ops"] + [s.meta["done_op"]])
            if s.ns - 1 in pair: dist["scenarios_in_last_slot"] += 1
        for head, lg in out:
            ops = session.expand_log(lg, s.blk)
            nops += len(ops)
            dist["erases"] += sum(1 for o in ops if o[0] == "E"); dist["programs"] += sum(1 for o in ops if o[0] == "W")
        for msg in monitor(s, out, sess_ops, pair)[:2]:
            chk.failures.append(core.Failure(msg, "session", "matrix", l, raw[:2000], key="c08"))
        nt.append(l)
        if chk.too_many(): break
    chk.note_cases("session-oplog", lines, nt, sample_n=1, dist=dist)
    # the single-erasure back-end (same Slot layer, its own index arithmetic): deliveries incl. indices around the end of the parity slot
    from . import v1
    def bad(n, pcap):
        top = n + pcap
        return [x for x in (top, top + 1, top + 2) if rnd.random() < 0.7]
    nscn = [v1.build(rnd, "naive", with_prior=True, bad=bad) for _ in range(60 if chk.quick() else 1500)]
    nlines, nimpl, nouts = v1.run(chk, nscn, "naive", stream="naive-oplog")
    nnt = []
    for s, l, raw, out in zip(nscn, nlines, nimpl, nouts):
        if len(out) != len(s.ops):
            chk.failures.append(core.Failure("harness produced no / truncated result", "session", "naive", l, raw[-300:], key="crash")); break
        pair = pair_of_start(s, out, s.meta["start_op"])
        sess_ops = set([s.meta["start_op"]] + s.meta["seg_ops"] + [s.meta["done_op"]])
        for msg in monitor(s, out, sess_ops, pair)[:2]:
            chk.failures.append(core.Failure("[single-erasure back-end] " + msg, "session", "naive", l, raw[:2000], key="c08"))
        nnt.append(l)
    chk.note_cases("naive-oplog", nlines, nnt, sample_n=1, dist={"scenarios": len(nlines)})
    # the ring closure exercises every other API call (cancel, recover with remediation, marks) at every ring position
    from . import ring
    r = ring.explore(chk, 4, 10**6, budget_s=200)
    chk.cov["evaluations"] += r["transitions"]
    chk.cov["streams"]["ring-closure[N=4]"].update({"states": r["states"], "transitions": r["transitions"], "closed": r["exhaustive"]})
    return chk.finish(level="proof", extra={"flash_operations_monitored": nops},
        rule="naive-oplog: the same monitor over deliveries of the single-erasure back-end incl. the fragment indices around the end of the parity slot; session-oplog: deliveries with ring histories (all slot positions incl. the last slot), losses up to and beyond the capacity, geometries over all fragment sizes, fragment counts one beyond what fits followed by the last fragments, sessions resumed by try_recover during parity processing (9..40 unknowns), sessions that reuse the last two slots of the device after a cancelled session of the same geometry with complemented contents (dirty-reuse); every erase / program is checked: inside one slot, inside the session's pair, "
             "header-area programs = one of the seven fields, no 0->1 need; ring closure: correspondence of every other call's operation log; non-trivial = every scenario (all issue flash operations); distinct by case text",
        trusted=core.TRUSTED_COMMON + ["C08: read-back equality follows from 'no program needs a 0->1 transition' under the AND-program device model of SimNor / Nor.v"])
