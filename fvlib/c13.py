"""C13 - recovery and cancel leave at most the resumable session pending.  Proof: props/C13.v.
Correspondence + oracle: the ring closure (exclusive / none-clears / cancel-clears / sound / complete / protected / idempotent in every reachable state)."""
from . import core, c05

def run(chk):
    chk.prove()
    c05.closure_part(chk, ("c13",))
    return chk.finish(level="proof",
        rule="ring-closure (see C05): from every reachable state recover, recover twice, recover+complete, cancel, cancel twice and the crash prefixes of cancel are executed on the real SlotManager; "
             "the returned session's slots are observed through where its fragment and final marks land; non-trivial/distinct = distinct states",
        trusted=core.TRUSTED_COMMON + ["C13: crash prefixes of recovery's remediation are outside the property's quantifier (DESIGN.md section 8, second observation)",
                                        "geometries with max_l = 0 write an unparseable parity header (DESIGN.md section 8); the closure uses max_l >= 1"])
