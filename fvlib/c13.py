"""C13 - recovery and cancel leave at most the resumable session pending.  Proof: props/C13.v.
Correspondence + oracle: the ring closure (exclusive / none-clears / cancel-clears / sound / complete / protected / idempotent in every reachable state)."""
import random
from . import core, c05, session


def fault_part(chk):
    """a device operation of try_recover fails once (the flash works again afterwards): whatever the failed call answers, the
       session must still be there - the next call returns it and its two slots still read in progress"""
    rnd = random.Random(chk.seed + 13)
    bases = []
    while len(bases) < (8 if chk.quick() else 80):
        b = session.build_delivery(rnd, small=True, with_history=rnd.random() < 0.5)
        if b.meta["cap"] >= 1 and len(b.meta["seq"]) >= 2:
            bases.append(b)
    refs = []
    for b in bases:
        me = b.meta
        cut = me["start_op"] + 1 + rnd.randint(1, max(1, len(me["seg_ops"]) - 1))
        s = session.Scn(b.ns, b.slot, b.blk)
        s.ops = list(b.ops[:cut]) + ["drop"]
        s.meta = {"rec": s.add("recover")}; s.add("hdrs")
        refs.append(s)
    lines, impl, outs = session.run(chk, refs, stream="recover-fault-ref")
    cases = []
    for s, out in zip(refs, outs):
        if len(out) != len(s.ops) or not out[s.meta["rec"]][0].startswith("some"):
            continue
        nops = out[s.meta["rec"]].nops
        for k in (range(nops) if nops <= 12 or not chk.quick() else sorted(rnd.sample(range(nops), 12))):
            t = session.Scn(s.ns, s.slot, s.blk)
            t.ops = list(s.ops[:s.meta["rec"]]) + ["fail %d" % k]
            t.meta = {"k": k, "r1": t.add("recover"), "h1": t.add("hdrs")}; t.add("drop")
            t.meta["r2"] = t.add("recover"); t.meta["h2"] = t.add("hdrs")
            t.meta["ref_hdrs"] = out[s.meta["rec"] + 1][0]
            cases.append(t)
    # fault positions are device-operation indices: when the reference runs showed read-pattern drift the faulted runs are judged
    # by the oracle alone (same policy as C18)
    if chk.drift:
        chk.notes.append("recover-fault: read pattern drifted from the model's; the faulted runs are not compared with the model (oracle only)")
    clines, cimpl, couts = session.run(chk, cases, stream="recover-fault", with_model=not chk.drift)
    nt = []
    for t, l, raw, out in zip(cases, clines, cimpl, couts):
        if len(out) != len(t.ops):
            chk.failures.append(core.Failure("harness produced no / truncated result", "session", "matrix", l, raw, key="crash")); break
        r1, r2 = out[t.meta["r1"]][0], out[t.meta["r2"]][0]
        if r1 == "panic" or r2 == "panic":
            chk.failures.append(core.Failure("try_recover panics when device operation %d fails once" % t.meta["k"], "session", "matrix", l, raw[:2000], key="c13"))
        elif not r2.startswith("some"):
            chk.failures.append(core.Failure("device operation %d of try_recover failed once (answer: %s); the next try_recover returns %s although the update was started and neither completed nor cancelled" % (t.meta["k"], r1, r2), "session", "matrix", l, raw[:2000], key="c13"))
        elif out[t.meta["h2"]][0] != t.meta["ref_hdrs"]:
            chk.failures.append(core.Failure("device operation %d of try_recover failed once: the headers after the next try_recover differ from those after a fault-free one" % t.meta["k"], "session", "matrix", l, raw[:2000], key="c13"))
        nt.append(l)
        if chk.too_many(): break
    chk.note_cases("recover-fault", clines, nt, sample_n=1, dist={"cases": len(clines)})


def twice_part(chk):
    """recover, drop, recover on both back-ends with the session's pair anywhere in the ring (0..4 confirmed earlier updates, 4 / 5 / 6
       slots - the first recovery may erase stale parity slots): the second call returns the session again and modifies nothing"""
    from . import v1
    rnd = random.Random(chk.seed + 131)
    for variant in ("matrix", "naive"):
        scns = []
        for _ in range(40 if chk.quick() else 600):
            ns = rnd.choice([4, 5, 5, 6]); slot = session.DRO + 256; 
            s = session.Scn(ns, slot, 256)
            for _h in range(rnd.randint(0, 4)):
                s.add("start 8 2"); s.add("seg 1 ffffffff01020304"); s.add("seg 2 0506070809101112"); s.add("done")
                s.add("bl"); s.add("markbl int"); s.add("bl"); s.add("markbl ok")
            s.add("start 8 4"); s.add("seg 2 1112131415161718")
            if rnd.random() < 0.5: s.add("seg 4 2122232425262728")
            s.add("drop")
            s.meta = {"r1": s.add("recover")}; s.add("drop"); s.meta["h1"] = s.add("hdrs")
            s.meta["r2"] = s.add("recover"); s.meta["h2"] = s.add("hdrs")
            scns.append(s)
        lines = [s.line() for s in scns]
        impl = [v1.STRIP.sub("", x) for x in core.run_stream(core.build_harness(variant), "session", lines)]
        for s, l, raw in zip(scns, lines, impl):
            out = session.parse_out(raw)
            if len(out) != len(s.ops):
                chk.failures.append(core.Failure("harness produced no / truncated result", "session", variant, l, raw, key="crash")); break
            r1, r2 = out[s.meta["r1"]], out[s.meta["r2"]]
            if not r1[0].startswith("some") or not r2[0].startswith("some"):
                chk.failures.append(core.Failure("[%s back-end] try_recover twice on a started, neither completed nor cancelled update: %s then %s" % (variant, r1[0].split(":")[0], r2[0].split(":")[0]), "session", variant, l, raw[:2000], key="c13"))
            elif r2[1] or out[s.meta["h1"]][0] != out[s.meta["h2"]][0]:
                chk.failures.append(core.Failure("[%s back-end] the second try_recover modifies the flash: %s" % (variant, r2[1][:3]), "session", variant, l, raw[:2000], key="c13"))
        chk.note_cases("recover-twice[%s, oracle only]" % variant, lines, lines, sample_n=1, dist={"cases": len(lines)})


def run(chk):
    chk.prove()
    c05.closure_part(chk, ("c13",))
    fault_part(chk)
    twice_part(chk)
    return chk.finish(level="proof",
        rule="recover-twice: both back-ends, 4 / 5 / 6 slots, 0..4 confirmed earlier updates, a partly delivered update: try_recover, drop, try_recover - same answer, no flash modification by the second call; recover-fault: partial deliveries, one device operation of try_recover failing once (every operation; sampled when more than 12), then try_recover again: the session is returned and the headers equal those after a fault-free recovery; ring-closure (see C05): from every reachable state recover, recover twice, recover+complete, cancel, cancel twice and the crash prefixes of cancel are executed on the real SlotManager; "
             "the returned session's slots are observed through where its fragment and final marks land; non-trivial/distinct = distinct states",
        trusted=core.TRUSTED_COMMON + ["C13: crash prefixes of recovery's remediation are outside the property's quantifier (DESIGN.md section 8, second observation)",
                                        "geometries with max_l = 0 write an unparseable parity header (DESIGN.md section 8); the closure uses max_l >= 1"])
