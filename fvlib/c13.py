"""C13 - recovery and cancel leave at most the resumable session pending.  Proof: props/C13.v.
Correspondence + oracle: the ring closure (exclusive / none-clears / cancel-clears / sound / complete / protected / idempotent in every reachable state)."""
import random
from . import core, c05, session


def fault_part(chk):
    """a device operation of try_recover fails once (the flash works again afterwards): whatever the failed call answers, the
       session must still be there - the next call returns it and its two slots still read in progress"""
    rnd = random.Random(chk.seed + 13)
    bases = []
    while len(bases) < (8 if chk.quick() else 80):
        b = session.build_delivery(rnd, small=True, with_history=rnd.random() < 0.5)
        if b.meta["cap"] >= 1 and len(b.meta["seq"]) >= 2:
            bases.append(b)
    refs = []
    for b in bases:
        me = b.meta
        cut = me["start_op"] + 1 + rnd.randint(1, max(1, len(me["seg_ops"]) - 1))
        s = session.Scn(b.ns, b.slot, b.blk)
        s.ops = list(b.ops[:cut]) + ["drop"]
        s.meta = {"rec": s.add("recover")}; s.add("hdrs")
        refs.append(s)
    lines, impl, outs = session.run(chk, refs, stream="recover-fault-ref")
    cases = []
    for s, out in zip(refs, outs):
        if len(out) != len(s.ops) or not out[s.meta["rec"]][0].startswith("some"):
            continue
        nops = out[s.meta["rec"]].nops
        for k in (range(nops) if nops <= 12 or not chk.quick() else sorted(rnd.sample(range(nops), 12))):
            t = session.Scn(s.ns, s.slot, s.blk)
            t.ops = list(s.ops[:s.meta["rec"]]) + ["fail %d" % k]
            t.meta = {"k": k, "r1": t.add("recover"), "h1": t.add("hdrs")}; t.add("drop")
            t.meta["r2"] = t.add("recover"); t.meta["h2"] = t.add("hdrs")
            t.meta["ref_hdrs"] = out[s.meta["rec"] + 1][0]
            cases.append(t)
    clines, cimpl, couts = session.run(chk, cases, stream="recover-fault")
    nt = []
    for t, l, raw, out in zip(cases, clines, cimpl, couts):
        if len(out) != len(t.ops):
            chk.failures.append(core.Failure("harness produced no / truncated result", "session", "matrix", l, raw, key="crash")); break
        r1, r2 = out[t.meta["r1"]][0], out[t.meta["r2"]][0]
        if r1 == "panic" or r2 == "panic":
            chk.failures.append(core.Failure("try_recover panics when device operation %d fails once" % t.meta["k"], "session", "matrix", l, raw[:2000], key="c13"))
        elif not r2.startswith("some"):
            chk.failures.append(core.Failure("device operation %d of try_recover failed once (answer: %s); the next try_recover returns %s although the update was started and neither completed nor cancelled" % (t.meta["k"], r1, r2), "session", "matrix", l, raw[:2000], key="c13"))
        elif out[t.meta["h2"]][0] != t.meta["ref_hdrs"]:
            chk.failures.append(core.Failure("device operation %d of try_recover failed once: the headers after the next try_recover differ from those after a fault-free one" % t.meta["k"], "session", "matrix", l, raw[:2000], key="c13"))
        nt.append(l)
        if chk.too_many(): break
    chk.note_cases("recover-fault", clines, nt, sample_n=1, dist={"cases": len(clines)})


def run(chk):
    chk.prove()
    c05.closure_part(chk, ("c13",))
    fault_part(chk)
    return chk.finish(level="proof",
        rule="recover-fault: partial deliveries, one device operation of try_recover failing once (every operation; sampled when more than 12), then try_recover again: the session is returned and the headers equal those after a fault-free recovery; ring-closure (see C05): from every reachable state recover, recover twice, recover+complete, cancel, cancel twice and the crash prefixes of cancel are executed on the real SlotManager; "
             "the returned session's slots are observed through where its fragment and final marks land; non-trivial/distinct = distinct states",
        trusted=core.TRUSTED_COMMON + ["C13: crash prefixes of recovery's remediation are outside the property's quantifier (DESIGN.md section 8, second observation)",
                                        "geometries with max_l = 0 write an unparseable parity header (DESIGN.md section 8); the closure uses max_l >= 1"])
