"""C15 - accepted geometries fit; the promised loss capacity is delivered.
Proof: props/C15.v.  Correspondence: `session` stream (geometry classes; capacity per fragment size; behaviour at L and L+1 losses).
Oracle: acceptance predicate from the property text, empty operation log on rejection, parity header count vs the README formula,
outcomes at exactly L / L+1 missing fragments."""
import random
from . import core, session, ts004

U32 = [0, 1, 2, 255, 256, 257, 16383, 16384, 16385, 65535, 65536, 0x7FFFFFFF, 0xFFFFFFFF]


def accept(slot, sz, n):
    return 1 <= sz <= 256 and 1 <= n <= 16384 and n * sz <= slot - session.DRO


def geometry_cases(rnd, quick):
    scns = []
    slots = [(17664, 256), (17920, 256), (19712, 256), (21504, 512), (32768, 4096), (65536, 4096)] + ([] if quick else [(262144, 4096), (1048576, 65536)])
    for slot, blk in slots:
        room = slot - session.DRO
        pairs = set((a, b) for a in U32 for b in U32)
        for sz in (1, 2, 3, 7, 64, 100, 255, 256):      # products around the slot limit
            k = room // sz
            pairs |= {(sz, k - 1), (sz, k), (sz, k + 1), (k, sz), (k + 1, sz)}
        for _ in range(40 if quick else 400):
            pairs.add((rnd.randint(0, 300), rnd.randint(0, 20000)))
        for sz, n in sorted(pairs):
            if sz < 0 or n < 0 or sz > 0xFFFFFFFF or n > 0xFFFFFFFF:
                continue
            s = session.Scn(4, slot, blk)
            s.cls = "geometry"
            s.meta = {"sz": sz, "n": n, "kind": "geometry"}
            s.add("start %d %d" % (sz, n)); s.add("hdrs")
            scns.append(s)
    return scns


def capacity_cases(rnd, quick):
    scns = []
    slots = [(17664, 256), (19712, 256), (32768, 4096)] + ([(262144, 4096)] if True else [])
    for slot, blk in slots:
        for sz in range(1, 257) if (not quick or slot != 262144) else range(1, 257, 5):
            n = max(1, min(3, (slot - session.DRO) // sz))
            s = session.Scn(4, slot, blk)
            s.meta = {"sz": sz, "n": n, "kind": "capacity"}
            s.add("start %d %d" % (sz, n)); s.add("hdrs")
            scns.append(s)
    return scns


def loss_cases(rnd, quick):
    """exactly L and L+1 data fragments missing"""
    scns = []
    for _ in range(60 if quick else 600):
        sz = rnd.choice([40, 48, 68, 100, 128, 200, 256, 17, 8])
        blk = 256
        extra = rnd.choice([256, 512, 768, 1024, 1536, 2048, 3072]) if quick else rnd.choice([256, 1024, 2048, 4096, 4096, 6144] + ([8192] if rnd.random() < 0.1 else []))   # the extracted model needs ~l^3 steps: capacities up to ~300
        slot = session.DRO + extra
        L = session.max_l(slot, sz)
        room = (slot - session.DRO) // sz
        if L < 1 or room < L + 2:
            continue
        n = min(room, L + rnd.choice([2, 3, 5, 9]))
        img = ts004.make_image(rnd, n, sz)
        for nl in (L, L + 1):
            lost = sorted(rnd.sample(range(1, n + 1), nl))
            have = [i for i in range(1, n + 1) if i not in lost]
            coded = list(range(n + 1, n + 1 + nl + 6))
            seq = have + coded + lost[:2] + coded[:4] + lost[2:]          # late data brings the missing count down
            s = session.Scn(4, slot, blk)
            s.meta = dict(n=n, sz=sz, cap=L, img=img, seq=seq, mode="L" if nl == L else "L+1", lost=lost, ffr=False, kind="loss")
            s.meta["fb_before"] = s.add("fb"); s.meta["fbvalid_before"] = s.add("validfb")
            s.meta["start_op"] = s.add("start %d %d" % (sz, n))
            s.meta["seg_ops"] = [s.add(session.seg_op(img, n, sz, i, False)) for i in seq]
            s.meta["done_op"] = s.add("done"); s.meta["bl_op"] = s.add("bl"); s.meta["valid_op"] = s.add("validbl")
            s.meta["dump_op"] = s.add("dumpbl %x %d" % (session.DRO, n * sz)); s.meta["fb_op"] = s.add("fb"); s.meta["fbvalid_after"] = s.add("validfb")
            s.meta["hdrs_op"] = s.add("hdrs")
            scns.append(s)
    return scns


def max_capacity_part(chk, rnd):
    """the largest capacity the search can return (2047): a 512 KiB slot, exactly 2047 data fragments lost.  The extracted model
       needs ~l^3 steps, so this runs on the release build of the crate against the oracle alone."""
    scns = []
    for _ in range(1 if chk.quick() else 3):
        slot, blk, sz = 524288, 4096, rnd.choice([8, 4, 16])
        L = session.max_l(slot, sz)
        n = L + rnd.randint(3, 60)
        img = ts004.make_image(rnd, n, sz)
        lost = sorted(rnd.sample(range(1, n + 1), L))
        seq = [i for i in range(1, n + 1) if i not in set(lost)] + list(range(n + 1, n + 1 + L + 14))
        s = session.Scn(4, slot, blk)
        s.meta = dict(n=n, sz=sz, cap=L, img=img, seq=seq, mode="L", lost=lost, ffr=False, kind="loss")
        s.meta["fb_before"] = s.add("fb"); s.meta["fbvalid_before"] = s.add("validfb")
        s.meta["start_op"] = s.add("start %d %d" % (sz, n))
        s.meta["seg_ops"] = [s.add(session.seg_op(img, n, sz, i, False)) for i in seq]
        s.meta["done_op"] = s.add("done"); s.meta["bl_op"] = s.add("bl"); s.meta["valid_op"] = s.add("validbl")
        s.meta["dump_op"] = s.add("dumpbl %x %d" % (session.DRO, n * sz)); s.meta["fb_op"] = s.add("fb"); s.meta["fbvalid_after"] = s.add("validfb")
        s.meta["hdrs_op"] = s.add("hdrs")
        scns.append(s)
    lines, impl, outs = session.run(chk, scns, variant="matrix-rel", stream="session-max-capacity", with_model=False)
    for s, l, raw, out in zip(scns, lines, impl, outs):
        if len(out) != len(s.ops):
            chk.failures.append(core.Failure("harness produced no / truncated result (2047 lost fragments on a 512 KiB slot)", "session", "matrix-rel", l[:3000], raw[-400:], key="crash")); break
        for m_ in session.oracle_delivery(s, out)[:1]:
            chk.failures.append(core.Failure("with %d lost fragments (the capacity of a 512 KiB slot): %s" % (len(s.meta["lost"]), m_), "session", "matrix-rel", l[:3000] + " ...", raw[:1500], key="c15"))
    chk.note_cases("session-max-capacity[matrix-rel, oracle only]", [l[:200] for l in lines], [l[:200] for l in lines], sample_n=0, dist={"L": [s.meta["cap"] for s in scns]})


def naive_capacity_part(chk, rnd):
    """single-erasure back-end: the parity header written by start_update announces min((slot - data offset) / size, 16384)
       fragments for every accepted geometry, incl. the largest fragment count, and parses"""
    from . import v1
    scns, want = [], []
    geos = [(17664, 1, 1), (17664, 8, 32), (17664 + 16384, 1, 16384), (17664 + 16384, 1, 16383), (17408 + 40000, 2, 16384), (17408 + 40000, 40, 1000), (20480, 256, 12), (20480, 100, 30)]
    for slot, sz, n in geos + [(session.DRO + rnd.choice([512, 4096, 20000]), rnd.choice([1, 3, 40, 128]), None) for _ in range(10 if chk.quick() else 200)]:
        slot = -(-slot // 256) * 256
        room = (slot - session.DRO) // sz
        if room < 1: continue
        if n is None: n = rnd.randint(1, min(room, 16384))
        if n > room or n > 16384: continue
        s = session.Scn(4, slot, 256)
        s.add("start %d %d" % (sz, n)); s.add("hdrs")
        scns.append(s); want.append(min(room, 16384))
    lines = [s.line() for s in scns]
    impl = [v1.STRIP.sub("", x) for x in core.run_stream(core.build_harness("naive"), "session", lines)]
    for s, l, raw, w in zip(scns, lines, impl, want):
        out = session.parse_out(raw)
        if len(out) != 2:
            chk.failures.append(core.Failure("harness produced no / truncated result", "session", "naive", l, raw, key="crash")); break
        if not out[0][0].startswith("ok"):
            chk.failures.append(core.Failure("[single-erasure back-end] start_update on an acceptable geometry returned %s" % out[0][0], "session", "naive", l, raw[:800], key="c15")); continue
        par = [bytes.fromhex(h) for h in out[1][0].split(",") if h != "-" and bytes.fromhex(h)[0] == 1]
        if not par:
            chk.failures.append(core.Failure("[single-erasure back-end] no parseable parity header after start_update", "session", "naive", l, raw[:800], key="c15"))
        elif int.from_bytes(par[0][12:16], "little") != w:
            chk.failures.append(core.Failure("[single-erasure back-end] parity header announces %d fragments, the slot holds %d" % (int.from_bytes(par[0][12:16], "little"), w), "session", "naive", l, raw[:800], key="c15"))
    chk.note_cases("naive-capacity[oracle only]", lines, lines, sample_n=1, dist={"cases": len(lines)})
    try:
        chk.correspond("naive-capacity", "naive", lines, impl, core.run_stream(core.build_fvm(), "naive", lines))
    except core.BuildError as e:
        chk.broken.append(("correspondence", "naive-capacity[model build]", {"detail": str(e)[-1000:]}))


def run(chk):
    chk.prove()
    rnd = random.Random(chk.seed)
    max_capacity_part(chk, random.Random(chk.seed + 15))
    naive_capacity_part(chk, random.Random(chk.seed + 151))
    scns = geometry_cases(rnd, chk.quick()) + capacity_cases(rnd, chk.quick()) + loss_cases(rnd, chk.quick())
    # losses repaired by coded fragments with high numbers / wire indices beyond 16384 (every coded fragment counts towards the rank)
    from . import c07
    for _ in range(8 if chk.quick() else 80):
        for t in c07.twin_scenarios(rnd, True, base=c07.high_number_base(rnd), positions=lambda npos: []):
            if t.meta["tag"] == "ref":
                t.meta["kind"] = "loss"; t.meta["mode"] = "L"; scns.append(t)
    lines, impl, outs = session.run(chk, scns, stream="session-geometry")
    nt, dist = [], {"geometry": 0, "accepted": 0, "rejected": 0, "capacity": 0, "loss_L": 0, "loss_L+1": 0, "L_values": {}}
    for s, l, raw, out in zip(scns, lines, impl, outs):
        if len(out) != len(s.ops):
            chk.failures.append(core.Failure("harness produced no / truncated result", "session", "matrix", l, raw, key="crash")); break
        kind = s.meta["kind"]
        msgs = []
        if kind in ("geometry", "capacity"):
            sz, n = s.meta["sz"], s.meta["n"]
            head, lg = out[0]
            ok = accept(s.slot, sz, n)
            dist["geometry" if kind == "geometry" else "capacity"] += 1
            dist["accepted" if ok else "rejected"] += 1
            if head == "panic":
                msgs.append("start_update(%d, %d) on a %d-byte slot panics" % (sz, n, s.slot))
            elif ok != head.startswith("ok"):
                msgs.append("start_update(%d, %d) on a %d-byte slot returned %s; a geometry is acceptable iff 1<=size<=256, 1<=count<=16384, size*count <= slot-0x4400" % (sz, n, s.slot, head))
            if not ok and lg:
                msgs.append("rejected geometry (%d, %d) touched the flash: %s" % (sz, n, lg[:3]))
            if ok and head.startswith("ok"):
                hd = out[1][0].split(",")
                par = [bytes.fromhex(h) for h in hd if h != "-" and bytes.fromhex(h)[0] == 1]
                L = session.max_l(s.slot, sz); doc = session.documented_capacity(s.slot, sz)
                if L >= 1:
                    if not par:
                        msgs.append("no parseable parity header after start_update(%d, %d)" % (sz, n))
                    else:
                        cnt = int.from_bytes(par[0][12:16], "little")
                        if cnt < doc:
                            msgs.append("parity capacity %d persisted for size %d on a %d-byte slot is below the documented capacity %d" % (cnt, sz, s.slot, doc))
                        if cnt != L:
                            msgs.append("parity capacity %d persisted, the largest l < 2048 that fits is %d (size %d, slot %d)" % (cnt, L, sz, s.slot))
                nt.append(l)
        else:
            dist["loss_" + s.meta["mode"]] += 1
            dist["L_values"][s.meta["cap"]] = dist["L_values"].get(s.meta["cap"], 0) + 1
            msgs += session.oracle_delivery(s, out)
            nt.append(l)
        for m_ in msgs:
            chk.failures.append(core.Failure(m_, "session", "matrix", l, raw[:2000], key="c15"))
        if chk.too_many(): break
    chk.note_cases("session-geometry", lines, nt, sample_n=2, dist=dist)
    return chk.finish(level="proof",
        rule="geometry: (size, count) over u32 boundary classes x products around the slot limit x slot sizes 17664 B .. 64 KiB (thorough: 256 KiB, 1 MiB); capacity: every size 1..256 at several slot sizes incl. 256 KiB; "
             "loss: exactly L and L+1 data fragments missing (L = persisted capacity, 1 <= L <= ~70; thorough up to several hundred), late data bringing the count down; naive-capacity: parity header of the single-erasure back-end for accepted geometries up to 16384 fragments; losses repaired by coded fragments numbered 8375 .. 30000; max-capacity: a 512 KiB slot whose capacity is the maximum 2047, exactly 2047 fragments lost (release build, oracle only - the model needs ~l^3 steps); non-trivial = accepted geometries and loss scenarios; distinct by case text",
        trusted=core.TRUSTED_COMMON + ["C15: slot sizes below 4 GiB (the code compares in u32)"])
