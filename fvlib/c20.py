"""C20 - deprecated manager: ring placement is oldest-first and writes stay in-slot.
Proof: props/C20.v (find_oldest on every consistent ring, every slot count, incl. the 2^32 wrap).
Correspondence: `orig` stream (ring states, app_boot_status, fragment writes) against Orig.v / V1.v.
Oracle: placement and sequence numbers computed from the property text; resumed pair; address log against slot bounds."""
import random
from . import core, session, v1, ts004

M = 0xFFFFFFFF


def nxt(s):
    t = (s + 1) & 0xFFFFFFFF
    return 0 if t == M else t


def hdr(kind, seq, sz=8, n=2, ext=0x44444444, it=0x11111111, bo=0xABCD1234):
    return b"".join(x.to_bytes(4, "little") for x in [kind, seq, sz, n, ext, it, bo])


def ring_cases():
    scns = []
    slot, blk = 17664, 256
    for N in (3, 4, 5, 6):
        for f in range(0, N + 1):
            for p in range(N):
                if f == 0 and p > 0: continue
                for s0 in (0, 7, 0x7FFFFFFF, 0xFFFFFFFE - f, 0xFFFFFFFE - max(0, f - 2), 0xFFFFFFFE, 0xFFFFFFFC):
                    seqs, s = [], s0
                    for k in range(f):
                        seqs.append(s); s = nxt(s)
                    # status of the existing slots: all complete, or some of them still in progress (stale sessions that the
                    # application status call must abort when it resumes the newest pair)
                    stales = [set()]
                    if f >= 2 and s0 in (7, 0xFFFFFFFC):
                        stales += [{0, 1}, {f - 2, f - 1}, set(range(f))]
                    for stale in stales:
                        sc = session.Scn(N, slot, blk)
                        for k, q in enumerate(seqs):
                            h = hdr(k % 2, q, ext=0xFFFFFFFF, it=0xFFFFFFFF, bo=0xFFFFFFFF) if k in stale else hdr(k % 2, q)
                            sc.add("raw %x %s" % (((p + k) % N) * slot, h.hex()))
                        sc.meta = {"N": N, "f": f, "p": p, "seqs": seqs, "kind": "ring", "stale": sorted(stale)}
                        sc.meta["start"] = sc.add("start 8 2"); sc.meta["hdrs"] = sc.add("hdrs")
                        sc.meta["rec"] = sc.add("recover"); sc.meta["hdrs2"] = sc.add("hdrs")
                        scns.append(sc)
    return scns


def status_cases():
    """app_boot_status on its own (no start before it): every consistent ring state with in-progress headers at chosen positions -
       the newest pair, only the newest slot, the oldest slot, all, a lone first header (first update interrupted between its two
       header writes)"""
    scns = []
    slot, blk = 17664, 256
    for N in (3, 4, 5, 6):
        for f in range(1, N + 1):
            for p in range(N):
                for s0 in (7, 0xFFFFFFFE - max(0, f - 2)):
                    seqs, s = [], s0
                    for k in range(f):
                        seqs.append(s); s = nxt(s)
                    sets = [set(), {f - 1}, {0}, set(range(f))]
                    if f >= 2: sets += [{f - 2, f - 1}, {f - 2}]
                    if f >= 4: sets += [{0, 1, f - 2, f - 1}, {0, 1}]
                    seen = []
                    for ipset in sets:
                        if ipset in seen: continue
                        seen.append(ipset)
                        sc = session.Scn(N, slot, blk)
                        for k, q in enumerate(seqs):
                            h = hdr(k % 2, q, ext=0xFFFFFFFF, it=0xFFFFFFFF, bo=0xFFFFFFFF) if k in ipset else hdr(k % 2, q)
                            sc.add("raw %x %s" % (((p + k) % N) * slot, h.hex()))
                        sc.meta = {"N": N, "f": f, "p": p, "seqs": seqs, "kind": "status", "ip": sorted(ipset)}
                        sc.meta["rec"] = sc.add("recover"); sc.meta["hdrs2"] = sc.add("hdrs")
                        scns.append(sc)
    return scns


def status_oracle(s, out):
    me = s.meta
    N, f, p, ipset = me["N"], me["f"], me["p"], set(me["ip"])
    resumable = f >= 2 and f % 2 == 0 and {f - 2, f - 1} <= ipset       # newest two: firmware then parity, both in progress
    pair = sorted([(p + f - 2) % N, (p + f - 1) % N]) if resumable else []
    rc = out[me["rec"]][0]
    msgs = []
    if resumable != rc.startswith("some"):
        msgs.append("app_boot_status on ring N=%d (%d used from position %d, in progress: %s) returned %s; the newest in-progress firmware/parity pair is %s" % (N, f, p, sorted(ipset), rc, pair or "absent"))
    hd = out[me["hdrs2"]][0].split(",")
    ip = sorted(i for i, h in enumerate(hd) if h != "-" and bytes.fromhex(h)[16:20] == b"\xff\xff\xff\xff")
    if rc.startswith("some") or rc == "none":
        if ip != (pair if rc.startswith("some") else []):
            msgs.append("app_boot_status on ring N=%d (%d used from position %d, in progress: %s) returned %s and leaves slots %s in progress (expected %s)" % (N, f, p, sorted(ipset), rc.split(":")[0], ip, pair if rc.startswith("some") else []))
    return msgs


def ring_oracle(s, out):
    me = s.meta
    N, f, p, seqs = me["N"], me["f"], me["p"], me["seqs"]
    msgs = []
    st = out[me["start"]]
    if not st[0].startswith("ok"):
        return ["start on a consistent ring (N=%d, %d slots used from position %d, first number %#x) returned %s" % (N, f, p, seqs[0] if seqs else 0, st[0])]
    ws = [(a // s.slot, int.from_bytes(d[4:8], "little"), d[0]) for k, a, ln, d, z in session.expand_log(st[1], s.blk) if k == "W" and a % s.slot == 0 and ln == 28]
    first = 0 if f == 0 else ((p + f) % N if f < N else p)
    second = (first + 1) % N
    s1 = 0 if f == 0 else nxt(seqs[-1]); s2 = nxt(s1)
    want = [(first, s1, 0), (second, s2, 1)]
    if ws != want:
        msgs.append("start on ring N=%d (used %d from position %d, newest number %s): headers written (slot, number, kind) = %s, expected %s" % (N, f, p, hex(seqs[-1]) if seqs else "-", ws, want))
    for k, a, ln, d, z in session.expand_log(st[1], s.blk):
        if a // s.slot not in (first, second):
            msgs.append("start touches slot %d, not one of the two positions after the newest" % (a // s.slot)); break
    # app_boot_status resumes exactly that pair and leaves nothing else in progress
    rc = out[me["rec"]][0]
    if not rc.startswith("some"):
        msgs.append("app_boot_status after a start returned %s instead of the in-progress pair" % rc)
    hd = out[me["hdrs2"]][0].split(",")
    ip = [i for i, h in enumerate(hd) if h != "-" and bytes.fromhex(h)[16:20] == b"\xff\xff\xff\xff"]
    if sorted(ip) != sorted([first, second]):
        msgs.append("after app_boot_status the in-progress slots are %s, the resumed pair is %s" % (ip, [first, second]))
    return msgs


def write_cases(rnd, quick):
    scns = []
    for _ in range(60 if quick else 2000):
        N = rnd.choice([3, 4, 5, 6]); blk = 256
        sz = rnd.choice([1, 2, 8, 16, 48, 100, 255, 256])
        slot = session.DRO + rnd.choice([256, 512, 1024, 4096, 20480])
        room = (slot - session.DRO) // sz
        n = max(1, min(room, rnd.choice([1, 2, 5, 16])))
        sc = session.Scn(N, slot, blk)
        for _ in range(rnd.randint(0, N)):                       # move the session around the ring (incl. the last slot)
            sc.add("start 8 2"); sc.add("drop")
        sc.meta = {"n": n, "sz": sz, "room": room, "kind": "write"}
        sc.meta["start"] = sc.add("start %d %d" % (sz, n))
        idxs = sorted(set([1, n, n + 1, n + room - 1, n + room, n + room + 1, n + 16384, n + 16385, n + rnd.randint(1, 16384)]))
        sc.meta["idx"] = idxs
        sc.meta["segs"] = [sc.add("seg %d %s" % (i, bytes(rnd.getrandbits(8) for _ in range(sz)).hex())) for i in idxs]
        scns.append(sc)
    return scns


def overlong_cases(rnd, quick):
    """fragments whose buffer is longer / shorter than the session's fragment size, at the last positions of the data and the
       parity slot (run on the release build as well: an accepted write must stay inside its slot in every build)"""
    scns = []
    for _ in range(30 if quick else 600):
        N = rnd.choice([3, 4, 5, 6]); blk = 256
        sz = rnd.choice([8, 16, 48, 100, 128, 256])
        slot = session.DRO + rnd.choice([256, 512, 1024, 4096])
        room = (slot - session.DRO) // sz
        if room < 1: continue
        n = max(1, min(room, rnd.choice([1, 2, 5, room])))
        sc = session.Scn(N, slot, blk)
        for _ in range(rnd.randint(0, N)):
            sc.add("start 8 2"); sc.add("drop")
        sc.meta = {"n": n, "sz": sz, "room": room, "kind": "write"}
        sc.meta["start"] = sc.add("start %d %d" % (sz, n))
        idxs, segs = [], []
        for i in (n, n + room, n + room - 1, 1):
            ln = sz + rnd.choice([1, 28, 64, -1, 300])
            if ln < 1: continue
            idxs.append(i); segs.append(sc.add("seg %d %s" % (i, bytes(rnd.getrandbits(8) for _ in range(ln)).hex())))
        sc.meta["idx"] = idxs; sc.meta["segs"] = segs
        scns.append(sc)
    return scns


def write_oracle(s, out):
    me = s.meta
    msgs = []
    st = out[me["start"]]
    if not st[0].startswith("ok"):
        return []
    ws = [a // s.slot for k, a, ln, d, z in session.expand_log(st[1], s.blk) if k == "W" and a % s.slot == 0 and ln == 28]
    if len(ws) != 2:
        return ["start wrote %d headers" % len(ws)]
    fw, par = ws
    for i, opi in zip(me["idx"], me["segs"]):
        head, lg = out[opi]
        own = fw if i <= me["n"] else par
        for k, a, ln, d, z in session.expand_log(lg, s.blk):
            # repairs triggered by the fragment legitimately write the firmware slot; the delivered fragment itself belongs to `own`
            if a // s.slot not in (fw, par) or (a + ln - 1) // s.slot != a // s.slot:
                msgs.append("fragment index %d (size %d, slot %d bytes): write at %#x (+%d) lands outside the session's slots / across a slot boundary" % (i, me["sz"], s.slot, a, ln))
            elif ln == me["sz"] and a // s.slot != own and a % s.slot >= session.DRO and not head.startswith("F") and "C" == head[:1] and len(lg) == 2:
                msgs.append("fragment index %d is stored in slot %d, it belongs to slot %d" % (i, a // s.slot, own))
    return msgs


def run(chk):
    chk.prove()
    rnd = random.Random(chk.seed)
    scns = ring_cases() + status_cases() + write_cases(rnd, chk.quick())
    lines, impl, outs = v1.run(chk, scns, "orig", stream="orig-ring")
    nt, dist = [], {"ring_states": 0, "write_scenarios": 0, "wrap_states": 0}
    for s, l, raw, out in zip(scns, lines, impl, outs):
        if len(out) != len(s.ops):
            chk.failures.append(core.Failure("harness produced no / truncated result", "orig", "matrix", l, raw[-300:], key="crash")); break
        if s.meta["kind"] == "ring":
            dist["ring_states"] += 1
            dist["wrap_states"] += any(q >= 0xFFFFFFF0 for q in s.meta["seqs"])
            msgs = ring_oracle(s, out)
        elif s.meta["kind"] == "status":
            dist["status_only"] = dist.get("status_only", 0) + 1
            msgs = status_oracle(s, out)
        else:
            dist["write_scenarios"] += 1
            msgs = write_oracle(s, out)
        for m_ in msgs[:1]:
            chk.failures.append(core.Failure(m_, "orig", "matrix", l, raw[:2000], key="c20"))
        nt.append(l)
        if chk.too_many(): break
    chk.note_cases("orig-ring", lines, nt, sample_n=2, dist=dist)
    # wrong-length buffers, overflow-checked and release builds (implementation + oracle: a refused or panicking call writes nothing)
    oscn = overlong_cases(rnd, chk.quick())
    olines = [s.line() for s in oscn]
    for variant in ("matrix", "matrix-rel"):
        oimpl = [v1.STRIP.sub("", x) for x in core.run_stream(core.build_harness(variant), "orig", olines)]
        for s, l, raw in zip(oscn, olines, oimpl):
            out = session.parse_out(raw)
            if len(out) != len(s.ops):
                chk.failures.append(core.Failure("harness produced no / truncated result", "orig", variant, l, raw[-300:], key="crash")); break
            for m_ in write_oracle(s, out)[:1]:
                chk.failures.append(core.Failure("[buffer length differs from the fragment size, %s build] %s" % ("release" if variant.endswith("rel") else "overflow-checked", m_), "orig", variant, l, raw[:2000], key="c20"))
        chk.note_cases("orig-wrong-length[%s]" % variant, olines, olines, sample_n=0, dist={"cases": len(olines)})
    chk.cov["exhaustive"] = False
    return chk.finish(level="proof",
        rule="orig-wrong-length: fragments whose buffer is longer / shorter than the fragment size at the last positions of the data and parity slots, overflow-checked and release builds (oracle only); orig-ring: EVERY consistent ring state for 3..6 slots (every fill level and rotation) with first sequence numbers 0, 7, 2^31-1 and values placing the 2^32-1 wrap at different points of the run; start, then app_boot_status; the same ring states with in-progress headers at chosen positions (newest pair, newest slot only, oldest, all, a lone first header) and app_boot_status alone: resumes exactly the newest in-progress firmware/parity pair, otherwise idle with nothing left in progress; "
             "write scenarios: fragment indices 1, n, n+1, around the parity capacity of the slot, n+16384 (+1), random, for sizes 1..256 and slots 17664 B .. 37888 B at every ring position incl. the last slot; non-trivial = every case; distinct by case text",
        trusted=core.TRUSTED_COMMON + ["C20: ring states are created by writing headers directly (raw) - the property quantifies over consistent ring states"])
