"""Shared `recon` stream: parity_reconstruct::Reconstructor over instrumented in-memory storages
(C02, C03, C09, C18).  Generator, parsing of result lines, implementation-side oracles."""
import random
from . import core, ts004


class Case:
    __slots__ = ("n", "cap", "vb", "bs", "fail", "tbl", "blocks", "X", "cls", "base")
    def line(self):
        return "%d %d %d %d %s|%s|%s" % (self.n, self.cap, self.vb, self.bs, "-" if self.fail is None else self.fail,
                                         ",".join("%d:%x" % (i, r) for i, r in self.tbl.items()),
                                         ",".join("%d:%x" % (i, b) for i, b in self.blocks))
    def row(self, idx):
        return (1 << idx) if idx < self.n else self.tbl.get(idx, 0)
    def enc(self, idx):
        r = self.row(idx); v = 0
        for j in range(self.n):
            if r >> j & 1:
                v ^= self.X[j]
        return v


def gen_case(rnd, nmax):
    c = Case()
    c.n = n = rnd.choice([1, 2, 3, 4, 5, 8, 9, 16, 17]) if rnd.random() < 0.3 else rnd.randint(1, nmax)
    c.bs = rnd.choice([1, 1, 2, 5, 48, 171, 200, 255, 256]) if n <= 24 else rnd.choice([1, 2, 5])
    c.vb = rnd.choice([8, 64, 256])
    c.cap = rnd.randint(0, min(n, c.vb))
    c.fail = None
    c.X = [rnd.getrandbits(8 * c.bs) for _ in range(n)]
    style = rnd.random()
    nrows = rnd.randint(0, 2 * n + 4)
    c.tbl = {}
    for k in range(nrows):
        if style < 0.35:            # LoRaWAN rows
            row = ts004.row_mask(k + 1, n) if n >= 1 else 0
        else:
            s = rnd.random()
            if s < 0.1: row = 0
            elif s < 0.5: row = rnd.getrandbits(n)
            elif s < 0.8: row = sum(1 << rnd.randrange(n) for _ in range(max(1, n // 2))) & ((1 << n) - 1)
            elif s < 0.9 and c.tbl: row = rnd.choice(list(c.tbl.values()))        # duplicate row
            else: row = (1 << rnd.randrange(n)) | (1 << rnd.randrange(n))
        c.tbl[n + k] = row
    lost = set(rnd.sample(range(n), rnd.randint(0, min(n, c.cap + 2))))
    have = [i for i in range(n) if i not in lost]
    coded = list(c.tbl.keys())
    mode = rnd.random()
    if mode < 0.3:
        seq = have + coded; c.cls = "data-then-coded"
    elif mode < 0.55:
        seq = have + coded; rnd.shuffle(seq); c.cls = "shuffled"
    elif mode < 0.7:
        seq = coded + have; c.cls = "coded-first"
    elif mode < 0.85:
        # data trickling between refusals: one coded block after every data block
        seq = []; c.cls = "trickle"
        pool = list(range(n)); rnd.shuffle(pool)
        for i in pool:
            seq.append(i)
            if coded: seq.append(rnd.choice(coded))
        seq += coded
    else:
        seq = have + coded + [rnd.choice(have + coded) for _ in range(rnd.randint(3, 12))] if (have or coded) else []
        rnd.shuffle(seq); c.cls = "heavy-dup"
    extra = [rnd.choice(seq) for _ in range(rnd.randint(0, 4))] if seq else []
    late = [i for i in lost if rnd.random() < 0.3]
    seq = seq + extra + late
    if rnd.random() < 0.2:
        seq += list(range(n))         # a full data pass at the end
    c.blocks = [(i, c.enc(i)) for i in seq]
    c.base = None
    return c


def gen_wide_case(rnd):
    """many unknowns: the number of missing blocks around the word boundaries of the bit rows (63..66, 72, 127..130, ...), dense rows"""
    c = Case()
    l = rnd.choice([63, 64, 65, 65, 66, 68, 72, 96, 127, 128, 129, 130, 134])
    c.n = n = l + rnd.choice([0, 1, 3, 20, 60])
    c.bs = rnd.choice([1, 2, 3])
    c.vb = 256
    c.cap = rnd.choice([l, l, l + 1, min(n, l + 7)])
    c.fail = None
    c.X = [rnd.getrandbits(8 * c.bs) for _ in range(n)]
    style = rnd.random()
    nrows = l + rnd.randint(8, 16)
    c.tbl = {}
    for k in range(nrows):
        c.tbl[n + k] = ts004.row_mask(k + 1, n) if style < 0.5 else rnd.getrandbits(n)
    if rnd.random() < 0.5:
        lost = set(rnd.sample(range(n), l))
    else:
        a = rnd.randint(0, n - l); lost = set(range(a, a + l))        # a contiguous outage
    have = [i for i in range(n) if i not in lost]
    coded = list(c.tbl.keys())
    seq = have + coded
    if rnd.random() < 0.3:
        # a late data block and a duplicate among the coded ones
        k = rnd.randrange(len(have), len(seq)); seq.insert(k, rnd.choice(sorted(lost))); seq.insert(k, rnd.choice(have or coded))
    c.cls = "wide"
    c.blocks = [(i, c.enc(i)) for i in seq]
    c.base = None
    return c


def parse(line):
    """result line -> dict(results, calls (list of event lists), data, done, used, l, badlen)"""
    p = line.split("|")
    if len(p) < 4:
        return None
    rs = p[0].split(",") if p[0] else []
    calls = [[e for e in c.split(",") if e] for c in p[1].split(";")]
    if calls and calls[-1] == []:
        calls.pop()
    data = [None if x == "-" else int(x, 16) for x in p[2].split(",")] if p[2] else []
    d, u, l = p[3].split("/")
    return {"results": rs, "calls": calls, "data": data, "done": d, "used": u, "l": int(l), "badlen": len(p) > 4}


def ev(e):
    """'ds3=ab' -> ('ds', 3, 0xab)"""
    if e == "F":
        return ("F", None, None)
    if e == "BADLEN":                   # marker of the instrumented storages: a buffer of the wrong length was passed (see oracle_c09)
        return ("BADLEN", None, None)
    kind = e[:2]
    if "=" in e:
        a, b = e[2:].split("=")
        return (kind, int(a), int(b, 16))
    return (kind, int(e[2:]), None)


# ------------------------------------------------------------------ oracles (independent of the Coq model)
def oracle_c02(c, r):
    """every block written to the data store equals the original; Done => store == X and len == n*bs"""
    out = []
    for call in r["calls"]:
        for e in call:
            k, i, v = ev(e)
            if k == "ds" and (i >= c.n or v != c.X[i]):
                out.append("data store of block %d holds %x, original is %x" % (i, v, c.X[i] if i < c.n else -1))
    for t, x in enumerate(r["results"]):
        if x.startswith("D"):
            if int(x[1:], 16) != c.n * c.bs:
                out.append("Done reports length %s, expected %x" % (x[1:], c.n * c.bs))
            if r["data"] != c.X:
                out.append("Done reported but the data store differs from the original blocks")
            break
    if "P" in r["results"]:
        out.append("panic in handle_block")
    return out


def oracle_c03(c, r):
    """Done exactly at full rank of the accepted rows; Done is stable and silent; refusal exact and silent"""
    out = []
    K = []
    done_seen = False
    stage2 = False
    stored = set()
    last_refusal = None
    for t, ((idx, _), res) in enumerate(zip(c.blocks, r["results"])):
        call = r["calls"][t] if t < len(r["calls"]) else []
        if done_seen:
            if not res.startswith("D"):
                out.append("call %d after Done returns %s" % (t, res))
            if call:
                out.append("call %d after Done performs storage operations %s" % (t, call[:3]))
            continue
        if res == "P" and c.fail is None:
            out.append("call %d (index %d) panics in a fault-free run%s" % (t, idx, " - after the refusal of call %d" % last_refusal if last_refusal is not None else ""))
            return out
        if res == "E" or res == "P":
            return out          # fault cases are C18's
        missing = c.n - len(stored)
        should_refuse = (not stage2) and idx >= c.n and missing > min(c.cap, c.vb)
        if (res == "T") != should_refuse:
            out.append("call %d (index %d, %d missing, capacity %d): result %s but refusal %s expected" % (t, idx, missing, c.cap, res, should_refuse))
        if res == "T":
            last_refusal = t
            if call:
                out.append("refused call %d performs storage operations" % t)
            continue
        if not stage2 and idx >= c.n:
            stage2 = True
        if not stage2 and idx < c.n:
            stored.add(idx)
        K.append(c.row(idx))
        full = ts004.gf2_rank(K) == c.n
        if res.startswith("D") != full:
            out.append("call %d: result %s but the accepted rows have rank %d of %d" % (t, res, ts004.gf2_rank(K), c.n))
        if res.startswith("D"):
            done_seen = True
    return out


def oracle_c09(c, r):
    """write-once storage contracts, checked on every storage call"""
    out = []
    sd, sp, sm = set(), set(), set()
    pend = None
    first_done = None
    for t, call in enumerate(r["calls"]):
        for e in call:
            k, i, v = ev(e)
            if k == "F":
                return out
            if pend is not None and not (k == "ms" and i == pend):
                out.append("parity store %d not followed by its matrix row (next: %s)" % (pend, e)); pend = None
            if k == "ds":
                if i >= c.n: out.append("data index %d out of range" % i)
                if i in sd: out.append("data block %d stored twice" % i)
                sd.add(i)
            elif k == "dg":
                if i not in sd: out.append("data block %d read before it was stored" % i)
            elif k == "ps":
                if i >= c.cap: out.append("parity index %d >= capacity %d" % (i, c.cap))
                if i in sp: out.append("parity block %d stored twice" % i)
                sp.add(i); pend = i
            elif k == "pg":
                if i not in sp: out.append("parity block %d read before it was stored" % i)
            elif k == "ms":
                if pend != i: out.append("matrix row %d stored without its parity block just before" % i)
                pend = None
                if i >= c.cap: out.append("row index %d >= capacity %d" % (i, c.cap))
                if i in sm: out.append("matrix row %d stored twice" % i)
                if v == 0 or v.bit_length() - 1 != i: out.append("matrix row %d = %x: own bit not the highest set bit" % (i, v))
                sm.add(i)
            elif k == "mg":
                if i not in sm: out.append("matrix row %d read before it was set" % i)
        if first_done is None and t < len(r["results"]) and r["results"][t].startswith("D"):
            first_done = t
            if sd != set(range(c.n)):
                out.append("Done reported with data blocks %s never stored" % sorted(set(range(c.n)) - sd)[:5])
    if pend is not None:
        out.append("parity store %d never followed by its matrix row" % pend)
    if r["badlen"]:
        out.append("a storage call was passed a buffer whose length is not the block size")
    return out


def nontrivial_key(c, r):
    """a case is non-trivial when it enters parity processing or is refused or completes"""
    rs = r["results"]
    tags = []
    if any(x.startswith("D") for x in rs): tags.append("done")
    if "T" in rs: tags.append("refusal")
    if any(e.startswith("ms") for call in r["calls"] for e in call): tags.append("pivot")
    if any(e.startswith("pg") for call in r["calls"] for e in call): tags.append("elim")
    return tags


GETS = __import__("re").compile(r"(?:dg|pg|mg)\d+,?")


def strip_gets(line):
    """the storage get calls of a result line removed (which blocks are read back, and in which order, is the subject of C09 only)"""
    parts = line.split("|")
    if len(parts) >= 2:
        parts[1] = ";".join(GETS.sub("", c).rstrip(",") for c in parts[1].split(";"))
    return "|".join(parts)


def canon_gets(line):
    """maximal runs of consecutive get calls inside one handle_block call sorted (the order in which stored blocks / rows are read
    back is not a subject of C09: every get must follow a store of its index, which the monitor checks on the implementation)"""
    parts = line.split("|")
    if len(parts) >= 2:
        calls = []
        for c in parts[1].split(";"):
            toks, run, out = [t for t in c.split(",") if t], [], []
            for t in toks:
                if t[:2] in ("dg", "pg", "mg"):
                    run.append(t)
                else:
                    out += sorted(run) + [t]; run = []
            calls.append(",".join(out + sorted(run)))
        parts[1] = ";".join(calls)
    return "|".join(parts)


def run_stream(chk, count, nmax, variant="matrix", with_model=True, gets_matter=True):
    """generates `count` fault-free cases, runs implementation and model; returns (cases, parsed results, fvh, fvm)"""
    rnd = random.Random(chk.seed)
    fvh = core.build_harness(variant)
    core.gen_consts(fvh)
    cases = [gen_case(rnd, nmax) for _ in range(count)]
    wide = [gen_wide_case(rnd) for _ in range(max(16, count // 120))]
    # the wide cases cost the model seconds each: spread them evenly so that the shards of a run stay balanced
    step = max(1, len(cases) // len(wide))
    for i, w in enumerate(wide):
        cases.insert(min(len(cases), i * (step + 1)), w)
    corpus = load_corpus()
    cases = corpus + cases
    lines = [c.line() for c in cases]
    impl = core.run_stream(fvh, "recon", lines)
    parsed = [parse(x) for x in impl]
    nt = []
    dist = {"done": 0, "refusal": 0, "pivot": 0, "elim": 0, "classes": {}}
    for c, l, r in zip(cases, lines, parsed):
        if r is None:
            continue
        tags = nontrivial_key(c, r)
        for t in tags: dist[t] += 1
        dist["classes"][c.cls] = dist["classes"].get(c.cls, 0) + 1
        if tags: nt.append(l)
    chk.note_cases("recon", lines, nt, dist={"reach_done": dist["done"], "contain_refusal": dist["refusal"], "store_pivot": dist["pivot"],
                                           "eliminate": dist["elim"], "arrival_classes": dist["classes"], "n_max": nmax})
    fvm = None
    if with_model:
        try:
            fvm = core.build_fvm()
            model = core.run_stream(fvm, "recon", lines)
            chk.correspond("recon", variant, lines, impl, model, soft=(canon_gets if gets_matter == "unordered" else None) if gets_matter else strip_gets)
        except core.BuildError as e:
            chk.broken.append(("correspondence", "recon[model build]", {"detail": str(e)[-1500:]}))
    return cases, lines, impl, parsed, fvh, fvm


def load_corpus():
    """the crate's own unit sequences (TestParity) and minimised boundary cases; always run first"""
    out = []
    def tp(nn, m):
        return (1 << m) if m < nn else ((m - nn) & ((1 << nn) - 1))
    def mk(n, cap, vb, bs, X, seq):
        c = Case(); c.n, c.cap, c.vb, c.bs, c.fail, c.X, c.cls, c.base = n, cap, vb, bs, None, X, "corpus", None
        c.tbl = {i: tp(n, i) for i in seq if i >= n}
        c.blocks = [(i, c.enc(i)) for i in seq]
        return c
    out.append(mk(4, 2, 8, 1, [1, 2, 3, 4], [0, 2, 9, 10, 14]))
    out.append(mk(4, 3, 8, 1, [1, 2, 3, 4], [0, 10, 14, 16, 19]))
    out.append(mk(4, 3, 8, 1, [1, 2, 3, 4], [0, 14, 9, 2, 10, 10]))
    out.append(mk(16, 8, 64, 1, list(range(16)), [0, 19, 1, 19, 2, 19, 3, 19, 4, 19, 5, 19, 6, 19, 7, 19]))
    out.append(mk(1, 1, 8, 1, [7], [1, 0, 0]))
    out.append(mk(3, 0, 8, 2, [1, 2, 3], [5, 0, 5, 1, 5, 2, 5]))
    return out
