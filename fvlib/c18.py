"""C18 - a failed storage / flash operation does not advance the reconstruction.
Abstract level: `recon` stream with one transient failure injected at every storage-operation index of a run,
the failed fragment re-delivered at once (model: MRecon.v).  Flash level: `session` stream with fail_at (see session.py)."""
import copy, random
from . import core, recon


def fault_cases(rnd, base_cases, base_parsed, per_case):
    out = []
    for c, r in zip(base_cases, base_parsed):
        if r is None:
            continue
        counts = [len(x) for x in r["calls"]]
        total = sum(counts)
        if total == 0:
            continue
        ks = list(range(total)) if total <= per_case else sorted(rnd.sample(range(total), per_case))
        for k in ks:
            acc = 0
            for call, cnt in enumerate(counts):
                if k < acc + cnt:
                    break
                acc += cnt
            f = copy.copy(c)
            f.fail = k
            f.blocks = c.blocks[:call + 1] + [c.blocks[call]] + c.blocks[call + 1:]
            f.base = (c, r, call, k - acc)
            out.append(f)
    return out


def in_finish(base_r, call, pos):
    """the failing operation lies in the back substitution of the completing call (after its matrix-row store)"""
    evs = base_r["calls"][call]
    ms = [i for i, e in enumerate(evs) if e.startswith("ms")]
    return base_r["results"][call].startswith("D") and bool(ms) and pos > ms[-1]


def run(chk):
    chk.prove()
    nbase, per_case, nmax = (250, 24, 24) if chk.quick() else (2500, 100, 48)
    # fault-free base runs (not counted twice: their coverage is recorded by run_stream)
    # which blocks are read back is not a subject of C18: get calls are compared softly; when they drift, the k-th storage
    # operation is a different operation on the two sides and the faulted runs are judged by the oracle alone
    cases, lines, impl, parsed, fvh, fvm = recon.run_stream(chk, nbase, nmax, gets_matter=False)
    rnd = random.Random(chk.seed + 1)
    fcs = fault_cases(rnd, cases, parsed, per_case)
    flines = [c.line() for c in fcs]
    fimpl = core.run_stream(fvh, "recon", flines)
    fparsed = [recon.parse(x) for x in fimpl]
    nt, kinds = [], {}
    known_seen = 0
    for c, l, raw, r in zip(fcs, flines, fimpl, fparsed):
        if r is None:
            chk.failures.append(core.Failure("harness produced no result (crash)", "recon", "matrix", l, raw, key="crash")); break
        bc, br, call, pos = c.base
        op = br["calls"][call][pos][:2]
        kinds[op] = kinds.get(op, 0) + 1
        nt.append(l)
        msgs = []
        if r["results"][call] != "E":
            msgs.append("call %d with the failing operation returned %s, not the error" % (call, r["results"][call]))
        want = br["results"][:call] + ["E"] + br["results"][call:]
        finish_fault = in_finish(br, call, pos)
        if r["results"] != want:
            msgs.append("after the failed operation and re-delivery the results are %s, the fault-free run gives %s" % (",".join(r["results"][call:call + 4]), ",".join(want[call:call + 4])))
        msgs += recon.oracle_c02(bc, r)
        if any(x.startswith("D") for x in br["results"]) and r["data"] != bc.X:
            msgs.append("fault-free run completes, faulted run ends with a data store that differs from the original")
        for m in msgs[:1]:
            key = "c18-finish" if finish_fault else "c18"
            if finish_fault: known_seen += 1
            chk.failures.append(core.Failure(m, "recon", "matrix", l, raw, key=key))
        if len([f for f in chk.failures if f.key == "c18"]) > 10: break
    chk.note_cases("recon-fault", flines, nt, dist={"failed_operation_kinds": kinds, "fault_cases": len(flines)})
    if fvm and not chk.drift:
        model = core.run_stream(fvm, "recon", flines)
        chk.correspond("recon-fault", "matrix", flines, fimpl, model)
    elif fvm:
        chk.notes.append("recon-fault: storage get calls drifted from the model's; the faulted runs are not compared with the model (oracle only)")
    from . import session
    session.c18_part(chk)
    return chk.finish(level="proof",
        rule="recon-fault stream: for each fault-free base run, one transient failure at every storage-operation index (all indices when the run has <= %d operations, else a sample), "
             "the failed fragment re-delivered immediately; compared with the fault-free run; session-fault stream: the same on the flash-backed session (every flash operation, reads and writes); "
             "every fault case is non-trivial (it exercises an error path); distinct by case text" % per_case,
        trusted=core.TRUSTED_COMMON + ["C18: failures leave the medium unchanged (the property's own assumption), in SimNor, in the instrumented storages and in the model"])
