"""C18 - a failed storage / flash operation does not advance the reconstruction.
Abstract level: `recon` stream with one transient failure injected at every storage-operation index of a run,
the failed fragment re-delivered at once (model: MRecon.v).  Flash level: `session` stream with fail_at (see session.py)."""
import copy, random
from . import core, recon


def fault_cases(rnd, base_cases, base_parsed, per_case):
    out = []
    for c, r in zip(base_cases, base_parsed):
        if r is None:
            continue
        counts = [len(x) for x in r["calls"]]
        total = sum(counts)
        if total == 0:
            continue
        ks = list(range(total)) if total <= per_case else sorted(rnd.sample(range(total), per_case))
        for k in ks:
            acc = 0
            for call, cnt in enumerate(counts):
                if k < acc + cnt:
                    break
                acc += cnt
            f = copy.copy(c)
            f.fail = k
            f.blocks = c.blocks[:call + 1] + [c.blocks[call]] + c.blocks[call + 1:]
            f.base = (c, r, call, k - acc)
            out.append(f)
    return out


def in_finish(base_r, call, pos):
    """the failing operation lies in the back substitution of the completing call (after its matrix-row store)"""
    evs = base_r["calls"][call]
    ms = [i for i, e in enumerate(evs) if e.startswith("ms")]
    return base_r["results"][call].startswith("D") and bool(ms) and pos > ms[-1]


def naive_fault_part(chk):
    """single-erasure back-end at flash level: one device operation of a handle_segment call fails once, the fragment is delivered
       again; the run must then go on as the peeling decoder prescribes and end with the image (implementation + oracle: the
       V1 driver of the model has no fault injection)"""
    from . import v1, session
    rnd = random.Random(chk.seed + 1818)
    fvh = core.build_harness("naive")
    bases = [v1.build(rnd, "naive", with_prior=False) for _ in range(10 if chk.quick() else 150)]
    refraw = core.run_stream(fvh, "session", [b.line() for b in bases])
    cases = []
    for b, raw in zip(bases, refraw):
        ro = session.parse_out(raw)
        if len(ro) != len(b.ops):
            continue
        me = b.meta
        for j, opi in enumerate(me["seg_ops"]):
            nops = ro[opi].nops
            for k in (range(nops) if nops <= 6 else sorted(rnd.sample(range(nops), 6))):
                s = session.Scn(b.ns, b.slot, b.blk)
                m = dict(me); m["seg_ops"] = []
                m["start_op"] = s.add(b.ops[me["start_op"]])
                for jj, oi in enumerate(me["seg_ops"]):
                    if jj == j:
                        s.add("fail %d" % k); m["failed_op"] = s.add(b.ops[oi])
                    m["seg_ops"].append(s.add(b.ops[oi]))
                # one full pass of the data fragments at the end: whatever the fault delayed, the session can then complete
                m["tail_ops"] = [s.add(session.seg_op(me["img"], me["n"], me["sz"], i, me["ffr"])) for i in range(1, me["n"] + 1)]
                m["done_op"] = s.add("done"); m["bl_op"] = s.add("bl"); m["hdrs_op"] = s.add("hdrs")
                for i in range(b.ns):
                    s.add("dump %d %x %d" % (i, session.DRO, me["n"] * me["sz"]))
                m["fail"] = (j, k)
                s.meta = m
                cases.append(s)
    lines = [c.line() for c in cases]
    impl = [v1.STRIP.sub("", x) for x in core.run_stream(fvh, "session", lines)]
    nt, found = [], 0
    for c, l, raw in zip(cases, lines, impl):
        out = session.parse_out(raw)
        if len(out) != len(c.ops):
            chk.failures.append(core.Failure("harness produced no / truncated result", "session", "naive", l, raw[-300:], key="crash")); break
        f = out[c.meta["failed_op"]][0]
        msgs = []
        if f == "panic":
            msgs.append("handle_segment panics when device operation %d of the call fails" % c.meta["fail"][1])
        elif f.startswith("err"):
            # the property asks that the session carries on and that its completion is correct - not that completion is reported
            # at the earliest possible fragment (a repair interrupted by the fault is only resumed by the next new fragment)
            if any(h == "panic" for h, _ in out):
                msgs.append("a later call panics")
            dn = out[c.meta["done_op"]][0]
            if not dn.startswith("ok"):
                msgs.append("after one full pass of the data fragments the final check returns %s" % dn)
            elif out[c.meta["hdrs_op"] + 1 + int(dn[3:])][0] != c.meta["img"].hex():
                msgs.append("the completed slot differs from the transmitted image")
            for opi in c.meta["seg_ops"] + c.meta["tail_ops"]:
                cn = session.counters_of(out[opi][0])
                if cn and (cn[0] > c.meta["n"] or cn[2] == "panic"):
                    msgs.append("received count %s of %d fragments" % (cn[0], c.meta["n"])); break
        else:
            continue          # the armed operation index was not reached by this call (fewer operations than in the reference run)
        for m_ in msgs[:1]:
            found += 1
            chk.failures.append(core.Failure("[single-erasure back-end] device operation %d of the call for fragment #%d failed once, fragment delivered again: %s" % (c.meta["fail"][1], c.meta["fail"][0], m_), "session", "naive", l, raw[:2000], key="c18"))
        nt.append(l)
        if found > 10: break
    chk.note_cases("naive-fault[oracle only]", lines, nt, sample_n=1, dist={"cases": len(lines)})


def run(chk):
    chk.prove()
    nbase, per_case, nmax = (250, 24, 24) if chk.quick() else (2500, 100, 48)
    # fault-free base runs (not counted twice: their coverage is recorded by run_stream)
    # which blocks are read back is not a subject of C18: get calls are compared softly; when they drift, the k-th storage
    # operation is a different operation on the two sides and the faulted runs are judged by the oracle alone
    cases, lines, impl, parsed, fvh, fvm = recon.run_stream(chk, nbase, nmax, gets_matter=False)
    rnd = random.Random(chk.seed + 1)
    # faults in the wide cases (63..134 unknowns) are sampled thinly: each costs the model seconds
    _keep = [(c, r) for c, r in zip(cases, parsed) if c.cls != "wide"]
    _wide = [(c, r) for c, r in zip(cases, parsed) if c.cls == "wide"][:4]
    fcs = fault_cases(rnd, [c for c, _ in _keep], [r for _, r in _keep], per_case) + fault_cases(rnd, [c for c, _ in _wide], [r for _, r in _wide], 3)
    flines = [c.line() for c in fcs]
    fimpl = core.run_stream(fvh, "recon", flines)
    fparsed = [recon.parse(x) for x in fimpl]
    nt, kinds = [], {}
    known_seen = 0
    for c, l, raw, r in zip(fcs, flines, fimpl, fparsed):
        if r is None:
            chk.failures.append(core.Failure("harness produced no result (crash)", "recon", "matrix", l, raw, key="crash")); break
        bc, br, call, pos = c.base
        op = br["calls"][call][pos][:2]
        kinds[op] = kinds.get(op, 0) + 1
        nt.append(l)
        msgs = []
        if r["results"][call] != "E":
            msgs.append("call %d with the failing operation returned %s, not the error" % (call, r["results"][call]))
        want = br["results"][:call] + ["E"] + br["results"][call:]
        finish_fault = in_finish(br, call, pos)
        if r["results"] != want:
            msgs.append("after the failed operation and re-delivery the results are %s, the fault-free run gives %s" % (",".join(r["results"][call:call + 4]), ",".join(want[call:call + 4])))
        msgs += recon.oracle_c02(bc, r)
        if any(x.startswith("D") for x in br["results"]) and r["data"] != bc.X:
            msgs.append("fault-free run completes, faulted run ends with a data store that differs from the original")
        for m in msgs[:1]:
            key = "c18-finish" if finish_fault else "c18"
            if finish_fault: known_seen += 1
            chk.failures.append(core.Failure(m, "recon", "matrix", l, raw, key=key))
        if len([f for f in chk.failures if f.key == "c18"]) > 10: break
    chk.note_cases("recon-fault", flines, nt, dist={"failed_operation_kinds": kinds, "fault_cases": len(flines)})
    if fvm and not chk.drift:
        model = core.run_stream(fvm, "recon", flines)
        chk.correspond("recon-fault", "matrix", flines, fimpl, model)
    elif fvm:
        chk.notes.append("recon-fault: storage get calls drifted from the model's; the faulted runs are not compared with the model (oracle only)")
    from . import session
    session.c18_part(chk)
    naive_fault_part(chk)
    return chk.finish(level="proof",
        rule="naive-fault: deliveries of the single-erasure back-end with one device operation of a handle_segment call failing once and the fragment delivered again (no later panic, counters within range, after a final full data pass the final check succeeds with the exact image; oracle only); recon-fault stream: for each fault-free base run, one transient failure at every storage-operation index (all indices when the run has <= %d operations, else a sample), "
             "the failed fragment re-delivered immediately; compared with the fault-free run; session-fault stream: the same on the flash-backed session (every flash operation, reads and writes); "
             "every fault case is non-trivial (it exercises an error path); distinct by case text" % per_case,
        trusted=core.TRUSTED_COMMON + ["C18: failures leave the medium unchanged (the property's own assumption), in SimNor, in the instrumented storages and in the model"])
