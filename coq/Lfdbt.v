From Coq Require Import List NArith Arith Bool Lia.
Import ListNotations.
Open Scope N_scope.

Definition prbs23 (x : N) : N :=
  let b0 := N.land x 1 in let b1 := N.shiftr (N.land x 32) 5 in (x / 2) + N.shiftl (N.lxor b0 b1) 22.
Definition is_pow2 (m : N) : bool := negb (m =? 0) && (N.land m (m - 1) =? 0).

(* one draw of the rejection loop *)
Fixpoint draw (fuel : nat) (x M md : N) : option (N * N) :=
  match fuel with O => None | S f => let x' := prbs23 x in let r := x' mod md in if r <? M then Some (x', r) else draw f x' M md end.

(* ---- TS004 reference: M/2 draws, repeats allowed; result = the list of drawn positions ---- *)
Fixpoint ref_fill (fuel : nat) (k : nat) (x M md : N) : option (list N) :=
  match k with O => Some [] | S k' =>
    match draw fuel x M md with None => None | Some (x', r) => option_map (cons r) (ref_fill fuel k' x' M md) end end.
Definition matrix_line (fuel : nat) (n M : N) : option (list N) :=
  ref_fill fuel (N.to_nat (M / 2)) (1 + 1001 * n) M (M + (if is_pow2 M then 1 else 0)).

(* ---- no-redundancy variant on the same PRBS stream (force-full-r) ---- *)
Fixpoint full_fill (fuel : nat) (k : nat) (x M md : N) (acc : list N) : option (list N) :=
  match fuel with O => None | S f =>
    match k with O => Some acc | S k' =>
      match draw fuel x M md with None => None
      | Some (x', r) => if existsb (N.eqb r) acc then full_fill f k x' M md acc else full_fill f k' x' M md (r :: acc) end end end.
Definition matrix_line_full (fuel : nat) (n M : N) : option (list N) :=
  full_fill fuel (N.to_nat (M / 2)) (1 + 1001 * n) M (M + (if is_pow2 M then 1 else 0)) [].

(* ---- implementation-shaped generators ---- *)
(* fragmentation.rs (both crates), default build: u32 arithmetic written out *)
Definition u32 (v : N) : N := v mod 4294967296.
Definition impl_new (fuel : nat) (cap_n cap_m : N) : option (list N) :=
  let m := if is_pow2 cap_m then 1 else 0 in
  ref_fill fuel (N.to_nat (N.shiftr cap_m 1)) (1 + u32 (1001 * cap_n)) cap_m (cap_m + m).
(* lfdbt.rs: 0-based row index, jiggle *)
Definition impl_lfdbt (fuel : nat) (row_index n : N) : option (list N) :=
  ref_fill fuel (N.to_nat (n / 2)) (1 + 1001 * u32 row_index) n (n + (if is_pow2 n then 1 else 0)).

Theorem impl_new_eq_spec fuel cn cm : cn <= 16383 -> impl_new fuel cn cm = matrix_line fuel cn cm.
Proof.
  intros H. unfold impl_new, matrix_line, u32. rewrite N.shiftr_div_pow2. change (2 ^ 1) with 2.
  rewrite (N.mod_small (1001 * cn)) by lia. reflexivity.
Qed.
Theorem impl_lfdbt_eq_spec fuel ri n : ri + 1 <= 16383 -> impl_lfdbt fuel ri n = matrix_line fuel ri n.
Proof. intros H. unfold impl_lfdbt, matrix_line, u32. rewrite (N.mod_small ri) by lia. reflexivity. Qed.

(* rows never address a fragment >= M, and are non-empty for M >= 2 *)
Lemma draw_range fuel x M md x' r : draw fuel x M md = Some (x', r) -> r < M.
Proof.
  revert x. induction fuel as [|f IH]; intros x H; cbn [draw] in H; [discriminate|].
  destruct (N.ltb_spec (prbs23 x mod md) M); [inversion H; subst; assumption| eapply IH; eassumption].
Qed.
Lemma ref_fill_range fuel : forall k x M md l, ref_fill fuel k x M md = Some l -> length l = k /\ Forall (fun r => r < M) l.
Proof.
  induction k as [|k IH]; intros x M md l H; cbn [ref_fill] in H; [inversion H; split; [reflexivity| constructor]|].
  destruct (draw fuel x M md) as [[x' r]|] eqn:D; [|discriminate]. destruct (ref_fill fuel k x' M md) as [l'|] eqn:R; [|discriminate].
  inversion H; subst. destruct (IH _ _ _ _ R) as [A B]. split; [cbn; now rewrite A|]. constructor; [eapply draw_range; eassumption| exact B].
Qed.
Theorem row_in_range fuel n M l : matrix_line fuel n M = Some l -> Forall (fun r => r < M) l.
Proof. intros H. apply (ref_fill_range _ _ _ _ _ _ H). Qed.
Theorem row_nonempty fuel n M l : 2 <= M -> matrix_line fuel n M = Some l -> l <> [].
Proof.
  intros HM H. destruct (ref_fill_range _ _ _ _ _ _ H) as [A _]. intros ->. cbn in A.
  assert (1 <= M / 2) by (apply N.div_le_lower_bound; lia). lia.
Qed.

(* sanity against values pinned in the repository *)
Definition mask (l : list N) : N := fold_left (fun acc r => N.lor acc (N.shiftl 1 r)) l 0.
Example lfdbt_row1 : option_map mask (matrix_line 64 1 26) = Some 27472331.   (* 0x1A331CB, lfdbt.rs test_parity *)
Proof. vm_compute. reflexivity. Qed.
Example doc_row3 : option_map mask (matrix_line 64 3 16) = Some 13575.       (* D1^D2^D3^D9^D11^D13^D14, default build *)
Proof. vm_compute. reflexivity. Qed.
Example doc_row3_full : option_map (fun l => mask l) (matrix_line_full 64 3 16) = Some 13607.  (* force-full-r doc example adds D6 *)
Proof. vm_compute. reflexivity. Qed.

(* the force-full-r build of fragmentation.rs: same u32 seed arithmetic, redraw on a repeated position *)
Definition impl_new_full (fuel : nat) (cap_n cap_m : N) : option (list N) :=
  let m := if is_pow2 cap_m then 1 else 0 in
  full_fill fuel (N.to_nat (N.shiftr cap_m 1)) (1 + u32 (1001 * cap_n)) cap_m (cap_m + m) [].
(* driver-facing: the three generators as bit masks *)
Definition rows_for (ffr : bool) (fuel : nat) (M n : N) : option (list N) * option (list N) :=
  ((if ffr then impl_new_full fuel n M else impl_new fuel n M), impl_lfdbt fuel n M).
