From Coq Require Import List NArith Arith Bool.
Import ListNotations.
Open Scope N_scope.

(* the reconstructor written once over a storage interface *)
Record sto (St : Type) := {
  dget : St -> nat -> N; dput : St -> nat -> N -> St;
  pget : St -> nat -> N; pput : St -> nat -> N -> St;
  mget : St -> nat -> N; mput : St -> nat -> N -> St }.
Arguments dget {St}. Arguments dput {St}. Arguments pget {St}. Arguments pput {St}. Arguments mget {St}. Arguments mput {St}.

Inductive result := NeedMore | TooManyMissing | Done (len : N).
Record gst (St : Type) := mkg { n : nat; l : nat; bs : N; done : nat -> bool; used : nat -> bool; store : St }.
Arguments mkg {St}. Arguments n {St}. Arguments l {St}. Arguments bs {St}. Arguments done {St}. Arguments used {St}. Arguments store {St}.

Definition upd {A} (f : nat -> A) (k : nat) (v : A) : nat -> A := fun i => if Nat.eqb i k then v else f i.
Definition bit (r : N) (i : nat) : bool := N.testbit r (N.of_nat i).

Section G.
Context {St : Type} (I : sto St).
Definition unknowns (s : gst St) : list nat := filter (fun i => negb (done s i)) (seq 0 (n s)).
Definition missing (s : gst St) : nat := length (unknowns s).
Definition unk (s : gst St) (j : nat) : nat := nth j (unknowns s) 0%nat.
Definition is_complete (s : gst St) : bool :=
  if Nat.eqb (l s) 0 then forallb (done s) (seq 0 (n s)) else forallb (used s) (seq 0 (l s)).
Definition strip (s : gst St) (r d : N) : N :=
  fold_left (fun d i => if bit r i && done s i then N.lxor d (dget I (store s) i) else d) (seq 0 (n s)) d.
Definition project (s : gst St) (r : N) : N :=
  fst (fold_left (fun '(acc, j) i => (if bit r i then N.setbit acc (N.of_nat j) else acc, S j)) (unknowns s) (0, 0%nat)).
Fixpoint elim (s : gst St) (wh : nat) (r d : N) : gst St :=
  if bit r wh then
    if used s wh then
      let d' := N.lxor d (pget I (store s) wh) in
      let r' := N.lxor r (mget I (store s) wh) in
      match wh with O => s | S k => elim s k r' d' end
    else mkg (n s) (l s) (bs s) (done s) (upd (used s) wh true) (mput I (pput I (store s) wh d) wh r)
  else match wh with O => s | S k => elim s k r d end.
Definition finish_row (s : gst St) (i : nat) : gst St :=
  let p := pget I (store s) i in
  let r := mget I (store s) i in
  let out := fold_left (fun o j => if bit r j then N.lxor o (dget I (store s) (unk s j)) else o) (seq 0 i) p in
  mkg (n s) (l s) (bs s) (done s) (used s) (dput I (store s) (unk s i) out).
Definition finish (s : gst St) : gst St := fold_left finish_row (seq 0 (l s)) s.
Definition done_len (s : gst St) : N := N.of_nat (n s) * bs s.

Definition handle_block (P : nat -> N) (cap vbits : nat) (s : gst St) (idx : nat) (b : N) : gst St * result :=
  if is_complete s then (s, Done (done_len s)) else
  let enter := Nat.leb (n s) idx && Nat.eqb (l s) 0 in
  let l2 := if enter then missing s else l s in
  if enter && (Nat.ltb vbits l2 || Nat.ltb cap l2) then (s, TooManyMissing) else
  let s1 := mkg (n s) l2 (bs s) (done s) (used s) (store s) in
  if Nat.eqb (l s1) 0 then
    let s2 := if done s1 idx then s1 else mkg (n s1) (l s1) (bs s1) (upd (done s1) idx true) (used s1) (dput I (store s1) idx b) in
    (s2, if is_complete s2 then Done (done_len s2) else NeedMore)
  else
    let d := strip s1 (P idx) b in
    let s2 := elim s1 (l s1 - 1) (project s1 (P idx)) d in
    if is_complete s2 then let s3 := finish s2 in (s3, Done (done_len s3)) else (s2, NeedMore).
End G.

