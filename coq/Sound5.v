From Coq Require Import List NArith ZArith Arith Bool Lia.
Require Import Slots SlotsProof RingA Exact RingB Recover Idem Boot Life Life2 Life3 Life4 Life5 Sound Sound2 Decide RingArith Sound3 Sound4.
Import ListNotations.

Section StartJS.
Variable NS : nat.
Hypothesis HN : (4 <= NS)%nat.
Variables (sl : slots) (st : started).
Hypothesis J : JS NS sl st.
Hypothesis HW : nowrap sl.
Variables (a b : nat) (s1 s2 : N).
Hypothesis EA : alloc_repaired sl = Ok (a, b, s1, s2).
Variables (sz cnt cap : N).
Let h1 := mkhdr Firmware s1 sz cnt EInProgress IInProgress Untested.
Let h2 := mkhdr Parity s2 sz cap EInProgress IInProgress Untested.

Lemma sub_erase l i : (i < length l)%nat -> sub (setnth l i None) l.
Proof. intros L. split; [apply setnth_length|]. intros j s. rewrite seqat_setnth. destruct (Nat.eqb j i); [destruct (Nat.ltb i (length l)); discriminate| auto]. Qed.

(* only the second slot erased *)
Theorem JS_e1b : JS NS (setnth sl b None) (dropS b st).
Proof.
  destruct (start_facts NS HN sl st J HW a b s1 s2 EA) as (Ln & La & Lb & Nab & S12 & Hoth).
  set (er := fun j => Nat.eqb j b).
  assert (Hhd : forall j h, hd_at (setnth sl b None) j h <-> (er j = false /\ hd_at sl j h)).
  { intros j h. unfold er. rewrite hd_at_set. destruct (Nat.eqb_spec j b); [split; [intros [_ X]; discriminate| intros [X _]; discriminate]| tauto]. }
  assert (Hst : forall f p, In (f, p) (dropS b st) <-> (In (f, p) st /\ er f = false /\ er p = false)).
  { intros f p. unfold er. rewrite in_dropS. destruct (Nat.eqb_spec f b), (Nat.eqb_spec p b); split; intros H; try tauto; destruct H as (_ & X1 & X2); discriminate. }
  constructor.
  - apply (reach_sub NS sl); [apply J| apply sub_erase; exact Lb].
  - intros [f p] Hin. apply Hst in Hin. destruct Hin as (Hin & Ef & Ep).
    destruct (JS_pairs _ _ _ J (f, p) Hin) as (hf & hp & A & B & R). exists hf, hp. cbn [fst snd] in *.
    split; [apply Hhd; auto|]. split; [apply Hhd; auto| exact R].
  - intros q hp Hq Kq Aq. apply Hhd in Hq. destruct Hq as [Eq Hq].
    destruct (par_keep NS HN sl st J HW a b s1 s2 EA er _ _ ltac:(apply setnth_length) Hhd Hst ltac:(unfold er; apply Nat.eqb_refl)
                ltac:(unfold er; intros j H; apply Nat.eqb_eq in H; auto) q hp Eq Hq Kq Aq) as [A|[B|[_ C]]]; auto.
Qed.

(* both slots erased *)
Theorem JS_e2 : JS NS (setnth (setnth sl a None) b None) (dropS b (dropS a st)).
Proof.
  destruct (start_facts NS HN sl st J HW a b s1 s2 EA) as (Ln & La & Lb & Nab & S12 & Hoth).
  assert (Hhd : forall j h, hd_at (setnth (setnth sl a None) b None) j h <-> (j <> a /\ j <> b /\ hd_at sl j h)).
  { intros j h. rewrite hd_at_set. destruct (Nat.eqb_spec j b) as [->|NE]; [split; [intros [_ X]; discriminate| intros (_ & X & _); contradiction]|].
    rewrite hd_at_set. destruct (Nat.eqb_spec j a) as [->|NE2]; [split; [intros [_ X]; discriminate| intros (X & _); contradiction]| tauto]. }
  constructor.
  - apply (reach_sub NS (setnth sl a None)); [apply (reach_sub NS sl); [apply J| apply sub_erase; exact La]| apply sub_erase; rewrite setnth_length; exact Lb].
  - intros [f p] Hin. apply in_dropS in Hin. destruct Hin as (Hin & Nfb & Npb). apply in_dropS in Hin. destruct Hin as (Hin & Nfa & Npa).
    destruct (JS_pairs _ _ _ J (f, p) Hin) as (hf & hp & A & B & R). exists hf, hp. cbn [fst snd] in *.
    split; [apply Hhd; auto|]. split; [apply Hhd; auto| exact R].
  - intros q hp Hq Kq Aq. apply Hhd in Hq. destruct Hq as (Nqa & Nqb & Hq).
    destruct (par_both NS HN sl st J HW a b s1 s2 EA q hp Nqa Nqb Hq Kq Aq) as [(f & hf & Nfa & Nfb & Hf & Sf & Kf & Inf)|B].
    + left. exists f, hf. split; [apply Hhd; auto|]. split; [exact Sf|]. split; [exact Kf|]. intros Af. apply in_dropS. split; [apply in_dropS; auto| auto].
    + right; left. intros j sj Sj. apply seqat_hd in Sj. destruct Sj as (h & Hh & <-). apply Hhd in Hh. destruct Hh as (Nja & Njb & Hh).
      apply (B j (hseq h) Nja Njb). apply seqat_hd. exists h; auto.
Qed.

(* headers in the ring after the firmware header (and possibly the parity header) is written *)
Lemma hd_written o2 j h : hd_at (setnth (setnth sl a (Some h1)) b o2) j h <->
  (if Nat.eqb j b then o2 = Some h else if Nat.eqb j a then h = h1 else hd_at sl j h).
Proof.
  destruct (start_facts NS HN sl st J HW a b s1 s2 EA) as (Ln & La & Lb & Nab & S12 & Hoth).
  rewrite hd_at_set, setnth_length. destruct (Nat.eqb j b); [split; [intros [_ X]; exact X| intros X; auto]|].
  rewrite hd_at_set. destruct (Nat.eqb j a); [split; [intros [_ X]; inversion X; reflexivity| intros ->; auto]| tauto].
Qed.

Lemma par_written o2 (st' : started) q hp : (o2 = None \/ o2 = Some h2) ->
  (forall f p, f <> a -> f <> b -> p <> a -> p <> b -> In (f, p) st -> In (f, p) st') ->
  q <> a -> q <> b -> hd_at sl q hp -> hkind hp = Parity -> awip hp ->
  caseA (setnth (setnth sl a (Some h1)) b o2) st' q (hseq hp) \/ caseB (setnth (setnth sl a (Some h1)) b o2) (hseq hp).
Proof.
  intros Ho Hst Nqa Nqb Hq Kq Aq. destruct (start_facts NS HN sl st J HW a b s1 s2 EA) as (Ln & La & Lb & Nab & S12 & Hoth).
  assert (Sq : seqat sl q = Some (hseq hp)) by (apply seqat_hd; exists hp; auto). pose proof (Hoth q _ Nqa Nqb Sq) as Lq.
  destruct (par_both NS HN sl st J HW a b s1 s2 EA q hp Nqa Nqb Hq Kq Aq) as [(f & hf & Nfa & Nfb & Hf & Sf & Kf & Inf)|B].
  - left. exists f, hf. split.
    { apply hd_written. destruct (Nat.eqb_spec f b); [contradiction|]. destruct (Nat.eqb_spec f a); [contradiction| exact Hf]. }
    split; [exact Sf|]. split; [exact Kf|]. intros Af. apply Hst; auto.
  - right. intros j sj Sj. apply seqat_hd in Sj. destruct Sj as (h & Hh & <-). apply hd_written in Hh.
    destruct (Nat.eqb_spec j b) as [->|Njb].
    { destruct Ho as [->| ->]; [discriminate|]. inversion Hh; subst h. cbn [h2 hseq]. lia. }
    destruct (Nat.eqb_spec j a) as [->|Nja]; [subst h; cbn [h1 hseq]; lia|].
    apply (B j (hseq h) Nja Njb). apply seqat_hd. exists h; auto.
Qed.

(* firmware header written, parity header not yet *)
Theorem JS_h1 : JS NS (setnth (setnth sl a (Some h1)) b None) (dropS b (dropS a st)).
Proof.
  destruct (start_facts NS HN sl st J HW a b s1 s2 EA) as (Ln & La & Lb & Nab & S12 & Hoth).
  constructor.
  - rewrite <- (setnth_twice (setnth sl a (Some h1)) b (Some h2) None).
    apply (reach_sub NS (setnth (setnth sl a (Some h1)) b (Some h2))); [apply (reach_start NS sl a b s1 s2 h1 h2 (JS_reach _ _ _ J) HW EA eq_refl eq_refl)|].
    apply sub_erase. rewrite !setnth_length. exact Lb.
  - intros [f p] Hin. apply in_dropS in Hin. destruct Hin as (Hin & Nfb & Npb). apply in_dropS in Hin. destruct Hin as (Hin & Nfa & Npa).
    destruct (JS_pairs _ _ _ J (f, p) Hin) as (hf & hp & A & B & R). exists hf, hp. cbn [fst snd] in *.
    split; [apply hd_written; destruct (Nat.eqb_spec f b); [contradiction|]; destruct (Nat.eqb_spec f a); [contradiction| exact A]|].
    split; [apply hd_written; destruct (Nat.eqb_spec p b); [contradiction|]; destruct (Nat.eqb_spec p a); [contradiction| exact B]| exact R].
  - intros q hp Hq Kq Aq. apply hd_written in Hq. destruct (Nat.eqb_spec q b) as [->|Nqb]; [discriminate|].
    destruct (Nat.eqb_spec q a) as [->|Nqa]; [subst hp; discriminate|].
    destruct (par_written None (dropS b (dropS a st)) q hp (or_introl eq_refl)
                ltac:(intros f p ? ? ? ? Hin; apply in_dropS; split; [apply in_dropS; auto| auto]) Nqa Nqb Hq Kq Aq) as [A|B]; auto.
Qed.

(* the completed start *)
Theorem JS_start : JS NS (setnth (setnth sl a (Some h1)) b (Some h2)) ((a, b) :: dropS b (dropS a st)).
Proof.
  destruct (start_facts NS HN sl st J HW a b s1 s2 EA) as (Ln & La & Lb & Nab & S12 & Hoth).
  pose proof (alloc_succ NS HN sl st J HW a b s1 s2 EA) as Succ.
  assert (Ha : hd_at (setnth (setnth sl a (Some h1)) b (Some h2)) a h1).
  { apply hd_written. destruct (Nat.eqb_spec a b); [contradiction|]. now rewrite Nat.eqb_refl. }
  assert (Hb : hd_at (setnth (setnth sl a (Some h1)) b (Some h2)) b h2) by (apply hd_written; now rewrite Nat.eqb_refl).
  constructor.
  - apply (reach_start NS sl a b s1 s2 h1 h2 (JS_reach _ _ _ J) HW EA eq_refl eq_refl).
  - intros [f p] [Q|Hin].
    + inversion Q; subst f p. exists h1, h2. cbn [fst snd]. repeat (split; [first [assumption| reflexivity]|]). cbn [h1 h2 hseq]. exact Succ.
    + apply in_dropS in Hin. destruct Hin as (Hin & Nfb & Npb). apply in_dropS in Hin. destruct Hin as (Hin & Nfa & Npa).
      destruct (JS_pairs _ _ _ J (f, p) Hin) as (hf & hp & A & B & R). exists hf, hp. cbn [fst snd] in *.
      split; [apply hd_written; destruct (Nat.eqb_spec f b); [contradiction|]; destruct (Nat.eqb_spec f a); [contradiction| exact A]|].
      split; [apply hd_written; destruct (Nat.eqb_spec p b); [contradiction|]; destruct (Nat.eqb_spec p a); [contradiction| exact B]| exact R].
  - intros q hp Hq Kq Aq. pose proof Hq as Hq'. apply hd_written in Hq. destruct (Nat.eqb_spec q b) as [->|Nqb].
    { inversion Hq; subst hp. left. exists a, h1. split; [exact Ha|]. split; [cbn [h1 h2 hseq]; now rewrite Succ|]. split; [reflexivity|]. intros _. left; reflexivity. }
    destruct (Nat.eqb_spec q a) as [->|Nqa]; [subst hp; discriminate|].
    destruct (par_written (Some h2) ((a, b) :: dropS b (dropS a st)) q hp (or_intror eq_refl)
                ltac:(intros f p ? ? ? ? Hin; right; apply in_dropS; split; [apply in_dropS; auto| auto]) Nqa Nqb Hq Kq Aq) as [A|B]; auto.
Qed.
End StartJS.
Print Assumptions JS_start.
