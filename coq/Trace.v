From Coq Require Import List NArith Arith Bool Lia.
Require Import Recon ReconProof Stmts Span.
Import ListNotations.
Open Scope N_scope.

(* the monitor state mirrors the domains of the three stores *)
Record MonInv (s : st) (m : mon) : Prop := {
  M_ok : ok m = true; M_pend : pend m = None;
  M_d : forall i, existsb (Nat.eqb i) (stored_d m) = true <-> dat s i <> None;
  M_p : forall k, existsb (Nat.eqb k) (stored_p m) = true <-> par s k <> None;
  M_m : forall k, existsb (Nat.eqb k) (stored_m m) = true <-> mat s k <> None
}.
(* domain facts the reconstructor maintains (no data needed) *)
Record Dom (cap nn : nat) (s : st) (fin : nat) : Prop := {
  D_n : n s = nn; D_l : (l s <= cap)%nat;
  D_d1 : forall i, (i < n s)%nat -> done s i = true -> dat s i <> None;
  D_d0 : forall i, done s i = false -> (dat s i <> None <-> exists j, (j < fin)%nat /\ i = unk s j);
  D_dr : forall i, dat s i <> None -> (i < n s)%nat;
  D_u1 : forall k, (k < l s)%nat -> used s k = true -> par s k <> None /\ mat s k <> None;
  D_u0 : forall k, used s k = false -> par s k = None /\ mat s k = None;
  D_ur : forall k, used s k = true -> (k < l s)%nat;
  D_tri : forall k r, mat s k = Some r -> bit r k = true /\ forall j, (k < j)%nat -> bit r j = false
}.

Definition steps cap nn (m : mon) (evs : list event) : mon := fold_left (mon_step cap nn) evs m.
Lemma steps_app cap nn m a b : steps cap nn m (a ++ b) = steps cap nn (steps cap nn m a) b.
Proof. unfold steps. apply fold_left_app. Qed.

Lemma existsb_cons_iff i j L : existsb (Nat.eqb i) (j :: L) = true <-> (i = j \/ existsb (Nat.eqb i) L = true).
Proof. cbn [existsb]. rewrite orb_true_iff, Nat.eqb_eq. reflexivity. Qed.

(* a get of something stored leaves the monitor unchanged *)
Lemma step_dget cap nn s m i : MonInv s m -> dat s i <> None -> mon_step cap nn m (EDataGet i) = m.
Proof. intros MI H. unfold mon_step. rewrite (M_pend s m MI). apply (M_d s m MI) in H. rewrite H. reflexivity. Qed.
Lemma step_pget cap nn s m k : MonInv s m -> par s k <> None -> mon_step cap nn m (EParGet k) = m.
Proof. intros MI H. unfold mon_step. rewrite (M_pend s m MI). apply (M_p s m MI) in H. rewrite H. reflexivity. Qed.
Lemma step_mget cap nn s m k : MonInv s m -> mat s k <> None -> mon_step cap nn m (EMatGet k) = m.
Proof. intros MI H. unfold mon_step. rewrite (M_pend s m MI). apply (M_m s m MI) in H. rewrite H. reflexivity. Qed.

(* strip only reads stored blocks *)
Lemma strip_mon cap nn s fin m r d : MonInv s m -> Dom cap nn s fin -> steps cap nn m (snd (strip s r d)) = m.
Proof.
  intros MI D. unfold strip.
  assert (H : forall L d0 ev, (forall i, In i L -> (i < n s)%nat) -> steps cap nn m ev = m ->
     steps cap nn m (snd (fold_left (fun '(d, ev) i => if bit r i && done s i then (N.lxor d (getb (dat s i)), ev ++ [EDataGet i]) else (d, ev)) L (d0, ev))) = m).
  { induction L as [|i L IH]; intros d0 ev HL Hev; cbn [fold_left]; [exact Hev|].
    destruct (bit r i && done s i) eqn:E; [|apply IH; [intros; apply HL; right; assumption| exact Hev]].
    apply andb_prop in E. destruct E as [_ Ed]. apply IH; [intros; apply HL; right; assumption|].
    rewrite steps_app, Hev. cbn [steps fold_left]. apply (step_dget cap nn s m i MI). apply (D_d1 cap nn s fin D); [apply HL; left; reflexivity| exact Ed]. }
  apply H; [intros i Hi; apply in_seq in Hi; lia| reflexivity].
Qed.

Lemma tri_log2 r k : bit r k = true -> (forall j, (k < j)%nat -> bit r j = false) -> high_clear_b r k = true.
Proof.
  intros Hb Hc. unfold high_clear_b. assert (Hne : r <> 0) by (intros ->; unfold bit in Hb; rewrite N.bits_0 in Hb; discriminate).
  assert (N.log2 r = N.of_nat k).
  { apply N.le_antisymm.
    - destruct (N.le_gt_cases (N.log2 r) (N.of_nat k)) as [|C]; [assumption|]. exfalso.
      specialize (Hc (N.to_nat (N.log2 r)) ltac:(lia)). unfold bit in Hc. rewrite N2Nat.id, N.bit_log2 in Hc by exact Hne. discriminate.
    - destruct (N.le_gt_cases (N.of_nat k) (N.log2 r)) as [|C]; [assumption|]. exfalso.
      unfold bit in Hb. rewrite N.bits_above_log2 in Hb by exact C. discriminate. }
  rewrite H, N.eqb_refl. destruct (N.eqb_spec r 0); [contradiction| reflexivity].
Qed.

Lemma existsb_false_iff i L : existsb (Nat.eqb i) L = false <-> ~ (existsb (Nat.eqb i) L = true).
Proof. destruct (existsb (Nat.eqb i) L); split; intros; congruence. Qed.

(* storing a new pivot: two monitor steps *)
Lemma store_mon cap nn s fin m wh r d : MonInv s m -> Dom cap nn s fin -> (wh < l s)%nat -> used s wh = false ->
  bit r wh = true -> (forall j, (wh < j)%nat -> bit r j = false) ->
  MonInv (store_pivot s wh r d) (steps cap nn m [EParStore wh d; EMatSet wh r]) /\ Dom cap nn (store_pivot s wh r d) fin.
Proof.
  intros MI D Hwh Hu Hb Hc. destruct (D_u0 cap nn s fin D wh Hu) as [Hp Hm].
  assert (Np : existsb (Nat.eqb wh) (stored_p m) = false) by (apply existsb_false_iff; intros C; apply (M_p s m MI) in C; contradiction).
  assert (Nm : existsb (Nat.eqb wh) (stored_m m) = false) by (apply existsb_false_iff; intros C; apply (M_m s m MI) in C; contradiction).
  assert (Hcap : (wh <? cap)%nat = true) by (apply Nat.ltb_lt; pose proof (D_l cap nn s fin D); lia).
  cbn [steps fold_left]. unfold mon_step at 2. rewrite (M_pend s m MI), Hcap, Np. cbn [andb negb].
  unfold mon_step. cbn [pend stored_d stored_p stored_m ok]. rewrite Nat.eqb_refl, (tri_log2 r wh Hb Hc), Nm. cbn [andb negb].
  split.
  - constructor; cbn [ok pend stored_d stored_p stored_m store_pivot dat par mat].
    + apply (M_ok s m MI). + reflexivity. + apply (M_d s m MI).
    + intros k. rewrite existsb_cons_iff. unfold upd. destruct (Nat.eqb_spec k wh) as [->|Hne].
      * split; [intros _ Q; discriminate Q| auto].
      * rewrite (M_p s m MI k). split; [intros [C|C]; [contradiction| exact C]| auto].
    + intros k. rewrite existsb_cons_iff. unfold upd. destruct (Nat.eqb_spec k wh) as [->|Hne].
      * split; [intros _ Q; discriminate Q| auto].
      * rewrite (M_m s m MI k). split; [intros [C|C]; [contradiction| exact C]| auto].
  - assert (Hunk : forall j, unk (store_pivot s wh r d) j = unk s j) by reflexivity.
    constructor; cbn [store_pivot n l done used dat par mat].
    + apply (D_n cap nn s fin D). + apply (D_l cap nn s fin D). + apply (D_d1 cap nn s fin D).
    + apply (D_d0 cap nn s fin D). + apply (D_dr cap nn s fin D).
    + intros k Hk Huk. unfold upd in *. destruct (Nat.eqb_spec k wh) as [->|]; [split; intros Q; discriminate Q| apply (D_u1 cap nn s fin D k Hk Huk)].
    + intros k Huk. unfold upd in *. destruct (Nat.eqb_spec k wh) as [E|NE]; [discriminate Huk| apply (D_u0 cap nn s fin D k Huk)].
    + intros k Huk. unfold upd in *. destruct (Nat.eqb_spec k wh) as [E|NE]; [subst k; exact Hwh| apply (D_ur cap nn s fin D k Huk)].
    + intros k r0. unfold upd. destruct (Nat.eqb_spec k wh) as [->|]; [intros Q; inversion Q; subst; split; assumption| apply (D_tri cap nn s fin D)].
Qed.

(* elimination: reads of stored pivots, then possibly one pivot store *)
Lemma elim_mon cap nn s fin m0 m : MonInv s m -> Dom cap nn s fin ->
  forall wh r d ev, (wh < l s)%nat -> (forall j, (wh < j)%nat -> bit r j = false) -> steps cap nn m0 ev = m ->
  exists m', steps cap nn m0 (snd (elim s wh r d ev)) = m' /\ MonInv (fst (elim s wh r d ev)) m' /\ Dom cap nn (fst (elim s wh r d ev)) fin.
Proof.
  intros MI D. induction wh as [|k IH]; intros r d ev Hwh Hc Hev; cbn [elim].
  - destruct (bit r 0%nat) eqn:Hb; [destruct (used s 0%nat) eqn:Hu|]; cbn [fst snd].
    + destruct (D_u1 cap nn s fin D 0%nat Hwh Hu) as [Hp Hm]. exists m. split; [|split; assumption].
      rewrite steps_app, Hev. cbn [steps fold_left]. rewrite (step_pget cap nn s m 0 MI Hp). apply (step_mget cap nn s m 0 MI Hm).
    + destruct (store_mon cap nn s fin m 0%nat r d MI D Hwh Hu Hb Hc) as [A B]. eexists. split; [|split; [exact A| exact B]].
      rewrite steps_app, Hev. reflexivity.
    + exists m. split; [exact Hev| split; assumption].
  - destruct (bit r (S k)) eqn:Hb; [destruct (used s (S k)) eqn:Hu|].
    + destruct (D_u1 cap nn s fin D (S k) Hwh Hu) as [Hp Hm].
      destruct (mat s (S k)) as [rr|] eqn:Em; [|contradiction]. destruct (D_tri cap nn s fin D (S k) rr Em) as [T1 T2]. cbn [getb].
      apply IH; [lia| |].
      * intros j Hj. rewrite bit_lxor. destruct (Nat.eq_dec j (S k)) as [->|Hne]; [now rewrite Hb, T1| rewrite Hc, T2 by lia; reflexivity].
      * rewrite steps_app, Hev. cbn [steps fold_left]. rewrite (step_pget cap nn s m _ MI Hp). apply (step_mget cap nn s m _ MI). congruence.
    + cbn [fst snd]. destruct (store_mon cap nn s fin m (S k) r d MI D Hwh Hu Hb Hc) as [A B]. eexists. split; [|split; [exact A| exact B]].
      rewrite steps_app, Hev. reflexivity.
    + apply IH; [lia| | exact Hev]. intros j Hj. destruct (Nat.eq_dec j (S k)) as [->|]; [exact Hb| apply Hc; lia].
Qed.

Lemma finish_row_mon cap nn s i m : MonInv s m -> Dom cap nn s i -> l s = missing s ->
  (forall k, (k < l s)%nat -> used s k = true) -> (i < l s)%nat ->
  exists m', steps cap nn m (snd (finish_row s i)) = m' /\ MonInv (fst (finish_row s i)) m' /\ Dom cap nn (fst (finish_row s i)) (S i).
Proof.
  intros MI D Hl Hall Hi. destruct (D_u1 cap nn s i D i Hi (Hall i Hi)) as [Hp Hm].
  unfold finish_row. set (r := getb (mat s i)).
  assert (H : forall L o ev, (forall j, In j L -> (j < i)%nat) -> steps cap nn m ev = m ->
     steps cap nn m (snd (fold_left (fun '(o, ev) j => if bit r j then (N.lxor o (getb (dat s (unk s j))), ev ++ [EDataGet (unk s j)]) else (o, ev)) L (o, ev))) = m).
  { induction L as [|j L IH]; intros o ev HL Hev; cbn [fold_left]; [exact Hev|].
    destruct (bit r j); [|apply IH; [intros; apply HL; right; assumption| exact Hev]].
    apply IH; [intros; apply HL; right; assumption|]. rewrite steps_app, Hev. cbn [steps fold_left].
    assert (Hj : (j < i)%nat) by (apply HL; left; reflexivity). destruct (unk_spec s j ltac:(lia)) as [Hun Hud].
    apply (step_dget cap nn s m _ MI). apply (D_d0 cap nn s i D _ Hud). exists j. split; [exact Hj| reflexivity]. }
  specialize (H (seq 0 i) (getb (par s i)) [EParGet i; EMatGet i] ltac:(intros j Hj; apply in_seq in Hj; lia)).
  assert (H0 : steps cap nn m [EParGet i; EMatGet i] = m).
  { cbn [steps fold_left]. rewrite (step_pget cap nn s m i MI Hp). apply (step_mget cap nn s m i MI Hm). }
  specialize (H H0).
  destruct (fold_left _ (seq 0 i) (getb (par s i), [EParGet i; EMatGet i])) as [out ev] eqn:Ef. cbn [fst snd] in *.
  destruct (unk_spec s i ltac:(lia)) as [Hun Hud].
  assert (Hnone : dat s (unk s i) = None).
  { destruct (dat s (unk s i)) eqn:E; [|reflexivity]. exfalso. assert (Q : dat s (unk s i) <> None) by congruence.
    apply (D_d0 cap nn s i D _ Hud) in Q. destruct Q as (j & Hj & Ej). apply unk_inj in Ej; lia. }
  assert (Nd : existsb (Nat.eqb (unk s i)) (stored_d m) = false) by (apply existsb_false_iff; intros C; apply (M_d s m MI) in C; contradiction).
  assert (Hlt : (unk s i <? nn)%nat = true) by (apply Nat.ltb_lt; rewrite <- (D_n cap nn s i D); exact Hun).
  eexists. split; [rewrite steps_app, H; cbn [steps fold_left]; unfold mon_step; rewrite (M_pend s m MI), Hlt, Nd; cbn [andb negb]; reflexivity|].
  set (s' := mkst (n s) (l s) (bs s) (done s) (used s) (upd (dat s) (unk s i) (Some out)) (par s) (mat s)).
  assert (Hunk : forall j, unk s' j = unk s j) by reflexivity.
  split.
  - constructor; unfold s'; cbn [ok pend stored_d stored_p stored_m dat par mat].
    + apply (M_ok s m MI). + reflexivity.
    + intros x. rewrite existsb_cons_iff. unfold upd. destruct (Nat.eqb_spec x (unk s i)) as [->|Hne].
      * split; [intros _ Q; discriminate Q| auto].
      * rewrite (M_d s m MI x). split; [intros [C|C]; [contradiction| exact C]| auto].
    + apply (M_p s m MI). + apply (M_m s m MI).
  - constructor; unfold s' at 1; cbn [n l done used dat par mat]; try (unfold s'; cbn [n l done used dat par mat]).
    + apply (D_n cap nn s i D). + apply (D_l cap nn s i D).
    + intros x Hx Hdx. unfold upd. destruct (Nat.eqb x (unk s i)); [intros Q; discriminate Q| apply (D_d1 cap nn s i D x Hx Hdx)].
    + intros x Hdx. unfold upd. destruct (Nat.eqb_spec x (unk s i)) as [->|Hne].
      * split; [intros _; exists i; split; [lia| reflexivity]| intros _ Q; discriminate Q].
      * rewrite (D_d0 cap nn s i D x Hdx). split; intros (j & Hj & Ej).
        -- exists j. split; [lia| exact Ej].
        -- exists j. split; [|exact Ej]. destruct (Nat.eq_dec j i) as [->|]; [contradiction| lia].
    + intros x. unfold upd. destruct (Nat.eqb_spec x (unk s i)) as [->|]; [intros _; exact Hun| apply (D_dr cap nn s i D)].
    + apply (D_u1 cap nn s i D). + apply (D_u0 cap nn s i D). + apply (D_ur cap nn s i D). + apply (D_tri cap nn s i D).
Qed.

Lemma missing_same (s s' : st) : n s' = n s -> (forall i, done s' i = done s i) -> missing s' = missing s.
Proof. intros Hn Hd. unfold missing. now rewrite (unknowns_ext s s' Hn Hd). Qed.

Lemma finish_row_fields s i : n (fst (finish_row s i)) = n s /\ l (fst (finish_row s i)) = l s /\
  (forall j, done (fst (finish_row s i)) j = done s j) /\ (forall j, used (fst (finish_row s i)) j = used s j).
Proof. unfold finish_row. destruct (fold_left _ _ _) as [o e]. cbn. auto. Qed.

Lemma finish_mon cap nn : forall k0 k s m ev0 m0, MonInv s m -> Dom cap nn s k -> l s = missing s ->
  (forall j, (j < l s)%nat -> used s j = true) -> (k + k0 = l s)%nat -> steps cap nn m0 ev0 = m ->
  let res := fold_left (fun '(s, ev) i => let '(s', e) := finish_row s i in (s', ev ++ e)) (seq k k0) (s, ev0) in
  exists m', steps cap nn m0 (snd res) = m' /\ MonInv (fst res) m' /\ Dom cap nn (fst res) (l s).
Proof.
  induction k0 as [|k0 IH]; intros k s m ev0 m0 MI D Hl Hall Hk Hev; cbn [seq fold_left].
  - cbn zeta. cbn [fst snd]. replace (l s) with k by lia. exists m. auto.
  - destruct (finish_row_mon cap nn s k m MI D Hl Hall ltac:(lia)) as (m1 & S1 & MI1 & D1).
    destruct (finish_row_fields s k) as (Fn & Fl & Fd & Fu).
    destruct (finish_row s k) as [s1 e1]. cbn [fst snd] in *.
    specialize (IH (S k) s1 m1 (ev0 ++ e1) m0 MI1 D1). rewrite Fl, (missing_same s s1 Fn Fd) in IH.
    apply IH; [exact Hl| intros j Hj; rewrite Fu; apply Hall; exact Hj| lia| rewrite steps_app, Hev; exact S1].
Qed.

(* one call *)
Definition DomNext cap nn (s : st) : Prop :=
  is_complete s = true \/ (Dom cap nn s 0 /\ ((l s = 0%nat) \/ (l s = missing s /\ (1 <= l s)%nat))).

Lemma stage2_mon P cap nn s1 idx b m : MonInv s1 m -> Dom cap nn s1 0 -> l s1 = missing s1 -> (1 <= l s1)%nat ->
  let '(s2, ev) := handle_parity P s1 idx b in
  let res := if is_complete s2 then let '(s3, ev') := finish s2 in (s3, ev ++ ev') else (s2, ev) in
  exists m', steps cap nn m (snd res) = m' /\ MonInv (fst res) m' /\ DomNext cap nn (fst res).
Proof.
  intros MI D Hl Hl1. unfold handle_parity.
  pose proof (strip_mon cap nn s1 0 m (P idx) b MI D) as HS. destruct (strip s1 (P idx) b) as [d ev0]. cbn [snd] in HS.
  assert (Hc : forall j, (l s1 - 1 < j)%nat -> bit (project s1 (P idx)) j = false).
  { intros j Hj. rewrite project_bit. destruct (Nat.ltb_spec j (missing s1)); [lia| reflexivity]. }
  destruct (elim_mon cap nn s1 0 m m MI D (l s1 - 1)%nat (project s1 (P idx)) d ev0 ltac:(lia) Hc HS) as (m2 & S2 & MI2 & D2).
  pose proof (elim_core s1 (l s1 - 1)%nat (project s1 (P idx)) d ev0) as SC.
  destruct (elim s1 (l s1 - 1) (project s1 (P idx)) d ev0) as [s2 ev2]. cbn [fst snd] in *.
  destruct SC as (Hn & Hl2 & _ & Hd & _).
  destruct (is_complete s2) eqn:EC.
  - assert (Hm2 : l s2 = missing s2) by (rewrite Hl2, (missing_same s1 s2 Hn Hd); exact Hl).
    assert (Hall : forall j, (j < l s2)%nat -> used s2 j = true).
    { unfold is_complete in EC. destruct (Nat.eqb_spec (l s2) 0); [lia|]. apply forallb_seq_true; exact EC. }
    pose proof (finish_mon cap nn (l s2) 0%nat s2 m2 [] m2 MI2 D2 Hm2 Hall ltac:(lia) eq_refl) as HF. cbn zeta in HF.
    pose proof (finish_shape s2) as FS. unfold finish in *.
    destruct (fold_left _ (seq 0 (l s2)) (s2, [])) as [s3 ev3]. cbn [fst snd] in *.
    destruct HF as (m3 & S3 & MI3 & D3). exists m3. split; [rewrite steps_app, S2; exact S3|]. split; [exact MI3|].
    left. rewrite (is_complete_shape s2 s3 FS). exact EC.
  - cbn [fst snd]. exists m2. split; [exact S2|]. split; [exact MI2|]. right. split; [exact D2|]. right.
    split; [rewrite Hl2, (missing_same s1 s2 Hn Hd); exact Hl| lia].
Qed.

Lemma hb_mon P cap vbits nn s idx b m : (cap <= vbits)%nat -> MonInv s m -> DomNext cap nn s ->
  let '(s', r, ev) := handle_block P cap vbits s idx b in
  exists m', steps cap nn m ev = m' /\ MonInv s' m' /\ DomNext cap nn s'.
Proof.
  intros Hcv MI DN. unfold handle_block. destruct (is_complete s) eqn:EC.
  { exists m. split; [reflexivity| split; [exact MI| left; exact EC]]. }
  destruct DN as [C|[D HS]]; [congruence|].
  destruct s as [n0 l0 bs0 done0 used0 dat0 par0 mat0]. cbn [n l bs done used dat par mat] in *.
  set (s := mkst n0 l0 bs0 done0 used0 dat0 par0 mat0) in *.
  destruct (Nat.leb n0 idx && Nat.eqb l0 0) eqn:Een; cbn [andb].
  - destruct (Nat.ltb vbits (missing s) || Nat.ltb cap (missing s)) eqn:Er.
    { exists m. split; [reflexivity| split; [exact MI| right; split; assumption]]. }
    apply andb_prop in Een. destruct Een as [E1 E2]. apply Nat.eqb_eq in E2. subst l0.
    apply orb_false_elim in Er. destruct Er as [_ Ecap]. apply Nat.ltb_ge in Ecap.
    assert (Hm1 : (1 <= missing s)%nat) by (apply missing_pos; unfold is_complete in EC; cbn [s l Nat.eqb n] in EC; exact EC).
    cbn [l]. destruct (Nat.eqb_spec (missing s) 0) as [|_]; [lia|].
    set (s1 := mkst n0 (missing s) bs0 done0 used0 dat0 par0 mat0).
    assert (MI1 : MonInv s1 m) by (constructor; apply MI).
    assert (D1 : Dom cap nn s1 0).
    { constructor; cbn [s1 n l done used dat par mat]; try apply D; [exact Ecap| |].
      - intros k _ Hu. pose proof (D_ur cap nn s 0 D k Hu) as Q. cbn [s l] in Q. lia.
      - intros k Hu. pose proof (D_ur cap nn s 0 D k Hu) as Q. cbn [s l] in Q. lia. }
    pose proof (stage2_mon P cap nn s1 idx b m MI1 D1 eq_refl Hm1) as H2.
    destruct (handle_parity P s1 idx b) as [s2 ev]. destruct (is_complete s2).
    + destruct (finish s2) as [s3 ev']. exact H2.
    + exact H2.
  - cbn [l]. destruct (Nat.eqb_spec l0 0) as [E0|NE].
    + subst l0. rewrite andb_true_r in Een. apply Nat.leb_gt in Een.
      destruct (done0 idx) eqn:Hd.
      * exists m. split; [reflexivity|]. split; [exact MI|].
        destruct (is_complete s) eqn:EC2; [left; exact EC2| right; split; [exact D| left; reflexivity]].
      * set (s2 := mkst n0 0 bs0 (upd done0 idx true) used0 (upd dat0 idx (Some b)) par0 mat0).
        assert (Hnone : dat0 idx = None).
        { destruct (dat0 idx) eqn:E; [|reflexivity]. exfalso. assert (Q : dat s idx <> None) by (cbn [s dat]; congruence).
          apply (D_d0 cap nn s 0 D idx Hd) in Q. destruct Q as (j & Hj & _). lia. }
        assert (Nd : existsb (Nat.eqb idx) (stored_d m) = false) by (apply existsb_false_iff; intros C; apply (M_d s m MI) in C; cbn [s dat] in C; contradiction).
        assert (Hlt : (idx <? nn)%nat = true) by (apply Nat.ltb_lt; rewrite <- (D_n cap nn s 0 D); exact Een).
        eexists. split; [cbn [steps fold_left]; unfold mon_step; rewrite (M_pend s m MI), Hlt, Nd; cbn [andb negb]; reflexivity|].
        assert (MI2 : MonInv s2 {| stored_d := idx :: stored_d m; stored_p := stored_p m; stored_m := stored_m m; ok := ok m; pend := None |}).
        { constructor; cbn [ok pend stored_d stored_p stored_m s2 dat par mat].
          - apply (M_ok s m MI). - reflexivity.
          - intros x. rewrite existsb_cons_iff. unfold upd. destruct (Nat.eqb_spec x idx) as [->|Hne].
            + split; [intros _ Q; discriminate Q| auto].
            + rewrite (M_d s m MI x). split; [intros [C|C]; [contradiction| exact C]| auto].
          - apply (M_p s m MI). - apply (M_m s m MI). }
        split; [exact MI2|].
        destruct (is_complete s2) eqn:EC2; [left; exact EC2| right; split; [|left; reflexivity]].
        constructor; cbn [s2 n l done used dat par mat].
        -- apply (D_n cap nn s 0 D). -- apply (D_l cap nn s 0 D).
        -- intros x Hx Hdx. unfold upd in *. destruct (Nat.eqb_spec x idx) as [E|NE]; [intros Q; discriminate Q| apply (D_d1 cap nn s 0 D x Hx Hdx)].
        -- intros x Hdx. unfold upd in *. destruct (Nat.eqb_spec x idx) as [E|NE]; [discriminate Hdx|].
           pose proof (D_d0 cap nn s 0 D x Hdx) as Q. cbn [s dat] in Q. rewrite Q. split; intros (j & Hj & _); lia.
        -- intros x. unfold upd. destruct (Nat.eqb_spec x idx) as [->|]; [intros _; exact Een| apply (D_dr cap nn s 0 D)].
        -- apply (D_u1 cap nn s 0 D). -- apply (D_u0 cap nn s 0 D). -- apply (D_ur cap nn s 0 D). -- apply (D_tri cap nn s 0 D).
    + destruct HS as [C|[Hlm Hl1]]; [cbn [s l] in C; contradiction|].
      pose proof (stage2_mon P cap nn s idx b m MI D Hlm Hl1) as H2. fold s.
      destruct (handle_parity P s idx b) as [s2 ev]. destruct (is_complete s2).
      * destruct (finish s2) as [s3 ev']. exact H2.
      * exact H2.
Qed.

Theorem trace_wf_run P cap vbits nn : (cap <= vbits)%nat -> forall bl s m, MonInv s m -> DomNext cap nn s ->
  let '(s', rs, evs) := run P cap vbits s bl in
  exists m', steps cap nn m evs = m' /\ MonInv s' m'.
Proof.
  intros Hcv. induction bl as [|[i b] bl IH]; intros s m MI DN; cbn [run].
  - exists m. split; [reflexivity| exact MI].
  - pose proof (hb_mon P cap vbits nn s i b m Hcv MI DN) as H1.
    destruct (handle_block P cap vbits s i b) as [[s1 r] e1]. destruct H1 as (m1 & S1 & MI1 & DN1).
    specialize (IH s1 m1 MI1 DN1). destruct (run P cap vbits s1 bl) as [[s2 rs] es]. destruct IH as (m2 & S2 & MI2).
    exists m2. split; [rewrite steps_app, S1; exact S2| exact MI2].
Qed.

(* C09: the storage-call trace of every run satisfies the write-once contracts *)
Theorem trace_wf : forall P nn cap vbits bs0 bl, (cap <= vbits)%nat ->
  wf_trace cap nn (snd (run P cap vbits (init nn bs0) bl)) = true.
Proof.
  intros P nn cap vbits bs0 bl Hcv.
  set (m0 := {| stored_d := []; stored_p := []; stored_m := []; ok := true; pend := None |}).
  assert (MI0 : MonInv (init nn bs0) m0).
  { constructor; cbn [m0 ok pend stored_d stored_p stored_m init dat par mat existsb]; try reflexivity; intros; split; intros Q; try discriminate Q; contradiction. }
  assert (DN0 : DomNext cap nn (init nn bs0)).
  { right. split; [|left; reflexivity]. constructor; cbn [init n l done used dat par mat]; try reflexivity; try lia; try (intros; discriminate); try (intros; split; reflexivity).
    - intros i _. split; [intros Q; contradiction| intros (j & Hj & _); lia].
    - intros i Q. contradiction. }
  pose proof (trace_wf_run P cap vbits nn Hcv bl (init nn bs0) m0 MI0 DN0) as H.
  destruct (run P cap vbits (init nn bs0) bl) as [[s' rs] evs]. cbn [snd]. destruct H as (m' & S & MI').
  unfold wf_trace. fold m0. unfold steps in S. rewrite S, (M_ok s' m' MI'), (M_pend s' m' MI'). reflexivity.
Qed.
Print Assumptions trace_wf.
