(* Byte-level executable model of the single-erasure (V1) updaters:
     - flash-algo-new/src/update/naive.rs        (flash-algo-new built without the matrix feature)   [orig = false]
     - original-flash-algo/src/manager.rs        (deprecated manager: ActiveStatus, ring.rs)         [orig = true]
   Modifying flash operations and results are modelled exactly; the READ pattern is modelled only as far as results
   depend on it (the V1 streams compare results and programs / erases, not read counts). *)
From Coq Require Import List NArith Arith Bool.
Require Import Consts Nor Geom Layout Lfdbt MRecon Mgr.
Require Slots Recover Boot.
Import ListNotations.
Open Scope N_scope.

Record v1 := mkv1 {
  v_fw : nat; v_par : nat; v_sz : N;
  v_tf : N; v_rf : N; v_tp : N; v_rp : N;        (* total / remaining firmware and parity segments *)
  v_cf : option N; v_cp : option N }.             (* naive: the two Slot::segment_size caches *)

Inductive wso := WConsumed | WMaybeParity | WComplete.

Definition bytes_eq (a b : N) : bool := a =? b.

(* the Slot layer of flash-algo-new used with an arbitrary slot: write_segment / read_segment *)
Definition slot_put (m : mgr) (slot : nat) (cache : option N) (bsz : N) (i : nat) (b : N) (d : dev) : dev * option N * bool :=
  match m_dput (flash_sto m slot slot bsz 0 0) (mkf d cache) i b with (s, ok) => (f_dev s, f_cache s, ok) end.
Definition slot_get (m : mgr) (slot : nat) (cache : option N) (bsz : N) (i : nat) (d : dev) : dev * option N :=
  match m_dget (flash_sto m slot slot bsz 0 0) (mkf d cache) i with (s, r) => (f_dev s, r) end.

Section V.
Variable orig : bool.
Variable ffr : bool.
Variable m : mgr.

(* write_segment_internal; [rlen] = length of the read scratch handed in (256 from the public entry point of the deprecated
   crate, the fragment size from repair_step; naive reads min(len, size)) ; [plen] = payload length *)
Definition v1_write (u : v1) (idx1 : N) (payload plen : N) (rlen : N) (d : dev) : dev * v1 * res wso :=
  if idx1 =? 0 then (d, u, RErr (MSpi EOob)) else
  let sel := if idx1 <=? v_tf u then Some (true, idx1 - 1)
             else if idx1 <=? v_tf u + v_tp u then Some (false, idx1 - 1 - v_tf u) else None in
  match sel with
  | None => (d, u, RErr (MSpi EOob))
  | Some (isfw, i0) =>
      let slot := if isfw then v_fw u else v_par u in
      let cache := if isfw then v_cf u else v_cp u in
      let pre : option (res wso) :=
        if orig then
          if negb (plen =? v_sz u) then Some RPanic                                   (* assert_eq!(self.segment_size, bytes.len()) *)
          else if negb ((i0 <? MAX_SEGMENTS) && (DATA_REGION_OFFSET + (i0 + 1) * v_sz u <=? m_size m)) then Some (RErr (MSpi EOob))
          else None
        else
          if (MAX_SEGMENTS <? i0) || (m_size m <? WRITTEN_OFFSET + i0) then Some (RErr (MSpi EOob)) else None in
      match pre with
      | Some r => (d, u, r)
      | None =>
          match d_read d (base m slot + WRITTEN_OFFSET + i0) 1 with
          | (d1, None) => (d1, u, RErr (last_err d1))
          | (d1, Some st) =>
              if st =? DATA_WRITTEN then
                (* duplicate: compare with what is stored *)
                if orig then
                  match d_read d1 (base m slot + DATA_REGION_OFFSET + i0 * v_sz u) rlen with
                  | (d2, None) => (d2, u, RErr (last_err d2))
                  | (d2, Some v) => if (v mod 2 ^ (8 * plen)) =? payload then (d2, u, ROk WConsumed) else (d2, u, RPanic)
                  end
                else
                  match slot_get m slot cache rlen (N.to_nat i0) d1 with
                  | (d2, None) => (d2, u, RErr (last_err d2))
                  | (d2, Some v) => if (v mod 2 ^ (8 * plen)) =? payload then (d2, u, ROk WConsumed) else (d2, u, RPanic)
                  end
              else if negb (st =? DATA_NOT_WRITTEN) then (d1, u, RPanic)
              else
                let written : dev * option N * bool :=
                  if orig then
                    match d_prog d1 (base m slot + DATA_REGION_OFFSET + i0 * v_sz u) plen payload with
                    | (d2, false) => (d2, cache, false)
                    | (d2, true) => match d_prog d2 (base m slot + WRITTEN_OFFSET + i0) 1 DATA_WRITTEN with (d3, ok) => (d3, cache, ok) end
                    end
                  else slot_put m slot cache plen (N.to_nat i0) payload d1 in
                match written with
                | (d2, c2, false) => (d2, mkv1 (v_fw u) (v_par u) (v_sz u) (v_tf u) (v_rf u) (v_tp u) (v_rp u)
                                               (if isfw then c2 else v_cf u) (if isfw then v_cp u else c2), RErr (last_err d2))
                | (d2, c2, true) =>
                    (* remaining -= 1 : underflow panics in a checked build; the model reports the panic *)
                    let rf := if isfw then v_rf u - 1 else v_rf u in
                    let rp := if isfw then v_rp u else v_rp u - 1 in
                    let u' := mkv1 (v_fw u) (v_par u) (v_sz u) (v_tf u) rf (v_tp u) rp
                                   (if isfw then c2 else v_cf u) (if isfw then v_cp u else c2) in
                    if (isfw && (v_rf u =? 0)) || (negb isfw && (v_rp u =? 0)) then (d2, u', RPanic) else
                    (d2, u', ROk (if rf =? 0 then WComplete else if rp =? v_tp u then WConsumed else WMaybeParity))
                end
          end
      end
  end.

(* status table of a slot as the ascending list of received indices; None = read error or invalid byte *)
Fixpoint status_list (bs_ : list N) (k : N) (acc : list N) : option (list N) :=
  match bs_ with
  | [] => Some acc
  | b :: tl => if b =? DATA_WRITTEN then status_list tl (k + 1) (k :: acc)
               else if b =? DATA_NOT_WRITTEN then status_list tl (k + 1) acc else None
  end.
Fixpoint load_table (fuel : nat) (slot : nat) (pos remain : N) (acc : list N) (d : dev) : dev * option (list N) :=
  match fuel with
  | O => (d, Some (rev acc))
  | S f =>
      if remain =? 0 then (d, Some (rev acc)) else
      let stride := N.min remain 128 in
      match d_read d (base m slot + WRITTEN_OFFSET + pos) stride with
      | (d1, None) => (d1, None)
      | (d1, Some v) =>
          match status_list (bytes_of_val v (N.to_nat stride)) pos acc with
          | None => (set_err d1 EHw, None)
          | Some acc' => load_table f slot (pos + stride) (remain - stride) acc' d1
          end
      end
  end.
Definition mem_N (x : N) (l : list N) : bool := existsb (N.eqb x) l.

(* XOR of the stored firmware blocks selected by [row] except [skip] *)
Fixpoint xor_blocks (u : v1) (row : N) (is : list N) (skip : N) (acc : N) (d : dev) : dev * option N :=
  match is with
  | [] => (d, Some acc)
  | i :: tl =>
      if (i =? skip) || negb (N.testbit row i) then xor_blocks u row tl skip acc d else
      let rd := if orig then d_read d (base m (v_fw u) + DATA_REGION_OFFSET + i * v_sz u) (v_sz u)
                else slot_get m (v_fw u) (v_cf u) (v_sz u) (N.to_nat i) d in
      match rd with
      | (d1, None) => (d1, None)
      | (d1, Some v) => xor_blocks u row tl skip (N.lxor acc v) d1
      end
  end.

Definition range_N (k : N) : list N := map N.of_nat (List.seq 0 (N.to_nat k)).

(* first received parity segment (ascending) with exactly one missing covered firmware segment *)
Fixpoint find_repair (u : v1) (have_fw : list N) (pars : list N) : option (N * N * N) :=
  match pars with
  | [] => None
  | p :: tl =>
      let row := coded_row ffr (N.to_nat (v_tf u)) (u32 (p + 1)) in
      let missing := filter (fun i => N.testbit row i && negb (mem_N i have_fw)) (range_N (v_tf u)) in
      match missing with
      | [fwi] => Some (p, fwi, row)
      | _ => find_repair u have_fw tl
      end
  end.

Definition v1_repair_step (u : v1) (d : dev) : dev * v1 * res (option N) :=
  if v_rf u =? 0 then (d, u, ROk None) else
  if v_rp u =? v_tp u then (d, u, ROk None) else
  (* naive reads the parity count from the parity header; the deprecated crate uses its in-memory total *)
  let step (tpar : N) (d0 : dev) :=
    match load_table (S (N.to_nat (v_tf u / 128))) (v_fw u) 0 (v_tf u) [] d0 with
    | (d1, None) => (d1, u, RErr (last_err d1))
    | (d1, Some have_fw) =>
        match load_table (S (N.to_nat (tpar / 128))) (v_par u) 0 tpar [] d1 with
        | (d2, None) => (d2, u, RErr (last_err d2))
        | (d2, Some have_par) =>
            match find_repair u have_fw have_par with
            | None => (d2, u, ROk None)
            | Some (p, fwi, row) =>
                let rdp := if orig then d_read d2 (base m (v_par u) + DATA_REGION_OFFSET + p * v_sz u) (v_sz u)
                           else slot_get m (v_par u) (v_cp u) (v_sz u) (N.to_nat p) d2 in
                match rdp with
                | (d3, None) => (d3, u, RErr (last_err d3))
                | (d3, Some pv) =>
                    match xor_blocks u row (range_N (v_tf u)) fwi pv d3 with
                    | (d4, None) => (d4, u, RErr (last_err d4))
                    | (d4, Some out) =>
                        match v1_write u (fwi + 1) out (v_sz u) (v_sz u) d4 with
                        | (d5, u', ROk _) => (d5, u', ROk (Some fwi))
                        | (d5, u', RErr e) => (d5, u', RErr e)
                        | (d5, u', RPanic) => (d5, u', RPanic)
                        end
                    end
                end
            end
        end
    end in
  if orig then step (v_tp u) d else
  match d_read d (base m (v_par u) + NUMBER_OF_SEGMENTS_OFFSET) 4 with
  | (d0, None) => (d0, u, RErr (last_err d0))
  | (d0, Some c) => step (if (1 <=? c) && (c <=? MAX_SEGMENTS) then c else 0) d0
  end.

Fixpoint repair_loop (fuel : nat) (u : v1) (d : dev) : dev * v1 * res unit :=
  match fuel with
  | O => (d, u, ROk tt)
  | S f => match v1_repair_step u d with
           | (d1, u1, ROk None) => (d1, u1, ROk tt)
           | (d1, u1, ROk (Some _)) => repair_loop f u1 d1
           | (d1, u1, RErr e) => (d1, u1, RErr e)
           | (d1, u1, RPanic) => (d1, u1, RPanic)
           end
  end.

(* naive: Updater::handle_segment; deprecated crate: write_segment followed by the documented driver loop
   (repair_step until None).  Outcome: true = FirmwareComplete *)
Definition v1_handle (u : v1) (idx1 payload plen : N) (d : dev) : dev * v1 * res bool :=
  match v1_write u idx1 payload plen (if orig then MAX_SEGMENT_SIZE else plen) d with
  | (d1, u1, RErr e) => (d1, u1, RErr e)
  | (d1, u1, RPanic) => (d1, u1, RPanic)
  | (d1, u1, ROk WConsumed) => (d1, u1, ROk false)
  | (d1, u1, ROk WComplete) => (d1, u1, ROk true)
  | (d1, u1, ROk WMaybeParity) =>
      match repair_loop (S (N.to_nat (v_tf u1))) u1 d1 with
      | (d2, u2, ROk _) => (d2, u2, ROk (v_rf u2 =? 0))
      | (d2, u2, RErr e) => (d2, u2, RErr e)
      | (d2, u2, RPanic) => (d2, u2, RPanic)
      end
  end.

Definition v1_done (u : v1) (d : dev) : dev * res nat :=
  if negb (v_rf u =? 0) then (d, RErr MCheckFailNotDone) else
  match load_header m (v_fw u) d with
  | (d1, None) => (d1, RErr (last_err d1))
  | (d1, Some None) => (d1, RErr MUnexpectedMissingHeader)
  | (d1, Some (Some h)) =>
      match crc_valid m (v_fw u) h d1 with
      | (d2, RErr e) => (d2, RErr e) | (d2, RPanic) => (d2, RPanic)
      | (d2, ROk _) =>
          match mark m (v_fw u) KComplete d2 with
          | (d3, ROk _) => match mark m (v_par u) KComplete d3 with (d4, ROk _) => (d4, ROk (v_fw u)) | (d4, RErr e) => (d4, RErr e) | (d4, RPanic) => (d4, RPanic) end
          | (d3, RErr e) => (d3, RErr e) | (d3, RPanic) => (d3, RPanic)
          end
      end
  end.
End V.

(* ---------------------------------------------------------------- naive start / recovery (shares alloc_slotpair etc. with Mgr.v) *)
Definition naive_start (m : mgr) (size count : N) (d : dev) : dev * res v1 :=
  match reasonably_sized m size count with
  | Some e => (d, RErr e)
  | None =>
      let ps := N.min ((m_size m - DATA_REGION_OFFSET) / size) MAX_SEGMENTS in
      match alloc_slotpair m d with
      | (d1, RErr e) => (d1, RErr e) | (d1, RPanic) => (d1, RPanic)
      | (d1, ROk (a, b)) =>
          match prog_word m a KIND_OFFSET KIND_FIRMWARE d1 with
          | (d2, RErr e) => (d2, RErr e) | (d2, RPanic) => (d2, RPanic)
          | (d2, ROk _) =>
              match set_layout m a count size d2 with
              | (d3, RErr e) => (d3, RErr e) | (d3, RPanic) => (d3, RPanic)
              | (d3, ROk _) =>
                  match prog_word m b KIND_OFFSET KIND_PARITY d3 with
                  | (d4, RErr e) => (d4, RErr e) | (d4, RPanic) => (d4, RPanic)
                  | (d4, ROk _) =>
                      match set_layout m b ps size d4 with
                      | (d5, RErr e) => (d5, RErr e) | (d5, RPanic) => (d5, RPanic)
                      | (d5, ROk _) => (d5, ROk (mkv1 a b size count count ps ps (Some size) (Some size)))
                      end
                  end
              end
          end
      end
  end.

(* naive try_recover_inner: same selection and remediation as the matrix back-end WITHOUT the parity-count guard, then the two
   status tables are counted *)
Definition naive_recover_inner (m : mgr) (d : dev) : dev * res (option v1) :=
  match load_headers m d with
  | (d1, None) => (d1, RErr (last_err d1))
  | (d1, Some hs) =>
      match Recover.two_newest hs with
      | (Some (ni, nh), Some (si, sh)) =>
          if Recover.is_awip nh && negb (Recover.kind_is_fw nh) && Recover.is_awip sh && Recover.kind_is_fw sh
             && (Slots.hsize nh =? Slots.hsize sh)
             && (match reasonably_sized m (Slots.hsize sh) (Slots.hcount sh) with None => true | Some _ => false end)
          then
            match remediate_from m ni si (Slots.indexed hs) d1 with
            | (d2, RErr e) => (d2, RErr e) | (d2, RPanic) => (d2, RPanic)
            | (d2, ROk _) =>
                let cnt_of (slot : nat) (d0 : dev) : dev * option N :=
                  match d_read d0 (base m slot + NUMBER_OF_SEGMENTS_OFFSET) 4 with
                  | (d', None) => (d', None)
                  | (d', Some c) => (d', Some (if (1 <=? c) && (c <=? MAX_SEGMENTS) then c else 0)) end in
                match cnt_of si d2 with
                | (d3, None) => (d3, RErr (last_err d3))
                | (d3, Some cf) =>
                    match load_table m (S (N.to_nat (cf / 128))) si 0 cf [] d3 with
                    | (d4, None) => (d4, RErr (last_err d4))
                    | (d4, Some hf) =>
                        match cnt_of ni d4 with
                        | (d5, None) => (d5, RErr (last_err d5))
                        | (d5, Some cp) =>
                            match load_table m (S (N.to_nat (cp / 128))) ni 0 cp [] d5 with
                            | (d6, None) => (d6, RErr (last_err d6))
                            | (d6, Some hp) =>
                                let fd := N.of_nat (length hf) in let pd := N.of_nat (length hp) in
                                (d6, ROk (Some (mkv1 si ni (Slots.hsize sh) (Slots.hcount sh) (Slots.hcount sh - fd)
                                                     (Slots.hcount nh) (Slots.hcount nh - pd) None None)))
                            end
                        end
                    end
                end
            end
          else (d1, ROk None)
      | _ => (d1, ROk None)
      end
  end.
Definition naive_recover (m : mgr) (d : dev) : dev * res (option v1) :=
  match naive_recover_inner m d with
  | (d1, ROk None) =>
      match cancel_all_ext_pending m d1 with
      | (d2, ROk _) => (d2, ROk None) | (d2, RErr e) => (d2, RErr e) | (d2, RPanic) => (d2, RPanic) end
  | r => r
  end.
