From Coq Require Import List NArith ZArith Arith Bool Lia.
Require Import Slots SlotsProof RingA Exact RingB Recover Idem Boot Life Life2 Life3 Life4 Life5 Sound Sound2 Decide RingArith Sound3 Sound4 Sound5 Sound6.
Import ListNotations.

Section Complete.
Variable NS : nat.
Hypothesis HN : (4 <= NS)%nat.
Variable fits : N -> N -> bool.

(* what recovery checks beyond "newest pair" *)
Definition geom_ok (sl : slots) (f p : nat) : Prop :=
  exists hf hp, hd_at sl f hf /\ hd_at sl p hp /\ hsize hp = hsize hf /\ fits (hsize hf) (hcount hf) = true /\ (hcount hp <= 2048)%N.

Lemma newest_pair_recovered sl f p : seq_distinct (indexed sl) -> newest_pair sl f p -> geom_ok sl f p ->
  fst (recover_inner fits sl) = Some (f, p).
Proof.
  intros SD (hf & hp & Hf & Hp & Af & Ap & Kf & Kp & Nfp & Lt & Oth) (hf' & hp' & Hf' & Hp' & Esz & Fit & Cap).
  rewrite <- (hd_at_fun _ _ _ _ Hf Hf') in *. rewrite <- (hd_at_fun _ _ _ _ Hp Hp') in *. clear hf' hp' Hf' Hp'.
  pose proof (two_newest_top2 sl SD) as T. unfold recover_inner.
  assert (If : In (f, hf) (indexed sl)) by (apply indexed_iff; exact Hf).
  assert (Ip : In (p, hp) (indexed sl)) by (apply indexed_iff; exact Hp).
  assert (CLS : forall y, In y (indexed sl) -> y = (f, hf) \/ y = (p, hp) \/ (hseq (snd y) < hseq hf)%N).
  { intros [i h] Hy. pose proof Hy as Hy'. apply indexed_iff in Hy'. destruct (Nat.eq_dec i f) as [->|Nf]; [left; f_equal; apply (hd_at_fun _ _ _ _ Hy' Hf)|].
    destruct (Nat.eq_dec i p) as [->|Np]; [right; left; f_equal; apply (hd_at_fun _ _ _ _ Hy' Hp)|].
    right; right. cbn [snd]. apply (Oth i (hseq h) Nf Np). apply seqat_hd. exists h; auto. }
  destruct (two_newest sl) as [[nw|] sec]; cbn [Top2] in T.
  2:{ destruct sec; [contradiction| rewrite T in If; contradiction]. }
  destruct T as (Hnw & Hmax & Hsec).
  assert (Enw : nw = (p, hp)).
  { pose proof (Hmax (p, hp) Ip) as Q. cbn [snd] in Q. destruct (CLS nw Hnw) as [->|[->|C]]; [cbn [snd] in Q; lia| reflexivity| cbn [snd] in *; lia]. }
  subst nw. destruct sec as [s2'|].
  2:{ specialize (Hsec (f, hf) If). inversion Hsec. congruence. }
  destruct Hsec as (Hs2 & Hs2n & Hs2m).
  assert (Es : s2' = (f, hf)).
  { assert (Q : (hseq (snd (f, hf)) <= hseq (snd s2'))%N) by (apply Hs2m; [exact If| intros C; inversion C; congruence]).
    cbn [snd] in Q. destruct (CLS s2' Hs2) as [->|[->|C]]; [reflexivity| contradiction| lia]. }
  subst s2'. unfold is_awip, kind_is_fw. apply N.leb_le in Cap. rewrite Af, Ap, Kf, Kp, Esz, N.eqb_refl, Fit, Cap. reflexivity.
Qed.

Definition lstate := (slots * option (nat * nat))%type.
Definition lkeep (i : nat) (l : option (nat * nat)) := match l with Some (f, p) => if Nat.eqb i f || Nat.eqb i p then None else l | None => None end.

(* ghost `latest`: the pair of the latest start attempt if it ran to completion and was since neither completed nor cancelled *)
Inductive lstep : lstate -> lstate -> Prop :=
| ls_e1b sl l a b s1 s2 : nowrap sl -> alloc_repaired sl = Ok (a, b, s1, s2) -> lstep (sl, l) (setnth sl b None, None)
| ls_e2 sl l a b s1 s2 : nowrap sl -> alloc_repaired sl = Ok (a, b, s1, s2) -> lstep (sl, l) (setnth (setnth sl a None) b None, None)
| ls_h1 sl l a b s1 s2 sz cnt : nowrap sl -> alloc_repaired sl = Ok (a, b, s1, s2) ->
    lstep (sl, l) (setnth (setnth sl a (Some (mkhdr Firmware s1 sz cnt EInProgress IInProgress Untested))) b None, None)
| ls_start sl l a b s1 s2 sz cnt cap : nowrap sl -> alloc_repaired sl = Ok (a, b, s1, s2) -> fits sz cnt = true -> (cap <= 2048)%N ->
    lstep (sl, l) (setnth (setnth sl a (Some (mkhdr Firmware s1 sz cnt EInProgress IInProgress Untested))) b
                          (Some (mkhdr Parity s2 sz cap EInProgress IInProgress Untested)), Some (a, b))
| ls_abort sl l i h : hd_at sl i h -> ext_inprogress h = true -> lstep (sl, l) (setnth sl i (Some (with_ext h EAborted)), lkeep i l)
| ls_complete sl l i h : hd_at sl i h -> lstep (sl, l) (setnth sl i (Some (with_ext h EComplete)), lkeep i l)
| ls_mark sl l i h h' : hd_at sl i h -> ~ awip h -> hseq h' = hseq h -> lstep (sl, l) (setnth sl i (Some h'), l)
| ls_recover sl l r sl' : try_recover fits sl = (r, sl') -> lstep (sl, l) (sl', match l with Some _ => r | None => None end).

Record LI (s : lstate) : Prop := {
  LI_reach : reach NS (fst s);
  LI_latest : forall f p, snd s = Some (f, p) -> newest_pair (fst s) f p /\ geom_ok (fst s) f p
}.

Lemma geom_keep sl sl' f p : geom_ok sl f p -> slot sl' f = slot sl f -> slot sl' p = slot sl p -> geom_ok sl' f p.
Proof.
  intros (hf & hp & A & B & R) Sf Sp. exists hf, hp. split; [apply hd_at_slot; rewrite Sf; apply hd_at_slot; exact A|].
  split; [apply hd_at_slot; rewrite Sp; apply hd_at_slot; exact B| exact R].
Qed.

Lemma LI_upd sl l l' i h h' : LI (sl, l) -> hd_at sl i h -> hseq h' = hseq h ->
  (forall f p, l' = Some (f, p) -> l = Some (f, p) /\ i <> f /\ i <> p) -> LI (setnth sl i (Some h'), l').
Proof.
  intros L Hh Hs Ni. pose proof (hd_at_lt _ _ _ Hh) as Li.
  assert (SQ : forall j, seqat (setnth sl i (Some h')) j = seqat sl j) by (intros j; apply (seqat_upd sl i h h' j Hh Hs)).
  constructor; cbn [fst snd].
  - apply (reach_sub NS sl); [apply L|]. split; [apply setnth_length|]. intros k s. now rewrite SQ.
  - intros f p E'. destruct (Ni f p E') as (E & Nf & Np). destruct (LI_latest _ L f p E) as [NP G]. cbn [fst] in *.
    assert (Sf : slot (setnth sl i (Some h')) f = slot sl f).
    { rewrite (slot_set sl i (Some h') f Li). destruct (Nat.eqb_spec f i) as [X|X]; [exfalso; apply Nf; symmetry; exact X| reflexivity]. }
    assert (Sp : slot (setnth sl i (Some h')) p = slot sl p).
    { rewrite (slot_set sl i (Some h') p Li). destruct (Nat.eqb_spec p i) as [X|X]; [exfalso; apply Np; symmetry; exact X| reflexivity]. }
    split; [apply (newest_pair_keep sl); [exact NP| exact Sf| exact Sp| intros j s _ _; now rewrite SQ]| apply (geom_keep sl); assumption].
Qed.

Lemma lkeep_some i l f p : lkeep i l = Some (f, p) -> l = Some (f, p) /\ i <> f /\ i <> p.
Proof.
  unfold lkeep. destruct l as [[f0 p0]|]; [|discriminate]. destruct (Nat.eqb_spec i f0), (Nat.eqb_spec i p0); cbn; try discriminate.
  intros Q; inversion Q; subst. auto.
Qed.


Lemma reach_start_facts sl a b s1 s2 : reach NS sl -> nowrap sl -> alloc_repaired sl = Ok (a, b, s1, s2) ->
  length sl = NS /\ (a < length sl)%nat /\ (b < length sl)%nat /\ a <> b /\ (s1 < s2)%N /\
  (forall x s, x <> a -> x <> b -> seqat sl x = Some s -> (s < s1)%N).
Proof.
  intros R HW EA. destruct (reach_exact NS sl ltac:(lia) R) as [Ln E].
  pose proof (alloc_form_unique sl a b s1 s2 HW EA) as HF.
  set (h0 := mkhdr Firmware s1 0 0 EInProgress IInProgress Untested). set (h0' := mkhdr Parity s2 0 0 EInProgress IInProgress Untested).
  destruct (VExact_alloc sl a b s1 s2 h0 h0' ltac:(lia) E HW HF eq_refl eq_refl) as (La & Lb & Nab & S12 & Hoth & _).
  repeat split; assumption.
Qed.

Theorem lstep_LI s s' : LI s -> lstep s s' -> LI s'.
Proof.
  intros L S. destruct S.
  - destruct (reach_start_facts sl a b s1 s2 (LI_reach _ L) H H0) as (Ln & La & Lb & _).
    constructor; cbn [fst snd]; [|intros ? ? X; discriminate]. apply (reach_sub NS sl); [apply L| apply sub_erase; exact Lb].
  - destruct (reach_start_facts sl a b s1 s2 (LI_reach _ L) H H0) as (Ln & La & Lb & _).
    constructor; cbn [fst snd]; [|intros ? ? X; discriminate].
    apply (reach_sub NS (setnth sl a None)); [apply (reach_sub NS sl); [apply L| apply sub_erase; exact La]| apply sub_erase; rewrite setnth_length; exact Lb].
  - destruct (reach_start_facts sl a b s1 s2 (LI_reach _ L) H H0) as (Ln & La & Lb & _).
    constructor; cbn [fst snd]; [|intros ? ? X; discriminate].
    set (h1 := mkhdr Firmware s1 sz cnt EInProgress IInProgress Untested). set (h2 := mkhdr Parity s2 sz 0 EInProgress IInProgress Untested).
    rewrite <- (setnth_twice (setnth sl a (Some h1)) b (Some h2) None).
    apply (reach_sub NS (setnth (setnth sl a (Some h1)) b (Some h2))); [apply (reach_start NS sl a b s1 s2 h1 h2 (LI_reach _ L) H H0 eq_refl eq_refl)|].
    apply sub_erase. rewrite !setnth_length. exact Lb.
  - destruct (reach_start_facts sl a b s1 s2 (LI_reach _ L) H H0) as (Ln & La & Lb & Nab & S12 & Hoth).
    set (h1 := mkhdr Firmware s1 sz cnt EInProgress IInProgress Untested). set (h2 := mkhdr Parity s2 sz cap EInProgress IInProgress Untested).
    assert (Ha : hd_at (setnth (setnth sl a (Some h1)) b (Some h2)) a h1).
    { apply hd_at_set. destruct (Nat.eqb_spec a b); [contradiction|]. apply hd_at_set. rewrite Nat.eqb_refl. auto. }
    assert (Hb : hd_at (setnth (setnth sl a (Some h1)) b (Some h2)) b h2) by (apply hd_at_set; rewrite Nat.eqb_refl, setnth_length; auto).
    constructor; cbn [fst snd].
    + apply (reach_start NS sl a b s1 s2 h1 h2 (LI_reach _ L) H H0 eq_refl eq_refl).
    + intros f p Q. inversion Q; subst f p. split.
      * exists h1, h2. repeat (split; [first [assumption| reflexivity]|]). cbn [h1 hseq]. intros j sj Nja Njb Sj.
        rewrite seqat_two in Sj by assumption. destruct (Nat.eqb_spec j b); [contradiction|]. destruct (Nat.eqb_spec j a); [contradiction|]. apply (Hoth j sj Nja Njb Sj).
      * exists h1, h2. split; [exact Ha|]. split; [exact Hb|]. split; [reflexivity|]. split; [exact H1| assumption].
  - apply (LI_upd sl l (lkeep i l) i h (with_ext h EAborted) L H eq_refl). apply lkeep_some.
  - apply (LI_upd sl l (lkeep i l) i h (with_ext h EComplete) L H eq_refl). apply lkeep_some.
  - apply (LI_upd sl l l i h h' L H H1). intros f p E. split; [exact E|].
    destruct (LI_latest _ L f p E) as [(hf & hp & Hf & Hp & Af & Ap & _) _]. cbn [fst] in *.
    split; intros ->; [rewrite (hd_at_fun _ _ _ _ H Hf) in H0| rewrite (hd_at_fun _ _ _ _ H Hp) in H0]; apply H0; assumption.
  - pose proof (reach_distinct NS HN sl (LI_reach _ L)) as SD.
    destruct l as [[f p]|].
    + destruct (LI_latest _ L f p eq_refl) as [NP G]. cbn [fst] in *.
      pose proof (newest_pair_recovered sl f p SD NP G) as RI.
      unfold try_recover in H. destruct (recover_inner fits sl) as [[q|] s0] eqn:R; cbn [fst] in RI; [|discriminate]. inversion RI; subst q. inversion H; subst r sl'. clear H RI.
      destruct (recover_newest_pair fits sl f p s0 SD R) as [-> NP'].
      constructor; cbn [fst snd].
      * apply (reach_sub NS sl); [apply L|]. apply derives_sub; [unfold remediate; now rewrite map_length, combine_length, seq_length, Nat.min_id| apply remediate_derives].
      * intros f' p' Q. inversion Q; subst f' p'. split; [exact NP'|]. apply (geom_keep sl); [exact G| |];
          unfold slot; rewrite nth_error_remediate; destruct (nth_error sl _); try reflexivity; rewrite Nat.eqb_refl, ?orb_true_r; reflexivity.
    + constructor; cbn [fst snd]; [|intros ? ? X; discriminate].
      unfold try_recover in H. destruct (recover_inner fits sl) as [[[f p]|] s0] eqn:R; inversion H; subst.
      * destruct (recover_newest_pair fits sl f p sl' SD R) as [-> _].
        apply (reach_sub NS sl); [apply L|]. apply derives_sub; [unfold remediate; now rewrite map_length, combine_length, seq_length, Nat.min_id| apply remediate_derives].
      * apply (reach_sub NS sl); [apply L|]. apply derives_sub; [unfold cancel_all; now rewrite map_length| apply cancel_derives].
Qed.

Inductive lsteps : lstate -> lstate -> Prop :=
| lsteps_refl s : lsteps s s
| lsteps_more s s' s'' : lsteps s s' -> lstep s' s'' -> lsteps s s''.

(* C13: recovery returns the session whenever the latest start attempt ran to completion and that
   update has been neither completed nor cancelled since *)
Theorem c13_recover_complete_history sl f p : lsteps (repeat None NS, None) (sl, Some (f, p)) ->
  fst (try_recover fits sl) = Some (f, p).
Proof.
  intros H. assert (G : forall s0 s1, lsteps s0 s1 -> LI s0 -> LI s1).
  { intros s0 s1 HS. induction HS as [|x y z _ IH S]; intros L0; [exact L0| apply (lstep_LI y z (IH L0) S)]. }
  assert (L0 : LI (repeat None NS, None)) by (constructor; cbn [fst snd]; [constructor| intros ? ? X; discriminate]).
  pose proof (G _ _ H L0) as L. destruct (LI_latest _ L f p eq_refl) as [NP Gm]. cbn [fst] in *.
  pose proof (newest_pair_recovered sl f p (reach_distinct NS HN sl (LI_reach _ L)) NP Gm) as RI.
  unfold try_recover. destruct (recover_inner fits sl) as [[q|] s0]; cbn [fst] in *; [exact RI| discriminate].
Qed.
End Complete.
Print Assumptions c13_recover_complete_history.
