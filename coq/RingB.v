From Coq Require Import List NArith ZArith Arith Bool Lia.
Require Import Slots SlotsProof RingA Exact.
Import ListNotations.
Open Scope Z_scope.

Lemma VSorted_base sl : (0 < length sl)%nat -> VSorted sl -> indexed sl <> [] ->
  exists b, (b < length sl)%nat /\ forall i j hi hj, In (i, hi) (indexed sl) -> In (j, hj) (indexed sl) ->
       ((hseq hi < hseq hj)%N <-> (off (length sl) b i < off (length sl) b j)%nat).
Proof.
  intros Hn0 (vp & H1 & H2 & H3) Hne.
  pose proof (low_spec sl) as HL. destruct (low_of sl) as [[lo hl]|]; [|contradiction].
  destruct HL as [HLin HLmin]. pose proof (indexed_lt _ _ _ HLin) as Hlo. exists lo. split; [exact Hlo|].
  assert (Slo : seqat sl lo = Some (hseq hl)) by (apply seqat_indexed; exists hl; split; [exact HLin| reflexivity]).
  assert (OFF : forall i h, In (i, h) (indexed sl) -> Z.of_nat (off (length sl) lo i) = vp i - vp lo).
  { intros i h Hin. assert (Si : seqat sl i = Some (hseq h)) by (apply seqat_indexed; exists h; split; [exact Hin| reflexivity]).
    pose proof (indexed_lt _ _ _ Hin) as Hi. pose proof (HLmin i h Hin) as Hle.
    pose proof (H1 i _ Si) as Mi. pose proof (H1 lo _ Slo) as Ml. pose proof (H3 i lo _ _ Si Slo) as Wn.
    assert (vp lo <= vp i). { destruct (Z_le_gt_dec (vp lo) (vp i)); [assumption|]. exfalso. assert (hseq h < hseq hl)%N by (apply (H2 i lo _ _ Si Slo); lia). lia. }
    unfold off. rewrite Nat2Z.inj_mod, Nat2Z.inj_sub, Nat2Z.inj_add by lia. rewrite <- Mi, <- Ml.
    replace (vp i mod Z.of_nat (length sl) + Z.of_nat (length sl) - vp lo mod Z.of_nat (length sl))
       with ((vp i mod Z.of_nat (length sl) - vp lo mod Z.of_nat (length sl)) + 1 * Z.of_nat (length sl)) by lia.
    rewrite Z_mod_plus_full, <- Zminus_mod. apply Z.mod_small. lia. }
  intros i j hi hj Hi Hj.
  assert (Si : seqat sl i = Some (hseq hi)) by (apply seqat_indexed; exists hi; split; [exact Hi| reflexivity]).
  assert (Sj : seqat sl j = Some (hseq hj)) by (apply seqat_indexed; exists hj; split; [exact Hj| reflexivity]).
  pose proof (OFF i hi Hi). pose proof (OFF j hj Hj). pose proof (H2 i j _ _ Si Sj). lia.
Qed.

(* ---------- every arrangement any history can produce ---------- *)
Definition sub (sl' sl : slots) : Prop := length sl' = length sl /\ forall i s, seqat sl' i = Some s -> seqat sl i = Some s.

Inductive reach (N : nat) : slots -> Prop :=
| reach_blank : reach N (repeat None N)
| reach_sub sl sl' : reach N sl -> sub sl' sl -> reach N sl'            (* status marks, erases, cancel, remediation, crash prefixes *)
| reach_start sl a b s1 s2 h1 h2 : reach N sl -> nowrap sl -> alloc_repaired sl = Ok (a, b, s1, s2) ->
    hseq h1 = s1 -> hseq h2 = s2 -> reach N (setnth (setnth sl a (Some h1)) b (Some h2)).

Lemma alloc_form_unique sl a b s1 s2 : nowrap sl -> alloc_repaired sl = Ok (a, b, s1, s2) -> alloc_form sl a b s1 s2.
Proof. intros HW E. destruct (alloc_forms sl HW) as (a' & b' & s1' & s2' & E' & F). rewrite E in E'. inversion E'; subst. exact F. Qed.

Theorem reach_exact N sl : (2 <= N)%nat -> reach N sl -> length sl = N /\ VExact sl.
Proof.
  intros HN HR. induction HR as [|sl sl' HR [IHl IHs] [Hl Hs]|sl a b s1 s2 h1 h2 HR [IHl IHs] HW EA E1 E2].
  - split; [apply repeat_length|]. exists 0.
    assert (Hnone : forall i, seqat (repeat None N) i = None).
    { intros i. unfold seqat. destruct (nth_error (repeat None N) i) as [o|] eqn:E; [|reflexivity].
      apply nth_error_In, repeat_spec in E. now subst o. }
    split; intros; rewrite Hnone in *; discriminate.
  - split; [congruence|]. apply (VExact_sub sl sl' Hl Hs IHs).
  - split; [now rewrite !setnth_length|].
    apply (VExact_alloc sl a b s1 s2 h1 h2 ltac:(lia) IHs HW (alloc_form_unique sl a b s1 s2 HW EA) E1 E2).
Qed.

Theorem reach_sorted N sl : (2 <= N)%nat -> reach N sl -> length sl = N /\ VSorted sl.
Proof. intros HN HR. destruct (reach_exact N sl HN HR) as [L E]. split; [exact L| apply VExact_VSorted; exact E]. Qed.

(* C05, header level: whatever happened before, a start never selects the fallback slot *)
Theorem c05_start_never_takes_fallback N sl f a b s1 s2 :
  (4 <= N)%nat -> reach N sl -> nowrap sl -> fallback sl = Some f ->
  alloc_repaired sl = Ok (a, b, s1, s2) -> a <> f /\ b <> f.
Proof.
  intros HN HR HW Hf EA. destruct (reach_sorted N sl ltac:(lia) HR) as [Hl HS].
  destruct (fallback_in sl f Hf) as [hf Hinf].
  destruct (VSorted_base sl ltac:(lia) HS ltac:(intros C; rewrite C in Hinf; contradiction)) as (b0 & Hb0 & HB).
  destruct (start_preserves_fallback sl f ltac:(lia) (ex_intro _ b0 (conj Hb0 HB))
              ltac:(intros i h Hin; apply (HW i); apply seqat_indexed; exists h; split; [exact Hin| reflexivity]) Hf)
    as (a' & b' & s1' & s2' & E' & Ha & Hb).
  rewrite EA in E'. inversion E'; subst. split; assumption.
Qed.
Print Assumptions c05_start_never_takes_fallback.
