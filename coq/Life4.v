From Coq Require Import List NArith ZArith Arith Bool Lia Sorted.
Require Import Slots SlotsProof RingA Exact RingB Recover Boot Life Life2 Life3.
Import ListNotations.

Lemma setnth_twice {A} (l : list A) i x y : setnth (setnth l i x) i y = setnth l i y.
Proof. revert i. induction l as [|a l IH]; intros [|i]; cbn; try reflexivity. now rewrite IH. Qed.
Lemma odrop_some i o j : odrop i o = Some j -> o = Some j /\ j <> i.
Proof. unfold odrop. destruct o as [k|]; [|discriminate]. destruct (Nat.eqb_spec k i); [discriminate|]. intros H; inversion H; subst. auto. Qed.
Lemma odrop_idem i o : odrop i (odrop i o) = odrop i o.
Proof. unfold odrop. destruct o as [k|]; [|reflexivity]. destruct (Nat.eqb k i) eqn:E; [reflexivity| now rewrite E]. Qed.
Lemma remove_idem i l : remove Nat.eq_dec i (remove Nat.eq_dec i l) = remove Nat.eq_dec i l.
Proof. apply notin_remove. apply remove_In. Qed.
Lemma gdrop_idem i g : gdrop i (gdrop i g) = gdrop i g.
Proof. unfold gdrop. cbn [copy ack conf]. now rewrite !odrop_idem, remove_idem. Qed.

Section Start.
Variable NS : nat.
Hypothesis HN : (4 <= NS)%nat.
Notation Inv2 := (Inv2 NS).

Lemma alloc_facts sl g lv a b s1 s2 : Inv2 (sl, g, lv) -> nowrap sl -> alloc_repaired sl = Ok (a, b, s1, s2) ->
  length sl = NS /\ (a < length sl)%nat /\ (b < length sl)%nat /\ a <> b /\ (s1 < s2)%N /\
  (forall x s, x <> a -> x <> b -> seqat sl x = Some s -> (s < s1)%N).
Proof.
  intros J HW EA. destruct (reach_exact NS sl ltac:(lia) (J_reach _ _ J)) as [Hl HS].
  pose proof (alloc_form_unique sl a b s1 s2 HW EA) as HF.
  set (h0 := mkhdr Firmware s1 0 0 EInProgress IInProgress Untested). set (h0' := mkhdr Parity s2 0 0 EInProgress IInProgress Untested).
  destruct (VExact_alloc sl a b s1 s2 h0 h0' ltac:(lia) HS HW HF eq_refl eq_refl) as (La & Lb & Nab & S12 & Hoth & _).
  repeat split; assumption.
Qed.

Lemma step_start sl g lv a b s1 s2 sz cnt cap : Inv2 (sl, g, lv) -> nowrap sl -> alloc_repaired sl = Ok (a, b, s1, s2) ->
  Inv2 (setnth (setnth sl a (Some (mkhdr Firmware s1 sz cnt EInProgress IInProgress Untested))) b
               (Some (mkhdr Parity s2 sz cap EInProgress IInProgress Untested)), gdrop b (gdrop a g), Some (a, b)).
Proof.
  intros J HW EA. destruct (alloc_facts sl g lv a b s1 s2 J HW EA) as (Hl & La & Lb & Nab & S12 & Hoth).
  set (h1 := mkhdr Firmware s1 sz cnt EInProgress IInProgress Untested). set (h2 := mkhdr Parity s2 sz cap EInProgress IInProgress Untested).
  set (sl2 := setnth (setnth sl a (Some h1)) b (Some h2)).
  assert (SL : forall j, slot sl2 j = if Nat.eqb j b then Some h2 else if Nat.eqb j a then Some h1 else slot sl j).
  { intros j. unfold sl2. rewrite slot_set by (rewrite setnth_length; exact Lb). destruct (Nat.eqb j b); [reflexivity|]. apply slot_set; exact La. }
  assert (SQ : forall j, j <> a -> j <> b -> seqat sl2 j = seqat sl j).
  { intros j Na Nb. rewrite !seqat_slot, SL. destruct (Nat.eqb_spec j b); [contradiction|]. destruct (Nat.eqb_spec j a); [contradiction| reflexivity]. }
  assert (GC : forall j, gcls (gdrop b (gdrop a g)) j = if Nat.eqb j b then (false, false, false) else if Nat.eqb j a then (false, false, false) else gcls g j).
  { intros j. rewrite !gcls_drop. reflexivity. }
  assert (CF : forall j, In j (conf (gdrop b (gdrop a g))) -> In j (conf g) /\ j <> a /\ j <> b).
  { unfold gdrop; cbn [conf]. intros j H. apply in_remove in H. destruct H as [H Nb]. apply in_remove in H. tauto. }
  assert (CA : forall i, copy (gdrop b (gdrop a g)) = Some i \/ ack (gdrop b (gdrop a g)) = Some i -> (copy g = Some i \/ ack g = Some i) /\ i <> a /\ i <> b).
  { unfold gdrop; cbn [copy ack]. intros i [H|H]; apply odrop_some in H; destruct H as [H Nb]; apply odrop_some in H; destruct H as [H Na]; auto. }
  constructor; cbn [fst snd]; fold sl2.
  - apply (reach_start NS sl a b s1 s2 h1 h2 (J_reach _ _ J) HW EA eq_refl eq_refl).
  - intros j. rewrite SL, GC. destruct (Nat.eqb j b); [reflexivity|]. destruct (Nat.eqb j a); [reflexivity|]. apply (J_cls _ _ J).
  - destruct (J_one _ _ J) as [H|H]; cbn [fst snd] in H; [left|right]; unfold gdrop; cbn [copy ack]; rewrite H; reflexivity.
  - unfold gdrop; cbn [conf]. apply (SS_mono (fun x y => seqlt sl y x)).
    + intros x y Hx Hy H. destruct (CF x Hx) as (_ & ? & ?). destruct (CF y Hy) as (_ & ? & ?). apply (seqlt_agree sl); auto.
    + apply SS_remove, SS_remove. apply (J_desc _ _ J).
  - intros i j Hi Hj. destruct (CA i Hi) as (Hi' & ? & ?). destruct (CF j Hj) as (Hj' & ? & ?).
    apply (seqlt_agree sl); auto. apply (J_newer _ _ J); assumption.
  - intros f p E. inversion E; subst f p. exists h1, h2.
    split; [apply hd_at_slot; rewrite SL; destruct (Nat.eqb_spec a b); [contradiction| now rewrite Nat.eqb_refl]|].
    split; [apply hd_at_slot; rewrite SL; now rewrite Nat.eqb_refl|].
    repeat (split; [first [reflexivity| assumption]|]). cbn [h1 hseq]. intros j sj Na Nb Hj. rewrite SQ in Hj by assumption. apply (Hoth j sj Na Nb Hj).
Qed.

Theorem step_inv2 st st' : Inv2 st -> step st st' -> Inv2 st'.
Proof.
  intros J S. destruct S.
  - destruct (alloc_facts _ _ _ _ _ _ _ J H H0) as (_ & La & _). apply (inv2_erase NS sl g lv a None J La). intros ? ? X; discriminate.
  - destruct (alloc_facts _ _ _ _ _ _ _ J H H0) as (_ & _ & Lb & _). apply (inv2_erase NS sl g lv b None J Lb). intros ? ? X; discriminate.
  - destruct (alloc_facts _ _ _ _ _ _ _ J H H0) as (_ & La & Lb & _).
    apply (inv2_erase NS _ _ None b None); [|rewrite setnth_length; exact Lb| intros ? ? X; discriminate].
    apply (inv2_erase NS sl g lv a None J La). intros ? ? X; discriminate.
  - destruct (alloc_facts _ _ _ _ _ _ _ J H H0) as (_ & La & Lb & _).
    pose proof (step_start sl g lv a b s1 s2 sz cnt 0%N J H H0) as J2.
    rewrite <- (setnth_twice _ b (Some (mkhdr Parity s2 sz 0 EInProgress IInProgress Untested)) None), <- (gdrop_idem b (gdrop a g)).
    apply (inv2_erase NS _ _ (Some (a, b)) b None J2); [rewrite !setnth_length; exact Lb| intros ? ? X; discriminate].
  - apply (step_start sl g lv a b s1 s2 sz cnt cap J H H0).
  - apply (step_abort NS sl g lv lv i h J H H0). intros f p E. destruct (H1 f p E). auto.
  - apply (step_abort NS sl g lv None i h J H H0). intros ? ? X; discriminate.
  - apply (inv2_erase NS sl g lv i lv J (hd_at_lt _ _ _ H)). intros f p E. destruct (H1 f p E). auto.
  - apply (inv2_lv NS sl g lv _ J). intros f' p' E. inversion E; subst. exact H.
  - apply (inv2_lv NS sl g lv _ J). intros ? ? X; discriminate.
  - apply (step_complete_fw NS sl g f p hf J H H0 H1).
  - apply (step_complete NS sl g f p hf hp J H H0 H1 H2).
  - apply (step_copydone NS sl g lv i h J H H0).
  - apply (step_confirm NS sl g lv i h J H H0).
  - apply (step_confirm NS sl g lv i h J H H0).
Qed.

Inductive steps : state -> state -> Prop :=
| steps_refl st : steps st st
| steps_more st st' st'' : steps st st' -> step st' st'' -> steps st st''.

(* C12: along every history of the protocol (crash prefixes included) the two queries follow the ghost lifecycle *)
Theorem c12_queries_follow_history st : steps (repeat None NS, mkg None None [], None) st ->
  bl_boot_status (fst (fst st)) = expected_status (snd (fst st)) /\ fallback (fst (fst st)) = hd_error (conf (snd (fst st))).
Proof.
  intros H. apply (queries_track_lifecycle NS HN). apply Inv2_Inv.
  assert (G : forall st0 st1, steps st0 st1 -> Inv2 st0 -> Inv2 st1).
  { intros st0 st1 HS. induction HS as [|s0 s1 s2 _ IH S]; intros J0; [exact J0| apply (step_inv2 s1 s2 (IH J0) S)]. }
  apply (G _ _ H). apply Inv2_init.
Qed.

(* the most recently confirmed image is never dropped from the ghost list by a start (C05 at work) *)
Theorem start_keeps_latest_confirmed sl g lv a b s1 s2 c rest : Inv2 (sl, g, lv) -> nowrap sl ->
  alloc_repaired sl = Ok (a, b, s1, s2) -> conf g = c :: rest -> hd_error (conf (gdrop b (gdrop a g))) = Some c.
Proof.
  intros J HW EA EC. destruct (queries_track_lifecycle NS HN (sl, g, lv) (Inv2_Inv NS _ J)) as [_ F]. cbn [fst snd] in F. rewrite EC in F. cbn in F.
  destruct (c05_start_never_takes_fallback NS sl c a b s1 s2 HN (J_reach _ _ J) HW F EA) as [Na Nb].
  unfold gdrop; cbn [conf]. rewrite EC. cbn [remove]. destruct (Nat.eq_dec a c); [congruence|]. cbn [remove]. destruct (Nat.eq_dec b c); [congruence| reflexivity].
Qed.
End Start.
Print Assumptions c12_queries_follow_history.
Print Assumptions start_keeps_latest_confirmed.
