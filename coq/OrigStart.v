(* C20: the two allocations of the deprecated manager's start, composed.  Each allocation re-reads the ring, overwrites the
   position find_oldest names and gives it the number find_oldest names (Orig.orig_alloc_one); on a consistent ring the two
   positions are the two that follow the newest slot and the numbers are the next two. *)
From Coq Require Import List NArith Arith Bool Lia.
Require Import OrigRing.
Import ListNotations.

Definition rupd (h : ring) (i : nat) (s : N) : ring := fun j => if Nat.eqb j i then Some s else h j.
Definition place (N_ : nat) (h : ring) : (nat * N) * ring := let r := find_oldest N_ h in (r, rupd h (fst r) (snd r)).

Lemma iter_next_shift k s : iter_next (S k) s = iter_next k (next_seq s).
Proof. induction k as [|k IH]; [reflexivity|]. cbn [iter_next] in *. rewrite IH. reflexivity. Qed.

Lemma add_mod_cases N_ p k : (p < N_)%nat -> (k < N_)%nat ->
  ((p + k) mod N_ = if (p + k <? N_)%nat then p + k else p + k - N_)%nat.
Proof.
  intros Hp Hk. destruct (Nat.ltb_spec (p + k) N_) as [L|L]; [apply Nat.mod_small; exact L|].
  replace (p + k)%nat with ((p + k - N_) + 1 * N_)%nat at 1 by lia. rewrite Nat.mod_add by lia. apply Nat.mod_small. lia.
Qed.

Lemma add_mod_inj N_ p k1 k2 : (p < N_)%nat -> (k1 < N_)%nat -> (k2 < N_)%nat -> ((p + k1) mod N_ = (p + k2) mod N_)%nat -> k1 = k2.
Proof.
  intros Hp H1 H2. rewrite !add_mod_cases by assumption.
  destruct (Nat.ltb_spec (p + k1) N_), (Nat.ltb_spec (p + k2) N_); lia.
Qed.

Lemma all_blank N_ h p s0 : (2 <= N_)%nat -> consistent N_ h p 0 s0 -> forall i, (i < N_)%nat -> h i = None.
Proof.
  intros H2 (Hp & _ & H) i Hi.
  assert (E : exists k, (k < N_)%nat /\ i = ((p + k) mod N_)%nat).
  { destruct (Nat.le_gt_cases p i).
    - exists (i - p)%nat. split; [lia|]. rewrite add_mod_cases by lia. destruct (Nat.ltb_spec (p + (i - p)) N_); lia.
    - exists (i + N_ - p)%nat. split; [lia|]. rewrite add_mod_cases by lia. destruct (Nat.ltb_spec (p + (i + N_ - p)) N_); lia. }
  destruct E as (k & Hk & ->). rewrite (H k Hk). reflexivity.
Qed.

(* one allocation keeps the ring consistent: one slot more, or - on a full ring - the run shifted by one *)
Lemma place_consistent N_ h p f s0 : (2 <= N_)%nat -> (N.of_nat N_ < 4294967295)%N -> consistent N_ h p f s0 ->
  let h1 := snd (place N_ h) in
  if Nat.eqb f 0 then consistent N_ h1 0 1 0
  else if Nat.eqb f N_ then consistent N_ h1 ((p + 1) mod N_) N_ (next_seq s0)
  else consistent N_ h1 p (S f) s0.
Proof.
  intros H2 HN C. unfold place. cbn [snd]. rewrite (ring_find_oldest N_ h p f s0 H2 HN C). cbn [fst snd].
  pose proof C as (Hp & Hf & H).
  destruct (Nat.eqb_spec f 0) as [F0|F0].
  - subst f. split; [lia|]. split; [lia|]. intros k Hk. cbn [Nat.add]. rewrite Nat.mod_small by exact Hk. unfold rupd.
    destruct (Nat.eqb_spec k 0) as [->|K0]; [reflexivity|].
    destruct (Nat.ltb_spec k 1); [lia|]. apply (all_blank N_ h p s0 H2 C k Hk).
  - destruct (Nat.eqb_spec f N_) as [FN|FN].
    + subst f. split; [apply Nat.mod_upper_bound; lia|]. split; [lia|]. intros k Hk.
      rewrite Nat.add_mod_idemp_l by lia. destruct (Nat.ltb_spec k N_); [|lia]. unfold rupd.
      destruct (Nat.eqb_spec ((p + 1 + k) mod N_) p) as [E|E].
      * assert (K : k = (N_ - 1)%nat).
        { destruct (Nat.eq_dec k (N_ - 1)) as [|NE]; [assumption|]. exfalso.
          assert (Q : ((p + (k + 1)) mod N_ = (p + 0) mod N_)%nat) by (rewrite Nat.add_0_r, (Nat.mod_small p) by lia; rewrite <- E at 2; f_equal; lia).
          apply add_mod_inj in Q; lia. }
        subst k. f_equal. rewrite <- iter_next_shift. replace (S (N_ - 1)) with N_ by lia.
        destruct N_ as [|n']; [lia|]. cbn [iter_next]. f_equal. f_equal. lia.
      * destruct (Nat.eq_dec k (N_ - 1)) as [K|K].
        { exfalso. apply E. subst k. replace (p + 1 + (N_ - 1))%nat with (p + 1 * N_)%nat by lia. rewrite Nat.mod_add by lia. apply Nat.mod_small. lia. }
        replace (p + 1 + k)%nat with (p + (k + 1))%nat by lia. rewrite (H (k + 1)%nat ltac:(lia)).
        destruct (Nat.ltb_spec (k + 1) N_); [|lia]. f_equal. rewrite <- iter_next_shift. f_equal. lia.
    + split; [exact Hp|]. split; [lia|]. intros k Hk. unfold rupd.
      destruct (Nat.eqb_spec ((p + k) mod N_) ((p + f) mod N_)) as [E|E].
      * apply add_mod_inj in E; [|lia..]. subst k. destruct (Nat.ltb_spec f (S f)); [|lia]. f_equal.
        destruct f as [|f']; [lia|]. cbn [iter_next]. f_equal. f_equal. lia.
      * assert (K : k <> f) by (intros ->; apply E; reflexivity). rewrite (H k Hk).
        destruct (Nat.ltb_spec k f), (Nat.ltb_spec k (S f)); try lia; reflexivity.
Qed.

(* the two allocations of start *)
Theorem start_takes_next_two N_ h p f s0 : (2 <= N_)%nat -> (N.of_nat N_ < 4294967295)%N -> consistent N_ h p f s0 ->
  let '((s1, q1), h1) := place N_ h in
  let '((s2, q2), _) := place N_ h1 in
  s1 = (if Nat.eqb f 0 then 0 else if Nat.eqb f N_ then p else (p + f) mod N_)%nat /\
  q1 = (if Nat.eqb f 0 then 0 else next_seq (iter_next (f - 1) s0))%N /\
  s2 = ((s1 + 1) mod N_)%nat /\ q2 = next_seq q1.
Proof.
  intros H2 HN C. pose proof (place_consistent N_ h p f s0 H2 HN C) as C1. cbv zeta in C1.
  destruct (place N_ h) as [[s1 q1] h1] eqn:P1. cbn [snd] in C1.
  assert (R1 : (s1, q1) = find_oldest N_ h) by (unfold place in P1; inversion P1; reflexivity).
  rewrite (ring_find_oldest N_ h p f s0 H2 HN C) in R1. inversion R1 as [[E1 E2]]. clear R1.
  destruct (place N_ h1) as [[s2 q2] h2] eqn:P2.
  assert (R2 : (s2, q2) = find_oldest N_ h1) by (unfold place in P2; inversion P2; reflexivity).
  pose proof C as (Hp & Hf & _).
  destruct (Nat.eqb_spec f 0) as [F0|F0].
  - rewrite (ring_find_oldest N_ h1 0 1 0 H2 HN C1) in R2. change (Nat.eqb 1 0) with false in R2. cbv iota in R2.
    destruct (Nat.eqb_spec 1 N_); [lia|]. inversion R2. cbn [Nat.add Nat.sub iter_next].
    repeat split. all: rewrite ?Nat.mod_small by lia; reflexivity.
  - destruct (Nat.eqb_spec f N_) as [FN|FN].
    + rewrite (ring_find_oldest N_ h1 _ N_ (next_seq s0) H2 HN C1) in R2.
      destruct (Nat.eqb_spec N_ 0); [lia|]. rewrite Nat.eqb_refl in R2. inversion R2. subst f.
      repeat split. rewrite <- iter_next_shift. replace (S (N_ - 1)) with N_ by lia.
      destruct N_ as [|n']; [lia|]. cbn [iter_next]. f_equal. f_equal. f_equal. lia.
    + rewrite (ring_find_oldest N_ h1 p (S f) s0 H2 HN C1) in R2. change (Nat.eqb (S f) 0) with false in R2. cbv iota in R2.
      replace (S f - 1)%nat with f in R2 by lia.
      assert (Q : iter_next f s0 = next_seq (iter_next (f - 1) s0)) by (destruct f as [|f']; [lia|]; cbn [iter_next]; f_equal; f_equal; lia).
      destruct (Nat.eqb_spec (S f) N_) as [SN|SN]; inversion R2; repeat split.
      * rewrite Nat.add_mod_idemp_l by lia. replace (p + f + 1)%nat with (p + 1 * N_)%nat by lia. rewrite Nat.mod_add by lia. symmetry. apply Nat.mod_small. lia.
      * rewrite Q. reflexivity.
      * rewrite Nat.add_mod_idemp_l by lia. f_equal. lia.
      * rewrite Q. reflexivity.
Qed.

(* non-vacuity: a full 4-slot ring rotated by 3 whose numbers run across the wrap *)
Example start_two_example :
  let h : ring := fun i => nth i [Some 0%N; Some 1%N; Some 2%N; Some 4294967294%N] None in
  consistent 4 h 3 4 4294967294 /\ fst (place 4 h) = (3%nat, 3%N) /\ fst (place 4 (snd (place 4 h))) = (0%nat, 4%N).
Proof.
  cbv zeta. split; [|split; reflexivity].
  split; [lia|]. split; [lia|]. intros k Hk. destruct k as [|[|[|[|k]]]]; try lia; reflexivity.
Qed.
Print Assumptions start_takes_next_two.
