(* Generic refinement: the fault-aware reconstructor (MRecon.v, operations may fail) over a storage instance I, on any call
   that does not end in a storage error, does exactly what the pure reconstructor (GRecon.v) does over an instance J that
   I refines.  No invariant is needed: the only conditional clause (matrix put) is discharged by the branch condition of
   the elimination loop (the stored row has its pivot bit set). *)
From Coq Require Import List NArith Arith Bool Lia.
Require MRecon GRecon.
Import ListNotations.
Open Scope N_scope.

Module M := MRecon.
Module G := GRecon.

Definition gres (r : M.result) : G.result :=
  match r with M.NeedMore => G.NeedMore | M.TooManyMissing => G.TooManyMissing | M.Done len => G.Done len end.

Definition emb {T} (s : M.rdata) (t : T) : G.gst T := G.mkg (M.n s) (M.l s) (M.bs s) (M.done s) (M.used s) t.

Section Ref.
Context {S T : Type} (I : M.msto S) (J : G.sto T) (Rst : S -> T -> Prop).

Record refines : Prop := {
  r_dget : forall c t i c' v, Rst c t -> M.m_dget I c i = (c', Some v) -> v = G.dget J t i /\ Rst c' t;
  r_pget : forall c t i c' v, Rst c t -> M.m_pget I c i = (c', Some v) -> v = G.pget J t i /\ Rst c' t;
  r_mget : forall c t i c' v, Rst c t -> M.m_mget I c i = (c', Some v) -> v = G.mget J t i /\ Rst c' t;
  r_dput : forall c t i b c', Rst c t -> M.m_dput I c i b = (c', true) -> Rst c' (G.dput J t i b);
  r_pput : forall c t i b c', Rst c t -> M.m_pput I c i b = (c', true) -> Rst c' (G.pput J t i b);
  r_mput : forall c t k r c', Rst c t -> M.bit r k = true -> M.m_mput I c k r = (c', true) -> Rst c' (G.mput J t k r) }.

Hypothesis RF : refines.

Lemma unknowns_emb s (t : T) : G.unknowns (emb s t) = M.unknowns s.
Proof. reflexivity. Qed.
Lemma is_complete_emb s (t : T) : G.is_complete (emb s t) = M.is_complete s.
Proof. reflexivity. Qed.
Lemma project_emb s (t : T) r : G.project (emb s t) r = M.project s r.
Proof. reflexivity. Qed.

Lemma strip_ref s r t : forall is c d c' d', Rst c t ->
  M.strip I s r is c d = (c', Some d') ->
  d' = fold_left (fun d i => if G.bit r i && M.done s i then N.lxor d (G.dget J t i) else d) is d /\ Rst c' t.
Proof.
  induction is as [|i tl IH]; intros c d c' d' R H; cbn [M.strip fold_left] in *.
  - inversion H; subst. split; [reflexivity| exact R].
  - change (G.bit r i) with (M.bit r i). destruct (M.bit r i && M.done s i).
    + destruct (M.m_dget I c i) as [c1 [v|]] eqn:E; [|discriminate].
      destruct (r_dget RF c t i c1 v R E) as [-> R1]. exact (IH c1 _ c' d' R1 H).
    + exact (IH c d c' d' R H).
Qed.

Lemma elim_ref t : forall wh s r d c s' c', Rst c t ->
  M.elim I s wh r d c = (s', c', true) ->
  exists t', G.elim J (emb s t) wh r d = emb s' t' /\ Rst c' t'.
Proof.
  induction wh as [|k IH]; intros s r d c s' c' R H; cbn [M.elim G.elim] in *;
    change (G.bit r) with (M.bit r); cbn [emb G.used G.store G.n G.l G.bs G.done] in *.
  - destruct (M.bit r 0) eqn:B.
    + destruct (M.used s 0).
      * destruct (M.m_pget I c 0) as [c1 [pv|]] eqn:E1; [|discriminate].
        destruct (M.m_mget I c1 0) as [c2 [rv|]] eqn:E2; [|discriminate].
        destruct (r_pget RF _ _ _ _ _ R E1) as [_ R1]. destruct (r_mget RF _ _ _ _ _ R1 E2) as [_ R2].
        inversion H; subst. exists t. split; [reflexivity| exact R2].
      * destruct (M.m_pput I c 0 d) as [c1 [|]] eqn:E1; [|discriminate].
        destruct (M.m_mput I c1 0 r) as [c2 [|]] eqn:E2; [|discriminate].
        pose proof (r_pput RF _ _ _ _ _ R E1) as R1. pose proof (r_mput RF _ _ _ _ _ R1 B E2) as R2.
        inversion H; subst. eexists. split; [reflexivity| exact R2].
    + inversion H; subst. exists t. split; [reflexivity| exact R].
  - destruct (M.bit r (Datatypes.S k)) eqn:B.
    + destruct (M.used s (Datatypes.S k)).
      * destruct (M.m_pget I c (Datatypes.S k)) as [c1 [pv|]] eqn:E1; [|discriminate].
        destruct (M.m_mget I c1 (Datatypes.S k)) as [c2 [rv|]] eqn:E2; [|discriminate].
        destruct (r_pget RF _ _ _ _ _ R E1) as [-> R1]. destruct (r_mget RF _ _ _ _ _ R1 E2) as [-> R2].
        exact (IH s _ _ c2 s' c' R2 H).
      * destruct (M.m_pput I c (Datatypes.S k) d) as [c1 [|]] eqn:E1; [|discriminate].
        destruct (M.m_mput I c1 (Datatypes.S k) r) as [c2 [|]] eqn:E2; [|discriminate].
        pose proof (r_pput RF _ _ _ _ _ R E1) as R1. pose proof (r_mput RF _ _ _ _ _ R1 B E2) as R2.
        inversion H; subst. eexists. split; [reflexivity| exact R2].
    + exact (IH s r d c s' c' R H).
Qed.

Lemma frow_ref us r t : forall js c o c' o', Rst c t ->
  M.frow I us r js c o = (c', Some o') ->
  o' = fold_left (fun o j => if G.bit r j then N.lxor o (G.dget J t (nth j us 0%nat)) else o) js o /\ Rst c' t.
Proof.
  induction js as [|j tl IH]; intros c o c' o' R H; cbn [M.frow fold_left] in *.
  - inversion H; subst. split; [reflexivity| exact R].
  - change (G.bit r j) with (M.bit r j). destruct (M.bit r j).
    + destruct (M.m_dget I c (nth j us 0%nat)) as [c1 [v|]] eqn:E; [|discriminate].
      destruct (r_dget RF _ _ _ _ _ R E) as [-> R1]. exact (IH c1 _ c' o' R1 H).
    + exact (IH c o c' o' R H).
Qed.

Lemma finish_row_ref s t i c c' : Rst c t ->
  M.finish_row I (M.unknowns s) i c = (c', true) ->
  exists t', G.finish_row J (emb s t) i = emb s t' /\ Rst c' t'.
Proof.
  intros R H. unfold M.finish_row in H.
  destruct (M.m_pget I c i) as [c1 [p|]] eqn:E1; [|discriminate].
  destruct (M.m_mget I c1 i) as [c2 [r|]] eqn:E2; [|discriminate].
  destruct (M.frow I (M.unknowns s) r (seq 0 i) c2 p) as [c3 [out|]] eqn:E3; [|discriminate].
  destruct (r_pget RF _ _ _ _ _ R E1) as [-> R1]. destruct (r_mget RF _ _ _ _ _ R1 E2) as [-> R2].
  destruct (frow_ref _ _ _ _ _ _ _ _ R2 E3) as [-> R3].
  pose proof (r_dput RF _ _ _ _ _ R3 H) as R4.
  eexists. split; [|exact R4]. reflexivity.
Qed.

Lemma finish_ref s : forall is t c c', Rst c t ->
  M.finish I (M.unknowns s) is c = (c', true) ->
  exists t', fold_left (G.finish_row J) is (emb s t) = emb s t' /\ Rst c' t'.
Proof.
  induction is as [|i tl IH]; intros t c c' R H; cbn [M.finish fold_left] in *.
  - inversion H; subst. exists t. split; [reflexivity| exact R].
  - destruct (M.finish_row I (M.unknowns s) i c) as [c1 [|]] eqn:E; [|inversion H].
    destruct (finish_row_ref s t i c c1 R E) as (t1 & E1 & R1). rewrite E1. exact (IH t1 c1 c' R1 H).
Qed.

(* one call: unless it ends in a storage error, the fault-aware reconstructor over I does what the pure one does over J *)
Theorem handle_block_ref P cap vbits s c t idx b s' c' res : Rst c t ->
  M.handle_block I P cap vbits s c idx b = (s', c', M.Ok res) ->
  exists t', G.handle_block J P cap vbits (emb s t) idx b = (emb s' t', gres res) /\ Rst c' t'.
Proof.
  intros R H. unfold M.handle_block in H. unfold G.handle_block. cbv zeta in *.
  rewrite is_complete_emb. cbn [emb G.n G.l G.bs G.done G.used G.store M.n M.l M.bs M.done M.used] in *.
  change (G.missing (emb s t)) with (M.missing s).
  destruct (M.is_complete s) eqn:C0.
  { inversion H; subst. exists t. split; [reflexivity| exact R]. }
  set (enter := Nat.leb (M.n s) idx && Nat.eqb (M.l s) 0) in *.
  set (l2 := if enter then M.missing s else M.l s) in *.
  destruct (enter && (Nat.ltb vbits l2 || Nat.ltb cap l2)).
  { inversion H; subst. exists t. split; [reflexivity| exact R]. }
  set (s1 := M.mkr (M.n s) l2 (M.bs s) (M.done s) (M.used s)) in *.
  change (G.mkg (M.n s) l2 (M.bs s) (M.done s) (M.used s) t) with (emb s1 t).
  destruct (Nat.eqb l2 0) eqn:L0.
  - destruct (M.done s idx) eqn:D.
    + inversion H; subst. exists t. split; [|exact R].
      rewrite is_complete_emb. destruct (M.is_complete s1); reflexivity.
    + destruct (M.m_dput I c idx b) as [c1 [|]] eqn:E; [|discriminate].
      pose proof (r_dput RF _ _ _ _ _ R E) as R1. inversion H; subst. eexists. split; [|exact R1].
      set (s2 := M.mkr (M.n s) l2 (M.bs s) (M.upd (M.done s) idx true) (M.used s)).
      change (G.mkg (M.n s) l2 (M.bs s) (G.upd (M.done s) idx true) (M.used s) (G.dput J t idx b)) with (emb s2 (G.dput J t idx b)).
      rewrite is_complete_emb. destruct (M.is_complete s2); reflexivity.
  - destruct (M.strip I s1 (P idx) (seq 0 (M.n s)) c b) as [c1 [d|]] eqn:E1; [|discriminate].
    destruct (strip_ref s1 (P idx) t _ _ _ _ _ R E1) as [Ed R1].
    destruct (M.elim I s1 (l2 - 1) (M.project s1 (P idx)) d c1) as [[s2 c2] [|]] eqn:E2; [|discriminate].
    destruct (elim_ref t _ _ _ _ _ _ _ R1 E2) as (t2 & Eg & R2).
    assert (Es : G.strip J (emb s1 t) (P idx) b = d) by (rewrite Ed; reflexivity).
    rewrite Es, project_emb, Eg. rewrite is_complete_emb.
    destruct (M.is_complete s2) eqn:C2.
    + destruct (M.finish I (M.unknowns s2) (seq 0 (M.l s2)) c2) as [c3 [|]] eqn:E3; [|discriminate].
      destruct (finish_ref s2 _ t2 c2 c3 R2 E3) as (t3 & Ef & R3).
      inversion H; subst. exists t3. split; [|exact R3].
      unfold G.finish. cbn [emb G.l]. fold (emb s' t2). rewrite Ef. reflexivity.
    + inversion H; subst. exists t2. split; [reflexivity| exact R2].
Qed.
End Ref.

Print Assumptions handle_block_ref.
