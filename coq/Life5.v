From Coq Require Import List NArith ZArith Arith Bool Lia Sorted.
Require Import Slots SlotsProof RingA Exact RingB Recover Idem Boot Life Life2 Life3 Life4.
Import ListNotations.

Lemma hyb_nth {A} : forall k (a b : list A) i, length a = length b ->
  nth_error (firstn k a ++ skipn k b) i = if (i <? k)%nat then nth_error a i else nth_error b i.
Proof.
  induction k as [|k IH]; intros a b i L; [reflexivity|].
  destruct a as [|x a], b as [|y b]; try discriminate.
  - cbn [firstn skipn app]. destruct (i <? S k)%nat; reflexivity.
  - cbn [firstn skipn app]. destruct i as [|i]; [reflexivity|]. cbn [nth_error]. rewrite IH by (cbn in L; lia). change (S i <? S k)%nat with (i <? k)%nat. reflexivity.
Qed.

Section Bulk.
Variable NS : nat.


Lemma steps_trans a b c : steps a b -> steps b c -> steps a c.
Proof. intros H1 H2. induction H2 as [|s0 s1 s2 _ IH S]; [exact H1| apply (steps_more _ s1); auto]. Qed.

Definition pointwise_effect (sl sl' : slots) : Prop := forall i,
  nth_error sl' i = nth_error sl i \/
  (exists h, nth_error sl i = Some (Some h) /\ ext_inprogress h = true /\ nth_error sl' i = Some (Some (with_ext h EAborted))) \/
  (exists h, nth_error sl i = Some (Some h) /\ (total_status h = BootloadWriteInProgress \/ total_status h = InvalidNeedsErase) /\ nth_error sl' i = Some None).

(* cancel, remediation and every crash prefix of either: a sequence of elementary abort / erase steps *)
Lemma steps_pointwise sl sl' g : length sl' = length sl -> pointwise_effect sl sl' -> exists g', steps (sl, g, None) (sl', g', None).
Proof.
  intros L PE.
  assert (G : forall k, (k <= length sl)%nat -> exists g', steps (sl, g, None) (firstn k sl' ++ skipn k sl, g', None)).
  { induction k as [|k IH]; intros Hk; [exists g; apply steps_refl|].
    destruct (IH ltac:(lia)) as [g1 S1]. set (hy := firstn k sl' ++ skipn k sl) in *.
    assert (Lh : length hy = length sl) by (unfold hy; rewrite app_length, firstn_length, skipn_length; lia).
    assert (Hk' : nth_error hy k = nth_error sl k) by (unfold hy; rewrite hyb_nth by exact L; now rewrite Nat.ltb_irrefl).
    assert (NX : forall o, nth_error sl' k = Some o -> firstn (S k) sl' ++ skipn (S k) sl = setnth hy k o).
    { intros o Ho. apply nth_error_ext'. intros i. rewrite nth_error_setnth, hyb_nth by exact L. unfold hy. rewrite hyb_nth by exact L.
      destruct (Nat.eqb_spec i k) as [->|NE].
      - destruct (Nat.ltb_spec k (S k)); [|lia]. rewrite Ho. fold hy. rewrite Lh. destruct (Nat.ltb_spec k (length sl)); [reflexivity| lia].
      - destruct (Nat.ltb_spec i (S k)), (Nat.ltb_spec i k); try reflexivity; lia. }
    destruct (PE k) as [Same|[(h & A & B & C)|(h & A & B & C)]].
    - exists g1. replace (firstn (S k) sl' ++ skipn (S k) sl) with hy; [exact S1|].
      apply nth_error_ext'. intros i. unfold hy. rewrite !hyb_nth by exact L.
      destruct (Nat.ltb_spec i (S k)), (Nat.ltb_spec i k); try reflexivity; try lia. assert (i = k) by lia. subst i. symmetry; exact Same.
    - exists g1. rewrite (NX _ C). eapply steps_more; [exact S1|]. apply (s_abort_live hy g1 None k h); [unfold hd_at; congruence| exact B].
    - exists (gdrop k g1). rewrite (NX _ C). eapply steps_more; [exact S1|]. apply (s_erase hy g1 None k h); [unfold hd_at; congruence| exact B| intros ? ? X; discriminate]. }
  destruct (G (length sl) ltac:(lia)) as [g' S]. exists g'.
  rewrite <- L in S at 1. rewrite firstn_all, skipn_all, app_nil_r in S. exact S.
Qed.

Variable fits : N -> N -> bool.

Lemma cancel_effect sl : pointwise_effect sl (cancel_all sl).
Proof.
  intros i. rewrite nth_error_cancel. destruct (nth_error sl i) as [[h|]|]; [|left; reflexivity..].
  destruct (ext_inprogress h) eqn:E; [right; left; exists h; auto| left; reflexivity].
Qed.

Lemma remediate_effect k1 k2 sl : pointwise_effect sl (remediate k1 k2 sl).
Proof.
  intros i. rewrite nth_error_remediate. destruct (nth_error sl i) as [[h|]|]; [|left; destruct (_ || _); reflexivity| left; reflexivity].
  destruct (_ || _); [left; reflexivity|]. destruct (total_status h) eqn:T; try (left; reflexivity).
  - right; left. exists h. repeat split. unfold total_status, ext_inprogress in *. destruct (hext h), (hint h), (hboot h); try discriminate; reflexivity.
  - right; right. exists h. auto.
  - right; right. exists h. auto.
Qed.

(* the pair handed out by recovery is the newest pair of the ring it leaves behind *)
Lemma recover_newest_pair sl f p sl' : seq_distinct (indexed sl) ->
  recover_inner fits sl = (Some (f, p), sl') -> sl' = remediate p f sl /\ newest_pair sl' f p.
Proof.
  intros SD. unfold recover_inner. pose proof (two_newest_top2 sl SD) as T.
  destruct (two_newest sl) as [[[ni nh]|] [[si sh]|]]; try discriminate.
  destruct (is_awip nh && negb (kind_is_fw nh) && is_awip sh && kind_is_fw sh && (hsize nh =? hsize sh)%N && fits (hsize sh) (hcount sh) && (hcount nh <=? 2048)%N) eqn:C; [|discriminate].
  intros H. inversion H; subst f p sl'. clear H. split; [reflexivity|].
  apply andb_prop in C. destruct C as [C _]. apply andb_prop in C. destruct C as [C _]. apply andb_prop in C. destruct C as [C _]. apply andb_prop in C. destruct C as [C C4].
  apply andb_prop in C. destruct C as [C C3]. apply andb_prop in C. destruct C as [C1 C2].
  cbn [Top2] in T. destruct T as (I & M & J & Nq & K). apply indexed_iff in I. apply indexed_iff in J.
  assert (Nidx : si <> ni). { intros ->. apply Nq. f_equal. congruence. }
  exists sh, nh. unfold hd_at. rewrite !nth_error_remediate, I, J, !Nat.eqb_refl, orb_true_r. cbn [orb].
  split; [reflexivity|]. split; [reflexivity|].
  split; [unfold is_awip in C3; destruct (total_status sh); try discriminate; reflexivity|].
  split; [unfold is_awip in C1; destruct (total_status nh); try discriminate; reflexivity|].
  split; [unfold kind_is_fw in C4; destruct (hkind sh); [reflexivity| discriminate]|].
  split; [unfold kind_is_fw in C2; destruct (hkind nh); [discriminate| reflexivity]|].
  split; [exact Nidx|].
  assert (LT : forall y, In y (indexed sl) -> y <> (ni, nh) -> y <> (si, sh) -> (hseq (snd y) < hseq sh)%N).
  { intros y Hy N1 N2. pose proof (K y Hy N1) as Le. cbn [snd] in Le.
    destruct (N.eq_dec (hseq (snd y)) (hseq sh)) as [E|NE]; [|lia]. exfalso. apply N2. apply SD; [exact Hy| apply indexed_iff; exact J| exact E]. }
  split.
  - pose proof (M (si, sh) ltac:(apply indexed_iff; exact J)) as Le. cbn [snd] in Le.
    destruct (N.eq_dec (hseq sh) (hseq nh)) as [E|NE]; [|lia]. exfalso. apply Nq. apply SD; [apply indexed_iff; exact J| apply indexed_iff; exact I| exact E].
  - intros j sj Nf Np Hj. apply seqat_hd in Hj. destruct Hj as (h & Hh & <-).
    destruct (remediate_derives ni si sl j h Hh) as (h0 & A0 & E0). rewrite <- E0.
    apply (LT (j, h0)); [apply indexed_iff; exact A0| intros Q; inversion Q; congruence| intros Q; inversion Q; congruence].
Qed.

(* C12/C13 glue: one call of try_recover is a history of the step system *)
Theorem recover_is_steps sl g r sl' : seq_distinct (indexed sl) -> try_recover fits sl = (r, sl') ->
  exists g', steps (sl, g, None) (sl', g', r).
Proof.
  intros SD. unfold try_recover. destruct (recover_inner fits sl) as [[[f p]|] s0] eqn:R; intros H; inversion H; subst.
  - destruct (recover_newest_pair sl f p sl' SD R) as [-> NP].
    destruct (steps_pointwise sl (remediate p f sl) g) as [g' S]; [unfold remediate; now rewrite map_length, combine_length, seq_length, Nat.min_id| apply remediate_effect|].
    exists g'. eapply steps_more; [exact S|]. apply s_resume. exact NP.
  - destruct (steps_pointwise sl (cancel_all sl) g) as [g' S]; [unfold cancel_all; now rewrite map_length| apply cancel_effect|]. exists g'. exact S.
Qed.
End Bulk.
Print Assumptions recover_is_steps.
