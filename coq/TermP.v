(* C10, termination clause (partial): the TS004 row generator always terminates when M is not a power of two (no draw is ever
   rejected), and - by computation - for every power of two M <= 128 and every coded-fragment number 1..1023 with at most 64
   consecutive rejections.  M in {256, ..., 16384} is exercised by the lfdbt stream only. *)
From Coq Require Import List NArith Arith Bool Lia.
Require Import Lfdbt.
Import ListNotations.
Open Scope N_scope.

Lemma draw_accepts f x M : 1 <= M -> draw (S f) x M M = Some (prbs23 x, prbs23 x mod M).
Proof. intros H. cbn [draw]. destruct (N.ltb_spec (prbs23 x mod M) M) as [|G]; [reflexivity|]. pose proof (N.mod_lt (prbs23 x) M ltac:(lia)). lia. Qed.

Lemma ref_fill_total f M : 1 <= M -> forall k x, exists l, ref_fill (S f) k x M M = Some l.
Proof.
  intros H. induction k as [|k IH]; intros x; cbn [ref_fill]; [eexists; reflexivity|].
  rewrite (draw_accepts f x M H). destruct (IH (prbs23 x)) as [l E]. rewrite E. eexists. reflexivity.
Qed.

Theorem matrix_line_total_nonpow2 fuel n M : (1 <= fuel)%nat -> 1 <= M -> is_pow2 M = false -> exists l, matrix_line fuel n M = Some l.
Proof.
  intros Hf HM HP. unfold matrix_line. rewrite HP, N.add_0_r. destruct fuel as [|f]; [lia|]. apply ref_fill_total. exact HM.
Qed.

Definition is_some {A} (o : option A) : bool := match o with Some _ => true | None => false end.
Definition pow2_rows_terminate (fuel : nat) (k : N) : bool :=
  forallb (fun n => is_some (matrix_line fuel (N.of_nat n) (2 ^ k))) (seq 1 (N.to_nat 1023)).

Theorem matrix_line_total_pow2_small :
  forallb (pow2_rows_terminate 64) [0; 1; 2; 3; 4; 5; 6; 7] = true.
Proof. vm_compute. reflexivity. Qed.

Theorem matrix_line_total_pow2 k n : k <= 7 -> 1 <= N.of_nat n <= 1023 -> exists l, matrix_line 64 (N.of_nat n) (2 ^ k) = Some l.
Proof.
  intros Hk Hn. pose proof matrix_line_total_pow2_small as H. rewrite forallb_forall in H.
  assert (In k [0; 1; 2; 3; 4; 5; 6; 7]).
  { destruct (N.eq_dec k 0) as [->|]; [cbn; auto|]. destruct (N.eq_dec k 1) as [->|]; [cbn; auto|]. destruct (N.eq_dec k 2) as [->|]; [cbn; auto|].
    destruct (N.eq_dec k 3) as [->|]; [cbn; auto|]. destruct (N.eq_dec k 4) as [->|]; [cbn; auto 10|]. destruct (N.eq_dec k 5) as [->|]; [cbn; auto 10|].
    destruct (N.eq_dec k 6) as [->|]; [cbn; auto 10|]. destruct (N.eq_dec k 7) as [->|]; [cbn; auto 10|]. lia. }
  specialize (H k H0). unfold pow2_rows_terminate in H. rewrite forallb_forall in H.
  specialize (H n ltac:(apply in_seq; lia)). destruct (matrix_line 64 (N.of_nat n) (2 ^ k)) as [l|]; [exists l; reflexivity| discriminate].
Qed.

Print Assumptions matrix_line_total_nonpow2.
Print Assumptions matrix_line_total_pow2.
