From Coq Require Import List NArith ZArith Arith Bool Lia.
Require Import Slots SlotsProof RingA Exact RingB Recover.
Import ListNotations.

Definition seq_distinct (L : list (nat * hdr)) : Prop :=
  forall y z, In y L -> In z L -> hseq (snd y) = hseq (snd z) -> y = z.

Definition derives (sl' sl : slots) : Prop :=
  forall i h, nth_error sl' i = Some (Some h) -> exists h0, nth_error sl i = Some (Some h0) /\ hseq h0 = hseq h.

Lemma derives_distinct sl' sl : derives sl' sl -> seq_distinct (indexed sl) -> seq_distinct (indexed sl').
Proof.
  intros D SD [i h] [j h'] Hy Hz E. cbn [snd] in E. apply indexed_iff in Hy. apply indexed_iff in Hz.
  destruct (D i h Hy) as (h0 & A0 & E0). destruct (D j h' Hz) as (h1 & A1 & E1).
  assert (Q : (i, h0) = (j, h1)). { apply SD; [apply indexed_iff; exact A0| apply indexed_iff; exact A1| cbn [snd]; congruence]. }
  inversion Q; subst. rewrite Hy in Hz. inversion Hz. reflexivity.
Qed.

Lemma top2_unique L a1 a2 : seq_distinct L -> Top2 L a1 -> Top2 L a2 -> a1 = a2.
Proof.
  intros SD T1 T2. destruct a1 as [[n1|] s1], a2 as [[n2|] s2]; cbn [Top2] in *.
  - destruct T1 as (I1 & M1 & S1), T2 as (I2 & M2 & S2).
    assert (n1 = n2). { apply SD; try assumption. pose proof (M1 n2 I2). pose proof (M2 n1 I1). lia. } subst n2.
    destruct s1 as [x1|], s2 as [x2|].
    + destruct S1 as (J1 & N1 & K1), S2 as (J2 & N2 & K2).
      assert (x1 = x2). { apply SD; try assumption. pose proof (K1 x2 J2 N2). pose proof (K2 x1 J1 N1). lia. } subst. reflexivity.
    + destruct S1 as (J1 & N1 & K1). exfalso. apply N1. apply S2. exact J1.
    + destruct S2 as (J2 & N2 & K2). exfalso. apply N2. apply S1. exact J2.
    + reflexivity.
  - destruct s2; [contradiction|]. subst L. destruct T1 as ([] & _).
  - destruct s1; [contradiction|]. subst L. destruct T2 as ([] & _).
  - destruct s1, s2; try contradiction. reflexivity.
Qed.

Lemma two_newest_top2 sl : seq_distinct (indexed sl) -> Top2 (indexed sl) (two_newest sl).
Proof.
  intros SD. apply (fold_scan2_top2 (indexed sl) [] (None, None)); [apply indexed_nodup| exact SD| reflexivity].
Qed.

Lemma nth_error_ext' {A} : forall (l1 l2 : list A), (forall i, nth_error l1 i = nth_error l2 i) -> l1 = l2.
Proof.
  induction l1 as [|a l1 IH]; intros [|b l2] H; [reflexivity| specialize (H 0%nat); discriminate| specialize (H 0%nat); discriminate|].
  pose proof (H 0%nat) as H0. cbn in H0. inversion H0; subst. f_equal. apply IH. intros i. apply (H (S i)).
Qed.

Section Idem.
Variable fits : N -> N -> bool.

Lemma cancel_derives sl : derives (cancel_all sl) sl.
Proof.
  intros i h. rewrite nth_error_cancel. destruct (nth_error sl i) as [[h0|]|]; try discriminate.
  intros Q. exists h0. split; [reflexivity|]. destruct (ext_inprogress h0); inversion Q; reflexivity.
Qed.

Lemma remediate_derives k1 k2 sl : derives (remediate k1 k2 sl) sl.
Proof.
  intros i h. rewrite nth_error_remediate. destruct (nth_error sl i) as [[h0|]|]; try discriminate.
  - intros Q. exists h0. split; [reflexivity|]. destruct (_ || _); [inversion Q; reflexivity|].
    destruct (total_status h0); inversion Q; reflexivity.
  - destruct (_ || _); discriminate.
Qed.

Lemma cancel_idem sl : cancel_all (cancel_all sl) = cancel_all sl.
Proof.
  unfold cancel_all. rewrite map_map. apply map_ext. intros [h|]; [|reflexivity].
  destruct (ext_inprogress h) eqn:E; [reflexivity| now rewrite E].
Qed.

Lemma remediate_idem k1 k2 sl : remediate k1 k2 (remediate k1 k2 sl) = remediate k1 k2 sl.
Proof.
  apply nth_error_ext'. intros i. rewrite !nth_error_remediate. destruct (nth_error sl i) as [o|]; [|reflexivity].
  destruct (_ || _); [reflexivity|]. destruct o as [h|]; [|reflexivity].
  unfold total_status, with_ext. destruct (hext h) eqn:E1, (hint h) eqn:E2, (hboot h) eqn:E3; cbn; rewrite ?E1, ?E2, ?E3; reflexivity.
Qed.

Lemma is_awip_inprogress h : is_awip h = true -> ext_inprogress h = true.
Proof. unfold is_awip, total_status, ext_inprogress. destruct (hext h), (hint h), (hboot h); try discriminate; reflexivity. Qed.

(* C13: a second call gives the same answer and changes nothing *)
Theorem recover_idempotent sl r sl' : seq_distinct (indexed sl) ->
  try_recover fits sl = (r, sl') -> try_recover fits sl' = (r, sl').
Proof.
  intros SD. unfold try_recover at 1.
  assert (NONE : try_recover fits (cancel_all sl) = (None, cancel_all sl)).
  { unfold try_recover, recover_inner.
    pose proof (two_newest_top2 (cancel_all sl) (derives_distinct _ _ (cancel_derives sl) SD)) as T.
    destruct (two_newest (cancel_all sl)) as [[[ni nh]|] [[si sh]|]]; rewrite ?cancel_idem; try reflexivity.
    destruct T as (I & _). apply indexed_iff in I. apply cancel_clears in I.
    destruct (is_awip nh) eqn:A; [apply is_awip_inprogress in A; congruence|]. cbn [andb]. rewrite ?cancel_idem. reflexivity. }
  unfold recover_inner at 1.
  pose proof (two_newest_top2 sl SD) as T.
  destruct (two_newest sl) as [[[ni nh]|] [[si sh]|]] eqn:TN; try (intros H; inversion H; subst; exact NONE).
  destruct (_ && _) eqn:C; [|intros H; inversion H; subst; exact NONE].
  intros H. inversion H; subst r sl'. clear H.
  assert (T' : Top2 (indexed (remediate ni si sl)) (Some (ni, nh), Some (si, sh))).
  { cbn [Top2] in *. destruct T as (I & M & J & Nq & K).
    assert (keepn : In (ni, nh) (indexed (remediate ni si sl))).
    { apply indexed_iff. rewrite nth_error_remediate. apply indexed_iff in I. rewrite I, Nat.eqb_refl. reflexivity. }
    assert (keeps : In (si, sh) (indexed (remediate ni si sl))).
    { apply indexed_iff. rewrite nth_error_remediate. apply indexed_iff in J. rewrite J, Nat.eqb_refl, orb_true_r. reflexivity. }
    split; [exact keepn|]. split.
    - intros [i h] Hy. apply indexed_iff in Hy. destruct (remediate_derives _ _ _ _ _ Hy) as (h0 & A0 & E0). cbn [snd]. rewrite <- E0.
      apply (M (i, h0)). apply indexed_iff; exact A0.
    - split; [exact keeps|]. split; [exact Nq|]. intros [i h] Hy Hne. pose proof Hy as Hy'. apply indexed_iff in Hy.
      destruct (remediate_derives _ _ _ _ _ Hy) as (h0 & A0 & E0). cbn [snd]. rewrite <- E0.
      apply (K (i, h0)); [apply indexed_iff; exact A0|]. intros Q. inversion Q; subst i h0.
      apply Hne. f_equal. apply indexed_iff in keepn. rewrite keepn in Hy. inversion Hy. reflexivity. }
  pose proof (two_newest_top2 _ (derives_distinct _ _ (remediate_derives ni si sl) SD)) as T2.
  pose proof (top2_unique _ _ _ (derives_distinct _ _ (remediate_derives ni si sl) SD) T2 T') as EQ.
  unfold try_recover, recover_inner. rewrite EQ, C, remediate_idem. reflexivity.
Qed.
End Idem.
Print Assumptions recover_idempotent.
