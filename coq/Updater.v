From Coq Require Import List NArith Arith Bool.
Require Import Nor Geom Lfdbt GRecon.
Import ListNotations.
Open Scope N_scope.

(* flash with a log of modifying operations: (address, length, little-endian value) *)
Record fl := { mm : mem; wlog : list (N * N * N) }.
Definition fprog (f : fl) (a len v : N) : fl := {| mm := program (mm f) a len v; wlog := wlog f ++ [(a, len, v)] |}.

Record geo := { fwb : N; pab : N; sz : N; nseg : N; ssize : N }.
Definition capL (g : geo) : N := max_l (ssize g) (sz g).
Definition daddr g (i : nat) := fwb g + DATA_REGION_OFFSET + N.of_nat i * sz g.
Definition saddr g (i : nat) := fwb g + HEADER_SIZE + N.of_nat i.
Definition paddr g (k : nat) := pab g + HEADER_SIZE + N.of_nat k * sz g.
Definition raddr g (k : nat) := pab g + HEADER_SIZE + capL g * sz g + mro (N.of_nat k).

Definition flash_sto (g : geo) : sto fl := {|
  dget := fun f i => read (mm f) (daddr g i) (sz g);
  dput := fun f i b => fprog (fprog f (daddr g i) (sz g) b) (saddr g i) 1 51;
  pget := fun f k => read (mm f) (paddr g k) (sz g);
  pput := fun f k b => fprog f (paddr g k) (sz g) b;
  mget := fun f k => N.lxor (read (mm f) (raddr g k) (rowlen (N.of_nat k))) (2 ^ N.of_nat k);
  mput := fun f k r => fprog f (raddr g k) (rowlen (N.of_nat k)) (N.clearbit r (N.of_nat k)) |}.

(* UpdaterMatrix::row: identity below n, coded fragment number m - n + 1 above *)
Definition mask (l : list N) : N := fold_left (fun acc r => N.lor acc (N.shiftl 1 r)) l 0.
Definition updater_row (nn : nat) (m : nat) : N :=
  if Nat.ltb m nn then N.shiftl 1 (N.of_nat m)
  else match impl_new 4096 (N.of_nat (m - nn + 1)) (N.of_nat nn) with Some l => mask l | None => 0 end.

Definition session := gst fl.
Definition start_session (g : geo) (m0 : mem) : session :=
  mkg (N.to_nat (nseg g)) 0 (sz g) (fun _ => false) (fun _ => false) {| mm := m0; wlog := [] |}.
(* handle_segment with a 1-based index (index 0 is the C17 defect and is not fed here) *)
Definition handle_segment (g : geo) (s : session) (idx1 : nat) (payload : N) : session * result :=
  handle_block (flash_sto g) (updater_row (N.to_nat (nseg g))) (N.to_nat (capL g)) 2048 s (idx1 - 1) payload.

Fixpoint feed (g : geo) (s : session) (frs : list (nat * N)) : session * list result :=
  match frs with
  | [] => (s, [])
  | (i, p) :: tl => let '(s1, r) := handle_segment g s i p in
                    match r with Done _ => (s1, [r]) | _ => let '(s2, rs) := feed g s1 tl in (s2, r :: rs) end
  end.
Definition erased_mem : mem := fun _ => 255.
Definition run_session (slot nn szz : N) (frs : list (nat * N)) : list result * list (N * N * N) * N :=
  let g := {| fwb := 0; pab := slot; sz := szz; nseg := nn; ssize := slot |} in
  let '(s, rs) := feed g (start_session g erased_mem) frs in
  (rs, wlog (store s), capL g).


