From Coq Require Import List NArith ZArith Arith Bool Lia.
Require Import Slots SlotsProof RingA.
Import ListNotations.
Open Scope Z_scope.

Lemma indexed_empty_seqat sl : indexed sl = [] -> forall i, seqat sl i = None.
Proof.
  intros H i. destruct (seqat sl i) eqn:E; [|reflexivity]. apply seqat_indexed in E. destruct E as (h & Hin & _). rewrite H in Hin. contradiction.
Qed.

(* sequence number = virtual ring position + constant *)
Definition VExact (sl : slots) : Prop :=
  exists k : Z,
    (forall i s, seqat sl i = Some s -> (Z.of_N s + k) mod Z.of_nat (length sl) = Z.of_nat i) /\
    (forall i j si sj, seqat sl i = Some si -> seqat sl j = Some sj -> Z.of_N si - Z.of_N sj < Z.of_nat (length sl)).

Lemma VExact_VSorted sl : VExact sl -> VSorted sl.
Proof.
  intros (k & H1 & H2). exists (fun i => match seqat sl i with Some s => Z.of_N s + k | None => 0 end). split; [|split].
  - intros i s Hs. rewrite Hs. apply (H1 i s Hs).
  - intros i j si sj Hi Hj. rewrite Hi, Hj. lia.
  - intros i j si sj Hi Hj. rewrite Hi, Hj. pose proof (H2 i j si sj Hi Hj). lia.
Qed.

Lemma VExact_sub sl sl' : length sl' = length sl ->
  (forall i s, seqat sl' i = Some s -> seqat sl i = Some s) -> VExact sl -> VExact sl'.
Proof.
  intros HL Hsub (k & H1 & H2). exists k. rewrite HL. split.
  - intros i s Hs. apply (H1 i s), Hsub, Hs.
  - intros i j si sj Hi Hj. apply (H2 i j si sj); auto.
Qed.

(* two headers with the same sequence number sit in the same slot *)
Lemma VExact_pos sl k : (forall i s, seqat sl i = Some s -> (Z.of_N s + k) mod Z.of_nat (length sl) = Z.of_nat i) ->
  forall i j s, seqat sl i = Some s -> seqat sl j = Some s -> i = j.
Proof. intros H1 i j s Hi Hj. apply Nat2Z.inj. rewrite <- (H1 i s Hi), <- (H1 j s Hj). reflexivity. Qed.

Lemma high_exact sl k hi hh :
  (forall i s, seqat sl i = Some s -> (Z.of_N s + k) mod Z.of_nat (length sl) = Z.of_nat i) ->
  high_of sl = Some (hi, hh) ->
  seqat sl hi = Some (hseq hh) /\ (hi < length sl)%nat /\
  (forall x s, x <> hi -> seqat sl x = Some s -> (s < hseq hh)%N /\ (x < length sl)%nat).
Proof.
  intros H1 EH. pose proof (high_spec sl) as HH. rewrite EH in HH. destruct HH as [HHin HHmax].
  assert (Shi : seqat sl hi = Some (hseq hh)) by (apply seqat_indexed; exists hh; split; [exact HHin| reflexivity]).
  split; [exact Shi|]. split; [apply (indexed_lt _ _ _ HHin)|].
  intros x s Hx Sx. pose proof Sx as Sx'. apply seqat_indexed in Sx'. destruct Sx' as (hx & Hxin & Hxs).
  pose proof (HHmax x hx Hxin) as Hle. rewrite Hxs in Hle. split; [|apply (indexed_lt _ _ _ Hxin)].
  destruct (N.eq_dec s (hseq hh)) as [->|NE]; [|lia]. exfalso. apply Hx. apply (VExact_pos sl k H1 x hi (hseq hh) Sx Shi).
Qed.

Lemma seqat_two sl a b h1 h2 j : (a < length sl)%nat -> (b < length sl)%nat ->
  seqat (setnth (setnth sl a (Some h1)) b (Some h2)) j =
  if Nat.eqb j b then Some (hseq h2) else if Nat.eqb j a then Some (hseq h1) else seqat sl j.
Proof.
  intros La Lb. rewrite seqat_setnth, setnth_length. destruct (Nat.eqb j b).
  - destruct (Nat.ltb_spec b (length sl)); [reflexivity| lia].
  - rewrite seqat_setnth. destruct (Nat.eqb j a); [|reflexivity]. destruct (Nat.ltb_spec a (length sl)); [reflexivity| lia].
Qed.

(* generic: writing two headers whose numbers fit the same constant k and stay inside the window *)
Lemma VExact_two sl a b h1 h2 k : (a < length sl)%nat -> (b < length sl)%nat ->
  (forall i s, seqat sl i = Some s -> (Z.of_N s + k) mod Z.of_nat (length sl) = Z.of_nat i) ->
  (forall i j si sj, seqat sl i = Some si -> seqat sl j = Some sj -> Z.of_N si - Z.of_N sj < Z.of_nat (length sl)) ->
  (Z.of_N (hseq h1) + k) mod Z.of_nat (length sl) = Z.of_nat a ->
  (Z.of_N (hseq h2) + k) mod Z.of_nat (length sl) = Z.of_nat b ->
  (hseq h1 < hseq h2)%N -> Z.of_N (hseq h2) - Z.of_N (hseq h1) < Z.of_nat (length sl) ->
  (forall x s, x <> a -> x <> b -> seqat sl x = Some s -> (s < hseq h1)%N /\ Z.of_N (hseq h2) - Z.of_N s < Z.of_nat (length sl)) ->
  VExact (setnth (setnth sl a (Some h1)) b (Some h2)).
Proof.
  intros La Lb H1 H2 Pa Pb S12 W12 Oth. exists k. rewrite !setnth_length. split.
  - intros i s. rewrite seqat_two by assumption. destruct (Nat.eqb_spec i b) as [->|Nb]; [intros Q; inversion Q; subst; exact Pb|].
    destruct (Nat.eqb_spec i a) as [->|Na]; [intros Q; inversion Q; subst; exact Pa| apply H1].
  - intros i j si sj. rewrite !seqat_two by assumption.
    destruct (Nat.eqb_spec i b) as [->|Nib]; [|destruct (Nat.eqb_spec i a) as [->|Nia]];
    (destruct (Nat.eqb_spec j b) as [->|Njb]; [|destruct (Nat.eqb_spec j a) as [->|Nja]]); intros Hi Hj;
    try (inversion Hi; subst si); try (inversion Hj; subst sj); try lia.
    + destruct (Oth j sj Nja Njb Hj). lia.
    + destruct (Oth j sj Nja Njb Hj). lia.
    + destruct (Oth i si Nia Nib Hi). lia.
    + destruct (Oth i si Nia Nib Hi). lia.
    + apply (H2 i j si sj Hi Hj).
Qed.

Theorem VExact_alloc sl a b s1 s2 h1 h2 :
  (2 <= length sl)%nat -> VExact sl -> nowrap sl -> alloc_form sl a b s1 s2 -> hseq h1 = s1 -> hseq h2 = s2 ->
  (a < length sl)%nat /\ (b < length sl)%nat /\ a <> b /\ (s1 < s2)%N /\
  (forall x s, x <> a -> x <> b -> seqat sl x = Some s -> (s < s1)%N) /\
  VExact (setnth (setnth sl a (Some h1)) b (Some h2)).
Proof.
  intros HN (k & H1 & H2) HW HF E1 E2.
  set (n := length sl) in *. assert (Hn0 : (0 < n)%nat) by lia. assert (HnZ : 0 < Z.of_nat n) by lia.
  destruct HF as [Hemp -> -> -> ->|hi hh EH -> -> -> ->|hi hh EH -> -> -> ->|hi hh EH -> -> Hs].
  - (* blank ring *)
    pose proof (indexed_empty_seqat sl Hemp) as Hnone.
    split; [lia|]. split; [lia|]. split; [lia|]. split; [lia|]. split; [intros x s _ _ Hx; rewrite Hnone in Hx; discriminate|].
    apply (VExact_two sl 0 1 h1 h2 0); fold n.
    + lia.
    + lia.
    + intros i s Hs; rewrite Hnone in Hs; discriminate.
    + intros i j si sj Hs; rewrite Hnone in Hs; discriminate.
    + rewrite E1. change (Z.of_N 0 + 0) with 0. change (Z.of_nat 0) with 0. apply Z.mod_0_l; lia.
    + rewrite E2. change (Z.of_N 1 + 0) with 1. change (Z.of_nat 1) with 1. apply Z.mod_small; lia.
    + rewrite E1, E2. lia.
    + rewrite E1, E2. lia.
    + intros x s _ _ Hs; rewrite Hnone in Hs; discriminate.
  - (* advance *)
    destruct (high_exact sl k hi hh H1 EH) as (Shi & Lhi & OTH). fold n in Lhi. pose proof (H1 hi _ Shi) as Mhi. fold n in Mhi.
    pose proof (HW hi _ Shi) as Whi.
    assert (Pa : (Z.of_N (hseq hh + 1) + k) mod Z.of_nat n = Z.of_nat ((hi + 1) mod n)).
    { rewrite N2Z.inj_add. replace (Z.of_N (hseq hh) + Z.of_N 1 + k) with (Z.of_N (hseq hh) + k + Z.of_nat 1) by lia. apply mod_of_nat_add; assumption. }
    assert (Pb : (Z.of_N (hseq hh + 2) + k) mod Z.of_nat n = Z.of_nat ((hi + 2) mod n)).
    { rewrite N2Z.inj_add. replace (Z.of_N (hseq hh) + Z.of_N 2 + k) with (Z.of_N (hseq hh) + k + Z.of_nat 2) by lia. apply mod_of_nat_add; assumption. }
    assert (La : ((hi + 1) mod n < n)%nat) by (apply Nat.mod_upper_bound; lia).
    assert (Lb : ((hi + 2) mod n < n)%nat) by (apply Nat.mod_upper_bound; lia).
    assert (Nab : ((hi + 1) mod n <> (hi + 2) mod n)%nat).
    { intros C. rewrite C in Pa. rewrite <- Pb in Pa. 
      assert (Q : (Z.of_N (hseq hh + 2) + k - (Z.of_N (hseq hh + 1) + k)) mod Z.of_nat n = 0) by (rewrite Zminus_mod, Pa, Z.sub_diag; apply Z.mod_0_l; lia).
      replace (Z.of_N (hseq hh + 2) + k - (Z.of_N (hseq hh + 1) + k)) with 1 in Q by lia. rewrite Z.mod_small in Q by lia. lia. }
    assert (OTH2 : forall x s, x <> ((hi + 1) mod n)%nat -> x <> ((hi + 2) mod n)%nat -> seqat sl x = Some s ->
              (s < hseq hh + 1)%N /\ Z.of_N (hseq hh + 2) - Z.of_N s < Z.of_nat n).
    { intros x s Nxa Nxb Sx. destruct (Nat.eq_dec x hi) as [->|Nxh].
      { rewrite Shi in Sx. inversion Sx; subst s. split; [lia|]. lia. }
      destruct (OTH x s Nxh Sx) as [Lt Lx]. split; [lia|].
      pose proof (H2 hi x _ _ Shi Sx) as Wn. fold n in Wn. pose proof (H1 x s Sx) as Mx. fold n in Mx.
      (* s is not hs+1-n nor hs+2-n: those would sit at a, b *)
      destruct (Z.eq_dec (Z.of_N s) (Z.of_N (hseq hh) + 1 - Z.of_nat n)) as [C|C1].
      { exfalso. apply Nxa. apply Nat2Z.inj. rewrite <- Pa, <- Mx. replace (Z.of_N (hseq hh + 1) + k) with (Z.of_N s + k + 1 * Z.of_nat n) by lia. now rewrite Z_mod_plus_full. }
      destruct (Z.eq_dec (Z.of_N s) (Z.of_N (hseq hh) + 2 - Z.of_nat n)) as [C|C2].
      { exfalso. apply Nxb. apply Nat2Z.inj. rewrite <- Pb, <- Mx. replace (Z.of_N (hseq hh + 2) + k) with (Z.of_N s + k + 1 * Z.of_nat n) by lia. now rewrite Z_mod_plus_full. }
      lia. }
    split; [exact La|]. split; [exact Lb|]. split; [exact Nab|]. split; [lia|].
    split; [intros x s Nxa Nxb Sx; apply (OTH2 x s Nxa Nxb Sx)|].
    replace (hseq hh + 1 + 1)%N with (hseq hh + 2)%N in * by lia.
    apply (VExact_two sl _ _ h1 h2 k); fold n; rewrite ?E1, ?E2.
    + exact La. + exact Lb. + exact H1. + exact H2. + exact Pa. + exact Pb. + lia. + lia. + exact OTH2.
  - (* reuse the newest slot and the empty one after it *)
    destruct (high_exact sl k hi hh H1 EH) as (Shi & Lhi & OTH). fold n in Lhi. pose proof (H1 hi _ Shi) as Mhi. fold n in Mhi.
    pose proof (HW hi _ Shi) as Whi.
    assert (Pb : (Z.of_N (hseq hh + 1) + k) mod Z.of_nat n = Z.of_nat ((hi + 1) mod n)).
    { rewrite N2Z.inj_add. replace (Z.of_N (hseq hh) + Z.of_N 1 + k) with (Z.of_N (hseq hh) + k + Z.of_nat 1) by lia. apply mod_of_nat_add; assumption. }
    assert (Lb : ((hi + 1) mod n < n)%nat) by (apply Nat.mod_upper_bound; lia).
    assert (Nab : (hi <> (hi + 1) mod n)%nat).
    { intros C. rewrite <- C in Pb. rewrite <- Mhi in Pb.
      assert (Q : (Z.of_N (hseq hh + 1) + k - (Z.of_N (hseq hh) + k)) mod Z.of_nat n = 0) by (rewrite Zminus_mod, Pb, Z.sub_diag; apply Z.mod_0_l; lia).
      replace (Z.of_N (hseq hh + 1) + k - (Z.of_N (hseq hh) + k)) with 1 in Q by lia. rewrite Z.mod_small in Q by lia. lia. }
    assert (OTH2 : forall x s, x <> hi -> x <> ((hi + 1) mod n)%nat -> seqat sl x = Some s ->
              (s < hseq hh)%N /\ Z.of_N (hseq hh + 1) - Z.of_N s < Z.of_nat n).
    { intros x s Nxa Nxb Sx. destruct (OTH x s Nxa Sx) as [Lt Lx]. split; [exact Lt|].
      pose proof (H2 hi x _ _ Shi Sx) as Wn. fold n in Wn. pose proof (H1 x s Sx) as Mx. fold n in Mx.
      destruct (Z.eq_dec (Z.of_N s) (Z.of_N (hseq hh) + 1 - Z.of_nat n)) as [C|C1]; [|lia].
      exfalso. apply Nxb. apply Nat2Z.inj. rewrite <- Pb, <- Mx. replace (Z.of_N (hseq hh + 1) + k) with (Z.of_N s + k + 1 * Z.of_nat n) by lia. now rewrite Z_mod_plus_full. }
    split; [exact Lhi|]. split; [exact Lb|]. split; [exact Nab|]. split; [lia|].
    split; [intros x s Nxa Nxb Sx; apply (OTH2 x s Nxa Nxb Sx)|].
    apply (VExact_two sl _ _ h1 h2 k); fold n; rewrite ?E1, ?E2.
    + exact Lhi. + exact Lb. + exact H1. + exact H2. + exact Mhi. + exact Pb. + lia. + lia. + exact OTH2.
  - (* reuse the two newest slots *)
    destruct (high_exact sl k hi hh H1 EH) as (Shi & Lhi & OTH). fold n in Lhi. pose proof (H1 hi _ Shi) as Mhi. fold n in Mhi.
    set (a := ((hi + n - 1) mod n)%nat) in *.
    assert (La : (a < n)%nat) by (apply Nat.mod_upper_bound; lia).
    assert (Pa : (Z.of_N (hseq hh) + k - 1) mod Z.of_nat n = Z.of_nat a) by (apply mod_of_nat_pred; assumption).
    assert (Nab : a <> hi).
    { intros C. rewrite C in Pa. rewrite <- Mhi in Pa.
      assert (Q : (Z.of_N (hseq hh) + k - (Z.of_N (hseq hh) + k - 1)) mod Z.of_nat n = 0) by (rewrite Zminus_mod, Pa, Z.sub_diag; apply Z.mod_0_l; lia).
      replace (Z.of_N (hseq hh) + k - (Z.of_N (hseq hh) + k - 1)) with 1 in Q by lia. rewrite Z.mod_small in Q by lia. lia. }
    (* in both sub-cases the first header carries hs - 1 and hs >= 1 *)
    assert (S1 : (1 <= hseq hh)%N /\ s1 = (hseq hh - 1)%N /\ s2 = hseq hh /\ (forall x s, x <> a -> x <> hi -> seqat sl x = Some s -> (s < hseq hh - 1)%N)).
    { destruct Hs as [[Sa ->]|(Sa & -> & -> & low & lh & EL & NL)].
      - destruct (OTH a s1 Nab Sa) as [Lt _]. pose proof (H2 hi a _ _ Shi Sa) as Wn. fold n in Wn. pose proof (H1 a s1 Sa) as Ma. fold n in Ma.
        assert (Es : Z.of_N s1 = Z.of_N (hseq hh) - 1).
        { assert (Q : (Z.of_N (hseq hh) + k - 1 - (Z.of_N s1 + k)) mod Z.of_nat n = 0) by (rewrite Zminus_mod, Pa, Ma, Z.sub_diag; apply Z.mod_0_l; lia).
          destruct (Z.eq_dec (Z.of_N (hseq hh) + k - 1 - (Z.of_N s1 + k)) 0) as [Z0|NZ]; [lia|]. rewrite Z.mod_small in Q by lia. lia. }
        split; [lia|]. split; [lia|]. split; [reflexivity|].
        intros x s Nxa Nxb Sx. destruct (OTH x s Nxb Sx) as [Ltx _]. destruct (N.eq_dec s (hseq hh - 1)) as [C|NC]; [|lia].
        exfalso. apply Nxa. apply (VExact_pos sl k H1 x a s1); [rewrite Sx; f_equal; lia| exact Sa].
      - pose proof (low_spec sl) as LS. rewrite EL in LS. destruct LS as [LIn _].
        assert (Sl : seqat sl low = Some (hseq lh)) by (apply seqat_indexed; exists lh; split; [exact LIn| reflexivity]).
        destruct (OTH low _ NL Sl) as [Ltl _].
        split; [lia|]. split; [reflexivity|]. split; [reflexivity|].
        intros x s Nxa Nxb Sx. destruct (OTH x s Nxb Sx) as [Ltx _]. destruct (N.eq_dec s (hseq hh - 1)) as [C|NC]; [|lia].
        exfalso. apply Nxa. apply Nat2Z.inj. rewrite <- Pa, <- (H1 x s Sx). fold n. f_equal. lia. }
    destruct S1 as (Hs1 & -> & -> & OTH3).
    split; [exact La|]. split; [exact Lhi|]. split; [exact Nab|]. split; [lia|].
    split; [intros x s Nxa Nxb Sx; apply (OTH3 x s Nxa Nxb Sx)|].
    apply (VExact_two sl _ _ h1 h2 k); fold n; rewrite ?E1, ?E2.
    + exact La. + exact Lhi. + exact H1. + exact H2.
    + rewrite N2Z.inj_sub by lia. replace (Z.of_N (hseq hh) - Z.of_N 1 + k) with (Z.of_N (hseq hh) + k - 1) by lia. exact Pa.
    + exact Mhi. + lia. + lia.
    + intros x s Nxa Nxb Sx. split; [apply (OTH3 x s Nxa Nxb Sx)|]. pose proof (H2 hi x _ _ Shi Sx). fold n in H. exact H.
Qed.
Print Assumptions VExact_alloc.
