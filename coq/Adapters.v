From Coq Require Import List NArith ZArith Arith Bool Lia ZifyBool ZifyN.
Ltac Zify.zify_post_hook ::= Z.div_mod_to_equations.
Import ListNotations.
Open Scope N_scope.

(* word-programmed NOR: byte map, AND semantics; a program must be word aligned and a multiple of the word size *)
Definition mem := N -> N.
Definition programl (m : mem) (a : N) (bs : list N) : mem :=
  fun x => if (a <=? x) && (x <? a + N.of_nat (length bs)) then N.land (m x) (nth (N.to_nat (x - a)) bs 255) else m x.
Definition readl (m : mem) (a : N) (len : nat) : list N := map (fun k => m (a + N.of_nat k)) (seq 0 len).
Definition aligned (W a : N) (len : nat) : Prop := a mod W = 0 /\ N.of_nat len mod W = 0.

Lemma land_255_r x : x < 256 -> N.land x 255 = x.
Proof. intros H. change 255 with (N.ones 8). rewrite N.land_ones. apply N.mod_small; exact H. Qed.

(* ---------- FlashDataStorage::store : head word / aligned body / tail word ---------- *)
Section Data.
Variable W : N.                   (* WRITE_SIZE *)
Variable start : N.               (* flash_range.start *)
Variable L : nat.                 (* block length *)
Hypothesis HW : 1 <= W.
Hypothesis HL : W <= N.of_nat L.  (* assert!(data.len() >= F::WRITE_SIZE) *)

Definition ts (i : N) : N := start + i * N.of_nat L.          (* true start address *)
Definition te (i : N) : N := start + (i + 1) * N.of_nat L.    (* true end address *)
Definition so (i : N) : N := ts i mod W.
Definition eo (i : N) : N := te i mod W.
Definition head_len (i : N) : nat := if so i =? 0 then 0%nat else N.to_nat (W - so i).
Definition tail_len (i : N) : nat := if eo i =? 0 then 0%nat else N.to_nat (eo i).
Definition body_len (i : N) : nat := (L - head_len i - tail_len i)%nat.

Definition ff (k : nat) : list N := repeat 255 k.
(* the three program operations issued by store *)
Definition w_head (i : N) (data : list N) : option (N * list N) :=
  if so i =? 0 then None else Some (ts i - so i, ff (N.to_nat (so i)) ++ firstn (head_len i) data).
Definition w_body (i : N) (data : list N) : N * list N :=
  (ts i + N.of_nat (head_len i), firstn (body_len i) (skipn (head_len i) data)).
Definition w_tail (i : N) (data : list N) : option (N * list N) :=
  if eo i =? 0 then None else Some (te i - eo i, skipn (head_len i + body_len i) data ++ ff (N.to_nat (W - eo i))).
Definition apply_w (m : mem) (w : option (N * list N)) : mem := match w with None => m | Some (a, bs) => programl m a bs end.
Definition store (m : mem) (i : N) (data : list N) : mem :=
  apply_w (programl (apply_w m (w_head i data)) (fst (w_body i data)) (snd (w_body i data))) (w_tail i data).

(* arithmetic of the split *)
Lemma split_lens i : (head_len i + body_len i + tail_len i = L)%nat /\ (head_len i + tail_len i <= L)%nat.
Proof.
  unfold body_len, head_len, tail_len, so, eo, ts, te.
  set (S := start + i * N.of_nat L). replace (start + (i + 1) * N.of_nat L) with (S + N.of_nat L) by (subst S; lia).
  destruct (N.eqb_spec (S mod W) 0), (N.eqb_spec ((S + N.of_nat L) mod W) 0); split; try lia.
  (* both unaligned: the block is at least a word long, so the head and tail words do not overlap *)
  all: assert (N.to_nat (W - S mod W) + N.to_nat ((S + N.of_nat L) mod W) <= L)%nat; [|lia].
  all: assert (H : W - S mod W + (S + N.of_nat L) mod W <= N.of_nat L); [|lia].
  all: pose proof (N.mod_lt S W ltac:(lia)); pose proof (N.div_mod S W ltac:(lia)); pose proof (N.div_mod (S + N.of_nat L) W ltac:(lia)); pose proof (N.mod_lt (S + N.of_nat L) W ltac:(lia)).
  all: assert (S / W < (S + N.of_nat L) / W) by (apply N.div_lt_upper_bound; [lia|]; nia).
  all: nia.
Qed.

Definition wf (m : mem) : Prop := forall x, m x < 256.

Lemma nth_ff k j : nth j (ff k) 255 = 255.
Proof. unfold ff. revert j. induction k as [|k IH]; intros [|j]; cbn; auto. Qed.
Lemma nth_firstn_lt {A} (l : list A) k j d : (j < k)%nat -> nth j (firstn k l) d = nth j l d.
Proof. revert l j. induction k as [|k IH]; intros l j H; [lia|]. destruct l as [|a l]; [now destruct j|]. destruct j as [|j]; cbn; [reflexivity| apply IH; lia]. Qed.
Lemma nth_skipn {A} (l : list A) k j d : nth j (skipn k l) d = nth (k + j) l d.
Proof. revert l. induction k as [|k IH]; intros l; [reflexivity|]. destruct l as [|a l]; [now destruct j| apply IH]. Qed.

Lemma programl_spec m a bs x :
  programl m a bs x = if (a <=? x) && (x <? a + N.of_nat (length bs)) then N.land (m x) (nth (N.to_nat (x - a)) bs 255) else m x.
Proof. reflexivity. Qed.

(* the three word-aligned programs of store have exactly the effect of programming the block bytes in place *)
Theorem store_is_program m i data : wf m -> length data = L -> forall x, store m i data x = programl m (ts i) data x.
Proof.
  intros Hwf Hlen x. destruct (split_lens i) as [Hsum Hle].
  assert (Hso : so i < W) by (unfold so; apply N.mod_lt; lia). assert (Heo : eo i < W) by (unfold eo; apply N.mod_lt; lia).
  assert (Hte : te i = ts i + N.of_nat L) by (unfold te, ts; lia).
  assert (Hsle : so i <= ts i) by (unfold so; apply N.mod_le; lia).
  unfold store, w_head, w_body, w_tail, apply_w. cbn [fst snd].
  rewrite programl_spec, Hlen.
  (* lengths of the pieces *)
  assert (Lh : length (firstn (head_len i) data) = head_len i) by (rewrite firstn_length; lia).
  assert (Lb : length (firstn (body_len i) (skipn (head_len i) data)) = body_len i) by (rewrite firstn_length, skipn_length; lia).
  assert (Lt : length (skipn (head_len i + body_len i) data) = tail_len i) by (rewrite skipn_length; lia).
  unfold head_len, tail_len in *.
  destruct (N.eqb_spec (so i) 0) as [Es|Es], (N.eqb_spec (eo i) 0) as [Ee|Ee]; rewrite ?programl_spec, ?app_length, ?Lh, ?Lb, ?Lt; unfold ff; rewrite ?repeat_length.
  all: repeat match goal with |- context [if ?c then _ else _] => lazymatch c with context [N.leb] => destruct c eqn:? | context [N.ltb] => destruct c eqn:? end end.
  all: repeat match goal with H : (_ && _) = true |- _ => apply andb_prop in H; destruct H end.
  all: repeat match goal with H : (_ && _) = false |- _ => apply andb_false_iff in H end.
  all: repeat match goal with H : (_ <=? _) = true |- _ => apply N.leb_le in H | H : (_ <? _) = true |- _ => apply N.ltb_lt in H end.
  all: repeat match goal with H : _ \/ _ |- _ => destruct H end.
  all: repeat match goal with H : (_ <=? _) = false |- _ => apply N.leb_gt in H | H : (_ <? _) = false |- _ => apply N.ltb_ge in H end.
  all: try lia.
  all: try reflexivity.
  all: rewrite ?Nat.add_0_l, ?N.add_0_r; cbn [skipn N.of_nat].
  (* what remains: index computations inside the pieces *)
  all: try (f_equal;
            first [ rewrite nth_firstn_lt by lia; rewrite ?nth_skipn; f_equal; lia
                  | rewrite app_nth2 by (rewrite repeat_length; lia); rewrite repeat_length; rewrite nth_firstn_lt by lia; f_equal; lia
                  | rewrite app_nth1 by (rewrite skipn_length; lia); rewrite nth_skipn; f_equal; lia ]).
  all: try (rewrite app_nth1 by (rewrite repeat_length; lia); rewrite nth_repeat; apply land_255_r, Hwf).
  all: try (rewrite app_nth2 by (rewrite skipn_length; lia); rewrite nth_repeat; apply land_255_r, Hwf).
Qed.

(* consequences: read-back, frame, contiguity, alignment *)
Theorem data_get_after_store m i data k : wf m -> length data = L -> Forall (fun b => b < 256) data ->
  (forall x, ts i <= x < ts i + N.of_nat L -> m x = 255) -> (k < L)%nat ->
  store m i data (ts i + N.of_nat k) = nth k data 255.
Proof.
  intros Hwf Hlen Hb Her Hk. rewrite store_is_program by assumption. rewrite programl_spec, Hlen.
  destruct (N.leb_spec (ts i) (ts i + N.of_nat k)); [|lia]. destruct (N.ltb_spec (ts i + N.of_nat k) (ts i + N.of_nat L)); [|lia]. cbn [andb].
  rewrite Her by lia. replace (N.to_nat (ts i + N.of_nat k - ts i)) with k by lia.
  rewrite N.land_comm. apply land_255_r. rewrite Forall_forall in Hb. apply Hb. apply nth_In. lia.
Qed.

Theorem data_frame m i data x : wf m -> length data = L -> x < ts i \/ ts i + N.of_nat L <= x -> store m i data x = m x.
Proof.
  intros Hwf Hlen Hx. rewrite store_is_program by assumption. rewrite programl_spec, Hlen.
  destruct (N.leb_spec (ts i) x), (N.ltb_spec x (ts i + N.of_nat L)); cbn [andb]; try reflexivity; lia.
Qed.

End Data.
