
(** val negb : bool -> bool **)

let negb = function
| true -> false
| false -> true

type nat =
| O
| S of nat

(** val option_map : ('a1 -> 'a2) -> 'a1 option -> 'a2 option **)

let option_map f = function
| Some a -> Some (f a)
| None -> None

(** val fst : ('a1 * 'a2) -> 'a1 **)

let fst = function
| (x, _) -> x

(** val snd : ('a1 * 'a2) -> 'a2 **)

let snd = function
| (_, y) -> y

(** val length : 'a1 list -> nat **)

let rec length = function
| [] -> O
| _ :: l' -> S (length l')

(** val app : 'a1 list -> 'a1 list -> 'a1 list **)

let rec app l0 m =
  match l0 with
  | [] -> m
  | a :: l1 -> a :: (app l1 m)

type comparison =
| Eq
| Lt
| Gt

module Coq__1 = struct
 (** val add : nat -> nat -> nat **)
 let rec add n1 m =
   match n1 with
   | O -> m
   | S p -> S (add p m)
end
include Coq__1

(** val sub : nat -> nat -> nat **)

let rec sub n1 m =
  match n1 with
  | O -> n1
  | S k -> (match m with
            | O -> n1
            | S l0 -> sub k l0)

module Nat =
 struct
  (** val eqb : nat -> nat -> bool **)

  let rec eqb n1 m =
    match n1 with
    | O -> (match m with
            | O -> true
            | S _ -> false)
    | S n' -> (match m with
               | O -> false
               | S m' -> eqb n' m')

  (** val leb : nat -> nat -> bool **)

  let rec leb n1 m =
    match n1 with
    | O -> true
    | S n' -> (match m with
               | O -> false
               | S m' -> leb n' m')

  (** val ltb : nat -> nat -> bool **)

  let ltb n1 m =
    leb (S n1) m
 end

(** val nth : nat -> 'a1 list -> 'a1 -> 'a1 **)

let rec nth n1 l0 default =
  match n1 with
  | O -> (match l0 with
          | [] -> default
          | x :: _ -> x)
  | S m -> (match l0 with
            | [] -> default
            | _ :: t -> nth m t default)

(** val fold_left : ('a1 -> 'a2 -> 'a1) -> 'a2 list -> 'a1 -> 'a1 **)

let rec fold_left f l0 a0 =
  match l0 with
  | [] -> a0
  | b :: t -> fold_left f t (f a0 b)

(** val forallb : ('a1 -> bool) -> 'a1 list -> bool **)

let rec forallb f = function
| [] -> true
| a :: l1 -> (&&) (f a) (forallb f l1)

(** val filter : ('a1 -> bool) -> 'a1 list -> 'a1 list **)

let rec filter f = function
| [] -> []
| x :: l1 -> if f x then x :: (filter f l1) else filter f l1

(** val seq : nat -> nat -> nat list **)

let rec seq start = function
| O -> []
| S len0 -> start :: (seq (S start) len0)

type positive =
| XI of positive
| XO of positive
| XH

type n =
| N0
| Npos of positive

module Pos =
 struct
  type mask =
  | IsNul
  | IsPos of positive
  | IsNeg
 end

module Coq_Pos =
 struct
  (** val succ : positive -> positive **)

  let rec succ = function
  | XI p -> XO (succ p)
  | XO p -> XI p
  | XH -> XO XH

  (** val add : positive -> positive -> positive **)

  let rec add x y =
    match x with
    | XI p ->
      (match y with
       | XI q -> XO (add_carry p q)
       | XO q -> XI (add p q)
       | XH -> XO (succ p))
    | XO p ->
      (match y with
       | XI q -> XI (add p q)
       | XO q -> XO (add p q)
       | XH -> XI p)
    | XH -> (match y with
             | XI q -> XO (succ q)
             | XO q -> XI q
             | XH -> XO XH)

  (** val add_carry : positive -> positive -> positive **)

  and add_carry x y =
    match x with
    | XI p ->
      (match y with
       | XI q -> XI (add_carry p q)
       | XO q -> XO (add_carry p q)
       | XH -> XI (succ p))
    | XO p ->
      (match y with
       | XI q -> XO (add_carry p q)
       | XO q -> XI (add p q)
       | XH -> XO (succ p))
    | XH ->
      (match y with
       | XI q -> XI (succ q)
       | XO q -> XO (succ q)
       | XH -> XI XH)

  (** val pred_double : positive -> positive **)

  let rec pred_double = function
  | XI p -> XI (XO p)
  | XO p -> XI (pred_double p)
  | XH -> XH

  (** val pred_N : positive -> n **)

  let pred_N = function
  | XI p -> Npos (XO p)
  | XO p -> Npos (pred_double p)
  | XH -> N0

  type mask = Pos.mask =
  | IsNul
  | IsPos of positive
  | IsNeg

  (** val succ_double_mask : mask -> mask **)

  let succ_double_mask = function
  | IsNul -> IsPos XH
  | IsPos p -> IsPos (XI p)
  | IsNeg -> IsNeg

  (** val double_mask : mask -> mask **)

  let double_mask = function
  | IsPos p -> IsPos (XO p)
  | x0 -> x0

  (** val double_pred_mask : positive -> mask **)

  let double_pred_mask = function
  | XI p -> IsPos (XO (XO p))
  | XO p -> IsPos (XO (pred_double p))
  | XH -> IsNul

  (** val sub_mask : positive -> positive -> mask **)

  let rec sub_mask x y =
    match x with
    | XI p ->
      (match y with
       | XI q -> double_mask (sub_mask p q)
       | XO q -> succ_double_mask (sub_mask p q)
       | XH -> IsPos (XO p))
    | XO p ->
      (match y with
       | XI q -> succ_double_mask (sub_mask_carry p q)
       | XO q -> double_mask (sub_mask p q)
       | XH -> IsPos (pred_double p))
    | XH -> (match y with
             | XH -> IsNul
             | _ -> IsNeg)

  (** val sub_mask_carry : positive -> positive -> mask **)

  and sub_mask_carry x y =
    match x with
    | XI p ->
      (match y with
       | XI q -> succ_double_mask (sub_mask_carry p q)
       | XO q -> double_mask (sub_mask p q)
       | XH -> IsPos (pred_double p))
    | XO p ->
      (match y with
       | XI q -> double_mask (sub_mask_carry p q)
       | XO q -> succ_double_mask (sub_mask_carry p q)
       | XH -> double_pred_mask p)
    | XH -> IsNeg

  (** val mul : positive -> positive -> positive **)

  let rec mul x y =
    match x with
    | XI p -> add y (XO (mul p y))
    | XO p -> XO (mul p y)
    | XH -> y

  (** val iter : ('a1 -> 'a1) -> 'a1 -> positive -> 'a1 **)

  let rec iter f x = function
  | XI n' -> f (iter f (iter f x n') n')
  | XO n' -> iter f (iter f x n') n'
  | XH -> f x

  (** val pow : positive -> positive -> positive **)

  let pow x =
    iter (mul x) XH

  (** val compare_cont : comparison -> positive -> positive -> comparison **)

  let rec compare_cont r x y =
    match x with
    | XI p ->
      (match y with
       | XI q -> compare_cont r p q
       | XO q -> compare_cont Gt p q
       | XH -> Gt)
    | XO p ->
      (match y with
       | XI q -> compare_cont Lt p q
       | XO q -> compare_cont r p q
       | XH -> Gt)
    | XH -> (match y with
             | XH -> r
             | _ -> Lt)

  (** val compare : positive -> positive -> comparison **)

  let compare =
    compare_cont Eq

  (** val eqb : positive -> positive -> bool **)

  let rec eqb p q =
    match p with
    | XI p0 -> (match q with
                | XI q0 -> eqb p0 q0
                | _ -> false)
    | XO p0 -> (match q with
                | XO q0 -> eqb p0 q0
                | _ -> false)
    | XH -> (match q with
             | XH -> true
             | _ -> false)

  (** val coq_Nsucc_double : n -> n **)

  let coq_Nsucc_double = function
  | N0 -> Npos XH
  | Npos p -> Npos (XI p)

  (** val coq_Ndouble : n -> n **)

  let coq_Ndouble = function
  | N0 -> N0
  | Npos p -> Npos (XO p)

  (** val coq_lor : positive -> positive -> positive **)

  let rec coq_lor p q =
    match p with
    | XI p0 ->
      (match q with
       | XI q0 -> XI (coq_lor p0 q0)
       | XO q0 -> XI (coq_lor p0 q0)
       | XH -> p)
    | XO p0 ->
      (match q with
       | XI q0 -> XI (coq_lor p0 q0)
       | XO q0 -> XO (coq_lor p0 q0)
       | XH -> XI p0)
    | XH -> (match q with
             | XO q0 -> XI q0
             | _ -> q)

  (** val coq_land : positive -> positive -> n **)

  let rec coq_land p q =
    match p with
    | XI p0 ->
      (match q with
       | XI q0 -> coq_Nsucc_double (coq_land p0 q0)
       | XO q0 -> coq_Ndouble (coq_land p0 q0)
       | XH -> Npos XH)
    | XO p0 ->
      (match q with
       | XI q0 -> coq_Ndouble (coq_land p0 q0)
       | XO q0 -> coq_Ndouble (coq_land p0 q0)
       | XH -> N0)
    | XH -> (match q with
             | XO _ -> N0
             | _ -> Npos XH)

  (** val ldiff : positive -> positive -> n **)

  let rec ldiff p q =
    match p with
    | XI p0 ->
      (match q with
       | XI q0 -> coq_Ndouble (ldiff p0 q0)
       | XO q0 -> coq_Nsucc_double (ldiff p0 q0)
       | XH -> Npos (XO p0))
    | XO p0 ->
      (match q with
       | XI q0 -> coq_Ndouble (ldiff p0 q0)
       | XO q0 -> coq_Ndouble (ldiff p0 q0)
       | XH -> Npos p)
    | XH -> (match q with
             | XO _ -> Npos XH
             | _ -> N0)

  (** val coq_lxor : positive -> positive -> n **)

  let rec coq_lxor p q =
    match p with
    | XI p0 ->
      (match q with
       | XI q0 -> coq_Ndouble (coq_lxor p0 q0)
       | XO q0 -> coq_Nsucc_double (coq_lxor p0 q0)
       | XH -> Npos (XO p0))
    | XO p0 ->
      (match q with
       | XI q0 -> coq_Nsucc_double (coq_lxor p0 q0)
       | XO q0 -> coq_Ndouble (coq_lxor p0 q0)
       | XH -> Npos (XI p0))
    | XH ->
      (match q with
       | XI q0 -> Npos (XO q0)
       | XO q0 -> Npos (XI q0)
       | XH -> N0)

  (** val shiftl : positive -> n -> positive **)

  let shiftl p = function
  | N0 -> p
  | Npos n2 -> iter (fun x -> XO x) p n2

  (** val testbit : positive -> n -> bool **)

  let rec testbit p n1 =
    match p with
    | XI p0 -> (match n1 with
                | N0 -> true
                | Npos n2 -> testbit p0 (pred_N n2))
    | XO p0 -> (match n1 with
                | N0 -> false
                | Npos n2 -> testbit p0 (pred_N n2))
    | XH -> (match n1 with
             | N0 -> true
             | Npos _ -> false)

  (** val iter_op : ('a1 -> 'a1 -> 'a1) -> positive -> 'a1 -> 'a1 **)

  let rec iter_op op p a =
    match p with
    | XI p0 -> op a (iter_op op p0 (op a a))
    | XO p0 -> iter_op op p0 (op a a)
    | XH -> a

  (** val to_nat : positive -> nat **)

  let to_nat x =
    iter_op Coq__1.add x (S O)

  (** val of_succ_nat : nat -> positive **)

  let rec of_succ_nat = function
  | O -> XH
  | S x -> succ (of_succ_nat x)
 end

module N =
 struct
  (** val succ_double : n -> n **)

  let succ_double = function
  | N0 -> Npos XH
  | Npos p -> Npos (XI p)

  (** val double : n -> n **)

  let double = function
  | N0 -> N0
  | Npos p -> Npos (XO p)

  (** val add : n -> n -> n **)

  let add n1 m =
    match n1 with
    | N0 -> m
    | Npos p -> (match m with
                 | N0 -> n1
                 | Npos q -> Npos (Coq_Pos.add p q))

  (** val sub : n -> n -> n **)

  let sub n1 m =
    match n1 with
    | N0 -> N0
    | Npos n' ->
      (match m with
       | N0 -> n1
       | Npos m' ->
         (match Coq_Pos.sub_mask n' m' with
          | Coq_Pos.IsPos p -> Npos p
          | _ -> N0))

  (** val mul : n -> n -> n **)

  let mul n1 m =
    match n1 with
    | N0 -> N0
    | Npos p -> (match m with
                 | N0 -> N0
                 | Npos q -> Npos (Coq_Pos.mul p q))

  (** val compare : n -> n -> comparison **)

  let compare n1 m =
    match n1 with
    | N0 -> (match m with
             | N0 -> Eq
             | Npos _ -> Lt)
    | Npos n' -> (match m with
                  | N0 -> Gt
                  | Npos m' -> Coq_Pos.compare n' m')

  (** val eqb : n -> n -> bool **)

  let eqb n1 m =
    match n1 with
    | N0 -> (match m with
             | N0 -> true
             | Npos _ -> false)
    | Npos p -> (match m with
                 | N0 -> false
                 | Npos q -> Coq_Pos.eqb p q)

  (** val leb : n -> n -> bool **)

  let leb x y =
    match compare x y with
    | Gt -> false
    | _ -> true

  (** val ltb : n -> n -> bool **)

  let ltb x y =
    match compare x y with
    | Lt -> true
    | _ -> false

  (** val div2 : n -> n **)

  let div2 = function
  | N0 -> N0
  | Npos p0 -> (match p0 with
                | XI p -> Npos p
                | XO p -> Npos p
                | XH -> N0)

  (** val pow : n -> n -> n **)

  let pow n1 = function
  | N0 -> Npos XH
  | Npos p0 -> (match n1 with
                | N0 -> N0
                | Npos q -> Npos (Coq_Pos.pow q p0))

  (** val pos_div_eucl : positive -> n -> n * n **)

  let rec pos_div_eucl a b =
    match a with
    | XI a' ->
      let (q, r) = pos_div_eucl a' b in
      let r' = succ_double r in
      if leb b r' then ((succ_double q), (sub r' b)) else ((double q), r')
    | XO a' ->
      let (q, r) = pos_div_eucl a' b in
      let r' = double r in
      if leb b r' then ((succ_double q), (sub r' b)) else ((double q), r')
    | XH ->
      (match b with
       | N0 -> (N0, (Npos XH))
       | Npos p -> (match p with
                    | XH -> ((Npos XH), N0)
                    | _ -> (N0, (Npos XH))))

  (** val div_eucl : n -> n -> n * n **)

  let div_eucl a b =
    match a with
    | N0 -> (N0, N0)
    | Npos na -> (match b with
                  | N0 -> (N0, a)
                  | Npos _ -> pos_div_eucl na b)

  (** val div : n -> n -> n **)

  let div a b =
    fst (div_eucl a b)

  (** val modulo : n -> n -> n **)

  let modulo a b =
    snd (div_eucl a b)

  (** val coq_lor : n -> n -> n **)

  let coq_lor n1 m =
    match n1 with
    | N0 -> m
    | Npos p -> (match m with
                 | N0 -> n1
                 | Npos q -> Npos (Coq_Pos.coq_lor p q))

  (** val coq_land : n -> n -> n **)

  let coq_land n1 m =
    match n1 with
    | N0 -> N0
    | Npos p -> (match m with
                 | N0 -> N0
                 | Npos q -> Coq_Pos.coq_land p q)

  (** val ldiff : n -> n -> n **)

  let ldiff n1 m =
    match n1 with
    | N0 -> N0
    | Npos p -> (match m with
                 | N0 -> n1
                 | Npos q -> Coq_Pos.ldiff p q)

  (** val coq_lxor : n -> n -> n **)

  let coq_lxor n1 m =
    match n1 with
    | N0 -> m
    | Npos p -> (match m with
                 | N0 -> n1
                 | Npos q -> Coq_Pos.coq_lxor p q)

  (** val shiftl : n -> n -> n **)

  let shiftl a n1 =
    match a with
    | N0 -> N0
    | Npos a0 -> Npos (Coq_Pos.shiftl a0 n1)

  (** val shiftr : n -> n -> n **)

  let shiftr a = function
  | N0 -> a
  | Npos p -> Coq_Pos.iter div2 a p

  (** val testbit : n -> n -> bool **)

  let testbit a n1 =
    match a with
    | N0 -> false
    | Npos p -> Coq_Pos.testbit p n1

  (** val to_nat : n -> nat **)

  let to_nat = function
  | N0 -> O
  | Npos p -> Coq_Pos.to_nat p

  (** val of_nat : nat -> n **)

  let of_nat = function
  | O -> N0
  | S n' -> Npos (Coq_Pos.of_succ_nat n')

  (** val setbit : n -> n -> n **)

  let setbit a n1 =
    coq_lor a (shiftl (Npos XH) n1)

  (** val clearbit : n -> n -> n **)

  let clearbit a n1 =
    ldiff a (shiftl (Npos XH) n1)
 end

type mem = n -> n

(** val byte_of : n -> n -> n **)

let byte_of v k =
  N.coq_land (N.shiftr v (N.mul (Npos (XO (XO (XO XH)))) k)) (Npos (XI (XI
    (XI (XI (XI (XI (XI XH))))))))

(** val program : mem -> n -> n -> n -> mem **)

let program m a len v x =
  if (&&) (N.leb a x) (N.ltb x (N.add a len))
  then N.coq_land (m x) (byte_of v (N.sub x a))
  else m x

(** val read_n : mem -> n -> nat -> n **)

let rec read_n m a = function
| O -> N0
| S k ->
  N.add (m a)
    (N.mul (Npos (XO (XO (XO (XO (XO (XO (XO (XO XH)))))))))
      (read_n m (N.add a (Npos XH)) k))

(** val read : mem -> n -> n -> n **)

let read m a len =
  read_n m a (N.to_nat len)

(** val hEADER_SIZE : n **)

let hEADER_SIZE =
  Npos (XO (XO (XO (XO (XO (XO (XO (XO (XO (XO XH))))))))))

(** val dATA_REGION_OFFSET : n **)

let dATA_REGION_OFFSET =
  Npos (XO (XO (XO (XO (XO (XO (XO (XO (XO (XO (XI (XO (XO (XO
    XH))))))))))))))

(** val mro : n -> n **)

let mro i =
  let c = N.div i (Npos (XO (XO (XO XH)))) in
  let p = N.modulo i (Npos (XO (XO (XO XH)))) in
  N.add (N.mul (N.mul c (N.add c (Npos XH))) (Npos (XO (XO XH))))
    (N.mul p (N.add c (Npos XH)))

(** val rowlen : n -> n **)

let rowlen m =
  N.add (N.div m (Npos (XO (XO (XO XH))))) (Npos XH)

(** val fits : n -> n -> n -> bool **)

let fits parity_size sz0 l0 =
  N.leb (N.add (mro l0) (N.mul l0 sz0)) parity_size

(** val bsearch : nat -> n -> n -> n -> n -> n **)

let rec bsearch fuel parity_size sz0 low high =
  match fuel with
  | O -> low
  | S f ->
    if N.leb (N.sub high low) (Npos XH)
    then low
    else let mid = N.div (N.add high low) (Npos (XO XH)) in
         if fits parity_size sz0 mid
         then bsearch f parity_size sz0 mid high
         else bsearch f parity_size sz0 low mid

(** val max_l : n -> n -> n **)

let max_l slot_size sz0 =
  bsearch (S (S (S (S (S (S (S (S (S (S (S (S O))))))))))))
    (N.sub slot_size dATA_REGION_OFFSET) sz0 N0 (Npos (XO (XO (XO (XO (XO (XO
    (XO (XO (XO (XO (XO XH))))))))))))

(** val prbs23 : n -> n **)

let prbs23 x =
  let b0 = N.coq_land x (Npos XH) in
  let b1 =
    N.shiftr (N.coq_land x (Npos (XO (XO (XO (XO (XO XH))))))) (Npos (XI (XO
      XH)))
  in
  N.add (N.div x (Npos (XO XH)))
    (N.shiftl (N.coq_lxor b0 b1) (Npos (XO (XI (XI (XO XH))))))

(** val is_pow2 : n -> bool **)

let is_pow2 m =
  (&&) (negb (N.eqb m N0)) (N.eqb (N.coq_land m (N.sub m (Npos XH))) N0)

(** val draw : nat -> n -> n -> n -> (n * n) option **)

let rec draw fuel x m md =
  match fuel with
  | O -> None
  | S f ->
    let x' = prbs23 x in
    let r = N.modulo x' md in
    if N.ltb r m then Some (x', r) else draw f x' m md

(** val ref_fill : nat -> nat -> n -> n -> n -> n list option **)

let rec ref_fill fuel k x m md =
  match k with
  | O -> Some []
  | S k' ->
    (match draw fuel x m md with
     | Some p ->
       let (x', r) = p in
       option_map (fun x0 -> r :: x0) (ref_fill fuel k' x' m md)
     | None -> None)

(** val u32 : n -> n **)

let u32 v =
  N.modulo v (Npos (XO (XO (XO (XO (XO (XO (XO (XO (XO (XO (XO (XO (XO (XO
    (XO (XO (XO (XO (XO (XO (XO (XO (XO (XO (XO (XO (XO (XO (XO (XO (XO (XO
    XH)))))))))))))))))))))))))))))))))

(** val impl_new : nat -> n -> n -> n list option **)

let impl_new fuel cap_n cap_m =
  let m = if is_pow2 cap_m then Npos XH else N0 in
  ref_fill fuel (N.to_nat (N.shiftr cap_m (Npos XH)))
    (N.add (Npos XH)
      (u32
        (N.mul (Npos (XI (XO (XO (XI (XO (XI (XI (XI (XI XH)))))))))) cap_n)))
    cap_m (N.add cap_m m)

type 'st sto = { dget : ('st -> nat -> n); dput : ('st -> nat -> n -> 'st);
                 pget : ('st -> nat -> n); pput : ('st -> nat -> n -> 'st);
                 mget : ('st -> nat -> n); mput : ('st -> nat -> n -> 'st) }

type result =
| NeedMore
| TooManyMissing
| Done of n

type 'st gst = { n0 : nat; l : nat; bs : n; done0 : (nat -> bool);
                 used : (nat -> bool); store : 'st }

(** val upd : (nat -> 'a1) -> nat -> 'a1 -> nat -> 'a1 **)

let upd f k v i =
  if Nat.eqb i k then v else f i

(** val bit : n -> nat -> bool **)

let bit r i =
  N.testbit r (N.of_nat i)

(** val unknowns : 'a1 gst -> nat list **)

let unknowns s =
  filter (fun i -> negb (s.done0 i)) (seq O s.n0)

(** val missing : 'a1 gst -> nat **)

let missing s =
  length (unknowns s)

(** val unk : 'a1 gst -> nat -> nat **)

let unk s j =
  nth j (unknowns s) O

(** val is_complete : 'a1 gst -> bool **)

let is_complete s =
  if Nat.eqb s.l O
  then forallb s.done0 (seq O s.n0)
  else forallb s.used (seq O s.l)

(** val strip : 'a1 sto -> 'a1 gst -> n -> n -> n **)

let strip i s r d =
  fold_left (fun d0 i0 ->
    if (&&) (bit r i0) (s.done0 i0)
    then N.coq_lxor d0 (i.dget s.store i0)
    else d0) (seq O s.n0) d

(** val project : 'a1 gst -> n -> n **)

let project s r =
  fst
    (fold_left (fun pat i ->
      let (acc, j) = pat in
      ((if bit r i then N.setbit acc (N.of_nat j) else acc), (S j)))
      (unknowns s) (N0, O))

(** val elim : 'a1 sto -> 'a1 gst -> nat -> n -> n -> 'a1 gst **)

let rec elim i s wh r d =
  if bit r wh
  then if s.used wh
       then let d' = N.coq_lxor d (i.pget s.store wh) in
            let r' = N.coq_lxor r (i.mget s.store wh) in
            (match wh with
             | O -> s
             | S k -> elim i s k r' d')
       else { n0 = s.n0; l = s.l; bs = s.bs; done0 = s.done0; used =
              (upd s.used wh true); store =
              (i.mput (i.pput s.store wh d) wh r) }
  else (match wh with
        | O -> s
        | S k -> elim i s k r d)

(** val finish_row : 'a1 sto -> 'a1 gst -> nat -> 'a1 gst **)

let finish_row i s i0 =
  let p = i.pget s.store i0 in
  let r = i.mget s.store i0 in
  let out =
    fold_left (fun o j ->
      if bit r j then N.coq_lxor o (i.dget s.store (unk s j)) else o)
      (seq O i0) p
  in
  { n0 = s.n0; l = s.l; bs = s.bs; done0 = s.done0; used = s.used; store =
  (i.dput s.store (unk s i0) out) }

(** val finish : 'a1 sto -> 'a1 gst -> 'a1 gst **)

let finish i s =
  fold_left (finish_row i) (seq O s.l) s

(** val done_len : 'a1 gst -> n **)

let done_len s =
  N.mul (N.of_nat s.n0) s.bs

(** val handle_block :
    'a1 sto -> (nat -> n) -> nat -> nat -> 'a1 gst -> nat -> n -> 'a1
    gst * result **)

let handle_block i p cap vbits s idx b =
  if is_complete s
  then (s, (Done (done_len s)))
  else let enter = (&&) (Nat.leb s.n0 idx) (Nat.eqb s.l O) in
       let l2 = if enter then missing s else s.l in
       if (&&) enter ((||) (Nat.ltb vbits l2) (Nat.ltb cap l2))
       then (s, TooManyMissing)
       else let s1 = { n0 = s.n0; l = l2; bs = s.bs; done0 = s.done0; used =
              s.used; store = s.store }
            in
            if Nat.eqb s1.l O
            then let s2 =
                   if s1.done0 idx
                   then s1
                   else { n0 = s1.n0; l = s1.l; bs = s1.bs; done0 =
                          (upd s1.done0 idx true); used = s1.used; store =
                          (i.dput s1.store idx b) }
                 in
                 (s2,
                 (if is_complete s2 then Done (done_len s2) else NeedMore))
            else let d = strip i s1 (p idx) b in
                 let s2 = elim i s1 (sub s1.l (S O)) (project s1 (p idx)) d in
                 if is_complete s2
                 then let s3 = finish i s2 in (s3, (Done (done_len s3)))
                 else (s2, NeedMore)

type fl = { mm : mem; wlog : ((n * n) * n) list }

(** val fprog : fl -> n -> n -> n -> fl **)

let fprog f a len v =
  { mm = (program f.mm a len v); wlog = (app f.wlog (((a, len), v) :: [])) }

type geo = { fwb : n; pab : n; sz : n; nseg : n; ssize : n }

(** val capL : geo -> n **)

let capL g =
  max_l g.ssize g.sz

(** val daddr : geo -> nat -> n **)

let daddr g i =
  N.add (N.add g.fwb dATA_REGION_OFFSET) (N.mul (N.of_nat i) g.sz)

(** val saddr : geo -> nat -> n **)

let saddr g i =
  N.add (N.add g.fwb hEADER_SIZE) (N.of_nat i)

(** val paddr : geo -> nat -> n **)

let paddr g k =
  N.add (N.add g.pab hEADER_SIZE) (N.mul (N.of_nat k) g.sz)

(** val raddr : geo -> nat -> n **)

let raddr g k =
  N.add (N.add (N.add g.pab hEADER_SIZE) (N.mul (capL g) g.sz))
    (mro (N.of_nat k))

(** val flash_sto : geo -> fl sto **)

let flash_sto g =
  { dget = (fun f i -> read f.mm (daddr g i) g.sz); dput = (fun f i b ->
    fprog (fprog f (daddr g i) g.sz b) (saddr g i) (Npos XH) (Npos (XI (XI
      (XO (XO (XI XH))))))); pget = (fun f k -> read f.mm (paddr g k) g.sz);
    pput = (fun f k b -> fprog f (paddr g k) g.sz b); mget = (fun f k ->
    N.coq_lxor (read f.mm (raddr g k) (rowlen (N.of_nat k)))
      (N.pow (Npos (XO XH)) (N.of_nat k))); mput = (fun f k r ->
    fprog f (raddr g k) (rowlen (N.of_nat k)) (N.clearbit r (N.of_nat k))) }

(** val mask0 : n list -> n **)

let mask0 l0 =
  fold_left (fun acc r -> N.coq_lor acc (N.shiftl (Npos XH) r)) l0 N0

(** val updater_row : nat -> nat -> n **)

let updater_row nn m =
  if Nat.ltb m nn
  then N.shiftl (Npos XH) (N.of_nat m)
  else (match impl_new (S (S (S (S (S (S (S (S (S (S (S (S (S (S (S (S (S (S
                (S (S (S (S (S (S (S (S (S (S (S (S (S (S (S (S (S (S (S (S
                (S (S (S (S (S (S (S (S (S (S (S (S (S (S (S (S (S (S (S (S
                (S (S (S (S (S (S (S (S (S (S (S (S (S (S (S (S (S (S (S (S
                (S (S (S (S (S (S (S (S (S (S (S (S (S (S (S (S (S (S (S (S
                (S (S (S (S (S (S (S (S (S (S (S (S (S (S (S (S (S (S (S (S
                (S (S (S (S (S (S (S (S (S (S (S (S (S (S (S (S (S (S (S (S
                (S (S (S (S (S (S (S (S (S (S (S (S (S (S (S (S (S (S (S (S
                (S (S (S (S (S (S (S (S (S (S (S (S (S (S (S (S (S (S (S (S
                (S (S (S (S (S (S (S (S (S (S (S (S (S (S (S (S (S (S (S (S
                (S (S (S (S (S (S (S (S (S (S (S (S (S (S (S (S (S (S (S (S
                (S (S (S (S (S (S (S (S (S (S (S (S (S (S (S (S (S (S (S (S
                (S (S (S (S (S (S (S (S (S (S (S (S (S (S (S (S (S (S (S (S
                (S (S (S (S (S (S (S (S (S (S (S (S (S (S (S (S (S (S (S (S
                (S (S (S (S (S (S (S (S (S (S (S (S (S (S (S (S (S (S (S (S
                (S (S (S (S (S (S (S (S (S (S (S (S (S (S (S (S (S (S (S (S
                (S (S (S (S (S (S (S (S (S (S (S (S (S (S (S (S (S (S (S (S
                (S (S (S (S (S (S (S (S (S (S (S (S (S (S (S (S (S (S (S (S
                (S (S (S (S (S (S (S (S (S (S (S (S (S (S (S (S (S (S (S (S
                (S (S (S (S (S (S (S (S (S (S (S (S (S (S (S (S (S (S (S (S
                (S (S (S (S (S (S (S (S (S (S (S (S (S (S (S (S (S (S (S (S
                (S (S (S (S (S (S (S (S (S (S (S (S (S (S (S (S (S (S (S (S
                (S (S (S (S (S (S (S (S (S (S (S (S (S (S (S (S (S (S (S (S
                (S (S (S (S (S (S (S (S (S (S (S (S (S (S (S (S (S (S (S (S
                (S (S (S (S (S (S (S (S (S (S (S (S (S (S (S (S (S (S (S (S
                (S (S (S (S (S (S (S (S (S (S (S (S (S (S (S (S (S (S (S (S
                (S (S (S (S (S (S (S (S (S (S (S (S (S (S (S (S (S (S (S (S
                (S (S (S (S (S (S (S (S (S (S (S (S (S (S (S (S (S (S (S (S
                (S (S (S (S (S (S (S (S (S (S (S (S (S (S (S (S (S (S (S (S
                (S (S (S (S (S (S (S (S (S (S (S (S (S (S (S (S (S (S (S (S
                (S (S (S (S (S (S (S (S (S (S (S (S (S (S (S (S (S (S (S (S
                (S (S (S (S (S (S (S (S (S (S (S (S (S (S (S (S (S (S (S (S
                (S (S (S (S (S (S (S (S (S (S (S (S (S (S (S (S (S (S (S (S
                (S (S (S (S (S (S (S (S (S (S (S (S (S (S (S (S (S (S (S (S
                (S (S (S (S (S (S (S (S (S (S (S (S (S (S (S (S (S (S (S (S
                (S (S (S (S (S (S (S (S (S (S (S (S (S (S (S (S (S (S (S (S
                (S (S (S (S (S (S (S (S (S (S (S (S (S (S (S (S (S (S (S (S
                (S (S (S (S (S (S (S (S (S (S (S (S (S (S (S (S (S (S (S (S
                (S (S (S (S (S (S (S (S (S (S (S (S (S (S (S (S (S (S (S (S
                (S (S (S (S (S (S (S (S (S (S (S (S (S (S (S (S (S (S (S (S
                (S (S (S (S (S (S (S (S (S (S (S (S (S (S (S (S (S (S (S (S
                (S (S (S (S (S (S (S (S (S (S (S (S (S (S (S (S (S (S (S (S
                (S (S (S (S (S (S (S (S (S (S (S (S (S (S (S (S (S (S (S (S
                (S (S (S (S (S (S (S (S (S (S (S (S (S (S (S (S (S (S (S (S
                (S (S (S (S (S (S (S (S (S (S (S (S (S (S (S (S (S (S (S (S
                (S (S (S (S (S (S (S (S (S (S (S (S (S (S (S (S (S (S (S (S
                (S (S (S (S (S (S (S (S (S (S (S (S (S (S (S (S (S (S (S (S
                (S (S (S (S (S (S (S (S (S (S (S (S (S (S (S (S (S (S (S (S
                (S (S (S (S (S (S (S (S (S (S (S (S (S (S (S (S (S (S (S (S
                (S (S (S (S (S (S (S (S (S (S (S (S (S (S (S (S (S (S (S (S
                (S (S (S (S (S (S (S (S (S (S (S (S (S (S (S (S (S (S (S (S
                (S (S (S (S (S (S (S (S (S (S (S (S (S (S (S (S (S (S (S (S
                (S (S (S (S (S (S (S (S (S (S (S (S (S (S (S (S (S (S (S (S
                (S (S (S (S (S (S (S (S (S (S (S (S (S (S (S (S (S (S (S (S
                (S (S (S (S (S (S (S (S (S (S (S (S (S (S (S (S (S (S (S (S
                (S (S (S (S (S (S (S (S (S (S (S (S (S (S (S (S (S (S (S (S
                (S (S (S (S (S (S (S (S (S (S (S (S (S (S (S (S (S (S (S (S
                (S (S (S (S (S (S (S (S (S (S (S (S (S (S (S (S (S (S (S (S
                (S (S (S (S (S (S (S (S (S (S (S (S (S (S (S (S (S (S (S (S
                (S (S (S (S (S (S (S (S (S (S (S (S (S (S (S (S (S (S (S (S
                (S (S (S (S (S (S (S (S (S (S (S (S (S (S (S (S (S (S (S (S
                (S (S (S (S (S (S (S (S (S (S (S (S (S (S (S (S (S (S (S (S
                (S (S (S (S (S (S (S (S (S (S (S (S (S (S (S (S (S (S (S (S
                (S (S (S (S (S (S (S (S (S (S (S (S (S (S (S (S (S (S (S (S
                (S (S (S (S (S (S (S (S (S (S (S (S (S (S (S (S (S (S (S (S
                (S (S (S (S (S (S (S (S (S (S (S (S (S (S (S (S (S (S (S (S
                (S (S (S (S (S (S (S (S (S (S (S (S (S (S (S (S (S (S (S (S
                (S (S (S (S (S (S (S (S (S (S (S (S (S (S (S (S (S (S (S (S
                (S (S (S (S (S (S (S (S (S (S (S (S (S (S (S (S (S (S (S (S
                (S (S (S (S (S (S (S (S (S (S (S (S (S (S (S (S (S (S (S (S
                (S (S (S (S (S (S (S (S (S (S (S (S (S (S (S (S (S (S (S (S
                (S (S (S (S (S (S (S (S (S (S (S (S (S (S (S (S (S (S (S (S
                (S (S (S (S (S (S (S (S (S (S (S (S (S (S (S (S (S (S (S (S
                (S (S (S (S (S (S (S (S (S (S (S (S (S (S (S (S (S (S (S (S
                (S (S (S (S (S (S (S (S (S (S (S (S (S (S (S (S (S (S (S (S
                (S (S (S (S (S (S (S (S (S (S (S (S (S (S (S (S (S (S (S (S
                (S (S (S (S (S (S (S (S (S (S (S (S (S (S (S (S (S (S (S (S
                (S (S (S (S (S (S (S (S (S (S (S (S (S (S (S (S (S (S (S (S
                (S (S (S (S (S (S (S (S (S (S (S (S (S (S (S (S (S (S (S (S
                (S (S (S (S (S (S (S (S (S (S (S (S (S (S (S (S (S (S (S (S
                (S (S (S (S (S (S (S (S (S (S (S (S (S (S (S (S (S (S (S (S
                (S (S (S (S (S (S (S (S (S (S (S (S (S (S (S (S (S (S (S (S
                (S (S (S (S (S (S (S (S (S (S (S (S (S (S (S (S (S (S (S (S
                (S (S (S (S (S (S (S (S (S (S (S (S (S (S (S (S (S (S (S (S
                (S (S (S (S (S (S (S (S (S (S (S (S (S (S (S (S (S (S (S (S
                (S (S (S (S (S (S (S (S (S (S (S (S (S (S (S (S (S (S (S (S
                (S (S (S (S (S (S (S (S (S (S (S (S (S (S (S (S (S (S (S (S
                (S (S (S (S (S (S (S (S (S (S (S (S (S (S (S (S (S (S (S (S
                (S (S (S (S (S (S (S (S (S (S (S (S (S (S (S (S (S (S (S (S
                (S (S (S (S (S (S (S (S (S (S (S (S (S (S (S (S (S (S (S (S
                (S (S (S (S (S (S (S (S (S (S (S (S (S (S (S (S (S (S (S (S
                (S (S (S (S (S (S (S (S (S (S (S (S (S (S (S (S (S (S (S (S
                (S (S (S (S (S (S (S (S (S (S (S (S (S (S (S (S (S (S (S (S
                (S (S (S (S (S (S (S (S (S (S (S (S (S (S (S (S (S (S (S (S
                (S (S (S (S (S (S (S (S (S (S (S (S (S (S (S (S (S (S (S (S
                (S (S (S (S (S (S (S (S (S (S (S (S (S (S (S (S (S (S (S (S
                (S (S (S (S (S (S (S (S (S (S (S (S (S (S (S (S (S (S (S (S
                (S (S (S (S (S (S (S (S (S (S (S (S (S (S (S (S (S (S (S (S
                (S (S (S (S (S (S (S (S (S (S (S (S (S (S (S (S (S (S (S (S
                (S (S (S (S (S (S (S (S (S (S (S (S (S (S (S (S (S (S (S (S
                (S (S (S (S (S (S (S (S (S (S (S (S (S (S (S (S (S (S (S (S
                (S (S (S (S (S (S (S (S (S (S (S (S (S (S (S (S (S (S (S (S
                (S (S (S (S (S (S (S (S (S (S (S (S (S (S (S (S (S (S (S (S
                (S (S (S (S (S (S (S (S (S (S (S (S (S (S (S (S (S (S (S (S
                (S (S (S (S (S (S (S (S (S (S (S (S (S (S (S (S (S (S (S (S
                (S (S (S (S (S (S (S (S (S (S (S (S (S (S (S (S (S (S (S (S
                (S (S (S (S (S (S (S (S (S (S (S (S (S (S (S (S (S (S (S (S
                (S (S (S (S (S (S (S (S (S (S (S (S (S (S (S (S (S (S (S (S
                (S (S (S (S (S (S (S (S (S (S (S (S (S (S (S (S (S (S (S (S
                (S (S (S (S (S (S (S (S (S (S (S (S (S (S (S (S (S (S (S (S
                (S (S (S (S (S (S (S (S (S (S (S (S (S (S (S (S (S (S (S (S
                (S (S (S (S (S (S (S (S (S (S (S (S (S (S (S (S (S (S (S (S
                (S (S (S (S (S (S (S (S (S (S (S (S (S (S (S (S (S (S (S (S
                (S (S (S (S (S (S (S (S (S (S (S (S (S (S (S (S (S (S (S (S
                (S (S (S (S (S (S (S (S (S (S (S (S (S (S (S (S (S (S (S (S
                (S (S (S (S (S (S (S (S (S (S (S (S (S (S (S (S (S (S (S (S
                (S (S (S (S (S (S (S (S (S (S (S (S (S (S (S (S (S (S (S (S
                (S (S (S (S (S (S (S (S (S (S (S (S (S (S (S (S (S (S (S (S
                (S (S (S (S (S (S (S (S (S (S (S (S (S (S (S (S (S (S (S (S
                (S (S (S (S (S (S (S (S (S (S (S (S (S (S (S (S (S (S (S (S
                (S (S (S (S (S (S (S (S (S (S (S (S (S (S (S (S (S (S (S (S
                (S (S (S (S (S (S (S (S (S (S (S (S (S (S (S (S (S (S (S (S
                (S (S (S (S (S (S (S (S (S (S (S (S (S (S (S (S (S (S (S (S
                (S (S (S (S (S (S (S (S (S (S (S (S (S (S (S (S (S (S (S (S
                (S (S (S (S (S (S (S (S (S (S (S (S (S (S (S (S (S (S (S (S
                (S (S (S (S (S (S (S (S (S (S (S (S (S (S (S (S (S (S (S (S
                (S (S (S (S (S (S (S (S (S (S (S (S (S (S (S (S (S (S (S (S
                (S (S (S (S (S (S (S (S (S (S (S (S (S (S (S (S (S (S (S (S
                (S (S (S (S (S (S (S (S (S (S (S (S (S (S (S (S (S (S (S (S
                (S (S (S (S (S (S (S (S (S (S (S (S (S (S (S (S (S (S (S (S
                (S (S (S (S (S (S (S (S (S (S (S (S (S (S (S (S (S (S (S (S
                (S (S (S (S (S (S (S (S (S (S (S (S (S (S (S (S (S (S (S (S
                (S (S (S (S (S (S (S (S (S (S (S (S (S (S (S (S (S (S (S (S
                (S (S (S (S (S (S (S (S (S (S (S (S (S (S (S (S (S (S (S (S
                (S (S (S (S (S (S (S (S (S (S (S (S (S (S (S (S (S (S (S (S
                (S (S (S (S (S (S (S (S (S (S (S (S (S (S (S (S (S (S (S (S
                (S (S (S (S (S (S (S (S (S (S (S (S (S (S (S (S (S (S (S (S
                (S (S (S (S (S (S (S (S (S (S (S (S (S (S (S (S (S (S (S (S
                (S (S (S (S (S (S (S (S (S (S (S (S (S (S (S (S (S (S (S (S
                (S (S (S (S (S (S (S (S (S (S (S (S (S (S (S (S (S (S (S (S
                (S (S (S (S (S (S (S (S (S (S (S (S (S (S (S (S (S (S (S (S
                (S (S (S (S (S (S (S (S (S (S (S (S (S (S (S (S (S (S (S (S
                (S (S (S (S (S (S (S (S (S (S (S (S (S (S (S (S (S (S (S (S
                (S (S (S (S (S (S (S (S (S (S (S (S (S (S (S (S (S (S (S (S
                (S (S (S (S (S (S (S (S (S (S (S (S (S (S (S (S (S (S (S (S
                (S (S (S (S (S (S (S (S (S (S (S (S (S (S (S (S (S (S (S (S
                (S (S (S (S (S (S (S (S (S (S (S (S (S (S (S (S (S (S (S (S
                (S (S (S (S (S (S (S (S (S (S (S (S (S (S (S (S (S (S (S (S
                (S (S (S (S (S (S (S (S (S (S (S (S (S (S (S (S (S (S (S (S
                (S (S (S (S (S (S (S (S (S (S (S (S (S (S (S (S (S (S (S (S
                (S (S (S (S (S (S (S (S (S (S (S (S (S (S (S (S (S (S (S (S
                (S (S (S (S (S (S (S (S (S (S (S (S (S (S (S (S (S (S (S (S
                (S (S (S (S (S (S (S (S (S (S (S (S (S (S (S (S (S (S (S (S
                (S (S (S (S (S (S (S (S (S (S (S (S (S (S (S (S (S (S (S (S
                (S (S (S (S (S (S (S (S (S (S (S (S (S (S (S (S (S (S (S (S
                (S (S (S (S (S (S (S (S (S (S (S (S (S (S (S (S (S (S (S (S
                (S (S (S (S (S (S (S (S (S (S (S (S (S (S (S (S (S (S (S (S
                (S (S (S (S (S (S (S (S (S (S (S (S (S (S (S (S (S (S (S (S
                (S (S (S (S (S (S (S (S (S (S (S (S (S (S (S (S (S (S (S (S
                (S (S (S (S (S (S (S (S (S (S (S (S (S (S (S (S (S (S (S (S
                (S (S (S (S (S (S (S (S (S (S (S (S (S (S (S (S (S (S (S (S
                (S (S (S (S (S (S (S (S (S (S (S (S (S (S (S (S (S (S (S (S
                (S (S (S (S (S (S (S (S (S (S (S (S (S (S (S (S (S (S (S (S
                (S (S (S (S (S (S (S (S (S (S (S (S (S (S (S (S (S (S (S (S
                (S (S (S (S (S (S (S (S (S (S (S (S (S (S (S (S (S (S (S (S
                (S (S (S (S (S (S (S (S (S (S (S (S (S (S (S (S (S (S (S (S
                (S (S (S (S (S (S (S (S (S (S (S (S (S (S (S (S (S (S (S (S
                (S (S (S (S (S (S (S (S (S (S (S (S (S (S (S (S (S (S (S (S
                (S (S (S (S (S (S (S (S (S (S (S (S (S (S (S (S (S (S (S (S
                (S (S (S (S (S (S (S (S (S (S (S (S (S (S (S (S (S (S (S (S
                (S (S (S (S (S (S (S (S (S (S (S (S (S (S (S (S (S (S (S (S
                (S (S (S (S (S (S (S (S (S (S (S (S (S (S (S (S (S (S (S (S
                (S (S (S (S (S (S (S (S (S (S (S (S (S (S (S (S (S (S (S (S
                (S (S (S (S (S (S (S (S (S (S (S (S (S (S (S (S (S (S (S (S
                (S (S (S (S (S (S (S (S (S (S (S (S (S (S (S (S (S (S (S (S
                (S (S (S (S (S (S (S (S (S (S (S (S (S (S (S (S (S (S (S (S
                (S (S (S (S (S (S (S (S (S (S (S (S (S (S (S (S (S (S (S (S
                (S (S (S (S (S (S (S (S (S (S (S (S (S (S (S (S (S (S (S (S
                (S (S (S (S (S (S (S (S (S (S (S (S (S (S (S (S (S (S (S (S
                (S (S (S (S (S (S (S (S (S (S (S (S (S (S (S (S (S (S (S (S
                (S (S (S (S (S (S (S (S (S (S (S (S (S (S (S (S (S (S (S (S
                (S (S (S (S (S (S (S (S (S (S (S (S (S (S (S (S (S (S (S (S
                (S (S (S (S (S (S (S (S (S (S (S (S (S (S (S (S (S (S (S (S
                (S (S (S (S (S (S (S (S (S (S (S (S (S (S (S (S (S (S (S (S
                (S (S (S (S (S (S (S (S (S (S (S (S (S (S (S (S (S (S (S (S
                (S (S (S (S (S (S (S (S (S (S (S (S (S (S (S (S (S (S (S (S
                (S (S (S (S (S (S (S (S (S (S (S (S (S (S (S (S (S (S (S (S
                (S (S (S (S (S (S (S (S (S (S (S (S (S (S (S (S (S (S (S (S
                (S (S (S (S (S (S (S (S (S (S (S (S (S (S (S (S (S (S (S (S
                (S (S (S (S (S (S (S (S (S (S (S (S (S (S (S (S (S (S (S (S
                (S (S (S (S (S (S (S (S (S (S (S (S (S (S (S (S (S (S (S (S
                (S (S (S (S (S (S (S (S (S (S (S (S (S (S (S (S (S (S (S (S
                (S (S (S (S (S (S (S (S (S (S (S (S (S (S (S (S (S (S (S (S
                (S (S (S (S (S (S (S (S (S (S (S (S (S (S (S (S (S (S (S (S
                (S (S (S (S (S (S (S (S (S (S (S (S (S (S (S (S (S (S (S (S
                (S (S (S (S (S (S (S (S (S (S (S (S (S (S (S (S (S (S (S (S
                (S (S (S (S (S (S (S (S (S (S (S (S (S (S (S (S (S (S (S (S
                (S (S (S (S (S (S (S (S (S (S (S (S (S (S (S (S (S (S (S (S
                (S (S (S (S (S (S (S (S (S (S (S (S (S (S (S (S (S (S (S (S
                (S (S (S (S (S (S (S (S (S (S (S (S (S (S (S (S (S (S (S (S
                (S (S (S (S (S (S (S (S (S (S (S (S (S (S (S (S (S (S (S (S
                (S (S (S (S (S (S (S (S (S (S (S (S (S (S (S (S (S (S (S (S
                (S (S (S (S (S (S (S (S (S (S (S (S (S (S (S (S (S (S (S (S
                (S (S (S (S (S (S (S (S (S (S (S (S (S (S (S (S (S (S (S (S
                (S (S (S (S (S (S (S (S (S (S (S (S (S (S (S (S (S (S
                O))))))))))))))))))))))))))))))))))))))))))))))))))))))))))))))))))))))))))))))))))))))))))))))))))))))))))))))))))))))))))))))))))))))))))))))))))))))))))))))))))))))))))))))))))))))))))))))))))))))))))))))))))))))))))))))))))))))))))))))))))))))))))))))))))))))))))))))))))))))))))))))))))))))))))))))))))))))))))))))))))))))))))))))))))))))))))))))))))))))))))))))))))))))))))))))))))))))))))))))))))))))))))))))))))))))))))))))))))))))))))))))))))))))))))))))))))))))))))))))))))))))))))))))))))))))))))))))))))))))))))))))))))))))))))))))))))))))))))))))))))))))))))))))))))))))))))))))))))))))))))))))))))))))))))))))))))))))))))))))))))))))))))))))))))))))))))))))))))))))))))))))))))))))))))))))))))))))))))))))))))))))))))))))))))))))))))))))))))))))))))))))))))))))))))))))))))))))))))))))))))))))))))))))))))))))))))))))))))))))))))))))))))))))))))))))))))))))))))))))))))))))))))))))))))))))))))))))))))))))))))))))))))))))))))))))))))))))))))))))))))))))))))))))))))))))))))))))))))))))))))))))))))))))))))))))))))))))))))))))))))))))))))))))))))))))))))))))))))))))))))))))))))))))))))))))))))))))))))))))))))))))))))))))))))))))))))))))))))))))))))))))))))))))))))))))))))))))))))))))))))))))))))))))))))))))))))))))))))))))))))))))))))))))))))))))))))))))))))))))))))))))))))))))))))))))))))))))))))))))))))))))))))))))))))))))))))))))))))))))))))))))))))))))))))))))))))))))))))))))))))))))))))))))))))))))))))))))))))))))))))))))))))))))))))))))))))))))))))))))))))))))))))))))))))))))))))))))))))))))))))))))))))))))))))))))))))))))))))))))))))))))))))))))))))))))))))))))))))))))))))))))))))))))))))))))))))))))))))))))))))))))))))))))))))))))))))))))))))))))))))))))))))))))))))))))))))))))))))))))))))))))))))))))))))))))))))))))))))))))))))))))))))))))))))))))))))))))))))))))))))))))))))))))))))))))))))))))))))))))))))))))))))))))))))))))))))))))))))))))))))))))))))))))))))))))))))))))))))))))))))))))))))))))))))))))))))))))))))))))))))))))))))))))))))))))))))))))))))))))))))))))))))))))))))))))))))))))))))))))))))))))))))))))))))))))))))))))))))))))))))))))))))))))))))))))))))))))))))))))))))))))))))))))))))))))))))))))))))))))))))))))))))))))))))))))))))))))))))))))))))))))))))))))))))))))))))))))))))))))))))))))))))))))))))))))))))))))))))))))))))))))))))))))))))))))))))))))))))))))))))))))))))))))))))))))))))))))))))))))))))))))))))))))))))))))))))))))))))))))))))))))))))))))))))))))))))))))))))))))))))))))))))))))))))))))))))))))))))))))))))))))))))))))))))))))))))))))))))))))))))))))))))))))))))))))))))))))))))))))))))))))))))))))))))))))))))))))))))))))))))))))))))))))))))))))))))))))))))))))))))))))))))))))))))))))))))))))))))))))))))))))))))))))))))))))))))))))))))))))))))))))))))))))))))))))))))))))))))))))))))))))))))))))))))))))))))))))))))))))))))))))))))))))))))))))))))))))))))))))))))))))))))))))))))))))))))))))))))))))))))))))))))))))))))))))))))))))))))))))))))))))))))))))))))))))))))))))))))))))))))))))))))))))))))))))))))))))))))))))))))))))))))))))))))))))))))))))))))))))))))))))))))))))))))))))))))))))))))))))))))))))))))))))))))))))))))))))))))))))))))))))))))))))))))))))))))))))))))))))))))))))))))))))))))))))))))))))))))))))))))))))))))))))))))))))))))))))))))))))))))))))))))))))))))))))))))))))))))))))))))))))))))))))))))))))))))))))))))))))))))))))))))))))))))))))))))))))))))))))))))))))))))))))))))))))))))))))))))))))))))))))))))))))))))))))))))))))))))))))))))))))))))))))))))))))))))))))))))))))))))))))))))))))))))))))))))))))))))))))))))))))))))))))))))))))))))))))))))))))))))))))))))))))))))))))))))))))))))))))))))))))))))))))))))))))))))))))))))))))))))))))))))))))))))))))))))))))))))))))))))))))))))))))))))))))))))))))))))))))))))))))))))))))))))))))))))))))))))))))))))))))))))))))))))))))))))))))))))))))))))))))))))))))))))))))))))))))))))))))))))))))))))))))))))))))))))))))))))))))))))))))))))))))))))))))))))))))))))))))))))))))))))))))))))))))))))))))))))))))))))))))))))))))))))))))))))))))))))))))))))))))))))))))))))))))))))))))))))))))))))))))))))))))))))))))))))))))))))))))))))))))))))))))))
                (N.of_nat (add (sub m nn) (S O))) (N.of_nat nn) with
        | Some l0 -> mask0 l0
        | None -> N0)

type session = fl gst

(** val start_session : geo -> mem -> session **)

let start_session g m0 =
  { n0 = (N.to_nat g.nseg); l = O; bs = g.sz; done0 = (fun _ -> false);
    used = (fun _ -> false); store = { mm = m0; wlog = [] } }

(** val handle_segment : geo -> session -> nat -> n -> session * result **)

let handle_segment g s idx1 payload =
  handle_block (flash_sto g) (updater_row (N.to_nat g.nseg))
    (N.to_nat (capL g)) (S (S (S (S (S (S (S (S (S (S (S (S (S (S (S (S (S (S
    (S (S (S (S (S (S (S (S (S (S (S (S (S (S (S (S (S (S (S (S (S (S (S (S
    (S (S (S (S (S (S (S (S (S (S (S (S (S (S (S (S (S (S (S (S (S (S (S (S
    (S (S (S (S (S (S (S (S (S (S (S (S (S (S (S (S (S (S (S (S (S (S (S (S
    (S (S (S (S (S (S (S (S (S (S (S (S (S (S (S (S (S (S (S (S (S (S (S (S
    (S (S (S (S (S (S (S (S (S (S (S (S (S (S (S (S (S (S (S (S (S (S (S (S
    (S (S (S (S (S (S (S (S (S (S (S (S (S (S (S (S (S (S (S (S (S (S (S (S
    (S (S (S (S (S (S (S (S (S (S (S (S (S (S (S (S (S (S (S (S (S (S (S (S
    (S (S (S (S (S (S (S (S (S (S (S (S (S (S (S (S (S (S (S (S (S (S (S (S
    (S (S (S (S (S (S (S (S (S (S (S (S (S (S (S (S (S (S (S (S (S (S (S (S
    (S (S (S (S (S (S (S (S (S (S (S (S (S (S (S (S (S (S (S (S (S (S (S (S
    (S (S (S (S (S (S (S (S (S (S (S (S (S (S (S (S (S (S (S (S (S (S (S (S
    (S (S (S (S (S (S (S (S (S (S (S (S (S (S (S (S (S (S (S (S (S (S (S (S
    (S (S (S (S (S (S (S (S (S (S (S (S (S (S (S (S (S (S (S (S (S (S (S (S
    (S (S (S (S (S (S (S (S (S (S (S (S (S (S (S (S (S (S (S (S (S (S (S (S
    (S (S (S (S (S (S (S (S (S (S (S (S (S (S (S (S (S (S (S (S (S (S (S (S
    (S (S (S (S (S (S (S (S (S (S (S (S (S (S (S (S (S (S (S (S (S (S (S (S
    (S (S (S (S (S (S (S (S (S (S (S (S (S (S (S (S (S (S (S (S (S (S (S (S
    (S (S (S (S (S (S (S (S (S (S (S (S (S (S (S (S (S (S (S (S (S (S (S (S
    (S (S (S (S (S (S (S (S (S (S (S (S (S (S (S (S (S (S (S (S (S (S (S (S
    (S (S (S (S (S (S (S (S (S (S (S (S (S (S (S (S (S (S (S (S (S (S (S (S
    (S (S (S (S (S (S (S (S (S (S (S (S (S (S (S (S (S (S (S (S (S (S (S (S
    (S (S (S (S (S (S (S (S (S (S (S (S (S (S (S (S (S (S (S (S (S (S (S (S
    (S (S (S (S (S (S (S (S (S (S (S (S (S (S (S (S (S (S (S (S (S (S (S (S
    (S (S (S (S (S (S (S (S (S (S (S (S (S (S (S (S (S (S (S (S (S (S (S (S
    (S (S (S (S (S (S (S (S (S (S (S (S (S (S (S (S (S (S (S (S (S (S (S (S
    (S (S (S (S (S (S (S (S (S (S (S (S (S (S (S (S (S (S (S (S (S (S (S (S
    (S (S (S (S (S (S (S (S (S (S (S (S (S (S (S (S (S (S (S (S (S (S (S (S
    (S (S (S (S (S (S (S (S (S (S (S (S (S (S (S (S (S (S (S (S (S (S (S (S
    (S (S (S (S (S (S (S (S (S (S (S (S (S (S (S (S (S (S (S (S (S (S (S (S
    (S (S (S (S (S (S (S (S (S (S (S (S (S (S (S (S (S (S (S (S (S (S (S (S
    (S (S (S (S (S (S (S (S (S (S (S (S (S (S (S (S (S (S (S (S (S (S (S (S
    (S (S (S (S (S (S (S (S (S (S (S (S (S (S (S (S (S (S (S (S (S (S (S (S
    (S (S (S (S (S (S (S (S (S (S (S (S (S (S (S (S (S (S (S (S (S (S (S (S
    (S (S (S (S (S (S (S (S (S (S (S (S (S (S (S (S (S (S (S (S (S (S (S (S
    (S (S (S (S (S (S (S (S (S (S (S (S (S (S (S (S (S (S (S (S (S (S (S (S
    (S (S (S (S (S (S (S (S (S (S (S (S (S (S (S (S (S (S (S (S (S (S (S (S
    (S (S (S (S (S (S (S (S (S (S (S (S (S (S (S (S (S (S (S (S (S (S (S (S
    (S (S (S (S (S (S (S (S (S (S (S (S (S (S (S (S (S (S (S (S (S (S (S (S
    (S (S (S (S (S (S (S (S (S (S (S (S (S (S (S (S (S (S (S (S (S (S (S (S
    (S (S (S (S (S (S (S (S (S (S (S (S (S (S (S (S (S (S (S (S (S (S (S (S
    (S (S (S (S (S (S (S (S (S (S (S (S (S (S (S (S (S (S (S (S (S (S (S (S
    (S (S (S (S (S (S (S (S (S (S (S (S (S (S (S (S (S (S (S (S (S (S (S (S
    (S (S (S (S (S (S (S (S (S (S (S (S (S (S (S (S (S (S (S (S (S (S (S (S
    (S (S (S (S (S (S (S (S (S (S (S (S (S (S (S (S (S (S (S (S (S (S (S (S
    (S (S (S (S (S (S (S (S (S (S (S (S (S (S (S (S (S (S (S (S (S (S (S (S
    (S (S (S (S (S (S (S (S (S (S (S (S (S (S (S (S (S (S (S (S (S (S (S (S
    (S (S (S (S (S (S (S (S (S (S (S (S (S (S (S (S (S (S (S (S (S (S (S (S
    (S (S (S (S (S (S (S (S (S (S (S (S (S (S (S (S (S (S (S (S (S (S (S (S
    (S (S (S (S (S (S (S (S (S (S (S (S (S (S (S (S (S (S (S (S (S (S (S (S
    (S (S (S (S (S (S (S (S (S (S (S (S (S (S (S (S (S (S (S (S (S (S (S (S
    (S (S (S (S (S (S (S (S (S (S (S (S (S (S (S (S (S (S (S (S (S (S (S (S
    (S (S (S (S (S (S (S (S (S (S (S (S (S (S (S (S (S (S (S (S (S (S (S (S
    (S (S (S (S (S (S (S (S (S (S (S (S (S (S (S (S (S (S (S (S (S (S (S (S
    (S (S (S (S (S (S (S (S (S (S (S (S (S (S (S (S (S (S (S (S (S (S (S (S
    (S (S (S (S (S (S (S (S (S (S (S (S (S (S (S (S (S (S (S (S (S (S (S (S
    (S (S (S (S (S (S (S (S (S (S (S (S (S (S (S (S (S (S (S (S (S (S (S (S
    (S (S (S (S (S (S (S (S (S (S (S (S (S (S (S (S (S (S (S (S (S (S (S (S
    (S (S (S (S (S (S (S (S (S (S (S (S (S (S (S (S (S (S (S (S (S (S (S (S
    (S (S (S (S (S (S (S (S (S (S (S (S (S (S (S (S (S (S (S (S (S (S (S (S
    (S (S (S (S (S (S (S (S (S (S (S (S (S (S (S (S (S (S (S (S (S (S (S (S
    (S (S (S (S (S (S (S (S (S (S (S (S (S (S (S (S (S (S (S (S (S (S (S (S
    (S (S (S (S (S (S (S (S (S (S (S (S (S (S (S (S (S (S (S (S (S (S (S (S
    (S (S (S (S (S (S (S (S (S (S (S (S (S (S (S (S (S (S (S (S (S (S (S (S
    (S (S (S (S (S (S (S (S (S (S (S (S (S (S (S (S (S (S (S (S (S (S (S (S
    (S (S (S (S (S (S (S (S (S (S (S (S (S (S (S (S (S (S (S (S (S (S (S (S
    (S (S (S (S (S (S (S (S (S (S (S (S (S (S (S (S (S (S (S (S (S (S (S (S
    (S (S (S (S (S (S (S (S (S (S (S (S (S (S (S (S (S (S (S (S (S (S (S (S
    (S (S (S (S (S (S (S (S (S (S (S (S (S (S (S (S (S (S (S (S (S (S (S (S
    (S (S (S (S (S (S (S (S (S (S (S (S (S (S (S (S (S (S (S (S (S (S (S (S
    (S (S (S (S (S (S (S (S (S (S (S (S (S (S (S (S (S (S (S (S (S (S (S (S
    (S (S (S (S (S (S (S (S (S (S (S (S (S (S (S (S (S (S (S (S (S (S (S (S
    (S (S (S (S (S (S (S (S (S (S (S (S (S (S (S (S (S (S (S (S (S (S (S (S
    (S (S (S (S (S (S (S (S (S (S (S (S (S (S (S (S (S (S (S (S (S (S (S (S
    (S (S (S (S (S (S (S (S (S (S (S (S (S (S (S (S (S (S (S (S (S (S (S (S
    (S (S (S (S (S (S (S (S (S (S (S (S (S (S (S (S (S (S (S (S (S (S (S (S
    (S (S (S (S (S (S (S (S (S (S (S (S (S (S (S (S (S (S (S (S (S (S (S (S
    (S (S (S (S (S (S (S (S (S (S (S (S (S (S (S (S (S (S (S (S (S (S (S (S
    (S (S (S (S (S (S (S (S (S (S (S (S (S (S (S (S (S (S (S (S (S (S (S (S
    (S (S (S (S (S (S (S (S (S (S (S (S (S (S (S (S (S (S (S (S (S (S (S (S
    (S (S (S (S (S (S (S (S (S (S (S (S (S (S (S (S (S (S (S (S (S (S (S (S
    (S (S (S (S (S (S (S (S (S (S (S (S (S (S (S (S (S (S (S (S (S (S (S (S
    (S (S (S (S (S (S (S (S (S (S (S (S (S (S (S (S (S (S (S (S (S (S (S (S
    (S (S (S (S (S (S (S (S (S (S (S (S (S (S (S (S (S (S (S (S (S (S (S (S
    (S (S (S (S (S (S (S (S (S (S (S (S (S (S (S (S (S (S (S (S (S (S (S (S
    (S (S (S (S (S (S (S (S (S (S (S (S (S (S
    O))))))))))))))))))))))))))))))))))))))))))))))))))))))))))))))))))))))))))))))))))))))))))))))))))))))))))))))))))))))))))))))))))))))))))))))))))))))))))))))))))))))))))))))))))))))))))))))))))))))))))))))))))))))))))))))))))))))))))))))))))))))))))))))))))))))))))))))))))))))))))))))))))))))))))))))))))))))))))))))))))))))))))))))))))))))))))))))))))))))))))))))))))))))))))))))))))))))))))))))))))))))))))))))))))))))))))))))))))))))))))))))))))))))))))))))))))))))))))))))))))))))))))))))))))))))))))))))))))))))))))))))))))))))))))))))))))))))))))))))))))))))))))))))))))))))))))))))))))))))))))))))))))))))))))))))))))))))))))))))))))))))))))))))))))))))))))))))))))))))))))))))))))))))))))))))))))))))))))))))))))))))))))))))))))))))))))))))))))))))))))))))))))))))))))))))))))))))))))))))))))))))))))))))))))))))))))))))))))))))))))))))))))))))))))))))))))))))))))))))))))))))))))))))))))))))))))))))))))))))))))))))))))))))))))))))))))))))))))))))))))))))))))))))))))))))))))))))))))))))))))))))))))))))))))))))))))))))))))))))))))))))))))))))))))))))))))))))))))))))))))))))))))))))))))))))))))))))))))))))))))))))))))))))))))))))))))))))))))))))))))))))))))))))))))))))))))))))))))))))))))))))))))))))))))))))))))))))))))))))))))))))))))))))))))))))))))))))))))))))))))))))))))))))))))))))))))))))))))))))))))))))))))))))))))))))))))))))))))))))))))))))))))))))))))))))))))))))))))))))))))))))))))))))))))))))))))))))))))))))))))))))))))))))))))))))))))))))))))))))))))))))))))))))))))))))))))))))))))))))))))))))))))))))))))))))))))))))))))))))))))))))))))))))))))))))))))))))))))))))))))))))))))))))))))))))))))))))))))))))))))))))))))))))))))))))))))))))))))))))))))))))))))))))))))))))))))))))))))))))))))))))))))))))))))))))))))))))))))))))))))))))))))))))))))))))))))))))))))))))))))))))))))))))))))))))))))))))))))))))))))))))))))))))))))))))))))))))))))))))))))))))))))))))))))))))))))))))))))))))))))))))))))))))))))))))))))))))))))))))))))))))))))))))))))))))))))))))))))))))))))))))))))))))))))))))))))))))))))))))))))))))))
    s (sub idx1 (S O)) payload

(** val feed : geo -> session -> (nat * n) list -> session * result list **)

let rec feed g s = function
| [] -> (s, [])
| p0 :: tl ->
  let (i, p) = p0 in
  let (s1, r) = handle_segment g s i p in
  (match r with
   | Done _ -> (s1, (r :: []))
   | _ -> let (s2, rs) = feed g s1 tl in (s2, (r :: rs)))

(** val erased_mem : mem **)

let erased_mem _ =
  Npos (XI (XI (XI (XI (XI (XI (XI XH)))))))

(** val run_session :
    n -> n -> n -> (nat * n) list -> (result list * ((n * n) * n) list) * n **)

let run_session slot nn szz frs =
  let g = { fwb = N0; pab = slot; sz = szz; nseg = nn; ssize = slot } in
  let (s, rs) = feed g (start_session g erased_mem) frs in
  ((rs, s.store.wlog), (capL g))
