From Coq Require Import List NArith Arith Bool Lia.
Require Import Slots.
Import ListNotations.

Lemma mod2 x n : (0 < n -> x < 2 * n -> x mod n = if x <? n then x else x - n)%nat.
Proof.
  intros Hn Hx. destruct (Nat.ltb_spec x n) as [H|H].
  - apply Nat.mod_small; exact H.
  - symmetry. apply (Nat.mod_unique x n 1 (x - n)); lia.
Qed.

Lemma in_combine_seq {A} (l : list A) k i x : In (i, x) (combine (seq k (length l)) l) -> (k <= i < k + length l)%nat.
Proof.
  revert k. induction l as [|a l IH]; cbn [length seq combine]; intros k H; [contradiction|].
  destruct H as [H|H]; [inversion H; subst; lia| apply IH in H; lia].
Qed.
Lemma indexed_lt sl i h : In (i, h) (indexed sl) -> (i < length sl)%nat.
Proof.
  unfold indexed. rewrite in_flat_map. intros [[j o] [Hin Hx]].
  destruct o as [h'|]; [|contradiction]. destruct Hx as [Hx|[]]. inversion Hx; subst.
  apply in_combine_seq in Hin. lia.
Qed.

(* generic spec of pick: result is a member and is extremal for a total preorder given by [better] *)
Section Pick.
Variable better : N -> N -> bool.
Variable R : N -> N -> Prop.     (* R cur new: cur is at least as good as new *)
Hypothesis R_refl : forall x, R x x.
Hypothesis R_trans : forall x y z, R x y -> R y z -> R x z.
Hypothesis better_false : forall c x, better c x = false -> R c x.
Hypothesis better_true : forall c x, better c x = true -> R x c.

Lemma pick_fold (l : list (nat * hdr)) (acc : option (nat * hdr)) :
  True ->
  match fold_left (fun acc '(i, h) => match acc with
                               | None => Some (i, h)
                               | Some (_, h0) => if better (hseq h0) (hseq h) then Some (i, h) else acc end) l acc with
  | None => acc = None /\ l = []
  | Some (i, h) => (In (i, h) l \/ acc = Some (i, h)) /\
                   (forall j hj, In (j, hj) l -> R (hseq h) (hseq hj)) /\
                   (forall j hj, acc = Some (j, hj) -> R (hseq h) (hseq hj))
  end.
Proof.
  intros _. revert acc. induction l as [|[j hj] l IH]; intros acc; cbn [fold_left].
  - destruct acc as [[i h]|]; [|auto]. split; [right; reflexivity|]. split; [intros ? ? []|].
    intros j' hj' H; inversion H; subst; apply R_refl.
  - set (acc' := match acc with None => Some (j, hj) | Some (_, h0) => if better (hseq h0) (hseq hj) then Some (j, hj) else acc end).
    specialize (IH acc').
    destruct (fold_left _ l acc') as [[i h]|] eqn:E.
    + destruct IH as (Hin & Hall & Hacc). split; [|split].
      * destruct Hin as [Hin|Hin]; [left; right; exact Hin|].
        subst acc'. destruct acc as [[i0 h0]|].
        -- destruct (better (hseq h0) (hseq hj)); [left; left; congruence| right; exact Hin].
        -- left; left; congruence.
      * intros j' hj' [Hj|Hj]; [|exact (Hall j' hj' Hj)]. inversion Hj; subst j' hj'.
        subst acc'. destruct acc as [[i0 h0]|].
        -- destruct (better (hseq h0) (hseq hj)) eqn:B.
           ++ apply (Hacc j hj); reflexivity.
           ++ apply R_trans with (hseq h0); [apply (Hacc i0 h0); reflexivity| apply better_false; exact B].
        -- apply (Hacc j hj); reflexivity.
      * intros j' hj' Ha. subst acc acc'.
        destruct (better (hseq hj') (hseq hj)) eqn:B.
        -- apply R_trans with (hseq hj); [apply (Hacc j hj); reflexivity| apply better_true; exact B].
        -- apply (Hacc j' hj'); reflexivity.
    + destruct IH as [Hn _]. subst acc'. destruct acc as [[i0 h0]|]; [destruct (better _ _)|]; discriminate.
Qed.
End Pick.

Lemma low_spec sl : match low_of sl with
  | None => indexed sl = []
  | Some (i, h) => In (i, h) (indexed sl) /\ forall j hj, In (j, hj) (indexed sl) -> (hseq h <= hseq hj)%N end.
Proof.
  unfold low_of, pick.
  pose proof (pick_fold (fun cur new => (new <? cur)%N) (fun a b => (a <= b)%N)
               N.le_refl N.le_trans) as H.
  specialize (H ltac:(cbv beta; intros c x Hb; apply N.ltb_ge in Hb; lia) ltac:(cbv beta; intros c x Hb; apply N.ltb_lt in Hb; lia)).
  specialize (H (indexed sl) None I).
  destruct (fold_left _ (indexed sl) None) as [[i h]|].
  - destruct H as ([Hin|Hin] & Hall & _); [|discriminate]. split; assumption.
  - apply H.
Qed.
Lemma high_spec sl : match high_of sl with
  | None => indexed sl = []
  | Some (i, h) => In (i, h) (indexed sl) /\ forall j hj, In (j, hj) (indexed sl) -> (hseq hj <= hseq h)%N end.
Proof.
  unfold high_of, pick.
  pose proof (pick_fold (fun cur new => (cur <? new)%N) (fun a b => (b <= a)%N)
               N.le_refl ltac:(cbv beta; intros x y z H1 H2; lia)) as H.
  specialize (H ltac:(cbv beta; intros c x Hb; apply N.ltb_ge in Hb; lia) ltac:(cbv beta; intros c x Hb; apply N.ltb_lt in Hb; lia)).
  specialize (H (indexed sl) None I).
  destruct (fold_left _ (indexed sl) None) as [[i h]|].
  - destruct H as ([Hin|Hin] & Hall & _); [|discriminate]. split; assumption.
  - apply H.
Qed.

Lemma fallback_in sl f : fallback sl = Some f -> exists h, In (f, h) (indexed sl).
Proof.
  unfold fallback.
  assert (G : forall l acc,
     (forall i s, acc = Some (i, s) -> exists h, In (i, h) (indexed sl)) ->
     (forall i h, In (i, h) l -> In (i, h) (indexed sl)) ->
     forall i s, fold_left (fun acc '(i, h) =>
       if is_confirmed h then match acc with
                            | None => Some (i, hseq h)
                            | Some (_, s0) => if (s0 <? hseq h)%N then Some (i, hseq h) else acc end
       else acc) l acc = Some (i, s) -> exists h, In (i, h) (indexed sl)).
  { induction l as [|[j hj] l IH]; intros acc Hacc Hl i s; cbn [fold_left].
    - apply Hacc.
    - apply IH; [|intros; apply Hl; right; assumption].
      intros i' s' E. destruct (is_confirmed hj).
      + destruct acc as [[i0 s0]|].
        * destruct (s0 <? hseq hj)%N; [inversion E; subst; exists hj; apply Hl; left; reflexivity| apply (Hacc i' s' E)].
        * inversion E; subst; exists hj; apply Hl; left; reflexivity.
      + apply (Hacc i' s' E). }
  intros H. destruct (fold_left _ (indexed sl) None) as [[i s]|] eqn:E; [|discriminate].
  cbn in H. inversion H; subst. eapply G; [| |exact E]; [intros; discriminate| auto].
Qed.

Definition off (n b i : nat) : nat := ((i + n - b) mod n)%nat.
Lemma off_eq n b i : (0 < n -> b < n -> i < n -> off n b i = if b <=? i then i - b else i + n - b)%nat.
Proof.
  intros Hn Hb Hi. unfold off. rewrite mod2 by lia.
  destruct (Nat.leb_spec b i), (Nat.ltb_spec (i + n - b) n); lia.
Qed.

Theorem start_preserves_fallback : 
  forall sl f, (4 <= length sl)%nat ->
    (exists b, (b < length sl)%nat /\ forall i j hi hj, In (i, hi) (indexed sl) -> In (j, hj) (indexed sl) ->
       ((hseq hi < hseq hj)%N <-> (off (length sl) b i < off (length sl) b j)%nat)) ->
    (forall i h, In (i, h) (indexed sl) -> (hseq h + 2 < 4294967294)%N) ->
    fallback sl = Some f ->
    exists a b s t, alloc_repaired sl = Ok (a, b, s, t) /\ a <> f /\ b <> f.
Proof.
  intros sl f HN (b & Hb & HS) Hseq Hf.
  destruct (fallback_in sl f Hf) as [hf Hinf].
  pose proof (low_spec sl) as HL. pose proof (high_spec sl) as HH.
  unfold alloc_repaired, alloc. rewrite Hf.
  destruct (low_of sl) as [[lo hl]|]; [|rewrite HL in Hinf; contradiction].
  destruct (high_of sl) as [[hi hh]|]; [|rewrite HH in Hinf; contradiction].
  destruct HL as [HLin HLmin]. destruct HH as [HHin HHmax].
  set (n := length sl) in *.
  pose proof (indexed_lt _ _ _ HLin) as Hlo. pose proof (indexed_lt _ _ _ HHin) as Hhi. pose proof (indexed_lt _ _ _ Hinf) as Hfl.
  fold n in Hlo, Hhi, Hfl.
  (* offsets of low, high, f *)
  assert (Ofl : (off n b lo <= off n b f)%nat).
  { destruct (Nat.le_gt_cases (off n b lo) (off n b f)) as [|C]; [assumption|].
    apply (HS f lo hf hl Hinf HLin) in C. specialize (HLmin f hf Hinf). lia. }
  assert (Ofh : (off n b f <= off n b hi)%nat).
  { destruct (Nat.le_gt_cases (off n b f) (off n b hi)) as [|C]; [assumption|].
    apply (HS hi f hh hf HHin Hinf) in C. specialize (HHmax f hf Hinf). lia. }
  pose proof (Hseq hi hh HHin) as Hs.
  assert (E1 : (hseq hh =? 4294967295)%N = false) by (apply N.eqb_neq; lia).
  assert (E2 : (hseq hh + 1 =? 4294967295)%N = false) by (apply N.eqb_neq; lia).
  assert (E3 : (hseq hh + 1 + 1 =? 4294967295)%N = false) by (apply N.eqb_neq; lia).
  unfold next_seq. rewrite ?E1, ?E2, ?E3. cbn match. rewrite ?E1, ?E2, ?E3.
  rewrite !off_eq in Ofl, Ofh by lia.
  assert (Hd : ((hi + n - lo) mod n = if lo <=? hi then hi - lo else hi + n - lo)%nat).
  { rewrite mod2 by lia. destruct (Nat.leb_spec lo hi), (Nat.ltb_spec (hi + n - lo) n); lia. }
  rewrite Hd.
  assert (H1 : ((hi + 1) mod n = if hi + 1 <? n then hi + 1 else hi + 1 - n)%nat) by (apply mod2; lia).
  assert (H2 : ((hi + 2) mod n = if hi + 2 <? n then hi + 2 else hi + 2 - n)%nat) by (apply mod2; lia).
  assert (H3 : ((hi + n - 1) mod n = if hi + n - 1 <? n then hi + n - 1 else hi - 1)%nat).
  { rewrite mod2 by lia. destruct (Nat.ltb_spec (hi + n - 1) n); lia. }
  rewrite H1, H2, H3.
  (* sortedness also tells us: off lo <= off hi *)
  assert (Olh : (off n b lo <= off n b hi)%nat).
  { destruct (Nat.le_gt_cases (off n b lo) (off n b hi)) as [|C]; [assumption|].
    apply (HS hi lo hh hl HHin HLin) in C. specialize (HLmin hi hh HHin). lia. }
  rewrite !off_eq in Olh by lia.
  destruct (Nat.leb_spec b lo), (Nat.leb_spec b hi), (Nat.leb_spec b f), (Nat.leb_spec lo hi),
           (Nat.ltb_spec (hi+1) n), (Nat.ltb_spec (hi+2) n), (Nat.ltb_spec (hi + n - 1) n); try lia;
  repeat match goal with
  | |- context [Nat.leb ?x ?y] => destruct (Nat.leb_spec x y)
  | |- context [Nat.eqb ?x ?y] => destruct (Nat.eqb_spec x y)
  | |- context [nth ?k sl None] => destruct (nth k sl None) eqn:?
  end; cbn [orb andb];
  try (do 4 eexists; split; [reflexivity| lia]); try lia.
Qed.
Print Assumptions start_preserves_fallback.
