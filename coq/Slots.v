From Coq Require Import List NArith Arith Bool Lia.
Import ListNotations.
Open Scope N_scope.

Inductive kind := Firmware | Parity.
Inductive ext := EInProgress | EAborted | EComplete.
Inductive int_ := IInProgress | IComplete.
Inductive boot := Untested | Successful | Unsuccessful.
Record hdr := mkhdr { hkind : kind; hseq : N; hsize : N; hcount : N; hext : ext; hint : int_; hboot : boot }.
Inductive tstatus := AppWriteInProgress | AppWriteAborted | BootloadWriteInProgress | FirstBootPendingAck
                   | ConfirmedImage | RejectedImage | InvalidNeedsErase.
(* a parsed header always has a valid seq, so BlankSlot cannot occur *)
Definition total_status (h : hdr) : tstatus :=
  match hext h, hint h, hboot h with
  | EInProgress, IInProgress, Untested => AppWriteInProgress
  | EAborted, IInProgress, Untested => AppWriteAborted
  | EComplete, IInProgress, Untested => BootloadWriteInProgress
  | EComplete, IComplete, Untested => FirstBootPendingAck
  | EComplete, IComplete, Successful => ConfirmedImage
  | EComplete, IComplete, Unsuccessful => RejectedImage
  | _, _, _ => InvalidNeedsErase
  end.
Definition is_confirmed h := match total_status h with ConfirmedImage => true | _ => false end.

Definition slots := list (option hdr).
Definition indexed (sl : slots) : list (nat * hdr) :=
  flat_map (fun '(i, o) => match o with Some h => [(i, h)] | None => [] end) (combine (seq 0 (length sl)) sl).

(* low / high exactly as the two folds of alloc_slotpair: strict comparisons keep the first extremum *)
Definition pick (better : N -> N -> bool) (sl : slots) : option (nat * hdr) :=
  fold_left (fun acc '(i, h) => match acc with
                               | None => Some (i, h)
                               | Some (_, h0) => if better (hseq h0) (hseq h) then Some (i, h) else acc end)
            (indexed sl) None.
Definition low_of := pick (fun cur new => new <? cur).
Definition high_of := pick (fun cur new => cur <? new).

Definition fallback (sl : slots) : option nat :=
  option_map fst (fold_left (fun acc '(i, h) =>
     if is_confirmed h then match acc with
                            | None => Some (i, hseq h)
                            | Some (_, s0) => if s0 <? hseq h then Some (i, hseq h) else acc end
     else acc) (indexed sl) None).

Definition next_seq (mode_checked : bool) (s : N) : option N :=   (* None = Panic (u32 overflow in checked mode) *)
  if s =? 4294967295 then (if mode_checked then None else Some 0)   (* self.0 + 1 overflows; unreachable for parsed seqs *)
  else if s + 1 =? 4294967295 then Some 0 else Some (s + 1).

Inductive outcome (A : Type) := Ok (a : A) | Panic.
Arguments Ok {A}. Arguments Panic {A}.

(* guards parameterised so that both the current and the repaired code are instances *)
Definition alloc (robust : bool) (g1 g2 : nat -> nat -> bool) (sl : slots) : outcome (nat * nat * N * N) :=
  let N_ := length sl in
  match low_of sl, high_of sl with
  | Some (low, _), Some (high, hh) =>
      let hs := hseq hh in
      let d := ((high + N_ - low) mod N_)%nat in
      let adv := match next_seq true hs with
                 | Some s1 => match next_seq true s1 with
                              | Some s2 => Ok (((high + 1) mod N_)%nat, ((high + 2) mod N_)%nat, s1, s2)
                              | None => Panic end
                 | None => Panic end in
      if g1 d N_ then adv
      else if g2 d N_ then
        let fw := match fallback sl with Some f => f | None => low end in
        if Nat.eqb fw low then
          match next_seq true hs with Some s2 => Ok (high, ((high + 1) mod N_)%nat, hs, s2) | None => Panic end
        else adv
      else
        let fw := match fallback sl with Some f => f | None => low end in
        if Nat.eqb ((high + 1) mod N_) fw || Nat.eqb ((high + 2) mod N_) fw then
          let first := ((high + N_ - 1) mod N_)%nat in
          match nth first sl None with
          | Some hf => Ok (first, high, hseq hf, hs)
          | None => if robust then Ok (first, high, hs - 1, hs)     (* number the empty lower slot accordingly *)
                    else Panic                             (* headers[first].as_ref().unwrap() *)
          end
        else adv
  | _, _ => Ok (0%nat, 1%nat, 0, 1)
  end.
Definition alloc_current := alloc false (fun d N_ => Nat.leb d (N_ - 2)) (fun d N_ => Nat.eqb d (N_ - 1)).
Definition alloc_repaired := alloc true (fun d N_ => Nat.leb d (N_ - 3)) (fun d N_ => Nat.eqb d (N_ - 2)).

(* the invariant *)
Definition Sorted (sl : slots) : Prop :=
  exists b, forall i j hi hj, In (i, hi) (indexed sl) -> In (j, hj) (indexed sl) ->
     (hseq hi < hseq hj <-> ((i + length sl - b) mod length sl < (j + length sl - b) mod length sl)%nat).

(* fs.rs::right_placement as Examples: every slot a confirmed image *)
Definition conf (s : N) := Some (mkhdr Firmware s 128 64 EComplete IComplete Successful).
Definition ex (l : list (option N)) : slots := map (fun o => match o with Some s => conf s | None => None end) l.
Definition chk (l : list (option N)) (a : nat) (sa : N) (b : nat) (sb : N) :=
  match alloc_current (ex l), alloc_repaired (ex l) with
  | Ok (a1,b1,s1,t1), Ok (a2,b2,s2,t2) =>
      Nat.eqb a1 a && Nat.eqb b1 b && (s1 =? sa) && (t1 =? sb) && Nat.eqb a2 a && Nat.eqb b2 b && (s2 =? sa) && (t2 =? sb)
  | _, _ => false end.
Example right_placement :
  forallb (fun '(l,a,sa,b,sb) => chk l a sa b sb)
  [ ([None;None;None;None],0%nat,0,1%nat,1); ([Some 0;None;None;None],1%nat,1,2%nat,2);
    ([Some 0;Some 1;None;None],2%nat,2,3%nat,3); ([Some 0;Some 1;Some 2;None],3%nat,3,0%nat,4);
    ([Some 0;Some 1;Some 2;Some 3],0%nat,4,1%nat,5); ([None;Some 1;Some 2;Some 3],0%nat,4,1%nat,5);
    ([Some 4;Some 1;Some 2;Some 3],1%nat,5,2%nat,6); ([Some 4;None;Some 2;Some 3],1%nat,5,2%nat,6);
    ([Some 4;Some 5;Some 2;Some 3],2%nat,6,3%nat,7); ([Some 4;Some 5;None;Some 3],2%nat,6,3%nat,7);
    ([Some 4;Some 5;Some 6;Some 3],3%nat,7,0%nat,8); ([Some 4;Some 5;Some 6;None],3%nat,7,0%nat,8);
    ([Some 4;Some 5;Some 6;Some 7],0%nat,8,1%nat,9); ([None;Some 5;Some 6;Some 7],0%nat,8,1%nat,9);
    ([Some 2;None;Some 6;None],3%nat,7,0%nat,8); ([Some 8;None;Some 6;Some 7],1%nat,9,2%nat,10);
    ([Some 5;None;None;None],1%nat,6,2%nat,7); ([None;Some 5;None;None],2%nat,6,3%nat,7);
    ([None;None;Some 5;None],3%nat,6,0%nat,7); ([None;None;None;Some 5],0%nat,6,1%nat,7);
    ([Some 2;Some 3;Some 3;None],2%nat,4,3%nat,5) ] = true.
Proof. vm_compute. reflexivity. Qed.

(* C05 witness on the current guards: confirm #1 at slot 0, crashed start #2 left slot 2, start #3 takes slot 0 *)
Definition ip k s := Some (mkhdr k s 40 8 EInProgress IInProgress Untested).
Example c05_refuted :
  let sl := [conf 0; ip Parity 1; ip Firmware 2; None] in
  fallback sl = Some 0%nat /\ alloc_current sl = Ok (3%nat, 0%nat, 3, 4) /\ alloc_repaired sl = Ok (2%nat, 3%nat, 2, 3).
Proof. vm_compute. repeat split; reflexivity. Qed.

Definition start_preserves_fallback_stmt : Prop :=
  forall sl f, (4 <= length sl)%nat -> Sorted sl ->
    (forall i h, In (i, h) (indexed sl) -> hseq h + 2 < 4294967294) ->
    fallback sl = Some f ->
    exists a b s t, alloc_repaired sl = Ok (a, b, s, t) /\ a <> f /\ b <> f.
