(* The reference matrix_line (Lfdbt.v) validated on the interoperability vectors shipped with the repository
   (gen/Interop.v is regenerated from the asset on every check): every coded fragment of the file is the XOR of the data
   fragments selected by matrix_line (N, M). *)
From Coq Require Import List NArith Bool.
Require Import Lfdbt Interop.
Import ListNotations.
Open Scope N_scope.

Definition payload_of (idx : N) : N :=
  match find (fun p => fst p =? idx) interop_frags with Some p => snd p | None => 0 end.
Definition coded_ok (p : N * N) : bool :=
  let '(idx, payload) := p in
  if idx <=? interop_M then true else
  match matrix_line 64 (idx - interop_M) interop_M with
  | None => false
  | Some l => fold_left (fun acc r => if N.testbit (mask l) r then N.lxor acc (payload_of (r + 1)) else acc)
                        (map N.of_nat (seq 0 (N.to_nat interop_M))) 0 =? payload
  end.
Definition interop_check : bool :=
  forallb coded_ok interop_frags && existsb (fun p => interop_M <? fst p) interop_frags.
Example interop_ok : interop_check = true.
Proof. vm_compute. reflexivity. Qed.
