From Coq Require Import List Arith Bool Lia.
Import ListNotations.

(* V1 single-erasure repair, abstractly: [have] = which data fragments are stored, [rows] = the received coded
   fragments as lists of covered data indices (in the order repair_step scans them) *)
Definition row := list nat.
Definition missing_in (have : nat -> bool) (r : row) : list nat := filter (fun i => negb (have i)) r.
Definition nodup_row (r : row) := NoDup r.

(* repair_step: the first row with exactly one missing covered fragment *)
Fixpoint repair_step (have : nat -> bool) (rows : list row) : option nat :=
  match rows with
  | [] => None
  | r :: tl => match missing_in have r with [i] => Some i | _ => repair_step have tl end
  end.
Definition add (have : nat -> bool) (i : nat) : nat -> bool := fun j => Nat.eqb j i || have j.
Fixpoint repair_loop (fuel : nat) (have : nat -> bool) (rows : list row) : nat -> bool :=
  match fuel with O => have | S f => match repair_step have rows with Some i => repair_loop f (add have i) rows | None => have end end.

(* the peeling oracle: least set containing [have0] and closed under single-missing completion *)
Definition closed (rows : list row) (H : nat -> Prop) : Prop :=
  forall r i, In r rows -> In i r -> (forall j, In j r -> j <> i -> H j) -> H i.
Inductive peel (have0 : nat -> bool) (rows : list row) : nat -> Prop :=
| peel_have i : have0 i = true -> peel have0 rows i
| peel_row r i : In r rows -> In i r -> (forall j, In j r -> j <> i -> peel have0 rows j) -> peel have0 rows i.

Lemma peel_closed have0 rows : closed rows (peel have0 rows).
Proof. intros r i Hr Hi H. eapply peel_row; eauto. Qed.
Lemma peel_least have0 rows (H : nat -> Prop) : (forall i, have0 i = true -> H i) -> closed rows H -> forall i, peel have0 rows i -> H i.
Proof. intros H0 Hc i Hp. induction Hp as [i Hi|r i Hr Hi _ IH]; [apply H0; exact Hi| apply (Hc r i Hr Hi IH)]. Qed.

(* facts about repair_step *)
Lemma missing_single have r i : missing_in have r = [i] -> In i r /\ have i = false /\ forall j, In j r -> j <> i -> have j = true.
Proof.
  intros H. assert (Hin : In i (missing_in have r)) by (rewrite H; left; reflexivity).
  apply filter_In in Hin. destruct Hin as [Hi Hb]. split; [exact Hi|]. split; [now destruct (have i)|].
  intros j Hj Hne. destruct (have j) eqn:E; [reflexivity|]. exfalso.
  assert (In j (missing_in have r)) by (apply filter_In; split; [exact Hj| now rewrite E]). rewrite H in H0. destruct H0 as [->|[]]. contradiction.
Qed.
Lemma repair_step_some have rows i : repair_step have rows = Some i ->
  exists r, In r rows /\ In i r /\ have i = false /\ forall j, In j r -> j <> i -> have j = true.
Proof.
  induction rows as [|r tl IH]; cbn [repair_step]; [discriminate|].
  destruct (missing_in have r) as [|x [|y l]] eqn:E; intros H.
  - destruct (IH H) as (r' & A & B). exists r'. split; [right; exact A| exact B].
  - inversion H; subst. exists r. split; [left; reflexivity| apply missing_single; exact E].
  - destruct (IH H) as (r' & A & B). exists r'. split; [right; exact A| exact B].
Qed.
Lemma repair_step_none have rows : repair_step have rows = None ->
  forall r, In r rows -> NoDup r -> forall i, In i r -> have i = false -> exists j, In j r /\ j <> i /\ have j = false.
Proof.
  induction rows as [|r0 tl IH]; cbn [repair_step]; intros H r Hr Hnd i Hi Hf; [contradiction|].
  destruct Hr as [<-|Hr].
  - destruct (missing_in have r0) as [|x [|y l]] eqn:E; [| discriminate|].
    + exfalso. assert (In i (missing_in have r0)) by (apply filter_In; split; [exact Hi| now rewrite Hf]). rewrite E in H0. contradiction.
    + (* at least two missing: one of them differs from i *)
      assert (Hx : In x (missing_in have r0)) by (rewrite E; left; reflexivity).
      assert (Hy : In y (missing_in have r0)) by (rewrite E; right; left; reflexivity).
      assert (Hxy : x <> y).
      { assert (ND : NoDup (missing_in have r0)) by (apply NoDup_filter; exact Hnd). rewrite E in ND. inversion ND; subst. intros ->. apply H2. left; reflexivity. }
      apply filter_In in Hx. apply filter_In in Hy. destruct Hx as [Hx1 Hx2], Hy as [Hy1 Hy2].
      assert (Fx : have x = false) by (now destruct (have x)). assert (Fy : have y = false) by (now destruct (have y)).
      destruct (Nat.eq_dec x i) as [Ex|Nx].
      * exists y. split; [exact Hy1|]. split; [congruence| exact Fy].
      * exists x. split; [exact Hx1|]. split; [exact Nx| exact Fx].
  - destruct (missing_in have r0) as [|x [|y l]]; try discriminate; apply (IH H r Hr Hnd i Hi Hf).
Qed.

(* soundness and completeness of the loop *)
Lemma loop_sound have0 rows : forall fuel have, (forall i, have i = true -> peel have0 rows i) ->
  forall i, repair_loop fuel have rows i = true -> peel have0 rows i.
Proof.
  induction fuel as [|f IH]; intros have Hh i; cbn [repair_loop]; [apply Hh|].
  destruct (repair_step have rows) as [k|] eqn:E; [|apply Hh].
  apply IH. intros j Hj. unfold add in Hj. destruct (Nat.eqb_spec j k) as [Ej|Nj]; [subst j|apply Hh; exact Hj].
  destruct (repair_step_some have rows k E) as (r & Hr & Hk & _ & Hall). eapply peel_row; eauto.
Qed.

Lemma loop_mono rows : forall fuel have i, have i = true -> repair_loop fuel have rows i = true.
Proof.
  induction fuel as [|f IH]; intros have i H; cbn [repair_loop]; [exact H|]. destruct (repair_step have rows); [|exact H].
  apply IH. unfold add. now rewrite H, orb_true_r.
Qed.

Definition count_missing (have : nat -> bool) (n : nat) : nat := length (filter (fun i => negb (have i)) (seq 0 n)).

Lemma count_add have n k : (k < n)%nat -> have k = false -> (S (count_missing (add have k) n) = count_missing have n)%nat.
Proof.
  intros Hk Hf. unfold count_missing.
  assert (G : forall L, NoDup L -> length (filter (fun i => negb (have i)) L) =
     ((if existsb (Nat.eqb k) L then 1 else 0) + length (filter (fun i => negb (add have k i)) L))%nat).
  { induction L as [|a L IH]; intros ND; [reflexivity|]. inversion ND; subst. cbn [filter existsb]. unfold add at 1.
    destruct (Nat.eqb_spec k a) as [<-|Hne].
    - rewrite Nat.eqb_refl, Hf. cbn [orb negb length]. rewrite (IH H2).
      assert (existsb (Nat.eqb k) L = false). { destruct (existsb (Nat.eqb k) L) eqn:E; [|reflexivity]. apply existsb_exists in E. destruct E as (x & Hx & Ex). apply Nat.eqb_eq in Ex. subst x. contradiction. }
      rewrite H. cbn. reflexivity.
    - destruct (Nat.eqb_spec a k); [congruence|]. cbn [orb]. destruct (have a); cbn [negb length]; rewrite (IH H2); destruct (existsb (Nat.eqb k) L); cbn; lia. }
  rewrite (G (seq 0 n) (seq_NoDup n 0)).
  assert (existsb (Nat.eqb k) (seq 0 n) = true) by (apply existsb_exists; exists k; split; [apply in_seq; lia| apply Nat.eqb_refl]).
  rewrite H. cbn. reflexivity.
Qed.

(* with enough fuel the loop stops because nothing is repairable any more, and its result is closed *)
Theorem loop_complete have0 rows n : (forall r, In r rows -> NoDup r /\ forall i, In i r -> (i < n)%nat) ->
  forall fuel have, (count_missing have n <= fuel)%nat ->
  (forall i, peel have0 rows i -> have i = true \/ True) ->
  repair_step (repair_loop fuel have rows) rows = None.
Proof.
  intros Hrows. induction fuel as [|f IH]; intros have Hc _; cbn [repair_loop].
  - destruct (repair_step have rows) as [k|] eqn:E; [|reflexivity]. exfalso.
    destruct (repair_step_some have rows k E) as (r & Hr & Hk & Hf & _). destruct (Hrows r Hr) as [_ Hlt].
    pose proof (count_add have n k (Hlt k Hk) Hf). lia.
  - destruct (repair_step have rows) as [k|] eqn:E; [|exact E].
    destruct (repair_step_some have rows k E) as (r & Hr & Hk & Hf & _). destruct (Hrows r Hr) as [_ Hlt].
    apply IH; [|auto]. pose proof (count_add have n k (Hlt k Hk) Hf). lia.
Qed.

Theorem peel_exact have0 rows n : (forall r, In r rows -> NoDup r /\ forall i, In i r -> (i < n)%nat) ->
  forall i, repair_loop (count_missing have0 n) have0 rows i = true <-> peel have0 rows i.
Proof.
  intros Hrows i. split.
  - apply loop_sound. intros j Hj. apply peel_have; exact Hj.
  - set (H := repair_loop (count_missing have0 n) have0 rows). intros Hp.
    apply (peel_least have0 rows (fun j => H j = true)); [intros j Hj; apply loop_mono; exact Hj| |exact Hp].
    (* the loop result is closed: no row has exactly one missing fragment *)
    intros r j Hr Hj Hall. destruct (H j) eqn:E; [reflexivity|]. exfalso.
    pose proof (loop_complete have0 rows n Hrows (count_missing have0 n) have0 (le_n _) (fun _ _ => or_intror I)) as HN. fold H in HN.
    destruct (repair_step_none H rows HN r Hr (proj1 (Hrows r Hr)) j Hj E) as (j' & Hj' & Hne & Hf').
    rewrite (Hall j' Hj' Hne) in Hf'. discriminate.
Qed.
Print Assumptions peel_exact.
