(* Facts tying the byte-level model (Mgr.v) to the header-level development. *)
From Coq Require Import List NArith Arith Bool Lia.
Require Import Slots Mgr.
Import ListNotations.

(* the guards as committed in fs.rs (d + 3 <= N, d + 2 == N) are the ones of the header-level proofs (d <= N - 3, d = N - 2)
   whenever there are at least three slots *)
Lemma alloc_fixed_repaired sl : (3 <= length sl)%nat -> alloc_fixed sl = alloc_repaired sl.
Proof.
  intros H. unfold alloc_fixed, alloc_repaired, alloc.
  destruct (low_of sl) as [[low hl]|]; [|reflexivity]. destruct (high_of sl) as [[high hh]|]; [|reflexivity].
  set (d := ((high + length sl - low) mod length sl)%nat).
  assert (E1 : Nat.leb (d + 3) (length sl) = Nat.leb d (length sl - 3)).
  { destruct (Nat.leb_spec (d + 3) (length sl)), (Nat.leb_spec d (length sl - 3)); try reflexivity; lia. }
  assert (E2 : Nat.eqb (d + 2) (length sl) = Nat.eqb d (length sl - 2)).
  { destruct (Nat.eqb_spec (d + 2) (length sl)), (Nat.eqb_spec d (length sl - 2)); try reflexivity; lia. }
  rewrite E1, E2. reflexivity.
Qed.

(* ---- reads never modify the medium or the operation log ---- *)
From Coq Require Import NArith.
Require Import Nor.
Open Scope N_scope.

Lemma d_read_log d a len : dlog (fst (d_read d a len)) = dlog d /\ dmem (fst (d_read d a len)) = dmem d.
Proof.
  unfold d_read. destruct (dtotal d <? a + len); [split; reflexivity|].
  unfold tick. destruct (match dfail d with Some k => k =? dops d | None => false end); split; reflexivity.
Qed.

Lemma load_header_log m i d : dlog (fst (load_header m i d)) = dlog d /\ dmem (fst (load_header m i d)) = dmem d.
Proof.
  unfold load_header. pose proof (d_read_log d (base m i) Consts.SLOT_HEADER_SIZE) as H.
  destruct (d_read d (base m i) Consts.SLOT_HEADER_SIZE) as [d1 [v|]]; exact H.
Qed.

Lemma crc_segments_log m i sz : forall idxs skip st d,
  dlog (fst (crc_segments m i sz idxs skip st d)) = dlog d /\ dmem (fst (crc_segments m i sz idxs skip st d)) = dmem d.
Proof.
  induction idxs as [|idx rest IH]; intros skip st d; cbn [crc_segments]; [split; reflexivity|].
  assert (G : forall ts, let r := match d_read d (base m i + Consts.DATA_REGION_OFFSET + N.of_nat idx * sz) sz with
                      | (d1, None) => (d1, None)
                      | (d1, Some v) => crc_segments m i sz rest None (Crc.crc_raw st (skipn (N.to_nat ts) (bytes_of_val v (N.to_nat sz)))) d1 end in
               dlog (fst r) = dlog d /\ dmem (fst r) = dmem d).
  { intros ts. pose proof (d_read_log d (base m i + Consts.DATA_REGION_OFFSET + N.of_nat idx * sz) sz) as H.
    destruct (d_read d (base m i + Consts.DATA_REGION_OFFSET + N.of_nat idx * sz) sz) as [d1 [v|]]; cbn [fst] in *; [|exact H].
    destruct (IH None (Crc.crc_raw st (skipn (N.to_nat ts) (bytes_of_val v (N.to_nat sz)))) d1) as [A B]. cbv zeta. rewrite A, B. exact H. }
  destruct skip as [r|]; [|apply G]. destruct (sz <=? r); [apply IH| apply G].
Qed.

Lemma crc_valid_log m i h d : dlog (fst (crc_valid m i h d)) = dlog d /\ dmem (fst (crc_valid m i h d)) = dmem d.
Proof.
  unfold crc_valid. destruct (_ <? _); [split; reflexivity|]. destruct (_ <? _); [split; reflexivity|].
  pose proof (d_read_log d (base m i + Consts.DATA_REGION_OFFSET) (Consts.CRC32_SIZE + Consts.SIGNATURE_SIZE)) as H.
  destruct (d_read d (base m i + Consts.DATA_REGION_OFFSET) (Consts.CRC32_SIZE + Consts.SIGNATURE_SIZE)) as [d1 [pre|]]; cbn [fst] in *; [|exact H].
  pose proof (crc_segments_log m i (Slots.hsize h) (List.seq 0 (N.to_nat (Slots.hcount h))) (Some (Consts.CRC32_SIZE + Consts.SIGNATURE_SIZE)) 0 d1) as H2.
  destruct (crc_segments m i (Slots.hsize h) (List.seq 0 (N.to_nat (Slots.hcount h))) (Some (Consts.CRC32_SIZE + Consts.SIGNATURE_SIZE)) 0 d1) as [d2 [st|]]; cbn [fst] in *.
  - destruct (_ =? _); cbn [fst]; destruct H as [A B], H2 as [A2 B2]; rewrite A2, B2; auto.
  - destruct H as [A B], H2 as [A2 B2]; rewrite A2, B2; auto.
Qed.

(* C14 / C01: the final check-and-mark programs nothing unless the CRC check of the firmware slot succeeded;
   is_valid_firmware never modifies the flash *)
Theorem check_gates_mark m u d :
  dlog (fst (check_and_mark_done m u d)) <> dlog d ->
  exists h d1, u_complete u = true /\ load_header m (u_fw u) d = (d1, Some (Some h)) /\ snd (crc_valid m (u_fw u) h d1) = ROk tt.
Proof.
  unfold check_and_mark_done. destruct (u_complete u); cbn [negb]; [|intros H; exfalso; apply H; reflexivity].
  pose proof (load_header_log m (u_fw u) d) as HL.
  destruct (load_header m (u_fw u) d) as [d1 [[h|]|]] eqn:E; cbn [fst] in *; try (intros H; exfalso; apply H; apply HL).
  pose proof (crc_valid_log m (u_fw u) h d1) as HC.
  destruct (crc_valid m (u_fw u) h d1) as [d2 [[]|e|]] eqn:EC; cbn [fst] in *.
  - intros _. exists h, d1. repeat split; try reflexivity. rewrite EC. reflexivity.
  - intros H; exfalso; apply H. destruct HL as [A _], HC as [A2 _]. cbn [fst]. congruence.
  - intros H; exfalso; apply H. destruct HL as [A _], HC as [A2 _]. cbn [fst]. congruence.
Qed.

Theorem is_valid_firmware_readonly m i d :
  dlog (fst (is_valid_firmware m i d)) = dlog d /\ dmem (fst (is_valid_firmware m i d)) = dmem d.
Proof.
  unfold is_valid_firmware. pose proof (load_header_log m i d) as HL.
  destruct (load_header m i d) as [d1 [[h|]|]]; cbn [fst] in *; try exact HL.
  destruct (Slots.hkind h); [|exact HL]. destruct (Slots.hext h); try exact HL.
  destruct (crc_valid_log m i h d1) as [A B]. destruct HL as [C D]. rewrite A, B. auto.
Qed.

(* ---- C15: geometry validation ---- *)
From Coq Require Import Lia ZifyBool ZifyN.
Require Import Consts Geom.

Theorem reasonably_sized_iff m sz cnt : m_size m - DATA_REGION_OFFSET < 4294967295 ->
  (reasonably_sized m sz cnt = None <->
   1 <= sz <= 256 /\ 1 <= cnt <= 16384 /\ sz * cnt <= m_size m - DATA_REGION_OFFSET).
Proof.
  intros Hs. unfold reasonably_sized, sat_mul32.
  change MAX_SEGMENT_SIZE with 256. change MAX_SEGMENTS with 16384.
  destruct (N.eqb_spec sz 0), (N.ltb_spec 256 sz); cbn [orb]; try (split; [discriminate| lia]).
  destruct (N.eqb_spec cnt 0), (N.ltb_spec 16384 cnt); cbn [orb]; try (split; [discriminate| lia]).
  destruct (N.ltb_spec (m_size m - DATA_REGION_OFFSET) (N.min (sz * cnt) 4294967295)); split; try discriminate; try reflexivity; lia.
Qed.

(* a rejected geometry is answered before any flash operation: the device is returned untouched *)
Theorem start_rejects_untouched m sz cnt d e : reasonably_sized m sz cnt = Some e -> start_update m sz cnt d = (d, RErr e).
Proof. intros H. unfold start_update. rewrite H. reflexivity. Qed.

(* the capacity a started session works with is the search result, which is the largest l < 2048 that fits *)
Theorem start_capacity m sz cnt d d' u : start_update m sz cnt d = (d', ROk u) ->
  u_maxl u = N.to_nat (max_l (m_size m) sz) /\ u_moff u = max_l (m_size m) sz * sz.
Proof.
  unfold start_update. destruct (reasonably_sized m sz cnt); [discriminate|].
  destruct (alloc_slotpair m d) as [d1 [[a b]|e|]]; try discriminate.
  destruct (prog_word m a KIND_OFFSET KIND_FIRMWARE d1) as [d2 [[]|e|]]; try discriminate.
  destruct (set_layout m a cnt sz d2) as [d3 [[]|e|]]; try discriminate.
  destruct (prog_word m b KIND_OFFSET KIND_PARITY d3) as [d4 [[]|e|]]; try discriminate.
  destruct (set_layout m b (max_l (m_size m) sz) sz d4) as [d5 [[]|e|]]; try discriminate.
  intros H. inversion H. split; reflexivity.
Qed.
