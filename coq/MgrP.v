(* Facts tying the byte-level model (Mgr.v) to the header-level development. *)
From Coq Require Import List NArith Arith Bool Lia.
Require Import Slots Mgr.
Import ListNotations.

(* the guards as committed in fs.rs (d + 3 <= N, d + 2 == N) are the ones of the header-level proofs (d <= N - 3, d = N - 2)
   whenever there are at least three slots *)
Lemma alloc_fixed_repaired sl : (3 <= length sl)%nat -> alloc_fixed sl = alloc_repaired sl.
Proof.
  intros H. unfold alloc_fixed, alloc_repaired, alloc.
  destruct (low_of sl) as [[low hl]|]; [|reflexivity]. destruct (high_of sl) as [[high hh]|]; [|reflexivity].
  set (d := ((high + length sl - low) mod length sl)%nat).
  assert (E1 : Nat.leb (d + 3) (length sl) = Nat.leb d (length sl - 3)).
  { destruct (Nat.leb_spec (d + 3) (length sl)), (Nat.leb_spec d (length sl - 3)); try reflexivity; lia. }
  assert (E2 : Nat.eqb (d + 2) (length sl) = Nat.eqb d (length sl - 2)).
  { destruct (Nat.eqb_spec (d + 2) (length sl)), (Nat.eqb_spec d (length sl - 2)); try reflexivity; lia. }
  rewrite E1, E2. reflexivity.
Qed.
