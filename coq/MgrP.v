(* Facts tying the byte-level model (Mgr.v) to the header-level development. *)
From Coq Require Import List NArith Arith Bool Lia.
Require Import Slots MRecon Mgr.
Import ListNotations.

(* the guards as committed in fs.rs (d + 3 <= N, d + 2 == N) are the ones of the header-level proofs (d <= N - 3, d = N - 2)
   whenever there are at least three slots *)
Lemma alloc_fixed_repaired sl : (3 <= length sl)%nat -> alloc_fixed sl = alloc_repaired sl.
Proof.
  intros H. unfold alloc_fixed, alloc_repaired, alloc.
  destruct (low_of sl) as [[low hl]|]; [|reflexivity]. destruct (high_of sl) as [[high hh]|]; [|reflexivity].
  set (d := ((high + length sl - low) mod length sl)%nat).
  assert (E1 : Nat.leb (d + 3) (length sl) = Nat.leb d (length sl - 3)).
  { destruct (Nat.leb_spec (d + 3) (length sl)), (Nat.leb_spec d (length sl - 3)); try reflexivity; lia. }
  assert (E2 : Nat.eqb (d + 2) (length sl) = Nat.eqb d (length sl - 2)).
  { destruct (Nat.eqb_spec (d + 2) (length sl)), (Nat.eqb_spec d (length sl - 2)); try reflexivity; lia. }
  rewrite E1, E2. reflexivity.
Qed.

(* ---- reads never modify the medium or the operation log ---- *)
From Coq Require Import NArith.
Require Import Nor.
Open Scope N_scope.

Lemma d_read_log d a len : dlog (fst (d_read d a len)) = dlog d /\ dmem (fst (d_read d a len)) = dmem d.
Proof.
  unfold d_read. destruct (dtotal d <? a + len); [split; reflexivity|].
  unfold tick. destruct (match dfail d with Some k => k =? dops d | None => false end); split; reflexivity.
Qed.

Lemma load_header_log m i d : dlog (fst (load_header m i d)) = dlog d /\ dmem (fst (load_header m i d)) = dmem d.
Proof.
  unfold load_header. pose proof (d_read_log d (base m i) Consts.SLOT_HEADER_SIZE) as H.
  destruct (d_read d (base m i) Consts.SLOT_HEADER_SIZE) as [d1 [v|]]; exact H.
Qed.

Lemma crc_segments_log m i sz : forall idxs skip st d,
  dlog (fst (crc_segments m i sz idxs skip st d)) = dlog d /\ dmem (fst (crc_segments m i sz idxs skip st d)) = dmem d.
Proof.
  induction idxs as [|idx rest IH]; intros skip st d; cbn [crc_segments]; [split; reflexivity|].
  assert (G : forall ts, let r := match d_read d (base m i + Consts.DATA_REGION_OFFSET + N.of_nat idx * sz) sz with
                      | (d1, None) => (d1, None)
                      | (d1, Some v) => crc_segments m i sz rest None (Crc.crc_raw st (skipn (N.to_nat ts) (bytes_of_val v (N.to_nat sz)))) d1 end in
               dlog (fst r) = dlog d /\ dmem (fst r) = dmem d).
  { intros ts. pose proof (d_read_log d (base m i + Consts.DATA_REGION_OFFSET + N.of_nat idx * sz) sz) as H.
    destruct (d_read d (base m i + Consts.DATA_REGION_OFFSET + N.of_nat idx * sz) sz) as [d1 [v|]]; cbn [fst] in *; [|exact H].
    destruct (IH None (Crc.crc_raw st (skipn (N.to_nat ts) (bytes_of_val v (N.to_nat sz)))) d1) as [A B]. cbv zeta. rewrite A, B. exact H. }
  destruct skip as [r|]; [|apply G]. destruct (sz <=? r); [apply IH| apply G].
Qed.

Lemma crc_valid_log m i h d : dlog (fst (crc_valid m i h d)) = dlog d /\ dmem (fst (crc_valid m i h d)) = dmem d.
Proof.
  unfold crc_valid. destruct (_ <? _); [split; reflexivity|]. destruct (_ <? _); [split; reflexivity|].
  pose proof (d_read_log d (base m i + Consts.DATA_REGION_OFFSET) (Consts.CRC32_SIZE + Consts.SIGNATURE_SIZE)) as H.
  destruct (d_read d (base m i + Consts.DATA_REGION_OFFSET) (Consts.CRC32_SIZE + Consts.SIGNATURE_SIZE)) as [d1 [pre|]]; cbn [fst] in *; [|exact H].
  pose proof (crc_segments_log m i (Slots.hsize h) (List.seq 0 (N.to_nat (Slots.hcount h))) (Some (Consts.CRC32_SIZE + Consts.SIGNATURE_SIZE)) 0 d1) as H2.
  destruct (crc_segments m i (Slots.hsize h) (List.seq 0 (N.to_nat (Slots.hcount h))) (Some (Consts.CRC32_SIZE + Consts.SIGNATURE_SIZE)) 0 d1) as [d2 [st|]]; cbn [fst] in *.
  - destruct (_ =? _); cbn [fst]; destruct H as [A B], H2 as [A2 B2]; rewrite A2, B2; auto.
  - destruct H as [A B], H2 as [A2 B2]; rewrite A2, B2; auto.
Qed.

(* C14 / C01: the final check-and-mark programs nothing unless the CRC check of the firmware slot succeeded;
   is_valid_firmware never modifies the flash *)
Theorem check_gates_mark m u d :
  dlog (fst (check_and_mark_done m u d)) <> dlog d ->
  exists h d1, u_complete u = true /\ load_header m (u_fw u) d = (d1, Some (Some h)) /\ snd (crc_valid m (u_fw u) h d1) = ROk tt.
Proof.
  unfold check_and_mark_done. destruct (u_complete u); cbn [negb]; [|intros H; exfalso; apply H; reflexivity].
  pose proof (load_header_log m (u_fw u) d) as HL.
  destruct (load_header m (u_fw u) d) as [d1 [[h|]|]] eqn:E; cbn [fst] in *; try (intros H; exfalso; apply H; apply HL).
  pose proof (crc_valid_log m (u_fw u) h d1) as HC.
  destruct (crc_valid m (u_fw u) h d1) as [d2 [[]|e|]] eqn:EC; cbn [fst] in *.
  - intros _. exists h, d1. repeat split; try reflexivity. rewrite EC. reflexivity.
  - intros H; exfalso; apply H. destruct HL as [A _], HC as [A2 _]. cbn [fst]. congruence.
  - intros H; exfalso; apply H. destruct HL as [A _], HC as [A2 _]. cbn [fst]. congruence.
Qed.

Theorem is_valid_firmware_readonly m i d :
  dlog (fst (is_valid_firmware m i d)) = dlog d /\ dmem (fst (is_valid_firmware m i d)) = dmem d.
Proof.
  unfold is_valid_firmware. pose proof (load_header_log m i d) as HL.
  destruct (load_header m i d) as [d1 [[h|]|]]; cbn [fst] in *; try exact HL.
  destruct (Slots.hkind h); [|exact HL]. destruct (Slots.hext h); try exact HL.
  destruct (crc_valid_log m i h d1) as [A B]. destruct HL as [C D]. rewrite A, B. auto.
Qed.

(* ---- C15: geometry validation ---- *)
From Coq Require Import Lia ZifyBool ZifyN.
Require Import Consts Geom.

Theorem reasonably_sized_iff m sz cnt : m_size m - DATA_REGION_OFFSET < 4294967295 ->
  (reasonably_sized m sz cnt = None <->
   1 <= sz <= 256 /\ 1 <= cnt <= 16384 /\ sz * cnt <= m_size m - DATA_REGION_OFFSET).
Proof.
  intros Hs. unfold reasonably_sized, sat_mul32.
  change MAX_SEGMENT_SIZE with 256. change MAX_SEGMENTS with 16384.
  destruct (N.eqb_spec sz 0), (N.ltb_spec 256 sz); cbn [orb]; try (split; [discriminate| lia]).
  destruct (N.eqb_spec cnt 0), (N.ltb_spec 16384 cnt); cbn [orb]; try (split; [discriminate| lia]).
  destruct (N.ltb_spec (m_size m - DATA_REGION_OFFSET) (N.min (sz * cnt) 4294967295)); split; try discriminate; try reflexivity; lia.
Qed.

(* a rejected geometry is answered before any flash operation: the device is returned untouched *)
Theorem start_rejects_untouched m sz cnt d e : reasonably_sized m sz cnt = Some e -> start_update m sz cnt d = (d, RErr e).
Proof. intros H. unfold start_update. rewrite H. reflexivity. Qed.

(* the capacity a started session works with is the search result, which is the largest l < 2048 that fits *)
Theorem start_capacity m sz cnt d d' u : start_update m sz cnt d = (d', ROk u) ->
  u_maxl u = N.to_nat (max_l (m_size m) sz) /\ u_moff u = max_l (m_size m) sz * sz.
Proof.
  unfold start_update. destruct (reasonably_sized m sz cnt); [discriminate|].
  destruct (alloc_slotpair m d) as [d1 [[a b]|e|]]; try discriminate.
  destruct (prog_word m a KIND_OFFSET KIND_FIRMWARE d1) as [d2 [[]|e|]]; try discriminate.
  destruct (set_layout m a cnt sz d2) as [d3 [[]|e|]]; try discriminate.
  destruct (prog_word m b KIND_OFFSET KIND_PARITY d3) as [d4 [[]|e|]]; try discriminate.
  destruct (set_layout m b (max_l (m_size m) sz) sz d4) as [d5 [[]|e|]]; try discriminate.
  intros H. inversion H. split; reflexivity.
Qed.

(* ---- C08: where the flash-backed storages may program ---- *)
Definition newest_prog_in (d d' : dev) (lo hi : N) : Prop :=
  dlog d' = dlog d \/ exists a len v z, dlog d' = FProg a len v z :: dlog d /\ lo <= a /\ a + len <= hi.

Lemma d_prog_log d a len v : 
  dlog (fst (d_prog d a len v)) = dlog d \/ exists z, dlog (fst (d_prog d a len v)) = FProg a len v z :: dlog d.
Proof.
  unfold d_prog. destruct (dtotal d <? a + len); [left; reflexivity|].
  unfold tick. destruct (match dfail d with Some k => k =? dops d | None => false end); [left; reflexivity|].
  right. eexists. reflexivity.
Qed.

(* parity blocks and matrix rows: write_raw's bound keeps every program inside [slot + 0x400, slot end), whatever
   index, block size, capacity or offset the caller passes *)
Theorem parity_puts_confined m fw par bsz maxl moff s k b :
  HEADER_SIZE <= m_size m ->
  newest_prog_in (f_dev s) (f_dev (fst (m_pput (flash_sto m fw par bsz maxl moff) s k b))) (base m par + HEADER_SIZE) (base m par + m_size m) /\
  newest_prog_in (f_dev s) (f_dev (fst (m_mput (flash_sto m fw par bsz maxl moff) s k b))) (base m par + HEADER_SIZE) (base m par + m_size m).
Proof.
  intros HS. cbn [flash_sto m_pput m_mput]. split.
  - destruct (Nat.ltb k maxl); cbn [negb]; [|left; reflexivity].
    destruct (N.ltb_spec (m_size m - HEADER_SIZE) (N.of_nat k * bsz + bsz)); [left; reflexivity|].
    destruct (d_prog (f_dev s) (base m par + HEADER_SIZE + N.of_nat k * bsz) bsz b) as [d1 r] eqn:E. cbn [fst f_dev].
    pose proof (d_prog_log (f_dev s) (base m par + HEADER_SIZE + N.of_nat k * bsz) bsz b) as L. rewrite E in L. cbn [fst] in L.
    destruct L as [L|(z & L)]; [left; exact L|]. right. do 4 eexists. split; [exact L|]. lia.
  - destruct (Nat.ltb k maxl); cbn [negb]; [|left; reflexivity]. cbv zeta.
    destruct (N.ltb_spec (m_size m - HEADER_SIZE) (moff + mro (N.of_nat k) + rowlen (N.of_nat k))); [left; reflexivity|].
    match goal with |- context [d_prog ?dd ?aa ?ll ?vv] => destruct (d_prog dd aa ll vv) as [d1 r] eqn:E; pose proof (d_prog_log dd aa ll vv) as L end.
    rewrite E in L. cbn [fst f_dev] in *. destruct L as [L|(z & L)]; [left; exact L|]. right. do 4 eexists. split; [exact L|]. lia.
Qed.

Lemma d_prog_log2 d a len v :
  (snd (d_prog d a len v) = true -> exists z, dlog (fst (d_prog d a len v)) = FProg a len v z :: dlog d) /\
  (snd (d_prog d a len v) = false -> dlog (fst (d_prog d a len v)) = dlog d).
Proof.
  unfold d_prog. destruct (dtotal d <? a + len); [split; [discriminate| reflexivity]|].
  unfold tick. destruct (match dfail d with Some k => k =? dops d | None => false end); [split; [discriminate| reflexivity]|].
  split; [intros _; eexists; reflexivity| discriminate].
Qed.

(* data blocks: with the geometry accepted by start_update (n * size <= slot - 0x4400, n <= 16384) and an index below n,
   the block lands in [slot + 0x4400, slot end) and its marker is one byte of the status table [slot + 0x400, slot + 0x4400) *)
Theorem data_put_confined m fw par bsz maxl moff s i b nseg :
  nseg <= MAX_SEGMENTS -> nseg * bsz <= m_size m - DATA_REGION_OFFSET -> DATA_REGION_OFFSET <= m_size m -> N.of_nat i < nseg ->
  let d := f_dev s in let d' := f_dev (fst (m_dput (flash_sto m fw par bsz maxl moff) s i b)) in
  dlog d' = dlog d \/
  (exists a v z, dlog d' = FProg a bsz v z :: dlog d /\ base m fw + DATA_REGION_OFFSET <= a /\ a + bsz <= base m fw + m_size m) \/
  (exists a v z z', dlog d' = FProg (base m fw + WRITTEN_OFFSET + N.of_nat i) 1 DATA_WRITTEN z' :: FProg a bsz v z :: dlog d /\
                    base m fw + DATA_REGION_OFFSET <= a /\ a + bsz <= base m fw + m_size m /\
                    base m fw + WRITTEN_OFFSET + N.of_nat i + 1 <= base m fw + DATA_REGION_OFFSET).
Proof.
  intros Hn Hfit Hsz Hi. cbv zeta. cbn [flash_sto m_dput].
  destruct (MAX_SEGMENTS <? N.of_nat i); [left; reflexivity|].
  assert (RL : forall ss, dlog (f_dev (fst (seg_size m fw true ss))) = dlog (f_dev ss)).
  { intros ss. unfold seg_size. destruct (f_cache ss); [reflexivity|].
    pose proof (d_read_log (f_dev ss) (base m fw + SEGMENT_SIZE_OFFSET) 4) as H.
    destruct (d_read (f_dev ss) (base m fw + SEGMENT_SIZE_OFFSET) 4) as [d1 [v|]]; cbn [fst f_dev] in *; apply H. }
  specialize (RL s). destruct (seg_size m fw true s) as [s1 [z|]]; cbn [fst] in RL; [|left; cbn [fst]; exact RL].
  destruct (z =? 0); [left; cbn [fst fe f_dev set_err dlog]; exact RL|].
  destruct (N.eqb_spec z bsz) as [->|]; cbn [negb]; [|left; cbn [fst fe f_dev set_err dlog]; exact RL].
  destruct (m_size m <? DATA_REGION_OFFSET + N.of_nat i * bsz); [left; cbn [fst fe f_dev set_err dlog]; exact RL|].
  set (A := base m fw + (DATA_REGION_OFFSET + N.of_nat i * bsz)).
  assert (HA : base m fw + DATA_REGION_OFFSET <= A /\ A + bsz <= base m fw + m_size m) by (subst A; nia).
  destruct (d_prog_log2 (f_dev s1) A bsz b) as [T1 F1].
  destruct (d_prog (f_dev s1) A bsz b) as [d2 [|]]; cbn [fst snd] in T1, F1.
  2:{ cbn [fst f_dev]. left. rewrite (F1 eq_refl). exact RL. }
  destruct (T1 eq_refl) as (zz & D1). rewrite RL in D1. clear T1 F1.
  destruct (m_size m <? WRITTEN_OFFSET + N.of_nat i).
  { cbn [fst f_dev set_err dlog]. right; left. exists A, b, zz. split; [exact D1| exact HA]. }
  destruct (d_prog_log2 d2 (base m fw + WRITTEN_OFFSET + N.of_nat i) 1 DATA_WRITTEN) as [T2 F2].
  destruct (d_prog d2 (base m fw + WRITTEN_OFFSET + N.of_nat i) 1 DATA_WRITTEN) as [d3 [|]]; cbn [fst snd f_dev] in *.
  - destruct (T2 eq_refl) as (z' & D2). right; right. exists A, b, zz, z'. rewrite D2, D1. split; [reflexivity|].
    split; [apply HA|]. split; [apply HA|]. unfold WRITTEN_OFFSET, DATA_REGION_OFFSET, MAX_SEGMENTS in *. lia.
  - right; left. exists A, b, zz. rewrite (F2 eq_refl). split; [exact D1| exact HA].
Qed.

(* ---- C17 ---- *)
Theorem index_zero_rejected checked ffr m u payload plen d :
  handle_segment checked ffr m u 0 payload plen d = (d, u, RErr (MSpi EOob)).
Proof. reflexivity. Qed.

Lemma recover_oversize_parity fits sl ni nh si sh :
  Recover.two_newest sl = (Some (ni, nh), Some (si, sh)) -> 2048 < Slots.hcount nh ->
  Recover.recover_inner fits sl = (None, sl).
Proof.
  intros T H. unfold Recover.recover_inner. rewrite T.
  destruct (N.leb_spec (Slots.hcount nh) 2048); [lia|]. rewrite !andb_false_r. reflexivity.
Qed.

(* ---- C10: the reconstructor-side matrix of the updater: identity below n, row N of TS004 at 0-based index n + N - 1
   (i.e. 1-based fragment index n + N) ---- *)
Require Import Lfdbt.
Theorem updater_row_identity ffr nn mm : (mm < nn)%nat -> updater_row ffr nn mm = N.shiftl 1 (N.of_nat mm).
Proof. intros H. unfold updater_row. destruct (Nat.ltb_spec mm nn); [reflexivity| lia]. Qed.

Theorem updater_row_coded nn mm l : (nn <= mm)%nat -> N.of_nat (mm - nn + 1) <= 16383 ->
  matrix_line PRBS_FUEL (N.of_nat (mm - nn + 1)) (N.of_nat nn) = Some l ->
  updater_row false nn mm = Lfdbt.mask l.
Proof.
  intros H1 H2 H3. unfold updater_row. destruct (Nat.ltb_spec mm nn); [lia|].
  unfold coded_row. cbv zeta. unfold matrix_line in H3.
  assert (E : u32 (N.of_nat (mm - nn + 1)) = N.of_nat (mm - nn + 1)) by (unfold u32; apply N.mod_small; lia).
  rewrite E. assert (E2 : u32 (1 + u32 (1001 * N.of_nat (mm - nn + 1))) = 1 + 1001 * N.of_nat (mm - nn + 1)).
  { unfold u32. rewrite (N.mod_small (1001 * _)) by lia. apply N.mod_small. lia. }
  rewrite E2, H3. reflexivity.
Qed.

(* ---- C14: the gate of is_valid_firmware ---- *)
Theorem is_valid_firmware_iff m i d :
  snd (is_valid_firmware m i d) = ROk tt <->
  exists d1 h, load_header m i d = (d1, Some (Some h)) /\ Slots.hkind h = Slots.Firmware /\ Slots.hext h = Slots.EComplete /\
               snd (crc_valid m i h d1) = ROk tt.
Proof.
  unfold is_valid_firmware. destruct (load_header m i d) as [d1 [[h|]|]] eqn:E; cbn [snd].
  - destruct (Slots.hkind h) eqn:K.
    + destruct (Slots.hext h) eqn:X; cbn [snd].
      * split; [discriminate| intros (d1' & h' & Q & _ & Q2 & _); inversion Q; subst; congruence].
      * split; [discriminate| intros (d1' & h' & Q & _ & Q2 & _); inversion Q; subst; congruence].
      * split; [intros H; exists d1, h; repeat split; assumption| intros (d1' & h' & Q & _ & _ & Q3); inversion Q; subst; exact Q3].
    + split; [discriminate| intros (d1' & h' & Q & Q1 & _); inversion Q; subst; congruence].
  - split; [discriminate| intros (d1' & h' & Q & _); discriminate].
  - split; [discriminate| intros (d1' & h' & Q & _); discriminate].
Qed.
