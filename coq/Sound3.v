From Coq Require Import List NArith ZArith Arith Bool Lia.
Require Import Slots SlotsProof RingA Exact RingB Recover Idem Boot Life Life2 Life3 Life4 Life5 Sound Sound2 Decide RingArith.
Import ListNotations.

Section StartPar.
Variable NS : nat.
Hypothesis HN : (4 <= NS)%nat.
Variables (sl : slots) (st : started).
Hypothesis J : JS NS sl st.
Hypothesis HW : nowrap sl.
Variables (a b : nat) (s1 s2 : N).
Hypothesis EA : alloc_repaired sl = Ok (a, b, s1, s2).

(* the ring after some of the two chosen slots were erased *)
Variables (er : nat -> bool) (sl' : slots) (st' : started).
Hypothesis Hlen : length sl' = length sl.
Hypothesis Hhd : forall j h, hd_at sl' j h <-> (er j = false /\ hd_at sl j h).
Hypothesis Hst : forall f p, In (f, p) st' <-> (In (f, p) st /\ er f = false /\ er p = false).
Hypothesis Erb : er b = true.
Hypothesis Eronly : forall j, er j = true -> j = a \/ j = b.

Lemma seqat' j s : seqat sl' j = Some s <-> (er j = false /\ seqat sl j = Some s).
Proof.
  rewrite !seqat_hd. split.
  - intros (h & Hh & E). apply Hhd in Hh. destruct Hh as [Ej Hh]. split; [exact Ej|]. exists h; auto.
  - intros (Ej & h & Hh & E). exists h. split; [apply Hhd; auto| exact E].
Qed.

Theorem par_keep q hp : er q = false -> hd_at sl q hp -> hkind hp = Parity -> awip hp ->
  caseA sl' st' q (hseq hp) \/ caseB sl' (hseq hp) \/ (er a = false /\ caseC sl' (hseq hp)).
Proof.
  intros Eq Hq Kq Aq.
  destruct (reach_exact NS sl ltac:(lia) (JS_reach _ _ _ J)) as [Ln (k & H1 & H2)].
  assert (Sq : seqat sl q = Some (hseq hp)) by (apply seqat_hd; exists hp; auto).
  (* the ring is not blank *)
  pose proof (low_spec sl) as LS. pose proof (high_spec sl) as HS.
  destruct (low_of sl) as [[lo hl]|] eqn:EL.
  2:{ exfalso. apply indexed_iff in Hq. rewrite LS in Hq. contradiction. }
  destruct (high_of sl) as [[hi hh]|] eqn:EH.
  2:{ exfalso. apply indexed_iff in Hq. rewrite HS in Hq. contradiction. }
  destruct LS as [LIn LMin]. 
  assert (Slo : seqat sl lo = Some (hseq hl)) by (apply seqat_indexed; exists hl; auto).
  assert (N3 : (3 <= length sl)%nat) by lia.
  destruct (top_facts sl k H1 H2 hi hh EH N3) as (Shi & Lhi & W).
  pose proof (alloc_decision sl a b s1 s2 lo hl hi hh HW EL EH EA) as D. cbv zeta in D.
  set (n := length sl) in *. set (hs := hseq hh) in *. set (s := hseq hp) in *.
  destruct (W q s Sq) as [Sle Slo'].
  (* generic way to reach case B: nothing that remains is older than s *)
  assert (toB : (forall j sj, er j = false -> seqat sl j = Some sj -> Z.of_N s <= Z.of_N sj)%Z -> caseB sl' s).
  { intros G j sj Sj. apply seqat' in Sj. destruct Sj as [Ej Sj]. specialize (G j sj Ej Sj). lia. }
  (* slots of the two lowest possible numbers *)
  assert (P1 : forall x sx, seqat sl x = Some sx -> (Z.of_N sx = Z.of_N hs - Z.of_nat n + 1)%Z -> x = ((hi + 1) mod n)%nat).
  { intros x sx Sx E. apply (slot_of_seq sl k H1 H2 hi hh EH N3 1%nat x sx ltac:(lia) Sx). exact E. }
  assert (P2 : forall x sx, seqat sl x = Some sx -> (Z.of_N sx = Z.of_N hs - Z.of_nat n + 2)%Z -> x = ((hi + 2) mod n)%nat).
  { intros x sx Sx E. apply (slot_of_seq sl k H1 H2 hi hh EH N3 2%nat x sx ltac:(lia) Sx). exact E. }
  assert (Q1 : forall sx, seqat sl ((hi + 1) mod n) = Some sx -> (Z.of_N sx = Z.of_N hs - Z.of_nat n + 1)%Z).
  { intros sx Sx. apply (seq_of_slot sl k H1 H2 hi hh EH N3 1%nat _ sx ltac:(lia) eq_refl Sx). }
  assert (Q2 : forall sx, seqat sl ((hi + 2) mod n) = Some sx -> (Z.of_N sx = Z.of_N hs - Z.of_nat n + 2)%Z).
  { intros sx Sx. apply (seq_of_slot sl k H1 H2 hi hh EH N3 2%nat _ sx ltac:(lia) eq_refl Sx). }
  destruct (JS_par _ _ _ J q hp Hq Kq Aq) as [A|[B|C]].
  - (* the firmware header below q *)
    destruct A as (f & hf & Hf & Sf & Kf & Inf). fold s in Sf.
    assert (Sfq : seqat sl f = Some (hseq hf)) by (apply seqat_hd; exists hf; auto).
    destruct (er f) eqn:Ef.
    2:{ left. exists f, hf. split; [apply Hhd; auto|]. split; [exact Sf|]. split; [exact Kf|]. intros Af. apply Hst. auto. }
    (* q sits in the slot after f *)
    assert (Qn : q = ((f + 1) mod n)%nat) by (apply (next_slot sl k H1 N3 f q (hseq hf) s Sfq Sq); lia).
    destruct D as [(Da & Db & G)|[(Da & Db)|(Da & Db & G)]].
    + (* advance: a, b are the slots of hs-n+1, hs-n+2 *)
      destruct (Eronly f Ef) as [Fa|Fb].
      * exfalso. subst f. rewrite Da in Qn. rewrite succ_mod in Qn by lia. cbn in Qn. rewrite <- Db in Qn. subst q. congruence.
      * subst f. rewrite Db in Sfq. pose proof (Q2 _ Sfq) as E2.
        destruct (er a) eqn:Ea.
        -- right; left. apply toB. intros j sj Ej Sj. destruct (W j sj Sj) as [_ Lo].
           destruct (Z.eq_dec (Z.of_N sj) (Z.of_N hs - Z.of_nat n + 1)) as [C1|C1]; [pose proof (P1 j sj Sj C1) as XX; rewrite <- Da in XX; subst j; congruence|].
           destruct (Z.eq_dec (Z.of_N sj) (Z.of_N hs - Z.of_nat n + 2)) as [C2|C2]; [pose proof (P2 j sj Sj C2) as XX; rewrite <- Db in XX; subst j; congruence|]. lia.
        -- destruct (seqat sl a) as [sa|] eqn:Sa.
           ++ (* case C with X = the header in slot a *)
              right; right. split; [reflexivity|]. rewrite Da in Sa. pose proof (Q1 _ Sa) as E1. rewrite <- Da in Sa.
              (* a is the oldest header, so the ring is full and the guard gives a fallback outside a, b *)
              assert (Elo : lo = a).
              { destruct (W lo _ Slo) as [_ Lo]. pose proof (LMin a) as Mn. apply seqat_indexed in Sa. destruct Sa as (ha & Ha & Esa). specialize (Mn ha Ha). rewrite Esa in Mn.
                rewrite Da. apply (P1 lo (hseq hl) Slo). lia. }
              assert (Dd : ((hi + n - lo) mod n = n - 1)%nat) by (rewrite Elo, Da; apply d_full; lia).
              destruct G as [G|[[G _]|(_ & _ & Ga & Gb)]];
                [rewrite Dd in G; apply Nat.leb_le in G; lia| rewrite Dd in G; apply Nat.eqb_eq in G; lia|].
              unfold fw_of in Ga, Gb. destruct (fallback sl) as [c|] eqn:EF; [|rewrite Elo, Da in Ga; congruence].
              destruct (fallback_spec sl c EF) as (hc & Hc & Cc & _). apply indexed_iff in Hc.
              assert (Nca : c <> a) by (rewrite Da; congruence). assert (Ncb : c <> b) by (rewrite Db; congruence).
              assert (Erc : er c = false) by (destruct (er c) eqn:E; [destruct (Eronly c E); congruence| reflexivity]).
              exists hs. rewrite Hlen. fold n.
              assert (Erh : er hi = false).
              { destruct (er hi) eqn:E; [|reflexivity]. destruct (Eronly hi E) as [X|X]; exfalso.
                - rewrite Da in X. pose proof (Q1 hs ltac:(rewrite <- X; exact Shi)). lia.
                - rewrite Db in X. pose proof (Q2 hs ltac:(rewrite <- X; exact Shi)). lia. }
              split; [exists hi; apply seqat'; auto|].
              split; [intros j sj Sj; apply seqat' in Sj; destruct Sj as [_ Sj]; apply (W j sj Sj)|].
              split; [lia|].
              split; [exists a, sa; split; [apply seqat'; auto| exact E1]|].
              split; [intros x sx Sx; apply seqat' in Sx; destruct Sx as [Ex Sx]; intros C2; pose proof (P2 x sx Sx C2) as XX; rewrite <- Db in XX; subst x; congruence|].
              exists c, hc. split; [apply Hhd; auto|]. split; [exact Cc|]. intros C1.
              apply Nca. rewrite Da. apply (P1 c (hseq hc)); [apply seqat_hd; exists hc; auto| exact C1].
           ++ right; left. apply toB. intros j sj Ej Sj. destruct (W j sj Sj) as [_ Lo].
              destruct (Z.eq_dec (Z.of_N sj) (Z.of_N hs - Z.of_nat n + 1)) as [C1|C1]; [pose proof (P1 j sj Sj C1) as XX; rewrite <- Da in XX; subst j; congruence|].
              destruct (Z.eq_dec (Z.of_N sj) (Z.of_N hs - Z.of_nat n + 2)) as [C2|C2]; [pose proof (P2 j sj Sj C2) as XX; rewrite <- Db in XX; subst j; congruence|]. lia.
    + (* reuse newest + the slot after it *)
      destruct (Eronly f Ef) as [Fa|Fb].
      * exfalso. subst f. rewrite Da in Sfq. rewrite Shi in Sfq. inversion Sfq. lia.
      * subst f. rewrite Db in Sfq. pose proof (Q1 _ Sfq) as E1. right; left. apply toB. intros j sj Ej Sj. destruct (W j sj Sj) as [_ Lo].
        destruct (Z.eq_dec (Z.of_N sj) (Z.of_N hs - Z.of_nat n + 1)) as [C1|C1]; [pose proof (P1 j sj Sj C1) as XX; rewrite <- Db in XX; subst j; congruence|]. lia.
    + (* reuse the two newest *)
      exfalso. destruct (Eronly f Ef) as [Fa|Fb].
      * subst f. rewrite Da in Qn. rewrite pred_succ_mod in Qn by lia. rewrite <- Db in Qn. subst q. congruence.
      * subst f. rewrite Db in Sfq. rewrite Shi in Sfq. inversion Sfq. lia.
  - right; left. intros j sj Sj. apply seqat' in Sj. destruct Sj as [_ Sj]. apply (B j sj Sj).
  - (* case C before: X in slot hi+1, slot hi+2 empty, a confirmed image elsewhere *)
    destruct C as (top & (t & St) & Mx & Eq3 & (x & sx & Sx & Ex) & Ny & (c & hc & Hc & Cc & Ec)). fold n in Eq3, Ex, Ny, Ec.
    assert (Et : top = hs). { destruct (W t top St) as [L1 _]. pose proof (Mx hi hs Shi). lia. } subst top.
    assert (Xs : x = ((hi + 1) mod n)%nat) by (apply (P1 x sx Sx Ex)).
    assert (E2none : seqat sl ((hi + 2) mod n) = None).
    { destruct (seqat sl ((hi + 2) mod n)) as [sy|] eqn:Sy; [|reflexivity]. exfalso. apply (Ny _ _ Sy). apply Q2. first [exact Sy| reflexivity]. }
    assert (Sc : seqat sl c = Some (hseq hc)) by (apply seqat_hd; exists hc; auto).
    assert (toB3 : (forall j sj, er j = false -> seqat sl j = Some sj -> Z.of_N sj <> Z.of_N hs - Z.of_nat n + 1)%Z -> caseB sl' s).
    { intros G. apply toB. intros j sj Ej Sj. destruct (W j sj Sj) as [_ Lo]. specialize (G j sj Ej Sj). pose proof (Ny j sj Sj). lia. }
    destruct D as [(Da & Db & G)|[(Da & Db)|(Da & Db & G)]].
    + destruct (er a) eqn:Ea.
      * right; left. apply toB3. intros j sj Ej Sj C1. pose proof (P1 j sj Sj C1) as XX. rewrite <- Da in XX. subst j. congruence.
      * right; right. split; [reflexivity|]. 
        assert (Erh : er hi = false).
        { destruct (er hi) eqn:E; [|reflexivity]. destruct (Eronly hi E) as [X|X]; exfalso.
          - rewrite Da in X. pose proof (Q1 hs ltac:(rewrite <- X; exact Shi)). lia.
          - rewrite Db in X. rewrite <- X in E2none. congruence. }
        assert (Erc : er c = false).
        { destruct (er c) eqn:E; [|reflexivity]. destruct (Eronly c E) as [X|X]; exfalso.
          - apply Ec. apply Q1. rewrite <- Da, <- X. exact Sc.
          - rewrite Db in X. rewrite <- X in E2none. congruence. }
        exists hs. rewrite Hlen. fold n.
        split; [exists hi; apply seqat'; auto|].
        split; [intros j sj Sj; apply seqat' in Sj; destruct Sj as [_ Sj]; apply (W j sj Sj)|].
        split; [exact Eq3|].
        split; [exists x, sx; split; [apply seqat'; split; [rewrite Xs, <- Da; exact Ea| exact Sx]| exact Ex]|].
        split; [intros y sy Sy; apply seqat' in Sy; destruct Sy as [_ Sy]; apply (Ny y sy Sy)|].
        exists c, hc. split; [apply Hhd; auto| auto].
    + right; left. apply toB3. intros j sj Ej Sj C1. pose proof (P1 j sj Sj C1) as XX. rewrite <- Db in XX. subst j. congruence.
    + (* impossible: the guard of this branch wants the fallback in slot hi+1 or hi+2 *)
      exfalso.
      assert (Elo : lo = ((hi + 1) mod n)%nat).
      { destruct (W lo _ Slo) as [_ Lo]. apply seqat_indexed in Sx. destruct Sx as (hx & Hx & Esx). pose proof (LMin x hx Hx) as Mn. rewrite Esx in Mn.
        apply (P1 lo (hseq hl) Slo). lia. }
      destruct (fallback_some sl c hc ltac:(apply indexed_iff; exact Hc) Cc) as [fb EF].
      destruct (fallback_spec sl fb EF) as (hfb & Hfb & Cfb & Mfb). pose proof Hfb as Hfb'. apply indexed_iff in Hfb'.
      assert (Sfb : seqat sl fb = Some (hseq hfb)) by (apply seqat_hd; exists hfb; auto).
      pose proof (Mfb c hc ltac:(apply indexed_iff; exact Hc) Cc) as Lc.
      unfold fw_of in G. rewrite EF in G. destruct G as [G|G].
      * rewrite <- G in Sfb. pose proof (Q1 _ Sfb) as E1. destruct (W c _ Sc) as [_ Loc]. lia.
      * rewrite <- G in Sfb. congruence.
Qed.
End StartPar.
Print Assumptions par_keep.
