From Coq Require Import List NArith ZArith Arith Bool Lia.
Require Import Slots SlotsProof.
Import ListNotations.

(* ---------- list update ---------- *)
Fixpoint setnth {A} (l : list A) (i : nat) (v : A) : list A :=
  match l, i with
  | [], _ => []
  | _ :: t, O => v :: t
  | h :: t, S k => h :: setnth t k v
  end.
Lemma setnth_length {A} (l : list A) i v : length (setnth l i v) = length l.
Proof. revert i. induction l as [|h t IH]; intros [|k]; cbn; auto. Qed.
Lemma nth_error_setnth {A} (l : list A) i v j :
  nth_error (setnth l i v) j = if Nat.eqb j i then (if Nat.ltb i (length l) then Some v else None) else nth_error l j.
Proof.
  revert i j. induction l as [|h t IH]; intros i j.
  - cbn. destruct j, i; cbn; try reflexivity. destruct (Nat.eqb j i); reflexivity.
  - destruct i as [|i], j as [|j]; cbn [setnth nth_error Nat.eqb length]; try reflexivity.
    rewrite IH. destruct (Nat.eqb j i); [|reflexivity].
    change (S i <? S (length t))%nat with (i <? length t)%nat. reflexivity.
Qed.

Lemma indexed_iff sl i h : In (i, h) (indexed sl) <-> nth_error sl i = Some (Some h).
Proof.
  unfold indexed. rewrite in_flat_map. split.
  - intros [[j o] [Hin Hx]]. destruct o as [h'|]; [|contradiction]. destruct Hx as [Hx|[]]. inversion Hx; subst.
    assert (G : forall (l : list (option hdr)) k, In (i, Some h) (combine (seq k (length l)) l) -> nth_error l (i - k) = Some (Some h) /\ (k <= i)%nat).
    { induction l as [|x l IH]; intros k H; cbn [length seq combine] in H; [contradiction|].
      destruct H as [H|H].
      - inversion H; subst. rewrite Nat.sub_diag. split; [reflexivity| lia].
      - destruct (IH (S k) H) as [A B]. split; [|lia]. replace (i - k)%nat with (S (i - S k)) by lia. exact A. }
    destruct (G sl 0%nat Hin) as [A _]. now rewrite Nat.sub_0_r in A.
  - intros Hn. exists (i, Some h). split; [|left; reflexivity].
    assert (G : forall (l : list (option hdr)) k j, nth_error l j = Some (Some h) -> In ((k + j)%nat, Some h) (combine (seq k (length l)) l)).
    { induction l as [|x l IH]; intros k j Hj; [destruct j; discriminate|].
      cbn [length seq combine]. destruct j as [|j]; cbn [nth_error] in Hj.
      - inversion Hj. left. f_equal. lia.
      - right. replace (k + S j)%nat with (S k + j)%nat by lia. apply IH. exact Hj. }
    apply (G sl 0%nat i Hn).
Qed.

(* seq number visible at a position *)
Definition seqat (sl : slots) (i : nat) : option N :=
  match nth_error sl i with Some (Some h) => Some (hseq h) | _ => None end.
Lemma seqat_indexed sl i s : seqat sl i = Some s <-> exists h, In (i, h) (indexed sl) /\ hseq h = s.
Proof.
  unfold seqat. split.
  - destruct (nth_error sl i) as [[h|]|] eqn:E; try discriminate. intros H. inversion H. exists h. split; [apply indexed_iff; exact E| reflexivity].
  - intros (h & Hin & Hs). apply indexed_iff in Hin. rewrite Hin. now rewrite Hs.
Qed.

(* ---------- ring order with virtual positions ---------- *)
Open Scope Z_scope.
Definition VSorted (sl : slots) : Prop :=
  exists vp : nat -> Z,
    (forall i s, seqat sl i = Some s -> vp i mod Z.of_nat (length sl) = Z.of_nat i) /\
    (forall i j si sj, seqat sl i = Some si -> seqat sl j = Some sj -> ((si < sj)%N <-> vp i < vp j)) /\
    (forall i j si sj, seqat sl i = Some si -> seqat sl j = Some sj -> vp i - vp j < Z.of_nat (length sl)).

(* any arrangement whose visible sequence numbers are a sub-arrangement is still sorted *)
Lemma VSorted_sub sl sl' : length sl' = length sl ->
  (forall i s, seqat sl' i = Some s -> seqat sl i = Some s) -> VSorted sl -> VSorted sl'.
Proof.
  intros HL Hsub (vp & H1 & H2 & H3). exists vp. rewrite HL. split; [|split].
  - intros i s Hs. apply (H1 i s), Hsub, Hs.
  - intros i j si sj Hi Hj. apply (H2 i j si sj); auto.
  - intros i j si sj Hi Hj. apply (H3 i j si sj); auto.
Qed.

Lemma seqat_setnth sl i v j :
  seqat (setnth sl i v) j = if Nat.eqb j i then (if Nat.ltb i (length sl) then option_map hseq v else None) else seqat sl j.
Proof.
  unfold seqat. rewrite nth_error_setnth. destruct (Nat.eqb j i); [|reflexivity].
  destruct (Nat.ltb i (length sl)); [|reflexivity]. destruct v; reflexivity.
Qed.

Lemma VSorted_erase sl i : VSorted sl -> VSorted (setnth sl i None).
Proof.
  apply VSorted_sub; [apply setnth_length|]. intros j s. rewrite seqat_setnth.
  destruct (Nat.eqb j i); [|auto]. destruct (Nat.ltb i (length sl)); discriminate.
Qed.

(* replacing a header by one with the same sequence number (status marks, torn geometry) *)
Lemma VSorted_same_seq sl i h h' : nth_error sl i = Some (Some h) -> hseq h' = hseq h -> VSorted sl -> VSorted (setnth sl i (Some h')).
Proof.
  intros Hn Hs. apply VSorted_sub; [apply setnth_length|]. intros j s. rewrite seqat_setnth.
  destruct (Nat.eqb_spec j i) as [->|]; [|auto]. destruct (Nat.ltb i (length sl)); [|discriminate].
  cbn [option_map]. intros H. inversion H. unfold seqat. rewrite Hn. now rewrite Hs.
Qed.

(* ---------- what alloc returns ---------- *)
Definition nowrap (sl : slots) : Prop := forall i s, seqat sl i = Some s -> (s + 2 < 4294967294)%N.

Inductive alloc_form (sl : slots) (a b : nat) (s1 s2 : N) : Prop :=
| AF_empty : indexed sl = [] -> a = 0%nat -> b = 1%nat -> s1 = 0%N -> s2 = 1%N -> alloc_form sl a b s1 s2
| AF_adv high hh : high_of sl = Some (high, hh) ->
    a = ((high + 1) mod length sl)%nat -> b = ((high + 2) mod length sl)%nat ->
    s1 = (hseq hh + 1)%N -> s2 = (hseq hh + 2)%N -> alloc_form sl a b s1 s2
| AF_r1 high hh : high_of sl = Some (high, hh) ->
    a = high -> b = ((high + 1) mod length sl)%nat -> s1 = hseq hh -> s2 = (hseq hh + 1)%N -> alloc_form sl a b s1 s2
| AF_r2 high hh : high_of sl = Some (high, hh) ->
    a = ((high + length sl - 1) mod length sl)%nat -> b = high ->
    (seqat sl a = Some s1 /\ s2 = hseq hh) \/
    (seqat sl a = None /\ s1 = (hseq hh - 1)%N /\ s2 = hseq hh /\ exists low lh, low_of sl = Some (low, lh) /\ low <> high) ->
    alloc_form sl a b s1 s2.

Lemma alloc_forms sl : nowrap sl ->
  exists a b s1 s2, alloc_repaired sl = Ok (a, b, s1, s2) /\ alloc_form sl a b s1 s2.
Proof.
  intros HW. unfold alloc_repaired, alloc.
  pose proof (low_spec sl) as HL. pose proof (high_spec sl) as HH.
  destruct (low_of sl) as [[lo hl]|] eqn:EL.
  2:{ exists 0%nat, 1%nat, 0%N, 1%N. split; [destruct (high_of sl) as [[? ?]|]; reflexivity|]. apply AF_empty; auto. }
  destruct (high_of sl) as [[hi hh]|] eqn:EH.
  2:{ destruct HL as [HL _]. rewrite HH in HL. contradiction. }
  destruct HH as [HHin _].
  assert (Hs : (hseq hh + 2 < 4294967294)%N).
  { apply (HW hi). apply seqat_indexed. exists hh. split; [exact HHin| reflexivity]. }
  assert (E1 : (hseq hh =? 4294967295)%N = false) by (apply N.eqb_neq; lia).
  assert (E2 : (hseq hh + 1 =? 4294967295)%N = false) by (apply N.eqb_neq; lia).
  assert (E3 : (hseq hh + 1 + 1 =? 4294967295)%N = false) by (apply N.eqb_neq; lia).
  unfold next_seq. rewrite ?E1, ?E2, ?E3. cbn match. rewrite ?E1, ?E2, ?E3.
  assert (ADV : alloc_form sl ((hi + 1) mod length sl) ((hi + 2) mod length sl) (hseq hh + 1) (hseq hh + 1 + 1)).
  { eapply AF_adv; eauto. lia. }
  destruct (Nat.leb _ _) eqn:G1.
  { do 4 eexists. split; [reflexivity| exact ADV]. }
  destruct (Nat.eqb ((hi + length sl - lo) mod length sl) (length sl - 2)).
  { destruct (Nat.eqb _ lo).
    - do 4 eexists. split; [reflexivity|]. eapply AF_r1; eauto.
    - do 4 eexists. split; [reflexivity| exact ADV]. }
  destruct (_ || _).
  2:{ do 4 eexists. split; [reflexivity| exact ADV]. }
  destruct (nth ((hi + length sl - 1) mod length sl) sl None) as [hf|] eqn:En.
  - do 4 eexists. split; [reflexivity|]. eapply AF_r2; eauto. left. split; [|reflexivity].
    unfold seqat. destruct (nth_error sl ((hi + length sl - 1) mod length sl)) as [o|] eqn:E.
    + apply (nth_error_nth _ _ None) in E. rewrite En in E. subst o. reflexivity.
    + apply nth_error_None in E. rewrite nth_overflow in En by exact E. discriminate.
  - do 4 eexists. split; [reflexivity|]. eapply AF_r2; eauto. right. split; [|split; [reflexivity| split; [reflexivity|]]].
    + unfold seqat. destruct (nth_error sl ((hi + length sl - 1) mod length sl)) as [o|] eqn:E; [|reflexivity].
      apply (nth_error_nth _ _ None) in E. rewrite En in E. subst o. reflexivity.
    + exists lo, hl. split; [exact EL|]. intros ->. pose proof (indexed_lt _ _ _ HHin) as Lh.
      replace (hi + length sl - hi)%nat with (length sl) in G1 by lia. rewrite Nat.mod_same in G1 by lia. discriminate.
Qed.

(* ---------- starting an update keeps the ring sorted ---------- *)
Lemma mod_of_nat_add v p k n : (0 < n)%nat -> v mod Z.of_nat n = Z.of_nat p ->
  (v + Z.of_nat k) mod Z.of_nat n = Z.of_nat ((p + k) mod n).
Proof.
  intros Hn Hv. rewrite Nat2Z.inj_mod, Nat2Z.inj_add, <- Hv. rewrite Zplus_mod_idemp_l. reflexivity.
Qed.
Lemma mod_of_nat_pred v p n : (0 < n)%nat -> v mod Z.of_nat n = Z.of_nat p ->
  (v - 1) mod Z.of_nat n = Z.of_nat ((p + n - 1) mod n).
Proof.
  intros Hn Hv. rewrite Nat2Z.inj_mod, Nat2Z.inj_sub, Nat2Z.inj_add by lia. rewrite <- Hv.
  replace (v mod Z.of_nat n + Z.of_nat n - Z.of_nat 1) with ((v mod Z.of_nat n - 1) + 1 * Z.of_nat n) by lia.
  rewrite Z_mod_plus_full. rewrite Zminus_mod_idemp_l. reflexivity.
Qed.
Lemma mod_shift_down v n : (v - Z.of_nat n) mod Z.of_nat n = v mod Z.of_nat n.
Proof. replace (v - Z.of_nat n) with (v + (-1) * Z.of_nat n) by lia. apply Z_mod_plus_full. Qed.

