From Coq Require Import List NArith ZArith Arith Bool Lia.
Require Import Slots SlotsProof RingA Exact RingB Recover Idem Boot Life Life2 Life3 Life4 Life5 Sound Sound2 Decide RingArith Sound3 Sound4 Sound5.
Import ListNotations.

Section History.
Variable NS : nat.
Hypothesis HN : (4 <= NS)%nat.
Variable fits : N -> N -> bool.

Definition sstate := (slots * started)%type.

(* header-level protocol with the `started` ghost; start prefixes in the repaired order (second slot first) *)
Inductive sstep : sstate -> sstate -> Prop :=
| ss_e1b sl st a b s1 s2 : nowrap sl -> alloc_repaired sl = Ok (a, b, s1, s2) -> sstep (sl, st) (setnth sl b None, dropS b st)
| ss_e2 sl st a b s1 s2 : nowrap sl -> alloc_repaired sl = Ok (a, b, s1, s2) ->
    sstep (sl, st) (setnth (setnth sl a None) b None, dropS b (dropS a st))
| ss_h1 sl st a b s1 s2 sz cnt : nowrap sl -> alloc_repaired sl = Ok (a, b, s1, s2) ->
    sstep (sl, st) (setnth (setnth sl a (Some (mkhdr Firmware s1 sz cnt EInProgress IInProgress Untested))) b None, dropS b (dropS a st))
| ss_start sl st a b s1 s2 sz cnt cap : nowrap sl -> alloc_repaired sl = Ok (a, b, s1, s2) ->
    sstep (sl, st) (setnth (setnth sl a (Some (mkhdr Firmware s1 sz cnt EInProgress IInProgress Untested))) b
                           (Some (mkhdr Parity s2 sz cap EInProgress IInProgress Untested)), (a, b) :: dropS b (dropS a st))
| ss_abort sl st i h : hd_at sl i h -> ext_inprogress h = true -> sstep (sl, st) (setnth sl i (Some (with_ext h EAborted)), dropS i st)
| ss_complete sl st i h : hd_at sl i h -> sstep (sl, st) (setnth sl i (Some (with_ext h EComplete)), dropS i st)
| ss_mark sl st i h h' : hd_at sl i h -> ~ awip h -> hseq h' = hseq h -> hkind h' = hkind h -> ~ awip h' ->
    (is_confirmed h = true -> is_confirmed h' = true) -> sstep (sl, st) (setnth sl i (Some h'), st)
| ss_recover sl st r sl' : try_recover fits sl = (r, sl') -> sstep (sl, st) (sl', match r with Some fp => [fp] | None => [] end).

Lemma JS_init : JS NS (repeat None NS) [].
Proof.
  assert (Hnone : forall i h, ~ hd_at (repeat None NS) i h).
  { intros i h H. unfold hd_at in H. apply nth_error_In, repeat_spec in H. discriminate. }
  constructor; [constructor| intros fp []| intros q hp Hq; exfalso; apply (Hnone q hp Hq)].
Qed.

Theorem sstep_JS s s' : JS NS (fst s) (snd s) -> sstep s s' -> JS NS (fst s') (snd s').
Proof.
  intros J S. destruct S; cbn [fst snd] in *.
  - exact (JS_e1b NS HN sl st J H a b s1 s2 H0).
  - exact (JS_e2 NS HN sl st J H a b s1 s2 H0).
  - exact (JS_h1 NS HN sl st J H a b s1 s2 H0 sz cnt 0%N).
  - exact (JS_start NS HN sl st J H a b s1 s2 H0 sz cnt cap).
  - refine (JS_upd NS sl st i h (with_ext h EAborted) J H eq_refl eq_refl _ _).
    + unfold awip, total_status, with_ext. cbn. destruct (hint h), (hboot h); discriminate.
    + unfold is_confirmed, total_status, ext_inprogress, with_ext in *. cbn. destruct (hext h), (hint h), (hboot h); cbn in *; intros; try discriminate; auto.
  - refine (JS_upd NS sl st i h (with_ext h EComplete) J H eq_refl eq_refl _ _).
    + unfold awip, total_status, with_ext. cbn. destruct (hint h), (hboot h); discriminate.
    + unfold is_confirmed, total_status, with_ext. cbn. destruct (hext h), (hint h), (hboot h); try discriminate; reflexivity.
  - rewrite <- (dropS_noop NS sl st i h J H H0). apply (JS_upd NS sl st i h h' J H H1 H2 H3 H4).
  - apply (JS_recover NS HN fits sl st r sl' J H).
Qed.

Inductive ssteps : sstate -> sstate -> Prop :=
| ssteps_refl s : ssteps s s
| ssteps_more s s' s'' : ssteps s s' -> sstep s' s'' -> ssteps s s''.

(* C13: along every history (crash prefixes of start and of cancel included, recovery calls whole),
   a session is only ever returned for a pair that a completed start wrote and that was since then
   neither completed, cancelled nor erased *)
Theorem c13_recover_sound_history sl st f p sl' : ssteps (repeat None NS, []) (sl, st) ->
  try_recover fits sl = (Some (f, p), sl') -> In (f, p) st.
Proof.
  intros H. assert (G : forall s0 s1, ssteps s0 s1 -> JS NS (fst s0) (snd s0) -> JS NS (fst s1) (snd s1)).
  { intros s0 s1 HS. induction HS as [|x y z _ IH S]; intros J0; [exact J0| apply (sstep_JS y z (IH J0) S)]. }
  pose proof (G _ _ H JS_init) as J. cbn [fst snd] in J. apply (recover_sound NS HN fits sl st f p sl' J).
Qed.
End History.
Print Assumptions c13_recover_sound_history.
