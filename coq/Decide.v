From Coq Require Import List NArith ZArith Arith Bool Lia.
Require Import Slots SlotsProof RingA Exact RingB.
Import ListNotations.

Definition fw_of (sl : slots) (lo : nat) : nat := match fallback sl with Some f => f | None => lo end.

(* which branch produced the result, with the guard facts of that branch *)
Lemma alloc_decision sl a b s1 s2 lo hl hi hh : nowrap sl -> low_of sl = Some (lo, hl) -> high_of sl = Some (hi, hh) ->
  alloc_repaired sl = Ok (a, b, s1, s2) ->
  let n := length sl in let d := ((hi + n - lo) mod n)%nat in let fw := fw_of sl lo in
  (a = ((hi + 1) mod n)%nat /\ b = ((hi + 2) mod n)%nat /\
     (Nat.leb d (n - 3) = true \/ (Nat.eqb d (n - 2) = true /\ fw <> lo) \/
      (Nat.leb d (n - 3) = false /\ Nat.eqb d (n - 2) = false /\ ((hi + 1) mod n)%nat <> fw /\ ((hi + 2) mod n)%nat <> fw)))
  \/ (a = hi /\ b = ((hi + 1) mod n)%nat)
  \/ (a = ((hi + n - 1) mod n)%nat /\ b = hi /\ (((hi + 1) mod n)%nat = fw \/ ((hi + 2) mod n)%nat = fw)).
Proof.
  intros HW EL EH. unfold alloc_repaired, alloc, fw_of. rewrite EL, EH.
  pose proof (high_spec sl) as HH. rewrite EH in HH. destruct HH as [HHin _].
  assert (Hs : (hseq hh + 2 < 4294967294)%N).
  { apply (HW hi). apply seqat_indexed. exists hh. split; [exact HHin| reflexivity]. }
  assert (E1 : (hseq hh =? 4294967295)%N = false) by (apply N.eqb_neq; lia).
  assert (E2 : (hseq hh + 1 =? 4294967295)%N = false) by (apply N.eqb_neq; lia).
  assert (E3 : (hseq hh + 1 + 1 =? 4294967295)%N = false) by (apply N.eqb_neq; lia).
  unfold next_seq. rewrite ?E1, ?E2, ?E3. cbn match. rewrite ?E1, ?E2, ?E3. cbv zeta.
  destruct (Nat.leb _ _) eqn:G1.
  { intros Q. inversion Q; subst. left. auto. }
  destruct (Nat.eqb ((hi + length sl - lo) mod length sl) (length sl - 2)) eqn:G2.
  { destruct (Nat.eqb_spec (match fallback sl with Some f => f | None => lo end) lo) as [Ef|Nf].
    - intros Q. inversion Q; subst. right; left. auto.
    - intros Q. inversion Q; subst. left. split; [reflexivity|]. split; [reflexivity|]. right; left. auto. }
  destruct (Nat.eqb_spec ((hi + 1) mod length sl) (match fallback sl with Some f => f | None => lo end)) as [Ea|Na]; cbn [orb].
  { destruct (nth _ sl None); intros Q; inversion Q; subst; right; right; auto. }
  destruct (Nat.eqb_spec ((hi + 2) mod length sl) (match fallback sl with Some f => f | None => lo end)) as [Eb|Nb].
  { destruct (nth _ sl None); intros Q; inversion Q; subst; right; right; auto. }
  intros Q. inversion Q; subst. left. split; [reflexivity|]. split; [reflexivity|]. right; right. auto.
Qed.

(* a confirmed image makes the fallback query answer *)
Lemma fallback_some sl c hc : In (c, hc) (indexed sl) -> is_confirmed hc = true -> exists f, fallback sl = Some f.
Proof.
  intros Hin Cc. unfold fallback.
  assert (G : forall (L : list (nat * hdr)) (acc : option (nat * N)), (acc <> None \/ exists i h, In (i, h) L /\ is_confirmed h = true) ->
     fold_left (fun acc '(i, h) => if is_confirmed h then match acc with None => Some (i, hseq h) | Some (_, s0) => if (s0 <? hseq h)%N then Some (i, hseq h) else acc end else acc) L acc <> None).
  { induction L as [|[i h] L IH]; intros acc H; cbn [fold_left].
    - destruct H as [A|(i0 & h0 & [] & _)]. exact A.
    - destruct H as [A|(i0 & h0 & [Q|Q] & Cq)].
      + apply IH. left. destruct (is_confirmed h); [|exact A]. destruct acc as [[? s0]|]; [|congruence]. destruct (s0 <? hseq h)%N; congruence.
      + inversion Q; subst. apply IH. left. rewrite Cq. destruct acc as [[? s0]|]; [|discriminate]. destruct (s0 <? hseq h0)%N; discriminate.
      + apply IH. right. exists i0, h0. auto. }
  specialize (G (indexed sl) None (or_intror (ex_intro _ c (ex_intro _ hc (conj Hin Cc))))).
  destruct (fold_left _ (indexed sl) None) as [[f s]|]; [exists f; reflexivity| congruence].
Qed.
