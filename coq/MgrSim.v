(* C01 tie at the byte level of the executable model: the flash-backed storages of Mgr.v (the model whose device operations
   are compared with the implementation's, operation by operation) refine the storages of Store.v / Sim.v on which the
   reconstruction theorem is proved.  Together with MSim.handle_block_ref every fault-free Mgr.handle_segment call that
   returns Ok performs exactly a GRecon.handle_block step over Sim.flash_sto on the device memory. *)
From Coq Require Import List NArith Arith Bool Lia.
Require Import Consts Nor Geom Lfdbt.
Require Store GRecon Sim Bridge Recon MgrP.
Require Import MRecon MReconP Mgr MSim.
Import ListNotations.
Open Scope N_scope.

Definition meq (m1 m2 : mem) : Prop := forall x, m1 x = m2 x.

Lemma program_ext m1 m2 a len v1 v2 : meq m1 m2 -> (forall j, j < len -> byte_of v1 j = byte_of v2 j) ->
  meq (program m1 a len v1) (program m2 a len v2).
Proof.
  intros E Hb x. unfold program. destruct ((a <=? x) && (x <? a + len)) eqn:C.
  - apply andb_prop in C. destruct C as [C1 C2]. apply N.leb_le in C1. apply N.ltb_lt in C2.
    rewrite E, Hb by lia. reflexivity.
  - apply E.
Qed.

Lemma read_meq m1 m2 a len : meq m1 m2 -> read m1 a len = read m2 a len.
Proof. intros E. apply read_ext. intros x _. apply E. Qed.

(* successful device operations without an armed fault *)
Lemma d_read_some d a len d' v : dfail d = None -> d_read d a len = (d', Some v) ->
  v = read (dmem d) a len /\ dmem d' = dmem d /\ dfail d' = None.
Proof.
  intros F H. unfold d_read in H. destruct (dtotal d <? a + len); [discriminate|].
  unfold tick in H. rewrite F in H. inversion H; subst. cbn. repeat split; reflexivity.
Qed.
Lemma d_prog_true d a len v d' : dfail d = None -> d_prog d a len v = (d', true) ->
  dmem d' = program (dmem d) a len v /\ dfail d' = None.
Proof.
  intros F H. unfold d_prog in H. destruct (dtotal d <? a + len); [discriminate|].
  unfold tick in H. rewrite F in H. inversion H; subst. cbn. split; reflexivity.
Qed.

Section Tie.
Variables (m : mgr) (fwi pai : nat) (bsz cnt : N) (maxl : nat).
Definition geo_of : Store.geo := {| Store.fw := base m fwi; Store.pa := base m pai; Store.sz := bsz; Store.nseg := cnt; Store.ssize := m_size m |}.
Let g := geo_of.
Let I := Mgr.flash_sto m fwi pai bsz maxl (Store.capL g * bsz).
Let J := Sim.flash_sto g.

(* the storage state is fault-free, the firmware slot's fragment size is cached (as start_update / try_recover leave it),
   and the device memory is pointwise the memory of the pure side *)
Definition Rst (s : fst_) (mm : mem) : Prop := dfail (f_dev s) = None /\ f_cache s = Some bsz /\ meq (dmem (f_dev s)) mm.

Lemma byte_of_bits v j i : N.testbit (byte_of v j) i = if i <? 8 then N.testbit v (8 * j + i) else false.
Proof.
  unfold byte_of. rewrite N.land_spec, N.shiftr_spec by apply N.le_0_l. change 255 with (N.ones 8).
  destruct (N.ltb_spec i 8).
  - rewrite N.ones_spec_low by lia. rewrite andb_true_r. f_equal. lia.
  - rewrite N.ones_spec_high by lia. apply andb_false_r.
Qed.

(* the row as programmed by the model (truncated to its bytes, diagonal bit inverted) has the bytes of the row with the
   diagonal bit cleared, when that bit is set *)
Lemma row_bytes r k j : N.testbit r k = true -> j < rowlen k ->
  byte_of (N.lxor (N.land r (N.ones (8 * rowlen k))) (N.shiftl 1 k)) j = byte_of (N.clearbit r k) j.
Proof.
  intros Hb Hj. apply N.bits_inj. intro i. rewrite !byte_of_bits. destruct (N.ltb_spec i 8); [|reflexivity].
  rewrite N.lxor_spec, N.land_spec, N.clearbit_eqb, N.shiftl_1_l, N.pow2_bits_eqb.
  rewrite N.ones_spec_low by nia. rewrite andb_true_r.
  destruct (N.eqb_spec k (8 * j + i)) as [->|Hne].
  - rewrite Hb. reflexivity.
  - rewrite xorb_false_r, andb_true_r. reflexivity.
Qed.

Lemma flash_sto_refines : refines I J Rst.
Proof.
  constructor.
  - (* dget *)
    intros c t i c' v (F & C & E) H. cbn [I M.m_dget Mgr.flash_sto m_dget] in H.
    destruct (MAX_SEGMENTS <? N.of_nat i); [discriminate|].
    unfold seg_size in H. rewrite C in H.
    destruct (bsz =? 0); [discriminate|].
    destruct (m_size m <? DATA_REGION_OFFSET + N.of_nat i * bsz); [discriminate|].
    rewrite N.min_id in H.
    destruct (d_read (f_dev c) (base m fwi + (DATA_REGION_OFFSET + N.of_nat i * bsz)) bsz) as [d2 r] eqn:R.
    inversion H; subst. destruct (d_read_some _ _ _ _ _ F R) as (-> & M1 & F1).
    split.
    + cbn [J G.dget Sim.flash_sto GRecon.dget]. unfold Store.c_dget, Store.daddr, dataaddr. cbn [g geo_of Store.fw Store.sz].
      apply read_meq. exact E.
    + repeat split; cbn [f_dev f_cache]; [exact F1| exact C| rewrite M1; exact E].
  - (* pget *)
    intros c t k c' v (F & C & E) H. cbn [I M.m_pget Mgr.flash_sto m_pget] in H.
    destruct (negb (Nat.ltb k maxl)); [discriminate|].
    destruct (m_size m - HEADER_SIZE <? N.of_nat k * bsz + bsz); [discriminate|].
    destruct (d_read (f_dev c) (base m pai + HEADER_SIZE + N.of_nat k * bsz) bsz) as [d1 r] eqn:R.
    inversion H; subst. destruct (d_read_some _ _ _ _ _ F R) as (-> & M1 & F1).
    split.
    + cbn [J G.pget Sim.flash_sto GRecon.pget]. unfold Store.c_pget, Store.paddr, paraddr. cbn [g geo_of Store.pa Store.sz].
      rewrite N.add_assoc. apply read_meq. exact E.
    + repeat split; cbn [f_dev f_cache]; [exact F1| exact C| rewrite M1; exact E].
  - (* mget *)
    intros c t k c' v (F & C & E) H. cbn [I M.m_mget Mgr.flash_sto m_mget] in H.
    destruct (negb (Nat.ltb k maxl)); [discriminate|].
    destruct (m_size m - HEADER_SIZE <? Store.capL g * bsz + mro (N.of_nat k) + rowlen (N.of_nat k)); [discriminate|].
    destruct (d_read (f_dev c) (base m pai + HEADER_SIZE + (Store.capL g * bsz + mro (N.of_nat k))) (rowlen (N.of_nat k))) as [d1 [v0|]] eqn:R; [|discriminate].
    inversion H; subst. destruct (d_read_some _ _ _ _ _ F R) as (-> & M1 & F1).
    split.
    + cbn [J G.mget Sim.flash_sto GRecon.mget]. unfold Store.c_mget, Store.raddr, rowaddr. cbn [g geo_of Store.pa Store.sz].
      change (N.pos (Pos.shiftl 1 (N.of_nat k))) with (N.shiftl 1 (N.of_nat k)). rewrite N.shiftl_1_l. f_equal.
      replace (base m pai + HEADER_SIZE + (Store.capL g * bsz + mro (N.of_nat k))) with (base m pai + (HEADER_SIZE + Store.capL g * bsz + mro (N.of_nat k))) by lia.
      apply read_meq. exact E.
    + repeat split; cbn [f_dev f_cache]; [exact F1| exact C| rewrite M1; exact E].
  - (* dput *)
    intros c t i b c' (F & C & E) H. cbn [I M.m_dput Mgr.flash_sto m_dput] in H.
    destruct (MAX_SEGMENTS <? N.of_nat i); [discriminate|].
    unfold seg_size in H. rewrite C in H.
    destruct (bsz =? 0); [discriminate|]. rewrite N.eqb_refl in H. cbn [negb] in H.
    destruct (m_size m <? DATA_REGION_OFFSET + N.of_nat i * bsz); [discriminate|].
    destruct (d_prog (f_dev c) (base m fwi + (DATA_REGION_OFFSET + N.of_nat i * bsz)) bsz b) as [d2 [|]] eqn:P1; [|discriminate].
    destruct (m_size m <? WRITTEN_OFFSET + N.of_nat i); [discriminate|].
    destruct (d_prog d2 (base m fwi + WRITTEN_OFFSET + N.of_nat i) 1 DATA_WRITTEN) as [d3 r] eqn:P2.
    inversion H; subst. destruct (d_prog_true _ _ _ _ _ F P1) as (M1 & F1). destruct (d_prog_true _ _ _ _ _ F1 P2) as (M2 & F2).
    repeat split; cbn [f_dev f_cache]; [exact F2| exact C|].
    cbn [J G.dput Sim.flash_sto GRecon.dput]. unfold Store.c_dstore, Store.daddr, Store.saddr, dataaddr, stataddr. cbn [g geo_of Store.fw Store.sz].
    rewrite M2, M1. change Store.MARK with DATA_WRITTEN. change WRITTEN_OFFSET with HEADER_SIZE.
    rewrite <- (N.add_assoc (base m fwi) HEADER_SIZE).
    apply program_ext; [apply program_ext; [exact E| reflexivity]| reflexivity].
  - (* pput *)
    intros c t k b c' (F & C & E) H. cbn [I M.m_pput Mgr.flash_sto m_pput] in H.
    destruct (negb (Nat.ltb k maxl)); [discriminate|].
    destruct (m_size m - HEADER_SIZE <? N.of_nat k * bsz + bsz); [discriminate|].
    destruct (d_prog (f_dev c) (base m pai + HEADER_SIZE + N.of_nat k * bsz) bsz b) as [d1 r] eqn:P1.
    inversion H; subst. destruct (d_prog_true _ _ _ _ _ F P1) as (M1 & F1).
    repeat split; cbn [f_dev f_cache]; [exact F1| exact C|].
    cbn [J G.pput Sim.flash_sto GRecon.pput]. unfold Store.c_pstore, Store.paddr, paraddr. cbn [g geo_of Store.pa Store.sz].
    rewrite M1, N.add_assoc. apply program_ext; [exact E| reflexivity].
  - (* mput *)
    intros c t k r c' (F & C & E) Hb H. cbn [I M.m_mput Mgr.flash_sto m_mput] in H.
    destruct (negb (Nat.ltb k maxl)); [discriminate|].
    destruct (m_size m - HEADER_SIZE <? Store.capL g * bsz + mro (N.of_nat k) + rowlen (N.of_nat k)); [discriminate|].
    match type of H with (let (_, _) := ?dp in _) = _ => destruct dp as [d1 ok] eqn:P1 end.
    inversion H; subst. destruct (d_prog_true _ _ _ _ _ F P1) as (M1 & F1).
    repeat split; cbn [f_dev f_cache]; [exact F1| exact C|].
    cbn [J G.mput Sim.flash_sto GRecon.mput]. unfold Store.c_mset, Store.raddr, rowaddr. cbn [g geo_of Store.pa Store.sz]. fold g.
    rewrite M1.
    replace (base m pai + HEADER_SIZE + (Store.capL g * bsz + mro (N.of_nat k))) with (base m pai + (HEADER_SIZE + Store.capL g * bsz + mro (N.of_nat k))) by lia.
    apply program_ext; [exact E|]. intros j Hj. apply row_bytes; [exact Hb| exact Hj].
Qed.

(* ---------- one handle_segment call ---------- *)
Lemma handle_block_static {St} (K : msto St) P cap vbits s c idx b s' c' o :
  M.handle_block K P cap vbits s c idx b = (s', c', o) -> n s' = n s /\ bs s' = bs s.
Proof.
  unfold M.handle_block. intros H.
  destruct (is_complete s); [inversion H; auto|].
  match type of H with (if ?x then _ else _) = _ => destruct x end; [inversion H; auto|].
  cbn [l n bs done used] in H.
  match type of H with (if ?x then _ else _) = _ => destruct x end.
  - destruct (done s idx); [inversion H; subst; cbn; auto|].
    destruct (m_dput K c idx b) as [c1 [|]]; inversion H; subst; cbn; auto.
  - match type of H with (match ?x with (_, _) => _ end) = _ => destruct x as [c1 [d|]] end; [|inversion H; subst; cbn; auto].
    match type of H with (match ?x with (_, _) => _ end) = _ => destruct x as [[s2 c2] ok] eqn:E end.
    pose proof (elim_core _ _ _ _ _ _ _ _ _ E) as (A & _ & C & _). cbn [n bs] in A, C.
    destruct ok; [|inversion H; subst; auto].
    destruct (is_complete s2); [|inversion H; subst; auto].
    match type of H with (match ?x with (_, _) => _ end) = _ => destruct x as [c3 [|]] end; inversion H; subst; auto.
Qed.

Lemma missing0_complete {T} (s : G.gst T) : G.l s = 0%nat -> G.missing s = 0%nat -> G.is_complete s = true.
Proof.
  unfold G.is_complete, G.missing, G.unknowns. intros -> H. cbn [Nat.eqb].
  apply forallb_forall. intros x Hx.
  destruct (G.done s x) eqn:D; [reflexivity|]. exfalso.
  assert (In x (filter (fun i => negb (G.done s i)) (seq 0 (G.n s)))) by (apply filter_In; split; [exact Hx| rewrite D; reflexivity]).
  destruct (filter (fun i => negb (G.done s i)) (seq 0 (G.n s))); [contradiction| discriminate].
Qed.

(* the pure reconstructor looks at the matrix only through the row of the delivered index, and treats all coded indices alike *)
Lemma G_handle_block_idx {T} (K : G.sto T) P P' cap vbits (s : G.gst T) idx idx' b :
  (idx = idx' \/ (G.n s <= idx /\ G.n s <= idx')%nat) -> P idx = P' idx' ->
  G.handle_block K P cap vbits s idx b = G.handle_block K P' cap vbits s idx' b.
Proof.
  intros [->|[H1 H2]] HP; unfold G.handle_block; [rewrite HP; reflexivity|].
  destruct (G.is_complete s) eqn:C; [reflexivity|].
  assert (E1 : Nat.leb (G.n s) idx = true) by (apply Nat.leb_le; exact H1).
  assert (E2 : Nat.leb (G.n s) idx' = true) by (apply Nat.leb_le; exact H2).
  rewrite E1, E2, HP. cbv zeta. cbn [andb].
  destruct (Nat.eqb (G.l s) 0) eqn:L0.
  - destruct (Nat.ltb vbits (G.missing s) || Nat.ltb cap (G.missing s)); [reflexivity|].
    cbn [G.l]. destruct (Nat.eqb (G.missing s) 0) eqn:M0; [|reflexivity].
    apply Nat.eqb_eq in L0, M0. rewrite (missing0_complete s L0 M0) in C. discriminate.
  - cbn [G.l]. rewrite L0. reflexivity.
Qed.

Lemma handle_segment_step checked ffr u idx1 payload plen d d' u' out mm :
  u_fw u = fwi -> u_par u = pai -> bs (u_rd u) = bsz -> u_maxl u = maxl -> u_moff u = Store.capL g * bsz ->
  Rst (mkf d (u_cache u)) mm ->
  handle_segment checked ffr m u idx1 payload plen d = (d', u', ROk out) ->
  exists mm' gr,
    G.handle_block J (updater_row ffr (n (u_rd u))) maxl 2048 (emb (u_rd u) mm) (N.to_nat (idx1 - 1)) payload = (emb (u_rd u') mm', gr) /\
    Rst (mkf d' (u_cache u')) mm' /\
    u_fw u' = fwi /\ u_par u' = pai /\ bs (u_rd u') = bsz /\ n (u_rd u') = n (u_rd u) /\ u_maxl u' = maxl /\ u_moff u' = Store.capL g * bsz /\
    (out = FirmwareComplete <-> exists len, gr = G.Done len).
Proof.
  intros Hf Hp Hb Hm Ho R H. unfold handle_segment in H.
  destruct (idx1 =? 0) eqn:Z; [discriminate|]. apply N.eqb_neq in Z.
  destruct (negb (plen =? bs (u_rd u))); [discriminate|]. cbv zeta in H.
  match type of H with (if ?x then _ else _) = _ => destruct x end; [discriminate|].
  rewrite Hf, Hp, Hb, Hm, Ho in H.
  set (rd := u_rd u) in *. set (idx0 := idx1 - 1) in *.
  set (coded := N.of_nat (n rd) <=? idx0) in *.
  set (row := if coded then coded_row ffr (n rd) (u32 (idx0 - N.of_nat (n rd) + 1)) else 0) in *.
  set (Pc := fun mm0 : nat => if Nat.ltb mm0 (n rd) then N.shiftl 1 (N.of_nat mm0) else row) in *.
  set (idx := if coded then n rd else N.to_nat idx0) in *.
  destruct (M.handle_block (Mgr.flash_sto m fwi pai bsz maxl (Store.capL g * bsz)) Pc maxl 2048 rd (mkf d (u_cache u)) idx payload) as [[rd' s'] o] eqn:HB.
  destruct (handle_block_static _ _ _ _ _ _ _ _ _ _ _ HB) as [Hn' Hb'].
  destruct (dpanic (f_dev s')); [discriminate|].
  assert (STEP : forall res, o = M.Ok res -> exists mm', G.handle_block J (updater_row ffr (n rd)) maxl 2048 (emb rd mm) (N.to_nat idx0) payload = (emb rd' mm', gres res) /\ Rst s' mm').
  { intros res ->. destruct (handle_block_ref _ J Rst flash_sto_refines Pc maxl 2048 rd _ mm idx payload rd' s' res R HB) as (mm' & E & R').
    exists mm'. split; [|exact R']. rewrite <- E. apply G_handle_block_idx.
    - unfold idx, coded. cbn [emb G.n]. destruct (N.leb_spec (N.of_nat (n rd)) idx0); [right; lia| left; reflexivity].
    - unfold Pc, idx, updater_row, row, coded. destruct (N.leb_spec (N.of_nat (n rd)) idx0) as [L|L].
      + destruct (Nat.ltb_spec (N.to_nat idx0) (n rd)); [lia|]. rewrite Nat.ltb_irrefl. f_equal. f_equal. lia.
      + destruct (Nat.ltb_spec (N.to_nat idx0) (n rd)); [reflexivity| lia]. }
  destruct o as [res|]; [|discriminate].
  destruct (STEP res eq_refl) as (mm' & E & R'). destruct s' as [dd cc]. cbn [f_dev f_cache] in *.
  destruct res; inversion H; subst; cbn [u_fw u_par u_rd u_maxl u_moff u_cache];
    exists mm'; eexists; (split; [exact E|]); (split; [exact R'|]);
    repeat match goal with |- _ /\ _ => split end; try reflexivity; try assumption; try congruence; cbn [gres];
    (split; [intros Q; first [discriminate Q | eauto] | intros [? Q]; first [discriminate Q | reflexivity]]).
Qed.

(* ---------- a whole delivery ---------- *)
(* every call must return Ok (a call that returns an error or panics ends the run: [None]) *)
Fixpoint feed (checked ffr : bool) (u : updater) (d : dev) (segs : list (N * N)) : option (dev * updater * list seg_outcome) :=
  match segs with
  | [] => Some (d, u, [])
  | (idx1, payload) :: tl =>
      match handle_segment checked ffr m u idx1 payload (bs (u_rd u)) d with
      | (d1, u1, ROk o) => match feed checked ffr u1 d1 tl with Some (d2, u2, os) => Some (d2, u2, o :: os) | None => None end
      | _ => None
      end
  end.

Definition conv (p : N * N) : nat * N := (N.to_nat (fst p - 1), snd p).

Lemma feed_is_grun checked ffr : forall segs u d mm d' u' outs,
  u_fw u = fwi -> u_par u = pai -> bs (u_rd u) = bsz -> u_maxl u = maxl -> u_moff u = Store.capL g * bsz ->
  Rst (mkf d (u_cache u)) mm ->
  feed checked ffr u d segs = Some (d', u', outs) ->
  exists mm' grs,
    Bridge.grun J (updater_row ffr (n (u_rd u))) maxl 2048 (emb (u_rd u) mm) (map conv segs) = (emb (u_rd u') mm', grs) /\
    Rst (mkf d' (u_cache u')) mm' /\ u_fw u' = fwi /\
    Forall2 (fun o gr => o = FirmwareComplete <-> exists len, gr = G.Done len) outs grs.
Proof.
  induction segs as [|[idx1 payload] tl IH]; intros u d mm d' u' outs Hf Hp Hb Hm Ho R H; cbn [feed map Bridge.grun] in *.
  - injection H as <- <- <-. exists mm, []. split; [reflexivity|]. split; [exact R|]. split; [exact Hf| constructor].
  - destruct (handle_segment checked ffr m u idx1 payload (bs (u_rd u)) d) as [[d1 u1] [o| |]] eqn:HS; try discriminate.
    destruct (feed checked ffr u1 d1 tl) as [[[d2 u2] os]|] eqn:FD; [|discriminate]. injection H as <- <- <-.
    destruct (handle_segment_step _ _ _ _ _ _ _ _ _ _ _ Hf Hp Hb Hm Ho R HS) as (mm1 & gr & E & R1 & Hf1 & Hp1 & Hb1 & Hn1 & Hm1 & Ho1 & OC).
    destruct (IH u1 d1 mm1 d2 u2 os Hf1 Hp1 Hb1 Hm1 Ho1 R1 FD) as (mm' & grs & E2 & R' & Hf' & F2).
    unfold conv at 1. cbn [fst snd]. rewrite E. rewrite Hn1 in E2. rewrite E2.
    exists mm', (gr :: grs). split; [reflexivity|]. split; [exact R'|]. split; [exact Hf'|]. constructor; assumption.
Qed.
End Tie.


(* ---------- C01 on the executable byte-level model ---------- *)
(* For every manager geometry, pair of distinct slots, fragment size / count forming a well-formed session geometry, image X,
   build (overflow-checked or not, force-full-r or not) and EVERY list of delivered (index, payload) pairs whose payloads
   are consistent with X under the updater's own parity rows (any order, losses, duplicates, coded first, late data):
   starting from the session state start_update leaves (fragment size cached, capacity and matrix offset from max_l) on a
   device without an armed fault whose two slots are erased behind their header areas, if every call returns Ok and one of
   them reports FirmwareComplete, then every fragment's status byte in the firmware slot is 0x33 and its data region holds
   the original fragment.  Chain: feed_is_grun (this file) -> MSim.handle_block_ref + flash_sto_refines ->
   Bridge.flash_reconstruction_sound_hdr -> Sim.handle_block_sim -> ReconProof.run_sound. *)
Theorem mgr_session_sound (m : mgr) (fwi pai : nat) (bsz cnt : N) (checked ffr : bool) (X : nat -> N)
    (segs : list (N * N)) (u0 : updater) (d0 : dev) d' u' outs :
  let g := geo_of m fwi pai bsz cnt in
  Store.wfgeo g ->
  u_fw u0 = fwi -> u_par u0 = pai -> u_rd u0 = rinit (N.to_nat cnt) bsz ->
  u_maxl u0 = N.to_nat (Store.capL g) -> u_moff u0 = Store.capL g * bsz -> u_cache u0 = Some bsz ->
  dfail d0 = None ->
  (forall x, (base m fwi + HEADER_SIZE <= x < base m fwi + m_size m \/ base m pai + HEADER_SIZE <= x < base m pai + m_size m) -> dmem d0 x = 255) ->
  (forall i, N.of_nat i < cnt -> X i < 2 ^ (8 * bsz)) ->
  Forall (Recon.consistent (updater_row ffr (N.to_nat cnt)) (N.to_nat cnt) X) (map conv segs) ->
  feed m checked ffr u0 d0 segs = Some (d', u', outs) ->
  In FirmwareComplete outs ->
  forall i, (i < N.to_nat cnt)%nat ->
    dmem d' (base m fwi + HEADER_SIZE + N.of_nat i) = DATA_WRITTEN /\
    read (dmem d') (base m fwi + DATA_REGION_OFFSET + N.of_nat i * bsz) bsz = X i.
Proof.
  intros g W Hf Hp Hr Hm Ho Hc F He HX HC FD Hin i Hi.
  assert (R0 : Rst bsz (mkf d0 (u_cache u0)) (dmem d0)) by (repeat split; [exact F| exact Hc]).
  destruct (feed_is_grun m fwi pai bsz cnt (N.to_nat (Store.capL g)) checked ffr segs u0 d0 (dmem d0) d' u' outs Hf Hp ltac:(rewrite Hr; reflexivity) Hm Ho R0 FD)
    as (mm' & grs & E & (F' & C' & ME) & _ & F2).
  rewrite Hr in E. cbn [rinit n] in E.
  pose proof (Bridge.flash_reconstruction_sound_hdr g (updater_row ffr (N.to_nat cnt)) 2048 X (map conv segs) (dmem d0) W He
                ltac:(intros j Hj; apply HX; exact Hj)
                ltac:(intros j Hj; apply MgrP.updater_row_identity; cbn [g geo_of Store.nseg] in Hj; lia)
                HC) as S.
  cbv zeta in S. cbn [g geo_of Store.nseg Store.sz] in S. fold g in S.
  change (GRecon.mkg (N.to_nat cnt) 0 bsz (fun _ : nat => false) (fun _ : nat => false) (dmem d0)) with (emb (rinit (N.to_nat cnt) bsz) (dmem d0)) in S.
  change (geo_of m fwi pai bsz cnt) with g in E. rewrite E in S.
  assert (HD : exists len, In (GRecon.Done len) grs).
  { clear - F2 Hin. induction F2 as [|o gr os grs' Hog F2 IH]; [contradiction|]. destruct Hin as [->|Hin].
    - destruct (proj1 Hog eq_refl) as [len ->]. exists len. left; reflexivity.
    - destruct (IH Hin) as [len Hl]. exists len. right; exact Hl. }
  destruct (S HD i Hi) as [S1 S2]. cbn [emb GRecon.store] in S1, S2.
  unfold Store.saddr, stataddr in S1. unfold Store.c_dget, Store.daddr, dataaddr in S2. cbn [g geo_of Store.fw Store.sz] in S1, S2.
  split.
  - rewrite ME. rewrite N.add_assoc in S1. exact S1.
  - rewrite <- S2. rewrite N.add_assoc. apply read_meq. exact ME.
Qed.

Print Assumptions flash_sto_refines.
Print Assumptions mgr_session_sound.
