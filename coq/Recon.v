From Coq Require Import List NArith Arith Bool Lia Btauto.
Import ListNotations.
Open Scope N_scope.

Definition blk := N.
Definition row := N.

Inductive event :=
| EDataStore (i : nat) (b : blk) | EDataGet (i : nat)
| EParStore (m : nat) (b : blk)  | EParGet (m : nat)
| EMatSet (m : nat) (r : row)    | EMatGet (m : nat).

Inductive result := NeedMore | TooManyMissing | Done (len : N).

Record st := mkst {
  n : nat; l : nat; bs : N;
  done : nat -> bool; used : nat -> bool;
  dat : nat -> option blk; par : nat -> option blk; mat : nat -> option row }.

Definition upd {A} (f : nat -> A) (k : nat) (v : A) : nat -> A :=
  fun i => if Nat.eqb i k then v else f i.
Definition getb (o : option N) : N := match o with Some b => b | None => 0 end.
Definition bit (r : row) (i : nat) : bool := N.testbit r (N.of_nat i).

Definition init (n0 : nat) (bs0 : N) : st :=
  mkst n0 0 bs0 (fun _ => false) (fun _ => false) (fun _ => None) (fun _ => None) (fun _ => None).

Definition unknowns (s : st) : list nat := filter (fun i => negb (done s i)) (seq 0 (n s)).
Definition missing (s : st) : nat := length (unknowns s).
Definition unk (s : st) (j : nat) : nat := nth j (unknowns s) 0%nat.   (* reduced_to_full *)

Definition is_complete (s : st) : bool :=
  if Nat.eqb (l s) 0 then forallb (done s) (seq 0 (n s)) else forallb (used s) (seq 0 (l s)).

(* strip known blocks: returns data and events *)
Definition strip (s : st) (r : row) (d : blk) : blk * list event :=
  fold_left (fun '(d, ev) i =>
      if bit r i && done s i then (N.lxor d (getb (dat s i)), ev ++ [EDataGet i]) else (d, ev))
    (seq 0 (n s)) (d, []).

(* project the row onto the unknown columns *)
Definition project (s : st) (r : row) : row :=
  fst (fold_left (fun '(acc, j) i => (if bit r i then N.setbit acc (N.of_nat j) else acc, S j))
                 (unknowns s) (0, 0%nat)).

(* eliminate from working head wh downwards *)
Fixpoint elim (s : st) (wh : nat) (r : row) (d : blk) (ev : list event) : st * list event :=
  if bit r wh then
    if used s wh then
      let r' := N.lxor r (getb (mat s wh)) in
      let d' := N.lxor d (getb (par s wh)) in
      let ev' := ev ++ [EParGet wh; EMatGet wh] in
      match wh with O => (s, ev') | S k => elim s k r' d' ev' end
    else
      (mkst (n s) (l s) (bs s) (done s) (upd (used s) wh true) (dat s)
            (upd (par s) wh (Some d)) (upd (mat s) wh (Some r)),
       ev ++ [EParStore wh d; EMatSet wh r])
  else match wh with O => (s, ev) | S k => elim s k r d ev end.

Definition handle_parity (P : nat -> row) (s : st) (idx : nat) (b : blk) : st * list event :=
  let '(d, ev) := strip s (P idx) b in
  elim s (l s - 1) (project s (P idx)) d ev.

(* forward substitution *)
Definition finish_row (s : st) (i : nat) : st * list event :=
  let r := getb (mat s i) in
  let '(out, ev) :=
    fold_left (fun '(o, ev) j =>
        if bit r j then (N.lxor o (getb (dat s (unk s j))), ev ++ [EDataGet (unk s j)]) else (o, ev))
      (seq 0 i) (getb (par s i), [EParGet i; EMatGet i]) in
  (mkst (n s) (l s) (bs s) (done s) (used s) (upd (dat s) (unk s i) (Some out)) (par s) (mat s),
   ev ++ [EDataStore (unk s i) out]).
(* NB: done is frozen, so unk is stable during finish *)
Definition finish (s : st) : st * list event :=
  fold_left (fun '(s, ev) i => let '(s', e) := finish_row s i in (s', ev ++ e)) (seq 0 (l s)) (s, []).

Definition done_len (s : st) : N := N.of_nat (n s) * bs s.

Definition handle_block (P : nat -> row) (cap vbits : nat) (s : st) (idx : nat) (b : blk)
  : st * result * list event :=
  if is_complete s then (s, Done (done_len s), []) else
  let enter := Nat.leb (n s) idx && Nat.eqb (l s) 0 in
  let l2 := if enter then missing s else l s in
  if enter && (Nat.ltb vbits l2 || Nat.ltb cap l2) then (s, TooManyMissing, []) else
  let s1 := mkst (n s) l2 (bs s) (done s) (used s) (dat s) (par s) (mat s) in
  if Nat.eqb (l s1) 0 then
    let '(s2, ev) :=
      if done s1 idx then (s1, [])
      else (mkst (n s1) (l s1) (bs s1) (upd (done s1) idx true) (used s1)
                 (upd (dat s1) idx (Some b)) (par s1) (mat s1), [EDataStore idx b]) in
    (s2, if is_complete s2 then Done (done_len s2) else NeedMore, ev)
  else
    let '(s2, ev) := handle_parity P s1 idx b in
    if is_complete s2 then let '(s3, ev') := finish s2 in (s3, Done (done_len s3), ev ++ ev')
    else (s2, NeedMore, ev).

Fixpoint run (P : nat -> row) (cap vbits : nat) (s : st) (bl : list (nat * blk))
  : st * list result * list event :=
  match bl with
  | [] => (s, [], [])
  | (i, b) :: tl =>
      let '(s1, r, e) := handle_block P cap vbits s i b in
      let '(s2, rs, es) := run P cap vbits s1 tl in (s2, r :: rs, e ++ es)
  end.

(* ---- specification side ---- *)
Fixpoint dot (k : nat) (r : row) (X : nat -> blk) : blk :=
  match k with O => 0 | S k' => N.lxor (if bit r k' then X k' else 0) (dot k' r X) end.
Definition enc (P : nat -> row) (nn : nat) (X : nat -> blk) (idx : nat) : blk := dot nn (P idx) X.
Definition contract (P : nat -> row) (nn : nat) : Prop :=
  (forall m, (m < nn)%nat -> P m = N.shiftl 1 (N.of_nat m)) /\ (forall m, P m < N.shiftl 1 (N.of_nat nn)).
Definition consistent (P : nat -> row) (nn : nat) (X : nat -> blk) (p : nat * blk) : Prop :=
  snd p = enc P nn X (fst p).

Inductive in_span (K : list row) : row -> Prop :=
| span_zero : in_span K 0
| span_add r v : In r K -> in_span K v -> in_span K (N.lxor r v).
Definition full_rank (K : list row) (nn : nat) : Prop :=
  forall v, v < N.shiftl 1 (N.of_nat nn) -> in_span K v.

(* knowledge after a run prefix: unit vectors of stored data blocks + rows accepted in stage 2 *)
(* (defined by replaying the results: a block is accepted iff its call did not return TooManyMissing
   and, in stage 1, had index < n) *)

(* ---- unit tests of the crate as Examples ---- *)
Definition TestParity (nn : nat) (m : nat) : row :=
  if Nat.ltb m nn then N.shiftl 1 (N.of_nat m) else N.land (N.of_nat (m - nn)) (N.ones (N.of_nat nn)).
Definition results_of (x : st * list result * list event) := snd (fst x).
Definition data_of (x : st * list result * list event) (k : nat) := map (dat (fst (fst x))) (seq 0 k).

Example simple_reconstruction :
  let x := run (TestParity 4) 2 8 (init 4 1) [(0%nat,1);(2%nat,3);(9%nat,2);(10%nat,1);(14%nat,6)] in
  results_of x = [NeedMore;NeedMore;NeedMore;NeedMore;Done 4] /\ data_of x 4 = [Some 1; Some 2; Some 3; Some 4].
Proof. vm_compute. split; reflexivity. Qed.
Example nontrivial_relation :
  let x := run (TestParity 4) 3 8 (init 4 1) [(0%nat,1);(10%nat,1);(14%nat,6);(16%nat,7);(19%nat,4)] in
  results_of x = [NeedMore;NeedMore;NeedMore;NeedMore;Done 4] /\ data_of x 4 = [Some 1; Some 2; Some 3; Some 4].
Proof. vm_compute. split; reflexivity. Qed.
Example out_of_order :
  let x := run (TestParity 4) 3 8 (init 4 1) [(0%nat,1);(14%nat,6);(9%nat,2);(2%nat,3);(10%nat,1);(10%nat,1)] in
  results_of x = [NeedMore;NeedMore;NeedMore;NeedMore;Done 4;Done 4] /\ data_of x 4 = [Some 1; Some 2; Some 3; Some 4].
Proof. vm_compute. split; reflexivity. Qed.
Example too_many_missing :
  let x := run (TestParity 16) 8 16 (init 16 1) [(0%nat,0);(19%nat,1);(1%nat,1);(19%nat,1);(2%nat,2);(19%nat,1);(3%nat,3);(19%nat,1);(4%nat,4);(19%nat,1);(5%nat,5);(19%nat,1);(6%nat,6);(19%nat,1);(7%nat,7);(19%nat,1)] in
  results_of x = [NeedMore;TooManyMissing;NeedMore;TooManyMissing;NeedMore;TooManyMissing;NeedMore;TooManyMissing;
                  NeedMore;TooManyMissing;NeedMore;TooManyMissing;NeedMore;TooManyMissing;NeedMore;NeedMore].
Proof. vm_compute. reflexivity. Qed.

(* ---- statements (proofs are the deliverable of the next phase) ---- *)
Definition recon_sound_stmt : Prop :=
  forall (P : nat -> row) (nn cap vbits : nat) (bs0 : N) (X : nat -> blk) (bl : list (nat * blk)),
    Forall (consistent P nn X) bl ->
    let '(s', rs, evs) := run P cap vbits (init nn bs0) bl in
    (forall i b, In (EDataStore i b) evs -> (i < nn)%nat /\ b = X i) /\
    (forall len, In (Done len) rs -> len = N.of_nat nn * bs0 /\ forall i, (i < nn)%nat -> dat s' i = Some (X i)).
