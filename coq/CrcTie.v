(* C14 tie: the flash-level CRC loop of the byte-level model (Mgr.crc_segments: one device read per digested fragment) computes
   exactly the list-level loop of Crc.v (on which crc_valid_spec and single_bit_detected are proved) over the bytes the data
   region holds - when no fault is armed and the region lies inside the device. *)
From Coq Require Import List NArith Arith Bool Lia ZifyBool ZifyN.
Require Import Consts Nor Crc Mgr.
Import ListNotations.
Open Scope N_scope.

(* bytes of a little-endian read are the memory bytes *)
Lemma byte_of_0 v : byte_of v 0 = v mod 256.
Proof. unfold byte_of. rewrite N.mul_0_r, N.shiftr_0_r. change 255 with (N.ones 8). now rewrite N.land_ones. Qed.
Lemma byte_of_succ a r k : a < 256 -> byte_of (a + 256 * r) (k + 1) = byte_of r k.
Proof.
  intros H. unfold byte_of. f_equal. rewrite !N.shiftr_div_pow2.
  replace (8 * (k + 1)) with (8 + 8 * k) by lia. rewrite N.pow_add_r. change (2 ^ 8) with 256.
  rewrite <- N.div_div by (try discriminate; apply N.pow_nonzero; discriminate).
  f_equal. rewrite N.mul_comm, N.div_add by discriminate. rewrite N.div_small by exact H. reflexivity.
Qed.
Lemma byte_of_read_n (m : mem) : wf m -> forall len a k, (k < len)%nat -> byte_of (read_n m a len) (N.of_nat k) = m (a + N.of_nat k).
Proof.
  intros W. induction len as [|len IH]; intros a k Hk; [lia|]. cbn [read_n].
  destruct k as [|k].
  - rewrite byte_of_0. cbn [N.of_nat]. rewrite N.add_0_r.
    replace (m a + 256 * read_n m (a + 1) len) with (m a + read_n m (a + 1) len * 256) by lia.
    rewrite N.mod_add by discriminate. apply N.mod_small, W.
  - replace (N.of_nat (S k)) with (N.of_nat k + 1) by lia. rewrite byte_of_succ by apply W.
    rewrite IH by lia. f_equal. lia.
Qed.
Lemma bytes_of_read (m : mem) a len : wf m ->
  bytes_of_val (read m a (N.of_nat len)) len = map (fun k => m (a + N.of_nat k)) (seq 0 len).
Proof.
  intros W. unfold bytes_of_val, read. rewrite Nat2N.id. apply map_ext_in. intros k Hk. apply in_seq in Hk.
  apply byte_of_read_n; [exact W| lia].
Qed.

(* the data region of slot i as a byte list *)
Definition region (d : dev) (m : mgr) (i : nat) (len : nat) : list N :=
  map (fun k => dmem d (base m i + DATA_REGION_OFFSET + N.of_nat k)) (seq 0 len).

Lemma skipn_seq k : forall a n, skipn k (seq a n) = seq (a + k) (n - k).
Proof.
  induction k as [|k IH]; intros a n; [rewrite Nat.add_0_r, Nat.sub_0_r; reflexivity|].
  destruct n as [|n]; [reflexivity|]. cbn [seq skipn]. rewrite IH. f_equal; lia.
Qed.
Lemma firstn_seq k : forall a n, (k <= n)%nat -> firstn k (seq a n) = seq a k.
Proof.
  induction k as [|k IH]; intros a n H; [reflexivity|]. destruct n as [|n]; [lia|]. cbn [seq firstn]. rewrite IH by lia. reflexivity.
Qed.
Lemma map_seq_shift {A} (f : nat -> A) a n : map f (seq a n) = map (fun j => f (a + j)%nat) (seq 0 n).
Proof.
  revert a. induction n as [|n IH]; intros a; [reflexivity|]. cbn [seq map]. rewrite Nat.add_0_r. f_equal.
  rewrite IH. rewrite <- seq_shift, map_map. apply map_ext. intros j. f_equal. lia.
Qed.

Lemma region_segment d m i len sz idx : ((idx + 1) * sz <= len)%nat ->
  segment (region d m i len) sz idx = map (fun k => dmem d (base m i + DATA_REGION_OFFSET + N.of_nat idx * N.of_nat sz + N.of_nat k)) (seq 0 sz).
Proof.
  intros H. unfold segment, region. rewrite skipn_map, firstn_map, skipn_seq, firstn_seq by lia.
  rewrite map_seq_shift. apply map_ext. intros k. f_equal. lia.
Qed.

(* a fault-free, in-range read returns the bytes and changes only the counters *)
Definition same_medium (d d' : dev) : Prop := dmem d' = dmem d /\ dlog d' = dlog d /\ dtotal d' = dtotal d /\ dfail d' = dfail d.
Lemma d_read_ok d a len : dfail d = None -> a + len <= dtotal d ->
  exists d', d_read d a len = (d', Some (read (dmem d) a len)) /\ same_medium d d'.
Proof.
  intros F B. unfold d_read. destruct (N.ltb_spec (dtotal d) (a + len)); [lia|].
  unfold tick. rewrite F. eexists. split; [reflexivity|]. unfold same_medium, mix_read. cbn. rewrite F. repeat split; reflexivity.
Qed.
Lemma same_medium_trans a b c : same_medium a b -> same_medium b c -> same_medium a c.
Proof. intros (A1&A2&A3&A4) (B1&B2&B3&B4). repeat split; congruence. Qed.
Lemma same_medium_refl a : same_medium a a. Proof. repeat split. Qed.

(* the loop: the CRC register after the flash-level loop is crc_raw over what the list-level loop feeds *)
Theorem crc_segments_is_loop m i (sz : nat) len : (1 <= sz)%nat ->
  forall idxs skip fed d, wf (dmem d) -> dfail d = None ->
  base m i + DATA_REGION_OFFSET + N.of_nat len <= dtotal d ->
  (forall idx, In idx idxs -> ((idx + 1) * sz <= len)%nat) ->
  exists d', crc_segments m i (N.of_nat sz) idxs (option_map N.of_nat skip) (crc_raw 0 fed) d
             = (d', Some (crc_raw 0 (crc_loop (region d m i len) sz idxs skip fed))) /\ same_medium d d'.
Proof.
  intros Hsz. induction idxs as [|idx rest IH]; intros skip fed d W F B Hin; cbn [crc_segments crc_loop].
  - exists d. split; [reflexivity| apply same_medium_refl].
  - assert (Hidx : ((idx + 1) * sz <= len)%nat) by (apply Hin; left; reflexivity).
    assert (Hrest : forall j, In j rest -> ((j + 1) * sz <= len)%nat) by (intros j Hj; apply Hin; right; exact Hj).
    assert (GO : forall ts : nat, (ts <= sz)%nat ->
       exists d', (match d_read d (base m i + DATA_REGION_OFFSET + N.of_nat idx * N.of_nat sz) (N.of_nat sz) with
                   | (d1, None) => (d1, None)
                   | (d1, Some v) => crc_segments m i (N.of_nat sz) rest None (crc_raw (crc_raw 0 fed) (skipn (N.to_nat (N.of_nat ts)) (bytes_of_val v (N.to_nat (N.of_nat sz))))) d1 end)
                  = (d', Some (crc_raw 0 (crc_loop (region d m i len) sz rest None (fed ++ skipn ts (segment (region d m i len) sz idx))))) /\ same_medium d d').
    { intros ts Hts.
      destruct (d_read_ok d (base m i + DATA_REGION_OFFSET + N.of_nat idx * N.of_nat sz) (N.of_nat sz) F) as (d1 & R & SM); [nia|].
      rewrite R. rewrite !Nat2N.id. rewrite bytes_of_read by exact W. rewrite <- crc_raw_app.
      destruct SM as (M1 & M2 & M3 & M4).
      destruct (IH None (fed ++ skipn ts (segment (region d m i len) sz idx)) d1) as (d2 & E & SM2); try assumption.
      { rewrite M1; exact W. } { congruence. } { rewrite M3; exact B. }
      exists d2. split; [|apply (same_medium_trans d d1 d2); [repeat split; assumption| exact SM2]].
      cbn [option_map] in E. rewrite (region_segment d m i len sz idx Hidx).
      assert (RG : region d1 m i len = region d m i len) by (unfold region; rewrite M1; reflexivity).
      rewrite RG in E. rewrite (region_segment d m i len sz idx Hidx) in E. exact E. }
    destruct skip as [r|]; cbn [option_map].
    + destruct (Nat.leb_spec sz r) as [L|L].
      * destruct (N.leb_spec (N.of_nat sz) (N.of_nat r)); [|lia].
        destruct (IH (Some (r - sz)%nat) fed d W F B Hrest) as (d' & E & SM). cbn [option_map] in E.
        replace (N.of_nat (r - sz)) with (N.of_nat r - N.of_nat sz) in E by lia. exists d'. split; assumption.
      * destruct (N.leb_spec (N.of_nat sz) (N.of_nat r)); [lia|]. apply (GO r). lia.
    + destruct (GO 0%nat ltac:(lia)) as (d' & E & SM). exists d'. split; [exact E| exact SM].
Qed.


Lemma read_n_mod (m : mem) : wf m -> forall len a, (4 <= len)%nat ->
  read_n m a len mod 4294967296 = m a + 256 * m (a + 1) + 65536 * m (a + 2) + 16777216 * m (a + 3).
Proof.
  intros W len a H. destruct len as [|[|[|[|k]]]]; try lia. cbn [read_n].
  replace (a + 1 + 1) with (a + 2) by lia. replace (a + 2 + 1) with (a + 3) by lia.
  pose proof (W a). pose proof (W (a + 1)). pose proof (W (a + 2)). pose proof (W (a + 3)).
  set (r := read_n m (a + 3 + 1) k).
  replace (m a + 256 * (m (a + 1) + 256 * (m (a + 2) + 256 * (m (a + 3) + 256 * r))))
    with ((m a + 256 * m (a + 1) + 65536 * m (a + 2) + 16777216 * m (a + 3)) + r * 4294967296) by lia.
  rewrite N.mod_add by discriminate. apply N.mod_small. lia.
Qed.

Lemma le32_region d m i len : (4 <= len)%nat ->
  le32 (region d m i len) = dmem d (base m i + DATA_REGION_OFFSET) + 256 * dmem d (base m i + DATA_REGION_OFFSET + 1)
     + 65536 * dmem d (base m i + DATA_REGION_OFFSET + 2) + 16777216 * dmem d (base m i + DATA_REGION_OFFSET + 3).
Proof.
  intros H. unfold le32, region.
  assert (NTH : forall k, (k < len)%nat -> nth k (map (fun k0 : nat => dmem d (base m i + DATA_REGION_OFFSET + N.of_nat k0)) (seq 0 len)) 0
            = dmem d (base m i + DATA_REGION_OFFSET + N.of_nat k)).
  { intros k Hk. rewrite (nth_indep _ 0 (dmem d (base m i + DATA_REGION_OFFSET + N.of_nat 0))) by (rewrite map_length, seq_length; exact Hk).
    rewrite (map_nth (fun k0 : nat => dmem d (base m i + DATA_REGION_OFFSET + N.of_nat k0))). rewrite seq_nth by exact Hk. reflexivity. }
  rewrite !NTH by lia. cbn [N.of_nat Pos.of_succ_nat Pos.succ]. rewrite N.add_0_r. reflexivity.
Qed.

(* [Mgr.crc_valid] on a fault-free flash decides exactly [Crc.crc_valid] of the slot's data-region bytes and leaves the medium as it was *)
Theorem crc_valid_on_flash m i h d len : wf (dmem d) -> dfail d = None ->
  1 <= Slots.hsize h -> Slots.hcount h <= MAX_SEGMENTS -> Slots.hsize h <= MAX_SEGMENT_SIZE ->
  (68 <= len)%nat -> (N.to_nat (Slots.hcount h) * N.to_nat (Slots.hsize h) <= len)%nat ->
  base m i + DATA_REGION_OFFSET + N.of_nat len <= dtotal d ->
  exists d', Mgr.crc_valid m i h d
             = (d', if Crc.crc_valid (region d m i len) (N.to_nat (Slots.hsize h)) (N.to_nat (Slots.hcount h)) then ROk tt else RErr MCrc32Mismatch)
             /\ same_medium d d'.
Proof.
  intros W F Hs Hc Hm L68 Lfit B. unfold Mgr.crc_valid.
  destruct (N.ltb_spec MAX_SEGMENTS (Slots.hcount h)); [lia|]. destruct (N.ltb_spec MAX_SEGMENT_SIZE (Slots.hsize h)); [lia|].
  destruct (d_read_ok d (base m i + DATA_REGION_OFFSET) (CRC32_SIZE + SIGNATURE_SIZE) F) as (d1 & R & SM).
  { unfold CRC32_SIZE, SIGNATURE_SIZE in *. lia. }
  rewrite R. destruct SM as (M1 & M2 & M3 & M4).
  set (sz := N.to_nat (Slots.hsize h)). set (n := N.to_nat (Slots.hcount h)).
  destruct (crc_segments_is_loop m i sz len ltac:(unfold sz; lia) (seq 0 n) (Some PREFIX) [] d1) as (d2 & E & SM2).
  { rewrite M1; exact W. } { congruence. } { rewrite M3; exact B. }
  { intros idx Hin. apply in_seq in Hin. fold n sz in Lfit. nia. }
  cbn [option_map crc_raw fold_left] in E. unfold sz in E at 1. rewrite N2Nat.id in E.
  change (N.of_nat PREFIX) with (CRC32_SIZE + SIGNATURE_SIZE) in E. change (crc_raw 0 []) with 0 in E. rewrite E.
  assert (RG : region d1 m i len = region d m i len) by (unfold region; rewrite M1; reflexivity). rewrite RG.
  exists d2. split; [|apply (same_medium_trans d d1 d2); [repeat split; assumption| exact SM2]].
  unfold Crc.crc_valid, crc_fed, crc32_cksum. rewrite le32_region by lia.
  unfold read. rewrite read_n_mod; [|exact W| unfold CRC32_SIZE, SIGNATURE_SIZE; lia].
  match goal with |- context [if ?c then _ else _] => destruct c end; reflexivity.
Qed.
Print Assumptions crc_segments_is_loop.
Print Assumptions crc_valid_on_flash.
