(* Extraction of the executable models for the correspondence check.
   ExtrOcamlBasic only: bool, option, list, prod, unit, sumbool mapped to OCaml's;
   N, Z, positive, nat stay the extracted inductive types (no Extract Constant). *)
Require Import Layout MRecon Recon.
Require Extraction.
Require Import ExtrOcamlBasic.
Separate Extraction
  Layout.parse Layout.encode Layout.total_status Layout.apply_mark Layout.legal Layout.mark_field
  MRecon.run_case Recon.run Recon.init.
