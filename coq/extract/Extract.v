(* Extraction of the executable models for the correspondence check.
   ExtrOcamlBasic only: bool, option, list, prod, unit, sumbool mapped to OCaml's;
   N, Z, positive, nat stay the extracted inductive types (no Extract Constant). *)
Require Import Layout MRecon Recon Mgr Updater Lfdbt Adapt V1 Orig.
Require Extraction.
Require Import ExtrOcamlBasic.
Separate Extraction
  Layout.parse Layout.encode Layout.total_status Layout.apply_mark Layout.legal Layout.mark_field
  MRecon.run_case Recon.run Recon.init
  Mgr.start_update Mgr.handle_segment Mgr.check_and_mark_done Mgr.try_recover Mgr.cancel_all_ext_pending
  Mgr.bl_boot_status Mgr.fallback_firmware Mgr.is_valid_firmware Mgr.mark Mgr.load_headers
  Mgr.crash_mem Mgr.blank_dev Mgr.with_mem Mgr.arm_fail Mgr.clear_flags Mgr.reset_rh Mgr.poke Mgr.received Mgr.total Mgr.orig_check_crc
  Updater.run_session Lfdbt.rows_for
  Adapt.data_store Adapt.data_get Adapt.parity_store Adapt.parity_get Adapt.matrix_set_row Adapt.matrix_row Adapt.matrix_num_rows
  Adapt.fresh_dev Adapt.w_erase
  V1.v1_handle V1.v1_done V1.naive_start V1.naive_recover Orig.orig_start Orig.orig_app_boot_status Orig.orig_bl_boot_status Orig.orig_cancel.
