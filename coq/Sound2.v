From Coq Require Import List NArith ZArith Arith Bool Lia.
Require Import Slots SlotsProof RingA Exact RingB Recover Idem Boot Life Life2 Life3 Life4 Life5 Sound.
Import ListNotations.

Lemma seqat_upd sl i h h' j : hd_at sl i h -> hseq h' = hseq h -> seqat (setnth sl i (Some h')) j = seqat sl j.
Proof.
  intros Hh Hs. rewrite seqat_setnth. destruct (Nat.eqb_spec j i) as [->|]; [|reflexivity].
  pose proof (hd_at_lt _ _ _ Hh) as L. destruct (Nat.ltb_spec i (length sl)); [|lia]. cbn. rewrite Hs. symmetry. apply seqat_hd. exists h. auto.
Qed.

Lemma filter_all {A} (f : A -> bool) l : (forall x, In x l -> f x = true) -> filter f l = l.
Proof. induction l as [|a l IH]; intros H; [reflexivity|]. cbn. rewrite (H a (or_introl eq_refl)). f_equal. apply IH. intros x Hx. apply H. right; exact Hx. Qed.

Section Pres.
Variable NS : nat.
Hypothesis HN : (4 <= NS)%nat.

(* a status change at slot i that keeps number and kind, does not yield an in-progress header, keeps "confirmed" *)
Lemma JS_upd sl st i h h' : JS NS sl st -> hd_at sl i h -> hseq h' = hseq h -> hkind h' = hkind h -> ~ awip h' ->
  (is_confirmed h = true -> is_confirmed h' = true) -> JS NS (setnth sl i (Some h')) (dropS i st).
Proof.
  intros J Hh Hs Hk Na Mc. pose proof (hd_at_lt _ _ _ Hh) as L.
  assert (SQ : forall j, seqat (setnth sl i (Some h')) j = seqat sl j) by (intros j; apply (seqat_upd sl i h h' j Hh Hs)).
  assert (HD : forall j x, j <> i -> (hd_at (setnth sl i (Some h')) j x <-> hd_at sl j x)).
  { intros j x NE. rewrite hd_at_set. destruct (Nat.eqb_spec j i); [contradiction| reflexivity]. }
  assert (HI : hd_at (setnth sl i (Some h')) i h') by (apply hd_at_set; rewrite Nat.eqb_refl; auto).
  constructor.
  - apply (reach_sub NS sl); [apply J|]. split; [apply setnth_length|]. intros k s. now rewrite SQ.
  - intros [f p] Hin. apply in_dropS in Hin. destruct Hin as (Hin & Nf & Np).
    destruct (JS_pairs _ _ _ J (f, p) Hin) as (hf & hp & A & B & R). cbn [fst snd] in *. exists hf, hp. cbn [fst snd].
    split; [apply HD; assumption|]. split; [apply HD; assumption| exact R].
  - intros q hp Hq Kq Aq. destruct (Nat.eq_dec q i) as [->|NE].
    { exfalso. apply Na. unfold hd_at in Hq, HI. rewrite HI in Hq. inversion Hq; subst. exact Aq. }
    apply HD in Hq; [|exact NE]. destruct (JS_par _ _ _ J q hp Hq Kq Aq) as [A|[B|C]].
    + left. destruct A as (f & hf & Hf & Sf & Kf & Inf). destruct (Nat.eq_dec f i) as [->|Nf].
      * exists i, h'. rewrite (hd_at_fun _ _ _ _ Hf Hh) in *. split; [exact HI|]. split; [now rewrite Hs|]. split; [now rewrite Hk|]. intros C; contradiction.
      * exists f, hf. split; [apply HD; assumption|]. split; [exact Sf|]. split; [exact Kf|]. intros Af. apply in_dropS. auto.
    + right; left. intros j sj. rewrite SQ. apply B.
    + right; right. destruct C as (top & (t & St) & Mx & Eq & (x & sx & Sx & Ex) & Ny & (c & hc & Hc & Cc & Ec)).
      exists top. rewrite setnth_length. split; [exists t; now rewrite SQ|]. split; [intros j sj; rewrite SQ; apply Mx|]. split; [exact Eq|].
      split; [exists x, sx; rewrite SQ; auto|]. split; [intros y sy; rewrite SQ; apply Ny|].
      destruct (Nat.eq_dec c i) as [->|Nc].
      * exists i, h'. rewrite (hd_at_fun _ _ _ _ Hc Hh) in *. split; [exact HI|]. split; [apply Mc; exact Cc| now rewrite Hs].
      * exists c, hc. split; [apply HD; assumption| auto].
Qed.

Lemma dropS_noop sl st i h : JS NS sl st -> hd_at sl i h -> ~ awip h -> dropS i st = st.
Proof.
  intros J Hh Na. unfold dropS. apply filter_all. intros [f p] Hin. cbn [fst snd].
  destruct (JS_pairs _ _ _ J (f, p) Hin) as (hf & hp & A & B & Af & Ap & _). cbn [fst snd] in *.
  destruct (Nat.eqb_spec f i) as [->|]; [rewrite (hd_at_fun _ _ _ _ A Hh) in Af; contradiction|].
  destruct (Nat.eqb_spec p i) as [->|]; [rewrite (hd_at_fun _ _ _ _ B Hh) in Ap; contradiction| reflexivity].
Qed.

Variable fits : N -> N -> bool.

Lemma awip_inprogress h : awip h -> ext_inprogress h = true.
Proof. unfold awip, total_status, ext_inprogress. destruct (hext h), (hint h), (hboot h); try discriminate; reflexivity. Qed.

Lemma derives_sub sl' sl : length sl' = length sl -> derives sl' sl -> sub sl' sl.
Proof.
  intros L D. split; [exact L|]. intros i s Hs. apply seqat_hd in Hs. destruct Hs as (h & Hh & <-).
  destruct (D i h Hh) as (h0 & A0 & E0). apply seqat_hd. exists h0. split; [exact A0| exact E0].
Qed.

(* one whole call of try_recover *)
Theorem JS_recover sl st r sl' : JS NS sl st -> try_recover fits sl = (r, sl') ->
  JS NS sl' (match r with Some fp => [fp] | None => [] end).
Proof.
  intros J E. destruct r as [[f p]|].
  - pose proof (recover_sound NS HN fits sl st f p sl' J E) as Inst.
    assert (EX : forall i h, hd_at sl' i h -> ext_inprogress h = true -> i = f \/ i = p) by (intros i h; apply (recover_some_exclusive fits sl f p sl' i h E)).
    unfold try_recover in E. destruct (recover_inner fits sl) as [[[f0 p0]|] s0] eqn:R; inversion E; subst f0 p0 s0. clear E.
    destruct (recover_newest_pair fits sl f p sl' (reach_distinct NS HN sl (JS_reach _ _ _ J)) R) as [-> _].
    assert (KEEP : forall i h, (i = f \/ i = p) -> (hd_at (remediate p f sl) i h <-> hd_at sl i h)).
    { intros i h Hi. unfold hd_at. rewrite nth_error_remediate. destruct (nth_error sl i) as [o|]; [|tauto].
      assert (B : Nat.eqb i p || Nat.eqb i f = true) by (destruct Hi as [->| ->]; rewrite Nat.eqb_refl; [apply orb_true_r| reflexivity]). rewrite B. tauto. }
    destruct (JS_pairs _ _ _ J (f, p) Inst) as (hf & hp & A & B & Af & Ap & Kf & Kp & Sq). cbn [fst snd] in *.
    constructor.
    + apply (reach_sub NS sl); [apply J|]. apply derives_sub; [unfold remediate; now rewrite map_length, combine_length, seq_length, Nat.min_id| apply remediate_derives].
    + intros fp [<-|[]]. exists hf, hp. cbn [fst snd]. split; [apply KEEP; auto|]. split; [apply KEEP; auto|]. auto.
    + intros q hq Hq Kq Aq. destruct (EX q hq Hq (awip_inprogress _ Aq)) as [->| ->].
      * apply KEEP in Hq; [|auto]. rewrite (hd_at_fun _ _ _ _ Hq A) in Kq. congruence.
      * apply KEEP in Hq; [|auto]. rewrite (hd_at_fun _ _ _ _ Hq B). left. exists f, hf. split; [apply KEEP; auto|]. split; [now rewrite Sq|]. split; [exact Kf|]. intros _. left; reflexivity.
  - unfold try_recover in E. destruct (recover_inner fits sl) as [[[f0 p0]|] s0] eqn:R; inversion E; subst sl'. clear E.
    constructor.
    + apply (reach_sub NS sl); [apply J|]. apply derives_sub; [unfold cancel_all; now rewrite map_length| apply cancel_derives].
    + intros fp [].
    + intros q hq Hq Kq Aq. exfalso. apply cancel_clears in Hq. rewrite (awip_inprogress _ Aq) in Hq. discriminate.
Qed.
End Pres.
Print Assumptions JS_recover.
