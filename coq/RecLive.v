(* C07 on the executable model: after start_update and ANY sequence of handle_segment calls that all return Ok and leave the
   session incomplete, the loaders that try_recover_inner runs (status-table scan, diagonal probe of every row) return
   exactly the done / used bits of the live session. *)
From Coq Require Import List NArith ZArith Arith Bool Lia.
Require Import Consts Nor Geom.
Require Store GRecon Sim Bridge Roundtrip Recon.
Require Import MRecon Mgr MSim MgrSim StartSim RecTie.
Import ListNotations.
Open Scope N_scope.

(* ---------- the pure reconstructor keeps any store predicate that its three put operations keep ---------- *)
Section Inv.
Context {T : Type} (J : G.sto T) (Q : T -> Prop).
Hypothesis Qd : forall t i b, Q t -> Q (G.dput J t i b).
Hypothesis Qp : forall t i b, Q t -> Q (G.pput J t i b).
Hypothesis Qm : forall t i b, Q t -> Q (G.mput J t i b).

Lemma G_elim_inv : forall wh s r d, Q (G.store s) -> Q (G.store (G.elim J s wh r d)).
Proof.
  induction wh as [|k IH]; intros s r d H; cbn [G.elim].
  - destruct (G.bit r 0); [|exact H]. destruct (G.used s 0); [exact H|]. cbn [G.store]. apply Qm, Qp, H.
  - destruct (G.bit r (S k)); [|apply IH; exact H]. destruct (G.used s (S k)); [apply IH; exact H|]. cbn [G.store]. apply Qm, Qp, H.
Qed.
Lemma G_finish_inv : forall is s, Q (G.store s) -> Q (G.store (fold_left (G.finish_row J) is s)).
Proof.
  induction is as [|i tl IH]; intros s H; cbn [fold_left]; [exact H|]. apply IH. unfold G.finish_row. cbn [G.store]. apply Qd, H.
Qed.
Lemma G_handle_block_inv P cap vbits s idx b : Q (G.store s) -> Q (G.store (fst (G.handle_block J P cap vbits s idx b))).
Proof.
  intros H. unfold G.handle_block. destruct (G.is_complete s); [exact H|]. cbv zeta.
  match goal with |- context [if ?c then (s, G.TooManyMissing) else _] => destruct c end; [exact H|].
  cbn [G.l]. match goal with |- context [if Nat.eqb ?x 0 then _ else _] => destruct (Nat.eqb x 0) end.
  - cbn [fst G.done]. destruct (G.done s idx); cbn [G.store]; [exact H| apply Qd, H].
  - match goal with |- context [G.is_complete ?s2] => destruct (G.is_complete s2) end; cbn [fst].
    + unfold G.finish. apply G_finish_inv, G_elim_inv. exact H.
    + apply G_elim_inv. exact H.
Qed.
Lemma grun_inv P cap vbits : forall bl s, Q (G.store s) -> Q (G.store (fst (Bridge.grun J P cap vbits s bl))).
Proof.
  induction bl as [|[i b] tl IH]; intros s H; cbn [Bridge.grun fst]; [exact H|].
  pose proof (G_handle_block_inv P cap vbits s i b H) as H1.
  destruct (G.handle_block J P cap vbits s i b) as [s1 r]. cbn [fst] in H1. specialize (IH s1 H1).
  destruct (Bridge.grun J P cap vbits s1 tl) as [s2 rs]. exact IH.
Qed.
End Inv.

Lemma flash_sto_wf g P cap vbits bl s : wf (G.store s) -> wf (G.store (fst (Bridge.grun (Sim.flash_sto g) P cap vbits s bl))).
Proof.
  apply grun_inv; intros t i b H; cbn [G.dput G.pput G.mput Sim.flash_sto GRecon.dput GRecon.pput GRecon.mput];
    unfold Store.c_dstore, Store.c_pstore, Store.c_mset; repeat apply program_wf; exact H.
Qed.

(* ---------- start_update keeps the medium well-formed (every cell below 256) ---------- *)
Lemma d_prog_wf d a len v d' r : wf (dmem d) -> d_prog d a len v = (d', r) -> wf (dmem d').
Proof.
  intros W H. unfold d_prog in H. destruct (dtotal d <? a + len); [inversion H; subst; exact W|].
  unfold tick in H. destruct (match dfail d with Some k => k =? dops d | None => false end); inversion H; subst; cbn; [exact W| apply program_wf; exact W].
Qed.
Lemma d_erase_wf d a d' r : wf (dmem d) -> d_erase d a = (d', r) -> wf (dmem d').
Proof.
  intros W H. unfold d_erase in H. destruct (negb _); [inversion H; subst; exact W|]. destruct (_ || _); [inversion H; subst; exact W|].
  unfold tick in H. destruct (match dfail d with Some k => k =? dops d | None => false end); inversion H; subst; cbn; [exact W| apply erase_wf; exact W].
Qed.
Lemma erase_blocks_wf : forall k a d d' r, wf (dmem d) -> erase_blocks k a d = (d', r) -> wf (dmem d').
Proof.
  induction k as [|k IH]; intros a d d' r W H; cbn [erase_blocks] in H; [inversion H; subst; exact W|].
  destruct (d_erase d a) as [d1 [|]] eqn:E; [eapply IH; [eapply d_erase_wf; eassumption| exact H]| inversion H; subst; eapply d_erase_wf; eassumption].
Qed.
Lemma clear_wf m i d d' r : wf (dmem d) -> clear m i d = (d', r) -> wf (dmem d').
Proof.
  intros W H. unfold clear in H. destruct (_ || _); [inversion H; subst; exact W|].
  destruct (erase_blocks _ _ d) as [d1 [|]] eqn:E; inversion H; subst; eapply erase_blocks_wf; eassumption.
Qed.
Lemma prog_word_wf m i off v d d' r : wf (dmem d) -> prog_word m i off v d = (d', r) -> wf (dmem d').
Proof.
  intros W H. unfold prog_word in H. destruct (d_prog d (base m i + off) 4 v) as [d1 [|]] eqn:E; inversion H; subst; eapply d_prog_wf; eassumption.
Qed.
Lemma set_layout_wf m i c z d d' r : wf (dmem d) -> set_layout m i c z d = (d', r) -> wf (dmem d').
Proof.
  intros W H. unfold set_layout in H. destruct (_ <? _); [inversion H; subst; exact W|].
  destruct (prog_word m i NUMBER_OF_SEGMENTS_OFFSET c d) as [d1 [[]|e|]] eqn:E; [eapply prog_word_wf; [eapply prog_word_wf; eassumption| exact H]| |];
    inversion H; subst; eapply prog_word_wf; eassumption.
Qed.

Lemma start_update_wf m sz cnt d d' u : dfail d = None -> wf (dmem d) -> start_update m sz cnt d = (d', ROk u) -> wf (dmem d').
Proof.
  intros F W H. unfold start_update in H. destruct (reasonably_sized m sz cnt); [discriminate|].
  destruct (alloc_slotpair m d) as [d1 [[a b]|e|]] eqn:AL; try discriminate.
  assert (W1 : wf (dmem d1)).
  { unfold alloc_slotpair in AL. destruct (load_headers m d) as [d0 [hs|]] eqn:LH; [|discriminate].
    destruct (load_headers_from_ok m _ _ _ _ F LH) as (_ & M0 & _).
    destruct (alloc_fixed hs) as [[[[a0 b0] s1] s2]|]; [|discriminate].
    destruct (clear m b0 d0) as [c1 [[]|e|]] eqn:C1; try discriminate.
    destruct (clear m a0 c1) as [c2 [[]|e|]] eqn:C2; try discriminate.
    destruct (prog_word m a0 SEQUENCE_NUMBER_OFFSET s1 c2) as [c3 [[]|e|]] eqn:Q1; try discriminate.
    destruct (prog_word m b0 SEQUENCE_NUMBER_OFFSET s2 c3) as [c4 [[]|e|]] eqn:Q2; try discriminate.
    inversion AL; subst.
    eapply prog_word_wf; [|exact Q2]. eapply prog_word_wf; [|exact Q1]. eapply clear_wf; [|exact C2]. eapply clear_wf; [|exact C1]. rewrite M0. exact W. }
  destruct (prog_word m a KIND_OFFSET KIND_FIRMWARE d1) as [d2 [[]|e|]] eqn:P1; try discriminate.
  destruct (set_layout m a cnt sz d2) as [d3 [[]|e|]] eqn:L1; try discriminate.
  destruct (prog_word m b KIND_OFFSET KIND_PARITY d3) as [d4 [[]|e|]] eqn:P2; try discriminate.
  destruct (set_layout m b (max_l (m_size m) sz) sz d4) as [d5 [[]|e|]] eqn:L2; try discriminate.
  inversion H; subst.
  eapply set_layout_wf; [|exact L2]. eapply prog_word_wf; [|exact P2]. eapply set_layout_wf; [|exact L1]. eapply prog_word_wf; [|exact P1]. exact W1.
Qed.

(* ---------- the theorem ---------- *)
Theorem recovery_loaders_read_live_state m sz cnt (checked ffr : bool) segs d d1 u d' u' outs :
  (2 <= m_slots m)%nat -> m_size m - DATA_REGION_OFFSET < 4294967295 -> dfail d = None -> wf (dmem d) ->
  start_update m sz cnt d = (d1, ROk u) ->
  Forall (fun p => snd p < 2 ^ (8 * sz)) segs ->
  feed m checked ffr u d1 segs = Some (d', u', outs) ->
  is_complete (u_rd u') = false ->
  let g := geo_of m (u_fw u) (u_par u) sz cnt in
  (forall d2 dn, load_status (S (N.to_nat (cnt / MAX_SEGMENT_SIZE))) m (u_fw u) 0 cnt (fun _ => false) d' = (d2, Some dn) ->
     dmem d2 = dmem d' /\ forall i, (i < n (u_rd u'))%nat -> dn i = done (u_rd u') i) /\
  (forall d2 us, load_used m (u_par u) (Store.capL g * sz) (seq 0 (u_maxl u)) (fun _ => false) d' = (d2, Some us) ->
     dmem d2 = dmem d' /\ forall k, (k < u_maxl u)%nat -> us k = used (u_rd u') k).
Proof.
  intros HN HS F W ST HB FD NC g.
  destruct (start_update_establishes m sz cnt d d1 u HN HS F ST) as (WG & Hr & Hm & Ho & Hc & F1 & Ea & Eb). fold g in WG, Hm, Ho.
  pose proof (start_update_wf m sz cnt d d1 u F W ST) as W1.
  assert (R0 : Rst sz (mkf d1 (u_cache u)) (dmem d1)) by (repeat split; [exact F1| exact Hc]).
  destruct (feed_is_grun m (u_fw u) (u_par u) sz cnt (N.to_nat (Store.capL g)) checked ffr segs u d1 (dmem d1) d' u' outs eq_refl eq_refl ltac:(rewrite Hr; reflexivity) Hm Ho R0 FD)
    as (mm' & grs & E & (F' & C' & ME) & _ & _).
  rewrite Hr in E. cbn [rinit n] in E. change (geo_of m (u_fw u) (u_par u) sz cnt) with g in E.
  (* the invariants of the paired run *)
  assert (He : forall x, (Store.fw g + HEADER_SIZE <= x < Store.fw g + Store.ssize g \/ Store.pa g + HEADER_SIZE <= x < Store.pa g + Store.ssize g) -> dmem d1 x = 255).
  { intros x [Hx|Hx]; [apply Ea| apply Eb]; exact Hx. }
  destruct (Bridge.init_pair_next g (dmem d1) WG He) as [P0 N0]. cbv zeta in P0, N0. cbn [g geo_of Store.nseg Store.sz] in P0, N0. fold g in P0, N0.
  assert (HB' : Forall (fun p => snd p < Sim.B g) (map conv segs)).
  { clear - HB. induction HB as [|p tl Hp HB IH]; cbn [map]; constructor; [exact Hp| exact IH]. }
  pose proof (Bridge.lockstep_next g (updater_row ffr (N.to_nat cnt)) (N.to_nat (Store.capL g)) 2048 WG ltac:(lia) (map conv segs) _ _ P0 N0 HB') as LS.
  change (GRecon.mkg (N.to_nat cnt) 0 sz (fun _ : nat => false) (fun _ : nat => false) (dmem d1)) with (emb (rinit (N.to_nat cnt) sz) (dmem d1)) in LS.
  pose proof (flash_sto_wf g (updater_row ffr (N.to_nat cnt)) (N.to_nat (Store.capL g)) 2048 (map conv segs) (emb (rinit (N.to_nat cnt) sz) (dmem d1)) W1) as WF'.
  rewrite E in LS, WF'. cbn [fst emb GRecon.store] in WF'.
  destruct (Bridge.grun Sim.map_sto (updater_row ffr (N.to_nat cnt)) (N.to_nat (Store.capL g)) 2048 _ (map conv segs)) as [a' rsa].
  destruct LS as (P' & N' & _).
  assert (G' : Sim.Good g a' 0).
  { destruct N' as [C|[G' _]]; [|exact G'].
    rewrite <- (Sim.is_complete_pair g a' _ P') in C. change (GRecon.is_complete (emb (u_rd u') mm')) with (is_complete (u_rd u')) in C. congruence. }
  destruct (Roundtrip.recover_roundtrip g a' _ P' G') as [RD RU]. cbn [emb GRecon.store] in RD, RU.
  assert (Wd' : wf (dmem d')) by (intros x; rewrite ME; apply WF').
  assert (Hn' : GRecon.n a' = n (u_rd u')) by (rewrite <- (Sim.P_n g a' _ P'); reflexivity).
  assert (Hcnt : N.of_nat (n (u_rd u')) = cnt) by (rewrite <- Hn'; exact (Sim.G_n g a' 0 G')).
  split.
  - intros d2 dn LD. destruct (load_status_is_rec_done m (u_fw u) (u_par u) sz cnt d' d2 dn cnt Wd' F' LD) as [M S]. split; [exact M|].
    intros i Hi. rewrite S. replace (N.of_nat i <? cnt) with true by (symmetry; apply N.ltb_lt; lia). cbn [andb].
    unfold Roundtrip.rec_done. fold g. rewrite ME. change (Roundtrip.rec_done g mm' i = done (u_rd u') i).
    rewrite (RD i ltac:(lia)). symmetry. exact (Sim.P_done g a' _ P' i).
  - intros d2 us LD. destruct (load_used_is_rec_used m (u_fw u) (u_par u) sz cnt d' d2 us (u_maxl u) F' LD) as [M S]. split; [exact M|].
    intros k Hk. rewrite (S k Hk). unfold Roundtrip.rec_used, Store.mused. fold g. rewrite ME. change (Roundtrip.rec_used g mm' k = used (u_rd u') k).
    rewrite (RU k ltac:(lia)). symmetry. exact (Sim.P_used g a' _ P' k).
Qed.

Print Assumptions recovery_loaders_read_live_state.
