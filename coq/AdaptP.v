(* The executable data adapter (Adapt.v) performs exactly the three word programs of the proved model (Adapters.v). *)
From Coq Require Import List NArith Arith Bool Lia.
Require Import Adapters Adapt.
Import ListNotations.
Open Scope N_scope.

Lemma w_write_mem d a bs d' : w_write d a bs = (d', true) -> wm d' = Adapt.programl (wm d) a bs.
Proof.
  unfold w_write. destruct (negb _); [discriminate|]. destruct (wcap d <? _); [discriminate|].
  intros H. inversion H. reflexivity.
Qed.

Lemma d_split_eq W start i L : d_split start W i L =
  ((Adapters.ts start L i - Adapters.so W start L i, Adapters.head_len W start L i),
   (Adapters.ts start L i + N.of_nat (Adapters.head_len W start L i), Adapters.body_len W start L i),
   (Adapters.ts start L i + N.of_nat (Adapters.head_len W start L i) + N.of_nat (Adapters.body_len W start L i), Adapters.tail_len W start L i)).
Proof. reflexivity. Qed.

Theorem data_store_is_store start d i data d' :
  1 <= wW d -> data_store start d i data = (d', AOk tt) ->
  forall x, wm d' x = Adapters.store (wW d) start (length data) (wm d) i data x.
Proof.
  intros HW H x. unfold data_store in H.
  destruct (N.ltb_spec (N.of_nat (length data)) (wW d)) as [|HL]; [discriminate|].
  rewrite d_split_eq in H.
  destruct (Adapters.split_lens (wW d) start (length data) HW HL i) as [S1 S2].
  set (W := wW d) in *. set (L := length data) in *.
  remember (Adapters.head_len W start L i) as hl. remember (Adapters.body_len W start L i) as bl. remember (Adapters.tail_len W start L i) as tl.
  assert (Hso : Adapters.so W start L i < W) by (unfold Adapters.so; apply N.mod_lt; lia).
  assert (Heo : Adapters.eo W start L i < W) by (unfold Adapters.eo; apply N.mod_lt; lia).
  assert (Hte : Adapters.te start L i = Adapters.ts start L i + N.of_nat L) by (unfold Adapters.te, Adapters.ts; lia).
  assert (Hhl : hl = if Adapters.so W start L i =? 0 then 0%nat else N.to_nat (W - Adapters.so W start L i)) by (rewrite Heqhl; unfold Adapters.head_len; reflexivity).
  assert (Htl : tl = if Adapters.eo W start L i =? 0 then 0%nat else N.to_nat (Adapters.eo W start L i)) by (rewrite Heqtl; unfold Adapters.tail_len; reflexivity).
  unfold Adapters.store, Adapters.w_head, Adapters.w_body, Adapters.w_tail, Adapters.apply_w. cbn [fst snd].
  rewrite <- Heqhl, <- Heqbl.
  destruct (N.eqb_spec (Adapters.so W start L i) 0) as [Es|Es]; destruct (N.eqb_spec (Adapters.eo W start L i) 0) as [Ee|Ee].
  - rewrite Hhl, Htl in H. cbn [Nat.eqb] in H.
    destruct (w_write d _ _) as [d2 [|]] eqn:E2; [|discriminate]. inversion H; subst d'.
    rewrite (w_write_mem _ _ _ _ E2). rewrite ?Hhl, ?Htl. reflexivity.
  - rewrite Hhl in H. cbn [Nat.eqb] in H.
    destruct (w_write d _ _) as [d2 [|]] eqn:E2; [|discriminate].
    destruct (Nat.eqb_spec tl 0) as [Q|Q]; [exfalso; lia|].
    destruct (w_write d2 _ _) as [d3 [|]] eqn:E3; [|discriminate]. inversion H; subst d'.
    rewrite (w_write_mem _ _ _ _ E3), (w_write_mem _ _ _ _ E2). rewrite <- Hhl. unfold Adapt.ff, Adapters.ff.
    replace (Adapters.ts start L i + N.of_nat hl + N.of_nat bl) with (Adapters.te start L i - Adapters.eo W start L i) by lia.
    replace (N.to_nat W - tl)%nat with (N.to_nat (W - Adapters.eo W start L i)) by lia. reflexivity.
  - destruct (Nat.eqb_spec hl 0) as [Q|Q]; [exfalso; lia|].
    destruct (w_write d _ _) as [d1 [|]] eqn:E1; [|discriminate].
    destruct (w_write d1 _ _) as [d2 [|]] eqn:E2; [|discriminate].
    rewrite Htl in H. cbn [Nat.eqb] in H. inversion H; subst d'.
    rewrite (w_write_mem _ _ _ _ E2), (w_write_mem _ _ _ _ E1). unfold Adapt.ff, Adapters.ff.
    replace (N.to_nat W - hl)%nat with (N.to_nat (Adapters.so W start L i)) by lia. reflexivity.
  - destruct (Nat.eqb_spec hl 0) as [Q|Q]; [exfalso; lia|].
    destruct (w_write d _ _) as [d1 [|]] eqn:E1; [|discriminate].
    destruct (w_write d1 _ _) as [d2 [|]] eqn:E2; [|discriminate].
    destruct (Nat.eqb_spec tl 0) as [Q2|Q2]; [exfalso; lia|].
    destruct (w_write d2 _ _) as [d3 [|]] eqn:E3; [|discriminate]. inversion H; subst d'.
    rewrite (w_write_mem _ _ _ _ E3), (w_write_mem _ _ _ _ E2), (w_write_mem _ _ _ _ E1). unfold Adapt.ff, Adapters.ff.
    replace (N.to_nat W - hl)%nat with (N.to_nat (Adapters.so W start L i)) by lia.
    replace (Adapters.ts start L i + N.of_nat hl + N.of_nat bl) with (Adapters.te start L i - Adapters.eo W start L i) by lia.
    replace (N.to_nat W - tl)%nat with (N.to_nat (W - Adapters.eo W start L i)) by lia. reflexivity.
Qed.
