From Coq Require Import List NArith Arith Bool Lia Btauto.
Require Import Recon ReconProof.
Import ListNotations.
Open Scope N_scope.

Definition is_tmm (r : result) : bool := match r with TooManyMissing => true | _ => false end.
Definition is_done (r : result) : bool := match r with Done _ => true | _ => false end.

(* ---------- generalities on spans ---------- *)
Lemma in_span_gen K r : In r K -> in_span K r.
Proof. intros H. rewrite <- (N.lxor_0_r r). apply span_add; [exact H| apply span_zero]. Qed.

Lemma in_span_xor K a b : in_span K a -> in_span K b -> in_span K (N.lxor a b).
Proof.
  intros Ha Hb. induction Ha as [|r v Hr Hv IH]; [now rewrite N.lxor_0_l|].
  rewrite N.lxor_assoc. apply span_add; assumption.
Qed.

Lemma in_span_trans K K' v : (forall r, In r K -> in_span K' r) -> in_span K v -> in_span K' v.
Proof. intros H Hv. induction Hv as [|r v Hr Hv IH]; [apply span_zero| apply in_span_xor; [apply H; exact Hr| exact IH]]. Qed.

Lemma in_span_mono K K' v : incl K K' -> in_span K v -> in_span K' v.
Proof. intros H. apply in_span_trans. intros r Hr. apply in_span_gen, H, Hr. Qed.

Lemma in_span_map (f : N -> N) K v :
  f 0 = 0 -> (forall a b, f (N.lxor a b) = N.lxor (f a) (f b)) -> in_span K v -> in_span (map f K) (f v).
Proof. intros H0 Hl Hv. induction Hv as [|r v Hr Hv IH]; [rewrite H0; apply span_zero|]. rewrite Hl. apply span_add; [apply in_map; exact Hr| exact IH]. Qed.

(* bits *)
Definition e (i : nat) : N := N.shiftl 1 (N.of_nat i).
Lemma bit_e i j : bit (e i) j = Nat.eqb j i.
Proof. unfold bit, e. rewrite N.shiftl_1_l, N.pow2_bits_eqb. destruct (Nat.eqb_spec j i) as [->|Hne]; [apply N.eqb_refl| apply N.eqb_neq; lia]. Qed.
Lemma bit_0 j : bit 0 j = false. Proof. apply N.bits_0. Qed.
Lemma bits_inj_nat a b : (forall j, bit a j = bit b j) -> a = b.
Proof. intros H. apply N.bits_inj. intros k. specialize (H (N.to_nat k)). unfold bit in H. now rewrite N2Nat.id in H. Qed.

Definition below (v : N) (k : nat) : Prop := forall j, (k <= j)%nat -> bit v j = false.
Lemma lt_below v k : v < N.shiftl 1 (N.of_nat k) -> below v k.
Proof.
  intros H j Hj. unfold bit. destruct (N.eq_dec v 0) as [->|Hne]; [apply N.bits_0|].
  apply N.bits_above_log2. rewrite N.shiftl_1_l in H. apply N.log2_lt_pow2 in H; lia.
Qed.
Lemma below_lt v k : below v k -> v < N.shiftl 1 (N.of_nat k).
Proof.
  intros H. rewrite N.shiftl_1_l. destruct (N.eq_dec v 0) as [->|Hne]; [apply N.neq_0_lt_0, N.pow_nonzero; lia|].
  apply N.log2_lt_pow2; [lia|]. destruct (N.lt_ge_cases (N.log2 v) (N.of_nat k)) as [|C]; [assumption|].
  exfalso. specialize (H (N.to_nat (N.log2 v)) ltac:(lia)). unfold bit in H. rewrite N2Nat.id, N.bit_log2 in H by assumption. discriminate.
Qed.

(* every vector below k whose set bits are generators' units is in the span *)
Lemma span_bits K : forall k v, below v k -> (forall i, (i < k)%nat -> bit v i = true -> in_span K (e i)) -> in_span K v.
Proof.
  induction k as [|k IH]; intros v Hb Hg.
  - assert (v = 0) as -> by (apply bits_inj_nat; intros j; rewrite bit_0; apply Hb; lia). apply span_zero.
  - destruct (bit v k) eqn:Bk.
    + replace v with (N.lxor (e k) (N.lxor (e k) v)) by xor_ac.
      apply in_span_xor; [apply Hg; [lia| exact Bk]|]. apply IH.
      * intros j Hj. rewrite bit_lxor, bit_e. destruct (Nat.eqb_spec j k) as [->|Hne]; [now rewrite Bk| rewrite Hb by lia; reflexivity].
      * intros i Hi Bi. rewrite bit_lxor, bit_e in Bi. destruct (Nat.eqb_spec i k); [lia|]. apply Hg; [lia|]. now destruct (bit v i).
    + apply IH.
      * intros j Hj. destruct (Nat.eq_dec j k) as [->|Hne]; [exact Bk| apply Hb; lia].
      * intros i Hi Bi. apply Hg; [lia| exact Bi].
Qed.

(* ---------- project is linear ---------- *)
Lemma project_lxor s a b : project s (N.lxor a b) = N.lxor (project s a) (project s b).
Proof. apply bits_inj_nat. intros j. rewrite bit_lxor, !project_bit, bit_lxor. destruct (j <? missing s)%nat; reflexivity. Qed.
Lemma project_0 s : project s 0 = 0.
Proof. apply bits_inj_nat. intros j. rewrite project_bit, !bit_0. now destruct (j <? missing s)%nat. Qed.
Lemma project_below s v : below (project s v) (missing s).
Proof. intros j Hj. rewrite project_bit. destruct (Nat.ltb_spec j (missing s)); [lia| reflexivity]. Qed.
Lemma project_e_done s i : (i < n s)%nat -> done s i = true -> project s (e i) = 0.
Proof.
  intros Hi Hd. apply bits_inj_nat. intros j. rewrite project_bit, bit_0, bit_e.
  destruct (Nat.ltb_spec j (missing s)); [|reflexivity].
  destruct (Nat.eqb_spec (unk s j) i) as [E|]; [|reflexivity]. destruct (unk_spec s j H) as [_ Hu]. congruence.
Qed.
Lemma project_e_unk s m : (m < missing s)%nat -> project s (e (unk s m)) = e m.
Proof.
  intros Hm. apply bits_inj_nat. intros j. rewrite project_bit, !bit_e.
  destruct (Nat.ltb_spec j (missing s)).
  - destruct (Nat.eqb_spec (unk s j) (unk s m)) as [E|NE], (Nat.eqb_spec j m) as [E'|NE']; try reflexivity.
    + apply unk_inj in E; [contradiction| assumption| assumption].
    + subst j. contradiction.
  - destruct (Nat.eqb_spec j m); [lia| reflexivity].
Qed.

Definition UD (s : st) : list N := map e (filter (done s) (seq 0 (n s))).
Lemma UD_in s i : (i < n s)%nat -> done s i = true -> In (e i) (UD s).
Proof. intros. unfold UD. apply in_map, filter_In. split; [apply in_seq; lia| assumption]. Qed.

(* vectors with nothing on unknown positions are combinations of the units of stored blocks *)
Lemma zero_project_span s v : below v (n s) -> project s v = 0 -> in_span (UD s) v.
Proof.
  intros Hb Hp. apply (span_bits (UD s) (n s) v Hb). intros i Hi Bi.
  destruct (done s i) eqn:D; [apply in_span_gen, UD_in; assumption|].
  exfalso. destruct (unk_surj s i Hi D) as (j & Hj & <-).
  assert (bit (project s v) j = true) by (rewrite project_bit; destruct (Nat.ltb_spec j (missing s)); [exact Bi| lia]).
  rewrite Hp, bit_0 in H. discriminate.
Qed.

(* ---------- pivots: structure used by both directions ---------- *)
Definition Piv (s : st) : Prop :=
  forall m, (m < l s)%nat -> used s m = true -> exists r, mat s m = Some r /\ bit r m = true /\ (forall j, (m < j)%nat -> bit r j = false).

Lemma Inv_Piv X s : Inv X s -> Piv s.
Proof. intros HI m Hm Hu. destruct (I_piv X s HI m Hm Hu) as (r & p & H1 & _ & H3 & H4 & _). exists r. repeat split; assumption. Qed.

(* ghost witnesses: full-width vectors in the span whose projection is the stored pivot row *)
Definition Wit (s : st) (K : list N) (W : nat -> N) : Prop :=
  forall m, (m < l s)%nat -> used s m = true ->
    in_span K (W m) /\ below (W m) (n s) /\ mat s m = Some (project s (W m)).

(* complete (all pivots) => every reduced vector is the projection of something in the span *)
Lemma lift_all s K W : Piv s -> Wit s K W -> l s = missing s -> (forall m, (m < l s)%nat -> used s m = true) ->
  forall k, (k <= l s)%nat -> forall rho, below rho k -> exists u, in_span K u /\ below u (n s) /\ project s u = rho.
Proof.
  intros HP HW Hl Hall. induction k as [|k IH]; intros Hk rho Hb.
  - exists 0. split; [apply span_zero|]. split; [intros j _; apply bit_0|].
    rewrite project_0. apply bits_inj_nat. intros j. rewrite bit_0. symmetry. apply Hb. lia.
  - destruct (bit rho k) eqn:Bk.
    + destruct (HP k ltac:(lia) (Hall k ltac:(lia))) as (r & Hm & Hbk & Hhc).
      destruct (HW k ltac:(lia) (Hall k ltac:(lia))) as (Hs & Hbl & Hpr). rewrite Hm in Hpr. inversion Hpr as [Hr].
      destruct (IH ltac:(lia) (N.lxor rho r)) as (u & Hu1 & Hu2 & Hu3).
      { intros j Hj. rewrite bit_lxor. destruct (Nat.eq_dec j k) as [->|Hne]; [now rewrite Bk, Hbk|]. rewrite Hb, Hhc by lia. reflexivity. }
      exists (N.lxor u (W k)). split; [apply in_span_xor; assumption|]. split.
      * intros j Hj. rewrite bit_lxor, Hu2, Hbl by assumption. reflexivity.
      * rewrite project_lxor, Hu3, <- Hr. xor_ac.
    + apply IH; [lia|]. intros j Hj. destruct (Nat.eq_dec j k) as [->|Hne]; [exact Bk| apply Hb; lia].
Qed.

Theorem complete_full_rank X s K W :
  Inv X s -> (forall i, (i < n s)%nat -> done s i = true -> In (e i) K) ->
  (l s <> 0%nat -> Wit s K W) ->
  is_complete s = true -> full_rank K (n s).
Proof.
  intros HI HU HW EC v Hv. apply lt_below in Hv. unfold is_complete in EC.
  destruct (Nat.eqb_spec (l s) 0) as [E0|NE].
  - apply (span_bits K (n s) v Hv). intros i Hi _. apply in_span_gen, HU; [exact Hi|]. apply (forallb_seq_true _ _ EC i Hi).
  - destruct (I_l X s HI) as [|[Hl Hl1]]; [contradiction|].
    destruct (lift_all s K W (Inv_Piv X s HI) (HW NE) Hl (forallb_seq_true _ _ EC) (l s) (le_n _) (project s v)) as (u & Hu1 & Hu2 & Hu3).
    { rewrite Hl. apply project_below. }
    replace v with (N.lxor u (N.lxor u v)) by xor_ac. apply in_span_xor; [exact Hu1|].
    apply (in_span_trans (UD s)).
    + intros r Hr. unfold UD in Hr. apply in_map_iff in Hr. destruct Hr as (i & <- & Hi). apply filter_In in Hi. destruct Hi as [Hi Hd].
      apply in_seq in Hi. apply in_span_gen, HU; [lia| exact Hd].
    + apply zero_project_span.
      * intros j Hj. rewrite bit_lxor, Hu2, Hv by assumption. reflexivity.
      * rewrite project_lxor, Hu3. apply N.lxor_nilpotent.
Qed.

(* ---------- the converse: a missing pivot is a missing dimension ---------- *)
Lemma sumf_lxor L f g : sumf L (fun j => N.lxor (f j) (g j)) = N.lxor (sumf L f) (sumf L g).
Proof. induction L as [|a L IH]; cbn [sumf]; [reflexivity|]. rewrite IH. xor_ac. Qed.

Lemma sumf_single k m f : (m < k)%nat -> sumf (seq 0 k) (fun j => if Nat.eqb j m then f j else 0) = f m.
Proof.
  intros Hm. rewrite (seq_split3 m k Hm), sumf_app. cbn [sumf]. rewrite Nat.eqb_refl.
  rewrite (sumf_zero (seq 0 m)), (sumf_zero (seq (S m) (k - S m))).
  - xor_ac.
  - intros j Hj. apply in_seq in Hj. destruct (Nat.eqb_spec j m); [lia| reflexivity].
  - intros j Hj. apply in_seq in Hj. destruct (Nat.eqb_spec j m); [lia| reflexivity].
Qed.

Section Top.
Variable s : st.
Hypothesis HP : Piv s.
Definition G (m : nat) : N := if used s m then getb (mat s m) else 0.
Definition T (k : nat) (S : nat -> bool) : N := sumf (seq 0 k) (fun m => if S m then G m else 0).

Lemma G_spec m : (m < l s)%nat -> used s m = true -> bit (G m) m = true /\ forall j, (m < j)%nat -> bit (G m) j = false.
Proof. intros Hm Hu. unfold G. rewrite Hu. destruct (HP m Hm Hu) as (r & -> & H1 & H2). split; assumption. Qed.

Lemma T_top S : forall k, (k <= l s)%nat ->
  below (T k S) k /\
  (T k S = 0 \/ exists m, (m < k)%nat /\ used s m = true /\ bit (T k S) m = true).
Proof.
  induction k as [|k IH]; intros Hk.
  - split; [intros j _; apply bit_0| left; reflexivity].
  - destruct (IH ltac:(lia)) as [Hb Ht]. unfold T in *. rewrite seq_S, sumf_app. cbn [sumf plus]. rewrite N.lxor_0_r.
    destruct (S k && used s k) eqn:E.
    + apply andb_prop in E. destruct E as [ES EU]. rewrite ES. destruct (G_spec k ltac:(lia) EU) as [G1 G2]. split.
      * intros j Hj. rewrite bit_lxor, Hb, G2 by lia. reflexivity.
      * right. exists k. split; [lia|]. split; [exact EU|]. rewrite bit_lxor, Hb, G1 by lia. reflexivity.
    + assert (Hz : (if S k then G k else 0) = 0).
      { destruct (S k); [|reflexivity]. unfold G. cbn in E. now rewrite E. }
      rewrite Hz, N.lxor_0_r. split.
      * intros j Hj. apply Hb. lia.
      * destruct Ht as [Ht|(m & Hm & Hu & Hbm)]; [left; exact Ht| right; exists m; repeat split; [lia|assumption|assumption]].
Qed.

Lemma span_subset R rho :
  (forall g, In g R -> g = 0 \/ exists m, (m < l s)%nat /\ used s m = true /\ g = G m) ->
  in_span R rho -> exists S, rho = T (l s) S.
Proof.
  intros HR Hs. induction Hs as [|g v Hg Hv IH].
  - exists (fun _ => false). unfold T. symmetry. apply sumf_zero. reflexivity.
  - destruct IH as [S ->]. destruct (HR g Hg) as [->|(m & Hm & Hu & ->)].
    + exists S. apply N.lxor_0_l.
    + exists (fun j => xorb (S j) (Nat.eqb j m)). unfold T.
      rewrite <- (sumf_single (l s) m G Hm), <- sumf_lxor. apply sumf_ext. intros j _.
      destruct (S j), (Nat.eqb j m); cbn [xorb]; xor_ac.
Qed.

Lemma missing_pivot_not_spanned R m :
  (forall g, In g R -> g = 0 \/ exists m, (m < l s)%nat /\ used s m = true /\ g = G m) ->
  (m < l s)%nat -> used s m = false -> ~ in_span R (e m).
Proof.
  intros HR Hm Hu Hs. destruct (span_subset R (e m) HR Hs) as [S HS].
  destruct (T_top S (l s) (le_n _)) as [Hb [H0|(m' & Hm' & Hu' & Hbm)]].
  - rewrite <- HS in H0. assert (bit (e m) m = true) by (rewrite bit_e; apply Nat.eqb_refl). rewrite H0, bit_0 in H. discriminate.
  - rewrite <- HS, bit_e in Hbm. apply Nat.eqb_eq in Hbm. subst m'. congruence.
Qed.
End Top.

(* ---------- the ghost invariant relating the state to the accepted rows ---------- *)
Definition usedlist (s : st) : list nat := filter (used s) (seq 0 (l s)).
Definition Basis (s : st) (W : nat -> N) : list N := UD s ++ map W (usedlist s).

Record GInv (s : st) (K : list N) : Prop := {
  G_units : forall i, (i < n s)%nat -> done s i = true -> In (e i) K;
  G_below : forall k, In k K -> below k (n s);
  G_s1 : l s = 0%nat -> forall k, In k K -> in_span (UD s) k;
  G_s2 : l s <> 0%nat -> exists W, Wit s K W /\ forall k, In k K -> in_span (Basis s W) k
}.

Lemma span_bit_false R i v : (forall g, In g R -> bit g i = false) -> in_span R v -> bit v i = false.
Proof. intros H Hv. induction Hv as [|g v Hg Hv IH]; [apply bit_0|]. rewrite bit_lxor, (H g Hg), IH. reflexivity. Qed.

Theorem full_rank_complete X s K :
  Inv X s -> GInv s K -> full_rank K (n s) -> is_complete s = true.
Proof.
  intros HI HG HF. destruct (is_complete s) eqn:EC; [reflexivity|]. exfalso. unfold is_complete in EC.
  destruct (Nat.eqb_spec (l s) 0) as [E0|NE].
  - destruct (forallb_seq_false _ _ EC) as (i & Hi & Hd).
    assert (Hs : in_span K (e i)).
    { apply HF. apply below_lt. intros j Hj. rewrite bit_e. destruct (Nat.eqb_spec j i); [lia| reflexivity]. }
    apply (in_span_trans K (UD s)) in Hs; [|apply (G_s1 s K HG E0)].
    apply (span_bit_false (UD s) i) in Hs.
    + rewrite bit_e, Nat.eqb_refl in Hs. discriminate.
    + intros g Hg. unfold UD in Hg. apply in_map_iff in Hg. destruct Hg as (j & <- & Hj). apply filter_In in Hj. destruct Hj as [_ Hdj].
      rewrite bit_e. destruct (Nat.eqb_spec i j) as [->|]; [congruence| reflexivity].
  - destruct (forallb_seq_false _ _ EC) as (m & Hm & Hu).
    destruct (I_l X s HI) as [|[Hl Hl1]]; [contradiction|].
    destruct (G_s2 s K HG NE) as (W & HW & HB).
    assert (Hml : (m < missing s)%nat) by lia. destruct (unk_spec s m Hml) as [Hun Hud].
    assert (Hs : in_span K (e (unk s m))).
    { apply HF. apply below_lt. intros j Hj. rewrite bit_e. destruct (Nat.eqb_spec j (unk s m)); [lia| reflexivity]. }
    apply (in_span_trans K (Basis s W)) in Hs; [|exact HB].
    apply (in_span_map (project s)) in Hs; [|apply project_0| apply project_lxor].
    rewrite project_e_unk in Hs by exact Hml.
    revert Hs. apply (missing_pivot_not_spanned s (Inv_Piv X s HI)); [|exact Hm| exact Hu].
    intros g Hg. apply in_map_iff in Hg. destruct Hg as (b & <- & Hb). unfold Basis in Hb. apply in_app_or in Hb. destruct Hb as [Hb|Hb].
    + left. unfold UD in Hb. apply in_map_iff in Hb. destruct Hb as (i & <- & Hi). apply filter_In in Hi. destruct Hi as [Hi Hdi].
      apply in_seq in Hi. apply project_e_done; [lia| exact Hdi].
    + right. apply in_map_iff in Hb. destruct Hb as (m' & <- & Hm'). unfold usedlist in Hm'. apply filter_In in Hm'. destruct Hm' as [Hm' Hu'].
      apply in_seq in Hm'. exists m'. split; [lia|]. split; [exact Hu'|].
      destruct (HW m' ltac:(lia) Hu') as (_ & _ & Hmat). unfold G. rewrite Hu', Hmat. reflexivity.
Qed.

(* ---------- preservation: elimination with a ghost witness ---------- *)
Lemma UD_ext s s' : n s' = n s -> (forall i, done s' i = done s i) -> UD s' = UD s.
Proof. intros Hn Hd. unfold UD. rewrite Hn. f_equal. apply filter_ext. exact Hd. Qed.
Lemma project_ext s s' v : n s' = n s -> (forall i, done s' i = done s i) -> project s' v = project s v.
Proof. intros Hn Hd. unfold project. now rewrite (unknowns_ext s s' Hn Hd). Qed.

Lemma high_clear_0_zero r : bit r 0%nat = false -> (forall j, (0 < j)%nat -> bit r j = false) -> r = 0.
Proof. intros H0 H. apply bits_inj_nat. intros j. rewrite bit_0. destruct j; [exact H0| apply H; lia]. Qed.

Lemma usedlist_store s wh r d : (wh < l s)%nat ->
  forall m, In m (usedlist (store_pivot s wh r d)) <-> (m = wh \/ In m (usedlist s)).
Proof.
  intros Hwh m. unfold usedlist, store_pivot. cbn [used l]. rewrite !filter_In, !in_seq. unfold upd.
  destruct (Nat.eqb_spec m wh) as [->|Hne].
  - split; intros H; [left; reflexivity| split; [lia| reflexivity]].
  - split; intros H; [right; exact H| destruct H as [H|H]; [contradiction| exact H]].
Qed.

Lemma elim_G X s K' W : Inv X s -> Wit s K' W -> (forall k, In k K' -> below k (n s)) ->
  forall wh r d ev w, (wh < l s)%nat -> (forall j, (wh < j)%nat -> bit r j = false) ->
    in_span K' w -> below w (n s) -> project s w = r ->
    (forall k, In k K' -> in_span (Basis s W ++ [w]) k) ->
    exists W', Wit (fst (elim s wh r d ev)) K' W' /\ forall k, In k K' -> in_span (Basis (fst (elim s wh r d ev)) W') k.
Proof.
  intros HI HW HKb.
  assert (Vanish : forall w, in_span K' w -> below w (n s) -> project s w = 0 ->
            (forall k, In k K' -> in_span (Basis s W ++ [w]) k) ->
            exists W', Wit s K' W' /\ forall k, In k K' -> in_span (Basis s W') k).
  { intros w Hw Hb Hp HK. exists W. split; [exact HW|]. intros k Hk. apply (in_span_trans (Basis s W ++ [w])); [|apply HK; exact Hk].
    intros g Hg. apply in_app_or in Hg. destruct Hg as [Hg|[<-|[]]]; [apply in_span_gen; exact Hg|].
    apply (in_span_mono (UD s)); [intros x Hx; apply in_or_app; left; exact Hx|]. apply zero_project_span; assumption. }
  assert (Store : forall wh r d w, (wh < l s)%nat -> used s wh = false -> in_span K' w -> below w (n s) -> project s w = r ->
            (forall k, In k K' -> in_span (Basis s W ++ [w]) k) ->
            exists W', Wit (store_pivot s wh r d) K' W' /\ forall k, In k K' -> in_span (Basis (store_pivot s wh r d) W') k).
  { intros wh r d w Hwh Hun Hw Hb Hp HK. exists (upd W wh w). split.
    - intros m Hm Hu. cbn [store_pivot l used n mat] in *. unfold upd in *. destruct (Nat.eqb_spec m wh) as [->|Hne].
      + split; [exact Hw|]. split; [exact Hb|]. rewrite <- Hp. reflexivity.
      + destruct (HW m Hm Hu) as (A & B & C). split; [exact A|]. split; [exact B|]. rewrite C. reflexivity.
    - intros k Hk. apply (in_span_trans (Basis s W ++ [w])); [|apply HK; exact Hk].
      intros g Hg. apply in_span_gen. unfold Basis in *. rewrite (UD_ext s (store_pivot s wh r d)) by reflexivity.
      apply in_app_or in Hg. destruct Hg as [Hg|[<-|[]]].
      + apply in_app_or in Hg. destruct Hg as [Hg|Hg]; [apply in_or_app; left; exact Hg|]. apply in_or_app; right.
        apply in_map_iff in Hg. destruct Hg as (m & <- & Hm). apply in_map_iff. exists m. split.
        * unfold upd. destruct (Nat.eqb_spec m wh) as [->|]; [|reflexivity].
          exfalso. unfold usedlist in Hm. apply filter_In in Hm. destruct Hm as [_ Hm]. congruence.
        * apply usedlist_store; [exact Hwh| right; exact Hm].
      + apply in_or_app; right. apply in_map_iff. exists wh. split; [unfold upd; now rewrite Nat.eqb_refl| apply usedlist_store; [exact Hwh| left; reflexivity]]. }
  (* one elimination step: replace (r,w) by (r xor pivot, w xor witness) *)
  assert (Step : forall wh r w, (wh < l s)%nat -> used s wh = true -> bit r wh = true -> (forall j, (wh < j)%nat -> bit r j = false) ->
            in_span K' w -> below w (n s) -> project s w = r ->
            (forall k, In k K' -> in_span (Basis s W ++ [w]) k) ->
            let r' := N.lxor r (getb (mat s wh)) in let w' := N.lxor w (W wh) in
            (forall j, (wh <= j)%nat -> bit r' j = false) /\ in_span K' w' /\ below w' (n s) /\ project s w' = r' /\
            (forall k, In k K' -> in_span (Basis s W ++ [w']) k)).
  { intros wh r w Hwh Hu Hb Hc Hw Hbl Hp HK. cbn zeta.
    destruct (HW wh Hwh Hu) as (A & B & C). destruct (I_piv X s HI wh Hwh Hu) as (r0 & p0 & H1 & _ & H3 & H4 & _).
    rewrite H1. cbn [getb]. assert (Hr0 : r0 = project s (W wh)) by congruence. split; [|split; [|split; [|split]]].
    - intros j Hj. rewrite bit_lxor. destruct (Nat.eq_dec j wh) as [->|Hne]; [now rewrite Hb, H3| rewrite Hc, (H4 j) by lia; reflexivity].
    - apply in_span_xor; assumption.
    - intros j Hj. rewrite bit_lxor, Hbl, B by assumption. reflexivity.
    - rewrite project_lxor, Hp, Hr0. reflexivity.
    - intros k Hk. apply (in_span_trans (Basis s W ++ [w])); [|apply HK; exact Hk].
      intros g Hg. apply in_app_or in Hg. destruct Hg as [Hg|[<-|[]]].
      + apply in_span_gen, in_or_app; left; exact Hg.
      + set (w' := N.lxor w (W wh)). replace w with (N.lxor w' (W wh)) by (subst w'; xor_ac).
        apply in_span_xor; [apply in_span_gen, in_or_app; right; left; reflexivity|].
        apply in_span_gen, in_or_app; left. unfold Basis. apply in_or_app; right. apply in_map. unfold usedlist. apply filter_In. split; [apply in_seq; lia| exact Hu]. }
  induction wh as [|k IH]; intros r d ev w Hwh Hc Hw Hbl Hp HK; cbn [elim].
  - destruct (bit r 0%nat) eqn:Hb; [destruct (used s 0%nat) eqn:Hu|]; cbn [fst].
    + destruct (Step 0%nat r w Hwh Hu Hb Hc Hw Hbl Hp HK) as (C' & Hw' & Hbl' & Hp' & HK').
      apply (Vanish (N.lxor w (W 0%nat))); try assumption. rewrite Hp'. apply bits_inj_nat. intros j. rewrite bit_0. apply C'. lia.
    + apply (Store 0%nat r d w); assumption.
    + apply (Vanish w); try assumption. rewrite Hp. apply high_clear_0_zero; [exact Hb| exact Hc].
  - destruct (bit r (S k)) eqn:Hb; [destruct (used s (S k)) eqn:Hu|].
    + destruct (Step (S k) r w Hwh Hu Hb Hc Hw Hbl Hp HK) as (C' & Hw' & Hbl' & Hp' & HK').
      apply (IH _ _ _ (N.lxor w (W (S k)))); try assumption. lia.
    + cbn [fst]. apply (Store (S k) r d w); assumption.
    + apply (IH r d ev w); try assumption; [lia|]. intros j Hj. destruct (Nat.eq_dec j (S k)) as [->|]; [exact Hb| apply Hc; lia].
Qed.

(* ---------- finish only touches the data store ---------- *)
Definition same_shape (s s' : st) : Prop :=
  n s' = n s /\ l s' = l s /\ (forall i, done s' i = done s i) /\ (forall i, used s' i = used s i) /\ (forall i, mat s' i = mat s i).

Lemma finish_row_shape s i : same_shape s (fst (finish_row s i)).
Proof. unfold finish_row. destruct (fold_left _ _ _) as [o ev]. cbn [fst]. repeat split; reflexivity. Qed.

Lemma same_shape_trans a b c : same_shape a b -> same_shape b c -> same_shape a c.
Proof. intros (A1&A2&A3&A4&A5) (B1&B2&B3&B4&B5). repeat split; intros; congruence. Qed.

Lemma finish_shape s : same_shape s (fst (finish s)).
Proof.
  unfold finish. assert (G : forall L s0 ev, same_shape s s0 ->
    same_shape s (fst (fold_left (fun '(s, ev) i => let '(s', e) := finish_row s i in (s', ev ++ e)) L (s0, ev)))).
  { induction L as [|a L IH]; intros s0 ev H; cbn [fold_left]; [exact H|].
    pose proof (finish_row_shape s0 a) as H1. destruct (finish_row s0 a) as [s1 e1]. cbn [fst] in H1.
    apply IH. eapply same_shape_trans; eassumption. }
  apply G. repeat split; reflexivity.
Qed.

Lemma GInv_shape s s' K : same_shape s s' -> GInv s K -> GInv s' K.
Proof.
  intros (Hn & Hl & Hd & Hu & Hm) HG.
  assert (HUD : UD s' = UD s) by (apply UD_ext; assumption).
  assert (HUL : usedlist s' = usedlist s) by (unfold usedlist; rewrite Hl; apply filter_ext; exact Hu).
  constructor.
  - intros i Hi Hdi. rewrite Hn in Hi. rewrite Hd in Hdi. apply (G_units s K HG); assumption.
  - intros k Hk. rewrite Hn. apply (G_below s K HG); assumption.
  - intros H0 k Hk. rewrite HUD. apply (G_s1 s K HG); [congruence| exact Hk].
  - intros H0. destruct (G_s2 s K HG ltac:(congruence)) as (W & HW & HB). exists W. split.
    + intros m Hm' Hu'. rewrite Hl in Hm'. rewrite Hu in Hu'. destruct (HW m Hm' Hu') as (A & B & C).
      split; [exact A|]. split; [rewrite Hn; exact B|]. rewrite Hm, C. f_equal. symmetry. apply project_ext; assumption.
    + intros k Hk. unfold Basis. rewrite HUD, HUL. apply HB; exact Hk.
Qed.

Lemma elim_core s : forall wh r d ev, same_core s (fst (elim s wh r d ev)).
Proof.
  induction wh as [|k IH]; intros r d ev; cbn [elim];
  destruct (bit r _); try destruct (used s _); cbn [fst]; try apply IH; repeat split; reflexivity.
Qed.

(* ---------- one call preserves the ghost invariant ---------- *)
Section Step.
Variable P : nat -> row.
Variable X : nat -> blk.

Lemma GInv_more s K k : GInv s K -> below k (n s) ->
  (l s = 0%nat -> in_span (UD s) k) ->
  (forall W, l s <> 0%nat -> Wit s K W -> (forall k', In k' K -> in_span (Basis s W) k') -> in_span (Basis s W) k) ->
  GInv s (k :: K).
Proof.
  intros HG Hb H1 H2. constructor.
  - intros i Hi Hd. right. apply (G_units s K HG); assumption.
  - intros k' [<-|Hk]; [exact Hb| apply (G_below s K HG); exact Hk].
  - intros H0 k' [<-|Hk]; [apply H1; exact H0| apply (G_s1 s K HG); assumption].
  - intros H0. destruct (G_s2 s K HG H0) as (W & HW & HB). exists W. split.
    + intros m Hm Hu. destruct (HW m Hm Hu) as (A & B & C). split; [|split; assumption].
      apply (in_span_mono K); [intros x Hx; right; exact Hx| exact A].
    + intros k' [<-|Hk]; [apply (H2 W H0 HW HB)| apply HB; exact Hk].
Qed.

Lemma stage2_G s1 idx K :
  (forall m, below (P m) (n s1)) -> Inv X s1 -> l s1 = missing s1 -> (1 <= l s1)%nat -> GInv s1 K ->
  let '(s2, ev) := handle_parity P s1 idx (enc P (n s1) X idx) in
  GInv (if is_complete s2 then fst (finish s2) else s2) (P idx :: K).
Proof.
  intros HPb HI Hlm Hl1 HG. unfold handle_parity.
  destruct (strip s1 (P idx) (enc P (n s1) X idx)) as [d ev0].
  assert (NE : l s1 <> 0%nat) by lia.
  destruct (G_s2 s1 K HG NE) as (W & HW & HB).
  assert (HW' : Wit s1 (P idx :: K) W).
  { intros m Hm Hu. destruct (HW m Hm Hu) as (A & B & C). split; [|split; assumption].
    apply (in_span_mono K); [intros x Hx; right; exact Hx| exact A]. }
  assert (Hc : forall j, (l s1 - 1 < j)%nat -> bit (project s1 (P idx)) j = false).
  { intros j Hj. apply project_below. lia. }
  pose proof (elim_G X s1 (P idx :: K) W HI HW'
                ltac:(intros k [<-|Hk]; [apply HPb| apply (G_below s1 K HG); exact Hk])
                (l s1 - 1)%nat (project s1 (P idx)) d ev0 (P idx) ltac:(lia) Hc
                ltac:(apply in_span_gen; left; reflexivity) (HPb idx) eq_refl) as HE.
  assert (HK : forall k, In k (P idx :: K) -> in_span (Basis s1 W ++ [P idx]) k).
  { intros k [<-|Hk]; [apply in_span_gen, in_or_app; right; left; reflexivity|].
    apply (in_span_mono (Basis s1 W)); [intros x Hx; apply in_or_app; left; exact Hx| apply HB; exact Hk]. }
  specialize (HE HK). destruct HE as (W' & HW2 & HB2).
  pose proof (elim_core s1 (l s1 - 1)%nat (project s1 (P idx)) d ev0) as SC.
  destruct (elim s1 (l s1 - 1) (project s1 (P idx)) d ev0) as [s2 ev2]. cbn [fst] in *.
  destruct SC as (Hn & Hl & _ & Hdn & _).
  assert (HG2 : GInv s2 (P idx :: K)).
  { constructor.
    - intros i Hi Hd. right. rewrite Hn in Hi. rewrite Hdn in Hd. apply (G_units s1 K HG); assumption.
    - intros k [<-|Hk]; rewrite Hn; [apply HPb| apply (G_below s1 K HG); exact Hk].
    - intros H0. lia.
    - intros _. exists W'. split; assumption. }
  destruct (is_complete s2); [|exact HG2].
  apply (GInv_shape s2); [apply finish_shape| exact HG2].
Qed.


Lemma hb_G cap vbits s idx K :
  (forall m, (m < n s)%nat -> P m = e m) -> (forall m, below (P m) (n s)) ->
  Inv' X s -> GInv s K ->
  let '(s', r, ev) := handle_block P cap vbits s idx (enc P (n s) X idx) in
  GInv s' (if is_tmm r then K else P idx :: K).
Proof.
  intros HPu HPb (HI & HC & HU) HG. destruct s as [n0 l0 bs0 done0 used0 dat0 par0 mat0].
  unfold handle_block. destruct (is_complete _) eqn:EC.
  { (* already complete: the new row adds nothing *)
    cbn [is_tmm]. apply GInv_more; [exact HG| apply HPb| |].
    - intros H0. apply (span_bits _ _ _ (HPb idx)). intros i Hi _. apply in_span_gen, UD_in; [exact Hi|].
      unfold is_complete in EC. rewrite H0 in EC. cbn [Nat.eqb] in EC. apply (forallb_seq_true _ _ EC i Hi).
    - intros W H0 HW HB.
      assert (HF : full_rank (Basis (mkst n0 l0 bs0 done0 used0 dat0 par0 mat0) W) n0).
      { apply (complete_full_rank X _ _ W HI).
        - intros i Hi Hd. apply in_or_app; left. apply UD_in; assumption.
        - intros _ m Hm Hu. destruct (HW m Hm Hu) as (_ & B & C). split; [|split; assumption].
          apply in_span_gen, in_or_app; right. apply in_map. unfold usedlist. apply filter_In. split; [apply in_seq; lia| exact Hu].
        - exact EC. }
      apply HF, below_lt, HPb. }
  cbn [n l bs done used dat par mat] in *.
  set (s := mkst n0 l0 bs0 done0 used0 dat0 par0 mat0) in *.
  destruct (Nat.leb n0 idx && Nat.eqb l0 0) eqn:Eenter; cbn [andb].
  - apply andb_prop in Eenter. destruct Eenter as [E1 E2]. apply Nat.leb_le in E1. apply Nat.eqb_eq in E2. subst l0.
    destruct (Nat.ltb vbits (missing s) || Nat.ltb cap (missing s)) eqn:Eref; [exact HG|].
    assert (Hm : (1 <= missing s)%nat).
    { apply missing_pos. unfold is_complete in EC. cbn [s l Nat.eqb n] in EC. exact EC. }
    set (s1 := mkst n0 (missing s) bs0 done0 used0 dat0 par0 mat0).
    assert (HI1 : Inv X s1).
    { constructor; cbn [n l bs done used dat par mat s1].
      - apply (I_dat X s HI).
      - right. split; [reflexivity| exact Hm].
      - intros m _ Hu. rewrite (HU eq_refl m) in Hu. discriminate. }
    assert (HG1 : GInv s1 K).
    { constructor; cbn [s1 n l done].
      - apply (G_units s K HG). - apply (G_below s K HG). - intros H0; lia.
      - intros _. exists (fun _ => 0). split.
        + intros m _ Hu. cbn [s1 used] in Hu. rewrite (HU eq_refl m) in Hu. discriminate.
        + intros k Hk. apply (in_span_mono (UD s)); [intros x Hx; apply in_or_app; left; exact Hx| apply (G_s1 s K HG eq_refl); exact Hk]. }
    cbn [l]. destruct (Nat.eqb (missing s) 0) eqn:E0; [apply Nat.eqb_eq in E0; lia|].
    pose proof (stage2_G s1 idx K HPb HI1 eq_refl Hm HG1) as H2.
    change (mkst n0 (missing s) bs0 done0 used0 dat0 par0 mat0) with s1.
    change (n s1) with n0 in H2.
    destruct (handle_parity P s1 idx (enc P n0 X idx)) as [s2 ev]. destruct (is_complete s2).
    + destruct (finish s2) as [s3 ev']. cbn [fst is_tmm] in *. exact H2.
    + cbn [is_tmm]. exact H2.
  - cbn [l]. destruct (Nat.eqb l0 0) eqn:E0.
    + apply Nat.eqb_eq in E0. subst l0. rewrite andb_true_r in Eenter. apply Nat.leb_gt in Eenter.
      rewrite (HPu idx Eenter).
      destruct (done0 idx) eqn:Hd.
      * assert (R : forall b : bool, is_tmm (if b then Done (done_len s) else NeedMore) = false) by (intros []; reflexivity).
        fold s. rewrite R. apply GInv_more; [exact HG| | |intros W H0; cbn [s l] in H0; lia].
        -- intros j Hj. change (n s) with n0 in Hj. rewrite bit_e. destruct (Nat.eqb_spec j idx); [lia| reflexivity].
        -- intros _. apply in_span_gen, UD_in; assumption.
      * match goal with |- GInv ?s2 (if is_tmm (if ?b then _ else _) then _ else _) =>
          assert (R : is_tmm (if b then Done (done_len s2) else NeedMore) = false) by (destruct b; reflexivity); rewrite R; clear R end.
        set (s2 := mkst n0 0 bs0 (upd done0 idx true) used0 (upd dat0 idx (Some (enc P n0 X idx))) par0 mat0).
        assert (Hincl : incl (UD s) (UD s2)).
        { unfold UD. intros x Hx. apply in_map_iff in Hx. destruct Hx as (i & <- & Hi). apply in_map. apply filter_In in Hi. destruct Hi as [Hi Hdi].
          apply filter_In. split; [exact Hi|]. cbn [s2 done]. unfold upd. destruct (Nat.eqb i idx); [reflexivity| exact Hdi]. }
        constructor; cbn [s2 n l done].
        -- intros i Hi Hdi. unfold upd in Hdi. destruct (Nat.eqb_spec i idx) as [->|Hne]; [left; reflexivity| right; apply (G_units s K HG); assumption].
        -- intros k [<-|Hk]; [|apply (G_below s K HG); exact Hk]. intros j Hj. rewrite bit_e. destruct (Nat.eqb_spec j idx); [lia| reflexivity].
        -- intros _ k [<-|Hk].
           ++ apply in_span_gen. apply (UD_in s2); [exact Eenter|]. cbn [s2 done]. unfold upd. now rewrite Nat.eqb_refl.
           ++ apply (in_span_mono (UD s)); [exact Hincl| apply (G_s1 s K HG eq_refl); exact Hk].
        -- intros H0; contradiction.
    + apply Nat.eqb_neq in E0. destruct (I_l X s HI) as [A|[A B]]; [cbn [s l] in A; lia|].
      pose proof (stage2_G s idx K HPb HI A B HG) as H2. change (n s) with n0 in H2. fold s.
      destruct (handle_parity P s idx (enc P n0 X idx)) as [s2 ev]. destruct (is_complete s2).
      * destruct (finish s2) as [s3 ev']. cbn [fst is_tmm] in *. exact H2.
      * cbn [is_tmm]. exact H2.
Qed.
End Step.

(* ---------- Done is reported exactly when the state is complete ---------- *)
Lemma is_complete_shape s s' : same_shape s s' -> is_complete s' = is_complete s.
Proof.
  intros (Hn & Hl & Hd & Hu & _). unfold is_complete. rewrite Hn, Hl.
  destruct (Nat.eqb (l s) 0); apply forallb_ext'; assumption.
Qed.

Lemma hb_done P cap vbits s idx b :
  let '(s', r, ev) := handle_block P cap vbits s idx b in is_done r = is_complete s'.
Proof.
  unfold handle_block. destruct (is_complete s) eqn:EC; [cbn [is_done]; now rewrite EC|].
  destruct (Nat.leb (n s) idx && Nat.eqb (l s) 0 && _) eqn:E; [cbn [is_done]; now rewrite EC|].
  match goal with |- context [Nat.eqb (l ?s1) 0] => destruct (Nat.eqb (l s1) 0) end.
  - match goal with |- context [if done ?a ?b then _ else _] => destruct (done a b) end;
    match goal with |- context [is_complete ?s2] => destruct (is_complete s2) eqn:E2 end; cbn [is_done]; congruence.
  - match goal with |- context [handle_parity ?a ?b ?c ?d] => destruct (handle_parity a b c d) as [s2 ev] end.
    destruct (is_complete s2) eqn:E2; [|cbn [is_done]; congruence].
    pose proof (finish_shape s2) as HS. destruct (finish s2) as [s3 ev']. cbn [fst is_done] in *.
    now rewrite (is_complete_shape s2 s3 HS), E2.
Qed.

Section Final.
Variable P : nat -> row.
Variable X : nat -> blk.
Variables cap vbits : nat.

Definition Kstep (K : list N) (x : (nat * blk) * result) : list N :=
  if is_tmm (snd x) then K else P (fst (fst x)) :: K.
Definition Kacc (K : list N) (bl : list (nat * blk)) (rs : list result) : list N := fold_left Kstep (combine bl rs) K.

Lemma GInv_rank s K : Inv' X s -> GInv s K -> (is_complete s = true <-> full_rank K (n s)).
Proof.
  intros (HI & _ & _) HG. split.
  - intros EC. destruct (Nat.eq_dec (l s) 0) as [E0|NE].
    + apply (complete_full_rank X s K (fun _ => 0) HI (G_units s K HG)); [intros C; contradiction| exact EC].
    + destruct (G_s2 s K HG NE) as (W & HW & _). apply (complete_full_rank X s K W HI (G_units s K HG)); [intros _; exact HW| exact EC].
  - apply (full_rank_complete X s K HI HG).
Qed.

Theorem run_rank : forall bl s K,
  (forall m, (m < n s)%nat -> P m = e m) -> (forall m, below (P m) (n s)) ->
  Inv' X s -> GInv s K -> Forall (fun p => snd p = enc P (n s) X (fst p)) bl ->
  forall t, (t < length bl)%nat ->
  let rs := snd (fst (run P cap vbits s bl)) in
  is_done (nth t rs NeedMore) = true <-> full_rank (Kacc K (firstn (S t) bl) (firstn (S t) rs)) (n s).
Proof.
  induction bl as [|[i b] bl IH]; intros s K HPu HPb HI' HG HF t Ht; [cbn in Ht; lia|].
  inversion HF as [|? ? Hb HF']; subst. cbn [fst snd] in Hb. subst b. cbn [run].
  pose proof (hb_ok P X cap vbits s i ltac:(intros m Hm; rewrite (HPu m Hm); reflexivity) HI') as H1.
  pose proof (hb_G P X cap vbits s i K HPu HPb HI' HG) as H2.
  pose proof (hb_done P cap vbits s i (enc P (n s) X i)) as H3.
  destruct (handle_block P cap vbits s i (enc P (n s) X i)) as [[s1 r] e1].
  destruct H1 as (HI1 & Hn1 & _).
  specialize (IH s1 (if is_tmm r then K else P i :: K)). rewrite Hn1 in IH. specialize (IH HPu HPb HI1 H2 HF').
  destruct (run P cap vbits s1 bl) as [[s2 rs] es] eqn:ER. cbn [fst snd] in *.
  destruct t as [|t].
  - cbn [nth firstn combine]. unfold Kacc. cbn [combine fold_left Kstep fst snd].
    rewrite H3, <- Hn1. apply GInv_rank; assumption.
  - cbn [nth]. cbn [length] in Ht. specialize (IH t ltac:(lia)).
    change (firstn (S (S t)) ((i, enc P (n s) X i) :: bl)) with ((i, enc P (n s) X i) :: firstn (S t) bl).
    change (firstn (S (S t)) (r :: rs)) with (r :: firstn (S t) rs).
    unfold Kacc in *. cbn [combine fold_left Kstep fst snd]. exact IH.
Qed.
End Final.

(* from the initial state; knowledge as a plain list of the accepted rows *)
Lemma GInv_init nn bs0 : GInv (init nn bs0) [].
Proof.
  constructor; cbn [init n l done].
  - intros; discriminate.
  - intros k [].
  - intros _ k [].
  - intros H; contradiction.
Qed.

Theorem done_iff_full_rank :
  forall (P : nat -> row) (nn cap vbits : nat) (bs0 : N) (X : nat -> blk) (bl : list (nat * blk)) (t : nat),
    (forall m, (m < nn)%nat -> P m = e m) -> (forall m, below (P m) nn) ->
    Forall (consistent P nn X) bl -> (t < length bl)%nat ->
    let rs := snd (fst (run P cap vbits (init nn bs0) bl)) in
    is_done (nth t rs NeedMore) = true <->
    full_rank (Kacc P [] (firstn (S t) bl) (firstn (S t) rs)) nn.
Proof.
  intros P nn cap vbits bs0 X bl t HPu HPb HF Ht.
  exact (run_rank P X cap vbits bl (init nn bs0) [] HPu HPb (init_inv X nn bs0) (GInv_init nn bs0) HF t Ht).
Qed.
Print Assumptions done_iff_full_rank.
