From Coq Require Import NArith ZArith Lia ZifyBool ZifyN Bool.
Require Import Nor Geom.
Ltac Zify.zify_post_hook ::= Z.div_mod_to_equations.
Open Scope N_scope.

(* geometry of one session *)
Record geo := { fw : N; pa : N; sz : N; nseg : N; ssize : N }.
Definition capL (g : geo) : N := max_l (ssize g) (sz g).
Record wfgeo (g : geo) : Prop := {
  g_sz : 1 <= sz g <= 256;
  g_n : 1 <= nseg g <= MAX_SEGMENTS;
  g_fit : nseg g * sz g <= ssize g - DATA_REGION_OFFSET;
  g_big : DATA_REGION_OFFSET < ssize g;
  g_disj : fw g + ssize g <= pa g \/ pa g + ssize g <= fw g
}.

Definition MARK : N := 51.   (* 0x33 *)

(* ---------- data storage (firmware slot) ---------- *)
Definition daddr (g : geo) (i : N) : N := fw g + dataaddr (sz g) i.
Definition saddr (g : geo) (i : N) : N := fw g + stataddr i.
Definition c_dstore (g : geo) (m : mem) (i b : N) : mem := program (program m (daddr g i) (sz g) b) (saddr g i) 1 MARK.
Definition c_dget (g : geo) (m : mem) (i : N) : N := read m (daddr g i) (sz g).
Definition dview (g : geo) (m : mem) (i : N) : option N := if m (saddr g i) =? MARK then Some (c_dget g m i) else None.

Definition fresh_d (g : geo) (m : mem) (i : N) : Prop := erased m (daddr g i) (sz g) /\ m (saddr g i) = 255.

Lemma erased_program_disjoint m a len v b blen :
  b + blen <= a \/ a + len <= b -> erased m b blen -> erased (program m a len v) b blen.
Proof. intros H He x Hx. rewrite program_outside by lia. apply He; exact Hx. Qed.

Lemma byte_of_small v : v < 256 -> byte_of v 0 = v.
Proof. intros H. rewrite byte_of_spec. cbn. rewrite N.div_1_r. apply N.mod_small; exact H. Qed.

Theorem dstore_same g m i b : wfgeo g -> i < nseg g -> fresh_d g m i -> b < 2 ^ (8 * sz g) ->
  dview g (c_dstore g m i b) i = Some b.
Proof.
  intros W Hi [He Hs] Hb. destruct (fw_layout (ssize g) (sz g) (nseg g) i) as (A & B & C); try apply W; try assumption.
  unfold dview, c_dstore, c_dget.
  assert (S1 : program (program m (daddr g i) (sz g) b) (saddr g i) 1 MARK (saddr g i) = MARK).
  { rewrite program_inside_erased; [rewrite N.sub_diag; apply byte_of_small; reflexivity| |lia].
    intros x Hx. assert (x = saddr g i) by lia. subst x. rewrite program_outside; [exact Hs|].
    unfold daddr, saddr, dataaddr, stataddr, DATA_REGION_OFFSET, HEADER_SIZE in *. lia. }
  rewrite S1, N.eqb_refl. f_equal.
  rewrite read_program_disjoint.
  - apply read_program_same; assumption.
  - unfold daddr, saddr, dataaddr, stataddr, DATA_REGION_OFFSET, HEADER_SIZE in *. lia.
Qed.

Theorem dstore_other g m i b j : wfgeo g -> i < nseg g -> j < nseg g -> j <> i ->
  dview g (c_dstore g m i b) j = dview g m j.
Proof.
  intros W Hi Hj Hne.
  destruct (fw_layout (ssize g) (sz g) (nseg g) i) as (A & B & C); try apply W; try assumption.
  destruct (fw_layout (ssize g) (sz g) (nseg g) j) as (A' & B' & C'); try apply W; try assumption.
  pose proof (g_sz g W) as [Hs1 Hs2].
  unfold dview, c_dstore, c_dget.
  assert (S : program (program m (daddr g i) (sz g) b) (saddr g i) 1 MARK (saddr g j) = m (saddr g j)).
  { rewrite !program_outside; [reflexivity| |]; unfold daddr, saddr, dataaddr, stataddr, DATA_REGION_OFFSET, HEADER_SIZE in *; lia. }
  rewrite S. destruct (m (saddr g j) =? MARK); [|reflexivity]. f_equal.
  rewrite !read_program_disjoint; [reflexivity| |].
  - unfold daddr, saddr, dataaddr, stataddr, DATA_REGION_OFFSET, HEADER_SIZE in *. nia.
  - unfold daddr, saddr, dataaddr, stataddr, DATA_REGION_OFFSET, HEADER_SIZE in *. lia.
Qed.

Theorem dstore_fresh_other g m i b j : wfgeo g -> i < nseg g -> j < nseg g -> j <> i ->
  fresh_d g m j -> fresh_d g (c_dstore g m i b) j.
Proof.
  intros W Hi Hj Hne [He Hs].
  destruct (fw_layout (ssize g) (sz g) (nseg g) i) as (A & B & C); try apply W; try assumption.
  destruct (fw_layout (ssize g) (sz g) (nseg g) j) as (A' & B' & C'); try apply W; try assumption.
  pose proof (g_sz g W) as [Hs1 Hs2]. unfold c_dstore. split.
  - apply erased_program_disjoint; [|apply erased_program_disjoint; [|exact He]];
      unfold daddr, saddr, dataaddr, stataddr, DATA_REGION_OFFSET, HEADER_SIZE in *; nia.
  - rewrite !program_outside; [exact Hs| |]; unfold daddr, saddr, dataaddr, stataddr, DATA_REGION_OFFSET, HEADER_SIZE in *; lia.
Qed.

(* every write of the data storage stays inside the firmware slot, outside its header area *)
Theorem dstore_confined g i : wfgeo g -> i < nseg g ->
  fw g + HEADER_SIZE <= saddr g i /\ saddr g i + 1 <= fw g + ssize g /\
  fw g + HEADER_SIZE <= daddr g i /\ daddr g i + sz g <= fw g + ssize g.
Proof.
  intros W Hi. destruct (fw_layout (ssize g) (sz g) (nseg g) i) as (A & B & C); try apply W; try assumption.
  pose proof (g_big g W). unfold daddr, saddr, dataaddr, stataddr, DATA_REGION_OFFSET, HEADER_SIZE in *. lia.
Qed.

(* ---------- parity blocks and matrix rows (parity slot) ---------- *)
Definition paddr (g : geo) (k : N) : N := pa g + paraddr (sz g) k.
Definition raddr (g : geo) (k : N) : N := pa g + rowaddr (sz g) (capL g) k.
Definition diag (g : geo) (k : N) : N := raddr g k + k / 8.

Definition c_pstore (g : geo) (m : mem) (k b : N) : mem := program m (paddr g k) (sz g) b.
Definition c_pget (g : geo) (m : mem) (k : N) : N := read m (paddr g k) (sz g).
(* the row is stored with its own (diagonal) bit inverted, so that a stored row is visible as a non-FF byte *)
Definition c_mset (g : geo) (m : mem) (k r : N) : mem := program m (raddr g k) (rowlen k) (N.clearbit r k).
Definition c_mget (g : geo) (m : mem) (k : N) : N := N.lxor (read m (raddr g k) (rowlen k)) (2 ^ k).
Definition mused (g : geo) (m : mem) (k : N) : bool := negb (m (diag g k) =? 255).
Definition pview (g : geo) (m : mem) (k : N) : option N := if mused g m k then Some (c_pget g m k) else None.
Definition mview (g : geo) (m : mem) (k : N) : option N := if mused g m k then Some (c_mget g m k) else None.
Definition fresh_p (g : geo) (m : mem) (k : N) : Prop := erased m (paddr g k) (sz g) /\ erased m (raddr g k) (rowlen k).

Lemma testbit_byte_of v j i : i < 8 -> N.testbit (byte_of v j) i = N.testbit v (8 * j + i).
Proof.
  intros Hi. unfold byte_of. rewrite N.land_spec, N.shiftr_spec by lia. change 255 with (N.ones 8). rewrite N.ones_spec_low by exact Hi.
  rewrite andb_true_r. f_equal. lia.
Qed.

Lemma byte_with_clear_bit v k : N.testbit v k = false -> byte_of v (k / 8) <> 255.
Proof.
  intros Hb C. assert (T : N.testbit (byte_of v (k / 8)) (k mod 8) = true).
  { rewrite C. change 255 with (N.ones 8). apply N.ones_spec_low. apply N.mod_lt. discriminate. }
  rewrite testbit_byte_of in T by (apply N.mod_lt; discriminate).
  rewrite <- N.div_mod in T by discriminate. congruence.
Qed.

Lemma row_value_bound r k : N.testbit r k = true -> (forall j, k < j -> N.testbit r j = false) -> N.clearbit r k < 2 ^ (8 * rowlen k).
Proof.
  intros Hb Hc. destruct (N.eq_dec (N.clearbit r k) 0) as [->|Hne]; [apply N.neq_0_lt_0, N.pow_nonzero; discriminate|].
  apply N.log2_lt_pow2; [lia|].
  destruct (N.lt_ge_cases (N.log2 (N.clearbit r k)) (8 * rowlen k)) as [|C]; [assumption|]. exfalso.
  pose proof (N.bit_log2 _ Hne) as T. rewrite N.clearbit_eqb in T.
  destruct (N.eqb_spec k (N.log2 (N.clearbit r k))) as [E|NE]; [rewrite andb_false_r in T; discriminate|].
  rewrite andb_true_r in T. rewrite Hc in T; [discriminate|]. unfold rowlen in C.
  assert (k < 8 * (k / 8 + 1)) by (pose proof (N.mod_lt k 8 ltac:(discriminate)); pose proof (N.div_mod k 8 ltac:(discriminate)); lia). lia.
Qed.

Lemma unclear r k : N.testbit r k = true -> N.lxor (N.clearbit r k) (2 ^ k) = r.
Proof.
  intros Hb. apply N.bits_inj. intro n. rewrite N.lxor_spec, N.clearbit_eqb, N.pow2_bits_eqb.
  destruct (N.eqb_spec k n) as [->|]; [rewrite Hb; reflexivity| rewrite andb_true_r, xorb_false_r; reflexivity].
Qed.

(* linear facts about the parity slot's addresses; products are hidden behind [pbase] *)
Definition pbase (g : geo) : N := pa g + HEADER_SIZE + capL g * sz g.
Lemma addr_facts g k : wfgeo g -> k < capL g ->
  pa g + HEADER_SIZE <= paddr g k /\ paddr g k + sz g <= pbase g /\
  pbase g <= raddr g k /\ raddr g k + rowlen k <= pa g + ssize g.
Proof.
  intros W Hk. destruct (parity_layout (ssize g) (sz g) k (g_big g W) Hk) as (A & B & C). fold (capL g) in A, B, C.
  unfold paddr, raddr, pbase. unfold paraddr, rowaddr in *. 
  generalize dependent (capL g * sz g). generalize (k * sz g). generalize (mro k). intros. lia.
Qed.
Lemma rows_apart g j k : j <> k -> raddr g j + rowlen j <= raddr g k \/ raddr g k + rowlen k <= raddr g j.
Proof.
  intros Hne. destruct (N.lt_ge_cases j k); [left; pose proof (rows_disjoint (sz g) (capL g) j k ltac:(lia))| right; pose proof (rows_disjoint (sz g) (capL g) k j ltac:(lia))]; unfold raddr; lia.
Qed.
Lemma blocks_apart g j k : j <> k -> paddr g j + sz g <= paddr g k \/ paddr g k + sz g <= paddr g j.
Proof.
  intros Hne. destruct (N.lt_ge_cases j k); [left; pose proof (blocks_disjoint (sz g) j k ltac:(lia))| right; pose proof (blocks_disjoint (sz g) k j ltac:(lia))]; unfold paddr; lia.
Qed.

Theorem pm_store_same g m k b r : wfgeo g -> k < capL g -> fresh_p g m k -> b < 2 ^ (8 * sz g) ->
  N.testbit r k = true -> (forall j, k < j -> N.testbit r j = false) ->
  let m' := c_mset g (c_pstore g m k b) k r in
  pview g m' k = Some b /\ mview g m' k = Some r.
Proof.
  intros W Hk [Hep Her] Hb Hrk Hrc m'.
  destruct (addr_facts g k W Hk) as (A1 & A2 & A3 & A4).
  assert (Hrl : k / 8 < rowlen k) by (unfold rowlen; lia).
  assert (Her' : erased (c_pstore g m k b) (raddr g k) (rowlen k)).
  { unfold c_pstore. apply erased_program_disjoint; [lia| exact Her]. }
  assert (D : m' (diag g k) = byte_of (N.clearbit r k) (k / 8)).
  { unfold m', c_mset. rewrite program_inside_erased; [f_equal; unfold diag; lia| exact Her'| unfold diag; lia]. }
  assert (U : mused g m' k = true).
  { unfold mused. rewrite D. destruct (N.eqb_spec (byte_of (N.clearbit r k) (k / 8)) 255) as [E|]; [|reflexivity].
    exfalso. revert E. apply byte_with_clear_bit. rewrite N.clearbit_eqb, N.eqb_refl. apply andb_false_r. }
  unfold pview, mview. rewrite U. split; f_equal.
  - unfold c_pget, m', c_mset, c_pstore. rewrite read_program_disjoint; [apply read_program_same; assumption| lia].
  - unfold c_mget, m', c_mset. rewrite read_program_same; [apply unclear; exact Hrk| exact Her'| apply row_value_bound; assumption].
Qed.

Theorem pm_store_other g m k b r j : wfgeo g -> k < capL g -> j < capL g -> j <> k ->
  let m' := c_mset g (c_pstore g m k b) k r in
  pview g m' j = pview g m j /\ mview g m' j = mview g m j /\ (fresh_p g m j -> fresh_p g m' j).
Proof.
  intros W Hk Hj Hne m'.
  destruct (addr_facts g k W Hk) as (A1 & A2 & A3 & A4). destruct (addr_facts g j W Hj) as (B1 & B2 & B3 & B4).
  assert (Hjl : j / 8 < rowlen j) by (unfold rowlen; lia).
  pose proof (rows_apart g j k Hne) as RD. pose proof (blocks_apart g j k Hne) as PD.
  assert (Dg : m' (diag g j) = m (diag g j)).
  { unfold m', c_mset, c_pstore. rewrite !program_outside; [reflexivity| |]; unfold diag; lia. }
  assert (Rp : read m' (paddr g j) (sz g) = read m (paddr g j) (sz g)).
  { unfold m', c_mset, c_pstore. rewrite !read_program_disjoint; [reflexivity| |]; lia. }
  assert (Rr : read m' (raddr g j) (rowlen j) = read m (raddr g j) (rowlen j)).
  { unfold m', c_mset, c_pstore. rewrite !read_program_disjoint; [reflexivity| |]; lia. }
  unfold pview, mview, mused, c_pget, c_mget. rewrite Dg, Rp, Rr. split; [reflexivity|]. split; [reflexivity|].
  intros [E1 E2]. unfold m', c_mset, c_pstore. split; repeat apply erased_program_disjoint; try assumption; lia.
Qed.

(* the two slots do not interact *)
Theorem pm_store_data g m k b r i : wfgeo g -> k < capL g -> i < nseg g ->
  dview g (c_mset g (c_pstore g m k b) k r) i = dview g m i.
Proof.
  intros W Hk Hi. destruct (addr_facts g k W Hk) as (A1 & A2 & A3 & A4).
  destruct (dstore_confined g i W Hi) as (D1 & D2 & D3 & D4). pose proof (g_disj g W) as Hd.
  unfold HEADER_SIZE in *. unfold dview, c_dget, c_mset, c_pstore.
  rewrite !program_outside by lia. rewrite !read_program_disjoint by lia. reflexivity.
Qed.

Theorem pm_confined g k : wfgeo g -> k < capL g ->
  pa g + HEADER_SIZE <= paddr g k /\ paddr g k + sz g <= pa g + ssize g /\
  pa g + HEADER_SIZE <= raddr g k /\ raddr g k + rowlen k <= pa g + ssize g.
Proof. intros W Hk. destruct (addr_facts g k W Hk) as (A1 & A2 & A3 & A4). unfold pbase in *. lia. Qed.
Print Assumptions pm_store_same.
