(* start_update of the byte-level model establishes the premises of MgrSim.mgr_session_sound: on a device without an armed
   fault a successful start returns a session over two distinct slots whose contents behind the header area are erased,
   with the fragment size cached and capacity / matrix offset from max_l, for a well-formed session geometry. *)
From Coq Require Import List NArith ZArith Arith Bool Lia ZifyBool ZifyN ZifyNat.
Require Import Consts Nor Geom Lfdbt.
Require Slots SlotsProof Store Recon.
Require Import MRecon Mgr MgrP MgrSim.
Import ListNotations.
Open Scope N_scope.
Ltac Zify.zify_post_hook ::= Z.div_mod_to_equations.

(* ---------- the allocator returns two distinct slots of the ring ---------- *)
Lemma high_lt sl high hh : Slots.high_of sl = Some (high, hh) -> (high < length sl)%nat.
Proof.
  intros H. pose proof (SlotsProof.high_spec sl) as S. rewrite H in S.
  destruct S as [S _]. eapply SlotsProof.indexed_lt. exact S.
Qed.

Lemma alloc_pair_wf r g1 g2 sl a b s t : (2 <= length sl)%nat ->
  Slots.alloc r g1 g2 sl = Slots.Ok (a, b, s, t) -> (a < length sl /\ b < length sl /\ a <> b)%nat.
Proof.
  intros HN H. unfold Slots.alloc in H.
  destruct (Slots.low_of sl) as [[low lh]|]; [|inversion H; subst; lia].
  destruct (Slots.high_of sl) as [[high hh]|] eqn:HH; [|inversion H; subst; lia].
  pose proof (high_lt sl high hh HH) as HL.
  set (N_ := length sl) in *.
  assert (ADV : forall x, match Slots.next_seq true (Slots.hseq hh) with
                 | Some s1 => match Slots.next_seq true s1 with
                              | Some s2 => Slots.Ok (((high + 1) mod N_)%nat, ((high + 2) mod N_)%nat, s1, s2)
                              | None => Slots.Panic end
                 | None => Slots.Panic end = Slots.Ok (a, b, s, t) -> x = tt -> (a < N_ /\ b < N_ /\ a <> b)%nat).
  { intros _ Q _. destruct (Slots.next_seq true (Slots.hseq hh)) as [s1|]; [|discriminate].
    destruct (Slots.next_seq true s1) as [s2|]; [|discriminate]. inversion Q; subst.
    pose proof (Nat.mod_upper_bound (high + 1) N_ ltac:(lia)). pose proof (Nat.mod_upper_bound (high + 2) N_ ltac:(lia)).
    repeat split; try lia. intros E.
    destruct (Nat.eq_dec (high + 2) N_) as [E2|E2].
    - rewrite E2, Nat.mod_same in E by lia. rewrite Nat.mod_small in E by lia. lia.
    - destruct (Nat.eq_dec (high + 1) N_) as [E1|E1].
      + rewrite E1, Nat.mod_same in E by lia. replace (high + 2)%nat with (1 + 1 * N_)%nat in E by lia.
        rewrite Nat.mod_add in E by lia. rewrite Nat.mod_small in E by lia. lia.
      + rewrite !Nat.mod_small in E by lia. lia. }
  cbv zeta in H.
  destruct (g1 _ _); [exact (ADV tt H eq_refl)|].
  destruct (g2 _ _).
  - destruct (Nat.eqb _ low); [|exact (ADV tt H eq_refl)].
    destruct (Slots.next_seq true (Slots.hseq hh)) as [s2|]; [|discriminate]. inversion H; subst.
    pose proof (Nat.mod_upper_bound (a + 1) N_ ltac:(lia)). repeat split; try lia. intros E.
    destruct (Nat.eq_dec (a + 1) N_) as [E1|E1].
    + rewrite E1, Nat.mod_same in E by lia. lia.
    + rewrite Nat.mod_small in E by lia. lia.
  - destruct (_ || _); [|exact (ADV tt H eq_refl)].
    assert (FB : ((high + N_ - 1) mod N_ < N_ /\ (high + N_ - 1) mod N_ <> high)%nat).
    { pose proof (Nat.mod_upper_bound (high + N_ - 1) N_ ltac:(lia)). split; [lia|]. intros E.
      destruct (Nat.eq_dec high 0) as [->|Hh].
      - rewrite Nat.mod_small in E by lia. lia.
      - replace (high + N_ - 1)%nat with ((high - 1) + 1 * N_)%nat in E by lia. rewrite Nat.mod_add in E by lia.
        rewrite Nat.mod_small in E by lia. lia. }
    destruct (nth _ sl None) as [hf|]; [inversion H; subst; lia|].
    destruct r; [inversion H; subst; lia| discriminate].
Qed.

(* ---------- device operations on a fault-free device ---------- *)
Record keeps (d d' : dev) : Prop := { k_fail : dfail d' = None; k_blk : dblk d' = dblk d; k_tot : dtotal d' = dtotal d }.
Lemma keeps_refl d : dfail d = None -> keeps d d. Proof. intros F. constructor; auto. Qed.
Lemma keeps_trans a b c : keeps a b -> keeps b c -> keeps a c.
Proof. intros [A1 A2 A3] [B1 B2 B3]. constructor; congruence. Qed.

Lemma d_read_keeps d a len d' r : dfail d = None -> d_read d a len = (d', r) -> keeps d d' /\ dmem d' = dmem d.
Proof.
  intros F H. unfold d_read in H. destruct (dtotal d <? a + len); [inversion H; subst; split; [constructor; auto| reflexivity]|].
  unfold tick in H. rewrite F in H. inversion H; subst. split; [constructor; reflexivity| reflexivity].
Qed.

Lemma d_erase_ok d a d' : dfail d = None -> d_erase d a = (d', true) ->
  keeps d d' /\ forall x, dmem d' x = if (a <=? x) && (x <? a + dblk d) then 255 else dmem d x.
Proof.
  intros F H. unfold d_erase in H. destruct (negb (a mod dblk d =? 0)); [discriminate|].
  destruct ((dtotal d <=? a) || (dtotal d <? a + dblk d)); [discriminate|].
  unfold tick in H. rewrite F in H. inversion H; subst. split; [constructor; reflexivity|]. intros x. reflexivity.
Qed.

Lemma erase_blocks_ok : forall k a d d', dfail d = None -> erase_blocks k a d = (d', true) ->
  keeps d d' /\ forall x, dmem d' x = if (a <=? x) && (x <? a + N.of_nat k * dblk d) then 255 else dmem d x.
Proof.
  induction k as [|k IH]; intros a d d' F H; cbn [erase_blocks] in H.
  - inversion H; subst. split; [apply keeps_refl; exact F|]. intros x.
    destruct ((a <=? x) && (x <? a + N.of_nat 0 * dblk d')) eqn:C; [|reflexivity]. lia.
  - destruct (d_erase d a) as [d1 [|]] eqn:E; [|discriminate].
    destruct (d_erase_ok d a d1 F E) as [K1 M1].
    destruct (IH (a + dblk d) d1 d' (k_fail _ _ K1) H) as [K2 M2].
    split; [eapply keeps_trans; eassumption|]. intros x. rewrite M2, M1, (k_blk _ _ K1).
    destruct ((a + dblk d <=? x) && (x <? a + dblk d + N.of_nat k * dblk d)) eqn:C1;
    destruct ((a <=? x) && (x <? a + dblk d)) eqn:C2;
    destruct ((a <=? x) && (x <? a + N.of_nat (S k) * dblk d)) eqn:C3; try reflexivity; lia.
Qed.

Lemma clear_ok m i d d' : dfail d = None -> clear m i d = (d', ROk tt) ->
  keeps d d' /\ forall x, dmem d' x = if (base m i <=? x) && (x <? base m i + m_size m) then 255 else dmem d x.
Proof.
  intros F H. unfold clear in H.
  destruct (N.eqb_spec (dblk d) 0) as [|NZ]; [discriminate|]. cbn [orb] in H.
  destruct (N.eqb_spec (m_size m mod dblk d) 0) as [DV|]; [|discriminate]. cbn [negb] in H.
  destruct (erase_blocks (N.to_nat (m_size m / dblk d)) (base m i) d) as [d1 [|]] eqn:E; [|discriminate].
  inversion H; subst. destruct (erase_blocks_ok _ _ _ _ F E) as [K M]. split; [exact K|].
  intros x. rewrite M. replace (N.of_nat (N.to_nat (m_size m / dblk d)) * dblk d) with (m_size m); [reflexivity|].
  rewrite N2Nat.id. pose proof (N.div_mod (m_size m) (dblk d) NZ). lia.
Qed.

Lemma prog_word_ok m i off v d d' : dfail d = None -> prog_word m i off v d = (d', ROk tt) ->
  keeps d d' /\ forall x, (x < base m i + off \/ base m i + off + 4 <= x) -> dmem d' x = dmem d x.
Proof.
  intros F H. unfold prog_word in H. destruct (d_prog d (base m i + off) 4 v) as [d1 [|]] eqn:P; [|discriminate].
  inversion H; subst. unfold d_prog in P. destruct (dtotal d <? base m i + off + 4); [discriminate|].
  unfold tick in P. rewrite F in P. inversion P; subst. split; [constructor; reflexivity|].
  intros x Hx. cbn [dmem set_mem]. apply program_outside. lia.
Qed.

Lemma set_layout_ok m i c z d d' : dfail d = None -> set_layout m i c z d = (d', ROk tt) ->
  keeps d d' /\ forall x, (x < base m i \/ base m i + SLOT_HEADER_SIZE <= x) -> dmem d' x = dmem d x.
Proof.
  intros F H. unfold set_layout in H. destruct (m_size m - DATA_REGION_OFFSET <? sat_mul32 c z); [discriminate|].
  destruct (prog_word m i NUMBER_OF_SEGMENTS_OFFSET c d) as [d1 [[]|e|]] eqn:P1; try discriminate.
  destruct (prog_word_ok _ _ _ _ _ _ F P1) as [K1 M1]. destruct (prog_word_ok _ _ _ _ _ _ (k_fail _ _ K1) H) as [K2 M2].
  split; [eapply keeps_trans; eassumption|]. intros x Hx.
  unfold SLOT_HEADER_SIZE, NUMBER_OF_SEGMENTS_OFFSET, SEGMENT_SIZE_OFFSET in *. rewrite M2, M1 by lia. reflexivity.
Qed.

Lemma load_header_keeps m i d d' r : dfail d = None -> load_header m i d = (d', r) -> keeps d d' /\ dmem d' = dmem d.
Proof.
  intros F H. unfold load_header in H. destruct (d_read d (base m i) SLOT_HEADER_SIZE) as [d1 [v|]] eqn:R; inversion H; subst; exact (d_read_keeps _ _ _ _ _ F R).
Qed.

Lemma load_headers_from_ok m : forall is d d' hs, dfail d = None -> load_headers_from m is d = (d', Some hs) ->
  keeps d d' /\ dmem d' = dmem d /\ length hs = length is.
Proof.
  induction is as [|i tl IH]; intros d d' hs F H; cbn [load_headers_from] in H.
  - inversion H; subst. split; [apply keeps_refl; exact F|]. split; reflexivity.
  - destruct (load_header m i d) as [d1 [h|]] eqn:L; [|discriminate].
    destruct (load_header_keeps _ _ _ _ _ F L) as [K1 M1].
    destruct (load_headers_from m tl d1) as [d2 [hs2|]] eqn:L2; [|discriminate]. inversion H; subst.
    destruct (IH d1 d' hs2 (k_fail _ _ K1) L2) as (K2 & M2 & Len).
    split; [eapply keeps_trans; eassumption|]. split; [congruence| cbn [length]; congruence].
Qed.

(* ---------- start_update ---------- *)
Definition erased_behind_header (m : mgr) (i : nat) (mm : mem) : Prop :=
  forall x, base m i + HEADER_SIZE <= x < base m i + m_size m -> mm x = 255.

Lemma base_disjoint m a b : (a <> b)%nat -> base m a + m_size m <= base m b \/ base m b + m_size m <= base m a.
Proof.
  intros H. unfold base. destruct (Nat.lt_ge_cases a b) as [L|L].
  - left. assert (N.of_nat a + 1 <= N.of_nat b) by lia. pose proof (N.mul_le_mono_r _ _ (m_size m) H0) as Q. rewrite N.mul_add_distr_r in Q. lia.
  - right. assert (N.of_nat b + 1 <= N.of_nat a) by lia. pose proof (N.mul_le_mono_r _ _ (m_size m) H0) as Q. rewrite N.mul_add_distr_r in Q. lia.
Qed.

Theorem start_update_establishes m sz cnt d d' u :
  (2 <= m_slots m)%nat -> m_size m - DATA_REGION_OFFSET < 4294967295 -> dfail d = None ->
  start_update m sz cnt d = (d', ROk u) ->
  let g := geo_of m (u_fw u) (u_par u) sz cnt in
  Store.wfgeo g /\
  u_rd u = rinit (N.to_nat cnt) sz /\ u_maxl u = N.to_nat (Store.capL g) /\ u_moff u = Store.capL g * sz /\ u_cache u = Some sz /\
  dfail d' = None /\ erased_behind_header m (u_fw u) (dmem d') /\ erased_behind_header m (u_par u) (dmem d').
Proof.
  intros HN HS F H. unfold start_update in H.
  destruct (reasonably_sized m sz cnt) eqn:RS; [discriminate|].
  apply (reasonably_sized_iff m sz cnt HS) in RS. destruct RS as (Hsz & Hcnt & Hfit).
  destruct (alloc_slotpair m d) as [d1 [[a b]|e|]] eqn:AL; try discriminate.
  destruct (prog_word m a KIND_OFFSET KIND_FIRMWARE d1) as [d2 [[]|e|]] eqn:P1; try discriminate.
  destruct (set_layout m a cnt sz d2) as [d3 [[]|e|]] eqn:L1; try discriminate.
  destruct (prog_word m b KIND_OFFSET KIND_PARITY d3) as [d4 [[]|e|]] eqn:P2; try discriminate.
  destruct (set_layout m b (max_l (m_size m) sz) sz d4) as [d5 [[]|e|]] eqn:L2; try discriminate.
  inversion H; subst. cbn [u_fw u_par u_rd u_maxl u_moff u_cache]. clear H.
  (* inside alloc_slotpair *)
  unfold alloc_slotpair in AL.
  destruct (load_headers m d) as [d0 [hs|]] eqn:LH; [|discriminate].
  destruct (load_headers_from_ok m _ _ _ _ F LH) as (K0 & M0 & Len). rewrite seq_length in Len.
  destruct (alloc_fixed hs) as [[[[a0 b0] s1] s2]|] eqn:AF; [|discriminate].
  assert (HL : (2 <= length hs)%nat) by lia.
  destruct (alloc_pair_wf _ _ _ hs _ _ _ _ HL AF) as (Ha & Hb & Hab).
  destruct (clear m b0 d0) as [c1 [[]|e|]] eqn:C1; try discriminate.
  destruct (clear m a0 c1) as [c2 [[]|e|]] eqn:C2; try discriminate.
  destruct (prog_word m a0 SEQUENCE_NUMBER_OFFSET s1 c2) as [c3 [[]|e|]] eqn:Q1; try discriminate.
  destruct (prog_word m b0 SEQUENCE_NUMBER_OFFSET s2 c3) as [c4 [[]|e|]] eqn:Q2; try discriminate.
  inversion AL; subst. clear AL.
  destruct (clear_ok _ _ _ _ (k_fail _ _ K0) C1) as [K1 E1].
  destruct (clear_ok _ _ _ _ (k_fail _ _ K1) C2) as [K2 E2].
  destruct (prog_word_ok _ _ _ _ _ _ (k_fail _ _ K2) Q1) as [K3 E3].
  destruct (prog_word_ok _ _ _ _ _ _ (k_fail _ _ K3) Q2) as [K4 E4].
  destruct (prog_word_ok _ _ _ _ _ _ (k_fail _ _ K4) P1) as [K5 E5].
  destruct (set_layout_ok _ _ _ _ _ _ (k_fail _ _ K5) L1) as [K6 E6].
  destruct (prog_word_ok _ _ _ _ _ _ (k_fail _ _ K6) P2) as [K7 E7].
  destruct (set_layout_ok _ _ _ _ _ _ (k_fail _ _ K7) L2) as [K8 E8].
  pose proof (base_disjoint m a b Hab) as DJ.
  split.
  { constructor; cbn [geo_of Store.sz Store.nseg Store.ssize Store.fw Store.pa]; unfold MAX_SEGMENTS, DATA_REGION_OFFSET in *; try lia. }
  split; [reflexivity|]. split; [reflexivity|]. split; [reflexivity|]. split; [reflexivity|]. split; [exact (k_fail _ _ K8)|].
  unfold erased_behind_header, HEADER_SIZE, SLOT_HEADER_SIZE, SEQUENCE_NUMBER_OFFSET, KIND_OFFSET in *.
  split; intros x Hx.
  - rewrite E8, E7, E6, E5, E4, E3 by lia. rewrite E2.
    destruct ((base m a <=? x) && (x <? base m a + m_size m)) eqn:C; [reflexivity| lia].
  - rewrite E8, E7, E6, E5, E4, E3 by lia. rewrite E2.
    destruct ((base m a <=? x) && (x <? base m a + m_size m)) eqn:C; [reflexivity|]. rewrite E1.
    destruct ((base m b <=? x) && (x <? base m b + m_size m)) eqn:C'; [reflexivity| lia].
Qed.

(* ---------- start, deliver, complete: the whole update on the byte-level model ---------- *)
Theorem mgr_update_sound m sz cnt (checked ffr : bool) (X : nat -> N) segs d d1 u d' u' outs :
  (2 <= m_slots m)%nat -> m_size m - DATA_REGION_OFFSET < 4294967295 -> dfail d = None ->
  start_update m sz cnt d = (d1, ROk u) ->
  (forall i, N.of_nat i < cnt -> X i < 2 ^ (8 * sz)) ->
  Forall (Recon.consistent (updater_row ffr (N.to_nat cnt)) (N.to_nat cnt) X) (map conv segs) ->
  feed m checked ffr u d1 segs = Some (d', u', outs) ->
  In FirmwareComplete outs ->
  forall i, (i < N.to_nat cnt)%nat ->
    dmem d' (base m (u_fw u) + HEADER_SIZE + N.of_nat i) = DATA_WRITTEN /\
    read (dmem d') (base m (u_fw u) + DATA_REGION_OFFSET + N.of_nat i * sz) sz = X i.
Proof.
  intros HN HS F ST HX HC FD Hin.
  destruct (start_update_establishes m sz cnt d d1 u HN HS F ST) as (W & Hr & Hm & Ho & Hc & F1 & Ea & Eb).
  apply (mgr_session_sound m (u_fw u) (u_par u) sz cnt checked ffr X segs u d1 d' u' outs W eq_refl eq_refl Hr Hm Ho Hc F1); try assumption.
  intros x [Hx|Hx]; [apply Ea| apply Eb]; exact Hx.
Qed.

(* non-vacuity: a concrete session on a blank 4-slot device (n = 3 fragments of 4 bytes, fragment 2 lost, then two coded
   fragments) meets every hypothesis of the theorem and reaches FirmwareComplete *)
Definition ex_m := mkmgr 4 17664.
Definition ex_X (i : nat) : N := match i with 0%nat => 287454020 | 1%nat => 1432778632 | _ => 2576980377 end.
Definition ex_P := updater_row false 3.
Definition ex_segs : list (N * N) :=
  [(1, ex_X 0%nat); (3, ex_X 2%nat); (4, Recon.enc ex_P 3 ex_X 3); (5, Recon.enc ex_P 3 ex_X 4); (6, Recon.enc ex_P 3 ex_X 5); (7, Recon.enc ex_P 3 ex_X 6)].
Example mgr_update_sound_nonvacuous :
  match start_update ex_m 4 3 (blank_dev 70656 256) with
  | (d1, ROk u) =>
      match feed ex_m true false u d1 ex_segs with
      | Some (d', u', outs) => existsb (fun o => match o with FirmwareComplete => true | Consumed => false end) outs = true /\
                               forallb (fun p => snd (conv p) =? Recon.enc ex_P 3 ex_X (fst (conv p))) ex_segs = true /\
                               forallb (fun i => read (dmem d') (base ex_m (u_fw u) + DATA_REGION_OFFSET + N.of_nat i * 4) 4 =? ex_X i) [0;1;2]%nat = true
      | None => False
      end
  | _ => False
  end.
Proof. vm_compute. repeat split; reflexivity. Qed.

Print Assumptions start_update_establishes.
Print Assumptions mgr_update_sound.
