From Coq Require Import List NArith Arith Bool Lia.
Require Import Nor Geom Store GRecon.
Import ListNotations.
Open Scope N_scope.

(* ---------- the two storage instances ---------- *)
Record amap := { adat : nat -> option N; apar : nat -> option N; amat : nat -> option N }.
Definition getb (o : option N) : N := match o with Some b => b | None => 0 end.
Definition map_sto : sto amap := {|
  dget := fun a i => getb (adat a i); dput := fun a i b => {| adat := upd (adat a) i (Some b); apar := apar a; amat := amat a |};
  pget := fun a k => getb (apar a k); pput := fun a k b => {| adat := adat a; apar := upd (apar a) k (Some b); amat := amat a |};
  mget := fun a k => getb (amat a k); mput := fun a k r => {| adat := adat a; apar := apar a; amat := upd (amat a) k (Some r) |} |}.

Definition flash_sto (g : geo) : sto mem := {|
  dget := fun m i => c_dget g m (N.of_nat i); dput := fun m i b => c_dstore g m (N.of_nat i) b;
  pget := fun m k => c_pget g m (N.of_nat k); pput := fun m k b => c_pstore g m (N.of_nat k) b;
  mget := fun m k => c_mget g m (N.of_nat k); mput := fun m k r => c_mset g m (N.of_nat k) r |}.

(* ---------- the refinement relation ---------- *)
Definition tri (r : N) (k : nat) : Prop := N.testbit r (N.of_nat k) = true /\ forall j, N.of_nat k < j -> N.testbit r j = false.

Record Rel (g : geo) (a : amap) (m : mem) : Prop := {
  R_d : forall i, N.of_nat i < nseg g -> dview g m (N.of_nat i) = adat a i;
  R_df : forall i, N.of_nat i < nseg g -> adat a i = None -> fresh_d g m (N.of_nat i);
  R_p : forall k, N.of_nat k < capL g -> pview g m (N.of_nat k) = apar a k /\ mview g m (N.of_nat k) = amat a k;
  R_pf : forall k, N.of_nat k < capL g -> apar a k = None -> fresh_p g m (N.of_nat k);
  R_coh : forall k, apar a k = None <-> amat a k = None;
  R_bd : forall i b, adat a i = Some b -> b < 2 ^ (8 * sz g);
  R_bp : forall k b, apar a k = Some b -> b < 2 ^ (8 * sz g)
}.

(* reading what the abstract side knows gives the same value on flash *)
Lemma rel_dget g a m i v : Rel g a m -> N.of_nat i < nseg g -> adat a i = Some v -> c_dget g m (N.of_nat i) = v.
Proof.
  intros R Hi Hv. pose proof (R_d g a m R i Hi) as H. rewrite Hv in H. unfold dview in H.
  destruct (m (saddr g (N.of_nat i)) =? MARK); inversion H. reflexivity.
Qed.
Lemma rel_pget g a m k v : Rel g a m -> N.of_nat k < capL g -> apar a k = Some v -> c_pget g m (N.of_nat k) = v.
Proof.
  intros R Hk Hv. destruct (R_p g a m R k Hk) as [H _]. rewrite Hv in H. unfold pview in H.
  destruct (mused g m (N.of_nat k)); inversion H. reflexivity.
Qed.
Lemma rel_mget g a m k v : Rel g a m -> N.of_nat k < capL g -> amat a k = Some v -> c_mget g m (N.of_nat k) = v.
Proof.
  intros R Hk Hv. destruct (R_p g a m R k Hk) as [_ H]. rewrite Hv in H. unfold mview in H.
  destruct (mused g m (N.of_nat k)); inversion H. reflexivity.
Qed.

Lemma lxor_bound a b k : a < 2 ^ k -> b < 2 ^ k -> N.lxor a b < 2 ^ k.
Proof.
  intros Ha Hb. destruct (N.eq_dec (N.lxor a b) 0) as [->|Hne]; [apply N.neq_0_lt_0, N.pow_nonzero; discriminate|].
  assert (Hk : 0 < k).
  { destruct (N.eq_dec k 0) as [->|]; [|lia]. exfalso. rewrite N.pow_0_r in *. assert (a = 0) by lia. assert (b = 0) by lia. subst. apply Hne. reflexivity. }
  apply N.log2_lt_pow2; [lia|]. eapply N.le_lt_trans; [apply N.log2_lxor|]. apply N.max_lub_lt.
  - destruct (N.eq_dec a 0) as [->|]; [exact Hk| apply N.log2_lt_pow2; lia].
  - destruct (N.eq_dec b 0) as [->|]; [exact Hk| apply N.log2_lt_pow2; lia].
Qed.

(* ---------- storing a data block keeps the relation ---------- *)
Lemma rel_dput g a m i b : wfgeo g -> Rel g a m -> N.of_nat i < nseg g -> adat a i = None -> b < 2 ^ (8 * sz g) ->
  Rel g (dput map_sto a i b) (dput (flash_sto g) m i b).
Proof.
  intros W R Hi Hn Hb. cbn [dput map_sto flash_sto].
  constructor; cbn [adat apar amat].
  - intros j Hj. unfold upd. destruct (Nat.eqb_spec j i) as [->|Hne].
    + apply dstore_same; try assumption. apply (R_df g a m R i Hi Hn).
    + rewrite dstore_other; try assumption; [apply (R_d g a m R j Hj)| lia].
  - intros j Hj. unfold upd. destruct (Nat.eqb_spec j i) as [->|Hne]; [discriminate|]. intros Hjn.
    apply dstore_fresh_other; try assumption; [lia| apply (R_df g a m R j Hj Hjn)].
  - intros k Hk. unfold c_dstore.
    (* the parity slot is untouched by programs in the firmware slot *)
    destruct (dstore_confined g (N.of_nat i) W Hi) as (D1 & D2 & D3 & D4). destruct (addr_facts g (N.of_nat k) W Hk) as (A1 & A2 & A3 & A4).
    pose proof (g_disj g W) as Hd. assert (Hkl : N.of_nat k / 8 < rowlen (N.of_nat k)) by (unfold rowlen; lia).
    destruct (R_p g a m R k Hk) as [P1 P2]. rewrite <- P1, <- P2. unfold pview, mview, mused, c_pget, c_mget, diag, pbase, HEADER_SIZE in *.
    rewrite !program_outside by lia. rewrite !read_program_disjoint by lia. split; reflexivity.
  - intros k Hk Hkn. destruct (R_pf g a m R k Hk Hkn) as [E1 E2]. unfold c_dstore.
    destruct (dstore_confined g (N.of_nat i) W Hi) as (D1 & D2 & D3 & D4). destruct (addr_facts g (N.of_nat k) W Hk) as (A1 & A2 & A3 & A4).
    pose proof (g_disj g W) as Hd. unfold pbase, HEADER_SIZE in *.
    split; repeat apply erased_program_disjoint; try assumption; lia.
  - apply (R_coh g a m R).
  - intros j v. unfold upd. destruct (Nat.eqb_spec j i) as [->|]; [intros H; inversion H; subst; exact Hb| apply (R_bd g a m R)].
  - apply (R_bp g a m R).
Qed.

(* ---------- storing a pivot (parity block then row) keeps the relation ---------- *)
Lemma rel_pmput g a m k b r : wfgeo g -> Rel g a m -> N.of_nat k < capL g -> apar a k = None -> b < 2 ^ (8 * sz g) -> tri r k ->
  Rel g (mput map_sto (pput map_sto a k b) k r) (mput (flash_sto g) (pput (flash_sto g) m k b) k r).
Proof.
  intros W R Hk Hn Hb [T1 T2]. cbn [mput pput map_sto flash_sto adat apar amat].
  pose proof (R_pf g a m R k Hk Hn) as Hf.
  destruct (pm_store_same g m (N.of_nat k) b r W Hk Hf Hb T1 T2) as [S1 S2].
  constructor; cbn [adat apar amat].
  - intros i Hi. rewrite pm_store_data by assumption. apply (R_d g a m R i Hi).
  - intros i Hi Hin. destruct (R_df g a m R i Hi Hin) as [E1 E2]. unfold c_mset, c_pstore.
    destruct (dstore_confined g (N.of_nat i) W Hi) as (D1 & D2 & D3 & D4). destruct (addr_facts g (N.of_nat k) W Hk) as (A1 & A2 & A3 & A4).
    pose proof (g_disj g W) as Hd. unfold pbase, HEADER_SIZE in *. split.
    + repeat apply erased_program_disjoint; try assumption; lia.
    + rewrite !program_outside by lia. exact E2.
  - intros j Hj. unfold upd. destruct (Nat.eqb_spec j k) as [->|Hne]; [split; assumption|].
    destruct (pm_store_other g m (N.of_nat k) b r (N.of_nat j) W Hk Hj ltac:(lia)) as (O1 & O2 & _). rewrite O1, O2. apply (R_p g a m R j Hj).
  - intros j Hj. unfold upd. destruct (Nat.eqb_spec j k) as [->|Hne]; [discriminate|]. intros Hjn.
    destruct (pm_store_other g m (N.of_nat k) b r (N.of_nat j) W Hk Hj ltac:(lia)) as (_ & _ & O3). apply O3, (R_pf g a m R j Hj Hjn).
  - intros j. unfold upd. destruct (Nat.eqb_spec j k); [split; discriminate| apply (R_coh g a m R)].
  - apply (R_bd g a m R).
  - intros j v. unfold upd. destruct (Nat.eqb_spec j k) as [->|]; [intros H; inversion H; subst; exact Hb| apply (R_bp g a m R)].
Qed.

(* ---------- paired states ---------- *)
Definition B (g : geo) : N := 2 ^ (8 * sz g).
Record Pair (g : geo) (sa : gst amap) (sc : gst mem) : Prop := {
  P_n : n sc = n sa; P_l : l sc = l sa; P_bs : bs sc = bs sa;
  P_done : forall i, done sc i = done sa i; P_used : forall i, used sc i = used sa i;
  P_rel : Rel g (store sa) (store sc)
}.
(* what the abstract side guarantees about the domains of its maps; [fin] unknowns have been written by finish *)
Record Good (g : geo) (sa : gst amap) (fin : nat) : Prop := {
  G_n : N.of_nat (n sa) = nseg g;
  G_l : N.of_nat (l sa) <= capL g;
  G_d1 : forall i, (i < n sa)%nat -> done sa i = true -> adat (store sa) i <> None;
  G_d0 : forall i, (i < n sa)%nat -> done sa i = false -> (adat (store sa) i <> None <-> exists j, (j < fin)%nat /\ i = unk sa j);
  G_u1 : forall k, (k < l sa)%nat -> used sa k = true -> apar (store sa) k <> None;
  G_u0 : forall k, used sa k = false -> apar (store sa) k = None;
  G_tri : forall k r, amat (store sa) k = Some r -> tri r k;
  G_ur : forall k, used sa k = true -> (k < l sa)%nat
}.

(* functions that only look at the bookkeeping fields agree *)
Lemma unknowns_pair g sa sc : Pair g sa sc -> unknowns sc = unknowns sa.
Proof. intros P. unfold unknowns. rewrite (P_n g sa sc P). apply filter_ext. intros i. now rewrite (P_done g sa sc P). Qed.
Lemma missing_pair g sa sc : Pair g sa sc -> missing sc = missing sa.
Proof. intros P. unfold missing. now rewrite (unknowns_pair g sa sc P). Qed.
Lemma unk_pair g sa sc j : Pair g sa sc -> unk sc j = unk sa j.
Proof. intros P. unfold unk. now rewrite (unknowns_pair g sa sc P). Qed.
Lemma project_pair g sa sc r : Pair g sa sc -> project sc r = project sa r.
Proof. intros P. unfold project. now rewrite (unknowns_pair g sa sc P). Qed.
Lemma forallb_ext' {A} (f h : A -> bool) L : (forall x, f x = h x) -> forallb f L = forallb h L.
Proof. intros H. induction L as [|a L IH]; [reflexivity|]. cbn [forallb]. now rewrite H, IH. Qed.
Lemma is_complete_pair g sa sc : Pair g sa sc -> is_complete sc = is_complete sa.
Proof.
  intros P. unfold is_complete. rewrite (P_l g sa sc P), (P_n g sa sc P).
  destruct (Nat.eqb (l sa) 0); apply forallb_ext'; [apply (P_done g sa sc P)| apply (P_used g sa sc P)].
Qed.

(* ---------- strip ---------- *)
Lemma strip_sim g sa sc fin r d : Pair g sa sc -> Good g sa fin -> d < B g ->
  strip (flash_sto g) sc r d = strip map_sto sa r d /\ strip map_sto sa r d < B g.
Proof.
  intros P G Hd. unfold strip. rewrite (P_n g sa sc P).
  assert (H : forall L d, (forall i, In i L -> (i < n sa)%nat) -> d < B g ->
     fold_left (fun d i => if bit r i && done sc i then N.lxor d (dget (flash_sto g) (store sc) i) else d) L d =
     fold_left (fun d i => if bit r i && done sa i then N.lxor d (dget map_sto (store sa) i) else d) L d /\
     fold_left (fun d i => if bit r i && done sa i then N.lxor d (dget map_sto (store sa) i) else d) L d < B g).
  { induction L as [|i L IH]; intros d0 HL Hd0; cbn [fold_left]; [split; [reflexivity| exact Hd0]|].
    rewrite (P_done g sa sc P). destruct (bit r i && done sa i) eqn:E.
    - apply andb_prop in E. destruct E as [_ Ed].
      assert (Hi : (i < n sa)%nat) by (apply HL; left; reflexivity).
      assert (HiN : N.of_nat i < nseg g) by (rewrite <- (G_n g sa fin G); lia).
      destruct (adat (store sa) i) as [v|] eqn:Ev; [|exfalso; apply (G_d1 g sa fin G i Hi Ed); exact Ev].
      cbn [dget flash_sto map_sto]. rewrite (rel_dget g _ _ i v (P_rel g sa sc P) HiN Ev), Ev. cbn [getb].
      apply IH; [intros j Hj; apply HL; right; exact Hj|]. apply lxor_bound; [exact Hd0| apply (R_bd g _ _ (P_rel g sa sc P) i v Ev)].
    - apply IH; [intros j Hj; apply HL; right; exact Hj| exact Hd0]. }
  apply H; [intros i Hi; apply in_seq in Hi; lia| exact Hd].
Qed.

(* ---------- elimination ---------- *)
Definition hc (r : N) (wh : nat) : Prop := forall j, N.of_nat wh < j -> N.testbit r j = false.

Definition pivot_a (sa : gst amap) (wh : nat) (r d : N) : gst amap :=
  mkg (n sa) (l sa) (bs sa) (done sa) (upd (used sa) wh true) (mput map_sto (pput map_sto (store sa) wh d) wh r).
Definition pivot_c (g : geo) (sc : gst mem) (wh : nat) (r d : N) : gst mem :=
  mkg (n sc) (l sc) (bs sc) (done sc) (upd (used sc) wh true) (mput (flash_sto g) (pput (flash_sto g) (store sc) wh d) wh r).

Lemma unk_fields (sa sa' : gst amap) j : n sa' = n sa -> (forall i, done sa' i = done sa i) -> unk sa' j = unk sa j.
Proof. intros Hn Hd. unfold unk, unknowns. rewrite Hn. f_equal. apply filter_ext. intros i. now rewrite Hd. Qed.

Lemma store_pair g sa sc wh r d : wfgeo g -> Pair g sa sc -> Good g sa 0 ->
  (wh < l sa)%nat -> used sa wh = false -> bit r wh = true -> hc r wh -> d < B g ->
  Pair g (pivot_a sa wh r d) (pivot_c g sc wh r d) /\ Good g (pivot_a sa wh r d) 0.
Proof.
  intros W P G Hwh Hu Hb Hc Hd.
  assert (HwN : N.of_nat wh < capL g) by (pose proof (G_l g sa 0 G); lia).
  assert (Hnone : apar (store sa) wh = None) by (apply (G_u0 g sa 0 G); exact Hu).
  assert (Ht : tri r wh) by (split; [exact Hb| exact Hc]).
  pose proof (rel_pmput g (store sa) (store sc) wh d r W (P_rel g sa sc P) HwN Hnone Hd Ht) as HR.
  split.
  - constructor; cbn [pivot_a pivot_c n l bs done used store]; try apply P.
    + intros i. unfold upd. now rewrite (P_used g sa sc P).
    + exact HR.
  - constructor; cbn [pivot_a n l bs done used store mput pput map_sto adat apar amat].
    + apply (G_n g sa 0 G).
    + apply (G_l g sa 0 G).
    + apply (G_d1 g sa 0 G).
    + intros i Hi Hdn. rewrite (G_d0 g sa 0 G i Hi Hdn). split; intros (j & Hj & E); lia.
    + intros k' Hk' Hu'. unfold upd in *. destruct (Nat.eqb k' wh); [discriminate| apply (G_u1 g sa 0 G k' Hk' Hu')].
    + intros k' Hu'. unfold upd in *. destruct (Nat.eqb k' wh); [discriminate| apply (G_u0 g sa 0 G k' Hu')].
    + intros k' r'. unfold upd. destruct (Nat.eqb_spec k' wh) as [->|]; [intros Hq; inversion Hq; subst; exact Ht| apply (G_tri g sa 0 G)].
    + intros k' Hu'. unfold upd in Hu'. destruct (Nat.eqb_spec k' wh) as [Ek|Nk]; [subst k'; exact Hwh| apply (G_ur g sa 0 G k' Hu')].
Qed.

Lemma used_values g sa sc wh : Pair g sa sc -> Good g sa 0 -> (wh < l sa)%nat -> used sa wh = true ->
  exists p rr, apar (store sa) wh = Some p /\ amat (store sa) wh = Some rr /\
    pget (flash_sto g) (store sc) wh = p /\ mget (flash_sto g) (store sc) wh = rr /\ p < B g /\ tri rr wh.
Proof.
  intros P G Hwh Hu. assert (HwN : N.of_nat wh < capL g) by (pose proof (G_l g sa 0 G); lia).
  destruct (apar (store sa) wh) as [p|] eqn:Ep; [|exfalso; apply (G_u1 g sa 0 G wh Hwh Hu); exact Ep].
  destruct (amat (store sa) wh) as [rr|] eqn:Em; [|apply (R_coh g _ _ (P_rel g sa sc P)) in Em; congruence].
  exists p, rr. cbn [pget mget flash_sto]. repeat split; try reflexivity.
  - apply (rel_pget g _ _ wh p (P_rel g sa sc P) HwN Ep).
  - apply (rel_mget g _ _ wh rr (P_rel g sa sc P) HwN Em).
  - apply (R_bp g _ _ (P_rel g sa sc P) wh p Ep).
  - apply (G_tri g sa 0 G wh rr Em).
  - apply (G_tri g sa 0 G wh rr Em).
Qed.

Lemma hc_step r rr k : bit r (S k) = true -> hc r (S k) -> tri rr (S k) -> hc (N.lxor r rr) k.
Proof.
  intros Hb Hc [T1 T2] j Hj. rewrite N.lxor_spec. destruct (N.eq_dec j (N.of_nat (S k))) as [->|Hne].
  - unfold bit in Hb. rewrite Hb, T1. reflexivity.
  - rewrite Hc, T2 by lia. reflexivity.
Qed.

Lemma elim_sim g : wfgeo g -> forall sa sc, Pair g sa sc -> Good g sa 0 ->
  forall wh r d, (wh < l sa)%nat -> hc r wh -> d < B g ->
  Pair g (elim map_sto sa wh r d) (elim (flash_sto g) sc wh r d) /\ Good g (elim map_sto sa wh r d) 0 /\
  n (elim map_sto sa wh r d) = n sa /\ l (elim map_sto sa wh r d) = l sa /\ (forall i, done (elim map_sto sa wh r d) i = done sa i).
Proof.
  intros W sa sc P G. induction wh as [|k IH]; intros r d Hwh Hc Hd; cbn [elim]; rewrite (P_used g sa sc P).
  - destruct (bit r 0%nat) eqn:Hb; [destruct (used sa 0%nat) eqn:Hu|].
    + split; [exact P|]. split; [exact G|]. auto.
    + rewrite (P_n g sa sc P), (P_l g sa sc P), (P_bs g sa sc P).
      destruct (store_pair g sa sc 0%nat r d W P G Hwh Hu Hb Hc Hd) as [A Bq].
      unfold pivot_a, pivot_c in *. rewrite (P_n g sa sc P), (P_l g sa sc P), (P_bs g sa sc P) in A.
      split; [|split; [exact Bq| cbn [n l done]; auto]].
      destruct A as [A1 A2 A3 A4 A5 A6]. constructor; cbn [n l bs done used store] in *; auto.
    + split; [exact P|]. split; [exact G|]. auto.
  - destruct (bit r (S k)) eqn:Hb; [destruct (used sa (S k)) eqn:Hu|].
    + destruct (used_values g sa sc (S k) P G Hwh Hu) as (p & rr & Ep & Em & Cp & Cm & Hp & Ht).
      rewrite Cp, Cm. cbn [pget mget map_sto]. rewrite Ep, Em. cbn [getb].
      apply IH; [lia| apply hc_step; assumption| apply lxor_bound; assumption].
    + destruct (store_pair g sa sc (S k) r d W P G Hwh Hu Hb Hc Hd) as [A Bq].
      unfold pivot_a, pivot_c in *.
      split; [|split; [exact Bq| cbn [n l done]; auto]].
      destruct A as [A1 A2 A3 A4 A5 A6]. constructor; cbn [n l bs done used store] in *; auto.
    + apply IH; [lia| | exact Hd]. intros j Hj. destruct (N.eq_dec j (N.of_nat (S k))) as [->|Hne]; [exact Hb| apply Hc; lia].
Qed.

(* ---------- unknown-index bookkeeping (GRecon's unk) ---------- *)
Lemma unk_spec' (s : gst amap) j : (j < missing s)%nat -> (unk s j < n s)%nat /\ done s (unk s j) = false.
Proof.
  intros Hj. unfold unk, missing in *. pose proof (nth_In (unknowns s) 0%nat Hj) as Hin.
  unfold unknowns in Hin at 2. apply filter_In in Hin. destruct Hin as [Hin Hb]. apply in_seq in Hin.
  split; [lia|]. now destruct (done s (nth j (unknowns s) 0%nat)).
Qed.
Lemma unk_inj' (s : gst amap) j j' : (j < missing s)%nat -> (j' < missing s)%nat -> unk s j = unk s j' -> j = j'.
Proof. intros. unfold unk, missing in *. eapply NoDup_nth; eauto. unfold unknowns. apply NoDup_filter, seq_NoDup. Qed.

Lemma used_values' g sa sc fin wh : Pair g sa sc -> Good g sa fin -> (wh < l sa)%nat -> used sa wh = true ->
  exists p rr, apar (store sa) wh = Some p /\ amat (store sa) wh = Some rr /\
    pget (flash_sto g) (store sc) wh = p /\ mget (flash_sto g) (store sc) wh = rr /\ p < B g /\ tri rr wh.
Proof.
  intros P G Hwh Hu. assert (HwN : N.of_nat wh < capL g) by (pose proof (G_l g sa fin G); lia).
  destruct (apar (store sa) wh) as [p|] eqn:Ep; [|exfalso; apply (G_u1 g sa fin G wh Hwh Hu); exact Ep].
  destruct (amat (store sa) wh) as [rr|] eqn:Em; [|apply (R_coh g _ _ (P_rel g sa sc P)) in Em; congruence].
  exists p, rr. cbn [pget mget flash_sto]. repeat split; try reflexivity.
  - apply (rel_pget g _ _ wh p (P_rel g sa sc P) HwN Ep).
  - apply (rel_mget g _ _ wh rr (P_rel g sa sc P) HwN Em).
  - apply (R_bp g _ _ (P_rel g sa sc P) wh p Ep).
  - apply (G_tri g sa fin G wh rr Em).
  - apply (G_tri g sa fin G wh rr Em).
Qed.

(* ---------- one row of the back substitution ---------- *)
Lemma finish_row_sim g sa sc i : wfgeo g -> Pair g sa sc -> Good g sa i ->
  l sa = missing sa -> (forall k, (k < l sa)%nat -> used sa k = true) -> (i < l sa)%nat ->
  Pair g (finish_row map_sto sa i) (finish_row (flash_sto g) sc i) /\ Good g (finish_row map_sto sa i) (S i) /\
  n (finish_row map_sto sa i) = n sa /\ l (finish_row map_sto sa i) = l sa /\
  (forall j, done (finish_row map_sto sa i) j = done sa j) /\ (forall j, used (finish_row map_sto sa i) j = used sa j).
Proof.
  intros W P G Hl Hall Hi.
  destruct (used_values' g sa sc i i P G Hi (Hall i Hi)) as (p & rr & Ep & Em & Cp & Cm & Hp & Ht).
  unfold finish_row. rewrite Cp, Cm. cbn [pget mget map_sto]. rewrite Ep, Em. cbn [getb].
  (* the XOR over the already reconstructed blocks agrees and stays bounded *)
  assert (H : forall L o, (forall j, In j L -> (j < i)%nat) -> o < B g ->
     fold_left (fun o j => if bit rr j then N.lxor o (dget (flash_sto g) (store sc) (unk sc j)) else o) L o =
     fold_left (fun o j => if bit rr j then N.lxor o (dget map_sto (store sa) (unk sa j)) else o) L o /\
     fold_left (fun o j => if bit rr j then N.lxor o (dget map_sto (store sa) (unk sa j)) else o) L o < B g).
  { induction L as [|j L IH]; intros o HL Ho; cbn [fold_left]; [split; [reflexivity| exact Ho]|].
    assert (Hj : (j < i)%nat) by (apply HL; left; reflexivity).
    destruct (bit rr j); [|apply IH; [intros x Hx; apply HL; right; exact Hx| exact Ho]].
    rewrite (unk_pair g sa sc j P).
    destruct (unk_spec' sa j ltac:(lia)) as [Hun Hud].
    assert (HuN : N.of_nat (unk sa j) < nseg g) by (rewrite <- (G_n g sa i G); lia).
    destruct (adat (store sa) (unk sa j)) as [v|] eqn:Ev.
    2:{ exfalso. apply (G_d0 g sa i G (unk sa j) Hun Hud); [exists j; split; [exact Hj| reflexivity]| exact Ev]. }
    cbn [dget flash_sto map_sto]. rewrite (rel_dget g _ _ _ v (P_rel g sa sc P) HuN Ev), Ev. cbn [getb].
    apply IH; [intros x Hx; apply HL; right; exact Hx|]. apply lxor_bound; [exact Ho| apply (R_bd g _ _ (P_rel g sa sc P) _ v Ev)]. }
  destruct (H (seq 0 i) p ltac:(intros j Hj; apply in_seq in Hj; lia) Hp) as [Heq Hout]. rewrite Heq.
  match type of Hout with ?o < _ => set (out := o) in * end. unfold B in Hout.
  rewrite (unk_pair g sa sc i P).
  destruct (unk_spec' sa i ltac:(lia)) as [Hun Hud].
  assert (HuN : N.of_nat (unk sa i) < nseg g) by (rewrite <- (G_n g sa i G); lia).
  assert (Hnone : adat (store sa) (unk sa i) = None).
  { destruct (adat (store sa) (unk sa i)) eqn:E; [|reflexivity]. exfalso.
    assert (Q : adat (store sa) (unk sa i) <> None) by congruence.
    apply (G_d0 g sa i G (unk sa i) Hun Hud) in Q. destruct Q as (j & Hj & Ej). apply unk_inj' in Ej; lia. }
  pose proof (rel_dput g (store sa) (store sc) (unk sa i) out W (P_rel g sa sc P) HuN Hnone Hout) as HR.
  split; [|split; [|cbn [n l done used]; auto]].
  - constructor; cbn [n l bs done used store]; try apply P. exact HR.
  - set (sa' := mkg (n sa) (l sa) (bs sa) (done sa) (used sa) (dput map_sto (store sa) (unk sa i) out)).
    assert (Hunk : forall j, unk sa' j = unk sa j) by (intros j; apply unk_fields; reflexivity).
    constructor; unfold sa' at 1; cbn [n l bs done used store dput map_sto adat apar amat]; try (unfold sa'; cbn [n l bs done used store dput map_sto adat apar amat]).
    + apply (G_n g sa i G).
    + apply (G_l g sa i G).
    + intros x Hx Hdx. unfold upd. destruct (Nat.eqb x (unk sa i)); [cbn iota; intros Q; discriminate Q| apply (G_d1 g sa i G x Hx Hdx)].
    + intros x Hx Hdx. unfold upd. destruct (Nat.eqb_spec x (unk sa i)) as [->|Hne].
      * split; [intros _; exists i; split; [lia| symmetry; apply Hunk]| cbn iota; intros _ Q; discriminate Q].
      * rewrite (G_d0 g sa i G x Hx Hdx). split; intros (j & Hj & Ej).
        -- exists j. split; [lia| rewrite Hunk; exact Ej].
        -- rewrite Hunk in Ej. exists j. split; [|exact Ej]. destruct (Nat.eq_dec j i) as [->|]; [contradiction| lia].
    + apply (G_u1 g sa i G).
    + apply (G_u0 g sa i G).
    + apply (G_tri g sa i G).
    + apply (G_ur g sa i G).
Qed.

Lemma missing_fields (sa sa' : gst amap) : n sa' = n sa -> (forall i, done sa' i = done sa i) -> missing sa' = missing sa.
Proof. intros Hn Hd. unfold missing, unknowns. rewrite Hn. f_equal. apply filter_ext. intros i. now rewrite Hd. Qed.

Lemma finish_sim g : wfgeo g -> forall m k sa sc, Pair g sa sc -> Good g sa k ->
  l sa = missing sa -> (forall j, (j < l sa)%nat -> used sa j = true) -> (k + m = l sa)%nat ->
  let sa' := fold_left (finish_row map_sto) (seq k m) sa in
  let sc' := fold_left (finish_row (flash_sto g)) (seq k m) sc in
  Pair g sa' sc' /\ Good g sa' (l sa) /\ n sa' = n sa /\ l sa' = l sa /\ (forall j, done sa' j = done sa j) /\ (forall j, used sa' j = used sa j).
Proof.
  intros W. induction m as [|m IH]; intros k sa sc P G Hl Hall Hkm; cbn [seq fold_left].
  - cbn zeta. replace (l sa) with k by lia. auto 10.
  - destruct (finish_row_sim g sa sc k W P G Hl Hall ltac:(lia)) as (P1 & G1 & Hn1 & Hl1 & Hd1 & Hu1).
    specialize (IH (S k) _ _ P1 G1). rewrite Hl1, (missing_fields sa _ Hn1 Hd1) in IH.
    specialize (IH Hl ltac:(intros j Hj; rewrite Hu1; apply Hall; exact Hj) ltac:(lia)).
    cbn zeta in IH |- *. destruct IH as (A & Bq & C & D & E & F).
    split; [exact A|]. split; [exact Bq|]. split; [congruence|]. split; [exact D|]. split; intros j; [rewrite E; apply Hd1| rewrite F; apply Hu1].
Qed.

(* ---------- one call ---------- *)
Lemma project_hc (sa : gst amap) r : hc (project sa r) (missing sa - 1) \/ missing sa = 0%nat.
Proof.
  destruct (Nat.eq_dec (missing sa) 0) as [E|NE]; [right; exact E| left].
  unfold project, missing.
  assert (H : forall U acc j0, (forall j, N.of_nat j0 <= j -> N.testbit acc j = false) ->
     forall j, N.of_nat (j0 + length U) <= j ->
       N.testbit (fst (fold_left (fun '(acc, j) i => (if bit r i then N.setbit acc (N.of_nat j) else acc, S j)) U (acc, j0))) j = false).
  { induction U as [|a U IH]; intros acc j0 Hacc j Hj; cbn [fold_left fst length] in *; [apply Hacc; lia|].
    apply IH; [|lia]. intros j' Hj'. destruct (bit r a); [|apply Hacc; lia]. rewrite N.setbit_neq by lia. apply Hacc; lia. }
  intros j Hj. apply (H (unknowns sa) 0 0%nat); [intros; apply N.bits_0|]. unfold missing in *. lia.
Qed.

Definition SC (sa : gst amap) : Prop := (l sa = 0%nat /\ forall k, used sa k = false) \/ (l sa = missing sa /\ (1 <= l sa)%nat).
Definition Next g (sa : gst amap) : Prop := is_complete sa = true \/ (Good g sa 0 /\ SC sa).

Lemma forallb_seq_true f k : forallb f (seq 0 k) = true -> forall m, (m < k)%nat -> f m = true.
Proof. intros H m Hm. rewrite forallb_forall in H. apply H, in_seq. lia. Qed.

Lemma is_complete_fields (sa sa' : gst amap) : n sa' = n sa -> l sa' = l sa -> (forall i, done sa' i = done sa i) -> (forall i, used sa' i = used sa i) ->
  is_complete sa' = is_complete sa.
Proof. intros Hn Hl Hd Hu. unfold is_complete. rewrite Hn, Hl. destruct (Nat.eqb (l sa) 0); apply forallb_ext'; assumption. Qed.

Lemma stage2_sim g (P : nat -> N) sa1 sc1 idx b : wfgeo g -> Pair g sa1 sc1 -> Good g sa1 0 ->
  l sa1 = missing sa1 -> (1 <= l sa1)%nat -> b < B g ->
  let step := fun St (I : sto St) (s1 : gst St) =>
     let d := strip I s1 (P idx) b in
     let s2 := elim I s1 (l s1 - 1) (project s1 (P idx)) d in
     if is_complete s2 then let s3 := finish I s2 in (s3, Done (done_len s3)) else (s2, NeedMore) in
  let ra := step amap map_sto sa1 in let rc := step mem (flash_sto g) sc1 in
  snd ra = snd rc /\ Pair g (fst ra) (fst rc) /\ Next g (fst ra) /\ n (fst ra) = n sa1.
Proof.
  intros W P1 G Hl Hl1 Hb. cbn zeta.
  destruct (strip_sim g sa1 sc1 0 (P idx) b P1 G Hb) as [Es Hd]. rewrite Es, (P_l g sa1 sc1 P1), (project_pair g sa1 sc1 _ P1).
  assert (Hc : hc (project sa1 (P idx)) (l sa1 - 1)).
  { destruct (project_hc sa1 (P idx)) as [H|H]; [rewrite Hl; exact H| lia]. }
  destruct (elim_sim g W sa1 sc1 P1 G (l sa1 - 1)%nat (project sa1 (P idx)) (strip map_sto sa1 (P idx) b) ltac:(lia) Hc Hd)
    as (P2 & G2 & Hn2 & Hl2 & Hd2).
  set (sa2 := elim map_sto sa1 _ _ _) in *. set (sc2 := elim (flash_sto g) sc1 _ _ _) in *.
  rewrite (is_complete_pair g sa2 sc2 P2). destruct (is_complete sa2) eqn:EC; cbn [fst snd].
  - assert (Hm2 : l sa2 = missing sa2) by (rewrite Hl2, (missing_fields sa1 sa2 Hn2 Hd2); exact Hl).
    assert (Hall : forall j, (j < l sa2)%nat -> used sa2 j = true).
    { unfold is_complete in EC. destruct (Nat.eqb_spec (l sa2) 0); [lia|]. apply forallb_seq_true; exact EC. }
    destruct (finish_sim g W (l sa2) 0%nat sa2 sc2 P2 G2 Hm2 Hall ltac:(lia)) as (P3 & G3 & Hn3 & Hl3 & Hd3 & Hu3).
    unfold finish. rewrite (P_l g sa2 sc2 P2).
    set (sa3 := fold_left (finish_row map_sto) _ sa2) in *. set (sc3 := fold_left (finish_row (flash_sto g)) _ sc2) in *.
    split; [unfold done_len; now rewrite (P_n g sa3 sc3 P3), (P_bs g sa3 sc3 P3)|]. split; [exact P3|].
    split; [left; rewrite (is_complete_fields sa2 sa3 Hn3 Hl3 Hd3 Hu3); exact EC| congruence].
  - split; [reflexivity|]. split; [exact P2|]. split; [|exact Hn2].
    right. split; [exact G2|]. right. split; [rewrite Hl2, (missing_fields sa1 sa2 Hn2 Hd2); exact Hl| lia].
Qed.

Lemma forallb_seq_false f k : forallb f (seq 0 k) = false -> exists i, (i < k)%nat /\ f i = false.
Proof.
  induction k as [|k IH]; intros H; [discriminate|]. rewrite seq_S, forallb_app in H. cbn [forallb plus] in H.
  destruct (forallb f (seq 0 k)) eqn:E.
  - cbn in H. rewrite andb_true_r in H. exists k. split; [lia| exact H].
  - destruct (IH eq_refl) as (i & Hi & Hf). exists i. split; [lia| exact Hf].
Qed.

Lemma stage1_sim g sa sc idx b : wfgeo g -> Pair g sa sc -> Good g sa 0 -> l sa = 0%nat -> (forall k, used sa k = false) ->
  (idx < n sa)%nat -> b < B g ->
  let step := fun St (I : sto St) (s1 : gst St) =>
     let s2 := if done s1 idx then s1 else mkg (n s1) (l s1) (bs s1) (upd (done s1) idx true) (used s1) (dput I (store s1) idx b) in
     (s2, if is_complete s2 then Done (done_len s2) else NeedMore) in
  let ra := step amap map_sto sa in let rc := step mem (flash_sto g) sc in
  snd ra = snd rc /\ Pair g (fst ra) (fst rc) /\ Next g (fst ra) /\ n (fst ra) = n sa.
Proof.
  intros W PR G Hl0 Hu0 Hidx Hb. cbv beta zeta. rewrite (P_done g sa sc PR). destruct (done sa idx) eqn:Hd; cbn [fst snd].
  - rewrite (is_complete_pair g sa sc PR). split; [unfold done_len; now rewrite (P_n g sa sc PR), (P_bs g sa sc PR)|]. split; [exact PR|].
    split; [right; split; [exact G| left; split; assumption]| reflexivity].
  - assert (HiN : N.of_nat idx < nseg g) by (rewrite <- (G_n g sa 0 G); lia).
    assert (Hnone : adat (store sa) idx = None).
    { destruct (adat (store sa) idx) eqn:E; [|reflexivity]. exfalso. assert (Q : adat (store sa) idx <> None) by congruence.
      apply (G_d0 g sa 0 G idx Hidx Hd) in Q. destruct Q as (j & Hj & _). lia. }
    pose proof (rel_dput g (store sa) (store sc) idx b W (P_rel g sa sc PR) HiN Hnone Hb) as HR.
    set (sa2 := mkg (n sa) (l sa) (bs sa) (upd (done sa) idx true) (used sa) (dput map_sto (store sa) idx b)).
    set (sc2 := mkg (n sc) (l sc) (bs sc) (upd (done sc) idx true) (used sc) (dput (flash_sto g) (store sc) idx b)).
    assert (P2 : Pair g sa2 sc2).
    { constructor; cbn [sa2 sc2 n l bs done used store]; try apply PR; [|exact HR]. intros i. unfold upd. now rewrite (P_done g sa sc PR). }
    rewrite (is_complete_pair g sa2 sc2 P2). split; [unfold done_len; now rewrite (P_n g sa2 sc2 P2), (P_bs g sa2 sc2 P2)|]. split; [exact P2|].
    split; [|reflexivity]. right. split; [|left; split; assumption].
    constructor; cbn [sa2 n l bs done used store dput map_sto adat apar amat].
    + apply (G_n g sa 0 G).
    + apply (G_l g sa 0 G).
    + intros i Hi Hdi. unfold upd in *. destruct (Nat.eqb_spec i idx) as [->|]; [cbn iota; intros Q; discriminate Q| apply (G_d1 g sa 0 G i Hi Hdi)].
    + intros i Hi Hdi. unfold upd in *. destruct (Nat.eqb_spec i idx) as [->|]; [discriminate|].
      rewrite (G_d0 g sa 0 G i Hi Hdi). split; intros (j & Hj & _); lia.
    + intros k Hk. rewrite Hl0 in Hk. lia.
    + apply (G_u0 g sa 0 G).
    + apply (G_tri g sa 0 G).
    + apply (G_ur g sa 0 G).
Qed.

Lemma gst_eta {St} (s : gst St) : mkg (n s) (l s) (bs s) (done s) (used s) (store s) = s.
Proof. destruct s; reflexivity. Qed.

Theorem handle_block_sim g (P : nat -> N) (cap vbits : nat) sa sc (idx : nat) (b : N) :
  wfgeo g -> Pair g sa sc -> Next g sa -> (N.of_nat cap <= capL g) -> b < B g ->
  let ra := handle_block map_sto P cap vbits sa idx b in
  let rc := handle_block (flash_sto g) P cap vbits sc idx b in
  snd ra = snd rc /\ Pair g (fst ra) (fst rc) /\ Next g (fst ra) /\ n (fst ra) = n sa.
Proof.
  intros W PR HG Hcap Hb. cbv zeta. unfold handle_block.
  rewrite (is_complete_pair g sa sc PR). destruct (is_complete sa) eqn:EC.
  { cbn [fst snd]. split; [unfold done_len; now rewrite (P_n g sa sc PR), (P_bs g sa sc PR)|]. split; [exact PR|]. split; [left; exact EC| reflexivity]. }
  destruct HG as [C|[G HSC]]; [congruence|].
  rewrite (missing_pair g sa sc PR), (P_n g sa sc PR), (P_l g sa sc PR).
  destruct (Nat.leb (n sa) idx && Nat.eqb (l sa) 0) eqn:Eenter; cbn [andb].
  - destruct (Nat.ltb vbits (missing sa) || Nat.ltb cap (missing sa)) eqn:Eref.
    { cbn [fst snd]. split; [reflexivity|]. split; [exact PR|]. split; [right; split; assumption| reflexivity]. }
    apply andb_prop in Eenter. destruct Eenter as [E1 E2]. apply Nat.eqb_eq in E2.
    apply orb_false_elim in Eref. destruct Eref as [_ Ecap]. apply Nat.ltb_ge in Ecap.
    destruct HSC as [[_ Hu0]|[_ C]]; [|lia].
    assert (Hm1 : (1 <= missing sa)%nat).
    { unfold is_complete in EC. rewrite E2 in EC. cbn [Nat.eqb] in EC. destruct (forallb_seq_false _ _ EC) as (i & Hi & Hdi).
      unfold missing, unknowns. assert (In i (filter (fun i => negb (done sa i)) (seq 0 (n sa)))) by (apply filter_In; split; [apply in_seq; lia| now rewrite Hdi]).
      destruct (filter _ _); [contradiction| cbn; lia]. }
    cbn [l]. destruct (Nat.eqb_spec (missing sa) 0) as [Hm0|Hm0]; [lia|].
    set (sa1 := mkg (n sa) (missing sa) (bs sa) (done sa) (used sa) (store sa)).
    set (sc1 := mkg (n sa) (missing sa) (bs sc) (done sc) (used sc) (store sc)).
    assert (P1 : Pair g sa1 sc1) by (constructor; cbn [sa1 sc1 n l bs done used store]; try apply PR; reflexivity).
    assert (G1 : Good g sa1 0).
    { constructor; cbn [sa1 n l bs done used store].
      - apply (G_n g sa 0 G). - lia. - apply (G_d1 g sa 0 G).
      - intros i Hi Hdi. rewrite (G_d0 g sa 0 G i Hi Hdi). split; intros (j & Hj & _); lia.
      - intros k _ Hk. rewrite Hu0 in Hk. discriminate.
      - apply (G_u0 g sa 0 G). - apply (G_tri g sa 0 G).
      - intros k Hk. rewrite Hu0 in Hk. discriminate. }
    pose proof (stage2_sim g P sa1 sc1 idx b W P1 G1 eq_refl Hm1 Hb) as H2. cbv beta zeta in H2. exact H2.
  - assert (Esc : mkg (n sa) (l sa) (bs sc) (done sc) (used sc) (store sc) = sc) by (rewrite <- (P_n g sa sc PR), <- (P_l g sa sc PR); apply gst_eta).
    rewrite Esc, (gst_eta sa). rewrite ?(P_l g sa sc PR).
    destruct (Nat.eqb_spec (l sa) 0) as [E0|NE].
    + assert (Hidx : (idx < n sa)%nat).
      { apply andb_false_iff in Eenter. destruct Eenter as [Q|Q]; [apply Nat.leb_gt in Q; exact Q|]. rewrite ?E0 in Q. cbn in Q. discriminate. }
      destruct HSC as [[_ Hu0]|[_ C]]; [|lia].
      pose proof (stage1_sim g sa sc idx b W PR G E0 Hu0 Hidx Hb) as H1. cbv beta zeta in H1. rewrite ?(P_l g sa sc PR) in H1. exact H1.
    + destruct HSC as [[C _]|[Hlm Hl1]]; [contradiction|].
      pose proof (stage2_sim g P sa sc idx b W PR G Hlm Hl1 Hb) as H2. cbv beta zeta in H2. rewrite ?(P_l g sa sc PR) in H2. exact H2.
Qed.
Print Assumptions handle_block_sim.

