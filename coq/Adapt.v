(* Executable model of the three embedded-storage adapters of parity-reconstruct/src/flash.rs
   (FlashDataStorage, FlashParityStorage, FlashMatrixStorage) over a word-programmed NOR device with an operation log.
   Bytes are N values below 256; blocks and rows are byte lists (little-endian bit order inside a row, Lsb0). *)
From Coq Require Import List NArith Arith Bool.
Import ListNotations.
Open Scope N_scope.

Definition mem := N -> N.
Inductive wop := WWrite (a : N) (bs : list N) (z2o : bool) | WRead (a : N) (len : N) | WErase (a b : N).
Record wdev := mkw { wm : mem; wcap : N; wW : N; wR : N; wE : N; wlog : list wop }.   (* log newest first *)

Definition programl (m : mem) (a : N) (bs : list N) : mem :=
  fun x => if (a <=? x) && (x <? a + N.of_nat (length bs)) then N.land (m x) (nth (N.to_nat (x - a)) bs 255) else m x.
Definition readl (m : mem) (a : N) (len : nat) : list N := map (fun k => m (a + N.of_nat k)) (seq 0 len).

(* NorFlash::write: offset and length multiples of WRITE_SIZE, inside the device *)
Definition w_write (d : wdev) (a : N) (bs : list N) : wdev * bool :=
  let len := N.of_nat (length bs) in
  if negb ((a mod wW d =? 0) && (len mod wW d =? 0)) then (d, false)
  else if wcap d <? a + len then (d, false)
  else
    let old := readl (wm d) a (length bs) in
    (* a byte of 0xFF is the 'leave unchanged' padding of shared words; any other byte must only clear bits *)
    let z := existsb (fun '(o, b) => negb (b =? 255) && negb (N.ldiff b o =? 0)) (combine old bs) in
    (mkw (programl (wm d) a bs) (wcap d) (wW d) (wR d) (wE d) (WWrite a bs z :: wlog d), true).
(* ReadNorFlash::read: offset and length multiples of READ_SIZE, inside the device *)
Definition w_read (d : wdev) (a : N) (len : N) : wdev * option (list N) :=
  if negb ((a mod wR d =? 0) && (len mod wR d =? 0)) then (d, None)
  else if wcap d <? a + len then (d, None)
  else (mkw (wm d) (wcap d) (wW d) (wR d) (wE d) (WRead a len :: wlog d), Some (readl (wm d) a (N.to_nat len))).
Definition w_erase (d : wdev) (a b : N) : wdev * bool :=
  if negb ((a mod wE d =? 0) && (b mod wE d =? 0)) then (d, false)
  else if (b <? a) || (wcap d <? b) then (d, false)
  else (mkw (fun x => if (a <=? x) && (x <? b) then 255 else wm d x) (wcap d) (wW d) (wR d) (wE d) (WErase a b :: wlog d), true).

Inductive ares (A : Type) := AOk (a : A) | AErr | APanic.
Arguments AOk {A}. Arguments AErr {A}. Arguments APanic {A}.

Definition round_up (v w : N) : N := ((v + w - 1) / w) * w.
Definition round_down (v w : N) : N := (v / w) * w.
Definition ff (k : nat) : list N := repeat 255 k.
Definition zz (k : nat) : list N := repeat 0 k.

(* ---------------- FlashDataStorage: no padding between blocks; shared words padded with 0xFF ---------------- *)
Section Data.
Variable start : N.
Definition d_split (W : N) (i : N) (L : nat) : (N * nat) * (N * nat) * (N * nat) :=
  let ts := start + i * N.of_nat L in let te := start + (i + 1) * N.of_nat L in
  let so := ts mod W in let eo := te mod W in
  let hl := if so =? 0 then 0%nat else N.to_nat (W - so) in
  let tl := if eo =? 0 then 0%nat else N.to_nat eo in
  let bl := (L - hl - tl)%nat in
  ((ts - so, hl), (ts + N.of_nat hl, bl), (ts + N.of_nat hl + N.of_nat bl, tl)).

Definition data_store (d : wdev) (i : N) (data : list N) : wdev * ares unit :=
  let W := wW d in let L := length data in
  if N.of_nat L <? W then (d, APanic) else                          (* assert!(data.len() >= F::WRITE_SIZE) *)
  let '((ha, hl), (ba, bl), (ta, tl)) := d_split W i L in
  let step1 := if Nat.eqb hl 0 then (d, true) else w_write d ha (ff (N.to_nat W - hl) ++ firstn hl data) in
  match step1 with
  | (d1, false) => (d1, AErr)
  | (d1, true) =>
      match w_write d1 ba (firstn bl (skipn hl data)) with
      | (d2, false) => (d2, AErr)
      | (d2, true) =>
          if Nat.eqb tl 0 then (d2, AOk tt) else
          match w_write d2 ta (skipn (hl + bl) data ++ ff (N.to_nat W - tl)) with
          | (d3, false) => (d3, AErr) | (d3, true) => (d3, AOk tt) end
      end
  end.

Definition data_get (d : wdev) (i : N) (L : nat) : wdev * ares (list N) :=
  let W := wW d in
  let '((ha, hl), (ba, bl), (ta, tl)) := d_split W i L in
  if Nat.ltb L hl || Nat.ltb (L - hl) tl then (d, APanic) else          (* split_at_mut beyond the buffer (blocks shorter than a word) *)
  let step1 := if Nat.eqb hl 0 then (d, Some []) else
               match w_read d ha W with (d1, Some w) => (d1, Some (skipn (N.to_nat W - hl) w)) | (d1, None) => (d1, None) end in
  match step1 with
  | (d1, None) => (d1, AErr)
  | (d1, Some h) =>
      match w_read d1 ba (N.of_nat bl) with
      | (d2, None) => (d2, AErr)
      | (d2, Some b) =>
          if Nat.eqb tl 0 then (d2, AOk (h ++ b)) else
          match w_read d2 ta W with
          | (d3, None) => (d3, AErr) | (d3, Some t) => (d3, AOk (h ++ b ++ firstn tl t)) end
      end
  end.
End Data.

(* ---------------- FlashParityStorage: block slots of round_up(len, W) bytes, tail word padded with 0x00 ---------------- *)
Definition parity_store (start : N) (d : wdev) (i : N) (data : list N) : wdev * ares unit :=
  let W := wW d in let L := N.of_nat (length data) in
  let up := round_up L W in let dn := round_down L W in
  let off := start + i * up in
  match w_write d off (firstn (N.to_nat dn) data) with
  | (d1, false) => (d1, AErr)
  | (d1, true) =>
      let tail := skipn (N.to_nat dn) data in
      if Nat.eqb (length tail) 0 then (d1, AOk tt) else
      match w_write d1 (off + dn) (tail ++ zz (N.to_nat W - length tail)) with
      | (d2, false) => (d2, AErr) | (d2, true) => (d2, AOk tt) end
  end.
Definition parity_get (start : N) (d : wdev) (i : N) (len : nat) : wdev * ares (list N) :=
  let W := wW d in let L := N.of_nat len in
  let up := round_up L W in let dn := round_down L W in
  let off := start + i * up in
  match w_read d off dn with
  | (d1, None) => (d1, AErr)
  | (d1, Some b) =>
      let tl := (len - N.to_nat dn)%nat in
      if Nat.eqb tl 0 then (d1, AOk b) else
      match w_read d1 (off + dn) W with
      | (d2, None) => (d2, AErr) | (d2, Some t) => (d2, AOk (b ++ firstn tl t)) end
  end.

(* ---------------- FlashMatrixStorage: triangular packing in write-size units ---------------- *)
Definition row_size (W m : N) : N := round_up (round_up (m + 1) 8 / 8) W.
Definition row_offset (W m : N) : N :=
  let c := m / (W * 8) in let p := m mod (W * 8) in c * (c + 1) * 4 * W * W + p * row_size W m.
(* [nb] = byte length of the BitArray backing store; [raw] = its nb bytes *)
Definition matrix_set_row (start : N) (nb : nat) (d : wdev) (m : N) (raw : list N) : wdev * ares unit :=
  let W := wW d in let rs := row_size W m in
  let a := start + row_offset W m in
  if N.of_nat nb <? rs then
    if N.of_nat nb <? rs - W then (d, APanic) else                 (* split_at beyond the slice *)
    let body := firstn (N.to_nat (rs - W)) raw in
    let pad := skipn (N.to_nat (rs - W)) raw in
    match w_write d a body with
    | (d1, false) => (d1, AErr)
    | (d1, true) =>
        if Nat.eqb (length pad) 0 then (d1, AOk tt) else
        match w_write d1 (a + N.of_nat (length body)) (pad ++ zz (N.to_nat W - length pad)) with
        | (d2, false) => (d2, AErr) | (d2, true) => (d2, AOk tt) end
    end
  else match w_write d a (firstn (N.to_nat rs) raw) with (d1, false) => (d1, AErr) | (d1, true) => (d1, AOk tt) end.
Definition matrix_row (start : N) (nb : nat) (d : wdev) (m : N) : wdev * ares (list N) :=
  let W := wW d in let rs := row_size W m in
  let a := start + row_offset W m in
  if N.of_nat nb <? rs then
    if N.of_nat nb <? rs - W then (d, APanic) else
    let bl := N.to_nat (rs - W) in
    match w_read d a (rs - W) with
    | (d1, None) => (d1, AErr)
    | (d1, Some b) =>
        let pl := (nb - bl)%nat in
        if Nat.eqb pl 0 then (d1, AOk b) else
        match w_read d1 (a + (rs - W)) W with
        | (d2, None) => (d2, AErr) | (d2, Some t) => (d2, AOk (b ++ firstn pl t)) end
    end
  else match w_read d a rs with
       | (d1, None) => (d1, AErr)
       | (d1, Some b) => (d1, AOk (b ++ zz (nb - N.to_nat rs))) end.
(* num_rows: keep adding row sizes while the total stays strictly below the range length and below the bit width *)
Fixpoint num_rows_from (fuel : nat) (W range_len bits size k : N) : N :=
  match fuel with
  | O => k
  | S f => let size' := size + row_size W k in
           if (size' <? range_len) && (k <? bits) then num_rows_from f W range_len bits size' (k + 1) else k
  end.
Definition matrix_num_rows (W range_len : N) (nb : nat) : N :=
  num_rows_from (S (8 * nb)) W range_len (N.of_nat (8 * nb)) 0 0.

Definition fresh_dev (cap W R E : N) : wdev := mkw (fun _ => 0) cap W R E [].     (* the simulated device starts all-zero: `new` must erase *)
