From Coq Require Import List NArith Arith Bool Lia.
Require Import Recon.
Import ListNotations.
Open Scope N_scope.

Definition is_tmm (r : result) : bool := match r with TooManyMissing => true | _ => false end.
Definition is_done (r : result) : bool := match r with Done _ => true | _ => false end.

(* rows the decoder has accepted after the first t calls *)
Definition knowledge (P : nat -> row) (bl : list (nat * blk)) (rs : list result) : list row :=
  map (fun '(ib, _) => P (fst ib)) (filter (fun '(_, r) => negb (is_tmm r)) (combine bl rs)).

Definition results (P : nat -> row) cap vbits nn bs0 bl := snd (fst (run P cap vbits (init nn bs0) bl)).
Definition events  (P : nat -> row) cap vbits nn bs0 bl := snd (run P cap vbits (init nn bs0) bl).

(* C03 *)
Definition done_iff_full_rank_stmt : Prop :=
  forall P nn cap vbits bs0 bl t, contract P nn -> (0 < nn)%nat -> (t < length bl)%nat ->
    let rs := results P cap vbits nn bs0 bl in
    is_done (nth t rs NeedMore) = true <->
    full_rank (knowledge P (firstn (S t) bl) (firstn (S t) rs)) nn.

Definition done_determines_stmt : Prop :=
  forall P nn cap vbits bs0 bl X X', contract P nn ->
    Forall (consistent P nn X) bl -> Forall (consistent P nn X') bl ->
    (exists len, In (Done len) (results P cap vbits nn bs0 bl)) ->
    forall i, (i < nn)%nat -> X i = X' i.

Definition done_stable_stmt : Prop :=
  forall P cap vbits s i b len, let '(_, r, _) := handle_block P cap vbits s i b in r = Done len ->
    forall i' b', let '(s'', r', ev) := handle_block P cap vbits (fst (fst (handle_block P cap vbits s i b))) i' b' in
                  r' = Done len /\ ev = [].

Definition refusal_exact_stmt : Prop :=
  forall P cap vbits s i b,
    let '(s', r, ev) := handle_block P cap vbits s i b in
    (r = TooManyMissing <->
       is_complete s = false /\ l s = 0%nat /\ (n s <= i)%nat /\ (Nat.min cap vbits < missing s)%nat) /\
    (r = TooManyMissing -> s' = s /\ ev = []).

(* C09: write-once monitor over the event trace *)
Record mon := { stored_d : list nat; stored_p : list nat; stored_m : list nat; ok : bool; pend : option nat }.
Definition high_clear_b (r : row) (m : nat) : bool := (N.log2 r =? N.of_nat m) && negb (r =? 0).
Definition mon_step (cap nn : nat) (m0 : mon) (e : event) : mon :=
  let bad := {| stored_d := stored_d m0; stored_p := stored_p m0; stored_m := stored_m m0; ok := false; pend := None |} in
  match pend m0, e with
  | Some m, EMatSet m' r =>
      if Nat.eqb m m' && high_clear_b r m && negb (existsb (Nat.eqb m) (stored_m m0))
      then {| stored_d := stored_d m0; stored_p := stored_p m0; stored_m := m :: stored_m m0; ok := ok m0; pend := None |}
      else bad
  | Some _, _ => bad                                   (* parity store must be followed by its row *)
  | None, EDataStore i _ =>
      if Nat.ltb i nn && negb (existsb (Nat.eqb i) (stored_d m0))
      then {| stored_d := i :: stored_d m0; stored_p := stored_p m0; stored_m := stored_m m0; ok := ok m0; pend := None |} else bad
  | None, EDataGet i => if existsb (Nat.eqb i) (stored_d m0) then m0 else bad
  | None, EParStore m _ =>
      if Nat.ltb m cap && negb (existsb (Nat.eqb m) (stored_p m0))
      then {| stored_d := stored_d m0; stored_p := m :: stored_p m0; stored_m := stored_m m0; ok := ok m0; pend := Some m |} else bad
  | None, EParGet m => if existsb (Nat.eqb m) (stored_p m0) then m0 else bad
  | None, EMatGet m => if existsb (Nat.eqb m) (stored_m m0) then m0 else bad
  | None, EMatSet _ _ => bad
  end.
Definition wf_trace (cap nn : nat) (evs : list event) : bool :=
  let m := fold_left (mon_step cap nn) evs {| stored_d := []; stored_p := []; stored_m := []; ok := true; pend := None |} in
  ok m && match pend m with None => true | Some _ => false end.

Definition trace_wf_stmt : Prop :=
  forall P nn cap vbits bs0 bl, (cap <= vbits)%nat ->
    wf_trace cap nn (events P cap vbits nn bs0 bl) = true /\
    ((exists len, In (Done len) (results P cap vbits nn bs0 bl)) ->
      forall i, (i < nn)%nat ->
        count_occ Nat.eq_dec
          (flat_map (fun e => match e with EDataStore j _ => [j] | _ => [] end) (events P cap vbits nn bs0 bl)) i = 1%nat).

(* sanity: the monitor accepts the unit-test traces and rejects a doctored one *)
Example mon_accepts :
  wf_trace 3 4 (events (TestParity 4) 3 8 4 1 [(0%nat,1);(14%nat,6);(9%nat,2);(2%nat,3);(10%nat,1);(10%nat,1)]) = true.
Proof. vm_compute. reflexivity. Qed.
Example mon_rejects : wf_trace 3 4 [EDataStore 0 1; EDataStore 0 1] = false.
Proof. vm_compute. reflexivity. Qed.
Example knowledge_example :
  let bl := [(0%nat,1);(14%nat,6);(9%nat,2);(2%nat,3);(10%nat,1)] in
  knowledge (TestParity 4) bl (results (TestParity 4) 3 8 4 1 bl) = [1; 10; 5; 4; 6].
Proof. vm_compute. reflexivity. Qed.
