From Coq Require Import List NArith Arith Bool Lia Btauto.
Require Import Recon.
Import ListNotations.
Open Scope N_scope.

Ltac xor_ac := apply N.bits_inj; intro; rewrite ?N.lxor_spec, ?N.bits_0; btauto.

(* ---------- sums ---------- *)
Fixpoint sumf (L : list nat) (f : nat -> N) : N := match L with [] => 0 | i :: L' => N.lxor (f i) (sumf L' f) end.

Lemma sumf_app L1 L2 f : sumf (L1 ++ L2) f = N.lxor (sumf L1 f) (sumf L2 f).
Proof. induction L1 as [|a L1 IH]; cbn [sumf app]; [now rewrite N.lxor_0_l|]. rewrite IH. xor_ac. Qed.

Lemma sumf_ext L f g : (forall i, In i L -> f i = g i) -> sumf L f = sumf L g.
Proof. induction L as [|a L IH]; intros H; cbn [sumf]; [reflexivity|].
  rewrite (H a (or_introl eq_refl)), IH; [reflexivity|]. intros; apply H; right; assumption. Qed.

Lemma sumf_split L (p : nat -> bool) f :
  sumf L f = N.lxor (sumf (filter p L) f) (sumf (filter (fun i => negb (p i)) L) f).
Proof.
  induction L as [|a L IH]; cbn [sumf filter]; [reflexivity|]. rewrite IH.
  destruct (p a); cbn [negb sumf]; xor_ac.
Qed.

Lemma sumf_zero L f : (forall i, In i L -> f i = 0) -> sumf L f = 0.
Proof. induction L as [|a L IH]; intros H; cbn [sumf]; [reflexivity|].
  rewrite (H a (or_introl eq_refl)), IH; [reflexivity|]. intros; apply H; right; assumption. Qed.

(* dot as a sum over seq *)
Lemma dot_sumf k r X : dot k r X = sumf (seq 0 k) (fun i => if bit r i then X i else 0).
Proof.
  induction k as [|k IH]; [reflexivity|]. cbn [dot]. rewrite seq_S, sumf_app, IH. cbn [sumf plus]. xor_ac.
Qed.

(* ---------- strip ---------- *)
Lemma strip_gen (s : st) r L d ev :
  fst (fold_left (fun '(d, ev) i =>
      if bit r i && done s i then (N.lxor d (getb (dat s i)), ev ++ [EDataGet i]) else (d, ev)) L (d, ev))
  = N.lxor d (sumf (filter (fun i => bit r i && done s i) L) (fun i => getb (dat s i))).
Proof.
  revert d ev. induction L as [|a L IH]; intros d ev; cbn [fold_left filter].
  - cbn. now rewrite N.lxor_0_r.
  - destruct (bit r a && done s a); rewrite IH; cbn [sumf]; xor_ac.
Qed.

(* ---------- project ---------- *)
Lemma project_gen r U acc j0 :
  (forall k, (j0 <= k)%nat -> bit acc k = false) ->
  forall k, bit (fst (fold_left (fun '(acc, j) i => (if bit r i then N.setbit acc (N.of_nat j) else acc, S j)) U (acc, j0))) k = if (k <? j0)%nat then bit acc k else if (k <? j0 + length U)%nat then bit r (nth (k - j0) U 0%nat) else false.
Proof.
  revert acc j0. induction U as [|a U IH]; intros acc j0 Hacc; cbn [fold_left length]; intros k.
  - cbn [fst]. destruct (Nat.ltb_spec k j0); [reflexivity|]. rewrite Nat.add_0_r. destruct (Nat.ltb_spec k j0); [lia|]. apply Hacc; lia.
  - set (acc' := if bit r a then N.setbit acc (N.of_nat j0) else acc).
    assert (Hacc' : forall k, (S j0 <= k)%nat -> bit acc' k = false).
    { intros k' Hk. subst acc'. unfold bit in *. destruct (N.testbit r (N.of_nat a)); [|apply Hacc; lia].
      rewrite N.setbit_neq by lia. apply Hacc; lia. }
    eapply eq_trans; [exact (IH acc' (S j0) Hacc' k)|].
    destruct (Nat.ltb_spec k (S j0)), (Nat.ltb_spec k j0); try lia.
    + subst acc'. unfold bit. destruct (N.testbit r (N.of_nat a)); [|reflexivity]. rewrite N.setbit_neq by lia. reflexivity.
    + assert (k = j0) by lia. subst k. destruct (Nat.ltb_spec j0 (j0 + S (length U))); [|lia].
      destruct (Nat.ltb_spec j0 (S j0)); [|lia].
      rewrite Nat.sub_diag. cbn [nth]. subst acc'. unfold bit in *. destruct (N.testbit r (N.of_nat a)) eqn:E.
      * rewrite N.setbit_eq; reflexivity.
      * apply Hacc; lia.
    + replace (j0 + S (length U))%nat with (S j0 + length U)%nat by lia.
      destruct (Nat.ltb_spec k (S j0 + length U)); [|reflexivity].
      replace (k - j0)%nat with (S (k - S j0)) by lia. reflexivity.
Qed.

Lemma project_bit s r k :
  bit (project s r) k = if (k <? missing s)%nat then bit r (unk s k) else false.
Proof.
  unfold project, missing, unk.
  assert (H := project_gen r (unknowns s) 0 0%nat ltac:(intros; unfold bit; apply N.bits_0) k).
  eapply eq_trans; [exact H|]. cbn [Nat.ltb Nat.leb Nat.add]. rewrite Nat.sub_0_r. reflexivity.
Qed.

(* sum over unknowns as a dot over reduced indices *)
Lemma sumf_nth (U : list nat) (g : nat -> N) :
  sumf U g = sumf (seq 0 (length U)) (fun j => g (nth j U 0%nat)).
Proof.
  induction U as [|a U IH]; [reflexivity|]. cbn [length seq sumf nth].
  rewrite IH. f_equal. rewrite <- seq_shift.
  generalize (seq 0 (length U)). intros L. induction L as [|x L IHL]; [reflexivity|]. cbn [map sumf nth]. now rewrite IHL.
Qed.

Section Sound.
Variable P : nat -> row.
Variable X : nat -> blk.

Definition XU (s : st) (j : nat) : blk := X (unk s j).
Definition high_clear (r : row) (wh : nat) := forall j, (wh < j)%nat -> bit r j = false.

Record Inv (s : st) : Prop := {
  I_dat : forall i, (i < n s)%nat -> done s i = true -> dat s i = Some (X i);
  I_l : l s = 0%nat \/ (l s = missing s /\ (1 <= l s)%nat);
  I_piv : forall m, (m < l s)%nat -> used s m = true ->
            exists r p, mat s m = Some r /\ par s m = Some p /\ bit r m = true /\ high_clear r m /\ p = dot (l s) r (XU s)
}.

Lemma strip_project s r :
  (forall i, (i < n s)%nat -> done s i = true -> dat s i = Some (X i)) ->
  fst (strip s r (dot (n s) r X)) = dot (missing s) (project s r) (XU s).
Proof.
  intros Hd. set (g := fun i => if bit r i then X i else 0).
  set (q := fun i => bit r i && done s i).
  transitivity (sumf (filter (fun i => negb (done s i)) (seq 0 (n s))) g).
  - unfold strip. rewrite strip_gen. fold q.
    rewrite (sumf_ext (filter q (seq 0 (n s))) _ g).
    2:{ intros i Hi. apply filter_In in Hi. destruct Hi as [Hi Hb]. apply in_seq in Hi. unfold q in Hb. apply andb_prop in Hb.
        destruct Hb as [Hb1 Hb2]. unfold g. rewrite Hb1, (Hd i) by (lia || assumption). reflexivity. }
    rewrite dot_sumf. match goal with |- N.lxor ?a _ = _ => change a with (sumf (seq 0 (n s)) g) end. rewrite (sumf_split (seq 0 (n s)) q g).
    transitivity (sumf (filter (fun i => negb (q i)) (seq 0 (n s))) g); [xor_ac|].
    induction (seq 0 (n s)) as [|a L IH]; [reflexivity|]. cbn [filter]. unfold q at 1.
    destruct (done s a) eqn:D, (bit r a) eqn:B; cbn [andb negb sumf]; rewrite IH; try reflexivity.
    unfold g. rewrite B. now rewrite N.lxor_0_l.
  - rewrite dot_sumf. unfold missing. fold (unknowns s).
    rewrite (sumf_nth (unknowns s) g). apply sumf_ext. intros j Hj. apply in_seq in Hj.
    rewrite project_bit. unfold missing. destruct (Nat.ltb_spec j (length (unknowns s))); [|lia]. reflexivity.
Qed.

(* ---------- facts about unknowns / unk ---------- *)
Lemma unknowns_nodup s : NoDup (unknowns s).
Proof. unfold unknowns. apply NoDup_filter, seq_NoDup. Qed.
Lemma unk_spec s j : (j < missing s)%nat -> (unk s j < n s)%nat /\ done s (unk s j) = false.
Proof.
  intros Hj. unfold unk, missing in *. pose proof (nth_In (unknowns s) 0%nat Hj) as Hin.
  unfold unknowns in Hin at 2. apply filter_In in Hin. destruct Hin as [Hin Hb]. apply in_seq in Hin.
  split; [lia|]. now destruct (done s (nth j (unknowns s) 0%nat)).
Qed.
Lemma unk_inj s j j' : (j < missing s)%nat -> (j' < missing s)%nat -> unk s j = unk s j' -> j = j'.
Proof. intros. unfold unk, missing in *. eapply NoDup_nth; eauto using unknowns_nodup. Qed.
Lemma unk_surj s i : (i < n s)%nat -> done s i = false -> exists j, (j < missing s)%nat /\ unk s j = i.
Proof.
  intros Hi Hd. assert (Hin : In i (unknowns s)).
  { unfold unknowns. apply filter_In. split; [apply in_seq; lia| now rewrite Hd]. }
  destruct (In_nth _ _ 0%nat Hin) as (j & Hj & Hn). exists j. split; assumption.
Qed.
Lemma unknowns_ext s s' : n s' = n s -> (forall i, done s' i = done s i) -> unknowns s' = unknowns s.
Proof. intros Hn Hd. unfold unknowns. rewrite Hn. apply filter_ext. intros; now rewrite Hd. Qed.

(* ---------- elimination ---------- *)
Definition same_core (s s' : st) : Prop :=
  n s' = n s /\ l s' = l s /\ bs s' = bs s /\ (forall i, done s' i = done s i) /\ (forall i, dat s' i = dat s i).

Lemma Inv_XU_ext s s' : same_core s s' -> forall j, XU s' j = XU s j.
Proof. intros (Hn & _ & _ & Hd & _) j. unfold XU, unk. now rewrite (unknowns_ext s s' Hn Hd). Qed.

Lemma dot_ext k r f g : (forall j, (j < k)%nat -> f j = g j) -> dot k r f = dot k r g.
Proof. induction k as [|k IH]; intros H; cbn [dot]; [reflexivity|]. rewrite (H k) by lia. rewrite IH; [reflexivity|]. intros; apply H; lia. Qed.

Lemma dot_lxor k r1 r2 f : dot k (N.lxor r1 r2) f = N.lxor (dot k r1 f) (dot k r2 f).
Proof.
  induction k as [|k IH]; cbn [dot]; [reflexivity|]. rewrite IH. unfold bit. rewrite N.lxor_spec.
  destruct (N.testbit r1 (N.of_nat k)), (N.testbit r2 (N.of_nat k)); cbn [xorb]; xor_ac.
Qed.

Definition no_new_datastore (ev ev' : list event) : Prop :=
  forall i b, In (EDataStore i b) ev' -> In (EDataStore i b) ev.

Lemma bit_lxor a b j : bit (N.lxor a b) j = xorb (bit a j) (bit b j).
Proof. unfold bit. apply N.lxor_spec. Qed.

Definition store_pivot (s : st) (wh : nat) (r d : N) : st :=
  mkst (n s) (l s) (bs s) (done s) (upd (used s) wh true) (dat s) (upd (par s) wh (Some d)) (upd (mat s) wh (Some r)).

Lemma same_core_refl s : same_core s s.
Proof. repeat split; reflexivity. Qed.

Lemma store_ok s wh r d : Inv s -> (wh < l s)%nat -> bit r wh = true -> high_clear r wh -> d = dot (l s) r (XU s) ->
  Inv (store_pivot s wh r d) /\ same_core s (store_pivot s wh r d).
Proof.
  intros HI Hwh Hb Hc Hd.
  assert (SC : same_core s (store_pivot s wh r d)) by (repeat split; reflexivity).
  split; [|exact SC]. constructor; cbn [store_pivot n l bs done used dat par mat].
  - apply (I_dat s HI).
  - destruct (I_l s HI) as [H|H]; [left; exact H| right; exact H].
  - intros m Hm Hu. unfold upd in *. destruct (Nat.eqb_spec m wh) as [->|Hne].
    + exists r, d. repeat split; assumption.
    + destruct (I_piv s HI m Hm Hu) as (r0 & p0 & H1 & H2 & H3 & H4 & H5). exists r0, p0. repeat split; assumption.
Qed.

Lemma elim_ok s : Inv s ->
  forall wh r d ev, (wh < l s)%nat -> high_clear r wh -> d = dot (l s) r (XU s) ->
  Inv (fst (elim s wh r d ev)) /\ same_core s (fst (elim s wh r d ev)) /\ no_new_datastore ev (snd (elim s wh r d ev)).
Proof.
  intros HI. induction wh as [|k IH]; intros r d ev Hwh Hc Hd; cbn [elim].
  - destruct (bit r 0%nat) eqn:Hb; [destruct (used s 0%nat) eqn:Hu|]; cbn [fst snd].
    + split; [exact HI|]. split; [apply same_core_refl|]. intros i b Hin. apply in_app_or in Hin. destruct Hin as [Hin|[Hin|[Hin|[]]]]; [assumption|discriminate|discriminate].
    + destruct (store_ok s 0%nat r d HI Hwh Hb Hc Hd) as [H1 H2]. split; [exact H1|]. split; [exact H2|].
      intros i b Hin. apply in_app_or in Hin. destruct Hin as [Hin|[Hin|[Hin|[]]]]; [assumption|discriminate|discriminate].
    + split; [exact HI|]. split; [apply same_core_refl| intros i b Hin; exact Hin].
  - destruct (bit r (S k)) eqn:Hb; [destruct (used s (S k)) eqn:Hu|].
    + destruct (I_piv s HI (S k) Hwh Hu) as (r0 & p0 & H1 & H2 & H3 & H4 & H5).
      rewrite H1, H2. cbn [getb].
      assert (Hc' : high_clear (N.lxor r r0) k).
      { intros j Hj. rewrite bit_lxor. destruct (Nat.eq_dec j (S k)) as [->|Hne].
        - rewrite Hb, H3. reflexivity.
        - rewrite (Hc j), (H4 j) by lia. reflexivity. }
      assert (Hd' : N.lxor d p0 = dot (l s) (N.lxor r r0) (XU s)) by (rewrite dot_lxor, Hd, H5; reflexivity).
      destruct (IH (N.lxor r r0) (N.lxor d p0) (ev ++ [EParGet (S k); EMatGet (S k)]) ltac:(lia) Hc' Hd') as (A & B & C).
      split; [exact A|]. split; [exact B|]. intros i b Hin. specialize (C i b Hin).
      apply in_app_or in C. destruct C as [C|[C|[C|[]]]]; [assumption|discriminate|discriminate].
    + cbn [fst snd]. destruct (store_ok s (S k) r d HI Hwh Hb Hc Hd) as [H1 H2]. split; [exact H1|]. split; [exact H2|].
      intros i b Hin. apply in_app_or in Hin. destruct Hin as [Hin|[Hin|[Hin|[]]]]; [assumption|discriminate|discriminate].
    + assert (Hc' : high_clear r k).
      { intros j Hj. destruct (Nat.eq_dec j (S k)) as [->|Hne]; [exact Hb| apply Hc; lia]. }
      apply (IH r d ev ltac:(lia) Hc' Hd).
Qed.

(* ---------- finish ---------- *)
Lemma sumf_filter L (p : nat -> bool) h : sumf (filter p L) h = sumf L (fun j => if p j then h j else 0).
Proof. induction L as [|a L IH]; [reflexivity|]. cbn [filter sumf]. destruct (p a); cbn [sumf]; rewrite IH; [reflexivity| now rewrite N.lxor_0_l]. Qed.

Lemma frow_gen (s : st) r L o ev :
  fst (fold_left (fun '(o, ev) j =>
        if bit r j then (N.lxor o (getb (dat s (unk s j))), ev ++ [EDataGet (unk s j)]) else (o, ev)) L (o, ev))
  = N.lxor o (sumf (filter (bit r) L) (fun j => getb (dat s (unk s j)))) /\
  no_new_datastore ev (snd (fold_left (fun '(o, ev) j =>
        if bit r j then (N.lxor o (getb (dat s (unk s j))), ev ++ [EDataGet (unk s j)]) else (o, ev)) L (o, ev))).
Proof.
  revert o ev. induction L as [|a L IH]; intros o ev; cbn [fold_left filter].
  - cbn [fst snd sumf]. split; [now rewrite N.lxor_0_r| intros i b H; exact H].
  - destruct (bit r a).
    + destruct (IH (N.lxor o (getb (dat s (unk s a)))) (ev ++ [EDataGet (unk s a)])) as [A B]. split.
      * rewrite A. cbn [sumf]. xor_ac.
      * intros i b Hin. specialize (B i b Hin). apply in_app_or in B. destruct B as [B|[B|[]]]; [assumption|discriminate].
    + apply IH.
Qed.

Record FinInv (s0 : st) (k : nat) (s' : st) : Prop := {
  F_n : n s' = n s0; F_l : l s' = l s0; F_bs : bs s' = bs s0;
  F_done : forall i, done s' i = done s0 i; F_used : forall i, used s' i = used s0 i;
  F_par : forall i, par s' i = par s0 i; F_mat : forall i, mat s' i = mat s0 i;
  F_dat : forall i, (i < n s0)%nat -> done s0 i = true -> dat s' i = Some (X i);
  F_fin : forall j, (j < k)%nat -> dat s' (unk s0 j) = Some (XU s0 j)
}.

Lemma seq_split3 k m : (k < m)%nat -> seq 0 m = seq 0 k ++ k :: seq (S k) (m - S k).
Proof. intros H. replace m with (k + S (m - S k))%nat at 1 by lia. rewrite seq_app. cbn [seq plus]. reflexivity. Qed.

Lemma finish_row_ok s0 k s' :
  Inv s0 -> l s0 = missing s0 -> (forall m, (m < l s0)%nat -> used s0 m = true) ->
  FinInv s0 k s' -> (k < l s0)%nat ->
  FinInv s0 (S k) (fst (finish_row s' k)) /\
  (forall i b, In (EDataStore i b) (snd (finish_row s' k)) -> (i < n s0)%nat /\ b = X i).
Proof.
  intros HI Hlm Hall HF Hk.
  assert (Hunk : forall j, unk s' j = unk s0 j).
  { intros j. unfold unk. now rewrite (unknowns_ext s0 s' (F_n _ _ _ HF) (F_done _ _ _ HF)). }
  destruct (I_piv s0 HI k Hk (Hall k Hk)) as (r & p & H1 & H2 & H3 & H4 & H5).
  unfold finish_row. rewrite (F_mat _ _ _ HF), (F_par _ _ _ HF), H1, H2. cbn [getb].
  match goal with |- context [fold_left ?F ?L ?a] => destruct (frow_gen s' r L p [EParGet k; EMatGet k]) as [A B];
     destruct (fold_left F L a) as [out ev] eqn:E end.
  cbn [fst snd] in A, B |- *.
  assert (Hout : out = XU s0 k).
  { rewrite A, sumf_filter.
    rewrite (sumf_ext (seq 0 k) _ (fun j => if bit r j then XU s0 j else 0)).
    2:{ intros j Hj. apply in_seq in Hj. rewrite Hunk, (F_fin _ _ _ HF j) by lia. reflexivity. }
    rewrite H5, dot_sumf, (seq_split3 k (l s0) Hk), sumf_app. cbn [sumf]. rewrite H3.
    rewrite (sumf_zero (seq (S k) (l s0 - S k))).
    2:{ intros j Hj. apply in_seq in Hj. rewrite (H4 j) by lia. reflexivity. }
    xor_ac. }
  assert (Hk' : (k < missing s0)%nat) by lia.
  destruct (unk_spec s0 k Hk') as [Hun Hud].
  split.
  - constructor; cbn [n l bs done used dat par mat]; try apply HF.
    + intros i Hi Hd. unfold upd. rewrite Hunk. destruct (Nat.eqb_spec i (unk s0 k)) as [->|Hne]; [congruence| apply (F_dat _ _ _ HF); assumption].
    + intros j Hj. unfold upd. rewrite Hunk. destruct (Nat.eqb_spec (unk s0 j) (unk s0 k)) as [He|Hne].
      * apply unk_inj in He; try lia. subst j. now rewrite Hout.
      * apply (F_fin _ _ _ HF). assert (j <> k) by (intros ->; apply Hne; reflexivity). lia.
  - intros i b Hin. apply in_app_or in Hin. destruct Hin as [Hin|[Hin|[]]].
    + specialize (B i b Hin). destruct B as [B|[B|[]]]; discriminate.
    + inversion Hin as [[Hi Hb']]. subst i b. rewrite Hunk. split; [exact Hun| exact Hout].
Qed.

Lemma finish_gen s0 : Inv s0 -> l s0 = missing s0 -> (forall m, (m < l s0)%nat -> used s0 m = true) ->
  forall m k s' ev, (k + m = l s0)%nat -> FinInv s0 k s' ->
  (forall i b, In (EDataStore i b) ev -> (i < n s0)%nat /\ b = X i) ->
  let res := fold_left (fun '(s, ev) i => let '(s', e) := finish_row s i in (s', ev ++ e)) (seq k m) (s', ev) in
  FinInv s0 (l s0) (fst res) /\ (forall i b, In (EDataStore i b) (snd res) -> (i < n s0)%nat /\ b = X i).
Proof.
  intros HI Hlm Hall. induction m as [|m IH]; intros k s' ev Hkm HF Hev; cbn [seq fold_left].
  - cbn zeta. cbn [fst snd]. replace (l s0) with k by lia. split; assumption.
  - destruct (finish_row s' k) as [s'' e] eqn:E.
    pose proof (finish_row_ok s0 k s' HI Hlm Hall HF ltac:(lia)) as [A B]. rewrite E in A, B. cbn [fst snd] in A, B.
    apply IH; [lia| exact A|]. intros i b Hin. apply in_app_or in Hin. destruct Hin; [apply Hev| apply B]; assumption.
Qed.

Lemma forallb_ext' {A} (f g : A -> bool) L : (forall x, f x = g x) -> forallb f L = forallb g L.
Proof. intros H. induction L as [|a L IH]; [reflexivity|]. cbn [forallb]. now rewrite H, IH. Qed.

Definition Full (s : st) : Prop := forall i, (i < n s)%nat -> dat s i = Some (X i).

Lemma finish_ok s : Inv s -> l s = missing s -> (forall m, (m < l s)%nat -> used s m = true) ->
  let '(s', ev) := finish s in
  Inv s' /\ Full s' /\ is_complete s' = is_complete s /\ n s' = n s /\ bs s' = bs s /\ l s' = l s /\
  (forall i b, In (EDataStore i b) ev -> (i < n s)%nat /\ b = X i).
Proof.
  intros HI Hlm Hall. unfold finish.
  assert (F0 : FinInv s 0 s) by (constructor; try reflexivity; [apply (I_dat s HI)| intros; lia]).
  pose proof (finish_gen s HI Hlm Hall (l s) 0%nat s [] ltac:(lia) F0 ltac:(intros ? ? [])) as H. cbn zeta in H.
  destruct (fold_left _ (seq 0 (l s)) (s, [])) as [s' ev]. cbn [fst snd] in H. destruct H as [HF Hev].
  assert (HXU : forall j, XU s' j = XU s j).
  { intros j. unfold XU, unk. now rewrite (unknowns_ext s s' (F_n _ _ _ HF) (F_done _ _ _ HF)). }
  assert (Hmiss : missing s' = missing s).
  { unfold missing. now rewrite (unknowns_ext s s' (F_n _ _ _ HF) (F_done _ _ _ HF)). }
  split; [|split; [|split; [|split; [|split; [|split]]]]].
  - constructor.
    + intros i Hi Hd. rewrite (F_n _ _ _ HF) in Hi. rewrite (F_done _ _ _ HF) in Hd. apply (F_dat _ _ _ HF); assumption.
    + rewrite (F_l _ _ _ HF), Hmiss. apply (I_l s HI).
    + intros m Hm Hu. rewrite (F_l _ _ _ HF) in *. rewrite (F_used _ _ _ HF) in Hu.
      destruct (I_piv s HI m Hm Hu) as (r & p & H1 & H2 & H3 & H4 & H5). exists r, p.
      rewrite (F_mat _ _ _ HF), (F_par _ _ _ HF). repeat split; try assumption.
      rewrite H5. apply dot_ext. intros; symmetry; apply HXU.
  - intros i Hi. rewrite (F_n _ _ _ HF) in Hi. destruct (done s i) eqn:D.
    + apply (F_dat _ _ _ HF); assumption.
    + destruct (unk_surj s i Hi D) as (j & Hj & <-). apply (F_fin _ _ _ HF). lia.
  - unfold is_complete. rewrite (F_l _ _ _ HF), (F_n _ _ _ HF).
    destruct (Nat.eqb (l s) 0); apply forallb_ext'; intros; [apply (F_done _ _ _ HF)| apply (F_used _ _ _ HF)].
  - apply (F_n _ _ _ HF).
  - apply (F_bs _ _ _ HF).
  - apply (F_l _ _ _ HF).
  - exact Hev.
Qed.

(* ---------- one call ---------- *)
Lemma strip_events (s : st) r L d ev :
  no_new_datastore ev (snd (fold_left (fun '(d, ev) i =>
      if bit r i && done s i then (N.lxor d (getb (dat s i)), ev ++ [EDataGet i]) else (d, ev)) L (d, ev))).
Proof.
  revert d ev. induction L as [|a L IH]; intros d ev; cbn [fold_left].
  - intros i b H; exact H.
  - destruct (bit r a && done s a); [|apply IH].
    intros i b Hin. specialize (IH _ _ i b Hin). apply in_app_or in IH. destruct IH as [H|[H|[]]]; [assumption|discriminate].
Qed.

Lemma dot_unit k i f : (i < k)%nat -> dot k (N.shiftl 1 (N.of_nat i)) f = f i.
Proof.
  intros Hi. rewrite dot_sumf, (seq_split3 i k Hi), sumf_app. cbn [sumf].
  assert (B : forall j, bit (N.shiftl 1 (N.of_nat i)) j = Nat.eqb j i).
  { intros j. unfold bit. rewrite N.shiftl_1_l, N.pow2_bits_eqb. destruct (Nat.eqb_spec j i) as [->|Hne]; [apply N.eqb_refl| apply N.eqb_neq; lia]. }
  rewrite B, Nat.eqb_refl.
  rewrite (sumf_zero (seq 0 i)), (sumf_zero (seq (S i) (k - S i))).
  - xor_ac.
  - intros j Hj. apply in_seq in Hj. rewrite B. destruct (Nat.eqb_spec j i); [lia| reflexivity].
  - intros j Hj. apply in_seq in Hj. rewrite B. destruct (Nat.eqb_spec j i); [lia| reflexivity].
Qed.

Definition Inv' (s : st) : Prop :=
  Inv s /\ (is_complete s = true -> Full s) /\ (l s = 0%nat -> forall m, used s m = false).

Lemma forallb_seq_false f k : forallb f (seq 0 k) = false -> exists i, (i < k)%nat /\ f i = false.
Proof.
  intros H. destruct (forallb f (seq 0 k)) eqn:E; [discriminate|].
  assert (~ (forall x, In x (seq 0 k) -> f x = true)) by (rewrite <- forallb_forall; congruence).
  induction k as [|k IH]; [exfalso; apply H0; intros ? []|].
  destruct (f k) eqn:Fk.
  - destruct IH as (i & Hi & Hf).
    + rewrite seq_S, forallb_app in E. cbn [forallb plus] in E. rewrite Fk in E. cbn in E. now rewrite andb_true_r in E.
    + intros C. apply H0. intros x Hx. rewrite seq_S in Hx. apply in_app_or in Hx. destruct Hx as [Hx|[<-|[]]]; [apply C; assumption| exact Fk].
    + exists i. split; [lia| assumption].
  - exists k. split; [lia| assumption].
Qed.

Lemma missing_pos s : forallb (done s) (seq 0 (n s)) = false -> (1 <= missing s)%nat.
Proof.
  intros H. destruct (forallb_seq_false _ _ H) as (i & Hi & Hd).
  destruct (unk_surj s i Hi Hd) as (j & Hj & _). lia.
Qed.

Definition step_post (s : st) (res : st * result * list event) : Prop :=
  let '(s', r, ev) := res in
  Inv' s' /\ n s' = n s /\ bs s' = bs s /\
  (forall i b, In (EDataStore i b) ev -> (i < n s)%nat /\ b = X i) /\
  (forall len, r = Done len -> len = N.of_nat (n s) * bs s /\ Full s' /\ is_complete s' = true).

Lemma forallb_seq_true f k : forallb f (seq 0 k) = true -> forall m, (m < k)%nat -> f m = true.
Proof. intros H m Hm. rewrite forallb_forall in H. apply H, in_seq. lia. Qed.

(* the stage-2 branch of handle_block, from a state already in stage 2 *)
Lemma stage2_ok s1 idx :
  Inv s1 -> l s1 = missing s1 -> (1 <= l s1)%nat ->
  step_post s1
    (let '(s2, ev) := handle_parity P s1 idx (enc P (n s1) X idx) in
     if is_complete s2 then let '(s3, ev') := finish s2 in (s3, Done (done_len s3), ev ++ ev')
     else (s2, NeedMore, ev)).
Proof.
  intros HI Hlm Hl1. unfold handle_parity, enc.
  pose proof (strip_project s1 (P idx) (I_dat s1 HI)) as Hsp.
  assert (Hse : no_new_datastore [] (snd (strip s1 (P idx) (dot (n s1) (P idx) X)))) by apply strip_events.
  destruct (strip s1 (P idx) (dot (n s1) (P idx) X)) as [d ev0] eqn:Es.
  cbn [fst snd] in Hsp, Hse.
  assert (Hc : high_clear (project s1 (P idx)) (l s1 - 1)).
  { intros j Hj. rewrite project_bit. destruct (Nat.ltb_spec j (missing s1)); [lia| reflexivity]. }
  rewrite <- Hlm in Hsp.
  pose proof (elim_ok s1 HI (l s1 - 1)%nat (project s1 (P idx)) d ev0 ltac:(lia) Hc Hsp) as (HI2 & SC & Hev).
  destruct (elim s1 (l s1 - 1) (project s1 (P idx)) d ev0) as [s2 ev2]. cbn [fst snd] in *.
  destruct SC as (Hn & Hl & Hbs & Hdn & Hdt).
  assert (Hmiss2 : missing s2 = missing s1) by (unfold missing; now rewrite (unknowns_ext s1 s2 Hn Hdn)).
  assert (Hev2 : forall i b, ~ In (EDataStore i b) ev2) by (intros i b Hin; apply (Hse i b), Hev, Hin).
  destruct (is_complete s2) eqn:EC.
  - assert (Hall : forall m, (m < l s2)%nat -> used s2 m = true).
    { unfold is_complete in EC. destruct (Nat.eqb_spec (l s2) 0); [lia|]. apply forallb_seq_true; exact EC. }
    pose proof (finish_ok s2 HI2 ltac:(lia) Hall) as HF. destruct (finish s2) as [s3 ev3].
    destruct HF as (HI3 & HFull & HC3 & Hn3 & Hbs3 & Hl3 & Hev3).
    unfold step_post. split; [|split; [lia|split; [congruence|split]]].
    + split; [exact HI3|]. split; [intros _; exact HFull|]. intros Hl0 m.
      exfalso. lia.
    + intros i b Hin. apply in_app_or in Hin. destruct Hin as [Hin|Hin]; [exfalso; apply (Hev2 i b Hin)|].
      destruct (Hev3 i b Hin) as [A B]. split; [lia| exact B].
    + intros len Hlen. inversion Hlen. unfold done_len. rewrite Hn3, Hn, Hbs3, Hbs. repeat split; try assumption. congruence.
  - unfold step_post. split; [|split; [exact Hn|split; [exact Hbs|split]]].
    + split; [exact HI2|]. split; [intros C; congruence| intros Hl0; lia].
    + intros i b Hin. exfalso. apply (Hev2 i b Hin).
    + intros len C; discriminate.
Qed.

Lemma stage1_ok s idx :
  Inv' s -> l s = 0%nat -> (idx < n s)%nat -> P idx = N.shiftl 1 (N.of_nat idx) ->
  step_post s
    (let '(s2, ev) :=
      if done s idx then (s, [])
      else (mkst (n s) (l s) (bs s) (upd (done s) idx true) (used s) (upd (dat s) idx (Some (enc P (n s) X idx))) (par s) (mat s),
            [EDataStore idx (enc P (n s) X idx)]) in
     (s2, if is_complete s2 then Done (done_len s2) else NeedMore, ev)).
Proof.
  intros (HI & HC & HU) Hl0 Hidx HP.
  assert (Henc : enc P (n s) X idx = X idx) by (unfold enc; rewrite HP; apply dot_unit; exact Hidx).
  destruct (done s idx) eqn:Hd.
  - unfold step_post. split; [exact (conj HI (conj HC HU))|]. split; [reflexivity|]. split; [reflexivity|]. split; [intros ? ? []|].
    intros len Hlen. destruct (is_complete s) eqn:EC; [|discriminate]. inversion Hlen. split; [reflexivity|]. split; [apply HC; reflexivity| reflexivity].
  - rewrite Henc.
    set (s2 := mkst (n s) (l s) (bs s) (upd (done s) idx true) (used s) (upd (dat s) idx (Some (X idx))) (par s) (mat s)).
    assert (HI2 : Inv s2).
    { constructor; cbn [s2 n l bs done used dat par mat].
      - intros i Hi Hdi. unfold upd in *. destruct (Nat.eqb_spec i idx) as [->|Hne]; [reflexivity| apply (I_dat s HI); assumption].
      - left; exact Hl0.
      - intros m Hm; lia. }
    assert (HF2 : is_complete s2 = true -> Full s2).
    { intros EC i Hi. unfold is_complete in EC. cbn [s2 l n done] in EC. rewrite Hl0 in EC. cbn [Nat.eqb] in EC.
      apply (I_dat s2 HI2 i Hi). apply (forallb_seq_true _ _ EC i Hi). }
    unfold step_post. split; [split; [exact HI2|split; [exact HF2| exact HU]]|].
    split; [reflexivity|]. split; [reflexivity|]. split.
    + intros i b [Hin|[]]. inversion Hin; subst. split; [assumption|reflexivity].
    + intros len Hlen. destruct (is_complete s2) eqn:EC; [|discriminate]. inversion Hlen. repeat split; auto.
Qed.

Lemma hb_ok cap vbits s idx :
  (forall m, (m < n s)%nat -> P m = N.shiftl 1 (N.of_nat m)) ->
  Inv' s -> step_post s (handle_block P cap vbits s idx (enc P (n s) X idx)).
Proof.
  intros HP HI'. pose proof HI' as (HI & HC & HU). destruct s as [n0 l0 bs0 done0 used0 dat0 par0 mat0].
  unfold handle_block.
  destruct (is_complete _) eqn:EC.
  { unfold step_post. split; [exact HI'|]. split; [reflexivity|]. split; [reflexivity|]. split; [intros ? ? []|].
    intros len Hlen. inversion Hlen. repeat split; auto. }
  cbn [n l bs done used dat par mat] in *.
  set (s := mkst n0 l0 bs0 done0 used0 dat0 par0 mat0) in *.
  destruct (Nat.leb n0 idx && Nat.eqb l0 0) eqn:Eenter; cbn [andb].
  - apply andb_prop in Eenter. destruct Eenter as [E1 E2]. apply Nat.leb_le in E1. apply Nat.eqb_eq in E2. subst l0.
    destruct (Nat.ltb vbits (missing s) || Nat.ltb cap (missing s)) eqn:Eref.
    { unfold step_post. split; [exact HI'|]. split; [reflexivity|]. split; [reflexivity|]. split; [intros ? ? []| intros; discriminate]. }
    assert (Hm : (1 <= missing s)%nat).
    { apply missing_pos. unfold is_complete in EC. cbn [s l Nat.eqb n] in EC. exact EC. }
    set (s1 := mkst n0 (missing s) bs0 done0 used0 dat0 par0 mat0).
    assert (HI1 : Inv s1).
    { constructor; cbn [n l bs done used dat par mat s1].
      - apply (I_dat s HI).
      - right. split; [reflexivity| exact Hm].
      - intros m _ Hu. rewrite (HU eq_refl m) in Hu. discriminate. }
    cbn [l]. destruct (Nat.eqb (missing s) 0) eqn:E0; [apply Nat.eqb_eq in E0; lia|].
    exact (stage2_ok s1 idx HI1 eq_refl Hm).
  - cbn [l]. destruct (Nat.eqb l0 0) eqn:E0.
    + apply Nat.eqb_eq in E0. subst l0. rewrite andb_true_r in Eenter. apply Nat.leb_gt in Eenter.
      exact (stage1_ok s idx HI' eq_refl Eenter (HP idx Eenter)).
    + apply Nat.eqb_neq in E0. destruct (I_l s HI) as [A|[A B]]; [cbn [s l] in A; lia|].
      exact (stage2_ok s idx HI A B).
Qed.

(* ---------- whole runs ---------- *)
Lemma run_after_complete cap vbits bl s : is_complete s = true -> fst (fst (run P cap vbits s bl)) = s.
Proof.
  revert s. induction bl as [|[i b] bl IH]; intros s EC; cbn [run]; [reflexivity|].
  unfold handle_block. rewrite EC. specialize (IH s EC).
  destruct (run P cap vbits s bl) as [[s2 rs] es]. exact IH.
Qed.

Theorem run_sound cap vbits : forall bl s,
  (forall m, (m < n s)%nat -> P m = N.shiftl 1 (N.of_nat m)) ->
  Inv' s -> Forall (fun p => snd p = enc P (n s) X (fst p)) bl ->
  let '(s', rs, evs) := run P cap vbits s bl in
  Inv' s' /\ n s' = n s /\ bs s' = bs s /\
  (forall i b, In (EDataStore i b) evs -> (i < n s)%nat /\ b = X i) /\
  (forall len, In (Done len) rs -> len = N.of_nat (n s) * bs s /\ Full s').
Proof.
  induction bl as [|[i b] bl IH]; intros s HP HI' HF; cbn [run].
  - split; [exact HI'|]. split; [reflexivity|]. split; [reflexivity|]. split; [intros ? ? []| intros ? []].
  - inversion HF as [|? ? Hb HF']; subst. cbn [fst snd] in Hb. subst b.
    pose proof (hb_ok cap vbits s i HP HI') as H1.
    pose proof (run_after_complete cap vbits bl) as RC.
    destruct (handle_block P cap vbits s i _) as [[s1 r] e].
    destruct H1 as (HI1 & Hn1 & Hbs1 & He1 & Hr1).
    specialize (IH s1). rewrite Hn1 in IH. specialize (IH HP HI1 HF'). specialize (RC s1).
    destruct (run P cap vbits s1 bl) as [[s2 rs] es]. destruct IH as (HI2 & Hn2 & Hbs2 & He2 & Hr2).
    split; [exact HI2|]. split; [congruence|]. split; [congruence|]. split.
    + intros i0 b0 Hin. apply in_app_or in Hin. destruct Hin as [Hin|Hin]; [apply He1| apply He2]; assumption.
    + intros len [Hin|Hin].
      * subst r. destruct (Hr1 len eq_refl) as (A & B & C). split; [exact A|].
        cbn [fst] in RC. rewrite (RC C). exact B.
      * destruct (Hr2 len Hin) as [A B]. split; [congruence| exact B].
Qed.
End Sound.

(* ---------- the property theorem, from the initial state ---------- *)
Lemma init_inv (X : nat -> blk) nn bs0 : Inv' X (init nn bs0).
Proof.
  split; [constructor; cbn [init n l bs done used dat par mat]|split].
  - intros; discriminate.
  - left; reflexivity.
  - intros; lia.
  - intros EC i Hi. unfold is_complete in EC. cbn [init l n done Nat.eqb] in EC.
    cbn [init n] in Hi. destruct nn; [lia|]. cbn in EC. discriminate.
  - reflexivity.
Qed.

Theorem recon_sound : forall (P : nat -> row) (nn cap vbits : nat) (bs0 : N) (X : nat -> blk) (bl : list (nat * blk)),
    (forall m, (m < nn)%nat -> P m = N.shiftl 1 (N.of_nat m)) ->
    Forall (consistent P nn X) bl ->
    let '(s', rs, evs) := run P cap vbits (init nn bs0) bl in
    (forall i b, In (EDataStore i b) evs -> (i < nn)%nat /\ b = X i) /\
    (forall len, In (Done len) rs -> len = N.of_nat nn * bs0 /\ forall i, (i < nn)%nat -> dat s' i = Some (X i)).
Proof.
  intros P nn cap vbits bs0 X bl HP HF.
  pose proof (run_sound P X cap vbits bl (init nn bs0) HP (init_inv X nn bs0) HF) as H.
  destruct (run P cap vbits (init nn bs0) bl) as [[s' rs] evs].
  destruct H as (_ & Hn & _ & He & Hr). split; [exact He|].
  intros len Hin. destruct (Hr len Hin) as [A B]. split; [exact A|]. intros i Hi. apply B. cbn [init n] in Hn. lia.
Qed.
Print Assumptions recon_sound.

Lemma c02_example :
  let P := TestParity 4 in let X := fun i => N.of_nat (S i) in
  let bl := [(0%nat,1);(2%nat,3);(9%nat,2);(10%nat,1);(14%nat,6)] in
  Forall (consistent P 4 X) bl /\ In (Done 4) (snd (fst (run P 2 8 (init 4 1) bl))).
Proof. cbv zeta. split; [repeat constructor| vm_compute; tauto]. Qed.
