From Coq Require Import List NArith ZArith Arith Bool Lia.
Require Import Slots SlotsProof RingA.
Import ListNotations.

(* C17 (header level): on ANY ring of parseable headers - no reachability assumed - the repaired allocation does not panic *)
Theorem alloc_total sl : (forall i s, seqat sl i = Some s -> (s < 4294967295)%N) -> alloc_repaired sl <> Panic.
Proof.
  intros HP. unfold alloc_repaired, alloc.
  pose proof (high_spec sl) as HH.
  destruct (low_of sl) as [[lo hl]|]; [|destruct (high_of sl) as [[? ?]|]; discriminate].
  destruct (high_of sl) as [[hi hh]|]; [|discriminate]. destruct HH as [HHin _].
  assert (Hs : (hseq hh < 4294967295)%N) by (apply (HP hi); apply seqat_indexed; exists hh; split; [exact HHin| reflexivity]).
  assert (E1 : (hseq hh =? 4294967295)%N = false) by (apply N.eqb_neq; lia).
  assert (NX : forall s, (s < 4294967295)%N -> exists t, next_seq true s = Some t /\ (t < 4294967295)%N).
  { intros s Ls. unfold next_seq. destruct (N.eqb_spec s 4294967295); [lia|]. destruct (N.eqb_spec (s + 1) 4294967295); [exists 0%N; split; [reflexivity| lia]| exists (s + 1)%N; split; [reflexivity| lia]]. }
  destruct (NX _ Hs) as (t1 & N1 & L1). destruct (NX _ L1) as (t2 & N2 & L2). rewrite N1, N2.
  destruct (Nat.leb _ _); [discriminate|].
  destruct (Nat.eqb _ (length sl - 2)).
  { destruct (Nat.eqb _ lo); discriminate. }
  destruct (_ || _); [|discriminate]. destruct (nth _ sl None); discriminate.
Qed.
Print Assumptions alloc_total.
