
val negb : bool -> bool

type nat =
| O
| S of nat

val option_map : ('a1 -> 'a2) -> 'a1 option -> 'a2 option

val fst : ('a1 * 'a2) -> 'a1

val snd : ('a1 * 'a2) -> 'a2

val length : 'a1 list -> nat

val app : 'a1 list -> 'a1 list -> 'a1 list

type comparison =
| Eq
| Lt
| Gt

val add : nat -> nat -> nat

val sub : nat -> nat -> nat

module Nat :
 sig
  val eqb : nat -> nat -> bool

  val leb : nat -> nat -> bool

  val ltb : nat -> nat -> bool
 end

val nth : nat -> 'a1 list -> 'a1 -> 'a1

val fold_left : ('a1 -> 'a2 -> 'a1) -> 'a2 list -> 'a1 -> 'a1

val forallb : ('a1 -> bool) -> 'a1 list -> bool

val filter : ('a1 -> bool) -> 'a1 list -> 'a1 list

val seq : nat -> nat -> nat list

type positive =
| XI of positive
| XO of positive
| XH

type n =
| N0
| Npos of positive

module Pos :
 sig
  type mask =
  | IsNul
  | IsPos of positive
  | IsNeg
 end

module Coq_Pos :
 sig
  val succ : positive -> positive

  val add : positive -> positive -> positive

  val add_carry : positive -> positive -> positive

  val pred_double : positive -> positive

  val pred_N : positive -> n

  type mask = Pos.mask =
  | IsNul
  | IsPos of positive
  | IsNeg

  val succ_double_mask : mask -> mask

  val double_mask : mask -> mask

  val double_pred_mask : positive -> mask

  val sub_mask : positive -> positive -> mask

  val sub_mask_carry : positive -> positive -> mask

  val mul : positive -> positive -> positive

  val iter : ('a1 -> 'a1) -> 'a1 -> positive -> 'a1

  val pow : positive -> positive -> positive

  val compare_cont : comparison -> positive -> positive -> comparison

  val compare : positive -> positive -> comparison

  val eqb : positive -> positive -> bool

  val coq_Nsucc_double : n -> n

  val coq_Ndouble : n -> n

  val coq_lor : positive -> positive -> positive

  val coq_land : positive -> positive -> n

  val ldiff : positive -> positive -> n

  val coq_lxor : positive -> positive -> n

  val shiftl : positive -> n -> positive

  val testbit : positive -> n -> bool

  val iter_op : ('a1 -> 'a1 -> 'a1) -> positive -> 'a1 -> 'a1

  val to_nat : positive -> nat

  val of_succ_nat : nat -> positive
 end

module N :
 sig
  val succ_double : n -> n

  val double : n -> n

  val add : n -> n -> n

  val sub : n -> n -> n

  val mul : n -> n -> n

  val compare : n -> n -> comparison

  val eqb : n -> n -> bool

  val leb : n -> n -> bool

  val ltb : n -> n -> bool

  val div2 : n -> n

  val pow : n -> n -> n

  val pos_div_eucl : positive -> n -> n * n

  val div_eucl : n -> n -> n * n

  val div : n -> n -> n

  val modulo : n -> n -> n

  val coq_lor : n -> n -> n

  val coq_land : n -> n -> n

  val ldiff : n -> n -> n

  val coq_lxor : n -> n -> n

  val shiftl : n -> n -> n

  val shiftr : n -> n -> n

  val testbit : n -> n -> bool

  val to_nat : n -> nat

  val of_nat : nat -> n

  val setbit : n -> n -> n

  val clearbit : n -> n -> n
 end

type mem = n -> n

val byte_of : n -> n -> n

val program : mem -> n -> n -> n -> mem

val read_n : mem -> n -> nat -> n

val read : mem -> n -> n -> n

val hEADER_SIZE : n

val dATA_REGION_OFFSET : n

val mro : n -> n

val rowlen : n -> n

val fits : n -> n -> n -> bool

val bsearch : nat -> n -> n -> n -> n -> n

val max_l : n -> n -> n

val prbs23 : n -> n

val is_pow2 : n -> bool

val draw : nat -> n -> n -> n -> (n * n) option

val ref_fill : nat -> nat -> n -> n -> n -> n list option

val u32 : n -> n

val impl_new : nat -> n -> n -> n list option

type 'st sto = { dget : ('st -> nat -> n); dput : ('st -> nat -> n -> 'st);
                 pget : ('st -> nat -> n); pput : ('st -> nat -> n -> 'st);
                 mget : ('st -> nat -> n); mput : ('st -> nat -> n -> 'st) }

type result =
| NeedMore
| TooManyMissing
| Done of n

type 'st gst = { n0 : nat; l : nat; bs : n; done0 : (nat -> bool);
                 used : (nat -> bool); store : 'st }

val upd : (nat -> 'a1) -> nat -> 'a1 -> nat -> 'a1

val bit : n -> nat -> bool

val unknowns : 'a1 gst -> nat list

val missing : 'a1 gst -> nat

val unk : 'a1 gst -> nat -> nat

val is_complete : 'a1 gst -> bool

val strip : 'a1 sto -> 'a1 gst -> n -> n -> n

val project : 'a1 gst -> n -> n

val elim : 'a1 sto -> 'a1 gst -> nat -> n -> n -> 'a1 gst

val finish_row : 'a1 sto -> 'a1 gst -> nat -> 'a1 gst

val finish : 'a1 sto -> 'a1 gst -> 'a1 gst

val done_len : 'a1 gst -> n

val handle_block :
  'a1 sto -> (nat -> n) -> nat -> nat -> 'a1 gst -> nat -> n -> 'a1
  gst * result

type fl = { mm : mem; wlog : ((n * n) * n) list }

val fprog : fl -> n -> n -> n -> fl

type geo = { fwb : n; pab : n; sz : n; nseg : n; ssize : n }

val capL : geo -> n

val daddr : geo -> nat -> n

val saddr : geo -> nat -> n

val paddr : geo -> nat -> n

val raddr : geo -> nat -> n

val flash_sto : geo -> fl sto

val mask0 : n list -> n

val updater_row : nat -> nat -> n

type session = fl gst

val start_session : geo -> mem -> session

val handle_segment : geo -> session -> nat -> n -> session * result

val feed : geo -> session -> (nat * n) list -> session * result list

val erased_mem : mem

val run_session :
  n -> n -> n -> (nat * n) list -> (result list * ((n * n) * n) list) * n
