From Coq Require Import List NArith ZArith Arith Bool Lia Sorted.
Require Import Slots SlotsProof RingA Exact RingB Recover Boot.
Import ListNotations.

Definition hd_at (sl : slots) i h := nth_error sl i = Some (Some h).
Lemma hd_at_set sl i o j h :
  hd_at (setnth sl i o) j h <-> (if Nat.eqb j i then (i < length sl)%nat /\ o = Some h else hd_at sl j h).
Proof.
  unfold hd_at. rewrite nth_error_setnth. destruct (Nat.eqb j i); [|tauto].
  destruct (Nat.ltb_spec i (length sl)) as [L|L]; split; intros H.
  - inversion H. auto. - destruct H as [_ ->]. reflexivity. - discriminate. - lia.
Qed.
Lemma seqat_hd sl i s : seqat sl i = Some s <-> exists h, hd_at sl i h /\ hseq h = s.
Proof. rewrite seqat_indexed. split; intros (h & A & B); exists h; (split; [apply indexed_iff; exact A| exact B]). Qed.

Definition with_int (h : hdr) v := mkhdr (hkind h) (hseq h) (hsize h) (hcount h) (hext h) v (hboot h).
Definition with_boot (h : hdr) v := mkhdr (hkind h) (hseq h) (hsize h) (hcount h) (hext h) (hint h) v.

(* ghost lifecycle tracker, written without looking at the headers *)
Record ghost := mkg { copy : option nat; ack : option nat; conf : list nat }.   (* conf: most recent first *)
Definition odrop i (o : option nat) := match o with Some j => if Nat.eqb j i then None else o | None => None end.
Definition gdrop i g := mkg (odrop i (copy g)) (odrop i (ack g)) (remove Nat.eq_dec i (conf g)).

Definition seqlt (sl : slots) j i := forall sj si, seqat sl j = Some sj -> seqat sl i = Some si -> (sj < si)%N.
Definition newest_pair (sl : slots) f p := exists hf hp,
  hd_at sl f hf /\ hd_at sl p hp /\ total_status hf = AppWriteInProgress /\ total_status hp = AppWriteInProgress /\
  hkind hf = Firmware /\ hkind hp = Parity /\ f <> p /\ (hseq hf < hseq hp)%N /\
  forall j sj, j <> f -> j <> p -> seqat sl j = Some sj -> (sj < hseq hf)%N.

Definition state := (slots * ghost * option (nat * nat))%type.

Section Life.
Variable NS : nat.
Hypothesis HN : (4 <= NS)%nat.

Inductive step : state -> state -> Prop :=
(* crash prefixes of start_update: erase a, erase b, firmware header, [parity header = s_start] *)
| s_start_e1 sl g lv a b s1 s2 : nowrap sl -> alloc_repaired sl = Ok (a, b, s1, s2) ->
    step (sl, g, lv) (setnth sl a None, gdrop a g, None)
| s_start_e1b sl g lv a b s1 s2 : nowrap sl -> alloc_repaired sl = Ok (a, b, s1, s2) ->
    step (sl, g, lv) (setnth sl b None, gdrop b g, None)      (* order after the repair: second slot first *)
| s_start_e2 sl g lv a b s1 s2 : nowrap sl -> alloc_repaired sl = Ok (a, b, s1, s2) ->
    step (sl, g, lv) (setnth (setnth sl a None) b None, gdrop b (gdrop a g), None)
| s_start_h1 sl g lv a b s1 s2 sz cnt : nowrap sl -> alloc_repaired sl = Ok (a, b, s1, s2) ->
    step (sl, g, lv) (setnth (setnth sl a (Some (mkhdr Firmware s1 sz cnt EInProgress IInProgress Untested))) b None, gdrop b (gdrop a g), None)
| s_start sl g lv a b s1 s2 sz cnt cap : nowrap sl -> alloc_repaired sl = Ok (a, b, s1, s2) ->
    step (sl, g, lv) (setnth (setnth sl a (Some (mkhdr Firmware s1 sz cnt EInProgress IInProgress Untested))) b
                             (Some (mkhdr Parity s2 sz cap EInProgress IInProgress Untested)), gdrop b (gdrop a g), Some (a, b))
(* elementary effects of cancel / remediation (and of their crash prefixes) *)
| s_abort sl g lv i h : hd_at sl i h -> ext_inprogress h = true -> (forall f p, lv = Some (f, p) -> i <> f /\ i <> p) ->
    step (sl, g, lv) (setnth sl i (Some (with_ext h EAborted)), g, lv)
| s_abort_live sl g lv i h : hd_at sl i h -> ext_inprogress h = true ->
    step (sl, g, lv) (setnth sl i (Some (with_ext h EAborted)), g, None)
| s_erase sl g lv i h : hd_at sl i h ->
    (total_status h = BootloadWriteInProgress \/ total_status h = InvalidNeedsErase) -> (forall f p, lv = Some (f, p) -> i <> f /\ i <> p) ->
    step (sl, g, lv) (setnth sl i None, gdrop i g, lv)
(* recovery hands out the newest pair; reboot forgets the session *)
| s_resume sl g lv f p : newest_pair sl f p -> step (sl, g, lv) (sl, g, Some (f, p))
| s_reboot sl g lv : step (sl, g, lv) (sl, g, None)
(* completion (proviso: nothing else awaits the bootloader), with its crash prefix *)
| s_complete_fw sl g f p hf : hd_at sl f hf -> copy g = None -> ack g = None ->
    step (sl, g, Some (f, p)) (setnth sl f (Some (with_ext hf EComplete)), mkg (Some f) None (conf g), None)
| s_complete sl g f p hf hp : hd_at sl f hf -> hd_at sl p hp -> copy g = None -> ack g = None ->
    step (sl, g, Some (f, p)) (setnth (setnth sl f (Some (with_ext hf EComplete))) p (Some (with_ext hp EComplete)), mkg (Some f) None (conf g), None)
(* bootloader and application marks *)
| s_copydone sl g lv i h : copy g = Some i -> hd_at sl i h ->
    step (sl, g, lv) (setnth sl i (Some (with_int h IComplete)), mkg None (Some i) (conf g), lv)
| s_confirm sl g lv i h : ack g = Some i -> hd_at sl i h ->
    step (sl, g, lv) (setnth sl i (Some (with_boot h Successful)), mkg (copy g) None (i :: conf g), lv)
| s_reject sl g lv i h : ack g = Some i -> hd_at sl i h ->
    step (sl, g, lv) (setnth sl i (Some (with_boot h Unsuccessful)), mkg (copy g) None (conf g), lv).

Record Inv (st : state) : Prop := {
  I_reach : reach NS (fst (fst st));
  I_copy : forall i h, hd_at (fst (fst st)) i h -> (awaiting h = Some false <-> copy (snd (fst st)) = Some i);
  I_ack : forall i h, hd_at (fst (fst st)) i h -> (awaiting h = Some true <-> ack (snd (fst st)) = Some i);
  I_conf : forall i h, hd_at (fst (fst st)) i h -> (is_confirmed h = true <-> In i (conf (snd (fst st))));
  I_pc : forall i, copy (snd (fst st)) = Some i -> exists h, hd_at (fst (fst st)) i h;
  I_pa : forall i, ack (snd (fst st)) = Some i -> exists h, hd_at (fst (fst st)) i h;
  I_pf : forall i, In i (conf (snd (fst st))) -> exists h, hd_at (fst (fst st)) i h;
  I_one : copy (snd (fst st)) = None \/ ack (snd (fst st)) = None;
  I_desc : StronglySorted (fun i j => seqlt (fst (fst st)) j i) (conf (snd (fst st)));
  I_newer : forall i j, copy (snd (fst st)) = Some i \/ ack (snd (fst st)) = Some i -> In j (conf (snd (fst st))) -> seqlt (fst (fst st)) j i;
  I_live : forall f p, snd st = Some (f, p) -> newest_pair (fst (fst st)) f p
}.

(* ---- what the invariant says about the two queries (C12) ---- *)
Definition expected_status (g : ghost) : blstatus :=
  match copy g, ack g with Some i, _ => IncompleteInternal i | None, Some i => FailedLoad i | None, None => Idle end.

Theorem queries_track_lifecycle st : Inv st ->
  bl_boot_status (fst (fst st)) = expected_status (snd (fst st)) /\
  fallback (fst (fst st)) = hd_error (conf (snd (fst st))).
Proof.
  destruct st as [[sl g] lv]. intros I. pose proof (I_copy _ I) as Hc. pose proof (I_ack _ I) as Ha. pose proof (I_conf _ I) as Hf.
  pose proof (I_pc _ I) as Pc. pose proof (I_pa _ I) as Pa. pose proof (I_pf _ I) as Pf. pose proof (I_one _ I) as One. cbn [fst snd] in *.
  assert (AMO : at_most_one_awaiting sl).
  { intros i j hi hj Hi Hj Ai Aj. apply indexed_iff in Hi. apply indexed_iff in Hj.
    destruct (awaiting hi) as [[|]|] eqn:Ei, (awaiting hj) as [[|]|] eqn:Ej; try congruence.
    - apply (Ha i hi Hi) in Ei. apply (Ha j hj Hj) in Ej. congruence.
    - apply (Ha i hi Hi) in Ei. apply (Hc j hj Hj) in Ej. destruct One; congruence.
    - apply (Hc i hi Hi) in Ei. apply (Ha j hj Hj) in Ej. destruct One; congruence.
    - apply (Hc i hi Hi) in Ei. apply (Hc j hj Hj) in Ej. congruence. }
  destruct (bl_boot_status_spec sl AMO) as (S1 & S2 & S3). split.
  - unfold expected_status. destruct (copy g) as [i|] eqn:Ec.
    + apply S1. destruct (Pc i eq_refl) as [h Hh]. exists h. split; [apply indexed_iff; exact Hh| apply (Hc i h Hh); reflexivity].
    + destruct (ack g) as [i|] eqn:Ea.
      * apply S2. destruct (Pa i eq_refl) as [h Hh]. exists h. split; [apply indexed_iff; exact Hh| apply (Ha i h Hh); reflexivity].
      * apply S3. intros i h Hi. apply indexed_iff in Hi. destruct (awaiting h) as [[|]|] eqn:E; [| |reflexivity].
        -- apply (Ha i h Hi) in E. congruence.
        -- apply (Hc i h Hi) in E. congruence.
  - destruct (fallback sl) as [f|] eqn:EF.
    + destruct (fallback_spec sl f EF) as (h & Hin & Cf & Mx). apply indexed_iff in Hin.
      pose proof (proj1 (Hf f h Hin) Cf) as Inf.
      destruct (conf g) as [|c rest] eqn:EC; [contradiction|]. cbn [hd_error]. f_equal.
      destruct Inf as [->|Inr]; [reflexivity|]. exfalso.
      pose proof (I_desc _ I) as D. cbn [fst snd] in D. rewrite ?EC in D. inversion D as [|? ? _ FA]; subst.
      rewrite Forall_forall in FA. specialize (FA f Inr).
      destruct (Pf c ltac:(left; reflexivity)) as [hc Hhc].
      assert (Cc : is_confirmed hc = true) by (apply (Hf c hc Hhc); left; reflexivity).
      specialize (Mx c hc ltac:(apply indexed_iff; exact Hhc) Cc).
      specialize (FA (hseq h) (hseq hc) ltac:(apply seqat_hd; eauto) ltac:(apply seqat_hd; eauto)). lia.
    + destruct (conf g) as [|c rest] eqn:EC; [reflexivity|]. exfalso.
      destruct (Pf c ltac:(left; reflexivity)) as [hc Hhc].
      assert (Cc : is_confirmed hc = true) by (apply (Hf c hc Hhc); left; reflexivity).
      unfold fallback in EF.
      assert (G : forall (L : list (nat * hdr)) (acc : option (nat * N)), (acc <> None \/ exists i h, In (i, h) L /\ is_confirmed h = true) ->
         fold_left (fun acc '(i, h) => if is_confirmed h then match acc with None => Some (i, hseq h) | Some (_, s0) => if (s0 <? hseq h)%N then Some (i, hseq h) else acc end else acc) L acc <> None).
      { induction L as [|[i h] L IH]; intros acc H; cbn [fold_left].
        - destruct H as [A|(i0 & h0 & [] & _)]. exact A.
        - destruct H as [A|(i0 & h0 & [Q|Q] & Cq)].
          + apply IH. left. destruct (is_confirmed h); [|exact A]. destruct acc as [[? s0]|]; [|congruence]. destruct (s0 <? hseq h)%N; congruence.
          + inversion Q; subst. apply IH. left. rewrite Cq. destruct acc as [[? s0]|]; [|discriminate]. destruct (s0 <? hseq h0)%N; discriminate.
          + apply IH. right. exists i0, h0. auto. }
      specialize (G (indexed sl) None (or_intror (ex_intro _ c (ex_intro _ hc (conj (proj2 (indexed_iff sl c hc) Hhc) Cc))))).
      destruct (fold_left _ (indexed sl) None); [discriminate| congruence].
Qed.
End Life.
