(* C20, third clause, on the executable byte-level model of the deprecated manager (V1.v with orig = true):
   no fragment write - data or parity, accepted or not, whatever it returns and whatever fault is armed - programs a byte
   outside the slot the fragment belongs to, and it never erases.  The range check of write_segment_internal
   (written_in_range && data_in_range, the latter counting the data region offset since the "fix:" commit 56d858b) is what
   the proof rests on: with the pre-fix expression (i0 + 1) * sz <= slot size the last obligation is not provable. *)
From Coq Require Import List NArith Arith Bool Lia.
Require Import Consts Nor Geom MRecon Mgr MgrP V1 Confine.
Import ListNotations.
Open Scope N_scope.

(* the slot a fragment index belongs to: 1..tf firmware, tf+1..tf+tp parity *)
Definition frag_slot (u : v1) (idx1 : N) : nat := if idx1 <=? v_tf u then v_fw u else v_par u.

Definition prog_in (m : mgr) (i : nat) (e : fop) : Prop :=
  match e with FProg a len _ _ => base m i <= a /\ a + len <= base m i + m_size m | FErase _ => False end.

Theorem orig_write_in_slot m u idx1 payload plen rlen d :
  let '(d', _, _) := v1_write true m u idx1 payload plen rlen d in
  exists news, dlog d' = news ++ dlog d /\ (length news <= 2)%nat /\ Forall (prog_in m (frag_slot u idx1)) news.
Proof.
  unfold v1_write, frag_slot.
  destruct (idx1 =? 0); [exists []; repeat split; auto|].
  destruct (N.leb_spec idx1 (v_tf u)) as [Hle|Hgt].
  - (* firmware fragment *)
    cbv zeta. cbn [negb].
    destruct (plen =? v_sz u) eqn:EL; cbn [negb]; [|exists []; repeat split; auto].
    apply N.eqb_eq in EL.
    destruct ((idx1 - 1 <? MAX_SEGMENTS) && (DATA_REGION_OFFSET + (idx1 - 1 + 1) * v_sz u <=? m_size m)) eqn:RG; cbn [negb];
      [|exists []; repeat split; auto].
    apply andb_true_iff in RG. destruct RG as [R1 R2]. apply N.ltb_lt in R1. apply N.leb_le in R2.
    set (i0 := idx1 - 1) in *. set (slot := v_fw u) in *.
    match goal with |- context [d_read ?dd ?aa ?ll] => pose proof (d_read_log dd aa ll) as [RL _]; destruct (d_read dd aa ll) as [d1 [st|]] end;
      cbn [fst] in RL; [|exists []; repeat split; auto].
    destruct (st =? DATA_WRITTEN).
    { match goal with |- context [d_read ?dd ?aa ?ll] => pose proof (d_read_log dd aa ll) as [RL2 _]; destruct (d_read dd aa ll) as [d2 [v|]] end;
        cbn [fst] in RL2; [destruct (_ =? payload)|]; exists []; repeat split; auto; cbn; congruence. }
    destruct (negb (st =? DATA_NOT_WRITTEN)); [exists []; repeat split; auto|].
    destruct (d_prog_log2 d1 (base m slot + DATA_REGION_OFFSET + i0 * v_sz u) plen payload) as [T1 F1].
    destruct (d_prog d1 (base m slot + DATA_REGION_OFFSET + i0 * v_sz u) plen payload) as [d2 [|]]; cbn [fst snd] in T1, F1.
    2:{ exists []; repeat split; auto. cbn. rewrite (F1 eq_refl). exact RL. }
    destruct (T1 eq_refl) as (z1 & D1).
    destruct (d_prog_log2 d2 (base m slot + WRITTEN_OFFSET + i0) 1 DATA_WRITTEN) as [T2 F2].
    assert (P1 : prog_in m slot (FProg (base m slot + DATA_REGION_OFFSET + i0 * v_sz u) plen payload z1)).
    { cbn. subst plen. lia. }
    destruct (d_prog d2 (base m slot + WRITTEN_OFFSET + i0) 1 DATA_WRITTEN) as [d3 [|]]; cbn [fst snd] in T2, F2.
    + destruct (T2 eq_refl) as (z2 & D2).
      assert (P2 : prog_in m slot (FProg (base m slot + WRITTEN_OFFSET + i0) 1 DATA_WRITTEN z2)).
      { cbn. unfold WRITTEN_OFFSET, DATA_REGION_OFFSET, MAX_SEGMENTS in *. lia. }
      destruct (_ || _); eexists [_; _]; (split; [cbn; rewrite D2, D1, RL; reflexivity|]); (split; [cbn; lia|]); (apply Forall_cons; [exact P2|apply Forall_cons; [exact P1|apply Forall_nil]]).
    + eexists [_]. split; [cbn; rewrite (F2 eq_refl), D1, RL; reflexivity|]. split; [cbn; lia|]. apply Forall_cons; [exact P1|apply Forall_nil].
  - (* parity fragment or out of range *)
    destruct (idx1 <=? v_tf u + v_tp u); [|exists []; repeat split; auto].
    cbv zeta. cbn [negb].
    destruct (plen =? v_sz u) eqn:EL; cbn [negb]; [|exists []; repeat split; auto].
    apply N.eqb_eq in EL.
    destruct ((idx1 - 1 - v_tf u <? MAX_SEGMENTS) && (DATA_REGION_OFFSET + (idx1 - 1 - v_tf u + 1) * v_sz u <=? m_size m)) eqn:RG; cbn [negb];
      [|exists []; repeat split; auto].
    apply andb_true_iff in RG. destruct RG as [R1 R2]. apply N.ltb_lt in R1. apply N.leb_le in R2.
    set (i0 := idx1 - 1 - v_tf u) in *. set (slot := v_par u) in *.
    match goal with |- context [d_read ?dd ?aa ?ll] => pose proof (d_read_log dd aa ll) as [RL _]; destruct (d_read dd aa ll) as [d1 [st|]] end;
      cbn [fst] in RL; [|exists []; repeat split; auto].
    destruct (st =? DATA_WRITTEN).
    { match goal with |- context [d_read ?dd ?aa ?ll] => pose proof (d_read_log dd aa ll) as [RL2 _]; destruct (d_read dd aa ll) as [d2 [v|]] end;
        cbn [fst] in RL2; [destruct (_ =? payload)|]; exists []; repeat split; auto; cbn; congruence. }
    destruct (negb (st =? DATA_NOT_WRITTEN)); [exists []; repeat split; auto|].
    destruct (d_prog_log2 d1 (base m slot + DATA_REGION_OFFSET + i0 * v_sz u) plen payload) as [T1 F1].
    destruct (d_prog d1 (base m slot + DATA_REGION_OFFSET + i0 * v_sz u) plen payload) as [d2 [|]]; cbn [fst snd] in T1, F1.
    2:{ exists []; repeat split; auto. cbn. rewrite (F1 eq_refl). exact RL. }
    destruct (T1 eq_refl) as (z1 & D1).
    destruct (d_prog_log2 d2 (base m slot + WRITTEN_OFFSET + i0) 1 DATA_WRITTEN) as [T2 F2].
    assert (P1 : prog_in m slot (FProg (base m slot + DATA_REGION_OFFSET + i0 * v_sz u) plen payload z1)).
    { cbn. subst plen. lia. }
    destruct (d_prog d2 (base m slot + WRITTEN_OFFSET + i0) 1 DATA_WRITTEN) as [d3 [|]]; cbn [fst snd] in T2, F2.
    + destruct (T2 eq_refl) as (z2 & D2).
      assert (P2 : prog_in m slot (FProg (base m slot + WRITTEN_OFFSET + i0) 1 DATA_WRITTEN z2)).
      { cbn. unfold WRITTEN_OFFSET, DATA_REGION_OFFSET, MAX_SEGMENTS in *. lia. }
      destruct (_ || _); eexists [_; _]; (split; [cbn; rewrite D2, D1, RL; reflexivity|]); (split; [cbn; lia|]); (apply Forall_cons; [exact P2|apply Forall_cons; [exact P1|apply Forall_nil]]).
    + eexists [_]. split; [cbn; rewrite (F2 eq_refl), D1, RL; reflexivity|]. split; [cbn; lia|]. apply Forall_cons; [exact P1|apply Forall_nil].
Qed.

(* non-vacuity: a parity fragment at the very end of its slot is accepted and both programs are logged; one index further is
   refused before anything is written (m_size = DATA_REGION_OFFSET + 4 * 16, four fragments fit) *)
Example orig_write_last_fits :
  let m := mkmgr 4 (DATA_REGION_OFFSET + 64) in
  let u := mkv1 0 1 16 4 4 4 4 None None in
  let d := mkdev (fun _ => 255) (4 * (DATA_REGION_OFFSET + 64)) 4096 0 None [] None false 0 in
  (length (dlog (fst (fst (v1_write true m u 8 7 16 256 d)))) = 2)%nat /\
  snd (v1_write true m (mkv1 0 1 16 4 4 5 5 None None) 9 7 16 256 d) = RErr (MSpi EOob).
Proof. vm_compute. split; reflexivity. Qed.

(* ---------- the same statement for the single-erasure updater of flash-algo-new (orig = false), whose fragment writes go through
   the Slot layer (write_segment + mark_segment_written): with the geometry start_update accepts (both counts at most
   MAX_SEGMENTS, both tables of fragments fit behind the data region offset) every program of a fragment write lies inside the
   slot the index belongs to.  This is C08 for the second back-end at the level of one write. ---------- *)
Lemma dget_log m fw par bsz maxl moff c i : dlog (f_dev (fst (m_dget (flash_sto m fw par bsz maxl moff) c i))) = dlog (f_dev c).
Proof.
  cbn [flash_sto m_dget].
  destruct (MAX_SEGMENTS <? N.of_nat i); [reflexivity|].
  pose proof (seg_size_log m fw false c) as RL. destruct (seg_size m fw false c) as [s1 [z|]]; cbn [fst] in *; [|exact RL].
  destruct (z =? 0); [exact RL|]. destruct (m_size m <? _); [exact RL|].
  match goal with |- context [d_read ?dd ?aa ?ll] => pose proof (d_read_log dd aa ll) as R; destruct (d_read dd aa ll) as [d2 r] end.
  cbn [fst f_dev] in *. rewrite (proj1 R). exact RL.
Qed.

Lemma slot_put_in_slot m slot cache plen i0 payload d nseg :
  nseg <= MAX_SEGMENTS -> nseg * plen <= m_size m - DATA_REGION_OFFSET -> DATA_REGION_OFFSET <= m_size m -> i0 < nseg ->
  exists news, dlog (fst (fst (slot_put m slot cache plen (N.to_nat i0) payload d))) = news ++ dlog d /\ (length news <= 2)%nat /\
               Forall (prog_in m slot) news.
Proof.
  intros Hn Hfit Hsz Hi. unfold slot_put.
  pose proof (data_put_confined m slot slot plen 0 0 (mkf d cache) (N.to_nat i0) payload nseg Hn Hfit Hsz ltac:(rewrite N2Nat.id; exact Hi)) as H.
  cbv zeta in H. destruct (m_dput (flash_sto m slot slot plen 0 0) (mkf d cache) (N.to_nat i0) payload) as [s ok]. cbn [fst f_dev] in *.
  destruct H as [H|[(a & v & z & H & B1 & B2)|(a & v & z & z' & H & B1 & B2 & B3)]].
  - exists []. repeat split; auto.
  - eexists [_]. split; [exact H|]. split; [cbn; lia|]. apply Forall_cons; [|apply Forall_nil]. cbn. unfold DATA_REGION_OFFSET in *. lia.
  - eexists [_; _]. split; [exact H|]. split; [cbn; lia|]. apply Forall_cons; [|apply Forall_cons; [|apply Forall_nil]]; cbn;
      unfold DATA_REGION_OFFSET, WRITTEN_OFFSET in *; lia.
Qed.

Theorem naive_write_in_slot m u idx1 payload plen rlen d :
  v_tf u <= MAX_SEGMENTS -> v_tp u <= MAX_SEGMENTS -> DATA_REGION_OFFSET <= m_size m ->
  v_tf u * plen <= m_size m - DATA_REGION_OFFSET -> v_tp u * plen <= m_size m - DATA_REGION_OFFSET ->
  let '(d', _, _) := v1_write false m u idx1 payload plen rlen d in
  exists news, dlog d' = news ++ dlog d /\ (length news <= 2)%nat /\ Forall (prog_in m (frag_slot u idx1)) news.
Proof.
  intros Hf Hp Hsz Gf Gp. unfold v1_write, frag_slot.
  destruct (N.eqb_spec idx1 0) as [|Hnz]; [exists []; repeat split; auto|].
  destruct (N.leb_spec idx1 (v_tf u)) as [Hle|Hgt].
  - cbv zeta.
    destruct ((MAX_SEGMENTS <? idx1 - 1) || (m_size m <? WRITTEN_OFFSET + (idx1 - 1))); [exists []; repeat split; auto|].
    set (i0 := idx1 - 1) in *. set (slot := v_fw u) in *.
    match goal with |- context [d_read ?dd ?aa ?ll] => pose proof (d_read_log dd aa ll) as [RL _]; destruct (d_read dd aa ll) as [d1 [st|]] end;
      cbn [fst] in RL; [|exists []; repeat split; auto].
    destruct (st =? DATA_WRITTEN).
    { unfold slot_get. pose proof (dget_log m slot slot rlen 0 0 (mkf d1 (v_cf u)) (N.to_nat i0)) as G.
      destruct (m_dget _ _ _) as [s2 [v|]]; cbn [fst f_dev] in *; [destruct (_ =? payload)|]; exists []; repeat split; auto; cbn; congruence. }
    destruct (negb (st =? DATA_NOT_WRITTEN)); [exists []; repeat split; auto|].
    destruct (slot_put_in_slot m slot (v_cf u) plen i0 payload d1 (v_tf u) Hf Gf Hsz ltac:(subst i0; lia)) as (news & E & L & F).
    destruct (slot_put m slot (v_cf u) plen (N.to_nat i0) payload d1) as [[d2 c2] [|]]; cbn [fst] in E;
      [destruct (_ || _)|]; exists news; (split; [rewrite E, RL; reflexivity|]); split; assumption.
  - destruct (N.leb_spec idx1 (v_tf u + v_tp u)) as [Hle2|]; [|exists []; repeat split; auto].
    cbv zeta.
    destruct ((MAX_SEGMENTS <? idx1 - 1 - v_tf u) || (m_size m <? WRITTEN_OFFSET + (idx1 - 1 - v_tf u))); [exists []; repeat split; auto|].
    set (i0 := idx1 - 1 - v_tf u) in *. set (slot := v_par u) in *.
    match goal with |- context [d_read ?dd ?aa ?ll] => pose proof (d_read_log dd aa ll) as [RL _]; destruct (d_read dd aa ll) as [d1 [st|]] end;
      cbn [fst] in RL; [|exists []; repeat split; auto].
    destruct (st =? DATA_WRITTEN).
    { unfold slot_get. pose proof (dget_log m slot slot rlen 0 0 (mkf d1 (v_cp u)) (N.to_nat i0)) as G.
      destruct (m_dget _ _ _) as [s2 [v|]]; cbn [fst f_dev] in *; [destruct (_ =? payload)|]; exists []; repeat split; auto; cbn; congruence. }
    destruct (negb (st =? DATA_NOT_WRITTEN)); [exists []; repeat split; auto|].
    destruct (slot_put_in_slot m slot (v_cp u) plen i0 payload d1 (v_tp u) Hp Gp Hsz ltac:(subst i0; lia)) as (news & E & L & F).
    destruct (slot_put m slot (v_cp u) plen (N.to_nat i0) payload d1) as [[d2 c2] [|]]; cbn [fst] in E;
      [destruct (_ || _)|]; exists news; (split; [rewrite E, RL; reflexivity|]); split; assumption.
Qed.

(* the geometry premises are those of an accepted session: four 16-byte fragments and four coded fragments in slots with room
   for exactly four; the write of the last parity fragment is then performed (two programs) *)
Example naive_write_premises_met :
  let m := mkmgr 4 (DATA_REGION_OFFSET + 64) in
  let u := mkv1 0 1 16 4 4 4 4 None None in
  v_tf u <= MAX_SEGMENTS /\ v_tp u <= MAX_SEGMENTS /\ DATA_REGION_OFFSET <= m_size m /\
  v_tf u * 16 <= m_size m - DATA_REGION_OFFSET /\ v_tp u * 16 <= m_size m - DATA_REGION_OFFSET.
Proof. vm_compute. repeat split; discriminate. Qed.
