(* C20, third clause, on the executable byte-level model of the deprecated manager (V1.v with orig = true):
   no fragment write - data or parity, accepted or not, whatever it returns and whatever fault is armed - programs a byte
   outside the slot the fragment belongs to, and it never erases.  The range check of write_segment_internal
   (written_in_range && data_in_range, the latter counting the data region offset since the "fix:" commit 56d858b) is what
   the proof rests on: with the pre-fix expression (i0 + 1) * sz <= slot size the last obligation is not provable. *)
From Coq Require Import List NArith Arith Bool Lia.
Require Import Consts Nor Geom MRecon Mgr MgrP V1 Confine.
Import ListNotations.
Open Scope N_scope.

(* the slot a fragment index belongs to: 1..tf firmware, tf+1..tf+tp parity *)
Definition frag_slot (u : v1) (idx1 : N) : nat := if idx1 <=? v_tf u then v_fw u else v_par u.

Definition prog_in (m : mgr) (i : nat) (e : fop) : Prop :=
  match e with FProg a len _ _ => base m i <= a /\ a + len <= base m i + m_size m | FErase _ => False end.

Theorem orig_write_in_slot m u idx1 payload plen rlen d :
  let '(d', _, _) := v1_write true m u idx1 payload plen rlen d in
  exists news, dlog d' = news ++ dlog d /\ (length news <= 2)%nat /\ Forall (prog_in m (frag_slot u idx1)) news.
Proof.
  unfold v1_write, frag_slot.
  destruct (idx1 =? 0); [exists []; repeat split; auto|].
  destruct (N.leb_spec idx1 (v_tf u)) as [Hle|Hgt].
  - (* firmware fragment *)
    cbv zeta. cbn [negb].
    destruct (plen =? v_sz u) eqn:EL; cbn [negb]; [|exists []; repeat split; auto].
    apply N.eqb_eq in EL.
    destruct ((idx1 - 1 <? MAX_SEGMENTS) && (DATA_REGION_OFFSET + (idx1 - 1 + 1) * v_sz u <=? m_size m)) eqn:RG; cbn [negb];
      [|exists []; repeat split; auto].
    apply andb_true_iff in RG. destruct RG as [R1 R2]. apply N.ltb_lt in R1. apply N.leb_le in R2.
    set (i0 := idx1 - 1) in *. set (slot := v_fw u) in *.
    match goal with |- context [d_read ?dd ?aa ?ll] => pose proof (d_read_log dd aa ll) as [RL _]; destruct (d_read dd aa ll) as [d1 [st|]] end;
      cbn [fst] in RL; [|exists []; repeat split; auto].
    destruct (st =? DATA_WRITTEN).
    { match goal with |- context [d_read ?dd ?aa ?ll] => pose proof (d_read_log dd aa ll) as [RL2 _]; destruct (d_read dd aa ll) as [d2 [v|]] end;
        cbn [fst] in RL2; [destruct (_ =? payload)|]; exists []; repeat split; auto; cbn; congruence. }
    destruct (negb (st =? DATA_NOT_WRITTEN)); [exists []; repeat split; auto|].
    destruct (d_prog_log2 d1 (base m slot + DATA_REGION_OFFSET + i0 * v_sz u) plen payload) as [T1 F1].
    destruct (d_prog d1 (base m slot + DATA_REGION_OFFSET + i0 * v_sz u) plen payload) as [d2 [|]]; cbn [fst snd] in T1, F1.
    2:{ exists []; repeat split; auto. cbn. rewrite (F1 eq_refl). exact RL. }
    destruct (T1 eq_refl) as (z1 & D1).
    destruct (d_prog_log2 d2 (base m slot + WRITTEN_OFFSET + i0) 1 DATA_WRITTEN) as [T2 F2].
    assert (P1 : prog_in m slot (FProg (base m slot + DATA_REGION_OFFSET + i0 * v_sz u) plen payload z1)).
    { cbn. subst plen. lia. }
    destruct (d_prog d2 (base m slot + WRITTEN_OFFSET + i0) 1 DATA_WRITTEN) as [d3 [|]]; cbn [fst snd] in T2, F2.
    + destruct (T2 eq_refl) as (z2 & D2).
      assert (P2 : prog_in m slot (FProg (base m slot + WRITTEN_OFFSET + i0) 1 DATA_WRITTEN z2)).
      { cbn. unfold WRITTEN_OFFSET, DATA_REGION_OFFSET, MAX_SEGMENTS in *. lia. }
      destruct (_ || _); eexists [_; _]; (split; [cbn; rewrite D2, D1, RL; reflexivity|]); (split; [cbn; lia|]); (apply Forall_cons; [exact P2|apply Forall_cons; [exact P1|apply Forall_nil]]).
    + eexists [_]. split; [cbn; rewrite (F2 eq_refl), D1, RL; reflexivity|]. split; [cbn; lia|]. apply Forall_cons; [exact P1|apply Forall_nil].
  - (* parity fragment or out of range *)
    destruct (idx1 <=? v_tf u + v_tp u); [|exists []; repeat split; auto].
    cbv zeta. cbn [negb].
    destruct (plen =? v_sz u) eqn:EL; cbn [negb]; [|exists []; repeat split; auto].
    apply N.eqb_eq in EL.
    destruct ((idx1 - 1 - v_tf u <? MAX_SEGMENTS) && (DATA_REGION_OFFSET + (idx1 - 1 - v_tf u + 1) * v_sz u <=? m_size m)) eqn:RG; cbn [negb];
      [|exists []; repeat split; auto].
    apply andb_true_iff in RG. destruct RG as [R1 R2]. apply N.ltb_lt in R1. apply N.leb_le in R2.
    set (i0 := idx1 - 1 - v_tf u) in *. set (slot := v_par u) in *.
    match goal with |- context [d_read ?dd ?aa ?ll] => pose proof (d_read_log dd aa ll) as [RL _]; destruct (d_read dd aa ll) as [d1 [st|]] end;
      cbn [fst] in RL; [|exists []; repeat split; auto].
    destruct (st =? DATA_WRITTEN).
    { match goal with |- context [d_read ?dd ?aa ?ll] => pose proof (d_read_log dd aa ll) as [RL2 _]; destruct (d_read dd aa ll) as [d2 [v|]] end;
        cbn [fst] in RL2; [destruct (_ =? payload)|]; exists []; repeat split; auto; cbn; congruence. }
    destruct (negb (st =? DATA_NOT_WRITTEN)); [exists []; repeat split; auto|].
    destruct (d_prog_log2 d1 (base m slot + DATA_REGION_OFFSET + i0 * v_sz u) plen payload) as [T1 F1].
    destruct (d_prog d1 (base m slot + DATA_REGION_OFFSET + i0 * v_sz u) plen payload) as [d2 [|]]; cbn [fst snd] in T1, F1.
    2:{ exists []; repeat split; auto. cbn. rewrite (F1 eq_refl). exact RL. }
    destruct (T1 eq_refl) as (z1 & D1).
    destruct (d_prog_log2 d2 (base m slot + WRITTEN_OFFSET + i0) 1 DATA_WRITTEN) as [T2 F2].
    assert (P1 : prog_in m slot (FProg (base m slot + DATA_REGION_OFFSET + i0 * v_sz u) plen payload z1)).
    { cbn. subst plen. lia. }
    destruct (d_prog d2 (base m slot + WRITTEN_OFFSET + i0) 1 DATA_WRITTEN) as [d3 [|]]; cbn [fst snd] in T2, F2.
    + destruct (T2 eq_refl) as (z2 & D2).
      assert (P2 : prog_in m slot (FProg (base m slot + WRITTEN_OFFSET + i0) 1 DATA_WRITTEN z2)).
      { cbn. unfold WRITTEN_OFFSET, DATA_REGION_OFFSET, MAX_SEGMENTS in *. lia. }
      destruct (_ || _); eexists [_; _]; (split; [cbn; rewrite D2, D1, RL; reflexivity|]); (split; [cbn; lia|]); (apply Forall_cons; [exact P2|apply Forall_cons; [exact P1|apply Forall_nil]]).
    + eexists [_]. split; [cbn; rewrite (F2 eq_refl), D1, RL; reflexivity|]. split; [cbn; lia|]. apply Forall_cons; [exact P1|apply Forall_nil].
Qed.

(* non-vacuity: a parity fragment at the very end of its slot is accepted and both programs are logged; one index further is
   refused before anything is written (m_size = DATA_REGION_OFFSET + 4 * 16, four fragments fit) *)
Example orig_write_last_fits :
  let m := mkmgr 4 (DATA_REGION_OFFSET + 64) in
  let u := mkv1 0 1 16 4 4 4 4 None None in
  let d := mkdev (fun _ => 255) (4 * (DATA_REGION_OFFSET + 64)) 4096 0 None [] None false 0 in
  (length (dlog (fst (fst (v1_write true m u 8 7 16 256 d)))) = 2)%nat /\
  snd (v1_write true m (mkv1 0 1 16 4 4 5 5 None None) 9 7 16 256 d) = RErr (MSpi EOob).
Proof. vm_compute. split; reflexivity. Qed.
