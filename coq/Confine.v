(* C08 on the executable model, at run level: every erase / program that start_update and the handle_segment calls of a
   session perform lies inside the session's two slots - for every call, whatever it returns (Ok, error, panic flag) and
   whatever faults are armed. *)
From Coq Require Import List NArith ZArith Arith Bool Lia.
Require Import Consts Nor Geom.
Require Import MRecon MReconP Mgr MgrP.
Require MgrSim.
Import ListNotations.
Open Scope N_scope.

(* ---------- generic: a predicate on the storage state kept by every operation the reconstructor can issue ---------- *)
Section Inv.
Context {St : Type} (I : msto St) (Q : St -> Prop) (nn : nat).
Hypothesis Hdg : forall c i, Q c -> Q (fst (m_dget I c i)).
Hypothesis Hpg : forall c i, Q c -> Q (fst (m_pget I c i)).
Hypothesis Hmg : forall c i, Q c -> Q (fst (m_mget I c i)).
Hypothesis Hpp : forall c i b, Q c -> Q (fst (m_pput I c i b)).
Hypothesis Hmp : forall c i b, Q c -> Q (fst (m_mput I c i b)).
Hypothesis Hdp : forall c i b, (i < nn)%nat -> Q c -> Q (fst (m_dput I c i b)).     (* data puts only below the block count *)

Lemma strip_inv s r : forall is c d, Q c -> Q (fst (strip I s r is c d)).
Proof.
  induction is as [|i tl IH]; intros c d H; cbn [strip]; [exact H|].
  destruct (bit r i && done s i); [|apply IH; exact H].
  pose proof (Hdg c i H) as H1. destruct (m_dget I c i) as [c1 [v|]]; cbn [fst] in *; [apply IH; exact H1| exact H1].
Qed.

Lemma elim_inv s : forall wh r d c, Q c -> Q (snd (fst (elim I s wh r d c))).
Proof.
  induction wh as [|k IH]; intros r d c H; cbn [elim].
  - destruct (bit r 0); [|exact H]. destruct (used s 0).
    + pose proof (Hpg c 0%nat H) as H1. destruct (m_pget I c 0%nat) as [c1 [pv|]]; cbn [fst snd] in *; [|exact H1].
      pose proof (Hmg c1 0%nat H1) as H2. destruct (m_mget I c1 0%nat) as [c2 [rv|]]; cbn [fst snd] in *; exact H2.
    + pose proof (Hpp c 0%nat d H) as H1. destruct (m_pput I c 0%nat d) as [c1 [|]]; cbn [fst snd] in *; [|exact H1].
      pose proof (Hmp c1 0%nat r H1) as H2. destruct (m_mput I c1 0%nat r) as [c2 [|]]; cbn [fst snd] in *; exact H2.
  - destruct (bit r (S k)); [|apply IH; exact H]. destruct (used s (S k)).
    + pose proof (Hpg c (S k) H) as H1. destruct (m_pget I c (S k)) as [c1 [pv|]]; cbn [fst snd] in *; [|exact H1].
      pose proof (Hmg c1 (S k) H1) as H2. destruct (m_mget I c1 (S k)) as [c2 [rv|]]; cbn [fst snd] in *; [apply IH; exact H2| exact H2].
    + pose proof (Hpp c (S k) d H) as H1. destruct (m_pput I c (S k) d) as [c1 [|]]; cbn [fst snd] in *; [|exact H1].
      pose proof (Hmp c1 (S k) r H1) as H2. destruct (m_mput I c1 (S k) r) as [c2 [|]]; cbn [fst snd] in *; exact H2.
Qed.

Lemma frow_inv us r : forall js c o, Q c -> Q (fst (frow I us r js c o)).
Proof.
  induction js as [|j tl IH]; intros c o H; cbn [frow]; [exact H|].
  destruct (bit r j); [|apply IH; exact H].
  pose proof (Hdg c (nth j us 0%nat) H) as H1. destruct (m_dget I c (nth j us 0%nat)) as [c1 [v|]]; cbn [fst] in *; [apply IH; exact H1| exact H1].
Qed.

Lemma finish_row_inv us i c : (forall j, (nth j us 0 < nn)%nat) -> Q c -> Q (fst (finish_row I us i c)).
Proof.
  intros Hus H. unfold finish_row.
  pose proof (Hpg c i H) as H1. destruct (m_pget I c i) as [c1 [p|]]; cbn [fst] in *; [|exact H1].
  pose proof (Hmg c1 i H1) as H2. destruct (m_mget I c1 i) as [c2 [r|]]; cbn [fst] in *; [|exact H2].
  pose proof (frow_inv us r (seq 0 i) c2 p H2) as H3. destruct (frow I us r (seq 0 i) c2 p) as [c3 [out|]]; cbn [fst] in *; [|exact H3].
  apply Hdp; [apply Hus| exact H3].
Qed.

Lemma finish_inv us : (forall j, (nth j us 0 < nn)%nat) -> forall is c, Q c -> Q (fst (finish I us is c)).
Proof.
  intros Hus. induction is as [|i tl IH]; intros c H; cbn [finish]; [exact H|].
  pose proof (finish_row_inv us i c Hus H) as H1. destruct (finish_row I us i c) as [c1 [|]]; cbn [fst] in *; [apply IH; exact H1| exact H1].
Qed.

Lemma nth_unknowns_lt s j : (1 <= n s)%nat -> (nth j (unknowns s) 0 < n s)%nat.
Proof.
  intros Hn. destruct (nth_in_or_default j (unknowns s) 0%nat) as [Hin| ->]; [|lia].
  unfold unknowns in *. apply filter_In in Hin. destruct Hin as [Hin _]. apply in_seq in Hin. lia.
Qed.

Lemma missing0_complete_m s : l s = 0%nat -> missing s = 0%nat -> is_complete s = true.
Proof.
  unfold is_complete, missing, unknowns. intros -> H. cbn [Nat.eqb].
  apply forallb_forall. intros x Hx. destruct (done s x) eqn:D; [reflexivity|]. exfalso.
  assert (In x (filter (fun i => negb (done s i)) (seq 0 (n s)))) by (apply filter_In; split; [exact Hx| rewrite D; reflexivity]).
  destruct (filter (fun i => negb (done s i)) (seq 0 (n s))); [contradiction| discriminate].
Qed.

Theorem handle_block_inv P cap vbits s c idx b : n s = nn -> (1 <= nn)%nat -> Q c ->
  Q (snd (fst (handle_block I P cap vbits s c idx b))).
Proof.
  intros Hn H1 H. unfold handle_block.
  destruct (is_complete s) eqn:C; [exact H|].
  set (enter := Nat.leb (n s) idx && Nat.eqb (l s) 0).
  set (l2 := if enter then missing s else l s).
  destruct (enter && (Nat.ltb vbits l2 || Nat.ltb cap l2)); [exact H|].
  cbn [l n bs done used].
  destruct (Nat.eqb_spec l2 0) as [L0|L0].
  - destruct (done s idx); [exact H|].
    assert (Hidx : (idx < nn)%nat).
    { destruct (Nat.lt_ge_cases idx (n s)) as [Q1|Q1]; [lia|]. exfalso.
      unfold l2, enter in L0. destruct (Nat.leb_spec (n s) idx); [|lia]. cbn [andb] in L0.
      destruct (Nat.eqb_spec (l s) 0) as [E|E]; [|contradiction].
      rewrite (missing0_complete_m s E L0) in C. discriminate. }
    pose proof (Hdp c idx b Hidx H) as H2. destruct (m_dput I c idx b) as [c1 [|]]; cbn [fst snd] in *; exact H2.
  - set (s1 := mkr (n s) l2 (bs s) (done s) (used s)).
    pose proof (strip_inv s1 (P idx) (seq 0 (n s)) c b H) as H2.
    destruct (strip I s1 (P idx) (seq 0 (n s)) c b) as [c1 [d|]]; cbn [fst snd] in *; [|exact H2].
    pose proof (elim_inv s1 (l2 - 1) (project s1 (P idx)) d c1 H2) as H3.
    destruct (elim I s1 (l2 - 1) (project s1 (P idx)) d c1) as [[s2 c2] ok] eqn:E. cbn [fst snd] in *.
    destruct ok; [|exact H3].
    destruct (is_complete s2); [|exact H3].
    pose proof (elim_core _ _ _ _ _ _ _ _ _ E) as (N2 & _).
    assert (N2' : n s2 = n s) by (rewrite N2; reflexivity).
    assert (Hus : forall j, (nth j (unknowns s2) 0 < nn)%nat) by (intros j; rewrite <- Hn, <- N2'; apply nth_unknowns_lt; lia).
    pose proof (finish_inv (unknowns s2) Hus (seq 0 (l s2)) c2 H3) as H4.
    destruct (finish I (unknowns s2) (seq 0 (l s2)) c2) as [c3 [|]]; cbn [fst snd] in *; exact H4.
Qed.
End Inv.

(* ---------- the flash-backed storages: the log grows by programs inside the two slots ---------- *)
Definition in_slot (m : mgr) (blk : N) (i : nat) (e : fop) : Prop :=
  match e with
  | FProg a len _ _ => base m i <= a /\ a + len <= base m i + m_size m
  | FErase a => base m i <= a /\ a + blk <= base m i + m_size m
  end.
Definition in_pair (m : mgr) (blk : N) (fw par : nat) (e : fop) : Prop := in_slot m blk fw e \/ in_slot m blk par e.
(* [L0] is the log before; the state's log is some confined news on top of it *)
Definition Conf (m : mgr) (blk : N) (fw par : nat) (L0 : list fop) (c : fst_) : Prop :=
  exists news, dlog (f_dev c) = news ++ L0 /\ Forall (in_pair m blk fw par) news.

Lemma conf_same m blk fw par L0 c c' : dlog (f_dev c') = dlog (f_dev c) -> Conf m blk fw par L0 c -> Conf m blk fw par L0 c'.
Proof. intros E (news & H & F). exists news. split; [congruence| exact F]. Qed.

Lemma seg_size_log m i caching s : dlog (f_dev (fst (seg_size m i caching s))) = dlog (f_dev s).
Proof.
  unfold seg_size. destruct (f_cache s); [reflexivity|].
  pose proof (d_read_log (f_dev s) (base m i + SEGMENT_SIZE_OFFSET) 4) as H.
  destruct (d_read (f_dev s) (base m i + SEGMENT_SIZE_OFFSET) 4) as [d1 [v|]]; cbn [fst f_dev] in *; apply H.
Qed.

Section Slots.
Variables (m : mgr) (blk : N) (fw par : nat) (bsz cnt : N) (maxl : nat) (moff : N).
Hypothesis Hcnt : cnt <= MAX_SEGMENTS.
Hypothesis Hfit : cnt * bsz <= m_size m - DATA_REGION_OFFSET.
Hypothesis Hsz : DATA_REGION_OFFSET <= m_size m.
Let I := flash_sto m fw par bsz maxl moff.

Lemma HS : HEADER_SIZE <= m_size m. Proof. unfold HEADER_SIZE, DATA_REGION_OFFSET in *. lia. Qed.

Lemma dget_conf L0 c i : Conf m blk fw par L0 c -> Conf m blk fw par L0 (fst (m_dget I c i)).
Proof.
  intros H. apply (conf_same m blk fw par L0 c); [|exact H]. cbn [I flash_sto m_dget].
  destruct (MAX_SEGMENTS <? N.of_nat i); [reflexivity|].
  pose proof (seg_size_log m fw false c) as RL. destruct (seg_size m fw false c) as [s1 [z|]]; cbn [fst] in *; [|exact RL].
  destruct (z =? 0); [exact RL|]. destruct (m_size m <? _); [exact RL|].
  match goal with |- context [d_read ?dd ?aa ?ll] => pose proof (d_read_log dd aa ll) as R; destruct (d_read dd aa ll) as [d2 r] end.
  cbn [fst f_dev] in *. rewrite (proj1 R). exact RL.
Qed.
Lemma pget_conf L0 c i : Conf m blk fw par L0 c -> Conf m blk fw par L0 (fst (m_pget I c i)).
Proof.
  intros H. apply (conf_same m blk fw par L0 c); [|exact H]. cbn [I flash_sto m_pget].
  destruct (negb _); [reflexivity|]. destruct (_ <? _); [reflexivity|].
  match goal with |- context [d_read ?dd ?aa ?ll] => pose proof (d_read_log dd aa ll) as R; destruct (d_read dd aa ll) as [d2 r] end.
  cbn [fst f_dev] in *. exact (proj1 R).
Qed.
Lemma mget_conf L0 c i : Conf m blk fw par L0 c -> Conf m blk fw par L0 (fst (m_mget I c i)).
Proof.
  intros H. apply (conf_same m blk fw par L0 c); [|exact H]. cbn [I flash_sto m_mget].
  destruct (negb _); [reflexivity|]. cbv zeta. destruct (_ <? _); [reflexivity|].
  match goal with |- context [d_read ?dd ?aa ?ll] => pose proof (d_read_log dd aa ll) as R; destruct (d_read dd aa ll) as [d2 [v|]] end;
  cbn [fst f_dev] in *; exact (proj1 R).
Qed.

Lemma newest_conf L0 c c' lo hi : newest_prog_in (f_dev c) (f_dev c') lo hi ->
  (base m par <= lo /\ hi <= base m par + m_size m) -> Conf m blk fw par L0 c -> Conf m blk fw par L0 c'.
Proof.
  intros [E|(a & len & v & z & E & B1 & B2)] HB (news & H & F).
  - exists news. split; [congruence| exact F].
  - exists (FProg a len v z :: news). split; [rewrite E, H; reflexivity|]. constructor; [right; cbn; lia| exact F].
Qed.
Lemma pput_conf L0 c i b : Conf m blk fw par L0 c -> Conf m blk fw par L0 (fst (m_pput I c i b)).
Proof.
  intros H. pose proof HS as HS'. destruct (parity_puts_confined m fw par bsz maxl moff c i b HS') as [P1 _].
  eapply newest_conf; [exact P1| unfold HEADER_SIZE; lia| exact H].
Qed.
Lemma mput_conf L0 c i b : Conf m blk fw par L0 c -> Conf m blk fw par L0 (fst (m_mput I c i b)).
Proof.
  intros H. pose proof HS as HS'. destruct (parity_puts_confined m fw par bsz maxl moff c i b HS') as [_ P2].
  eapply newest_conf; [exact P2| unfold HEADER_SIZE; lia| exact H].
Qed.
Lemma dput_conf L0 c i b : (i < N.to_nat cnt)%nat -> Conf m blk fw par L0 c -> Conf m blk fw par L0 (fst (m_dput I c i b)).
Proof.
  intros Hi (news & H & F).
  pose proof (data_put_confined m fw par bsz maxl moff c i b cnt Hcnt Hfit Hsz ltac:(lia)) as D. cbv zeta in D.
  destruct D as [E|[(a & v & z & E & B1 & B2)|(a & v & z & z' & E & B1 & B2 & B3)]].
  - exists news. split; [fold I in E; congruence| exact F].
  - exists (FProg a bsz v z :: news). split; [fold I in E; rewrite E, H; reflexivity|].
    constructor; [left; cbn; unfold DATA_REGION_OFFSET in *; lia| exact F].
  - exists (FProg (base m fw + WRITTEN_OFFSET + N.of_nat i) 1 DATA_WRITTEN z' :: FProg a bsz v z :: news).
    split; [fold I in E; rewrite E, H; reflexivity|].
    constructor; [left; cbn; unfold WRITTEN_OFFSET, DATA_REGION_OFFSET in *; lia|].
    constructor; [left; cbn; unfold DATA_REGION_OFFSET in *; lia| exact F].
Qed.

(* every reconstructor call over the flash-backed storages *)
Theorem handle_block_confined P cap vbits s c idx b : n s = N.to_nat cnt -> 1 <= cnt ->
  Conf m blk fw par (dlog (f_dev c)) (snd (fst (handle_block I P cap vbits s c idx b))).
Proof.
  intros Hn H1.
  apply (handle_block_inv I (Conf m blk fw par (dlog (f_dev c))) (N.to_nat cnt)); try lia; try exact Hn.
  - intros; apply dget_conf; assumption.
  - intros; apply pget_conf; assumption.
  - intros; apply mget_conf; assumption.
  - intros; apply pput_conf; assumption.
  - intros; apply mput_conf; assumption.
  - intros; apply dput_conf; assumption.
  - exists []. split; [reflexivity| constructor].
Qed.
End Slots.

(* ---------- one handle_segment call, whatever it returns ---------- *)
Theorem handle_segment_confined checked ffr m blk u idx1 payload plen d cnt :
  cnt <= MAX_SEGMENTS -> cnt * bs (u_rd u) <= m_size m - DATA_REGION_OFFSET -> DATA_REGION_OFFSET <= m_size m ->
  n (u_rd u) = N.to_nat cnt -> 1 <= cnt ->
  let '(d', u', r) := handle_segment checked ffr m u idx1 payload plen d in
  (exists news, dlog d' = news ++ dlog d /\ Forall (in_pair m blk (u_fw u) (u_par u)) news) /\
  u_fw u' = u_fw u /\ u_par u' = u_par u /\ n (u_rd u') = n (u_rd u) /\ bs (u_rd u') = bs (u_rd u).
Proof.
  intros Hc Hf Hs Hn H1. unfold handle_segment.
  assert (NOOP : (exists news, dlog d = news ++ dlog d /\ Forall (in_pair m blk (u_fw u) (u_par u)) news) /\
                 u_fw u = u_fw u /\ u_par u = u_par u /\ n (u_rd u) = n (u_rd u) /\ bs (u_rd u) = bs (u_rd u)).
  { split; [exists []; split; [reflexivity| constructor]| repeat split]. }
  destruct (idx1 =? 0); [exact NOOP|].
  destruct (negb (plen =? bs (u_rd u))); [exact NOOP|]. cbv zeta.
  match goal with |- context [if ?x then (d, u, RPanic) else _] => destruct x end; [exact NOOP|].
  match goal with |- context [handle_block ?I ?P ?cap ?vb ?s ?c ?idx ?b] =>
    pose proof (handle_block_confined m blk (u_fw u) (u_par u) (bs (u_rd u)) cnt (u_maxl u) (u_moff u) Hc Hf Hs P cap vb s c idx b Hn H1) as HC;
    pose proof (MgrSim.handle_block_static I P cap vb s c idx b) as ST;
    destruct (handle_block I P cap vb s c idx b) as [[rd' s'] o] end.
  cbn [fst snd f_dev] in HC. destruct (ST rd' s' o eq_refl) as [N' B'].
  destruct (dpanic (f_dev s')); [split; [exact HC| cbn; repeat split; assumption]|].
  destruct o as [[| |len]|]; (split; [exact HC| cbn; repeat split; assumption]).
Qed.


(* ---------- a whole delivery ---------- *)
Theorem feed_confined checked ffr m blk cnt : forall segs u d d' u' outs,
  cnt <= MAX_SEGMENTS -> cnt * bs (u_rd u) <= m_size m - DATA_REGION_OFFSET -> DATA_REGION_OFFSET <= m_size m ->
  n (u_rd u) = N.to_nat cnt -> 1 <= cnt ->
  MgrSim.feed m checked ffr u d segs = Some (d', u', outs) ->
  exists news, dlog d' = news ++ dlog d /\ Forall (in_pair m blk (u_fw u) (u_par u)) news.
Proof.
  induction segs as [|[idx1 payload] tl IH]; intros u d d' u' outs Hc Hf Hs Hn H1 H; cbn [MgrSim.feed] in H.
  - inversion H; subst. exists []. split; [reflexivity| constructor].
  - pose proof (handle_segment_confined checked ffr m blk u idx1 payload (bs (u_rd u)) d cnt Hc Hf Hs Hn H1) as HC.
    destruct (handle_segment checked ffr m u idx1 payload (bs (u_rd u)) d) as [[d1 u1] [o| |]]; try discriminate.
    destruct HC as ((n1 & E1 & F1) & Ef & Ep & En & Eb).
    destruct (MgrSim.feed m checked ffr u1 d1 tl) as [[[d2 u2] os]|] eqn:FD; [|discriminate]. inversion H; subst.
    destruct (IH u1 d1 d' u' os Hc ltac:(rewrite Eb; exact Hf) Hs ltac:(rewrite En; exact Hn) H1 FD) as (n2 & E2 & F2).
    exists (n2 ++ n1). split; [rewrite E2, E1, app_assoc; reflexivity|]. apply Forall_app. split; [rewrite <- Ef, <- Ep; exact F2| exact F1].
Qed.

(* ---------- start_update: erases and header programs of the two chosen slots only ---------- *)
Lemma d_erase_log d a d' r : d_erase d a = (d', r) ->
  (dlog d' = dlog d \/ dlog d' = FErase a :: dlog d) /\ dblk d' = dblk d.
Proof.
  unfold d_erase. destruct (negb _); [intros H; inversion H; subst; auto|]. destruct (_ || _); [intros H; inversion H; subst; auto|].
  unfold tick. destruct (match dfail d with Some k => k =? dops d | None => false end); intros H; inversion H; subst; cbn; auto.
Qed.

Lemma erase_blocks_log : forall k a d d' r, erase_blocks k a d = (d', r) ->
  exists news, dlog d' = news ++ dlog d /\ Forall (fun e => exists j, j < N.of_nat k /\ e = FErase (a + j * dblk d)) news.
Proof.
  induction k as [|k IH]; intros a d d' r H; cbn [erase_blocks] in H.
  - inversion H; subst. exists []. split; [reflexivity| constructor].
  - destruct (d_erase d a) as [d1 [|]] eqn:E; destruct (d_erase_log _ _ _ _ E) as [L B].
    + destruct (IH (a + dblk d) d1 d' r H) as (news & E2 & F2).
      assert (F2' : Forall (fun e => exists j, j < N.of_nat (S k) /\ e = FErase (a + j * dblk d)) news).
      { eapply Forall_impl; [|exact F2]. intros e (j & Hj & ->). exists (j + 1). split; [lia|]. rewrite B. f_equal. lia. }
      destruct L as [L|L].
      * exists news. split; [rewrite E2, L; reflexivity| exact F2'].
      * exists (news ++ [FErase a]). split; [rewrite E2, L, <- app_assoc; reflexivity|]. apply Forall_app. split; [exact F2'|].
        constructor; [|constructor]. exists 0. split; [lia| f_equal; lia].
    + inversion H; subst. destruct L as [L|L].
      * exists []. split; [exact L| constructor].
      * exists [FErase a]. split; [exact L|]. constructor; [|constructor]. exists 0. split; [lia| f_equal; lia].
Qed.

Lemma clear_log m i d d' r : clear m i d = (d', r) ->
  exists news, dlog d' = news ++ dlog d /\ Forall (in_slot m (dblk d) i) news.
Proof.
  unfold clear. destruct (N.eqb_spec (dblk d) 0) as [|NZ]; [intros H; inversion H; subst; exists []; split; [reflexivity| constructor]|]. cbn [orb].
  destruct (N.eqb_spec (m_size m mod dblk d) 0) as [DV|]; [|intros H; inversion H; subst; exists []; split; [reflexivity| constructor]]. cbn [negb].
  destruct (erase_blocks (N.to_nat (m_size m / dblk d)) (base m i) d) as [d1 ok] eqn:E.
  destruct (erase_blocks_log _ _ _ _ _ E) as (news & L & F).
  intros H. assert (d' = d1) by (destruct ok; inversion H; reflexivity). subst d'.
  exists news. split; [exact L|]. eapply Forall_impl; [|exact F]. intros e (j & Hj & ->). cbn [in_slot].
  rewrite N2Nat.id in Hj. pose proof (N.div_mod (m_size m) (dblk d) NZ) as DM. rewrite DV, N.add_0_r in DM.
  assert ((j + 1) * dblk d <= m_size m / dblk d * dblk d) by (apply N.mul_le_mono_r; lia). lia.
Qed.

Lemma prog_word_log m i off v d d' r : off + 4 <= m_size m -> prog_word m i off v d = (d', r) ->
  (exists news, dlog d' = news ++ dlog d /\ Forall (in_slot m (dblk d) i) news) /\ dblk d' = dblk d.
Proof.
  intros Ho. unfold prog_word. destruct (d_prog d (base m i + off) 4 v) as [d1 ok] eqn:P.
  intros H. assert (d' = d1) by (destruct ok; inversion H; reflexivity). subst d'.
  unfold d_prog in P. destruct (dtotal d <? base m i + off + 4); [inversion P; subst; split; [exists []; split; [reflexivity| constructor]| reflexivity]|].
  unfold tick in P. destruct (match dfail d with Some k => k =? dops d | None => false end); inversion P; subst; cbn.
  - split; [exists []; split; [reflexivity| constructor]| reflexivity].
  - split; [|reflexivity]. eexists [_]. split; [reflexivity|]. constructor; [cbn; lia| constructor].
Qed.

Lemma conf_chain m blk i L0 L1 L2 (n1 n2 : list fop) : L1 = n1 ++ L0 -> L2 = n2 ++ L1 -> Forall (in_slot m blk i) n1 -> Forall (in_slot m blk i) n2 ->
  exists news, L2 = news ++ L0 /\ Forall (in_slot m blk i) news.
Proof. intros -> -> F1 F2. exists (n2 ++ n1). split; [rewrite app_assoc; reflexivity| apply Forall_app; split; assumption]. Qed.

Lemma set_layout_log m i c z d d' r : 28 <= m_size m -> set_layout m i c z d = (d', r) ->
  (exists news, dlog d' = news ++ dlog d /\ Forall (in_slot m (dblk d) i) news) /\ dblk d' = dblk d.
Proof.
  intros H28. unfold set_layout. destruct (_ <? _); [intros H; inversion H; subst; split; [exists []; split; [reflexivity| constructor]| reflexivity]|].
  destruct (prog_word m i NUMBER_OF_SEGMENTS_OFFSET c d) as [d1 r1] eqn:P1.
  assert (OO1 : NUMBER_OF_SEGMENTS_OFFSET + 4 <= m_size m) by (unfold NUMBER_OF_SEGMENTS_OFFSET; lia). destruct (prog_word_log _ _ _ _ _ _ _ OO1 P1) as ((n1 & E1 & F1) & B1).
  destruct r1 as [[]|e|].
  - intros P2. assert (OO2 : SEGMENT_SIZE_OFFSET + 4 <= m_size m) by (unfold SEGMENT_SIZE_OFFSET; lia). destruct (prog_word_log _ _ _ _ _ _ _ OO2 P2) as ((n2 & E2 & F2) & B2).
    split; [|congruence]. rewrite B1 in F2. eapply conf_chain; eassumption.
  - intros H; inversion H; subst. split; [exists n1; split; assumption| exact B1].
  - intros H; inversion H; subst. split; [exists n1; split; assumption| exact B1].
Qed.

Lemma load_headers_log m : forall is d d' r, load_headers_from m is d = (d', r) -> dlog d' = dlog d /\ dblk d' = dblk d.
Proof.
  assert (RD : forall d a len d' r, d_read d a len = (d', r) -> dlog d' = dlog d /\ dblk d' = dblk d).
  { intros d a len d' r H. unfold d_read in H. destruct (dtotal d <? a + len); [inversion H; subst; split; reflexivity|].
    unfold tick in H. destruct (match dfail d with Some k => k =? dops d | None => false end); inversion H; subst; split; reflexivity. }
  induction is as [|i tl IH]; intros d d' r H; cbn [load_headers_from] in H; [inversion H; subst; split; reflexivity|].
  unfold load_header in H. destruct (d_read d (base m i) SLOT_HEADER_SIZE) as [d1 [v|]] eqn:R; destruct (RD _ _ _ _ _ R) as [L1 B1].
  - destruct (load_headers_from m tl d1) as [d2 [hs|]] eqn:L2; destruct (IH _ _ _ L2) as [L3 B3]; inversion H; subst; split; congruence.
  - inversion H; subst. split; assumption.
Qed.

(* whatever start_update returns: if it reports a session, every erase / program it performed lies in that session's two slots *)
Theorem start_update_confined m sz cnt d d' u : 28 <= m_size m ->
  start_update m sz cnt d = (d', ROk u) ->
  exists news, dlog d' = news ++ dlog d /\ Forall (in_pair m (dblk d) (u_fw u) (u_par u)) news.
Proof.
  intros H28 H. unfold start_update in H. destruct (reasonably_sized m sz cnt); [discriminate|].
  destruct (alloc_slotpair m d) as [d1 [[a b]|e|]] eqn:AL; try discriminate.
  destruct (prog_word m a KIND_OFFSET KIND_FIRMWARE d1) as [d2 [[]|e|]] eqn:P1; try discriminate.
  destruct (set_layout m a cnt sz d2) as [d3 [[]|e|]] eqn:L1; try discriminate.
  destruct (prog_word m b KIND_OFFSET KIND_PARITY d3) as [d4 [[]|e|]] eqn:P2; try discriminate.
  destruct (set_layout m b (max_l (m_size m) sz) sz d4) as [d5 [[]|e|]] eqn:L2; try discriminate.
  inversion H; subst. cbn [u_fw u_par]. clear H.
  unfold alloc_slotpair in AL. destruct (load_headers m d) as [d0 [hs|]] eqn:LH; [|discriminate].
  destruct (load_headers_log m _ _ _ _ LH) as [LL0 BB0].
  destruct (alloc_fixed hs) as [[[[a0 b0] s1] s2]|]; [|discriminate].
  destruct (clear m b0 d0) as [c1 [[]|e|]] eqn:C1; try discriminate.
  destruct (clear m a0 c1) as [c2 [[]|e|]] eqn:C2; try discriminate.
  destruct (prog_word m a0 SEQUENCE_NUMBER_OFFSET s1 c2) as [c3 [[]|e|]] eqn:Q1; try discriminate.
  destruct (prog_word m b0 SEQUENCE_NUMBER_OFFSET s2 c3) as [c4 [[]|e|]] eqn:Q2; try discriminate.
  inversion AL; subst. clear AL.
  assert (KB : forall mm ii dd dd' rr, clear mm ii dd = (dd', rr) -> dblk dd' = dblk dd).
  { intros mm ii dd dd' rr HC. unfold clear in HC. destruct (_ || _); [inversion HC; reflexivity|].
    assert (EB : forall k aa x x' r0, erase_blocks k aa x = (x', r0) -> dblk x' = dblk x).
    { induction k as [|k IHk]; intros aa x x' r0 HE; cbn [erase_blocks] in HE; [inversion HE; reflexivity|].
      destruct (d_erase x aa) as [x1 [|]] eqn:EE; destruct (d_erase_log _ _ _ _ EE) as [_ BB]; [rewrite (IHk _ _ _ _ HE); exact BB| inversion HE; subst; exact BB]. }
    destruct (erase_blocks _ _ dd) as [x1 ok] eqn:EE. pose proof (EB _ _ _ _ _ EE). destruct ok; inversion HC; subst; assumption. }
  destruct (clear_log _ _ _ _ _ C1) as (n1 & E1 & F1). pose proof (KB _ _ _ _ _ C1) as B1.
  destruct (clear_log _ _ _ _ _ C2) as (n2 & E2 & F2). pose proof (KB _ _ _ _ _ C2) as B2.
  assert (OO3 : SEQUENCE_NUMBER_OFFSET + 4 <= m_size m) by (unfold SEQUENCE_NUMBER_OFFSET; lia). destruct (prog_word_log _ _ _ _ _ _ _ OO3 Q1) as ((n3 & E3 & F3) & B3).
  assert (OO4 : SEQUENCE_NUMBER_OFFSET + 4 <= m_size m) by (unfold SEQUENCE_NUMBER_OFFSET; lia). destruct (prog_word_log _ _ _ _ _ _ _ OO4 Q2) as ((n4 & E4 & F4) & B4).
  assert (OO5 : KIND_OFFSET + 4 <= m_size m) by (unfold KIND_OFFSET; lia). destruct (prog_word_log _ _ _ _ _ _ _ OO5 P1) as ((n5 & E5 & F5) & B5).
  destruct (set_layout_log _ _ _ _ _ _ _ H28 L1) as ((n6 & E6 & F6) & B6).
  assert (OO6 : KIND_OFFSET + 4 <= m_size m) by (unfold KIND_OFFSET; lia). destruct (prog_word_log _ _ _ _ _ _ _ OO6 P2) as ((n7 & E7 & F7) & B7).
  destruct (set_layout_log _ _ _ _ _ _ _ H28 L2) as ((n8 & E8 & F8) & B8).
  assert (BD : forall x, dblk x = dblk d -> forall i L, Forall (in_slot m (dblk x) i) L -> Forall (in_slot m (dblk d) i) L) by (intros x -> i L F; exact F).
  exists (n8 ++ n7 ++ n6 ++ n5 ++ n4 ++ n3 ++ n2 ++ n1). split.
  - rewrite E8, E7, E6, E5, E4, E3, E2, E1, LL0. rewrite <- !app_assoc. reflexivity.
  - repeat (apply Forall_app; split);
      (eapply Forall_impl; [|eapply BD; [|eassumption]; congruence]); intros e He; (left; exact He) || (right; exact He).
Qed.

Print Assumptions handle_block_confined.
Print Assumptions handle_segment_confined.
Print Assumptions feed_confined.
Print Assumptions start_update_confined.
