(* Facts about the fault-aware reconstructor model (MRecon.v), for every storage instance. *)
From Coq Require Import List NArith Arith Bool Lia.
Require Import MRecon.
Import ListNotations.
Open Scope N_scope.

Section P.
Context {St : Type} (I : msto St).

Lemma elim_fail s : forall wh r d c s' c', elim I s wh r d c = (s', c', false) -> s' = s.
Proof.
  induction wh as [|k IH]; intros r d c s' c' H; cbn [elim] in H.
  - destruct (bit r 0).
    + destruct (used s 0).
      * destruct (m_pget I c 0%nat) as [c1 [pv|]]; [|inversion H; reflexivity].
        destruct (m_mget I c1 0%nat) as [c2 [rv|]]; inversion H; reflexivity.
      * destruct (m_pput I c 0%nat d) as [c1 [|]]; [|inversion H; reflexivity].
        destruct (m_mput I c1 0%nat r) as [c2 [|]]; inversion H; reflexivity.
    + inversion H.
  - destruct (bit r (S k)).
    + destruct (used s (S k)).
      * destruct (m_pget I c (S k)) as [c1 [pv|]]; [|inversion H; reflexivity].
        destruct (m_mget I c1 (S k)) as [c2 [rv|]]; [|inversion H; reflexivity].
        eapply IH; exact H.
      * destruct (m_pput I c (S k) d) as [c1 [|]]; [|inversion H; reflexivity].
        destruct (m_mput I c1 (S k) r) as [c2 [|]]; inversion H; reflexivity.
    + eapply IH; exact H.
Qed.

(* elimination changes the bookkeeping only by setting one used bit, and only on success *)
Lemma elim_core s : forall wh r d c s' c' ok, elim I s wh r d c = (s', c', ok) ->
  n s' = n s /\ l s' = l s /\ bs s' = bs s /\ done s' = done s.
Proof.
  induction wh as [|k IH]; intros r d c s' c' ok H; cbn [elim] in H;
  repeat match type of H with
  | (if ?b then _ else _) = _ => destruct b
  | (match ?x with (_, _) => _ end) = _ => destruct x
  | (match ?x with Some _ => _ | None => _ end) = _ => destruct x
  | (_, _, _) = (_, _, _) => inversion H; subst; clear H
  end; try (repeat split; reflexivity); try (eapply IH; eassumption).
Qed.

(* C18, bookkeeping half: a call that returns the storage error has not advanced the in-memory claims -
   no data block is newly counted as stored, and no pivot row as used UNLESS the failure happened inside the
   back substitution that follows the completion of the pivot set (then [is_complete] already holds: this is the
   recorded finding c18-finish).  Only the stage marker may have been set, to the number of missing blocks,
   which the re-delivered fragment would set anyway. *)
Theorem failed_call_keeps_bookkeeping P cap vbits s c idx b s' c' :
  handle_block I P cap vbits s c idx b = (s', c', StorageError) ->
  n s' = n s /\ bs s' = bs s /\ done s' = done s /\
  (l s' = l s \/ (l s = 0%nat /\ l s' = missing s)) /\
  (used s' = used s \/ is_complete s' = true).
Proof.
  unfold handle_block. intros H.
  destruct (is_complete s); [inversion H|].
  set (enter := Nat.leb (n s) idx && Nat.eqb (l s) 0) in *.
  set (l2 := if enter then missing s else l s) in *.
  assert (Hl : l2 = l s \/ (l s = 0%nat /\ l2 = missing s)).
  { subst l2. destruct enter eqn:E; [right|left; reflexivity]. subst enter. apply andb_prop in E. destruct E as [_ E]. apply Nat.eqb_eq in E. auto. }
  destruct (enter && (Nat.ltb vbits l2 || Nat.ltb cap l2)); [inversion H|].
  cbn [l n bs done used] in H.
  destruct (Nat.eqb l2 0).
  - destruct (done s idx); [inversion H|].
    destruct (m_dput I c idx b) as [c1 [|]]; inversion H; subst; cbn [n l bs done used]; auto 6.
  - match type of H with (match ?x with (_, _) => _ end) = _ => destruct x as [c1 [d|]] end.
    + match type of H with (match ?x with (_, _) => _ end) = _ => destruct x as [[s2 c2] [|]] eqn:E end.
      * pose proof (elim_core _ _ _ _ _ _ _ _ E) as (A & B & C & D). cbn [n l bs done] in *.
        destruct (is_complete s2) eqn:IC.
        -- match type of H with (match ?x with (_, _) => _ end) = _ => destruct x as [c3 [|]] end; inversion H; subst.
           rewrite A, B, C, D. auto 6.
        -- inversion H.
      * apply elim_fail in E. subst s2. inversion H; subst; cbn [n l bs done used]; auto 6.
    + inversion H; subst; cbn [n l bs done used]; auto 6.
Qed.
End P.
