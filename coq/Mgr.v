(* Byte-level executable model of flash-algo-new (matrix back-end): the SlotManager, Slot and Updater
   operations as programs over a NOR device with an operation log and transient-fault injection.
   The slot-selection and recovery DECISIONS are the header-level functions of Slots.v / Recover.v / Boot.v
   (on which C05/C12/C13 are proved) applied to the headers parsed from flash, so the two levels are tied
   by construction; the reconstructor is MRecon.v over the flash-backed storages.
   Mirrors: manager.rs, manager/fs.rs, manager/firmware.rs, update.rs, update/matrix.rs. *)
From Coq Require Import List NArith Arith Bool.
Require Import Consts Nor Geom Layout Lfdbt Crc MRecon.
Require Slots Recover Boot.
Import ListNotations.
Open Scope N_scope.

(* ------------------------------------------------------------------ device *)
Inductive fop := FErase (a : N) | FProg (a len v : N) (z2o : bool).
Inductive ferr := EUnaligned | EOob | EHw | ELogic.

Record dev := mkdev {
  dmem : mem; dtotal : N; dblk : N;
  dops : N;                 (* operations issued so far (reads, programs, erases) that passed the bounds checks *)
  dfail : option N;         (* the operation with this index fails once, without effect on the medium *)
  dlog : list fop;          (* modifying operations, newest first *)
  derr : option ferr;       (* last error reported by the device / the slot layer (propagated through the storages) *)
  dpanic : bool;
  drh : N }.                (* running hash of the (address, length) of the reads performed (compared with the implementation's) *)          (* an assertion inside a storage adapter fired *)

Definition set_mem d m lg := mkdev m (dtotal d) (dblk d) (dops d) (dfail d) lg (derr d) (dpanic d) (drh d).
Definition set_err d e := mkdev (dmem d) (dtotal d) (dblk d) (dops d) (dfail d) (dlog d) (Some e) (dpanic d) (drh d).
Definition set_panic d := mkdev (dmem d) (dtotal d) (dblk d) (dops d) (dfail d) (dlog d) (derr d) true (drh d).
Definition mix_read d (a len : N) := mkdev (dmem d) (dtotal d) (dblk d) (dops d) (dfail d) (dlog d) (derr d) (dpanic d) ((drh d * 1000003 + a * 31 + len) mod 2305843009213693951).
Definition tick d : bool * dev :=
  let f := match dfail d with Some k => k =? dops d | None => false end in
  (f, mkdev (dmem d) (dtotal d) (dblk d) (dops d + 1) (if f then None else dfail d) (dlog d) (derr d) (dpanic d) (drh d)).

Definition d_read (d : dev) (a len : N) : dev * option N :=
  if dtotal d <? a + len then (set_err d EOob, None) else
  let '(f, d1) := tick d in
  if f then (set_err d1 EHw, None) else (mix_read d1 a len, Some (read (dmem d1) a len)).

Definition d_prog (d : dev) (a len v : N) : dev * bool :=
  if dtotal d <? a + len then (set_err d EOob, false) else
  let '(f, d1) := tick d in
  if f then (set_err d1 EHw, false) else
  let old := read (dmem d1) a len in
  (set_mem d1 (program (dmem d1) a len v) (FProg a len v (negb (N.ldiff v old =? 0)) :: dlog d1), true).

Definition d_erase (d : dev) (a : N) : dev * bool :=
  if negb (a mod dblk d =? 0) then (set_err d EUnaligned, false) else
  if (dtotal d <=? a) || (dtotal d <? a + dblk d) then (set_err d EOob, false) else
  let '(f, d1) := tick d in
  if f then (set_err d1 EHw, false) else
  (set_mem d1 (erase (dmem d1) a (dblk d1)) (FErase a :: dlog d1), true).

(* ------------------------------------------------------------------ results *)
Inductive merr := MSpi (e : ferr) | MTooManySegments | MSegmentsTooLarge | MCrc32Mismatch | MCheckFailNotDone
                | MCheckFailNotFirmware | MUnexpectedMissingHeader | MFatal.
Inductive res (A : Type) := ROk (a : A) | RErr (e : merr) | RPanic.
Arguments ROk {A}. Arguments RErr {A}. Arguments RPanic {A}.
Definition last_err (d : dev) : merr := MSpi (match derr d with Some e => e | None => EHw end).

Record mgr := mkmgr { m_slots : nat; m_size : N }.
Definition base (m : mgr) (i : nat) : N := N.of_nat i * m_size m.

(* ------------------------------------------------------------------ headers *)
Definition bytes_of_val (v : N) (len : nat) : list N := map (fun k => byte_of v (N.of_nat k)) (List.seq 0 len).

Definition cv (h : Layout.hdr) : Slots.hdr :=
  Slots.mkhdr (if Layout.kind h =? KIND_FIRMWARE then Slots.Firmware else Slots.Parity) (Layout.seq h) (Layout.size h) (Layout.count h)
    (if Layout.ext h =? EXT_IN_PROGRESS then Slots.EInProgress else if Layout.ext h =? EXT_ABORTED then Slots.EAborted else Slots.EComplete)
    (if Layout.int_ h =? INT_IN_PROGRESS then Slots.IInProgress else Slots.IComplete)
    (if Layout.boot h =? BOOT_UNTESTED then Slots.Untested else if Layout.boot h =? BOOT_SUCCESSFUL then Slots.Successful else Slots.Unsuccessful).

Definition load_header (m : mgr) (i : nat) (d : dev) : dev * option (option Slots.hdr) :=
  match d_read d (base m i) SLOT_HEADER_SIZE with
  | (d1, None) => (d1, None)
  | (d1, Some v) => (d1, Some (option_map cv (Layout.parse (bytes_of_val v (N.to_nat SLOT_HEADER_SIZE)))))
  end.

Fixpoint load_headers_from (m : mgr) (is : list nat) (d : dev) : dev * option (list (option Slots.hdr)) :=
  match is with
  | [] => (d, Some [])
  | i :: tl => match load_header m i d with
               | (d1, None) => (d1, None)
               | (d1, Some h) => match load_headers_from m tl d1 with
                                 | (d2, None) => (d2, None)
                                 | (d2, Some hs) => (d2, Some (h :: hs))
                                 end
               end
  end.
Definition load_headers (m : mgr) := load_headers_from m (List.seq 0 (m_slots m)).

(* ------------------------------------------------------------------ slot primitives *)
Fixpoint erase_blocks (k : nat) (a : N) (d : dev) : dev * bool :=
  match k with O => (d, true) | S k' => match d_erase d a with (d1, false) => (d1, false) | (d1, true) => erase_blocks k' (a + dblk d) d1 end end.
(* Slot::clear: assert_eq!(size % block_size, 0), then erase from the block holding the header upwards *)
Definition clear (m : mgr) (i : nat) (d : dev) : dev * res unit :=
  if (dblk d =? 0) || negb (m_size m mod dblk d =? 0) then (d, RPanic) else
  match erase_blocks (N.to_nat (m_size m / dblk d)) (base m i) d with
  | (d1, true) => (d1, ROk tt) | (d1, false) => (d1, RErr (last_err d1)) end.

Definition prog_word (m : mgr) (i : nat) (off v : N) (d : dev) : dev * res unit :=
  match d_prog d (base m i + off) 4 v with (d1, true) => (d1, ROk tt) | (d1, false) => (d1, RErr (last_err d1)) end.

Definition sat_mul32 (a b : N) : N := N.min (a * b) 4294967295.

(* Slot::set_layout *)
Definition set_layout (m : mgr) (i : nat) (count size : N) (d : dev) : dev * res unit :=
  if m_size m - DATA_REGION_OFFSET <? sat_mul32 count size then (d, RErr (MSpi EOob)) else
  match prog_word m i NUMBER_OF_SEGMENTS_OFFSET count d with
  | (d1, ROk _) => prog_word m i SEGMENT_SIZE_OFFSET size d1
  | r => r end.

Inductive markk := KAbort | KComplete | KInt | KBootOk | KBootBad.
Definition mark (m : mgr) (i : nat) (k : markk) (d : dev) : dev * res unit :=
  match k with
  | KAbort => prog_word m i WRITE_EXT_STATUS_OFFSET EXT_ABORTED d
  | KComplete => prog_word m i WRITE_EXT_STATUS_OFFSET EXT_COMPLETE d
  | KInt => prog_word m i WRITE_INT_STATUS_OFFSET INT_COMPLETE d
  | KBootOk => prog_word m i BOOT_OUTCOME_OFFSET BOOT_SUCCESSFUL d
  | KBootBad => prog_word m i BOOT_OUTCOME_OFFSET BOOT_UNSUCCESSFUL d
  end.

(* ------------------------------------------------------------------ allocation (fs.rs::alloc_slotpair as committed) *)
Definition alloc_fixed := Slots.alloc true (fun dd nn => Nat.leb (dd + 3) nn) (fun dd nn => Nat.eqb (dd + 2) nn).

Definition alloc_slotpair (m : mgr) (d : dev) : dev * res (nat * nat) :=
  match load_headers m d with
  | (d1, None) => (d1, RErr (last_err d1))
  | (d1, Some hs) =>
      match alloc_fixed hs with
      | Slots.Panic => (d1, RPanic)
      | Slots.Ok (a, b, s1, s2) =>
          match clear m b d1 with
          | (d2, ROk _) =>
              match clear m a d2 with
              | (d3, ROk _) =>
                  match prog_word m a SEQUENCE_NUMBER_OFFSET s1 d3 with
                  | (d4, ROk _) =>
                      match prog_word m b SEQUENCE_NUMBER_OFFSET s2 d4 with
                      | (d5, ROk _) => (d5, ROk (a, b))
                      | (d5, RErr e) => (d5, RErr e) | (d5, RPanic) => (d5, RPanic) end
                  | (d4, RErr e) => (d4, RErr e) | (d4, RPanic) => (d4, RPanic) end
              | (d3, RErr e) => (d3, RErr e) | (d3, RPanic) => (d3, RPanic) end
          | (d2, RErr e) => (d2, RErr e) | (d2, RPanic) => (d2, RPanic) end
      end
  end.

(* ------------------------------------------------------------------ the session object (Updater) *)
Record updater := mkupd {
  u_fw : nat; u_par : nat; u_rd : rdata; u_maxl : nat; u_moff : N; u_complete : bool;
  u_cache : option N }.            (* firmware Slot::segment_size cache (NonZeroU32) *)

(* update.rs::is_reasonably_sized (as committed) *)
Definition reasonably_sized (m : mgr) (size count : N) : option merr :=
  if (size =? 0) || (MAX_SEGMENT_SIZE <? size) then Some MSegmentsTooLarge
  else if (count =? 0) || (MAX_SEGMENTS <? count) then Some MTooManySegments
  else if m_size m - DATA_REGION_OFFSET <? sat_mul32 size count then Some MTooManySegments
  else None.

Definition start_update (m : mgr) (size count : N) (d : dev) : dev * res updater :=
  match reasonably_sized m size count with
  | Some e => (d, RErr e)
  | None =>
      let ml := max_l (m_size m) size in
      match alloc_slotpair m d with
      | (d1, RErr e) => (d1, RErr e) | (d1, RPanic) => (d1, RPanic)
      | (d1, ROk (a, b)) =>
          match prog_word m a KIND_OFFSET KIND_FIRMWARE d1 with
          | (d2, RErr e) => (d2, RErr e) | (d2, RPanic) => (d2, RPanic)
          | (d2, ROk _) =>
              match set_layout m a count size d2 with
              | (d3, RErr e) => (d3, RErr e) | (d3, RPanic) => (d3, RPanic)
              | (d3, ROk _) =>
                  match prog_word m b KIND_OFFSET KIND_PARITY d3 with
                  | (d4, RErr e) => (d4, RErr e) | (d4, RPanic) => (d4, RPanic)
                  | (d4, ROk _) =>
                      match set_layout m b ml size d4 with
                      | (d5, RErr e) => (d5, RErr e) | (d5, RPanic) => (d5, RPanic)
                      | (d5, ROk _) =>
                          (d5, ROk (mkupd a b (rinit (N.to_nat count) size) (N.to_nat ml) (ml * size) false (Some size)))
                      end
                  end
              end
          end
      end
  end.

(* ------------------------------------------------------------------ flash-backed storages *)
(* the storage state threaded through MRecon: the device plus the firmware slot's cached segment size *)
Record fst_ := mkf { f_dev : dev; f_cache : option N }.
Definition fe (s : fst_) (e : ferr) := mkf (set_err (f_dev s) e) (f_cache s).

(* Slot::segment_size / segment_size_mut: read the header field unless cached; 0 when the field is not a legal size *)
Definition seg_size (m : mgr) (i : nat) (caching : bool) (s : fst_) : fst_ * option N :=
  match f_cache s with
  | Some z => (s, Some z)
  | None =>
      match d_read (f_dev s) (base m i + SEGMENT_SIZE_OFFSET) 4 with
      | (d1, None) => (mkf d1 None, None)
      | (d1, Some v) =>
          let z := if (1 <=? v) && (v <=? MAX_SEGMENT_SIZE) then v else 0 in
          (mkf d1 (if caching && negb (z =? 0) then Some z else None), Some z)
      end
  end.

Definition flash_sto (m : mgr) (fw par : nat) (bsz : N) (maxl : nat) (moff : N) : msto fst_ := {|
  (* UpdaterDataStorage::get -> Slot::read_segment *)
  m_dget := fun s i =>
    if MAX_SEGMENTS <? N.of_nat i then (fe s EOob, None) else
    match seg_size m fw false s with
    | (s1, None) => (s1, None)
    | (s1, Some z) =>
        if z =? 0 then (fe s1 ELogic, None) else
        let off := DATA_REGION_OFFSET + N.of_nat i * z in
        if m_size m <? off then (fe s1 EOob, None) else
        match d_read (f_dev s1) (base m fw + off) (N.min bsz z) with
        | (d2, r) => (mkf d2 (f_cache s1), r) end
    end;
  (* UpdaterDataStorage::store -> Slot::write_segment, then mark_segment_written *)
  m_dput := fun s i b =>
    if MAX_SEGMENTS <? N.of_nat i then (fe s EOob, false) else
    match seg_size m fw true s with
    | (s1, None) => (s1, false)
    | (s1, Some z) =>
        if z =? 0 then (fe s1 ELogic, false) else
        if negb (z =? bsz) then (fe s1 ELogic, false) else
        let off := DATA_REGION_OFFSET + N.of_nat i * z in
        if m_size m <? off then (fe s1 EOob, false) else
        match d_prog (f_dev s1) (base m fw + off) bsz b with
        | (d2, false) => (mkf d2 (f_cache s1), false)
        | (d2, true) =>
            if m_size m <? WRITTEN_OFFSET + N.of_nat i then (mkf (set_err d2 EOob) (f_cache s1), false) else
            match d_prog d2 (base m fw + WRITTEN_OFFSET + N.of_nat i) 1 DATA_WRITTEN with
            | (d3, r) => (mkf d3 (f_cache s1), r) end
        end
    end;
  (* UpdaterParityStorage::get / store -> Slot::read_raw / write_raw *)
  m_pget := fun s k =>
    if negb (Nat.ltb k maxl) then (mkf (set_panic (f_dev s)) (f_cache s), None) else
    let off := N.of_nat k * bsz in
    if m_size m - HEADER_SIZE <? off + bsz then (fe s EOob, None) else
    match d_read (f_dev s) (base m par + HEADER_SIZE + off) bsz with (d1, r) => (mkf d1 (f_cache s), r) end;
  m_pput := fun s k b =>
    if negb (Nat.ltb k maxl) then (mkf (set_panic (f_dev s)) (f_cache s), false) else
    let off := N.of_nat k * bsz in
    if m_size m - HEADER_SIZE <? off + bsz then (fe s EOob, false) else
    match d_prog (f_dev s) (base m par + HEADER_SIZE + off) bsz b with (d1, r) => (mkf d1 (f_cache s), r) end;
  (* UpdaterMatrixStorage::row / set_row: k/8+1 bytes at the triangular offset, diagonal bit inverted *)
  m_mget := fun s k =>
    if negb (Nat.ltb k maxl) then (mkf (set_panic (f_dev s)) (f_cache s), None) else
    let off := moff + mro (N.of_nat k) in let len := rowlen (N.of_nat k) in
    if m_size m - HEADER_SIZE <? off + len then (fe s EOob, None) else
    match d_read (f_dev s) (base m par + HEADER_SIZE + off) len with
    | (d1, Some v) => (mkf d1 (f_cache s), Some (N.lxor v (N.shiftl 1 (N.of_nat k))))
    | (d1, None) => (mkf d1 (f_cache s), None) end;
  m_mput := fun s k r =>
    if negb (Nat.ltb k maxl) then (mkf (set_panic (f_dev s)) (f_cache s), false) else
    let off := moff + mro (N.of_nat k) in let len := rowlen (N.of_nat k) in
    if m_size m - HEADER_SIZE <? off + len then (fe s EOob, false) else
    match d_prog (f_dev s) (base m par + HEADER_SIZE + off) len (N.lxor (N.land r (N.ones (8 * len))) (N.shiftl 1 (N.of_nat k))) with
    | (d1, ok) => (mkf d1 (f_cache s), ok) end |}.

(* UpdaterMatrix::row: identity below n; coded fragment number m - n + 1 above, in u32 arithmetic.
   [ffr] = built with force-full-r.  [None] = the seed computation 1 + 1001*N overflows u32 (panic in checked arithmetic). *)
Definition mask (l : list N) : N := fold_left (fun acc r => N.lor acc (N.shiftl 1 r)) l 0.
Definition PRBS_FUEL : nat := N.to_nat 65536.     (* rejection-loop fuel: far above the expected number of draws for M <= 16384 *)
(* [cn] = coded fragment number (m - n + 1 as u32) *)
Definition coded_row (ffr : bool) (nn : nat) (cn : N) : N :=
  let cm := N.of_nat nn in
  let md := cm + (if is_pow2 cm then 1 else 0) in
  let x0 := u32 (1 + u32 (1001 * cn)) in
  match (if ffr then full_fill PRBS_FUEL (N.to_nat (cm / 2)) x0 cm md [] else ref_fill PRBS_FUEL (N.to_nat (cm / 2)) x0 cm md) with
  | Some l => mask l | None => 0 end.
Definition updater_row (ffr : bool) (nn : nat) (mm : nat) : N :=
  if Nat.ltb mm nn then N.shiftl 1 (N.of_nat mm) else coded_row ffr nn (u32 (N.of_nat (mm - nn + 1))).
Definition seed_overflows (nn : nat) (idx0 : N) : bool :=
  (N.of_nat nn <=? idx0) && (1 + u32 (1001 * u32 (idx0 - N.of_nat nn + 1)) =? 4294967296).

Inductive seg_outcome := Consumed | FirmwareComplete.

(* Updater::handle_segment.  [checked] = overflow-checked build; [plen] = payload length in bytes *)
Definition handle_segment (checked ffr : bool) (m : mgr) (u : updater) (idx1 : N) (payload plen : N) (d : dev) : dev * updater * res seg_outcome :=
  if idx1 =? 0 then (d, u, RErr (MSpi EOob)) else
  let rd := u_rd u in
  if negb (plen =? bs rd) then (d, u, RPanic) else                 (* assert_eq!(data.len(), blocksize) *)
  let idx0 := idx1 - 1 in
  (* the parity row is generated only on the stage-2 path of handle_block (not complete, not refused) *)
  let enter := (N.of_nat (n rd) <=? idx0) && Nat.eqb (l rd) 0 in
  let l2 := if enter then missing rd else l rd in
  let refused := enter && (Nat.ltb 2048 l2 || Nat.ltb (u_maxl u) l2) in
  let reaches_row := negb (is_complete rd) && negb refused && negb (Nat.eqb l2 0) in
  if reaches_row && checked && seed_overflows (n rd) idx0 then (d, u, RPanic) else   (* 1 + 1001*N overflows u32 *)
  let I := flash_sto m (u_fw u) (u_par u) (bs rd) (u_maxl u) (u_moff u) in
  (* indices are u32: a coded index is passed to the reconstructor model as the surrogate [n] (any index >= n behaves the
     same there: it only selects the row), with the row of the true index *)
  let coded := N.of_nat (n rd) <=? idx0 in
  let row := if coded then coded_row ffr (n rd) (u32 (idx0 - N.of_nat (n rd) + 1)) else 0 in
  let P := fun mm => if Nat.ltb mm (n rd) then N.shiftl 1 (N.of_nat mm) else row in
  match handle_block I P (u_maxl u) 2048 rd (mkf d (u_cache u)) (if coded then n rd else N.to_nat idx0) payload with
  | (rd', s', o) =>
      let d' := f_dev s' in
      let u' := mkupd (u_fw u) (u_par u) rd' (u_maxl u) (u_moff u) (u_complete u) (f_cache s') in
      if dpanic d' then (d', u', RPanic) else
      match o with
      | Ok (Done _) => (d', mkupd (u_fw u) (u_par u) rd' (u_maxl u) (u_moff u) true (f_cache s'), ROk FirmwareComplete)
      | Ok _ => (d', u', ROk Consumed)
      | StorageError => (d', u', RErr (last_err d'))
      end
  end.

(* ------------------------------------------------------------------ firmware validation (firmware.rs) *)
(* the skip loop of crc_valid over flash reads; [st] is the raw CRC register *)
Fixpoint crc_segments (m : mgr) (i : nat) (sz : N) (idxs : list nat) (skip : option N) (st : N) (d : dev) : dev * option N :=
  match idxs with
  | [] => (d, Some st)
  | idx :: rest =>
      let go (to_skip : N) :=
        match d_read d (base m i + DATA_REGION_OFFSET + N.of_nat idx * sz) sz with
        | (d1, None) => (d1, None)
        | (d1, Some v) => crc_segments m i sz rest None (crc_raw st (skipn (N.to_nat to_skip) (bytes_of_val v (N.to_nat sz)))) d1
        end in
      match skip with
      | None => go 0
      | Some r => if sz <=? r then crc_segments m i sz rest (Some (r - sz)) st d else go r
      end
  end.

Definition crc_valid (m : mgr) (i : nat) (h : Slots.hdr) (d : dev) : dev * res unit :=
  let cnt := Slots.hcount h in let sz := Slots.hsize h in
  if MAX_SEGMENTS <? cnt then (d, RErr MTooManySegments) else
  if MAX_SEGMENT_SIZE <? sz then (d, RErr MSegmentsTooLarge) else
  match d_read d (base m i + DATA_REGION_OFFSET) (CRC32_SIZE + SIGNATURE_SIZE) with
  | (d1, None) => (d1, RErr (last_err d1))
  | (d1, Some pre) =>
      let expected := pre mod 4294967296 in
      match crc_segments m i sz (List.seq 0 (N.to_nat cnt)) (Some (CRC32_SIZE + SIGNATURE_SIZE)) 0 d1 with
      | (d2, None) => (d2, RErr (last_err d2))
      | (d2, Some st) => if expected =? N.lxor st M32 then (d2, ROk tt) else (d2, RErr MCrc32Mismatch)
      end
  end.

Definition is_valid_firmware (m : mgr) (i : nat) (d : dev) : dev * res unit :=
  match load_header m i d with
  | (d1, None) => (d1, RErr (last_err d1))
  | (d1, Some None) => (d1, RErr MUnexpectedMissingHeader)
  | (d1, Some (Some h)) =>
      match Slots.hkind h with
      | Slots.Parity => (d1, RErr MCheckFailNotFirmware)
      | Slots.Firmware =>
          match Slots.hext h with
          | Slots.EComplete => crc_valid m i h d1
          | _ => (d1, RErr MCheckFailNotDone)
          end
      end
  end.

(* original-flash-algo/src/manager.rs::check_crc_from_index(.., None, None, slot_start): header must parse, then the same loop *)
Definition orig_check_crc (m : mgr) (i : nat) (d : dev) : dev * res unit :=
  match load_header m i d with
  | (d1, None) => (d1, RErr (last_err d1))
  | (d1, Some None) => (d1, RErr MUnexpectedMissingHeader)
  | (d1, Some (Some h)) => crc_valid m i h d1
  end.

Definition check_and_mark_done (m : mgr) (u : updater) (d : dev) : dev * res nat :=
  if negb (u_complete u) then (d, RErr MCheckFailNotDone) else
  match load_header m (u_fw u) d with
  | (d1, None) => (d1, RErr (last_err d1))
  | (d1, Some None) => (d1, RErr MUnexpectedMissingHeader)
  | (d1, Some (Some h)) =>
      match crc_valid m (u_fw u) h d1 with
      | (d2, RErr e) => (d2, RErr e) | (d2, RPanic) => (d2, RPanic)
      | (d2, ROk _) =>
          match mark m (u_fw u) KComplete d2 with
          | (d3, RErr e) => (d3, RErr e) | (d3, RPanic) => (d3, RPanic)
          | (d3, ROk _) =>
              match mark m (u_par u) KComplete d3 with
              | (d4, RErr e) => (d4, RErr e) | (d4, RPanic) => (d4, RPanic)
              | (d4, ROk _) => (d4, ROk (u_fw u))
              end
          end
      end
  end.

(* ------------------------------------------------------------------ queries *)
Definition bl_boot_status (m : mgr) (d : dev) : dev * res Boot.blstatus :=
  match load_headers m d with
  | (d1, None) => (d1, RErr (last_err d1))
  | (d1, Some hs) => (d1, ROk (Boot.bl_boot_status hs))
  end.
Definition fallback_firmware (m : mgr) (d : dev) : dev * res (option nat) :=
  match load_headers m d with
  | (d1, None) => (d1, RErr (last_err d1))
  | (d1, Some hs) => (d1, ROk (Slots.fallback hs))
  end.

(* ------------------------------------------------------------------ cancel / recovery *)
Fixpoint cancel_from (m : mgr) (ihs : list (nat * Slots.hdr)) (d : dev) : dev * res unit :=
  match ihs with
  | [] => (d, ROk tt)
  | (i, h) :: tl =>
      if Recover.ext_inprogress h then
        match mark m i KAbort d with
        | (d1, ROk _) => cancel_from m tl d1
        | r => r end
      else cancel_from m tl d
  end.
Definition cancel_all_ext_pending (m : mgr) (d : dev) : dev * res unit :=
  match load_headers m d with
  | (d1, None) => (d1, RErr (last_err d1))
  | (d1, Some hs) => cancel_from m (Slots.indexed hs) d1
  end.

(* remediation of the slots outside the resumed pair, in slot-index order *)
Fixpoint remediate_from (m : mgr) (k1 k2 : nat) (ihs : list (nat * Slots.hdr)) (d : dev) : dev * res unit :=
  match ihs with
  | [] => (d, ROk tt)
  | (i, h) :: tl =>
      if Nat.eqb i k1 || Nat.eqb i k2 then remediate_from m k1 k2 tl d else
      match Slots.total_status h with
      | Slots.AppWriteInProgress =>
          match mark m i KAbort d with (d1, ROk _) => remediate_from m k1 k2 tl d1 | r => r end
      | Slots.BootloadWriteInProgress | Slots.InvalidNeedsErase =>
          match clear m i d with (d1, ROk _) => remediate_from m k1 k2 tl d1 | r => r end
      | _ => remediate_from m k1 k2 tl d
      end
  end.

(* BitCache::fill_from over the status table, in strides of MAX_SEGMENT_SIZE bytes: 0xFF -> false, 0x33 -> true, else HardwareFailure *)
Fixpoint status_bytes (bs_ : list N) (k : nat) (acc : nat -> bool) : option (nat -> bool) :=
  match bs_ with
  | [] => Some acc
  | b :: tl => if b =? DATA_WRITTEN then status_bytes tl (S k) (upd acc k true)
               else if b =? DATA_NOT_WRITTEN then status_bytes tl (S k) acc
               else None
  end.
Fixpoint load_status (fuel : nat) (m : mgr) (i : nat) (pos remain : N) (acc : nat -> bool) (d : dev) : dev * option (nat -> bool) :=
  match fuel with
  | O => (d, Some acc)
  | S f =>
      if remain =? 0 then (d, Some acc) else
      let stride := N.min remain MAX_SEGMENT_SIZE in
      match d_read d (base m i + WRITTEN_OFFSET + pos) stride with
      | (d1, None) => (d1, None)
      | (d1, Some v) =>
          match status_bytes (bytes_of_val v (N.to_nat stride)) (N.to_nat pos) acc with
          | None => (set_err d1 EHw, None)
          | Some acc' => load_status f m i (pos + stride) (remain - stride) acc' d1
          end
      end
  end.

(* the diagonal byte of every row: used[i] := (byte != 0xFF) *)
Fixpoint load_used (m : mgr) (par : nat) (moff : N) (ks : list nat) (acc : nat -> bool) (d : dev) : dev * option (nat -> bool) :=
  match ks with
  | [] => (d, Some acc)
  | k :: tl =>
      let off := moff + mro (N.of_nat k) + N.of_nat k / 8 in
      if m_size m - HEADER_SIZE <? off + 1 then (set_err d EOob, None) else
      match d_read d (base m par + HEADER_SIZE + off) 1 with
      | (d1, None) => (d1, None)
      | (d1, Some v) => load_used m par moff tl (if v =? 255 then acc else upd acc k true) d1
      end
  end.

Definition count_true (f : nat -> bool) (k : nat) : nat := length (filter f (List.seq 0 k)).

Definition try_recover_inner (m : mgr) (d : dev) : dev * res (option updater) :=
  match load_headers m d with
  | (d1, None) => (d1, RErr (last_err d1))
  | (d1, Some hs) =>
      match Recover.recover_inner (fun sz cnt => match reasonably_sized m sz cnt with None => true | Some _ => false end) hs with
      | (None, _) => (d1, ROk None)
      | (Some (f, p), _) =>
          match remediate_from m p f (Slots.indexed hs) d1 with
          | (d2, RErr e) => (d2, RErr e) | (d2, RPanic) => (d2, RPanic)
          | (d2, ROk _) =>
              match nth f hs None, nth p hs None with
              | Some hf, Some hp =>
                  let nn := Slots.hcount hf in let bsz := Slots.hsize hf in let ml := Slots.hcount hp in
                  let moff := ml * bsz in
                  (* Slot::num_segments re-reads the count field of the firmware header *)
                  match d_read d2 (base m f + NUMBER_OF_SEGMENTS_OFFSET) 4 with
                  | (d3, None) => (d3, RErr (last_err d3))
                  | (d3, Some cntv) =>
                      let cnt := if (1 <=? cntv) && (cntv <=? MAX_SEGMENTS) then cntv else 0 in
                      match load_status (S (N.to_nat (cnt / MAX_SEGMENT_SIZE))) m f 0 cnt (fun _ => false) d3 with
                      | (d4, None) => (d4, RErr (last_err d4))
                      | (d4, Some dn) =>
                          match load_used m p moff (List.seq 0 (N.to_nat ml)) (fun _ => false) d4 with
                          | (d5, None) => (d5, RErr (last_err d5))
                          | (d5, Some us) =>
                              let ndone := count_true dn (N.to_nat cnt) in          (* only the first [cnt] status bytes were loaded *)
                              let complete := Nat.eqb ndone (N.to_nat nn) in
                              let us' := if complete then (fun _ => false) else us in
                              let any_used := existsb us' (List.seq 0 (N.to_nat ml)) in
                              if any_used && Nat.ltb (N.to_nat nn) ndone then (d5, RPanic) else    (* n - done.count_ones() underflows *)
                              let ll := if any_used then (N.to_nat nn - ndone)%nat else 0%nat in
                              (d5, ROk (Some (mkupd f p (mkr (N.to_nat nn) ll bsz dn us') (N.to_nat ml) moff complete None)))
                          end
                      end
                  end
              | _, _ => (d2, RPanic)
              end
          end
      end
  end.

Definition try_recover (m : mgr) (d : dev) : dev * res (option updater) :=
  match try_recover_inner m d with
  | (d1, ROk None) =>
      match cancel_all_ext_pending m d1 with
      | (d2, ROk _) => (d2, ROk None)
      | (d2, RErr e) => (d2, RErr e) | (d2, RPanic) => (d2, RPanic) end
  | r => r
  end.

(* counters *)
(* done bits exist below n, used bits below the capacity (all others are false in every state the model builds) *)
Definition received (u : updater) : nat := (count_true (done (u_rd u)) (n (u_rd u)) + count_true (used (u_rd u)) (u_maxl u))%nat.
Definition total (u : updater) : nat := n (u_rd u).

(* ------------------------------------------------------------------ power loss: the flash after a crash is the
   log prefix applied to the memory, the interrupted program torn: [j] bytes fully programmed, in the next byte
   the bits of [keep] stay as they were *)
Definition apply_fop (blk : N) (m : mem) (o : fop) : mem :=
  match o with FErase a => erase m a blk | FProg a len v _ => program m a len v end.
Definition torn_prog (m : mem) (a len v j keep : N) : mem :=
  fun x => if (a <=? x) && (x <? a + len) then
             let k := x - a in
             if k <? j then N.land (m x) (byte_of v k)
             else if k =? j then N.land (m x) (N.lor (byte_of v k) keep) else m x
           else m x.
(* [ops] oldest first *)
Definition crash_mem (blk : N) (m : mem) (ops : list fop) (k : nat) (torn : option (N * N)) : mem :=
  let m1 := fold_left (apply_fop blk) (firstn k ops) m in
  match nth_error ops k, torn with
  | Some (FProg a len v _), Some (j, keep) => torn_prog m1 a len v j keep
  | _, _ => m1
  end.

Definition blank_dev (total blk : N) : dev := mkdev (fun _ => 255) total blk 0 None [] None false 0.
Definition with_mem (d : dev) (m : mem) : dev := mkdev m (dtotal d) (dblk d) (dops d) None (dlog d) None false 0.
Definition arm_fail (d : dev) (k : N) : dev := mkdev (dmem d) (dtotal d) (dblk d) (dops d) (Some (dops d + k)) (dlog d) (derr d) (dpanic d) (drh d).
Definition clear_flags (d : dev) : dev := mkdev (dmem d) (dtotal d) (dblk d) (dops d) (dfail d) (dlog d) None false (drh d).
Definition reset_rh (d : dev) : dev := mkdev (dmem d) (dtotal d) (dblk d) (dops d) (dfail d) (dlog d) (derr d) (dpanic d) 0.
(* direct manipulation of the medium, used to set up arbitrary flash contents (not a flash operation) *)
Definition poke (d : dev) (a len v : N) : dev :=
  mkdev (fun x => if (a <=? x) && (x <? a + len) then byte_of v (x - a) else dmem d x) (dtotal d) (dblk d) (dops d) (dfail d) (dlog d) (derr d) (dpanic d) (drh d).
