(* Remaining clauses of C03: refusal is exact and harmless; Done is stable and silent. *)
From Coq Require Import List NArith Arith Bool Lia.
Require Import Recon ReconProof Stmts.
Import ListNotations.

Definition core_eq (s s' : st) : Prop :=
  n s' = n s /\ l s' = l s /\ bs s' = bs s /\ (forall i, done s' i = done s i) /\ (forall i, used s' i = used s i).

Lemma finish_row_core s i : core_eq s (fst (finish_row s i)).
Proof. unfold finish_row. destruct (fold_left _ _ _) as [o ev]. cbn [fst]. repeat split; reflexivity. Qed.

Lemma finish_core s : core_eq s (fst (finish s)).
Proof.
  unfold finish. assert (G : forall L s0 ev, core_eq s s0 ->
    core_eq s (fst (fold_left (fun '(s, ev) i => let '(s', e) := finish_row s i in (s', ev ++ e)) L (s0, ev)))).
  { induction L as [|a L IH]; intros s0 ev H; cbn [fold_left]; [exact H|].
    pose proof (finish_row_core s0 a) as H1. destruct (finish_row s0 a) as [s1 e1]. cbn [fst] in H1.
    apply IH. destruct H as (A1&A2&A3&A4&A5), H1 as (B1&B2&B3&B4&B5). repeat split; intros; congruence. }
  apply G. repeat split; reflexivity.
Qed.

Lemma forallb_ext' {A} (f g : A -> bool) L : (forall x, f x = g x) -> forallb f L = forallb g L.
Proof. intros H. induction L as [|a L IH]; cbn; [reflexivity|]. now rewrite H, IH. Qed.

Lemma is_complete_core s s' : core_eq s s' -> is_complete s' = is_complete s /\ done_len s' = done_len s.
Proof.
  intros (A&B&C&D&E). unfold is_complete, done_len. rewrite A, B, C. split; [|reflexivity].
  destruct (Nat.eqb (l s) 0); apply forallb_ext'; intros; auto.
Qed.

Theorem refusal_exact : refusal_exact_stmt.
Proof.
  unfold refusal_exact_stmt. intros P cap vbits s i b. unfold handle_block.
  destruct (is_complete s) eqn:IC.
  { split; [split; [discriminate| intros (Q & _); discriminate]| discriminate]. }
  set (enter := Nat.leb (n s) i && Nat.eqb (l s) 0).
  set (l2 := if enter then missing s else l s).
  destruct (enter && (Nat.ltb vbits l2 || Nat.ltb cap l2)) eqn:R.
  - split; [|intros _; split; reflexivity]. split; [intros _|reflexivity].
    apply andb_prop in R. destruct R as [E R]. subst l2. rewrite E in R. unfold enter in E. apply andb_prop in E. destruct E as [E1 E2].
    apply Nat.leb_le in E1. apply Nat.eqb_eq in E2. apply orb_prop in R.
    repeat split; try assumption. destruct R as [R|R]; apply Nat.ltb_lt in R; lia.
  - assert (NR : ~ (l s = 0%nat /\ (n s <= i)%nat /\ (Nat.min cap vbits < missing s)%nat)).
    { intros (L0 & Hi & Hm). assert (E : enter = true) by (unfold enter; apply andb_true_intro; split; [apply Nat.leb_le; exact Hi| apply Nat.eqb_eq; exact L0]).
      subst l2. rewrite E in R. cbn [andb] in R. apply orb_false_elim in R. destruct R as [R1 R2]. apply Nat.ltb_ge in R1. apply Nat.ltb_ge in R2. lia. }
    cbn [l n bs done used dat par mat].
    destruct (Nat.eqb l2 0).
    + destruct (done s i).
      * match goal with |- context [if ?c then Done _ else NeedMore] => destruct c end; (split; [split; [discriminate| intros (_ & Q); exfalso; apply NR; exact Q]| discriminate]).
      * match goal with |- context [if ?c then Done _ else NeedMore] => destruct c end; (split; [split; [discriminate| intros (_ & Q); exfalso; apply NR; exact Q]| discriminate]).
    + match goal with |- context [handle_parity ?a ?b ?c ?d] => destruct (handle_parity a b c d) as [s2 ev] end.
      destruct (is_complete s2).
      * destruct (finish s2) as [s3 ev']. split; [split; [discriminate| intros (_ & Q); exfalso; apply NR; exact Q]| discriminate].
      * split; [split; [discriminate| intros (_ & Q); exfalso; apply NR; exact Q]| discriminate].
Qed.

(* once a call has returned Done, every later call returns Done with the same length and performs no storage call *)
Theorem done_stable : done_stable_stmt.
Proof.
  unfold done_stable_stmt. intros P cap vbits s i b len.
  destruct (handle_block P cap vbits s i b) as [[s' r] ev] eqn:H. intros Hr i' b'. cbn [fst].
  assert (IC : is_complete s' = true /\ done_len s' = len).
  { unfold handle_block in H. destruct (is_complete s) eqn:IC.
    - inversion H; subst. split; [exact IC|]. inversion H2. reflexivity.
    - set (enter := Nat.leb (n s) i && Nat.eqb (l s) 0) in *. set (l2 := if enter then missing s else l s) in *.
      destruct (enter && (Nat.ltb vbits l2 || Nat.ltb cap l2)); [inversion H; subst; discriminate|].
      cbn [l n bs done used dat par mat] in H. destruct (Nat.eqb l2 0).
      + destruct (done s i).
        * match type of H with context [if ?c then Done _ else NeedMore] => destruct c eqn:C end; inversion H; subst; try discriminate.
          split; [exact C| inversion H2; reflexivity].
        * match type of H with context [if ?c then Done _ else NeedMore] => destruct c eqn:C end; inversion H; subst; try discriminate.
          split; [exact C| inversion H2; reflexivity].
      + match type of H with context [handle_parity ?a ?b ?c ?d] => destruct (handle_parity a b c d) as [s2 ev2] eqn:HP end.
        destruct (is_complete s2) eqn:C2.
        * destruct (finish s2) as [s3 ev3] eqn:F. inversion H; subst. inversion H2; subst.
          pose proof (finish_core s2) as FC. rewrite F in FC. cbn [fst] in FC.
          destruct (is_complete_core _ _ FC) as [A B]. split; [rewrite A; exact C2| reflexivity].
        * inversion H; subst. discriminate. }
  destruct IC as [IC L]. unfold handle_block. rewrite IC. rewrite L. split; reflexivity.
Qed.

(* never before the data is determined: at Done, any two originals consistent with the blocks seen agree *)
Theorem done_determines : done_determines_stmt.
Proof.
  unfold done_determines_stmt, results. intros P nn cap vbits bs0 bl X X' [HP _] HF HF' (len & Hin) i Hi.
  pose proof (recon_sound P nn cap vbits bs0 X bl HP HF) as H1.
  pose proof (recon_sound P nn cap vbits bs0 X' bl HP HF') as H2.
  destruct (run P cap vbits (init nn bs0) bl) as [[s' rs] evs]. cbn [fst snd] in Hin.
  destruct H1 as [_ H1], H2 as [_ H2]. destruct (H1 len Hin) as [_ A], (H2 len Hin) as [_ B].
  specialize (A i Hi). specialize (B i Hi). congruence.
Qed.
