From Coq Require Import NArith ZArith Lia ZifyBool ZifyN.
Ltac Zify.zify_post_hook ::= Z.div_mod_to_equations.
Open Scope N_scope.

Require Export Consts.

Definition mro (i : N) : N := let c := i / 8 in let p := i mod 8 in c * (c + 1) * 4 + p * (c + 1).
Definition rowlen (m : N) : N := m / 8 + 1.

Lemma mro_succ i : mro (i + 1) = mro i + rowlen i.
Proof.
  unfold mro, rowlen.
  assert (H : (i mod 8 < 7 /\ (i+1)/8 = i/8 /\ (i+1) mod 8 = i mod 8 + 1) \/ (i mod 8 = 7 /\ (i+1)/8 = i/8 + 1 /\ (i+1) mod 8 = 0)) by lia.
  destruct H as [(H1 & H2 & H3)|(H1 & H2 & H3)]; rewrite H2, H3; nia.
Qed.

Lemma mro_mono i j : i <= j -> mro i <= mro j.
Proof.
  intros H. replace j with (i + (j - i)) by lia. generalize (j - i). intros k.
  induction k as [|k IH] using N.peano_ind; [now rewrite N.add_0_r|].
  rewrite N.add_succ_r, <- N.add_1_r, mro_succ. lia.
Qed.

Lemma mro_lt i j : i < j -> mro i + rowlen i <= mro j.
Proof. intros H. rewrite <- mro_succ. apply mro_mono. lia. Qed.

(* capacity: largest l < 2048 with fits l, as computed by the binary search of start_update *)
Definition fits (parity_size sz l : N) : bool := mro l + l * sz <=? parity_size.

Fixpoint bsearch (fuel : nat) (parity_size sz low high : N) : N :=
  match fuel with
  | O => low
  | S f => if high - low <=? 1 then low
           else let mid := (high + low) / 2 in
                if fits parity_size sz mid then bsearch f parity_size sz mid high
                else bsearch f parity_size sz low mid
  end.
Definition max_l (slot_size sz : N) : N := bsearch 12 (slot_size - DATA_REGION_OFFSET) sz 0 2048.

Lemma fits_mono ps sz a b : a <= b -> fits ps sz b = true -> fits ps sz a = true.
Proof. unfold fits. intros H Hb. pose proof (mro_mono a b H). nia. Qed.

Lemma bsearch_spec ps sz : forall fuel low high,
  low < high -> high - low <= 2 ^ N.of_nat fuel -> fits ps sz low = true -> (high = 2048 \/ fits ps sz high = false) ->
  let r := bsearch fuel ps sz low high in
  low <= r < high /\ fits ps sz r = true /\ (r + 1 = 2048 \/ fits ps sz (r + 1) = false) .
Proof.
  induction fuel as [|f IH]; intros low high Hlh Hw Hl Hh; cbn [bsearch].
  - cbn in Hw. assert (high = low + 1) by lia. subst. cbn zeta. repeat split; try lia; try assumption.
  - destruct (N.leb_spec (high - low) 1).
    + assert (high = low + 1) by lia. subst. cbn zeta. repeat split; try lia; try assumption.
    + set (mid := (high + low) / 2). assert (low < mid < high) by (subst mid; lia).
      assert (Hp : 2 ^ N.of_nat (S f) = 2 * 2 ^ N.of_nat f) by (rewrite Nat2N.inj_succ, N.pow_succ_r'; reflexivity).
      rewrite Hp in Hw. clear Hp. specialize (IH). revert IH Hw. generalize (2 ^ N.of_nat f). intros w IH Hw.
      destruct (fits ps sz mid) eqn:Fm.
      * destruct (IH mid high) as (A & B & C); try lia; try assumption.
        cbn zeta. repeat split; try lia; assumption.
      * destruct (IH low mid) as (A & B & C); try lia; try assumption; [right; exact Fm|].
        cbn zeta. repeat split; try lia; assumption.
Qed.

Arguments bsearch : simpl never.

Theorem max_l_spec slot_size sz :
  let L := max_l slot_size sz in
  L < 2048 /\ mro L + L * sz <= slot_size - DATA_REGION_OFFSET /\
  (forall l', l' < 2048 -> mro l' + l' * sz <= slot_size - DATA_REGION_OFFSET -> l' <= L).
Proof.
  unfold max_l. set (ps := slot_size - DATA_REGION_OFFSET).
  assert (H12 : 2048 - 0 <= 2 ^ N.of_nat 12) by (change (2 ^ N.of_nat 12) with 4096; lia).
  assert (F0 : fits ps sz 0 = true) by (unfold fits; change (mro 0) with 0; apply N.leb_le; lia).
  pose proof (bsearch_spec ps sz 12 0 2048 ltac:(lia) H12 F0 (or_introl eq_refl)) as H.
  revert H. generalize (bsearch 12 ps sz 0 2048). intros r H. cbv zeta in H |- *.
  destruct H as ((_ & A) & B & C). split; [exact A|]. split; [unfold fits in B; apply N.leb_le in B; exact B|].
  intros l' Hl' Hf. destruct (N.le_gt_cases l' r) as [|Hgt]; [assumption|].
  exfalso. destruct C as [C|C]; [lia|].
  assert (H : fits ps sz l' = true) by (unfold fits; apply N.leb_le; exact Hf).
  assert (Hle : r + 1 <= l') by lia.
  rewrite (fits_mono ps sz (r + 1) l' Hle H) in C. discriminate.
Qed.

(* README formula (strict) is never larger than the code's capacity *)
Theorem capacity_ge_documented slot_size sz l :
  l < 2048 -> 17408 + l * sz + 4 * (l / 8) * (l / 8 + 1) + (l mod 8) * (l / 8 + 1) < slot_size ->
  l <= max_l slot_size sz.
Proof.
  intros Hl Hdoc. apply (proj2 (proj2 (max_l_spec slot_size sz))); [exact Hl|].
  unfold mro, DATA_REGION_OFFSET. nia.
Qed.

(* the parity slot's raw area: blocks then triangular rows, all inside [HEADER_SIZE, slot_size) *)
Definition paraddr (sz m : N) : N := HEADER_SIZE + m * sz.
Definition rowaddr (sz L m : N) : N := HEADER_SIZE + L * sz + mro m.

Theorem parity_layout slot_size sz m :
  let L := max_l slot_size sz in
  DATA_REGION_OFFSET < slot_size -> m < L ->
  paraddr sz m + sz <= paraddr sz L /\                      (* blocks packed, below the row area *)
  paraddr sz L = rowaddr sz L 0 /\
  rowaddr sz L m + rowlen m <= slot_size.                   (* every row inside the slot *)
Proof.
  intros L Hs Hm. destruct (max_l_spec slot_size sz) as (A & B & _). fold L in A, B.
  unfold paraddr, rowaddr, HEADER_SIZE, DATA_REGION_OFFSET in *.
  assert (mro 0 = 0) by reflexivity. pose proof (mro_lt m L Hm). repeat split; nia.
Qed.

Theorem rows_disjoint sz L m m' : m < m' -> rowaddr sz L m + rowlen m <= rowaddr sz L m'.
Proof. intros H. unfold rowaddr. pose proof (mro_lt m m' H). lia. Qed.

Theorem blocks_disjoint sz m m' : m < m' -> paraddr sz m + sz <= paraddr sz m'.
Proof. intros H. unfold paraddr. nia. Qed.

(* firmware slot: status byte i and data block i *)
Definition stataddr (i : N) : N := HEADER_SIZE + i.
Definition dataaddr (sz i : N) : N := DATA_REGION_OFFSET + i * sz.
Theorem fw_layout slot_size sz nseg i :
  1 <= sz -> nseg <= MAX_SEGMENTS -> nseg * sz <= slot_size - DATA_REGION_OFFSET -> DATA_REGION_OFFSET < slot_size -> i < nseg ->
  HEADER_SIZE <= stataddr i /\ stataddr i + 1 <= DATA_REGION_OFFSET /\ dataaddr sz i + sz <= slot_size.
Proof. unfold stataddr, dataaddr, HEADER_SIZE, DATA_REGION_OFFSET, MAX_SEGMENTS. intros. repeat split; nia. Qed.
