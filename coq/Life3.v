From Coq Require Import List NArith ZArith Arith Bool Lia Sorted.
Require Import Slots SlotsProof RingA Exact RingB Recover Boot Life Life2.
Import ListNotations.

Ltac enum h := unfold hcls, awaiting, is_confirmed, is_awip, ext_inprogress, total_status, with_ext, with_int, with_boot in *; cbn [hkind hext hint hboot] in *;
  destruct (hkind h), (hext h), (hint h), (hboot h); cbn in *; intros; try discriminate; try congruence; auto.
Definition fff := (false, false, false).
Lemma L_abort h : ext_inprogress h = true -> hcls (Some (with_ext h EAborted)) = hcls (Some h).
Proof. enum h. Qed.
Lemma L_awip h : total_status h = AppWriteInProgress -> hcls (Some h) = fff.
Proof. unfold fff. enum h. Qed.
Lemma L_cfw h : total_status h = AppWriteInProgress -> hkind h = Firmware -> hcls (Some (with_ext h EComplete)) = (true, false, false).
Proof. enum h. Qed.
Lemma L_cpar h : total_status h = AppWriteInProgress -> hkind h = Parity -> hcls (Some (with_ext h EComplete)) = fff.
Proof. unfold fff. enum h. Qed.
Lemma L_copy h : awaiting h = Some false -> hcls (Some (with_int h IComplete)) = (false, true, false) /\ is_confirmed h = false /\ total_status h <> AppWriteInProgress.
Proof. enum h; repeat split; congruence. Qed.
Lemma L_ack h : awaiting h = Some true -> hcls (Some (with_boot h Successful)) = (false, false, true) /\ hcls (Some (with_boot h Unsuccessful)) = fff /\
  is_confirmed h = false /\ total_status h <> AppWriteInProgress.
Proof. unfold fff. enum h; repeat split; congruence. Qed.
Lemma oeq_ne i j : j <> i -> oeq (Some i) j = false.
Proof. intros H. cbn. destruct (Nat.eqb_spec i j); congruence. Qed.
Lemma oeq_refl i : oeq (Some i) i = true. Proof. cbn. apply Nat.eqb_refl. Qed.
Lemma hd_at_fun sl i h h' : hd_at sl i h -> hd_at sl i h' -> h = h'.
Proof. unfold hd_at. congruence. Qed.
Lemma exb_false i l : ~ In i l -> existsb (Nat.eqb i) l = false.
Proof. intros H. destruct (existsb _ _) eqn:E; [apply exb_iff in E; contradiction| reflexivity]. Qed.

Section Steps.
Variable NS : nat.
Hypothesis HN : (4 <= NS)%nat.
Notation Inv2 := (Inv2 NS).

Lemma cls_at sl g lv i h : Inv2 (sl, g, lv) -> hd_at sl i h -> hcls (Some h) = gcls g i.
Proof. intros J H. apply hd_at_slot in H. rewrite <- H. apply (J_cls _ _ J). Qed.

Lemma live_not_awaiting sl g lv f p i h : Inv2 (sl, g, lv) -> lv = Some (f, p) -> hd_at sl i h -> total_status h <> AppWriteInProgress -> i <> f /\ i <> p.
Proof.
  intros J E Hh Ns. destruct (J_live _ _ J f p E) as (hf & hp & A & B & C & D & _). cbn [fst] in A, B.
  split; intros ->; [rewrite (hd_at_fun _ _ _ _ Hh A) in Ns| rewrite (hd_at_fun _ _ _ _ Hh B) in Ns]; contradiction.
Qed.

Lemma step_abort sl g lv lv' i h : Inv2 (sl, g, lv) -> hd_at sl i h -> ext_inprogress h = true ->
  (forall f p, lv' = Some (f, p) -> lv = Some (f, p) /\ i <> f /\ i <> p) -> Inv2 (setnth sl i (Some (with_ext h EAborted)), g, lv').
Proof.
  intros J Hh He Lv. apply (inv2_upd NS sl g lv i h); [exact J| exact Hh| reflexivity| | | | | |exact Lv].
  - rewrite L_abort by exact He. apply (cls_at _ _ _ _ _ J Hh).
  - reflexivity.
  - apply (J_one _ _ J). - apply (J_desc _ _ J). - intros a j. apply (J_newer _ _ J).
Qed.

Lemma step_complete_fw sl g f p hf : Inv2 (sl, g, Some (f, p)) -> hd_at sl f hf -> copy g = None -> ack g = None ->
  Inv2 (setnth sl f (Some (with_ext hf EComplete)), mkg (Some f) None (conf g), None) /\
  (forall hp, hd_at sl p hp -> hd_at (setnth sl f (Some (with_ext hf EComplete))) p hp /\ total_status hp = AppWriteInProgress /\ hkind hp = Parity).
Proof.
  intros J Hh Ec Ea. destruct (J_live _ _ J f p eq_refl) as (hf' & hp & A & B & C & D & E & F & Nfp & Sfp & K). cbn [fst] in *.
  rewrite <- (hd_at_fun _ _ _ _ Hh A) in *. clear hf' A.
  pose proof (cls_at _ _ _ _ _ J Hh) as Cf. rewrite (L_awip _ C) in Cf. pose proof (cls_at _ _ _ _ _ J B) as Cp. rewrite (L_awip _ D) in Cp.
  unfold fff, gcls in Cf, Cp. inversion Cf as [[Xf1 Xf2 Xf]]. inversion Cp as [[Xp1 Xp2 Xp]].
  split.
  - apply (inv2_upd NS sl g (Some (f, p)) f hf); [exact J| exact Hh| reflexivity| | | | | |].
    + rewrite (L_cfw _ C E). unfold gcls; cbn [copy ack conf]. now rewrite oeq_refl, <- Xf.
    + intros j NE. unfold gcls; cbn [copy ack conf]. rewrite Ec, Ea, (oeq_ne _ _ NE). reflexivity.
    + right; reflexivity.
    + apply (J_desc _ _ J).
    + cbn [copy ack conf]. intros a j [Ha|Ha] Hj; [|discriminate]. inversion Ha; subst a. intros sj sf Sj Sf.
      assert (Sf' : sf = hseq hf). { apply seqat_hd in Sf. destruct Sf as (h0 & H0 & <-). now rewrite (hd_at_fun _ _ _ _ H0 Hh). } subst sf.
      apply (K j sj); [| |exact Sj]; intros ->; apply exb_iff in Hj; congruence.
    + intros ? ? Q; discriminate.
  - intros hp' Hp'. rewrite (hd_at_fun _ _ _ _ Hp' B). split; [|auto]. apply hd_at_set. destruct (Nat.eqb_spec p f); [congruence| exact B].
Qed.

Lemma step_complete sl g f p hf hp : Inv2 (sl, g, Some (f, p)) -> hd_at sl f hf -> hd_at sl p hp -> copy g = None -> ack g = None ->
  Inv2 (setnth (setnth sl f (Some (with_ext hf EComplete))) p (Some (with_ext hp EComplete)), mkg (Some f) None (conf g), None).
Proof.
  intros J Hf Hp Ec Ea. destruct (step_complete_fw sl g f p hf J Hf Ec Ea) as [J1 Q]. destruct (Q hp Hp) as (Hp1 & Sp & Kp).
  apply (inv2_upd NS _ (mkg (Some f) None (conf g)) None p hp); [exact J1| exact Hp1| reflexivity| | | | | |].
  - rewrite (L_cpar _ Sp Kp), <- (L_awip _ Sp). apply (cls_at _ _ _ _ _ J1 Hp1).
  - reflexivity.
  - apply (J_one _ _ J1). - apply (J_desc _ _ J1). - intros a j. apply (J_newer _ _ J1).
  - intros ? ? X; discriminate.
Qed.

Lemma step_copydone sl g lv i h : Inv2 (sl, g, lv) -> copy g = Some i -> hd_at sl i h ->
  Inv2 (setnth sl i (Some (with_int h IComplete)), mkg None (Some i) (conf g), lv).
Proof.
  intros J Ec Hh. destruct (cls_parts _ _ (J_cls _ _ J)) as [P _]. destruct (P i h Hh) as (P1 & _ & P3). cbn [fst snd] in *.
  destruct (L_copy h (proj2 P1 Ec)) as (X1 & X2 & X3).
  assert (Ea : ack g = None) by (destruct (J_one _ _ J) as [H|H]; cbn [fst snd] in H; congruence).
  assert (Nc : ~ In i (conf g)) by (intros H; apply P3 in H; congruence).
  apply (inv2_upd NS sl g lv i h); [exact J| exact Hh| reflexivity| | | | | |].
  - rewrite X1. unfold gcls; cbn [copy ack conf]. now rewrite oeq_refl, (exb_false _ _ Nc).
  - intros j NE. unfold gcls; cbn [copy ack conf]. rewrite Ec, Ea, (oeq_ne _ _ NE). reflexivity.
  - left; reflexivity.
  - apply (J_desc _ _ J).
  - cbn [copy ack conf]. intros a j [Ha|Ha] Hj; [discriminate|]. inversion Ha; subst a. apply (J_newer _ _ J); cbn [fst snd]; auto.
  - intros f p E. split; [exact E|]. apply (live_not_awaiting sl g lv f p i h J E Hh X3).
Qed.

Lemma step_confirm sl g lv i h : Inv2 (sl, g, lv) -> ack g = Some i -> hd_at sl i h ->
  Inv2 (setnth sl i (Some (with_boot h Successful)), mkg (copy g) None (i :: conf g), lv) /\
  Inv2 (setnth sl i (Some (with_boot h Unsuccessful)), mkg (copy g) None (conf g), lv).
Proof.
  intros J Ea Hh. destruct (cls_parts _ _ (J_cls _ _ J)) as [P _]. destruct (P i h Hh) as (_ & P2 & P3). cbn [fst snd] in *.
  destruct (L_ack h (proj2 P2 Ea)) as (X1 & X1' & X2 & X3).
  assert (Ec : copy g = None) by (destruct (J_one _ _ J) as [H|H]; cbn [fst snd] in H; congruence).
  assert (Nc : ~ In i (conf g)) by (intros H; apply P3 in H; congruence).
  assert (Lv : forall f p, lv = Some (f, p) -> lv = Some (f, p) /\ i <> f /\ i <> p).
  { intros f p E. split; [exact E|]. apply (live_not_awaiting sl g lv f p i h J E Hh X3). }
  split.
  - apply (inv2_upd NS sl g lv i h); [exact J| exact Hh| reflexivity| | | | | |exact Lv].
    + rewrite X1. unfold gcls; cbn [copy ack conf existsb]. now rewrite Ec, Nat.eqb_refl.
    + intros j NE. unfold gcls; cbn [copy ack conf existsb]. rewrite Ea, (oeq_ne _ _ NE). destruct (Nat.eqb_spec j i); [contradiction| reflexivity].
    + right; reflexivity.
    + cbn [conf]. constructor; [apply (J_desc _ _ J)|]. apply Forall_forall. intros j Hj. apply (J_newer _ _ J); cbn [fst snd]; auto.
    + cbn [copy ack]. rewrite Ec. intros a j [Ha|Ha]; discriminate.
  - apply (inv2_upd NS sl g lv i h); [exact J| exact Hh| reflexivity| | | | | |exact Lv].
    + rewrite X1'. unfold fff, gcls; cbn [copy ack conf]. now rewrite Ec, (exb_false _ _ Nc).
    + intros j NE. unfold gcls; cbn [copy ack conf]. rewrite Ea, (oeq_ne _ _ NE). reflexivity.
    + right; reflexivity.
    + apply (J_desc _ _ J).
    + cbn [copy ack]. rewrite Ec. intros a j [Ha|Ha]; discriminate.
Qed.
End Steps.
