(* C18 at the reconstructor level: a call that ends in a storage error (one transient fault, the failing operation without
   effect) and has not reached the back substitution leaves a state from which the re-delivery of the same block, with no
   fault armed, gives the result, the bookkeeping and the stores of the fault-free call.  The only trace a failed call can
   leave in the stores is a parity block in a cell whose pivot bit is not set - and such cells are never read. *)
From Coq Require Import List NArith Arith Bool Lia.
Require Recon.
Require Import MRecon MReconP MReconSim.
Import ListNotations.
Open Scope N_scope.

(* ---------- part A: junk in unused parity cells is never observed (pure model) ---------- *)
Definition setp (t : Recon.st) (p : nat -> option N) : Recon.st :=
  Recon.mkst (Recon.n t) (Recon.l t) (Recon.bs t) (Recon.done t) (Recon.used t) (Recon.dat t) p (Recon.mat t).
Definition agree (t : Recon.st) (p : nat -> option N) : Prop := forall k, Recon.used t k = true -> p k = Recon.par t k.

Lemma elim_junk : forall wh t p r d ev, agree t p ->
  exists p', Recon.elim (setp t p) wh r d ev = (setp (fst (Recon.elim t wh r d ev)) p', snd (Recon.elim t wh r d ev)) /\
             agree (fst (Recon.elim t wh r d ev)) p'.
Proof.
  induction wh as [|k IH]; intros t p r d ev A; cbn [Recon.elim]; cbn [setp Recon.used Recon.mat Recon.par Recon.n Recon.l Recon.bs Recon.done Recon.dat].
  - destruct (Recon.bit r 0).
    + destruct (Recon.used t 0) eqn:U.
      * exists p. split; [reflexivity| exact A].
      * eexists. split; [reflexivity|]. intros j Hj. cbn [fst Recon.used Recon.par] in *. unfold Recon.upd in *.
        destruct (Nat.eqb j 0); [reflexivity| apply A; exact Hj].
    + exists p. split; [reflexivity| exact A].
  - destruct (Recon.bit r (S k)).
    + destruct (Recon.used t (S k)) eqn:U.
      * rewrite (A (S k) U). apply IH. exact A.
      * eexists. split; [reflexivity|]. intros j Hj. cbn [fst Recon.used Recon.par] in *. unfold Recon.upd in *.
        destruct (Nat.eqb j (S k)); [reflexivity| apply A; exact Hj].
    + apply IH. exact A.
Qed.

Lemma finish_row_junk t p i : agree t p -> Recon.used t i = true ->
  exists p', Recon.finish_row (setp t p) i = (setp (fst (Recon.finish_row t i)) p', snd (Recon.finish_row t i)) /\
             agree (fst (Recon.finish_row t i)) p' /\ Recon.used (fst (Recon.finish_row t i)) = Recon.used t /\ Recon.l (fst (Recon.finish_row t i)) = Recon.l t.
Proof.
  intros A U. unfold Recon.finish_row. cbn [setp Recon.mat Recon.par Recon.dat]. rewrite (A i U).
  change (Recon.unk (setp t p)) with (Recon.unk t).
  destruct (fold_left _ (seq 0 i) (Recon.getb (Recon.par t i), [Recon.EParGet i; Recon.EMatGet i])) as [out ev].
  exists p. cbn [fst snd setp Recon.n Recon.l Recon.bs Recon.done Recon.used Recon.dat Recon.par Recon.mat]. repeat split. exact A.
Qed.

Lemma finish_junk : forall is t p ev0, agree t p -> (forall i, In i is -> Recon.used t i = true) ->
  exists p', fold_left fin_step is (setp t p, ev0) = (setp (fst (fold_left fin_step is (t, ev0))) p', snd (fold_left fin_step is (t, ev0))) /\
             agree (fst (fold_left fin_step is (t, ev0))) p'.
Proof.
  induction is as [|i tl IH]; intros t p ev0 A U; cbn [fold_left].
  - exists p. split; [reflexivity| exact A].
  - destruct (finish_row_junk t p i A (U i (or_introl eq_refl))) as (p1 & E & A1 & U1 & _).
    assert (FS : forall s ev, fin_step (s, ev) i = let '(s', e) := Recon.finish_row s i in (s', ev ++ e)) by reflexivity.
    rewrite !FS, E. destruct (Recon.finish_row t i) as [t1 e1]. cbn [fst snd] in *.
    apply IH; [exact A1|]. intros j Hj. rewrite U1. apply U. right; exact Hj.
Qed.

Lemma is_complete_setp t p : Recon.is_complete (setp t p) = Recon.is_complete t.
Proof. reflexivity. Qed.

Theorem handle_block_junk P cap vbits t p idx b : agree t p ->
  exists p', Recon.handle_block P cap vbits (setp t p) idx b
             = (setp (fst (fst (Recon.handle_block P cap vbits t idx b))) p', snd (fst (Recon.handle_block P cap vbits t idx b)), snd (Recon.handle_block P cap vbits t idx b)) /\
             agree (fst (fst (Recon.handle_block P cap vbits t idx b))) p'.
Proof.
  intros A. unfold Recon.handle_block. rewrite is_complete_setp.
  destruct (Recon.is_complete t); [exists p; split; [reflexivity| exact A]|].
  cbn [setp Recon.n Recon.l Recon.bs Recon.done Recon.used Recon.dat Recon.par Recon.mat].
  change (Recon.missing (setp t p)) with (Recon.missing t).
  set (enter := Nat.leb (Recon.n t) idx && Nat.eqb (Recon.l t) 0).
  set (l2 := if enter then Recon.missing t else Recon.l t).
  destruct (enter && (Nat.ltb vbits l2 || Nat.ltb cap l2)); [exists p; split; [reflexivity| exact A]|].
  cbv zeta. cbn [Recon.l]. destruct (Nat.eqb l2 0).
  - cbn [Recon.done]. destruct (Recon.done t idx).
    + exists p. split; [reflexivity| exact A].
    + exists p. split; [reflexivity| exact A].
  - set (t1 := Recon.mkst (Recon.n t) l2 (Recon.bs t) (Recon.done t) (Recon.used t) (Recon.dat t) (Recon.par t) (Recon.mat t)).
    change (Recon.mkst (Recon.n t) l2 (Recon.bs t) (Recon.done t) (Recon.used t) (Recon.dat t) p (Recon.mat t)) with (setp t1 p).
    unfold Recon.handle_parity.
    change (Recon.strip (setp t1 p) (P idx) b) with (Recon.strip t1 (P idx) b).
    change (Recon.project (setp t1 p) (P idx)) with (Recon.project t1 (P idx)).
    change (Recon.l (setp t1 p)) with (Recon.l t1).
    destruct (Recon.strip t1 (P idx) b) as [d ev].
    destruct (elim_junk (Recon.l t1 - 1) t1 p (Recon.project t1 (P idx)) d ev A) as (p2 & E2 & A2).
    rewrite E2. destruct (Recon.elim t1 (Recon.l t1 - 1) (Recon.project t1 (P idx)) d ev) as [t2 ev2]. cbn [fst snd] in *.
    rewrite is_complete_setp. destruct (Recon.is_complete t2) eqn:C2; [|exists p2; split; [reflexivity| exact A2]].
    unfold Recon.finish. change (Recon.l (setp t2 p2)) with (Recon.l t2).
    assert (U : forall i, In i (seq 0 (Recon.l t2)) -> Recon.used t2 i = true).
    { unfold Recon.is_complete in C2. destruct (Nat.eqb (Recon.l t2) 0) eqn:L0.
      - apply Nat.eqb_eq in L0. rewrite L0. intros i [].
      - rewrite forallb_forall in C2. exact C2. }
    destruct (finish_junk (seq 0 (Recon.l t2)) t2 p2 [] A2 U) as (p3 & E3 & A3).
    change (fold_left fin_step (seq 0 (Recon.l t2)) (setp t2 p2, [])) with
      (fold_left (fun '(s, ev) i => let '(s', e) := Recon.finish_row s i in (s', ev ++ e)) (seq 0 (Recon.l t2)) (setp t2 p2, [])) in E3.
    rewrite E3.
    change (fold_left (fun '(s, ev) i => let '(s', e) := Recon.finish_row s i in (s', ev ++ e)) (seq 0 (Recon.l t2)) (t2, [])) with (fold_left fin_step (seq 0 (Recon.l t2)) (t2, [])).
    destruct (fold_left fin_step (seq 0 (Recon.l t2)) (t2, [])) as [t3 ev3]. cbn [fst snd] in *.
    exists p3. split; [reflexivity| exact A3].
Qed.

(* ---------- part B: what a failed call leaves in the stores ---------- *)
Definition maps_eq (a a' : ast) : Prop := dat a' = dat a /\ par a' = par a /\ mat a' = mat a.
Lemma maps_refl a : maps_eq a a. Proof. repeat split. Qed.
Lemma maps_trans a b c : maps_eq a b -> maps_eq b c -> maps_eq a c.
Proof. intros (A1 & A2 & A3) (B1 & B2 & B3). repeat split; congruence. Qed.

Lemma dget_maps a i a' o : m_dget abs_sto a i = (a', o) -> maps_eq a a'.
Proof. cbn [abs_sto m_dget]. unfold tick. destruct (match fail_at a with Some k => Nat.eqb k (opc a) | None => false end); intros H; inversion H; subst; repeat split. Qed.
Lemma pget_maps a i a' o : m_pget abs_sto a i = (a', o) -> maps_eq a a'.
Proof. cbn [abs_sto m_pget]. unfold tick. destruct (match fail_at a with Some k => Nat.eqb k (opc a) | None => false end); intros H; inversion H; subst; repeat split. Qed.
Lemma mget_maps a i a' o : m_mget abs_sto a i = (a', o) -> maps_eq a a'.
Proof. cbn [abs_sto m_mget]. unfold tick. destruct (match fail_at a with Some k => Nat.eqb k (opc a) | None => false end); intros H; inversion H; subst; repeat split. Qed.
Lemma dput_fail_maps a i b a' : m_dput abs_sto a i b = (a', false) -> maps_eq a a'.
Proof. cbn [abs_sto m_dput]. unfold tick. destruct (match fail_at a with Some k => Nat.eqb k (opc a) | None => false end); intros H; inversion H; subst; repeat split. Qed.
Lemma pput_fail_maps a i b a' : m_pput abs_sto a i b = (a', false) -> maps_eq a a'.
Proof. cbn [abs_sto m_pput]. unfold tick. destruct (match fail_at a with Some k => Nat.eqb k (opc a) | None => false end); intros H; inversion H; subst; repeat split. Qed.
Lemma mput_fail_maps a i b a' : m_mput abs_sto a i b = (a', false) -> maps_eq a a'.
Proof. cbn [abs_sto m_mput]. unfold tick. destruct (match fail_at a with Some k => Nat.eqb k (opc a) | None => false end); intros H; inversion H; subst; repeat split. Qed.
Lemma pput_ok_maps a i b a' : m_pput abs_sto a i b = (a', true) -> dat a' = dat a /\ mat a' = mat a /\ par a' = upd (par a) i (Some b).
Proof. cbn [abs_sto m_pput]. unfold tick. destruct (match fail_at a with Some k => Nat.eqb k (opc a) | None => false end); intros H; inversion H; subst; repeat split. Qed.

Lemma strip_maps s r : forall is a d a' o, strip abs_sto s r is a d = (a', o) -> maps_eq a a'.
Proof.
  induction is as [|i tl IH]; intros a d a' o H; cbn [strip] in H.
  - inversion H; subst. apply maps_refl.
  - destruct (bit r i && done s i); [|eapply IH; exact H].
    destruct (m_dget abs_sto a i) as [a1 [v|]] eqn:E.
    + eapply maps_trans; [eapply dget_maps; exact E| eapply IH; exact H].
    + inversion H; subst. eapply dget_maps; exact E.
Qed.

(* weak agreement: everything but parity cells whose pivot bit is clear *)
Definition wagree (s : rdata) (a a' : ast) : Prop := dat a' = dat a /\ mat a' = mat a /\ forall k, used s k = true -> par a' k = par a k.
Lemma maps_wagree s a a' : maps_eq a a' -> wagree s a a'.
Proof. intros (A & B & C). repeat split; try assumption. intros k _. rewrite B. reflexivity. Qed.
Lemma wagree_trans_l s a b c : maps_eq a b -> wagree s b c -> wagree s a c.
Proof. intros (A1 & A2 & A3) (B1 & B2 & B3). repeat split; try congruence. intros k Hk. rewrite (B3 k Hk), A2. reflexivity. Qed.

Lemma elim_fail_maps s : forall wh r d a s' a', elim abs_sto s wh r d a = (s', a', false) -> wagree s a a'.
Proof.
  induction wh as [|k IH]; intros r d a s' a' H; cbn [elim] in H.
  - destruct (bit r 0); [|discriminate].
    destruct (used s 0) eqn:U.
    + destruct (m_pget abs_sto a 0%nat) as [a1 [pv|]] eqn:E1.
      * destruct (m_mget abs_sto a1 0%nat) as [a2 [rv|]] eqn:E2; [discriminate|]. inversion H; subst.
        apply maps_wagree. eapply maps_trans; [eapply pget_maps; exact E1| eapply mget_maps; exact E2].
      * inversion H; subst. apply maps_wagree. eapply pget_maps; exact E1.
    + destruct (m_pput abs_sto a 0%nat d) as [a1 [|]] eqn:E1.
      * destruct (m_mput abs_sto a1 0%nat r) as [a2 [|]] eqn:E2; [discriminate|]. inversion H; subst.
        destruct (pput_ok_maps _ _ _ _ E1) as (D1 & M1 & P1). destruct (mput_fail_maps _ _ _ _ E2) as (D2 & P2 & M2).
        repeat split; try congruence. intros j Hj. rewrite P2, P1. unfold upd. destruct (Nat.eqb_spec j 0); [subst; congruence| reflexivity].
      * inversion H; subst. apply maps_wagree. eapply pput_fail_maps; exact E1.
  - destruct (bit r (S k)); [|eapply IH; exact H].
    destruct (used s (S k)) eqn:U.
    + destruct (m_pget abs_sto a (S k)) as [a1 [pv|]] eqn:E1.
      * destruct (m_mget abs_sto a1 (S k)) as [a2 [rv|]] eqn:E2.
        -- eapply wagree_trans_l; [eapply maps_trans; [eapply pget_maps; exact E1| eapply mget_maps; exact E2]| eapply IH; exact H].
        -- inversion H; subst. apply maps_wagree. eapply maps_trans; [eapply pget_maps; exact E1| eapply mget_maps; exact E2].
      * inversion H; subst. apply maps_wagree. eapply pget_maps; exact E1.
    + destruct (m_pput abs_sto a (S k) d) as [a1 [|]] eqn:E1.
      * destruct (m_mput abs_sto a1 (S k) r) as [a2 [|]] eqn:E2; [discriminate|]. inversion H; subst.
        destruct (pput_ok_maps _ _ _ _ E1) as (D1 & M1 & P1). destruct (mput_fail_maps _ _ _ _ E2) as (D2 & P2 & M2).
        repeat split; try congruence. intros j Hj. rewrite P2, P1. unfold upd. destruct (Nat.eqb_spec j (S k)); [subst; congruence| reflexivity].
      * inversion H; subst. apply maps_wagree. eapply pput_fail_maps; exact E1.
Qed.

Theorem failed_call_effect P cap vbits s a idx b s' a' :
  handle_block abs_sto P cap vbits s a idx b = (s', a', StorageError) -> is_complete s' = false -> wagree s a a'.
Proof.
  unfold handle_block. intros H NC.
  destruct (is_complete s); [discriminate|].
  match type of H with (if ?x then _ else _) = _ => destruct x end; [discriminate|].
  cbn [l n bs done used] in H.
  match type of H with (if ?x then _ else _) = _ => destruct x end.
  - destruct (done s idx); [discriminate|].
    destruct (m_dput abs_sto a idx b) as [a1 [|]] eqn:E; [discriminate|]. inversion H; subst.
    apply maps_wagree. eapply dput_fail_maps; exact E.
  - match type of H with (match ?x with (_, _) => _ end) = _ => destruct x as [a1 [d|]] eqn:E1 end.
    + match type of H with (match ?x with (_, _) => _ end) = _ => destruct x as [[s2 a2] [|]] eqn:E2 end.
      * destruct (is_complete s2) eqn:C2; [|discriminate].
        match type of H with (match ?x with (_, _) => _ end) = _ => destruct x as [a3 [|]] end; [discriminate|].
        inversion H; subst. congruence.
      * inversion H; subst. eapply wagree_trans_l; [eapply strip_maps; exact E1|].
        pose proof (elim_fail_maps _ _ _ _ _ _ _ E2) as W. exact W.
    + inversion H; subst. apply maps_wagree. eapply strip_maps; exact E1.
Qed.


(* ---------- part C: the stage marker a failed call may leave behind is the one the re-delivery would set anyway ---------- *)
Lemma failed_call_stage P cap vbits s a idx b s' a' :
  handle_block abs_sto P cap vbits s a idx b = (s', a', StorageError) ->
  let enter := Nat.leb (n s) idx && Nat.eqb (l s) 0 in
  let l2 := if enter then missing s else l s in
  is_complete s = false /\ (enter && (Nat.ltb vbits l2 || Nat.ltb cap l2)) = false /\ l s' = l2.
Proof.
  unfold handle_block. intros H. cbv zeta.
  destruct (is_complete s); [discriminate|]. split; [reflexivity|].
  match type of H with (if ?x then _ else _) = _ => destruct x eqn:RF end; [discriminate|]. split; [reflexivity|].
  cbn [l n bs done used] in H.
  match type of H with (if ?x then _ else _) = _ => destruct x end.
  - destruct (done s idx); [discriminate|].
    destruct (m_dput abs_sto a idx b) as [a1 [|]]; [discriminate|]. inversion H; subst. reflexivity.
  - match type of H with (match ?x with (_, _) => _ end) = _ => destruct x as [a1 [d|]] end.
    + match type of H with (match ?x with (_, _) => _ end) = _ => destruct x as [[s2 a2] ok] eqn:E2 end.
      pose proof (elim_core _ _ _ _ _ _ _ _ _ E2) as (_ & L & _ & _). cbn [l] in L.
      destruct ok.
      * destruct (is_complete s2); [|discriminate].
        match type of H with (match ?x with (_, _) => _ end) = _ => destruct x as [a3 [|]] end; [discriminate|]. inversion H; subst. exact L.
      * inversion H; subst. exact L.
    + inversion H; subst. reflexivity.
Qed.

Definition setl (t : Recon.st) (l' : nat) : Recon.st :=
  Recon.mkst (Recon.n t) l' (Recon.bs t) (Recon.done t) (Recon.used t) (Recon.dat t) (Recon.par t) (Recon.mat t).

Lemma forallb_false_all {A} (f : A -> bool) (L : list A) : L <> [] -> (forall x, f x = false) -> forallb f L = false.
Proof. destruct L as [|x tl]; [contradiction|]. intros _ H. cbn. rewrite H. reflexivity. Qed.

Lemma handle_block_stage P cap vbits t idx b :
  let enter := Nat.leb (Recon.n t) idx && Nat.eqb (Recon.l t) 0 in
  let l2 := if enter then Recon.missing t else Recon.l t in
  Recon.is_complete t = false -> (enter && (Nat.ltb vbits l2 || Nat.ltb cap l2)) = false ->
  (Recon.l t = 0%nat -> forall k, Recon.used t k = false) ->
  Recon.handle_block P cap vbits (setl t l2) idx b = Recon.handle_block P cap vbits t idx b.
Proof.
  intros enter l2 NC RF U0.
  destruct enter eqn:EN; unfold l2; [|destruct t; reflexivity].
  apply andb_prop in EN. destruct EN as [E1 E2]. apply Nat.eqb_eq in E2.
  destruct (Nat.eq_dec (Recon.missing t) 0) as [M0|M0].
  { rewrite M0. rewrite <- E2. destruct t; reflexivity. }
  unfold Recon.handle_block. rewrite NC.
  assert (C' : Recon.is_complete (setl t (Recon.missing t)) = false).
  { unfold Recon.is_complete. cbn [setl Recon.l Recon.used]. destruct (Nat.eqb_spec (Recon.missing t) 0); [contradiction|].
    apply forallb_false_all; [destruct (Recon.missing t); [contradiction| discriminate]| exact (U0 E2)]. }
  rewrite C'. cbn [setl Recon.n Recon.l Recon.bs Recon.done Recon.used Recon.dat Recon.par Recon.mat].
  change (Recon.missing (setl t (Recon.missing t))) with (Recon.missing t).
  assert (EM : (Recon.missing t =? 0)%nat = false) by (apply Nat.eqb_neq; exact M0).
  rewrite E1, E2. change (0 =? 0)%nat with true. cbn [andb]. rewrite ?EM. cbn [andb].
  unfold l2 in RF. cbn [andb] in RF. rewrite RF. rewrite ?EM. reflexivity.
Qed.

(* ---------- part D: the theorem ---------- *)
Definition clear (a : ast) : ast := mka (dat a) (par a) (mat a) (evs a) (opc a) None.

Theorem retry_is_fault_free P cap vbits s a idx b s1 a1 :
  (l s = 0%nat -> forall k, used s k = false) ->
  handle_block abs_sto P cap vbits s a idx b = (s1, a1, StorageError) -> is_complete s1 = false ->
  forall sF aF oF, handle_block abs_sto P cap vbits s (clear a) idx b = (sF, aF, oF) ->      (* the call with no fault armed *)
  exists aR, handle_block abs_sto P cap vbits s1 (clear a1) idx b = (sF, aR, oF) /\          (* the re-delivery *)
             dat aR = dat aF /\ mat aR = mat aF /\ forall k, used sF k = true -> par aR k = par aF k.
Proof.
  intros U0 H NC sF aF oF HF.
  destruct (failed_call_keeps_bookkeeping _ _ _ _ _ _ _ _ _ _ H) as (Hn & Hb & Hd & _ & Hu).
  destruct Hu as [Hu|Hu]; [|congruence].
  destruct (failed_call_effect _ _ _ _ _ _ _ _ _ H NC) as (Wd & Wm & Wp).
  destruct (failed_call_stage _ _ _ _ _ _ _ _ _ H) as (NC0 & RF & Hl). cbv zeta in RF, Hl.
  (* both calls as pure-model calls *)
  pose proof (handle_block_sim P cap vbits s (clear a) idx b eq_refl) as SF.
  pose proof (handle_block_sim P cap vbits s1 (clear a1) idx b eq_refl) as SR.
  set (T0 := to_st s (clear a)) in *.
  assert (ET : to_st s1 (clear a1) = setp (setl T0 (l s1)) (par a1)).
  { unfold to_st, setp, setl, T0, clear. cbn [dat par mat Recon.n Recon.l Recon.bs Recon.done Recon.used Recon.dat Recon.par Recon.mat].
    rewrite Hn, Hb, Hd, Hu, Wd, Wm. reflexivity. }
  rewrite ET in SR.
  assert (AG : agree (setl T0 (l s1)) (par a1)).
  { intros k Hk. cbn [setl Recon.used Recon.par T0 to_st clear par] in *. apply Wp. exact Hk. }
  destruct (handle_block_junk P cap vbits (setl T0 (l s1)) (par a1) idx b AG) as (p' & EJ & AJ).
  rewrite EJ in SR.
  assert (ES : Recon.handle_block P cap vbits (setl T0 (l s1)) idx b = Recon.handle_block P cap vbits T0 idx b).
  { rewrite Hl. apply (handle_block_stage P cap vbits T0 idx b); [exact NC0| exact RF| exact U0]. }
  rewrite ES in SR, AJ.
  destruct (Recon.handle_block P cap vbits T0 idx b) as [[tF rF] esF]. cbn [fst snd] in *.
  rewrite HF in SF. inversion SF; subst sF aF oF.
  eexists. split; [exact SR|]. cbn [after dat par mat setp Recon.dat Recon.par Recon.mat].
  split; [reflexivity|]. split; [reflexivity|]. intros k Hk. apply AJ. exact Hk.
Qed.


(* the side condition of the theorem is an invariant of every run, whatever the storages do *)
Definition StageInv (s : rdata) : Prop := l s = 0%nat -> forall k, used s k = false.
Lemma stage_inv_init n0 bs0 : StageInv (rinit n0 bs0).
Proof. intros _ k. reflexivity. Qed.
Lemma stage_inv_step {St} (I : msto St) P cap vbits s c idx b s' c' o :
  handle_block I P cap vbits s c idx b = (s', c', o) -> StageInv s -> StageInv s'.
Proof.
  unfold handle_block. intros H Inv.
  destruct (is_complete s); [inversion H; subst; exact Inv|].
  set (enter := Nat.leb (n s) idx && Nat.eqb (l s) 0) in *.
  set (l2 := if enter then missing s else l s) in *.
  destruct (enter && (Nat.ltb vbits l2 || Nat.ltb cap l2)); [inversion H; subst; exact Inv|].
  cbn [l n bs done used] in H.
  destruct (Nat.eqb_spec l2 0) as [L0|L0].
  - assert (U : forall k, used s k = false).
    { apply Inv. unfold l2 in L0. destruct enter eqn:EN; [|exact L0]. unfold enter in EN. apply andb_prop in EN. destruct EN as [_ EN]. apply Nat.eqb_eq in EN. exact EN. }
    destruct (done s idx); [inversion H; subst; intros _; exact U|].
    destruct (m_dput I c idx b) as [c1 [|]]; inversion H; subst; intros _; exact U.
  - assert (NZ : forall s2, l s2 = l2 -> StageInv s2) by (intros s2 E Z; congruence).
    match type of H with (match ?x with (_, _) => _ end) = _ => destruct x as [c1 [d|]] end; [|inversion H; subst; apply NZ; reflexivity].
    match type of H with (match ?x with (_, _) => _ end) = _ => destruct x as [[s2 c2] ok] eqn:E2 end.
    pose proof (elim_core _ _ _ _ _ _ _ _ _ E2) as (_ & L & _ & _). cbn [l] in L.
    destruct ok; [|inversion H; subst; apply NZ; exact L].
    destruct (is_complete s2); [|inversion H; subst; apply NZ; exact L].
    match type of H with (match ?x with (_, _) => _ end) = _ => destruct x as [c3 [|]] end; inversion H; subst; apply NZ; exact L.
Qed.

Print Assumptions handle_block_junk.
Print Assumptions failed_call_effect.
Print Assumptions retry_is_fault_free.
Print Assumptions stage_inv_step.
