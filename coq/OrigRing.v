From Coq Require Import List NArith Arith Bool Lia.
Import ListNotations.

(* original-flash-algo: ring.rs / manager.rs next_seq *)
Definition next_seq (s : N) : N := let t := ((s + 1) mod 4294967296)%N in if (t =? 4294967295)%N then 0%N else t.

Section Ring.
Variable N_ : nat.                       (* number of slots *)
Hypothesis HN : (2 <= N_)%nat.
Definition ring := nat -> option N.      (* sequence number visible at each position (None = blank / unparseable) *)

(* the discontinuity test of get_ordered_headers at index i (left neighbour wraps around) *)
Definition disc (h : ring) (i : nat) : bool :=
  match h ((i + N_ - 1) mod N_)%nat, h i with
  | Some _, None => true
  | Some s1, Some s2 => negb (s2 =? next_seq s1)%N
  | _, _ => false
  end.
Definition oldest_index (h : ring) : option nat := find (disc h) (seq 0 N_).
(* find_oldest_slot: position to overwrite and the next sequence number *)
Definition ordered (h : ring) (k : nat) : option N :=
  match oldest_index h with Some i => h ((i + k) mod N_)%nat | None => h k end.
Fixpoint last_some (h : nat -> option N) (k : nat) : option N :=
  match k with O => None | S k' => match h k' with Some s => Some s | None => last_some h k' end end.
Definition find_oldest (h : ring) : nat * N :=
  (match oldest_index h with Some i => i | None => 0%nat end,
   match last_some (ordered h) N_ with Some s => next_seq s | None => 0%N end).

(* a consistent ring: f consecutively numbered slots starting at position p with sequence number s0 *)
Fixpoint iter_next (k : nat) (s : N) : N := match k with O => s | S k' => next_seq (iter_next k' s) end.
Definition consistent (h : ring) (p f : nat) (s0 : N) : Prop :=
  (p < N_)%nat /\ (f <= N_)%nat /\
  forall k, (k < N_)%nat -> h ((p + k) mod N_)%nat = if (k <? f)%nat then Some (iter_next k s0) else None.

(* sequence numbers along a run never close a cycle of length <= N (N is far below 2^32 - 1) *)
Hypothesis no_cycle : forall s k, (0 < k <= N_)%nat -> iter_next k s <> s.

Lemma pos_decomp p i : (p < N_)%nat -> (i < N_)%nat -> exists k, (k < N_)%nat /\ i = ((p + k) mod N_)%nat.
Proof.
  intros Hp Hi. destruct (Nat.le_gt_cases p i).
  - exists (i - p)%nat. split; [lia|]. replace (p + (i - p))%nat with i by lia. symmetry. apply Nat.mod_small. lia.
  - exists (i + N_ - p)%nat. split; [lia|]. replace (p + (i + N_ - p))%nat with (i + 1 * N_)%nat by lia. rewrite Nat.mod_add by lia. symmetry. apply Nat.mod_small. lia.
Qed.

Lemma pred_pos p k : (p < N_)%nat -> (k < N_)%nat ->
  (((p + k) mod N_ + N_ - 1) mod N_ = (p + (if Nat.eqb k 0 then N_ - 1 else k - 1)) mod N_)%nat.
Proof.
  intros Hp Hk. destruct (Nat.eqb_spec k 0) as [->|Hk0].
  - rewrite Nat.add_0_r, (Nat.mod_small p) by lia. f_equal. lia.
  - replace ((p + k) mod N_ + N_ - 1)%nat with ((p + k) mod N_ + (N_ - 1))%nat by lia. rewrite Nat.add_mod_idemp_l by lia.
    replace (p + k + (N_ - 1))%nat with (p + (k - 1) + 1 * N_)%nat by lia. apply Nat.mod_add. lia.
Qed.

(* where the discontinuity is *)
Lemma disc_at h p f s0 k : consistent h p f s0 -> (k < N_)%nat ->
  disc h ((p + k) mod N_)%nat = if Nat.eqb f 0 then false else if Nat.eqb f N_ then Nat.eqb k 0 else Nat.eqb k f.
Proof.
  intros (Hp & Hf & H) Hk. unfold disc. rewrite (pred_pos p k Hp Hk), (H k Hk).
  destruct (Nat.eqb_spec k 0) as [->|Hk0].
  - rewrite (H (N_ - 1)%nat ltac:(lia)). destruct (Nat.eqb_spec f 0) as [->|Hf0].
    + destruct (Nat.ltb_spec (N_ - 1) 0); [lia|]. reflexivity.
    + destruct (Nat.ltb_spec 0 f); [|lia]. destruct (Nat.eqb_spec f N_) as [->|HfN].
      * destruct (Nat.ltb_spec (N_ - 1) N_); [|lia]. cbn [iter_next].
        destruct (N.eqb_spec s0 (next_seq (iter_next (N_ - 1) s0))) as [E|]; [|reflexivity].
        exfalso. apply (no_cycle s0 N_ ltac:(lia)). replace N_ with (S (N_ - 1)) at 1 by lia. cbn [iter_next]. congruence.
      * destruct (Nat.ltb_spec (N_ - 1) f); [lia|]. destruct (Nat.eqb_spec 0 f); [lia| reflexivity].
  - rewrite (H (k - 1)%nat ltac:(lia)). destruct (Nat.eqb_spec f 0) as [->|Hf0].
    + destruct (Nat.ltb_spec (k - 1) 0); [lia|]. reflexivity.
    + destruct (Nat.ltb_spec k f), (Nat.ltb_spec (k - 1) f); try lia.
      * replace k with (S (k - 1)) at 1 by lia. cbn [iter_next]. rewrite N.eqb_refl. cbn [negb].
        destruct (Nat.eqb_spec f N_); try reflexivity; symmetry; apply Nat.eqb_neq; lia.
      * destruct (Nat.eqb_spec f N_); [lia|]. symmetry. apply Nat.eqb_eq. lia.
      * destruct (Nat.eqb_spec f N_); [lia|]. symmetry. apply Nat.eqb_neq. lia.
Qed.

Lemma find_unique (f : nat -> bool) q : (q < N_)%nat -> f q = true -> (forall i, (i < N_)%nat -> i <> q -> f i = false) ->
  find f (seq 0 N_) = Some q.
Proof.
  intros Hq Hfq Hu.
  assert (G : forall k n0, (n0 <= q < n0 + k)%nat -> (forall i, (n0 <= i < n0 + k)%nat -> i <> q -> f i = false) -> find f (seq n0 k) = Some q).
  { induction k as [|k IH]; intros n0 Hr Hf; [lia|]. cbn [seq find]. destruct (Nat.eq_dec n0 q) as [->|Hne]; [now rewrite Hfq|].
    rewrite (Hf n0 ltac:(lia) Hne). apply IH; [lia| intros i Hi; apply Hf; lia]. }
  apply G; [lia| intros i Hi; apply Hu; lia].
Qed.
Lemma find_none (f : nat -> bool) : (forall i, (i < N_)%nat -> f i = false) -> find f (seq 0 N_) = None.
Proof.
  intros H. assert (G : forall k n0, (forall i, (n0 <= i < n0 + k)%nat -> f i = false) -> find f (seq n0 k) = None).
  { induction k as [|k IH]; intros n0 Hf; [reflexivity|]. cbn [seq find]. rewrite (Hf n0 ltac:(lia)). apply IH. intros i Hi. apply Hf. lia. }
  apply G. intros i Hi. apply H. lia.
Qed.

(* C20: the position the deprecated manager overwrites next is the one that follows the newest slot *)
Theorem oldest_index_spec h p f s0 : consistent h p f s0 ->
  oldest_index h = if Nat.eqb f 0 then None else Some (if Nat.eqb f N_ then p else ((p + f) mod N_)%nat).
Proof.
  intros C. pose proof C as (Hp & Hf & H). unfold oldest_index.
  destruct (Nat.eqb_spec f 0) as [Hf0|Hf0].
  - apply find_none. intros i Hi. destruct (pos_decomp p i Hp Hi) as (k & Hk & ->). rewrite (disc_at h p f s0 k C Hk). subst f. reflexivity.
  - destruct (Nat.eqb_spec f N_) as [HfN|HfN].
    + apply find_unique; [exact Hp| |].
      * replace p with ((p + 0) mod N_)%nat at 1 by (rewrite Nat.add_0_r; apply Nat.mod_small; lia). rewrite (disc_at h p f s0 0%nat C ltac:(lia)).
        destruct (Nat.eqb_spec f 0); [lia|]. destruct (Nat.eqb_spec f N_); [reflexivity| lia].
      * intros i Hi Hne. destruct (pos_decomp p i Hp Hi) as (k & Hk & ->). rewrite (disc_at h p f s0 k C Hk).
        destruct (Nat.eqb_spec f 0); [lia|]. destruct (Nat.eqb_spec f N_); [|lia]. apply Nat.eqb_neq. intros ->. apply Hne. rewrite Nat.add_0_r. apply Nat.mod_small. lia.
    + apply find_unique; [apply Nat.mod_upper_bound; lia| |].
      * rewrite (disc_at h p f s0 f C ltac:(lia)). destruct (Nat.eqb_spec f 0); [lia|]. destruct (Nat.eqb_spec f N_); [lia|]. apply Nat.eqb_refl.
      * intros i Hi Hne. destruct (pos_decomp p i Hp Hi) as (k & Hk & ->). rewrite (disc_at h p f s0 k C Hk).
        destruct (Nat.eqb_spec f 0); [lia|]. destruct (Nat.eqb_spec f N_); [lia|]. apply Nat.eqb_neq. intros ->. apply Hne. reflexivity.
Qed.

(* find_oldest_slot on a consistent ring: the slot to overwrite is the first blank position after the newest slot
   (the oldest image when the ring is full, slot 0 when it is blank) and the sequence number is the successor of the newest *)
Lemma last_some_last (g : nat -> option N) k s : g k = Some s -> last_some g (S k) = Some s.
Proof. intros H. cbn [last_some]. now rewrite H. Qed.

Theorem find_oldest_spec h p f s0 : consistent h p f s0 ->
  find_oldest h =
    (if Nat.eqb f 0 then 0%nat else if Nat.eqb f N_ then p else ((p + f) mod N_)%nat,
     if Nat.eqb f 0 then 0%N else next_seq (iter_next (f - 1) s0)).
Proof.
  intros C. pose proof C as (Hp & Hf & H). unfold find_oldest, ordered. rewrite (oldest_index_spec h p f s0 C).
  destruct (Nat.eqb_spec f 0) as [Hf0|Hf0].
  - f_equal. match goal with |- match last_some ?g N_ with _ => _ end = _ => set (g0 := g) end.
    assert (G : forall k, (k <= N_)%nat -> last_some g0 k = None).
    { induction k as [|k IH]; intros Hk; [reflexivity|]. cbn [last_some]. unfold g0 at 1.
      destruct (pos_decomp p k Hp ltac:(lia)) as (j & Hj & ->). rewrite (H j Hj). subst f. cbn. apply IH. lia. }
    rewrite (G N_ (le_n _)). reflexivity.
  - f_equal. destruct N_ as [|n'] eqn:EN; [lia|].
    destruct (Nat.eqb_spec f (S n')) as [HfN|HfN].
    + erewrite last_some_last; [reflexivity|]. rewrite (H n' ltac:(lia)). destruct (Nat.ltb_spec n' f); [|lia]. f_equal. f_equal. lia.
    + erewrite last_some_last; [reflexivity|].
      replace (((p + f) mod S n' + n') mod S n')%nat with ((p + (f - 1)) mod S n')%nat.
      * rewrite (H (f - 1)%nat ltac:(lia)). destruct (Nat.ltb_spec (f - 1) f); [reflexivity| lia].
      * rewrite Nat.add_mod_idemp_l by lia. replace (p + f + n')%nat with (p + (f - 1) + 1 * S n')%nat by lia. now rewrite Nat.mod_add by lia.
Qed.
End Ring.

(* the side condition [no_cycle] holds for every ring that fits in memory: along a run, next_seq is +1 modulo 2^32 - 1 *)
Lemma next_seq_mod s : (s < 4294967295)%N -> next_seq s = ((s + 1) mod 4294967295)%N.
Proof.
  intros H. unfold next_seq. rewrite (N.mod_small (s + 1) 4294967296) by lia.
  destruct (N.eqb_spec (s + 1) 4294967295) as [E|E].
  - rewrite E. now rewrite N.mod_same.
  - symmetry. apply N.mod_small. lia.
Qed.
Lemma next_seq_lt s : (next_seq s < 4294967295)%N.
Proof.
  unfold next_seq. destruct (N.eqb_spec ((s + 1) mod 4294967296) 4294967295); [lia|].
  pose proof (N.mod_lt (s + 1) 4294967296 ltac:(lia)). lia.
Qed.
Lemma iter_next_mod k s : (s < 4294967295)%N -> iter_next k s = ((s + N.of_nat k) mod 4294967295)%N.
Proof.
  intros H. induction k as [|k IH]; cbn [iter_next].
  - rewrite N.add_0_r. symmetry. apply N.mod_small. exact H.
  - rewrite IH. rewrite next_seq_mod by (apply N.mod_lt; lia).
    rewrite N.add_mod_idemp_l by lia. f_equal. lia.
Qed.
Theorem no_cycle_holds s k : (s < 4294967295)%N -> (0 < k)%nat -> (N.of_nat k < 4294967295)%N -> iter_next k s <> s.
Proof.
  intros Hs Hk Hb E. rewrite iter_next_mod in E by exact Hs.
  assert (Q : ((s + N.of_nat k) mod 4294967295 = s mod 4294967295)%N) by (rewrite E; symmetry; apply N.mod_small; exact Hs).
  destruct (N.ltb_spec (s + N.of_nat k) 4294967295).
  - rewrite N.mod_small in E by lia. lia.
  - assert (Hd : ((s + N.of_nat k) = (s + N.of_nat k - 4294967295) + 1 * 4294967295)%N) by lia.
    rewrite Hd, N.mod_add in E by lia. rewrite N.mod_small in E by lia. lia.
Qed.
Theorem no_cycle_all N_ : (N.of_nat N_ < 4294967295)%N -> forall s k, (0 < k <= N_)%nat -> iter_next k s <> s.
Proof.
  intros HN s k Hk. destruct (N.ltb_spec s 4294967295) as [Hs|Hs].
  - apply no_cycle_holds; [exact Hs| lia| lia].
  - destruct k as [|k]; [lia|]. cbn [iter_next]. pose proof (next_seq_lt (iter_next k s)). lia.
Qed.

(* C20, ring placement, without side condition: for every slot count 2 <= N < 2^32 - 1 *)
Theorem ring_find_oldest N_ h p f s0 : (2 <= N_)%nat -> (N.of_nat N_ < 4294967295)%N -> consistent N_ h p f s0 ->
  find_oldest N_ h =
    (if Nat.eqb f 0 then 0%nat else if Nat.eqb f N_ then p else ((p + f) mod N_)%nat,
     if Nat.eqb f 0 then 0%N else next_seq (iter_next (f - 1) s0)).
Proof. intros H2 HN C. apply (find_oldest_spec N_ H2 (no_cycle_all N_ HN) h p f s0 C). Qed.
