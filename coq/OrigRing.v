From Coq Require Import List NArith Arith Bool Lia.
Import ListNotations.

(* original-flash-algo: ring.rs / manager.rs next_seq *)
Definition next_seq (s : N) : N := let t := ((s + 1) mod 4294967296)%N in if (t =? 4294967295)%N then 0%N else t.

Section Ring.
Variable N_ : nat.                       (* number of slots *)
Hypothesis HN : (2 <= N_)%nat.
Definition ring := nat -> option N.      (* sequence number visible at each position (None = blank / unparseable) *)

(* the discontinuity test of get_ordered_headers at index i (left neighbour wraps around) *)
Definition disc (h : ring) (i : nat) : bool :=
  match h ((i + N_ - 1) mod N_)%nat, h i with
  | Some _, None => true
  | Some s1, Some s2 => negb (s2 =? next_seq s1)%N
  | _, _ => false
  end.
Definition oldest_index (h : ring) : option nat := find (disc h) (seq 0 N_).
(* find_oldest_slot: position to overwrite and the next sequence number *)
Definition ordered (h : ring) (k : nat) : option N :=
  match oldest_index h with Some i => h ((i + k) mod N_)%nat | None => h k end.
Fixpoint last_some (h : nat -> option N) (k : nat) : option N :=
  match k with O => None | S k' => match h k' with Some s => Some s | None => last_some h k' end end.
Definition find_oldest (h : ring) : nat * N :=
  (match oldest_index h with Some i => i | None => 0%nat end,
   match last_some (ordered h) N_ with Some s => next_seq s | None => 0%N end).

(* a consistent ring: f consecutively numbered slots starting at position p with sequence number s0 *)
Fixpoint iter_next (k : nat) (s : N) : N := match k with O => s | S k' => next_seq (iter_next k' s) end.
Definition consistent (h : ring) (p f : nat) (s0 : N) : Prop :=
  (p < N_)%nat /\ (f <= N_)%nat /\
  forall k, (k < N_)%nat -> h ((p + k) mod N_)%nat = if (k <? f)%nat then Some (iter_next k s0) else None.

(* sequence numbers along a run never close a cycle of length <= N (N is far below 2^32 - 1) *)
Hypothesis no_cycle : forall s k, (0 < k <= N_)%nat -> iter_next k s <> s.

Lemma pos_decomp p i : (p < N_)%nat -> (i < N_)%nat -> exists k, (k < N_)%nat /\ i = ((p + k) mod N_)%nat.
Proof.
  intros Hp Hi. destruct (Nat.le_gt_cases p i).
  - exists (i - p)%nat. split; [lia|]. replace (p + (i - p))%nat with i by lia. symmetry. apply Nat.mod_small. lia.
  - exists (i + N_ - p)%nat. split; [lia|]. replace (p + (i + N_ - p))%nat with (i + 1 * N_)%nat by lia. rewrite Nat.mod_add by lia. symmetry. apply Nat.mod_small. lia.
Qed.

Lemma pred_pos p k : (p < N_)%nat -> (k < N_)%nat ->
  (((p + k) mod N_ + N_ - 1) mod N_ = (p + (if Nat.eqb k 0 then N_ - 1 else k - 1)) mod N_)%nat.
Proof.
  intros Hp Hk. destruct (Nat.eqb_spec k 0) as [->|Hk0].
  - rewrite Nat.add_0_r, (Nat.mod_small p) by lia. f_equal. lia.
  - replace ((p + k) mod N_ + N_ - 1)%nat with ((p + k) mod N_ + (N_ - 1))%nat by lia. rewrite Nat.add_mod_idemp_l by lia.
    replace (p + k + (N_ - 1))%nat with (p + (k - 1) + 1 * N_)%nat by lia. apply Nat.mod_add. lia.
Qed.

(* where the discontinuity is *)
Lemma disc_at h p f s0 k : consistent h p f s0 -> (k < N_)%nat ->
  disc h ((p + k) mod N_)%nat = if Nat.eqb f 0 then false else if Nat.eqb f N_ then Nat.eqb k 0 else Nat.eqb k f.
Proof.
  intros (Hp & Hf & H) Hk. unfold disc. rewrite (pred_pos p k Hp Hk), (H k Hk).
  destruct (Nat.eqb_spec k 0) as [->|Hk0].
  - rewrite (H (N_ - 1)%nat ltac:(lia)). destruct (Nat.eqb_spec f 0) as [->|Hf0].
    + destruct (Nat.ltb_spec (N_ - 1) 0); [lia|]. reflexivity.
    + destruct (Nat.ltb_spec 0 f); [|lia]. destruct (Nat.eqb_spec f N_) as [->|HfN].
      * destruct (Nat.ltb_spec (N_ - 1) N_); [|lia]. cbn [iter_next].
        destruct (N.eqb_spec s0 (next_seq (iter_next (N_ - 1) s0))) as [E|]; [|reflexivity].
        exfalso. apply (no_cycle s0 N_ ltac:(lia)). replace N_ with (S (N_ - 1)) at 1 by lia. cbn [iter_next]. congruence.
      * destruct (Nat.ltb_spec (N_ - 1) f); [lia|]. destruct (Nat.eqb_spec 0 f); [lia| reflexivity].
  - rewrite (H (k - 1)%nat ltac:(lia)). destruct (Nat.eqb_spec f 0) as [->|Hf0].
    + destruct (Nat.ltb_spec (k - 1) 0); [lia|]. reflexivity.
    + destruct (Nat.ltb_spec k f), (Nat.ltb_spec (k - 1) f); try lia.
      * replace k with (S (k - 1)) at 1 by lia. cbn [iter_next]. rewrite N.eqb_refl. cbn [negb].
        destruct (Nat.eqb_spec f N_); try reflexivity; symmetry; apply Nat.eqb_neq; lia.
      * destruct (Nat.eqb_spec f N_); [lia|]. symmetry. apply Nat.eqb_eq. lia.
      * destruct (Nat.eqb_spec f N_); [lia|]. symmetry. apply Nat.eqb_neq. lia.
Qed.

Lemma find_unique (f : nat -> bool) q : (q < N_)%nat -> f q = true -> (forall i, (i < N_)%nat -> i <> q -> f i = false) ->
  find f (seq 0 N_) = Some q.
Proof.
  intros Hq Hfq Hu.
  assert (G : forall k n0, (n0 <= q < n0 + k)%nat -> (forall i, (n0 <= i < n0 + k)%nat -> i <> q -> f i = false) -> find f (seq n0 k) = Some q).
  { induction k as [|k IH]; intros n0 Hr Hf; [lia|]. cbn [seq find]. destruct (Nat.eq_dec n0 q) as [->|Hne]; [now rewrite Hfq|].
    rewrite (Hf n0 ltac:(lia) Hne). apply IH; [lia| intros i Hi; apply Hf; lia]. }
  apply G; [lia| intros i Hi; apply Hu; lia].
Qed.
Lemma find_none (f : nat -> bool) : (forall i, (i < N_)%nat -> f i = false) -> find f (seq 0 N_) = None.
Proof.
  intros H. assert (G : forall k n0, (forall i, (n0 <= i < n0 + k)%nat -> f i = false) -> find f (seq n0 k) = None).
  { induction k as [|k IH]; intros n0 Hf; [reflexivity|]. cbn [seq find]. rewrite (Hf n0 ltac:(lia)). apply IH. intros i Hi. apply Hf. lia. }
  apply G. intros i Hi. apply H. lia.
Qed.

(* C20: the position the deprecated manager overwrites next is the one that follows the newest slot *)
Theorem oldest_index_spec h p f s0 : consistent h p f s0 ->
  oldest_index h = if Nat.eqb f 0 then None else Some (if Nat.eqb f N_ then p else ((p + f) mod N_)%nat).
Proof.
  intros C. pose proof C as (Hp & Hf & H). unfold oldest_index.
  destruct (Nat.eqb_spec f 0) as [Hf0|Hf0].
  - apply find_none. intros i Hi. destruct (pos_decomp p i Hp Hi) as (k & Hk & ->). rewrite (disc_at h p f s0 k C Hk). subst f. reflexivity.
  - destruct (Nat.eqb_spec f N_) as [HfN|HfN].
    + apply find_unique; [exact Hp| |].
      * replace p with ((p + 0) mod N_)%nat at 1 by (rewrite Nat.add_0_r; apply Nat.mod_small; lia). rewrite (disc_at h p f s0 0%nat C ltac:(lia)).
        destruct (Nat.eqb_spec f 0); [lia|]. destruct (Nat.eqb_spec f N_); [reflexivity| lia].
      * intros i Hi Hne. destruct (pos_decomp p i Hp Hi) as (k & Hk & ->). rewrite (disc_at h p f s0 k C Hk).
        destruct (Nat.eqb_spec f 0); [lia|]. destruct (Nat.eqb_spec f N_); [|lia]. apply Nat.eqb_neq. intros ->. apply Hne. rewrite Nat.add_0_r. apply Nat.mod_small. lia.
    + apply find_unique; [apply Nat.mod_upper_bound; lia| |].
      * rewrite (disc_at h p f s0 f C ltac:(lia)). destruct (Nat.eqb_spec f 0); [lia|]. destruct (Nat.eqb_spec f N_); [lia|]. apply Nat.eqb_refl.
      * intros i Hi Hne. destruct (pos_decomp p i Hp Hi) as (k & Hk & ->). rewrite (disc_at h p f s0 k C Hk).
        destruct (Nat.eqb_spec f 0); [lia|]. destruct (Nat.eqb_spec f N_); [lia|]. apply Nat.eqb_neq. intros ->. apply Hne. reflexivity.
Qed.
End Ring.
Check oldest_index_spec.
